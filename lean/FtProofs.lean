import FtProofs.Lemmas.Sorted
import FtProofs.Lemmas.Merge
import FtProofs.C04
