import FtModel
open Ft Ft.C09
abbrev T := Tree Coord Int
def t3 : T 3 := show List (Coord × T 2) from
  [([0], show List (Coord × T 1) from [([0], show List (Coord × T 0) from [([0],(1:Int)),([2],(2:Int))]), ([1], show List (Coord × T 0) from [([1],(3:Int))])]),
   ([1], show List (Coord × T 1) from [([0], show List (Coord × T 0) from [([0],(4:Int)),([1],(0:Int))]), ([3], show List (Coord × T 0) from [])]),
   ([2], show List (Coord × T 1) from [])]
def hd (c : Coord) : Coord := c.take 1
def tl (c : Coord) : Coord := c.drop 1
def combT (_ : Nat) (a b : Coord) : Coord := a ++ b
#eval (mergeLv combT mfRaise (0:Int) 0 1 t3 : Option (List (Coord × Int)))
#eval (mergeLv combT mfRaise (0:Int) 1 0 t3 : Option (List (Coord × List (Coord × Int))))
#eval (mergeLv (fun _ => flattenCoords .absolute 0) mfSum (0:Int) 0 1 t3 : Option (List (Coord × Int)))
#eval (mergeLv (fun _ => flattenCoords .absolute 0) mfSum (0:Int) 1 0 t3 : Option (List (Coord × List (Coord × Int))))
#eval (swapT (· ++ ·) List.reverse hd tl (0:Int) 0 1 t3 : Option (List (Coord × List (Coord × List (Coord × Int)))))
#eval (swapT (· ++ ·) List.reverse hd tl (0:Int) 1 0 t3 : Option (List (Coord × List (Coord × List (Coord × Int)))))
#eval (swizzle 0 2 [2,0,1] t3 : (List (Coord × List (Coord × List (Coord × Int)))))
#eval (swizzle 1 1 [1,0] t3 : (List (Coord × List (Coord × List (Coord × Int)))))
#eval ((mergeLv combT mfRaise (0:Int) 0 1 t3).bind (fun f => unflatLv hd tl 0 1 f) : Option (List (Coord × List (Coord × List (Coord × Int)))))
#eval content (0:Int) 3 t3
#eval swizzleSpec [2,0,1] (content (0:Int) 3 t3)
#eval flattenSpec combT 0 1 (content (0:Int) 3 t3)
#eval mergeSpec (fun _ => flattenCoords .absolute 0) mfSum 0 0 1 (content (0:Int) 3 t3)
#eval mergeSpec (fun _ => flattenCoords .absolute 0) mfSum 0 0 0 (content (0:Int) 3 t3)
