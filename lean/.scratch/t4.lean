import FtProofs.C09
open Ft Ft.C09
abbrev TI := Tree Int Int
abbrev TC := Tree Coord Int
def tI : TI 3 := show List (Int × TI 2) from
  [(0, show List (Int × TI 1) from [(0, show List (Int × TI 0) from [(0,(1:Int)),(2,(2:Int))]), (1, show List (Int × TI 0) from [(1,(3:Int))])]),
   (1, show List (Int × TI 1) from [(0, show List (Int × TI 0) from [(0,(4:Int)),(1,(0:Int))]), (3, show List (Int × TI 0) from [])]),
   (2, show List (Int × TI 1) from [])]
def tC : TC 3 := show List (Coord × TC 2) from
  [([0], show List (Coord × TC 1) from [([0], show List (Coord × TC 0) from [([0],(1:Int)),([2],(2:Int))]), ([1], show List (Coord × TC 0) from [([1],(3:Int))])]),
   ([1], show List (Coord × TC 1) from [([0], show List (Coord × TC 0) from [([0],(4:Int)),([1],(0:Int))]), ([3], show List (Coord × TC 0) from [])]),
   ([2], show List (Coord × TC 1) from [])]
example : wfB 3 tI = true := by decide
example : content (0:Int) 3 (swizzle 0 2 [2,0,1] tI) = [([0,0,0],1),([0,1,0],4),([1,0,1],3),([2,0,0],2)] := by decide
example : monoLvB (tupleComb (α := Int)) (0:Int) 0 1 tC = true := by decide
example : upperArB (ν := Int) 0 1 [1,1] tC = true := by decide
