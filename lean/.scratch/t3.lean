#check @List.Perm.eq_of_pairwise
#print List.Perm.eq_of_pairwise
