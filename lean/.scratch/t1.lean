#check @List.lt_irrefl
#check @List.lt_trans
#check @List.lt_trichotomy
#check @List.lt_asymm
#check @List.cons_lt_cons_iff
#check @List.mergeSort
#check @List.Lex
#check @List.lt_iff_lex_lt
#check @List.lex_lt
#check @List.not_lt_nil
#check @List.nil_lt_cons
#check @List.Perm
#check @List.Perm.pairwise_iff
#check @List.Pairwise.perm
#check @List.perm_insertionSort
example : ([1,2] : List Int) < [1,3] := by decide
example : ¬ ([1,2,0] : List Int) < [1,2] := by decide
example : ([1,2] : List Int) < [1,2,0] := by decide
#eval ([[1],[2]] : List (List Int)) < [[1],[2,0]]
