/-
  C04 / C05, uncompressed operands: what a "U" rank presents is C07's dense iteration; the merge theorems of C04
  are stated for any sorted presented lists, so they apply to it through `presentDense_spec`.
-/
import FtModel.Present
import FtProofs.C04
import FtProofs.C07
set_option linter.unusedSectionVars false
namespace Ft
open StrictTotal Ft.C07

section
variable {π : Type}

theorem presentDense_eq (mk : π) (f : Fib Int π) (hs : Sorted f) (lo hi : Int) :
    presentDense mk lo hi f = (pyRange lo hi 1).map (fun c => (c, (lookupPos mk f c).1)) := by
  unfold presentDense
  rw [iterRangeShape_spec mk f hs lo hi 1]
  unfold shapeSpec
  rw [List.map_map]
  rfl

/-- **C04/C05, uncompressed operand.**  A rank declared uncompressed presents exactly the coordinates of its active
    range `[lo, hi)`, ascending and each once; for each it delivers the operand's own stored payload (position `i`,
    whatever its value) if the coordinate is stored and a fresh default (`none`) if it is not. -/
theorem presentDense_spec (mk : π) (f : Fib Int π) (hs : Sorted f) (lo hi : Int) :
    Sorted (presentDense mk lo hi f) ∧
    (presentDense mk lo hi f).map (·.1) = pyRange lo hi 1 ∧
    ∀ x ∈ presentDense mk lo hi f,
      match x.2 with
      | some i => ∃ p, f[i]? = some (x.1, p)
      | none => lookup f x.1 = none := by
  rw [presentDense_eq mk f hs lo hi]
  refine ⟨?_, ?_, ?_⟩
  · unfold Sorted
    rw [List.pairwise_map]
    exact (pyRange_spec lo hi 1).2
  · rw [List.map_map]; simp [Function.comp_def]
  · intro x hx
    obtain ⟨c, _, rfl⟩ := List.mem_map.1 hx
    cases h : (lookupPos mk f c).1 with
    | some i => exact ⟨_, lookupPos_fst_some h⟩
    | none => exact lookupPos_fst_none h

/-- … so intersection against an uncompressed operand is the set intersection over its whole active range
    (instance of `and_spec`; the same instantiation applies to `sub_spec`, `or_sound`/`or_complete`, the n-ary and
    leader–follower theorems, which are all stated for arbitrary sorted presented lists) -/
theorem and_spec_uncompressed {β : Type} (mk : π) (a : Fib Int π) (ha : Sorted a) (lo hi : Int)
    (b : Fib Int β) (hb : Sorted b) :
    andMerge (presentDense mk lo hi a) b = andSpec (presentDense mk lo hi a) b :=
  and_spec _ _ (presentDense_spec mk a ha lo hi).1 hb

end

/-! non-vacuity: shape 4, stored {0 ↦ 5, 2 ↦ 0}: all four coordinates, the explicit default at 2 is the operand's own -/
#guard presentDense (0 : Int) 0 4 ([(0, 5), (2, 0)] : Fib Int Int) == [(0, some 0), (1, none), (2, some 1), (3, none)]
#guard presentDense (0 : Int) 1 3 ([(0, 5), (2, 0)] : Fib Int Int) == [(1, none), (2, some 1)]
end Ft
