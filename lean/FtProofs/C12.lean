/- C12 — property theorems (to be written) -/
