/-
  C12 — equality, emptiness and counting depend on content only.
  Property theorems only; helpers in FtProofs/Lemmas/{Content,EqLemmas}.lean.
-/
import FtProofs.Lemmas.EqLemmas
set_option linter.unusedSectionVars false
set_option linter.unusedSimpArgs false
namespace Ft
open StrictTotal

section
variable {κ ν : Type} [LT κ] [DecidableRel (α := κ) (· < ·)] [DecidableEq κ] [StrictTotal κ] [DecidableEq ν]

/-- auxiliary statement for payloads that a compressed rank presents (non-empty ones) -/
private theorem eq_iff_content_nonempty (da db : ν) : ∀ (d : Nat) (x y : Tree κ ν d),
    WF d x → WF d y → isEmpty da d x = false → isEmpty db d y = false →
    (fiberEq da db d x y = true ↔ content da d x = content db d y)
  | 0, x, y, _, _, hx, hy => by
    have hx' : (show ν from x) ≠ da := by simpa [isEmpty] using hx
    have hy' : (show ν from y) ≠ db := by simpa [isEmpty] using hy
    show decide ((show ν from x) = (show ν from y)) = true ↔
      (if (show ν from x) = da then [] else [([], (show ν from x))]) =
      (if (show ν from y) = db then [] else [([], (show ν from y))])
    simp [hx', hy']
    constructor
    · intro h; rw [h]
    · intro h; exact (Prod.mk.inj h).2
  | d + 1, a, b, ha, hb, _, _ => by
    show (orMerge (present da d a) (present db d b)).all (eqRow (fiberEq da db d)) = true ↔ _
    rw [all_eqRow_iff_groups (fiberEq da db d) (content da d) (content db d)]
    · show groups da d a = groups db d b ↔ _
      rw [content_eq_flat_groups, content_eq_flat_groups]
      constructor
      · intro h; rw [h]
      · exact flat_injective _ _ (groups_sorted ha.sorted) (groups_sorted hb.sorted)
          groups_nonempty groups_nonempty
    · intro e he f hf
      have he' := mem_present.1 he
      have hf' := mem_present.1 hf
      exact eq_iff_content_nonempty da db d e.2 f.2 (ha.sub e he'.1) (hb.sub f hf'.1) he'.2 hf'.2

/-- **C12, equality.** Two well-formed fibers compare equal exactly when they hold the same
    non-default leaf values at the same points (each side relative to its own default) —
    whatever explicit defaults or empty sub-fibers they carry. -/
theorem eq_iff_content (da db : ν) (d : Nat) (a b : Tree κ ν (d + 1))
    (ha : WF (d + 1) a) (hb : WF (d + 1) b) :
    fiberEq da db (d + 1) a b = true ↔ content da (d + 1) a = content db (d + 1) b := by
  show (orMerge (present da d a) (present db d b)).all (eqRow (fiberEq da db d)) = true ↔ _
  rw [all_eqRow_iff_groups (fiberEq da db d) (content da d) (content db d)]
  · show groups da d a = groups db d b ↔ _
    rw [content_eq_flat_groups, content_eq_flat_groups]
    constructor
    · intro h; rw [h]
    · exact flat_injective _ _ (groups_sorted ha.sorted) (groups_sorted hb.sorted)
        groups_nonempty groups_nonempty
  · intro e he f hf
    have he' := mem_present.1 he
    have hf' := mem_present.1 hf
    exact eq_iff_content_nonempty da db d e.2 f.2 (ha.sub e he'.1) (hb.sub f hf'.1) he'.2 hf'.2

/-- equality is reflexive (hence a deep copy — the same model value — equals its original) -/
theorem eq_refl (da : ν) (d : Nat) (a : Tree κ ν (d + 1)) (ha : WF (d + 1) a) :
    fiberEq da da (d + 1) a a = true := (eq_iff_content da da d a a ha ha).2 rfl

theorem eq_symm (da db : ν) (d : Nat) (a b : Tree κ ν (d + 1)) (ha : WF (d + 1) a) (hb : WF (d + 1) b) :
    fiberEq da db (d + 1) a b = fiberEq db da (d + 1) b a := by
  rw [Bool.eq_iff_iff, eq_iff_content da db d a b ha hb, eq_iff_content db da d b a hb ha]
  exact eq_comm

theorem eq_trans (da db dc : ν) (d : Nat) (a b c : Tree κ ν (d + 1))
    (ha : WF (d + 1) a) (hb : WF (d + 1) b) (hc : WF (d + 1) c)
    (h1 : fiberEq da db (d + 1) a b = true) (h2 : fiberEq db dc (d + 1) b c = true) :
    fiberEq da dc (d + 1) a c = true := by
  rw [eq_iff_content _ _ d _ _ ha hb] at h1
  rw [eq_iff_content _ _ d _ _ hb hc] at h2
  rw [eq_iff_content _ _ d _ _ ha hc, h1, h2]

/-- **emptiness**: a tree is empty exactly when it has no non-default point -/
theorem isEmpty_iff (dflt : ν) (d : Nat) (t : Tree κ ν d) :
    isEmpty dflt d t = true ↔ content dflt d t = [] := isEmpty_iff_content dflt d t

/-- **counting**: the value count is the number of non-default points -/
theorem countValues_eq (dflt : ν) (d : Nat) (t : Tree κ ν d) :
    countValues dflt d t = (content dflt d t).length := countValues_eq_length dflt d t

/-- **pruning** keeps the content … -/
theorem nonEmpty_content (dflt : ν) : ∀ (d : Nat) (t : Tree κ ν d),
    content dflt d (nonEmpty dflt d t) = content dflt d t
  | 0, _ => rfl
  | d + 1, f => by
    rw [content_present dflt d f, content_succ]
    show List.flatMap _ (((show List (κ × Tree κ ν d) from f).filter (fun e => !isEmpty dflt d e.2)).map
      (fun e => (e.1, nonEmpty dflt d e.2))) = List.flatMap _ (present dflt d f)
    rw [List.flatMap_map]
    unfold present
    congr 1
    funext e
    simp only [nonEmpty_content dflt d e.2]

theorem isEmpty_nonEmpty (dflt : ν) (d : Nat) (t : Tree κ ν d) :
    isEmpty dflt d (nonEmpty dflt d t) = isEmpty dflt d t := by
  rw [Bool.eq_iff_iff, isEmpty_iff_content, isEmpty_iff_content, nonEmpty_content]

/-- … leaves no explicit default and no empty sub-fiber … -/
theorem nonEmpty_canonical (dflt : ν) : ∀ (d : Nat) (t : Tree κ ν d),
    Canonical dflt d (nonEmpty dflt d t)
  | 0, _ => trivial
  | d + 1, f => by
    intro e he
    obtain ⟨x, hx, rfl⟩ := List.mem_map.1 he
    have hx' := (List.mem_filter.1 hx).2
    refine ⟨?_, nonEmpty_canonical dflt d x.2⟩
    show isEmpty dflt d (nonEmpty dflt d x.2) = false
    rw [isEmpty_nonEmpty]; simpa using hx'

/-- … and stays well-formed -/
theorem nonEmpty_wf (dflt : ν) : ∀ (d : Nat) (t : Tree κ ν d), WF d t → WF d (nonEmpty dflt d t)
  | 0, _, _ => trivial
  | d + 1, f, h => by
    refine ⟨?_, ?_⟩
    · exact sorted_map_key _ (fun e => nonEmpty dflt d e.2) (present_sorted h.sorted)
    · intro e he
      obtain ⟨x, hx, rfl⟩ := List.mem_map.1 he
      exact nonEmpty_wf dflt d x.2 (h.sub x (List.mem_filter.1 hx).1)

/-- the pruned copy is an equal tree -/
theorem nonEmpty_eq (dflt : ν) (d : Nat) (a : Tree κ ν (d + 1)) (ha : WF (d + 1) a) :
    fiberEq dflt dflt (d + 1) (nonEmpty dflt (d + 1) a) a = true :=
  (eq_iff_content dflt dflt d _ a (nonEmpty_wf dflt (d + 1) a ha) ha).2 (nonEmpty_content dflt (d + 1) a)

end

/-! ### non-vacuity: a depth-2 tree with an explicit default and an empty sub-fiber satisfies
the hypotheses (`WF`), and the functions behave non-trivially on it (`#guard` lines are tests). -/
section
private def exA : Tree Int Int 2 := [(0, [(1, (5 : Int)), (2, (0 : Int))]), (3, []), (4, [(0, (7 : Int))])]
private def exB : Tree Int Int 2 := [(0, [(1, (5 : Int))]), (4, [(0, (7 : Int)), (9, (0 : Int))])]
example : WF 2 exA := (wfB_iff 2 exA).1 (by decide)
example : WF 2 exB := (wfB_iff 2 exB).1 (by decide)
#guard fiberEq 0 0 2 exA exB
#guard content 0 2 exA == [([0, 1], 5), ([4, 0], 7)]
#guard countValues 0 2 exA == 2
#guard !(isEmpty 0 2 exA)
#guard canonicalB 0 2 (nonEmpty 0 2 exA) && !(canonicalB 0 2 exA)
end
end Ft
