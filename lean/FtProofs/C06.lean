/-
  C06 — kernel results do not depend on the dataflow used to compute them.
  Property theorems only; helper lemmas live in FtProofs/Lemmas/Kernel*.lean.

  Reading guide.  `C06.run style order ops zr z` (FtModel/Kernel.lean) is the loop nest exactly as the
  Python text is built from `&` / `Fiber.intersection`, `<<` and `+=`: `order` the loop variables
  outermost first, `ops` the operand cursors (rank ids = index variables, tree), `zr`/`z` the output's
  rank ids and tree.  `C06.einsum U order ops zpt q σ0` is the dense mathematical result at the output
  point `q`: the sum over all assignments of the index variables over the coordinate universe `U`
  whose output point is `q`, of the product of the operand values; `C06.dsum` is the same with the
  output variables fixed instead of filtered.  `C06.OpsOK` collects the side conditions of the idiom:
  operands concordant with the loop order (`swizzled to match`), every loop variable in some operand,
  well-formed trees with coordinates inside `U`.

  Stage B (generic, any expression / loop order / style): `kernel_denote`, `kernel_dense`,
  `kernel_content`, `kernel_content_list`, `kernel_content_points`, `style_irrelevant`,
  `lff_rows_eq_tf`, `loop_order_irrelevant` + `swizzle_same_tensor` (the model of `swizzleRanks`
  establishes its hypothesis), `tiling_irrelevant` + `splitUniform_tiles` (the model of
  `splitUniform` establishes its hypothesis).
  Stage A (instances, readable): `kernel_dot`, `kernel_elementwise`, `kernel_matvec`, `kernel_matvec_ki`,
  `kernel_row_reduce`, `kernel_col_reduce`, `kernel_matmul_all_orders`.
-/
import FtProofs.Lemmas.KernelRun
import FtProofs.Lemmas.KernelTile
import FtProofs.Lemmas.KernelSplit
import FtProofs.Lemmas.KernelSwizzle
import FtProofs.Lemmas.KernelContent
set_option linter.unusedSectionVars false
set_option linter.unusedSimpArgs false
set_option linter.unusedVariables false
namespace Ft
open StrictTotal C06

section
variable {κ : Type} [LT κ] [DecidableRel (α := κ) (· < ·)] [DecidableEq κ] [StrictTotal κ]

/-! ### Stage B: the generic kernel -/

/-- **the loop nest computes the dense einsum** — for every style of co-iteration, every loop
    order `order` (no repeated variable), every list of concordant well-formed operands, every
    output rank list concordant with the loop order and every well-formed initial output `z`:
    the result is well-formed and its value at *every* point is the initial value plus the dense
    sum of products. -/
theorem kernel_denote (style : Style) (U : List κ) (hU : Asc U) (order : List Nat) (ops : List (Cur κ))
    (zr : List Nat) (z : Tree κ Int zr.length)
    (hnd : order.Nodup) (hok : OpsOK U order ops) (hzr : zr.Sublist order) (hz : WF zr.length z) :
    WF zr.length (run style order ops zr z) ∧
    ∀ (σ0 : Nat → κ) (q : List κ), q.length = zr.length →
      val (0 : Int) zr.length (run style order ops zr z) q =
        val (0 : Int) zr.length z q + einsum U order ops (fun σ => zr.map σ) q σ0 :=
  run_spec style U hU order ops zr z hnd hok hzr hz

/-- … read point-wise: inside the universe the output variables are fixed to the point and the
    reduction variables are summed; outside the universe nothing is added -/
theorem kernel_dense (style : Style) (U : List κ) (hU : Asc U) (order : List Nat) (ops : List (Cur κ))
    (zr : List Nat) (z : Tree κ Int zr.length)
    (hnd : order.Nodup) (hok : OpsOK U order ops) (hzr : zr.Sublist order) (hz : WF zr.length z)
    (σ0 : Nat → κ) (q : List κ) (hq : q.length = zr.length) :
    val (0 : Int) zr.length (run style order ops zr z) q =
      val (0 : Int) zr.length z q +
        (if ∀ x ∈ q, x ∈ U then dsum U order zr q (prodVal ops) σ0 else 0) := by
  rw [(kernel_denote style U hU order ops zr z hnd hok hzr hz).2 σ0 q hq]
  congr 1
  unfold einsum
  by_cases h : ∀ x ∈ q, x ∈ U
  · rw [if_pos h]
    exact esum_eq_dsum U hU (prodVal ops) order zr q σ0 hnd hzr hq h
  · rw [if_neg h]
    apply esum_outside U (prodVal ops) order zr q σ0 (fun w hw => hzr.subset hw)
    apply Classical.byContradiction
    intro hne
    apply h
    intro x hx
    apply Classical.byContradiction
    intro hxU
    exact hne ⟨x, hx, hxU⟩

/-- **content of the output = the non-zero entries of the dense result**: starting from the empty
    output, looking a point up in the content list gives the dense value (0 = absent), and no
    entry of the content is zero. -/
theorem kernel_content (style : Style) (U : List κ) (hU : Asc U) (order : List Nat) (ops : List (Cur κ))
    (zr : List Nat) (hnd : order.Nodup) (hok : OpsOK U order ops) (hzr : zr.Sublist order)
    (σ0 : Nat → κ) :
    (∀ q, q.length = zr.length →
      (clookup (content (0 : Int) zr.length
        (run style order ops zr (defaultTree (0 : Int) zr.length))) q).getD 0 =
        einsum U order ops (fun σ => zr.map σ) q σ0) ∧
    (∀ pv ∈ content (0 : Int) zr.length (run style order ops zr (defaultTree (0 : Int) zr.length)),
      pv.2 ≠ 0) := by
  obtain ⟨hw, hv⟩ := kernel_denote style U hU order ops zr (defaultTree (0 : Int) zr.length) hnd hok hzr
    (wf_defaultTree (0 : Int) zr.length)
  constructor
  · intro q hq
    rw [← val_eq_content (0 : Int) zr.length _ hw q hq, hv σ0 q hq, val_defaultTree]
    simp
  · intro pv hpv
    exact content_ne_default (0 : Int) zr.length _ pv hpv

/-- … as lists (the form the driver evaluates on the implementation's output): for any
    lexicographically ascending list `cands` of points that contains every point where the dense
    result is non-zero, the content list of the output is exactly `denseOn … cands`: the candidate
    points with a non-zero dense value, in order, each with that value. -/
theorem kernel_content_list (style : Style) (U : List κ) (hU : Asc U) (order : List Nat) (ops : List (Cur κ))
    (zr : List Nat) (hnd : order.Nodup) (hok : OpsOK U order ops) (hzr : zr.Sublist order)
    (σ0 : Nat → κ) (cands : List (List κ)) (hc : cands.Pairwise (fun a b => lexLt a b = true))
    (hlen : ∀ q ∈ cands, q.length = zr.length)
    (hcov : ∀ q, q.length = zr.length → einsum U order ops (fun σ => zr.map σ) q σ0 ≠ 0 → q ∈ cands) :
    content (0 : Int) zr.length (run style order ops zr (defaultTree (0 : Int) zr.length)) =
      denseOn U order ops (fun σ => zr.map σ) σ0 cands := by
  obtain ⟨hw, hv⟩ := kernel_denote style U hU order ops zr (defaultTree (0 : Int) zr.length) hnd hok hzr
    (wf_defaultTree (0 : Int) zr.length)
  apply lexSorted_ext _ _ (content_lexSorted (0 : Int) zr.length _ hw)
    (denseOn_lexSorted U order ops _ σ0 cands hc)
  rintro ⟨p, v⟩
  rw [mem_content_iff (0 : Int) zr.length _ hw p v, mem_denseOn]
  constructor
  · rintro ⟨hl, hval, hne⟩
    rw [hv σ0 p hl, val_defaultTree, Int.zero_add] at hval
    exact ⟨hcov p hl (hval ▸ hne), hval.symm, hne⟩
  · rintro ⟨hq, hval, hne⟩
    have hl := hlen p hq
    refine ⟨hl, ?_, hne⟩
    rw [hv σ0 p hl, val_defaultTree, Int.zero_add, hval]

/-- … in particular over all points of the shape: **the content of the output is the list of the
    non-zero entries of the dense result, in lexicographic order** -/
theorem kernel_content_points (style : Style) (U : List κ) (hU : Asc U) (order : List Nat) (ops : List (Cur κ))
    (zr : List Nat) (hnd : order.Nodup) (hok : OpsOK U order ops) (hzr : zr.Sublist order) (σ0 : Nat → κ) :
    content (0 : Int) zr.length (run style order ops zr (defaultTree (0 : Int) zr.length)) =
      denseOn U order ops (fun σ => zr.map σ) σ0 (points U zr.length) := by
  apply kernel_content_list style U hU order ops zr hnd hok hzr σ0 _ (points_sorted U hU zr.length)
    (points_len U zr.length)
  intro q hq hne
  apply mem_points U zr.length q hq
  intro x hx
  apply Classical.byContradiction
  intro hxU
  exact hne (esum_outside U (prodVal ops) order zr q σ0 (fun w hw => hzr.subset hw) ⟨x, hx, hxU⟩)

/-- **either intersection style**: two-finger (`&`), leader-follower, and leader-follower with the
    emptiness filter give outputs with the same value at every point -/
theorem style_irrelevant [Inhabited κ] (s₁ s₂ : Style) (U : List κ) (hU : Asc U) (order : List Nat) (ops : List (Cur κ))
    (zr : List Nat) (z : Tree κ Int zr.length)
    (hnd : order.Nodup) (hok : OpsOK U order ops) (hzr : zr.Sublist order) (hz : WF zr.length z)
    (q : List κ) (hq : q.length = zr.length) :
    val (0 : Int) zr.length (run s₁ order ops zr z) q = val (0 : Int) zr.length (run s₂ order ops zr z) q := by
  have σ0 : Nat → κ := fun _ => default
  rw [(kernel_denote s₁ U hU order ops zr z hnd hok hzr hz).2 σ0 q hq,
    (kernel_denote s₂ U hU order ops zr z hnd hok hzr hz).2 σ0 q hq]

/-- **zero products filtered**: skipping the leader-follower rows whose follower payload is empty
    leaves exactly the rows of the two-finger intersection (same coordinates, same payloads) -/
theorem lff_rows_eq_tf (v : Nat) (parts : List (Cur κ)) (hv : ∀ p ∈ parts, isPart v p = true)
    (hw : ∀ p ∈ parts, WF p.ranks.length p.t) (hne : parts ≠ []) :
    coiter .lff parts = coiter .tf parts :=
  lff_eq_tf v parts (fun p hp => ⟨hv p hp, hw p hp⟩) hne

/-- **the nesting of the intersections is irrelevant**: `a & (b & c)` — the right operand a lazy
    intersection, built in place or hoisted out of the loop — delivers exactly the rows of
    `(a & b) & c` (same coordinates, same payloads in the same order) -/
theorem tfr_rows_eq_tf (v : Nat) (parts : List (Cur κ)) (hv : ∀ p ∈ parts, isPart v p = true)
    (hw : ∀ p ∈ parts, WF p.ranks.length p.t) (hne : parts ≠ []) :
    coiter .tfr parts = coiter .tf parts :=
  tfr_eq_tf v parts (fun p hp => ⟨hv p hp, hw p hp⟩) hne

/-- **every loop order with operands swizzled to match**: two loop nests over permutations of the
    same loop variables, whose operands denote the same tensors (each in the rank order its loop
    order needs) and whose outputs have the same ranks (each in its loop order), produce outputs
    with the same value at every point — for any two styles. -/
theorem loop_order_irrelevant (s₁ s₂ : Style) (U : List κ) (hU : Asc U)
    (order₁ order₂ : List Nat) (ops₁ ops₂ : List (Cur κ)) (zr₁ zr₂ : List Nat)
    (z₁ : Tree κ Int zr₁.length) (z₂ : Tree κ Int zr₂.length)
    (hperm : order₁.Perm order₂) (hzperm : zr₁.Perm zr₂) (hsame : SameOps ops₁ ops₂)
    (hnd : order₁.Nodup) (hok₁ : OpsOK U order₁ ops₁) (hok₂ : OpsOK U order₂ ops₂)
    (hzr₁ : zr₁.Sublist order₁) (hzr₂ : zr₂.Sublist order₂)
    (hz₁ : WF zr₁.length z₁) (hz₂ : WF zr₂.length z₂) (τ : Nat → κ)
    (hz : val (0 : Int) zr₁.length z₁ (zr₁.map τ) = val (0 : Int) zr₂.length z₂ (zr₂.map τ)) :
    val (0 : Int) zr₁.length (run s₁ order₁ ops₁ zr₁ z₁) (zr₁.map τ) =
      val (0 : Int) zr₂.length (run s₂ order₂ ops₂ zr₂ z₂) (zr₂.map τ) := by
  have hnd₂ : order₂.Nodup := hperm.nodup_iff.1 hnd
  rw [(kernel_denote s₁ U hU order₁ ops₁ zr₁ z₁ hnd hok₁ hzr₁ hz₁).2 τ _ (by simp),
    (kernel_denote s₂ U hU order₂ ops₂ zr₂ z₂ hnd₂ hok₂ hzr₂ hz₂).2 τ _ (by simp), hz]
  congr 1
  unfold einsum
  rw [esum_perm U hperm]
  apply esum_congr
  intro σ _
  have hiff : (zr₁.map σ = zr₁.map τ) ↔ (zr₂.map σ = zr₂.map τ) := by
    rw [List.map_inj_left, List.map_inj_left]
    exact ⟨fun h a ha => h a (hzperm.mem_iff.2 ha), fun h a ha => h a (hzperm.mem_iff.1 ha)⟩
  rw [prodVal_same hsame σ]
  by_cases h : zr₁.map σ = zr₁.map τ
  · rw [if_pos h, if_pos (hiff.1 h)]
  · rw [if_neg h, if_neg (fun h' => h (hiff.2 h'))]

/-- **`swizzleRanks` re-orders without changing the tensor** (model of `Tensor.swizzleRanks`:
    flatten the top `s` ranks into coordinate tuples, permute each tuple by `guide`, sort, regroup;
    the `r` ranks below move with their parent).  For a well-formed operand with ranks `top ++ low`
    and any permutation `guide` of the `s` top positions, the swizzled tree read with ranks
    `permute guide top ++ low` is well-formed, stays inside the universe and is the `SameTensor`. -/
theorem swizzle_same_tensor (U : List κ) (r s : Nat) (guide : List Nat) (hg : guide.Perm (List.range s))
    (top low : List Nat) (htop : top.length = s) (hlow : low.length = r)
    (t : Tree κ Int (r + s)) (hw : WF (r + s) t) (hin : coordsInB U (r + s) t = true) :
    WF (r + s) (swizzle (0 : Int) r s guide t) ∧
    coordsInB U (r + s) (swizzle (0 : Int) r s guide t) = true ∧
    SameTensor
      (Cur.ofTree (top ++ low) (r + s) (by simp [htop, hlow]; omega) t)
      (Cur.ofTree (permute guide top ++ low) (r + s) (by
        have hr : ∀ g ∈ guide, g < top.length := fun g hgm => htop ▸ List.mem_range.1 (hg.mem_iff.1 hgm)
        rw [List.length_append, permute_length guide top hr, hg.length_eq, List.length_range, hlow]; omega)
        (swizzle (0 : Int) r s guide t)) :=
  ⟨(swizzle_spec (0 : Int) r s guide hg t hw).1, swizzle_in U r s guide hg t hw hin,
   swizzle_sameTensor r s guide hg top low htop hlow t hw⟩

/-! ### every uniform tiling, applied consistently to the operands -/

section tiling

/-- **tiling is irrelevant.**  Index variable `v` is tiled with `step`: a new loop variable `v1`
    (the upper half) is added anywhere in the loop order (`order'` is any permutation of
    `v1 :: order`), every operand that has rank `v` is replaced by its tiled version (`Tiled`: value
    `A[.., x, ..]` at `(.., x1, x, ..)` iff `x1 = x / step * step`, else 0 — what `splitUniform`
    produces, `splitUniform_tiles`), the other operands are unchanged, and the output gains rank `v1`
    iff it has rank `v`.  Then, starting from empty outputs, the tiled loop nest and the original loop
    nest agree at every point (the tiled output is 0 where the upper coordinate is not the tile of
    the lower one) — for any two styles and any placement of the two halves in the loop order. -/
theorem tiling_irrelevant (s s' : Style) (step : Int) (U : List Int) (hU : Asc U)
    (htile : ∀ x ∈ U, tileOf step x ∈ U) (v v1 : Nat)
    (order order' : List Nat) (ops ops' : List (Cur Int)) (zr zr' : List Nat)
    (hnd : order.Nodup) (hv : v ∈ order) (hv1 : v1 ∉ order) (hperm : order'.Perm (v1 :: order))
    (hok : OpsOK U order ops) (hok' : OpsOK U order' ops')
    (hzr : zr.Sublist order) (hzr' : zr'.Sublist order')
    (hzmem : ∀ w, w ∈ zr' ↔ (w ∈ zr ∨ (w = v1 ∧ v ∈ zr)))
    (h1 : TiledOps step v v1 ops ops') (h2 : AnyTiled step v v1 ops ops') (τ : Nat → Int) :
    val (0 : Int) zr'.length (run s' order' ops' zr' (defaultTree (0 : Int) zr'.length)) (zr'.map τ) =
      if (v ∈ zr → τ v1 = tileOf step (τ v)) then
        val (0 : Int) zr.length (run s order ops zr (defaultTree (0 : Int) zr.length)) (zr.map τ)
      else 0 := by
  have hnd' : order'.Nodup := hperm.nodup_iff.2 (List.nodup_cons.2 ⟨hv1, hnd⟩)
  rw [(kernel_denote s' U hU order' ops' zr' _ hnd' hok' hzr' (wf_defaultTree (0 : Int) zr'.length)).2 τ _ (by simp),
    (kernel_denote s U hU order ops zr _ hnd hok hzr (wf_defaultTree (0 : Int) zr.length)).2 τ _ (by simp),
    val_defaultTree, val_defaultTree, Int.zero_add, Int.zero_add]
  exact einsum_tiled step U hU htile v v1 order order' ops ops' zr zr' hv hv1 hperm
    (fun w hw => hzr.subset hw) hzmem (fun c hc h => hv1 ((hok.conc c hc).subset h)) h1 h2 τ τ

/-- **`splitUniform` produces the tiled operand** (model of `Tensor.splitUniform(step, rankid=v)`
    with halo 0 and absolute coordinates, FtModel.Split / C08): for a well-formed operand with ranks
    `pre ++ v :: post` whose coordinates lie inside the active range `[as, ae)` of the split rank
    (a universe closed under the tile map), the split tree is well-formed, stays inside the universe
    and, read with ranks `pre ++ v1 :: v :: post`, is `Tiled`. -/
theorem splitUniform_tiles (step as ae : Int) (hs : 0 < step) (hact : as < ae) (U : List Int)
    (hUr : ∀ x ∈ U, as ≤ x ∧ x < ae) (htile : ∀ x ∈ U, tileOf step x ∈ U) (pre post : List Nat) (v v1 : Nat)
    (t : Tree Int Int (post.length + 1 + pre.length)) (r : Tree Int Int (post.length + 2 + pre.length))
    (hw : WF _ t) (hin : coordsInB U _ t = true)
    (hr : splitAt { op := .uniform step, act := some (as, ae) } (0 : Int) post.length pre.length t = some r) :
    WF _ r ∧ coordsInB U _ r = true ∧
    Tiled step v v1
      (Cur.ofTree (pre ++ v :: post) (post.length + 1 + pre.length) (by simp; omega) t)
      (Cur.ofTree (pre ++ v1 :: v :: post) (post.length + 2 + pre.length) (by simp; omega) r) :=
  ⟨(splitAt_ok step as ae hs hact U hUr htile post.length pre.length t r hw hin hr).1,
   (splitAt_ok step as ae hs hact U hUr htile post.length pre.length t r hw hin hr).2,
   splitUniform_tiled step as ae hs hact U hUr pre post v v1 t r hw hin hr⟩

end tiling

/-! ### Stage A: the named kernels, read off the generic theorem

  Index variables are numbered 0, 1, 2; `U` is the coordinate universe of every rank (a strictly
  ascending list containing all stored coordinates); the statements are for points inside `U`
  (outside, nothing is added: `kernel_dense`). -/

section stageA
variable [Inhabited κ] (style : Style) (U : List κ) (hU : Asc U)
include hU

/-- **dot product** `z += Σ_k a_k·b_k` -/
theorem kernel_dot (a b : Tree κ Int 1) (z : Int) (ha : WF 1 a) (hb : WF 1 b)
    (haU : coordsInB U 1 a = true) (hbU : coordsInB U 1 b = true) :
    val (0 : Int) 0 (run style [0] [⟨[0], a⟩, ⟨[0], b⟩] [] z) [] =
      z + (U.map (fun k => val (0 : Int) 1 a [k] * val (0 : Int) 1 b [k])).sum := by
  have hok : OpsOK U [0] [(⟨[0], a⟩ : Cur κ), ⟨[0], b⟩] :=
    opsOK_of_shape U _ _ rfl (by
      intro c hc
      simp only [List.mem_cons, List.mem_nil_iff, or_false] at hc
      rcases hc with rfl | rfl
      · exact ⟨ha, haU⟩
      · exact ⟨hb, hbU⟩)
  refine (kernel_dense style U hU [0] _ [] z (by decide) hok (by decide) trivial (fun _ => default) [] rfl).trans ?_
  simp [dsum, prodVal, prodL, cval, upd, val]

/-- **element-wise product** `z_i += a_i·b_i` -/
theorem kernel_elementwise (a b z : Tree κ Int 1) (ha : WF 1 a) (hb : WF 1 b) (hz : WF 1 z)
    (haU : coordsInB U 1 a = true) (hbU : coordsInB U 1 b = true) (i : κ) (hi : i ∈ U) :
    val (0 : Int) 1 (run style [0] [⟨[0], a⟩, ⟨[0], b⟩] [0] z) [i] =
      val (0 : Int) 1 z [i] + val (0 : Int) 1 a [i] * val (0 : Int) 1 b [i] := by
  have hok : OpsOK U [0] [(⟨[0], a⟩ : Cur κ), ⟨[0], b⟩] :=
    opsOK_of_shape U _ _ rfl (by
      intro c hc
      simp only [List.mem_cons, List.mem_nil_iff, or_false] at hc
      rcases hc with rfl | rfl
      · exact ⟨ha, haU⟩
      · exact ⟨hb, hbU⟩)
  refine (kernel_dense style U hU [0] _ [0] z (by decide) hok (by decide) hz (fun _ => default) [i] rfl).trans ?_
  congr 1
  rw [if_pos (by intro x hx; simp at hx; rcases hx with rfl; assumption)]
  simp [dsum, prodVal, prodL, cval, upd]

/-- **matrix-vector** `z_i += Σ_k A_ik·b_k`, loop order (i, k) -/
theorem kernel_matvec (A : Tree κ Int 2) (b z : Tree κ Int 1) (hA : WF 2 A) (hb : WF 1 b) (hz : WF 1 z)
    (hAU : coordsInB U 2 A = true) (hbU : coordsInB U 1 b = true) (i : κ) (hi : i ∈ U) :
    val (0 : Int) 1 (run style [0, 1] [⟨[0, 1], A⟩, ⟨[1], b⟩] [0] z) [i] =
      val (0 : Int) 1 z [i] + (U.map (fun k => val (0 : Int) 2 A [i, k] * val (0 : Int) 1 b [k])).sum := by
  have hok : OpsOK U [0, 1] [(⟨[0, 1], A⟩ : Cur κ), ⟨[1], b⟩] :=
    opsOK_of_shape U _ _ rfl (by
      intro c hc
      simp only [List.mem_cons, List.mem_nil_iff, or_false] at hc
      rcases hc with rfl | rfl
      · exact ⟨hA, hAU⟩
      · exact ⟨hb, hbU⟩)
  refine (kernel_dense style U hU [0, 1] _ [0] z (by decide) hok (by decide) hz (fun _ => default) [i] rfl).trans ?_
  congr 1
  rw [if_pos (by intro x hx; simp at hx; rcases hx with rfl; assumption)]
  simp [dsum, prodVal, prodL, cval, upd]

/-- … and in loop order (k, i) on the transposed matrix (`At` has ranks (k, i)): the populate of the
    output is now *inside* the reduction loop -/
theorem kernel_matvec_ki (At : Tree κ Int 2) (b z : Tree κ Int 1) (hA : WF 2 At) (hb : WF 1 b) (hz : WF 1 z)
    (hAU : coordsInB U 2 At = true) (hbU : coordsInB U 1 b = true) (i : κ) (hi : i ∈ U) :
    val (0 : Int) 1 (run style [1, 0] [⟨[1, 0], At⟩, ⟨[1], b⟩] [0] z) [i] =
      val (0 : Int) 1 z [i] + (U.map (fun k => val (0 : Int) 2 At [k, i] * val (0 : Int) 1 b [k])).sum := by
  have hok : OpsOK U [1, 0] [(⟨[1, 0], At⟩ : Cur κ), ⟨[1], b⟩] :=
    opsOK_of_shape U _ _ rfl (by
      intro c hc
      simp only [List.mem_cons, List.mem_nil_iff, or_false] at hc
      rcases hc with rfl | rfl
      · exact ⟨hA, hAU⟩
      · exact ⟨hb, hbU⟩)
  refine (kernel_dense style U hU [1, 0] _ [0] z (by decide) hok (by decide) hz (fun _ => default) [i] rfl).trans ?_
  congr 1
  rw [if_pos (by intro x hx; simp at hx; rcases hx with rfl; assumption)]
  simp [dsum, prodVal, prodL, cval, upd]

/-- **row reduction** `z_i += Σ_k A_ik` -/
theorem kernel_row_reduce (A : Tree κ Int 2) (z : Tree κ Int 1) (hA : WF 2 A) (hz : WF 1 z)
    (hAU : coordsInB U 2 A = true) (i : κ) (hi : i ∈ U) :
    val (0 : Int) 1 (run style [0, 1] [⟨[0, 1], A⟩] [0] z) [i] =
      val (0 : Int) 1 z [i] + (U.map (fun k => val (0 : Int) 2 A [i, k])).sum := by
  have hok : OpsOK U [0, 1] [(⟨[0, 1], A⟩ : Cur κ)] :=
    opsOK_of_shape U _ _ rfl (by
      intro c hc
      simp only [List.mem_cons, List.mem_nil_iff, or_false] at hc
      rcases hc with rfl
      exact ⟨hA, hAU⟩)
  refine (kernel_dense style U hU [0, 1] _ [0] z (by decide) hok (by decide) hz (fun _ => default) [i] rfl).trans ?_
  congr 1
  rw [if_pos (by intro x hx; simp at hx; rcases hx with rfl; assumption)]
  simp [dsum, prodVal, prodL, cval, upd]

/-- **column reduction** `z_k += Σ_i A_ik` on the matrix as stored (ranks (i, k)): the output is
    populated inside the reduction loop, so sums that cancel are removed again -/
theorem kernel_col_reduce (A : Tree κ Int 2) (z : Tree κ Int 1) (hA : WF 2 A) (hz : WF 1 z)
    (hAU : coordsInB U 2 A = true) (k : κ) (hk : k ∈ U) :
    val (0 : Int) 1 (run style [0, 1] [⟨[0, 1], A⟩] [1] z) [k] =
      val (0 : Int) 1 z [k] + (U.map (fun i => val (0 : Int) 2 A [i, k])).sum := by
  have hok : OpsOK U [0, 1] [(⟨[0, 1], A⟩ : Cur κ)] :=
    opsOK_of_shape U _ _ rfl (by
      intro c hc
      simp only [List.mem_cons, List.mem_nil_iff, or_false] at hc
      rcases hc with rfl
      exact ⟨hA, hAU⟩)
  refine (kernel_dense style U hU [0, 1] _ [1] z (by decide) hok (by decide) hz (fun _ => default) [k] rfl).trans ?_
  congr 1
  rw [if_pos (by intro x hx; simp at hx; rcases hx with rfl; assumption)]
  simp [dsum, prodVal, prodL, cval, upd]

/-- **matrix-matrix product in all six loop orders** `Z_ij += Σ_k A_ik·B_kj`.  `A`/`At` are the
    matrix with ranks (i,k)/(k,i), `B`/`Bt` with ranks (k,j)/(j,k), the outputs `Z`/`Zt` with ranks
    (i,j)/(j,i) — each loop order uses the layouts concordant with it; the transposed layouts
    denote the same matrices.  All six nests add the same dense product. -/
theorem kernel_matmul_all_orders (A At B Bt Z Zt : Tree κ Int 2)
    (hA : WF 2 A) (hAt : WF 2 At) (hB : WF 2 B) (hBt : WF 2 Bt) (hZ : WF 2 Z) (hZt : WF 2 Zt)
    (hAU : coordsInB U 2 A = true) (hAtU : coordsInB U 2 At = true)
    (hBU : coordsInB U 2 B = true) (hBtU : coordsInB U 2 Bt = true)
    (tA : ∀ i k, val (0 : Int) 2 At [k, i] = val (0 : Int) 2 A [i, k])
    (tB : ∀ k j, val (0 : Int) 2 Bt [j, k] = val (0 : Int) 2 B [k, j])
    (i j : κ) (hi : i ∈ U) (hj : j ∈ U) :
    let dense := (U.map (fun k => val (0 : Int) 2 A [i, k] * val (0 : Int) 2 B [k, j])).sum
    -- (i, k, j)
    val (0 : Int) 2 (run style [0, 1, 2] [⟨[0, 1], A⟩, ⟨[1, 2], B⟩] [0, 2] Z) [i, j] = val (0 : Int) 2 Z [i, j] + dense ∧
    -- (i, j, k)
    val (0 : Int) 2 (run style [0, 2, 1] [⟨[0, 1], A⟩, ⟨[2, 1], Bt⟩] [0, 2] Z) [i, j] = val (0 : Int) 2 Z [i, j] + dense ∧
    -- (k, i, j)
    val (0 : Int) 2 (run style [1, 0, 2] [⟨[1, 0], At⟩, ⟨[1, 2], B⟩] [0, 2] Z) [i, j] = val (0 : Int) 2 Z [i, j] + dense ∧
    -- (k, j, i)
    val (0 : Int) 2 (run style [1, 2, 0] [⟨[1, 0], At⟩, ⟨[1, 2], B⟩] [2, 0] Zt) [j, i] = val (0 : Int) 2 Zt [j, i] + dense ∧
    -- (j, i, k)
    val (0 : Int) 2 (run style [2, 0, 1] [⟨[0, 1], A⟩, ⟨[2, 1], Bt⟩] [2, 0] Zt) [j, i] = val (0 : Int) 2 Zt [j, i] + dense ∧
    -- (j, k, i)
    val (0 : Int) 2 (run style [2, 1, 0] [⟨[1, 0], At⟩, ⟨[2, 1], Bt⟩] [2, 0] Zt) [j, i] = val (0 : Int) 2 Zt [j, i] + dense := by
  intro dense
  have two : ∀ (X Y : Cur κ) (hX : WF X.ranks.length X.t ∧ coordsInB U X.ranks.length X.t = true)
      (hY : WF Y.ranks.length Y.t ∧ coordsInB U Y.ranks.length Y.t = true),
      ∀ c ∈ [X, Y], WF c.ranks.length c.t ∧ coordsInB U c.ranks.length c.t = true := by
    intro X Y hX hY c hc
    simp only [List.mem_cons, List.mem_nil_iff, or_false] at hc
    rcases hc with rfl | rfl
    · exact hX
    · exact hY
  have inU2 : ∀ x y : κ, x ∈ U → y ∈ U → ∀ w ∈ [x, y], w ∈ U := by
    intro x y hx hy w hw
    simp only [List.mem_cons, List.mem_nil_iff, or_false] at hw
    rcases hw with rfl | rfl <;> assumption
  refine ⟨?_, ?_, ?_, ?_, ?_, ?_⟩
  · refine (kernel_dense style U hU [0, 1, 2] _ [0, 2] Z (by decide)
      (opsOK_of_shape U _ _ rfl (two ⟨[0, 1], A⟩ ⟨[1, 2], B⟩ ⟨hA, hAU⟩ ⟨hB, hBU⟩)) (by decide) hZ
      (fun _ => default) [i, j] rfl).trans ?_
    congr 1
    rw [if_pos (inU2 i j hi hj)]
    simp [dsum, prodVal, prodL, cval, upd, dense]
  · refine (kernel_dense style U hU [0, 2, 1] _ [0, 2] Z (by decide)
      (opsOK_of_shape U _ _ rfl (two ⟨[0, 1], A⟩ ⟨[2, 1], Bt⟩ ⟨hA, hAU⟩ ⟨hBt, hBtU⟩)) (by decide) hZ
      (fun _ => default) [i, j] rfl).trans ?_
    congr 1
    rw [if_pos (inU2 i j hi hj)]
    simp [dsum, prodVal, prodL, cval, upd, dense, tB]
  · refine (kernel_dense style U hU [1, 0, 2] _ [0, 2] Z (by decide)
      (opsOK_of_shape U _ _ rfl (two ⟨[1, 0], At⟩ ⟨[1, 2], B⟩ ⟨hAt, hAtU⟩ ⟨hB, hBU⟩)) (by decide) hZ
      (fun _ => default) [i, j] rfl).trans ?_
    congr 1
    rw [if_pos (inU2 i j hi hj)]
    simp [dsum, prodVal, prodL, cval, upd, dense, tA]
  · refine (kernel_dense style U hU [1, 2, 0] _ [2, 0] Zt (by decide)
      (opsOK_of_shape U _ _ rfl (two ⟨[1, 0], At⟩ ⟨[1, 2], B⟩ ⟨hAt, hAtU⟩ ⟨hB, hBU⟩)) (by decide) hZt
      (fun _ => default) [j, i] rfl).trans ?_
    congr 1
    rw [if_pos (inU2 j i hj hi)]
    simp [dsum, prodVal, prodL, cval, upd, dense, tA]
  · refine (kernel_dense style U hU [2, 0, 1] _ [2, 0] Zt (by decide)
      (opsOK_of_shape U _ _ rfl (two ⟨[0, 1], A⟩ ⟨[2, 1], Bt⟩ ⟨hA, hAU⟩ ⟨hBt, hBtU⟩)) (by decide) hZt
      (fun _ => default) [j, i] rfl).trans ?_
    congr 1
    rw [if_pos (inU2 j i hj hi)]
    simp [dsum, prodVal, prodL, cval, upd, dense, tB]
  · refine (kernel_dense style U hU [2, 1, 0] _ [2, 0] Zt (by decide)
      (opsOK_of_shape U _ _ rfl (two ⟨[1, 0], At⟩ ⟨[2, 1], Bt⟩ ⟨hAt, hAtU⟩ ⟨hBt, hBtU⟩)) (by decide) hZt
      (fun _ => default) [j, i] rfl).trans ?_
    congr 1
    rw [if_pos (inU2 j i hj hi)]
    simp [dsum, prodVal, prodL, cval, upd, dense, tA, tB]

end stageA

end

/-! ### non-vacuity: the hypotheses hold for non-trivial programs, and the model computes -/
section
private def exU : List Int := [0, 1, 2]
/-- A (ranks i,k) with an explicit zero and an empty row, B (ranks k,j) -/
private def exA : Tree Int Int 2 :=
  (show List (Int × Tree Int Int 1) from
    [(0, (show List (Int × Int) from [(0, 1), (1, 2)])), (1, (show List (Int × Int) from [])),
     (2, (show List (Int × Int) from [(1, 0), (2, -1)]))])
private def exB : Tree Int Int 2 :=
  (show List (Int × Tree Int Int 1) from
    [(0, (show List (Int × Int) from [(0, 3)])), (1, (show List (Int × Int) from [(0, -1), (2, 5)])),
     (2, (show List (Int × Int) from [(2, 5)]))])
private def exBt : Tree Int Int 2 :=
  (show List (Int × Tree Int Int 1) from
    [(0, (show List (Int × Int) from [(0, 3), (1, -1)])), (2, (show List (Int × Int) from [(1, 5), (2, 5)]))])
private def exOps : List (Cur Int) := [⟨[0, 1], exA⟩, ⟨[1, 2], exB⟩]

example : Asc exU := by unfold Asc exU; decide
example : OpsOK exU [0, 1, 2] exOps :=
  opsOK_of_shape exU _ _ rfl (by
    intro c hc
    simp only [exOps, List.mem_cons, List.mem_nil_iff, or_false] at hc
    rcases hc with rfl | rfl
    · exact ⟨(wfB_iff 2 exA).1 (by decide), by decide⟩
    · exact ⟨(wfB_iff 2 exB).1 (by decide), by decide⟩)
example : ([0, 2] : List Nat).Sublist [0, 1, 2] := by decide

-- Z = A·B computed by the loop nest in two loop orders and three styles; row 2 cancels: 0·(-1)… and
-- (2,2): -1·5 = -5; (0,0): 1·3 + 2·(-1) = 1; (0,2): 2·5 = 10
#guard content (0 : Int) 2 (run .tf [0, 1, 2] exOps [0, 2] (defaultTree 0 2)) == [([0, 0], 1), ([0, 2], 10), ([2, 2], -5)]
#guard content (0 : Int) 2 (run .lf [0, 1, 2] exOps [0, 2] (defaultTree 0 2)) == [([0, 0], 1), ([0, 2], 10), ([2, 2], -5)]
#guard content (0 : Int) 2 (run .lff [0, 1, 2] exOps [0, 2] (defaultTree 0 2)) == [([0, 0], 1), ([0, 2], 10), ([2, 2], -5)]
#guard content (0 : Int) 2 (run .tfr [0, 1, 2] exOps [0, 2] (defaultTree 0 2)) == [([0, 0], 1), ([0, 2], 10), ([2, 2], -5)]
#guard content (0 : Int) 2 (run .tf [0, 2, 1] [⟨[0, 1], exA⟩, ⟨[2, 1], exBt⟩] [0, 2] (defaultTree 0 2))
  == [([0, 0], 1), ([0, 2], 10), ([2, 2], -5)]
#guard einsum exU [0, 1, 2] exOps (fun σ => [0, 2].map σ) [0, 2] (fun _ => 0) == 10
#guard dsum exU [0, 1, 2] [0, 2] [0, 0] (prodVal exOps) (fun _ => 0) == 1
-- the content list is the dense result over all points of the shape (kernel_content_list)
example : (points exU 2).Pairwise (fun a b => lexLt a b = true) := by decide
#guard content (0 : Int) 2 (run .lf [0, 1, 2] exOps [0, 2] (defaultTree 0 2))
  == denseOn exU [0, 1, 2] exOps (fun σ => [0, 2].map σ) (fun _ => 0) (points exU 2)
-- swizzling B (ranks k,j) with guide [1,0] gives Bt (ranks j,k): the same tensor
example : SameTensor (Cur.ofTree [1, 2] (0 + 2) rfl exB) (Cur.ofTree [2, 1] (0 + 2) rfl exBt) := by
  have h := (swizzle_same_tensor exU 0 2 [1, 0] (by decide) [1, 2] [] rfl rfl exB
    ((wfB_iff 2 exB).1 (by decide)) (by decide)).2.2
  have e : swizzle (0 : Int) 0 2 [1, 0] exB = exBt := by decide
  rw [e] at h
  exact h
-- the swizzle model turns B (k,j) into Bt (j,k)
#guard decide (swizzle (0 : Int) 0 2 [1, 0] (show Tree Int Int (0 + 2) from exB) = exBt)
-- tiling: a = [1, ·, 3, -1] split with step 2 over the shape [0, 4)
private def exa : Tree Int Int (0 + 1 + 0) := (show List (Int × Int) from [(0, 1), (2, 3), (3, -1)])
private def exaT : Tree Int Int (0 + 2 + 0) :=
  (show List (Int × Tree Int Int 1) from
    [(0, (show List (Int × Int) from [(0, 1)])), (2, (show List (Int × Int) from [(2, 3), (3, -1)]))])
private def exb : Tree Int Int 1 := (show List (Int × Int) from [(2, 5), (3, 1)])
example : ∀ x ∈ ([0, 1, 2, 3] : List Int), tileOf 2 x ∈ ([0, 1, 2, 3] : List Int) := by decide
example : splitAt { op := .uniform 2, act := some (0, 4) } (0 : Int) 0 0 exa = some exaT := by decide
example : Tiled 2 0 1 (Cur.ofTree [0] 1 rfl exa) (Cur.ofTree [1, 0] 2 rfl exaT) :=
  (splitUniform_tiles 2 0 4 (by decide) (by decide) [0, 1, 2, 3] (by decide) (by decide) [] [] 0 1 exa exaT
    ((wfB_iff 1 exa).1 (by decide)) (by decide) (by decide)).2.2
-- dot product 3·5 + (-1)·1 = 14, untiled and tiled (both placements of the halves)
#guard run .tf [0] [⟨[0], exa⟩, ⟨[0], exb⟩] [] (0 : Int) == (14 : Int)
#guard run .tf [1, 0] [⟨[1, 0], exaT⟩, ⟨[0], exb⟩] [] (0 : Int) == (14 : Int)
-- three factors on one rank, right-nested: Σ_k a_k b_k b_k = 3·5·5 + (-1)·1·1 = 74
#guard run .tfr [0] [⟨[0], exa⟩, ⟨[0], exb⟩, ⟨[0], exb⟩] [] (0 : Int) == (74 : Int)
#guard run .lf [0, 1] [⟨[0, 1], swizzle (0 : Int) 0 2 [1, 0] exaT⟩, ⟨[0], exb⟩] [] (0 : Int) == (14 : Int)
-- the leader-follower rows contain the zero products, the filter removes exactly those
#guard (coiter .lf [(⟨[1], (show List (Int × Int) from [(0, 1), (1, 2)])⟩ : Cur Int), ⟨[1], (show List (Int × Int) from [(1, 5)])⟩]).length == 2
#guard (coiter .lff [(⟨[1], (show List (Int × Int) from [(0, 1), (1, 2)])⟩ : Cur Int), ⟨[1], (show List (Int × Int) from [(1, 5)])⟩]).length == 1
end

end Ft
