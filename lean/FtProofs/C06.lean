/- C06 — property theorems (to be written) -/
