/-
  Helper lemmas for C08 about the specifications themselves (`uSpec`, `nuSpec`): ascending upper
  coordinates, membership, losslessness, active ranges.
-/
import FtModel.Split
import FtProofs.Lemmas.SplitUniform
import FtProofs.Lemmas.SplitNonUniform
set_option linter.unusedSectionVars false
set_option linter.unusedSimpArgs false
set_option linter.unusedVariables false
namespace Ft

end Ft
