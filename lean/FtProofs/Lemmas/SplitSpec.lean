/-
  Helper lemmas for C08 about the specifications themselves (`uSpec`, `nuSpec`): ascending upper
  coordinates, membership, losslessness, active ranges.
-/
import FtModel.Split
import FtProofs.Lemmas.SplitUniform
import FtProofs.Lemmas.SplitNonUniform
set_option linter.unusedSectionVars false
set_option linter.unusedSimpArgs false
set_option linter.unusedVariables false
namespace Ft

section generic
variable {π : Type}

/-- two coordinate predicates, the first entirely left of the second: filtering a sorted list by
    their disjunction is the concatenation of the two filters -/
theorem filter_or_ordered (l : Fib Int π) (hs : Sorted l) (p q : Int → Bool)
    (hpq : ∀ a b, p a = true → q b = true → a < b) :
    l.filter (fun e => p e.1 || q e.1) = l.filter (fun e => p e.1) ++ l.filter (fun e => q e.1) := by
  induction l with
  | nil => rfl
  | cons x r ih =>
    have ih' := ih hs.tail
    by_cases hp : p x.1 = true
    · simp only [List.filter_cons, hp, Bool.true_or, if_true, List.cons_append]
      have hq : q x.1 = false := by
        cases h : q x.1 with
        | false => rfl
        | true => exact absurd (hpq _ _ hp h) (Int.lt_irrefl _)
      simp only [hq, Bool.false_eq_true, if_false]
      rw [ih']
    · have hp' : p x.1 = false := by simpa using hp
      by_cases hq : q x.1 = true
      · -- nothing later can satisfy p
        have hnil : r.filter (fun e => p e.1) = [] := by
          rw [List.filter_eq_nil_iff]
          intro y hy hpy
          have h1 := hpq _ _ hpy hq
          have h2 := hs.head_lt y hy
          omega
        simp only [List.filter_cons, hp', hq, Bool.false_or, if_true, Bool.false_eq_true, if_false]
        rw [ih', hnil]; rfl
      · have hq' : q x.1 = false := by simpa using hq
        simp only [List.filter_cons, hp', hq', Bool.or_self, Bool.false_eq_true, if_false]
        exact ih'

/-- a list of coordinate predicates ordered from left to right -/
theorem flatMap_filter_ordered (l : Fib Int π) (hs : Sorted l) :
    ∀ (ps : List (Int → Bool)),
      ps.Pairwise (fun p q => ∀ a b, p a = true → q b = true → a < b) →
      ps.flatMap (fun p => l.filter (fun e => p e.1)) = l.filter (fun e => ps.any (fun p => p e.1)) := by
  intro ps
  induction ps with
  | nil => intro _; simp
  | cons p rest ih =>
    intro hp
    have hp' := List.pairwise_cons.1 hp
    rw [List.flatMap_cons, ih hp'.2]
    have := filter_or_ordered l hs p (fun c => rest.any (fun q => q c)) (by
      intro a b ha hb
      rw [List.any_eq_true] at hb
      obtain ⟨q, hq, hqb⟩ := hb
      exact hp'.1 q hq a b ha hqb)
    rw [← this]
    apply filter_congr'
    intro x _
    simp [List.any_cons]

theorem flatMap_congr' {α β : Type} {l : List α} {f g : α → List β} (h : ∀ a ∈ l, f a = g a) :
    l.flatMap f = l.flatMap g := by
  induction l with
  | nil => rfl
  | cons a r ih =>
    rw [List.flatMap_cons, List.flatMap_cons, h a (List.mem_cons_self ..),
      ih (fun b hb => h b (List.mem_cons_of_mem _ hb))]

theorem flatMap_filterMap_nonempty {α β : Type} (l : List α) (b : α → List β) (mk : α → List β → γ)
    (el : γ → List β) (hel : ∀ a, el (mk a (b a)) = b a) :
    (l.filterMap (fun a => if (b a).isEmpty then none else some (mk a (b a)))).flatMap el =
      l.flatMap b := by
  induction l with
  | nil => rfl
  | cons a r ih =>
    rw [List.filterMap_cons, List.flatMap_cons]
    by_cases h : (b a).isEmpty = true
    · simp only [h, if_true]
      rw [ih]
      have : b a = [] := by simpa [List.isEmpty_iff] using h
      rw [this]; rfl
    · simp only [h, Bool.false_eq_true, if_false, List.flatMap_cons]
      rw [ih, hel]

end generic

section uniform
variable {π : Type} (step pre post as ae : Int)

theorem mem_uSpec (rel : Bool) (elems : Fib Int π) (p : Part π) :
    p ∈ uSpec step pre post as ae rel elems ↔
      ∃ P, P ∈ uCands step as ae ∧ elems.filter (fun e => uMemb step pre post as ae P e.1) ≠ [] ∧
        p = mkPart rel P (max P as) (min (P + step) ae)
              (elems.filter (fun e => uMemb step pre post as ae P e.1)) := by
  unfold uSpec
  simp only [List.mem_filterMap]
  constructor
  · rintro ⟨P, hP, h⟩
    by_cases he : (elems.filter (fun e => uMemb step pre post as ae P e.1)).isEmpty = true
    · simp [he] at h
    · simp only [he, Bool.false_eq_true, if_false, Option.some.injEq] at h
      refine ⟨P, hP, ?_, h.symm⟩
      intro e; apply he; simpa [List.isEmpty_iff] using e
  · rintro ⟨P, hP, hne, rfl⟩
    refine ⟨P, hP, ?_⟩
    have : (elems.filter (fun e => uMemb step pre post as ae P e.1)).isEmpty = false := by
      cases h : elems.filter (fun e => uMemb step pre post as ae P e.1) with
      | nil => exact absurd h hne
      | cons a t => rfl
    simp only [this, Bool.false_eq_true, if_false]

theorem uSpec_starts (hs : 0 < step) (rel : Bool) (elems : Fib Int π) :
    ((uSpec step pre post as ae rel elems).map (·.start)).Pairwise (· < ·) := by
  rw [uSpec_eq_map, List.map_map]
  have : ((fun (p : Part π) => p.start) ∘
      fun (b : Int × Fib Int π) => mkPart rel b.1 (max b.1 as) (min (b.1 + step) ae) b.2) = (·.1) := rfl
  rw [this, List.pairwise_map]
  exact (uSpecB_repr step pre post as ae hs elems).sorted

/-- distinct candidate partition starts are at least one step apart -/
theorem uCands_gap (hs : 0 < step) {P Q : Int} (hP : P ∈ uCands step as ae) (hQ : Q ∈ uCands step as ae)
    (hlt : P < Q) : P + step ≤ Q := by
  obtain ⟨⟨k, rfl⟩, _, _⟩ := (mem_uCands step as ae hs P).1 hP
  obtain ⟨⟨k', rfl⟩, _, _⟩ := (mem_uCands step as ae hs Q).1 hQ
  have hd : step ∣ step * k' - step * k := ⟨k' - k, by rw [Int.mul_sub]⟩
  have := Int.le_of_dvd (by omega) hd
  omega

/-- halo 0: the lowers, concatenated, are the presented elements of the active range -/
theorem uSpec_lossless (hs : 0 < step) (elems : Fib Int π) (hsorted : Sorted elems) :
    (uSpec step 0 0 as ae false elems).flatMap (·.elems) =
      elems.filter (fun e => decide (as ≤ e.1) && decide (e.1 < ae)) := by
  unfold uSpec
  rw [flatMap_filterMap_nonempty (uCands step as ae)
    (fun P => elems.filter (fun e => uMemb step 0 0 as ae P e.1))
    (fun P b => mkPart false P (max P as) (min (P + step) ae) b) (·.elems) (fun a => rfl)]
  have h1 := flatMap_filter_ordered elems hsorted
    ((uCands step as ae).map (fun P c => uMemb step 0 0 as ae P c)) (by
      rw [List.pairwise_map]
      apply List.Pairwise.imp_of_mem _ (uCands_pairwise step as ae hs)
      intro P Q hP hQ hlt a b ha hb
      have := uCands_gap step as ae hs hP hQ hlt
      simp only [uMemb, inWindow, Bool.and_eq_true, decide_eq_true_eq] at ha hb
      omega)
  rw [List.flatMap_map] at h1
  rw [h1]
  apply filter_congr'
  intro x _
  rw [List.any_map]
  by_cases hin : as ≤ x.1 ∧ x.1 < ae
  · have : (decide (as ≤ x.1) && decide (x.1 < ae)) = true := by simp [hin]
    rw [this, List.any_eq_true]
    have a := Int.ediv_mul_le x.1 (Int.ne_of_gt hs)
    have b := Int.lt_ediv_add_one_mul_self x.1 hs
    rw [succ_mul'] at b
    refine ⟨(x.1 / step) * step, (mem_uCands step as ae hs _).2 ⟨Int.dvd_mul_left _ _, by omega, by omega⟩, ?_⟩
    simp only [Function.comp, uMemb, inWindow, Bool.and_eq_true, decide_eq_true_eq]
    omega
  · have : (decide (as ≤ x.1) && decide (x.1 < ae)) = false := by
      simp only [Bool.and_eq_false_iff, decide_eq_false_iff_not]; omega
    rw [this]
    cases h : (uCands step as ae).any ((fun p => p x.1) ∘ fun P c => uMemb step 0 0 as ae P c) with
    | false => rfl
    | true =>
      rw [List.any_eq_true] at h
      obtain ⟨P, _, hm⟩ := h
      simp only [Function.comp, uMemb, inWindow, Bool.and_eq_true, decide_eq_true_eq] at hm
      omega

end uniform
section nonuniform
variable {π : Type} (S : List Int) (pre post as ae : Int)

theorem mem_nuSpec (rel : Bool) (elems : Fib Int π) (p : Part π) :
    p ∈ nuSpec S pre post as ae rel elems ↔
      ∃ i, i < S.length ∧ elems.filter (fun e => nuMemb S pre post as ae i e.1) ≠ [] ∧
        p = mkPart rel (S.getD i 0) (max (S.getD i 0) as) (nuHi S ae i)
              (elems.filter (fun e => nuMemb S pre post as ae i e.1)) := by
  unfold nuSpec
  simp only [List.mem_filterMap, List.mem_range]
  constructor
  · rintro ⟨i, hi, h⟩
    by_cases he : (elems.filter (fun e => nuMemb S pre post as ae i e.1)).isEmpty = true
    · simp [he] at h
    · simp only [he, Bool.false_eq_true, if_false, Option.some.injEq] at h
      refine ⟨i, hi, ?_, h.symm⟩
      intro e; apply he; simpa [List.isEmpty_iff] using e
  · rintro ⟨i, hi, hne, rfl⟩
    refine ⟨i, hi, ?_⟩
    have : (elems.filter (fun e => nuMemb S pre post as ae i e.1)).isEmpty = false := by
      cases h : elems.filter (fun e => nuMemb S pre post as ae i e.1) with
      | nil => exact absurd h hne
      | cons a t => rfl
    simp only [this, Bool.false_eq_true, if_false]

theorem getD_eq_getElem (i : Nat) (hi : i < S.length) : S.getD i 0 = S[i] := by
  simp [List.getD_eq_getElem?_getD, List.getElem?_eq_getElem hi]

theorem nuSpec_starts (hS : S.Pairwise (· < ·)) (rel : Bool) (elems : Fib Int π) :
    ((nuSpec S pre post as ae rel elems).map (·.start)).Pairwise (· < ·) := by
  unfold nuSpec
  rw [List.map_filterMap, List.pairwise_filterMap]
  apply List.Pairwise.imp_of_mem _ List.pairwise_lt_range
  intro i j hi hj hij a ha b hb
  rw [List.mem_range] at hi hj
  by_cases h1 : (elems.filter (fun e => nuMemb S pre post as ae i e.1)).isEmpty = true
  · simp [h1] at ha
  · by_cases h2 : (elems.filter (fun e => nuMemb S pre post as ae j e.1)).isEmpty = true
    · simp [h2] at hb
    · simp only [h1, h2, Bool.false_eq_true, if_false, Option.map_some, Option.some.injEq, mkPart] at ha hb
      subst ha; subst hb
      rw [getD_eq_getElem S i hi, getD_eq_getElem S j hj]
      exact (List.pairwise_iff_getElem.1 hS) i j hi hj hij

/-- halo 0: the lowers, concatenated, are the presented active elements at/after the first boundary -/
theorem nuSpec_lossless (hS : S.Pairwise (· < ·)) (elems : Fib Int π) (hsorted : Sorted elems) :
    (nuSpec S 0 0 as ae false elems).flatMap (·.elems) =
      elems.filter (fun e => decide (as ≤ e.1) && decide (e.1 < ae) &&
        (match S[0]? with | some s0 => decide (s0 ≤ e.1) | none => false)) := by
  unfold nuSpec
  rw [flatMap_filterMap_nonempty (List.range S.length)
    (fun i => elems.filter (fun e => nuMemb S 0 0 as ae i e.1))
    (fun i b => mkPart false (S.getD i 0) (max (S.getD i 0) as) (nuHi S ae i) b) (·.elems) (fun a => rfl)]
  have h1 := flatMap_filter_ordered elems hsorted
    ((List.range S.length).map (fun i c => nuMemb S 0 0 as ae i c)) (by
      rw [List.pairwise_map]
      apply List.Pairwise.imp_of_mem _ List.pairwise_lt_range
      intro i j hi hj hij a b ha hb
      rw [List.mem_range] at hi hj
      obtain ⟨_, _, _, _, a3, _, _⟩ := (nuMemb_iff S 0 0 as ae i a).1 ha
      obtain ⟨sj, hsj, _, _, _, _, b5⟩ := (nuMemb_iff S 0 0 as ae j b).1 hb
      have hi1 : S[i + 1]? = some S[i + 1] := List.getElem?_eq_getElem (by omega)
      have := (a3 _ hi1).2
      have := sorted_getElem?_le S hS (by omega : i + 1 ≤ j) hi1 hsj
      omega)
  rw [List.flatMap_map] at h1
  rw [h1]
  apply filter_congr'
  intro x _
  rw [List.any_map]
  cases hany : (List.range S.length).any ((fun p => p x.1) ∘ fun i c => nuMemb S 0 0 as ae i c) with
  | true =>
    rw [List.any_eq_true] at hany
    obtain ⟨i, hi, hm⟩ := hany
    obtain ⟨s, hs, w1, w2, _, _, w5⟩ := (nuMemb_iff S 0 0 as ae i x.1).1 hm
    have h0 : 0 < S.length := by
      rw [List.mem_range] at hi; omega
    have hs0 : S[0]? = some S[0] := List.getElem?_eq_getElem h0
    have := sorted_getElem?_le S hS (Nat.zero_le i) hs0 hs
    rw [hs0]
    symm
    simp only [Bool.and_eq_true, decide_eq_true_eq]
    omega
  | false =>
    symm
    cases hres : (decide (as ≤ x.1) && decide (x.1 < ae) &&
        (match S[0]? with | some s0 => decide (s0 ≤ x.1) | none => false)) with
    | false => rfl
    | true =>
      exfalso
      cases hs0 : S[0]? with
      | none => rw [hs0] at hres; simp at hres
      | some s0 =>
        rw [hs0] at hres
        simp only [Bool.and_eq_true, decide_eq_true_eq] at hres
        obtain ⟨i, s, hs, hc, hnext⟩ := last_boundary S 0 x.1 ⟨0, s0, hs0, by omega⟩
        have hi : i < S.length := by
          rcases Nat.lt_or_ge i S.length with h | h
          · exact h
          · rw [List.getElem?_eq_none h] at hs; cases hs
        have hm : nuMemb S 0 0 as ae i x.1 = true := by
          rw [nuMemb_iff]
          refine ⟨s, hs, by omega, by omega, ?_, by omega, hc⟩
          intro t ht
          have := hnext t ht
          constructor <;> omega
        have : (List.range S.length).any ((fun p => p x.1) ∘ fun i c => nuMemb S 0 0 as ae i c) = true := by
          rw [List.any_eq_true]
          exact ⟨i, List.mem_range.2 hi, hm⟩
        rw [this] at hany; cases hany

end nonuniform

section depth

theorem lookup_mapM? {α β : Type} (G : α → Option β) (c : Int) :
    ∀ (t : Fib Int α) (r : Fib Int β),
      mapM? (fun e => (G e.2).map (fun x => (e.1, x))) t = some r →
      lookup r c = (lookup t c).bind G := by
  intro t
  induction t with
  | nil => intro r h; simp only [mapM?, Option.some.injEq] at h; subst h; rfl
  | cons a t ih =>
    intro r h
    unfold mapM? at h
    cases hg : G a.2 with
    | none => rw [hg] at h; cases h
    | some x =>
      rw [hg] at h
      simp only [Option.map_some] at h
      cases hm : mapM? (fun e => (G e.2).map (fun x => (e.1, x))) t with
      | none => rw [hm] at h; cases h
      | some r' =>
        rw [hm] at h
        simp only [Option.map_some, Option.some.injEq] at h
        subst h
        rw [lookup_cons, lookup_cons]
        by_cases hc : a.1 = c
        · simp [hc, hg]
        · simp [hc, ih r' hm]

theorem mapM?_some_of_mem {α β : Type} (G : α → Option β) :
    ∀ (t : Fib Int α) (r : Fib Int β),
      mapM? (fun e => (G e.2).map (fun x => (e.1, x))) t = some r → ∀ e ∈ t, G e.2 ≠ none := by
  intro t
  induction t with
  | nil => intro r _ e he; cases he
  | cons a t ih =>
    intro r h e he
    unfold mapM? at h
    cases hg : G a.2 with
    | none => rw [hg] at h; cases h
    | some x =>
      rw [hg] at h
      simp only [Option.map_some] at h
      cases hm : mapM? (fun e => (G e.2).map (fun x => (e.1, x))) t with
      | none => rw [hm] at h; cases h
      | some r' =>
        rcases List.mem_cons.1 he with rfl | he
        · rw [hg]; exact fun h => by cases h
        · exact ih r' hm e he

theorem lookup_some_mem {α : Type} (t : Fib Int α) (c : Int) (s : α) (h : lookup t c = some s) :
    ∃ e ∈ t, e.2 = s := by
  induction t with
  | nil => cases h
  | cons a t ih =>
    rw [lookup_cons] at h
    by_cases hc : a.1 = c
    · simp only [hc, if_true, Option.some.injEq] at h
      exact ⟨a, List.mem_cons_self .., h⟩
    · simp only [hc, if_false] at h
      obtain ⟨e, he, hs⟩ := ih h
      exact ⟨e, List.mem_cons_of_mem _ he, hs⟩

theorem keys_mapM? {α β : Type} (G : α → Option β) :
    ∀ (t : Fib Int α) (r : Fib Int β),
      mapM? (fun e => (G e.2).map (fun x => (e.1, x))) t = some r → r.map (·.1) = t.map (·.1) := by
  intro t
  induction t with
  | nil => intro r h; simp only [mapM?, Option.some.injEq] at h; subst h; rfl
  | cons a t ih =>
    intro r h
    unfold mapM? at h
    cases hg : G a.2 with
    | none => rw [hg] at h; cases h
    | some x =>
      rw [hg] at h
      simp only [Option.map_some] at h
      cases hm : mapM? (fun e => (G e.2).map (fun x => (e.1, x))) t with
      | none => rw [hm] at h; cases h
      | some r' =>
        rw [hm] at h
        simp only [Option.map_some, Option.some.injEq] at h
        subst h
        simp only [List.map_cons, ih r' hm]

end depth

end Ft
