/-
  Lemmas for C16, layer 2: a well-nested loop nest yields lexicographically sorted stamps.
-/
import FtModel.Trace
set_option linter.unusedSimpArgs false
set_option linter.unusedVariables false
namespace Ft.C16

/-- the stamps of the rows of key `k`, in emission order -/
def kStamps (k : Key) (rows : List (Key × Row)) : List (List Nat) :=
  (rows.filter (fun e => e.1 = k)).map (·.2.stamp)

@[simp] theorem kStamps_nil (k : Key) : kStamps k [] = [] := rfl

theorem kStamps_append (k : Key) (a b : List (Key × Row)) :
    kStamps k (a ++ b) = kStamps k a ++ kStamps k b := by
  simp [kStamps, List.filter_append]

/-! ### lexicographic order facts -/

theorem lexLt_prefix (p : List Nat) (a b : Nat) (x y : List Nat) (h : a < b) :
    lexLt (p ++ a :: x) (p ++ b :: y) = true := by
  induction p with
  | nil => simp [lexLt, h]
  | cons c p ih => simp [lexLt, ih]

theorem lexLe_of_lexLt : ∀ (a b : List Nat), lexLt a b = true → lexLe a b = true
  | [], _, _ => by simp [lexLe]
  | _ :: _, [], h => by simp [lexLt] at h
  | a :: as, b :: bs, h => by
    simp only [lexLt, lexLe, Bool.or_eq_true, decide_eq_true_eq, Bool.and_eq_true, beq_iff_eq] at h ⊢
    rcases h with h | ⟨h1, h2⟩
    · exact Or.inl h
    · exact Or.inr ⟨h1, lexLe_of_lexLt as bs h2⟩

theorem lexLe_prefix_le (p : List Nat) (a b : Nat) (h : a ≤ b) :
    lexLe (p ++ [a]) (p ++ [b]) = true := by
  induction p with
  | nil =>
    simp only [List.nil_append, lexLe, Bool.or_eq_true, decide_eq_true_eq, Bool.and_eq_true, beq_iff_eq, and_true]
    omega
  | cons c p ih => simp [lexLe, ih]

/-- the order on stamps the property asks for -/
def stampR (strict : Bool) (a b : List Nat) : Prop := (if strict then lexLt a b else lexLe a b) = true

def natR (strict : Bool) (a b : Nat) : Prop := (if strict then ltB a b else leB a b) = true

theorem stampR_prefix (strict : Bool) (p : List Nat) (a b : Nat) (x y : List Nat) (h : a < b) :
    stampR strict (p ++ a :: x) (p ++ b :: y) := by
  unfold stampR
  cases strict
  · simpa using lexLe_of_lexLt _ _ (lexLt_prefix p a b x y h)
  · simpa using lexLt_prefix p a b x y h

theorem stampR_last (strict : Bool) (p : List Nat) (a b : Nat) (h : natR strict a b) :
    stampR strict (p ++ [a]) (p ++ [b]) := by
  unfold stampR; unfold natR at h
  cases strict
  · simp only [Bool.false_eq_true, if_false, leB, decide_eq_true_eq] at h ⊢
    exact lexLe_prefix_le p a b h
  · simp only [if_true, ltB, decide_eq_true_eq] at h ⊢
    exact lexLt_prefix p a b [] [] h

theorem natR_trans (strict : Bool) {a b c : Nat} (h1 : natR strict a b) (h2 : natR strict b c) : natR strict a c := by
  unfold natR at *
  cases strict <;> simp_all [leB, ltB] <;> omega

/-- a chain of a transitive relation is pairwise related -/
theorem pairwise_of_chainB (strict : Bool) : ∀ (l : List Nat),
    chainB (if strict then ltB else leB) l = true → l.Pairwise (natR strict)
  | [], _ => List.Pairwise.nil
  | [a], _ => by simp
  | a :: b :: rest, h => by
    simp only [chainB, Bool.and_eq_true] at h
    have ih := pairwise_of_chainB strict (b :: rest) h.2
    have hab : natR strict a b := by unfold natR; cases strict <;> simpa using h.1
    refine List.Pairwise.cons ?_ ih
    intro c hc
    rcases List.mem_cons.1 hc with rfl | hc
    · exact hab
    · exact natR_trans strict hab ((List.pairwise_cons.1 ih).1 c hc)

/-! ### the rows of one loop execution -/

section
variable {σ : Type} (tr : Key → Bool) (k : Key)

theorem levelStamps_cur (x : Int) : ∀ (items : List (Item σ)) (st : LSt),
    levelStamps k { st with cur := x } items = levelStamps k st items := by
  intro items
  induction items with
  | nil => intro st; simp [levelStamps]
  | cons it rest ih =>
    intro st
    cases it with
    | use r ty c pos => simpa [levelStamps] using ih st
    | useSaved s r ty c pos => simpa [levelStamps] using ih st
    | inc => simpa [levelStamps] using ih { st with cnt := st.cnt + 1 }
    | save s => simpa [levelStamps] using ih { st with regs := upd st.regs s st.cnt }
    | bump s => simpa [levelStamps] using ih { st with regs := upd st.regs s (st.regs s + 1) }
    | sub y => simpa [levelStamps] using ih st

/-- at the level of `k` (the loop bodies do not use `k`): its stamps are the level stamps under the
    enclosing counters -/
theorem kStamps_level (sem : σ → List Nat → List Int → List (Key × Row)) (rank : String) (p : List Nat) (q : List Int) :
    ∀ (items : List (Item σ)) (st : LSt),
      (∀ x ∈ subsOf items, ∀ p' q', kStamps k (sem x p' q') = []) →
      kStamps k (rowsItems tr sem rank p q st items) =
        if tr k then (levelStamps k st items).map (fun n => p ++ [n]) else [] := by
  intro items
  induction items with
  | nil => intro st _; simp [rowsItems, levelStamps]
  | cons it rest ih =>
    intro st hsub
    cases it with
    | use r ty c pos =>
      have := ih { st with cur := if r = rank then c else st.cur } (by simpa [subsOf] using hsub)
      simp only [rowsItems, levelStamps, kStamps_append, this, levelStamps_cur]
      by_cases hk : (r, ty) = k
      · subst hk; cases htr : tr (r, ty) <;> simp [kStamps, htr]
      · cases htr : tr (r, ty) <;> cases htk : tr k <;> simp [kStamps, hk, htr, htk]
    | useSaved s r ty c pos =>
      have := ih { st with cur := if r = rank then c else st.cur } (by simpa [subsOf] using hsub)
      simp only [rowsItems, levelStamps, kStamps_append, this, levelStamps_cur]
      by_cases hk : (r, ty) = k
      · subst hk; cases htr : tr (r, ty) <;> simp [kStamps, htr]
      · cases htr : tr (r, ty) <;> cases htk : tr k <;> simp [kStamps, hk, htr, htk]
    | inc => simpa [rowsItems, levelStamps] using ih _ (by simpa [subsOf] using hsub)
    | save s => simpa [rowsItems, levelStamps] using ih _ (by simpa [subsOf] using hsub)
    | bump s => simpa [rowsItems, levelStamps] using ih _ (by simpa [subsOf] using hsub)
    | sub x =>
      have h1 : kStamps k (sem x (p ++ [st.cnt]) (q ++ [st.cur])) = [] := hsub x (by simp [subsOf]) _ _
      have := ih st (fun y hy => hsub y (by simp [subsOf, hy]))
      simp [rowsItems, levelStamps, kStamps_append, h1, this]

/-- above the level of `k`: every stamp of `k` continues the enclosing counters with a value of this
    level's counter that is not below the current one (above it once the body has run), and the
    stamps are pairwise ordered -/
theorem kStamps_above (strict : Bool) (sem : σ → List Nat → List Int → List (Key × Row)) (rank : String)
    (p : List Nat) (q : List Int)
    (items : List (Item σ)) :
    ∀ (st : LSt) (fresh : Bool),
      (∀ x ∈ subsOf items, ∀ p' q', (∀ s ∈ kStamps k (sem x p' q'), ∃ rest, s = p' ++ rest) ∧
          (kStamps k (sem x p' q')).Pairwise (stampR strict)) →
      sepB fresh items = true → levelStamps k st items = [] →
      (∀ s ∈ kStamps k (rowsItems tr sem rank p q st items),
          ∃ c rest, s = p ++ c :: rest ∧ st.cnt ≤ c ∧ (fresh = false → st.cnt < c)) ∧
      (kStamps k (rowsItems tr sem rank p q st items)).Pairwise (stampR strict) := by
  induction items with
  | nil => intro st fresh _ _ _; simp [rowsItems]
  | cons it rest ih =>
    intro st fresh hsub hsep hls
    cases it with
    | use r ty c pos =>
      simp only [levelStamps, List.append_eq_nil_iff] at hls
      have hk : (r, ty) ≠ k := by intro h; simp [h] at hls
      have := ih { st with cur := if r = rank then c else st.cur } fresh
        (by simpa [subsOf] using hsub) (by simpa [sepB] using hsep) (by rw [levelStamps_cur]; exact hls.2)
      have e : kStamps k (if tr (r, ty) = true then [((r, ty), (⟨p ++ [st.cnt], q ++ [c], pos⟩ : Row))] else []) = [] := by
        split <;> simp [kStamps, hk]
      simpa [rowsItems, kStamps_append, e] using this
    | useSaved s r ty c pos =>
      simp only [levelStamps, List.append_eq_nil_iff] at hls
      have hk : (r, ty) ≠ k := by intro h; simp [h] at hls
      have := ih { st with cur := if r = rank then c else st.cur } fresh
        (by simpa [subsOf] using hsub) (by simpa [sepB] using hsep) (by rw [levelStamps_cur]; exact hls.2)
      have e : kStamps k (if tr (r, ty) = true then [((r, ty), (⟨p ++ [st.regs s], q ++ [c], pos⟩ : Row))] else []) = [] := by
        split <;> simp [kStamps, hk]
      simpa [rowsItems, kStamps_append, e] using this
    | inc =>
      have := ih { st with cnt := st.cnt + 1 } true (by simpa [subsOf] using hsub)
        (by simpa [sepB] using hsep) (by simpa [levelStamps] using hls)
      simp only [rowsItems]
      refine ⟨?_, this.2⟩
      intro s hs
      obtain ⟨c, rest', e, h1, _⟩ := this.1 s hs
      exact ⟨c, rest', e, by simp at h1; omega, fun _ => by simp at h1; omega⟩
    | save s =>
      simpa [rowsItems] using ih { st with regs := upd st.regs s st.cnt } fresh (by simpa [subsOf] using hsub)
        (by simpa [sepB] using hsep) (by simpa [levelStamps] using hls)
    | bump s =>
      simpa [rowsItems] using ih { st with regs := upd st.regs s (st.regs s + 1) } fresh (by simpa [subsOf] using hsub)
        (by simpa [sepB] using hsep) (by simpa [levelStamps] using hls)
    | sub x =>
      simp only [sepB, Bool.and_eq_true] at hsep
      obtain ⟨hf, hsep'⟩ := hsep
      have hx := hsub x (by simp [subsOf]) (p ++ [st.cnt]) (q ++ [st.cur])
      have hr := ih st false (fun y hy => hsub y (by simp [subsOf, hy])) hsep' (by simpa [levelStamps] using hls)
      simp only [rowsItems, kStamps_append]
      constructor
      · intro s hs
        rcases List.mem_append.1 hs with hs | hs
        · obtain ⟨rest', e⟩ := hx.1 s hs
          refine ⟨st.cnt, rest', by simp [e], Nat.le_refl _, ?_⟩
          intro hff; simp [hff] at hf
        · obtain ⟨c, rest', e, h1, h2⟩ := hr.1 s hs
          exact ⟨c, rest', e, h1, fun _ => h2 rfl⟩
      · rw [List.pairwise_append]
        refine ⟨hx.2, hr.2, ?_⟩
        intro a ha b hb
        obtain ⟨ra, ea⟩ := hx.1 a ha
        obtain ⟨c, rb, eb, _, h2⟩ := hr.1 b hb
        rw [ea, eb]
        have : p ++ [st.cnt] ++ ra = p ++ st.cnt :: ra := by simp
        rw [this]
        exact stampR_prefix strict p st.cnt c ra rb (h2 rfl)

end

/-! ### whole nests -/

theorem noKey_stamps (tr : Key → Bool) (k : Key) : ∀ (d : Nat) (n : Nest d) (p : List Nat) (q : List Int),
    noKey k d n = true → kStamps k (rowsNest tr d n p q) = []
  | 0, _, _, _, _ => by simp [rowsNest]
  | d + 1, (rank, items), p, q, h => by
    simp only [noKey, Bool.and_eq_true, List.isEmpty_iff, List.all_eq_true] at h
    have := kStamps_level tr k (rowsNest tr d) rank p q items {}
      (fun x hx p' q' => noKey_stamps tr k d x p' q' (h.2 x hx))
    simp only [rowsNest, this, h.1]
    split <;> simp

/-- the stamps of the rows of a key in a nest that is well-nested for it extend the enclosing
    counters and are pairwise ordered -/
theorem wn_sorted (tr : Key → Bool) (k : Key) (strict : Bool) :
    ∀ (here d : Nat) (n : Nest d) (p : List Nat) (q : List Int), wn k strict here d n = true →
      (∀ s ∈ kStamps k (rowsNest tr d n p q), ∃ rest, s = p ++ rest) ∧
      (kStamps k (rowsNest tr d n p q)).Pairwise (stampR strict)
  | _, 0, _, _, _, _ => by simp [rowsNest]
  | 0, d + 1, (rank, items), p, q, h => by
    simp only [wn, Bool.and_eq_true, List.all_eq_true] at h
    have e := kStamps_level tr k (rowsNest tr d) rank p q items {}
      (fun x hx p' q' => noKey_stamps tr k d x p' q' (h.2 x hx))
    simp only [rowsNest, e]
    split
    · constructor
      · intro s hs
        obtain ⟨n, _, rfl⟩ := List.mem_map.1 hs
        exact ⟨[n], rfl⟩
      · have hp := pairwise_of_chainB strict _ h.1
        rw [List.pairwise_map]
        exact hp.imp (fun hab => stampR_last strict p _ _ hab)
    · simp
  | h + 1, d + 1, (rank, items), p, q, hw => by
    simp only [wn, Bool.and_eq_true, List.isEmpty_iff, List.all_eq_true] at hw
    have := kStamps_above tr k strict (rowsNest tr d) rank p q items {} true
      (fun x hx p' q' => wn_sorted tr k strict h d x p' q' (hw.2 x hx)) hw.1.1 hw.1.2
    simp only [rowsNest]
    refine ⟨?_, this.2⟩
    intro s hs
    obtain ⟨c, rest, e, _, _⟩ := this.1 s hs
    exact ⟨c :: rest, e⟩

theorem chainB_of_pairwise {α : Type} (r : α → α → Bool) : ∀ (l : List α),
    l.Pairwise (fun a b => r a b = true) → chainB r l = true
  | [], _ => rfl
  | [_], _ => rfl
  | a :: b :: rest, h => by
    have h1 := List.pairwise_cons.1 h
    simp only [chainB, Bool.and_eq_true]
    exact ⟨h1.1 b (by simp), chainB_of_pairwise r (b :: rest) h1.2⟩

theorem rowsOf_stamps (tr : Key → Bool) (d : Nat) (n : Nest d) (k : Key) :
    (rowsOf tr d n k).map (·.stamp) = kStamps k (rowsNest tr d n [] []) := by
  simp [rowsOf, kStamps, List.map_map]

end Ft.C16
