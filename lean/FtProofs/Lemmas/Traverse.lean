/-
  Helper lemmas for C07 (traversal modes).  Everything lives in `Ft.C07`.
-/
import FtModel.Traverse
import FtProofs.Lemmas.Sorted
import FtProofs.Lemmas.Merge
import FtProofs.Lemmas.PointLemmas
import FtProofs.Lemmas.PopLemmas
import FtProofs.Lemmas.MutLemmas
set_option linter.unusedSectionVars false
set_option linter.unusedSimpArgs false
set_option linter.unusedVariables false
namespace Ft.C07
open Ft StrictTotal

/-! ### the range loop -/
section generic
variable {κ : Type} [LT κ] [DecidableRel (α := κ) (· < ·)] [DecidableEq κ] [StrictTotal κ]
variable {π ρ : Type}

theorem geEnd_of_lt {e : Option κ} {c c' : κ} (h : geEnd e c = true) (hlt : c < c') : geEnd e c' = true := by
  cases e with
  | none => simp [geEnd] at h
  | some e =>
    simp only [geEnd, Bool.not_eq_true', decide_eq_false_iff_not] at h ⊢
    intro h'; exact h (trans hlt h')

theorem geStart_of_lt {s : Option κ} {c c' : κ} (h : geStart s c = true) (hlt : c < c') : geStart s c' = true := by
  cases s with
  | none => rfl
  | some s =>
    simp only [geStart, Bool.not_eq_true', decide_eq_false_iff_not] at h ⊢
    intro h'; exact h (trans hlt h')

/-- on an ascending list the loop with its `break` is the filter by the slice predicate -/
theorem rangeLoop_eq_filter (emp : π → Bool) (s e : Option κ) :
    ∀ (f : Fib κ π), Sorted f → rangeLoop emp s e f = rangeSpec emp s e f
  | [], _ => rfl
  | (c, p) :: r, hs => by
    have ih := rangeLoop_eq_filter emp s e r hs.tail
    unfold rangeLoop rangeSpec
    by_cases hge : geEnd e c = true
    · rw [if_pos hge]
      symm
      rw [List.filter_eq_nil_iff]
      intro x hx
      rcases List.mem_cons.1 hx with rfl | hx
      · simp [inSlice, hge]
      · have := geEnd_of_lt hge (hs.head_lt x hx)
        simp [inSlice, this]
    · rw [if_neg hge]
      have hge' : geEnd e c = false := by simpa using hge
      rw [List.filter_cons]
      by_cases hk : (geStart s c && !emp p) = true
      · rw [if_pos hk]
        have : inSlice emp s e (c, p) = true := by
          simp only [inSlice, hge', Bool.not_false, Bool.and_true]
          rw [Bool.and_comm]; exact hk
        rw [if_pos this, ih]; rfl
      · rw [if_neg hk]
        have : ¬ inSlice emp s e (c, p) = true := by
          simp only [inSlice, hge', Bool.not_false, Bool.and_true]
          rw [Bool.and_comm]; exact hk
        rw [if_neg this, ih]; rfl

/-- without bounds there is no `break`: plain filter, no order needed -/
theorem rangeLoop_none (emp : π → Bool) :
    ∀ (f : Fib κ π), rangeLoop emp none none f = f.filter (fun x => !emp x.2)
  | [] => rfl
  | (c, p) :: r => by
    unfold rangeLoop
    simp only [geEnd, geStart, Bool.false_eq_true, if_false, Bool.true_and, List.filter_cons]
    rw [rangeLoop_none emp r]

theorem rangeLoop_sublist (emp : π → Bool) (s e : Option κ) :
    ∀ (f : Fib κ π), (rangeLoop emp s e f).Sublist f
  | [] => List.Sublist.slnil
  | (c, p) :: r => by
    unfold rangeLoop
    split
    · exact List.nil_sublist _
    · split
      · exact (rangeLoop_sublist emp s e r).cons_cons _
      · exact (rangeLoop_sublist emp s e r).cons _

/-- the loop commutes with a change of payload representation -/
theorem rangeLoop_map (emp : π → Bool) (s e : Option κ) (g : ρ → π) :
    ∀ (l : Fib κ ρ), rangeLoop emp s e (l.map (fun x => (x.1, g x.2))) =
      (rangeLoop (fun y => emp (g y)) s e l).map (fun x => (x.1, g x.2))
  | [] => rfl
  | (c, p) :: r => by
    simp only [List.map_cons]
    unfold rangeLoop
    split
    · rfl
    · split
      · simp only [List.map_cons]; rw [rangeLoop_map emp s e g r]
      · exact rangeLoop_map emp s e g r

/-! ### positions -/

theorem strip_withPos (f : Fib κ π) : strip (withPos f) = f := by
  unfold strip withPos
  rw [List.map_map]
  have : ((fun x : κ × (Nat × π) => (x.1, x.2.2)) ∘ fun x : (κ × π) × Nat => (x.1.1, (x.2, x.1.2))) = Prod.fst := by
    funext x; rfl
  rw [this, List.zipIdx_map_fst]

theorem mem_withPos {f : Fib κ π} {c : κ} {i : Nat} {p : π} (h : (c, (i, p)) ∈ withPos f) :
    f[i]? = some (c, p) := by
  unfold withPos at h
  obtain ⟨x, hx, hxe⟩ := List.mem_map.1 h
  obtain ⟨⟨c', p'⟩, j⟩ := x
  simp only [Prod.mk.injEq] at hxe
  obtain ⟨rfl, rfl, rfl⟩ := hxe
  have := List.mem_zipIdx hx
  simp only [Nat.zero_add, Nat.sub_zero] at this
  exact this.2.2 ▸ (by
    have h2 := this.2.1
    rw [List.getElem?_eq_getElem h2])

theorem withPos_length (f : Fib κ π) : (withPos f).length = f.length := by
  simp [withPos]

theorem withPos_keys (f : Fib κ π) : (withPos f).map (·.1) = f.map (·.1) := by
  have := congrArg (List.map (·.1)) (strip_withPos f)
  simpa [strip, List.map_map, Function.comp_def] using this

theorem sorted_iff_keys {f : Fib κ π} {g : Fib κ ρ} (h : f.map (·.1) = g.map (·.1)) :
    Sorted f ↔ Sorted g := by
  unfold Sorted
  have hf : List.Pairwise (fun x y : κ × π => x.1 < y.1) f ↔ List.Pairwise (· < ·) (f.map (·.1)) := by
    rw [List.pairwise_map]
  have hg : List.Pairwise (fun x y : κ × ρ => x.1 < y.1) g ↔ List.Pairwise (· < ·) (g.map (·.1)) := by
    rw [List.pairwise_map]
  rw [hf, hg, h]

theorem withPos_sorted {f : Fib κ π} (h : Sorted f) : Sorted (withPos f) :=
  (sorted_iff_keys (withPos_keys f)).2 h

theorem strip_take (l : Fib κ (Nat × π)) (n : Nat) : strip (l.take n) = (strip l).take n := by
  simp [strip, List.map_take]

theorem lookup_strip (l : Fib κ (Nat × π)) (c : κ) : lookup (strip l) c = (lookup l c).map (·.2) := by
  induction l with
  | nil => rfl
  | cons x r ih =>
    simp only [strip, List.map_cons] at ih ⊢
    rw [lookup_cons, lookup_cons]
    by_cases h : x.1 = c
    · simp [h]
    · simp [h]; exact ih

theorem lookup_withPos_map (f : Fib κ π) (c : κ) : (lookup (withPos f) c).map (·.2) = lookup f c := by
  rw [← lookup_strip, strip_withPos]

/-! ### `iterRange` on an eager fiber -/

theorem iterRange_strip (emp : π → Bool) (s e : Option κ) (f : Fib κ π) :
    strip (iterRange emp s e none f) = rangeLoop emp s e f := by
  unfold iterRange strip
  simp only [Option.getD_none, List.drop_zero]
  have h := rangeLoop_map emp s e (fun ip : Nat × π => ip.2) (withPos f)
  have h2 : (withPos f).map (fun x => (x.1, x.2.2)) = f := strip_withPos f
  rw [h2] at h
  exact h.symm

theorem mem_iterRange {emp : π → Bool} {s e : Option κ} {sp : Option Nat} {f : Fib κ π}
    {c : κ} {i : Nat} {p : π} (h : (c, (i, p)) ∈ iterRange emp s e sp f) : f[i]? = some (c, p) := by
  unfold iterRange at h
  exact mem_withPos (List.mem_of_mem_drop ((rangeLoop_sublist _ s e _).subset h))

theorem inSlice_withPos (emp : π → Bool) (s e : Option κ) (x : κ × (Nat × π)) :
    inSlice (fun ip : Nat × π => emp ip.2) s e x = inSlice emp s e (x.1, x.2.2) := rfl

theorem filter_take_withPos_nil {emp : π → Bool} {s e : Option κ} {sp : Nat} {f : Fib κ π}
    (h : ∀ x ∈ f.take sp, inSlice emp s e x = false) :
    ((withPos f).take sp).filter (inSlice (fun ip : Nat × π => emp ip.2) s e) = [] := by
  rw [List.filter_eq_nil_iff]
  intro x hx
  have hx' : (x.1, x.2.2) ∈ f.take sp := by
    have : (x.1, x.2.2) ∈ strip ((withPos f).take sp) := List.mem_map.2 ⟨x, hx, rfl⟩
    rwa [strip_take, strip_withPos] at this
  rw [inSlice_withPos, h _ hx']; simp

/-- a valid shortcut does not change what is yielded (positions included) -/
theorem iterRange_startpos_eq (emp : π → Bool) (s e : Option κ) (sp : Nat) (f : Fib κ π) (hs : Sorted f)
    (hv : validStart emp s e sp f = true) :
    iterRange emp s e (some sp) f = iterRange emp s e none f := by
  unfold validStart at hv
  rw [Bool.and_eq_true, List.all_eq_true] at hv
  have hv2 : ∀ x ∈ f.take sp, inSlice emp s e x = false := by
    intro x hx; have := hv.2 x hx; simpa using this
  unfold iterRange
  simp only [Option.getD_some, Option.getD_none, List.drop_zero]
  have hw := withPos_sorted hs
  rw [rangeLoop_eq_filter _ s e _ (sorted_drop hw sp), rangeLoop_eq_filter _ s e _ hw]
  unfold rangeSpec
  conv => rhs; rw [← List.take_append_drop sp (withPos f), List.filter_append, filter_take_withPos_nil hv2]
  rfl

/-- every position the traversal saves is a valid shortcut for any later slice that starts at
    or after the coordinate yielded there -/
theorem saved_is_valid {emp : π → Bool} {s e : Option κ} {sp : Option Nat} {f : Fib κ π} (hs : Sorted f)
    {c : κ} {i : Nat} {p : π} (h : (c, (i, p)) ∈ iterRange emp s e sp f)
    (s' : κ) (e' : Option κ) (hle : ¬ s' < c) : validStart emp (some s') e' i f = true := by
  have hi := mem_iterRange h
  unfold validStart
  rw [Bool.and_eq_true, List.all_eq_true]
  refine ⟨?_, ?_⟩
  · have := (List.getElem?_eq_some_iff.1 hi).1
    simpa using this
  · intro x hx
    have hlt : x.1 < c := sorted_take_lt hs hi x hx
    have : geStart (some s') x.1 = false := by
      simp only [geStart, Bool.not_eq_false', decide_eq_true_eq]
      rcases tri x.1 s' with h1 | h1 | h1
      · exact h1
      · subst h1; exact absurd hlt hle
      · exact absurd (trans h1 hlt) hle
    simp [inSlice, this]

end generic
end Ft.C07

namespace Ft.C07
open Ft StrictTotal

/-! ### Python's `range` -/

theorem pyRange_nil {s e : Int} {k : Nat} (h : ¬ (s < e ∧ 0 < k)) : pyRange s e k = [] := by
  rw [pyRange]; simp [h]

theorem pyRange_cons {s e : Int} {k : Nat} (h : s < e ∧ 0 < k) :
    pyRange s e k = s :: pyRange (s + k) e k := by
  rw [pyRange]; simp [h]

/-- `range(s, e, k)`: the coordinates `s, s+k, s+2k, …` below `e` -/
theorem mem_pyRange (s e : Int) (k : Nat) (c : Int) :
    c ∈ pyRange s e k ↔ 0 < k ∧ c < e ∧ ∃ n : Nat, c = s + n * k := by
  fun_induction pyRange s e k with
  | case1 s h ih =>
    rw [List.mem_cons, ih]
    constructor
    · rintro (rfl | ⟨hk, hlt, n, rfl⟩)
      · exact ⟨h.2, h.1, 0, by simp⟩
      · refine ⟨hk, hlt, n + 1, ?_⟩
        rw [Int.natCast_succ, Int.add_mul]; omega
    · rintro ⟨hk, hlt, n, rfl⟩
      cases n with
      | zero => left; simp
      | succ n =>
        right
        refine ⟨hk, hlt, n, ?_⟩
        rw [Int.natCast_succ, Int.add_mul]; omega
  | case2 s h =>
    simp only [List.not_mem_nil, false_iff]
    rintro ⟨hk, hlt, n, rfl⟩
    apply h
    refine ⟨?_, hk⟩
    have : (0 : Int) ≤ (n : Int) * (k : Int) := Int.mul_nonneg (Int.natCast_nonneg n) (Int.natCast_nonneg k)
    omega

theorem mem_pyRange_one (s e c : Int) : c ∈ pyRange s e 1 ↔ s ≤ c ∧ c < e := by
  rw [mem_pyRange]
  constructor
  · rintro ⟨_, hlt, n, rfl⟩
    exact ⟨by simp; omega, hlt⟩
  · rintro ⟨h1, h2⟩
    exact ⟨by decide, h2, (c - s).toNat, by simp; omega⟩

theorem pyRange_ge (s e : Int) (k : Nat) : ∀ c ∈ pyRange s e k, s ≤ c := by
  intro c hc
  obtain ⟨_, _, n, rfl⟩ := (mem_pyRange s e k c).1 hc
  have : (0 : Int) ≤ (n : Int) * (k : Int) := Int.mul_nonneg (Int.natCast_nonneg n) (Int.natCast_nonneg k)
  omega

/-- … in strictly ascending order -/
theorem pyRange_ascending (s e : Int) (k : Nat) : (pyRange s e k).Pairwise (· < ·) := by
  fun_induction pyRange s e k with
  | case1 s h ih =>
    rw [List.pairwise_cons]
    refine ⟨?_, ih⟩
    intro c hc
    have := pyRange_ge _ _ _ c hc
    omega
  | case2 s h => exact List.Pairwise.nil

end Ft.C07

namespace Ft.C07
open Ft StrictTotal

/-! ### shape iteration -/
section shape
variable {π : Type}

theorem getPos_eq_lookupPos (mk : π) {f : Fib Int π} (hs : Sorted f) (c : Int) :
    getPos mk f c = lookupPos mk f c := by
  unfold getPos lookupPos
  rw [posLookup_eq_lookup (withPos_sorted hs)]

theorem shapeIter_eq_spec (mk : π) {f : Fib Int π} (hs : Sorted f) (cs : List Int) :
    shapeIter mk f cs = shapeSpec mk f cs := by
  unfold shapeIter shapeSpec
  apply List.map_congr_left
  intro c _
  rw [getPos_eq_lookupPos mk hs]

/-- the payload part of the declarative lookup: stored payload or default -/
theorem lookupPos_snd (mk : π) (f : Fib Int π) (c : Int) : (lookupPos mk f c).2 = (lookup f c).getD mk := by
  unfold lookupPos
  rw [← lookup_withPos_map f c]
  cases lookup (withPos f) c <;> rfl

/-- the position part: `some i` exactly when the payload is the fiber's own element `i` -/
theorem lookupPos_fst_some {mk : π} {f : Fib Int π} {c : Int} {i : Nat} (h : (lookupPos mk f c).1 = some i) :
    f[i]? = some (c, (lookupPos mk f c).2) := by
  unfold lookupPos at h ⊢
  cases hl : lookup (withPos f) c with
  | none => rw [hl] at h; cases h
  | some ip =>
    rw [hl] at h
    simp only [Option.some.injEq] at h
    subst h
    exact mem_withPos (lookup_mem hl)

theorem lookupPos_fst_none {mk : π} {f : Fib Int π} {c : Int} (h : (lookupPos mk f c).1 = none) :
    lookup f c = none := by
  unfold lookupPos at h
  rw [← lookup_withPos_map f c]
  cases hl : lookup (withPos f) c with
  | none => rfl
  | some ip => rw [hl] at h; cases h

theorem lookup_posrefF (mk : π) {f : Fib Int π} (hs : Sorted f) (c c' : Int) :
    lookup (posrefF mk f c) c' = if c' = c then some ((lookup f c).getD mk) else lookup f c' := by
  unfold posrefF
  rw [posLookup_eq_lookup hs]
  cases hl : lookup f c with
  | some p =>
    by_cases h : c' = c
    · subst h; simp [hl]
    · simp [h]
  | none =>
    simp only
    rw [lookup_insertAt hl]
    simp

theorem lookup_posrefF_getD (mk : π) {f : Fib Int π} (hs : Sorted f) (c c' : Int) :
    (lookup (posrefF mk f c) c').getD mk = (lookup f c').getD mk := by
  rw [lookup_posrefF mk hs]
  by_cases h : c' = c
  · subst h; simp
  · simp [h]

/-- the reference traversal: result sorted, holding the original plus the default at exactly
    the visited absent coordinates; yields as in the plain traversal -/
theorem shapeRefLoop_spec (mk : π) : ∀ (cs : List Int) (f : Fib Int π), Sorted f →
    Sorted (shapeRefLoop mk f cs).1 ∧
    (∀ c, lookup (shapeRefLoop mk f cs).1 c = refExpect mk f cs c) ∧
    (shapeRefLoop mk f cs).2 = cs.map (fun c => (c, (lookup f c).getD mk))
  | [], f, hs => by
    refine ⟨hs, ?_, rfl⟩
    intro c
    unfold refExpect shapeRefLoop
    cases lookup f c <;> simp
  | c :: cs, f, hs => by
    have hs' := posrefF_sorted mk f c hs
    obtain ⟨h1, h2, h3⟩ := shapeRefLoop_spec mk cs (posrefF mk f c) hs'
    unfold shapeRefLoop
    refine ⟨h1, ?_, ?_⟩
    · intro x
      show lookup (shapeRefLoop mk (posrefF mk f c) cs).1 x = _
      rw [h2 x]
      unfold refExpect
      rw [lookup_posrefF mk hs]
      by_cases hx : x = c
      · subst hx
        cases hl : lookup f x <;> simp
      · simp only [hx, if_false, List.mem_cons, false_or]
    · show (c, (posLookup f c).getD mk) :: (shapeRefLoop mk (posrefF mk f c) cs).2 = _
      rw [h3, posLookup_eq_lookup hs, List.map_cons]
      congr 1
      apply List.map_congr_left
      intro x _
      rw [lookup_posrefF_getD mk hs]

/-- two sorted fibers with the same lookup function are equal -/
theorem sorted_eq_of_lookup {a b : Fib Int π} (ha : Sorted a) (hb : Sorted b)
    (h : ∀ c, lookup a c = lookup b c) : a = b := by
  cases a with
  | nil =>
    cases b with
    | nil => rfl
    | cons y s =>
      have := h y.1
      rw [lookup_of_sorted_mem hb (List.mem_cons_self ..)] at this
      cases this
  | cons x r =>
    have mkd : π := x.2
    apply sorted_ext_of_fn (F := fun c => (lookup (x :: r) c).getD mkd) (x :: r) b ha hb
    · intro e he; rw [lookup_of_sorted_mem ha he]; rfl
    · intro e he; rw [h e.1, lookup_of_sorted_mem hb he]; rfl
    · intro c
      rw [← hasCoord_iff, ← hasCoord_iff, hasCoord_iff_lookup, hasCoord_iff_lookup, h c]

/-- a second traversal finds every coordinate stored: nothing is inserted, same yields -/
theorem shapeRefLoop_present (mk : π) : ∀ (cs : List Int) (g : Fib Int π), Sorted g →
    (∀ c ∈ cs, lookup g c ≠ none) →
    shapeRefLoop mk g cs = (g, cs.map (fun c => (c, (lookup g c).getD mk)))
  | [], g, _, _ => rfl
  | c :: cs, g, hs, hall => by
    have hc : posrefF mk g c = g := by
      unfold posrefF
      rw [posLookup_eq_lookup hs]
      cases hl : lookup g c with
      | some _ => rfl
      | none => exact absurd hl (hall c (List.mem_cons_self ..))
    unfold shapeRefLoop
    rw [hc, shapeRefLoop_present mk cs g hs (fun x hx => hall x (List.mem_cons_of_mem _ hx)),
      posLookup_eq_lookup hs]
    rfl

end shape
end Ft.C07

namespace Ft.C07
open Ft StrictTotal

/-! ### dense co-iteration -/
section co
variable {π : Type}

theorem coShape_eq_spec (mk : π) (fs : List (Fib Int π)) (hs : ∀ f ∈ fs, Sorted f) (cs : List Int) :
    coShape mk fs cs = coShapeSpec mk fs cs := by
  unfold coShape coShapeSpec
  apply List.map_congr_left
  intro c _
  congr 1
  apply List.map_congr_left
  intro f hf
  exact getPos_eq_lookupPos mk (hs f hf) c

theorem coRefStep_eq (mk : π) (c : Int) : ∀ (fs : List (Fib Int π)),
    coRefStep mk c fs = (fs.map (fun f => posrefF mk f c), fs.map (fun f => (posLookup f c).getD mk))
  | [] => rfl
  | f :: fs => by
    unfold coRefStep
    rw [coRefStep_eq mk c fs]
    rfl

/-- the reference co-iteration treats every fiber as its own single-fiber reference traversal -/
theorem coShapeRefLoop_spec (mk : π) : ∀ (cs : List Int) (fs : List (Fib Int π)), (∀ f ∈ fs, Sorted f) →
    (coShapeRefLoop mk fs cs).1 = fs.map (fun f => (shapeRefLoop mk f cs).1) ∧
    (coShapeRefLoop mk fs cs).2 = cs.map (fun c => (c, fs.map (fun f => (lookup f c).getD mk)))
  | [], fs, _ => by
    unfold coShapeRefLoop
    refine ⟨?_, rfl⟩
    simp [shapeRefLoop]
  | c :: cs, fs, hs => by
    have hs' : ∀ g ∈ fs.map (fun f => posrefF mk f c), Sorted g := by
      intro g hg
      obtain ⟨f, hf, rfl⟩ := List.mem_map.1 hg
      exact posrefF_sorted mk f c (hs f hf)
    obtain ⟨h1, h2⟩ := coShapeRefLoop_spec mk cs (fs.map (fun f => posrefF mk f c)) hs'
    unfold coShapeRefLoop
    rw [coRefStep_eq]
    refine ⟨?_, ?_⟩
    · show (coShapeRefLoop mk (fs.map (fun f => posrefF mk f c)) cs).1 = _
      rw [h1, List.map_map]
      apply List.map_congr_left
      intro f _
      simp [shapeRefLoop]
    · show (c, fs.map (fun f => (posLookup f c).getD mk)) ::
        (coShapeRefLoop mk (fs.map (fun f => posrefF mk f c)) cs).2 = _
      rw [h2, List.map_cons]
      congr 1
      · congr 1
        apply List.map_congr_left
        intro f hf
        rw [posLookup_eq_lookup (hs f hf)]
      · apply List.map_congr_left
        intro x _
        congr 1
        rw [List.map_map]
        apply List.map_congr_left
        intro f hf
        exact lookup_posrefF_getD mk (hs f hf) c x

end co
end Ft.C07
