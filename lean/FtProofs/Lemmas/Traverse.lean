/-
  Helper lemmas for C07 (traversal modes).  Everything lives in `Ft.C07`.
-/
import FtModel.Traverse
import FtProofs.Lemmas.Sorted
import FtProofs.Lemmas.Merge
import FtProofs.Lemmas.PointLemmas
import FtProofs.Lemmas.PopLemmas
import FtProofs.Lemmas.MutLemmas
set_option linter.unusedSectionVars false
set_option linter.unusedSimpArgs false
set_option linter.unusedVariables false
namespace Ft.C07
open Ft StrictTotal

/-! ### the range loop -/
section generic
variable {κ : Type} [LT κ] [DecidableRel (α := κ) (· < ·)] [DecidableEq κ] [StrictTotal κ]
variable {π ρ : Type}

theorem geEnd_of_lt {e : Option κ} {c c' : κ} (h : geEnd e c = true) (hlt : c < c') : geEnd e c' = true := by
  cases e with
  | none => simp [geEnd] at h
  | some e =>
    simp only [geEnd, Bool.not_eq_true', decide_eq_false_iff_not] at h ⊢
    intro h'; exact h (trans hlt h')

theorem geStart_of_lt {s : Option κ} {c c' : κ} (h : geStart s c = true) (hlt : c < c') : geStart s c' = true := by
  cases s with
  | none => rfl
  | some s =>
    simp only [geStart, Bool.not_eq_true', decide_eq_false_iff_not] at h ⊢
    intro h'; exact h (trans hlt h')

/-- on an ascending list the loop with its `break` is the filter by the slice predicate -/
theorem rangeLoop_eq_filter (emp : π → Bool) (s e : Option κ) :
    ∀ (f : Fib κ π), Sorted f → rangeLoop emp s e f = rangeSpec emp s e f
  | [], _ => rfl
  | (c, p) :: r, hs => by
    have ih := rangeLoop_eq_filter emp s e r hs.tail
    unfold rangeLoop rangeSpec
    by_cases hge : geEnd e c = true
    · rw [if_pos hge]
      symm
      rw [List.filter_eq_nil_iff]
      intro x hx
      rcases List.mem_cons.1 hx with rfl | hx
      · simp [inSlice, hge]
      · have := geEnd_of_lt hge (hs.head_lt x hx)
        simp [inSlice, this]
    · rw [if_neg hge]
      have hge' : geEnd e c = false := by simpa using hge
      rw [List.filter_cons]
      by_cases hk : (geStart s c && !emp p) = true
      · rw [if_pos hk]
        have : inSlice emp s e (c, p) = true := by
          simp only [inSlice, hge', Bool.not_false, Bool.and_true]
          rw [Bool.and_comm]; exact hk
        rw [if_pos this, ih]; rfl
      · rw [if_neg hk]
        have : ¬ inSlice emp s e (c, p) = true := by
          simp only [inSlice, hge', Bool.not_false, Bool.and_true]
          rw [Bool.and_comm]; exact hk
        rw [if_neg this, ih]; rfl

/-- without bounds there is no `break`: plain filter, no order needed -/
theorem rangeLoop_none (emp : π → Bool) :
    ∀ (f : Fib κ π), rangeLoop emp none none f = f.filter (fun x => !emp x.2)
  | [] => rfl
  | (c, p) :: r => by
    unfold rangeLoop
    simp only [geEnd, geStart, Bool.false_eq_true, if_false, Bool.true_and, List.filter_cons]
    rw [rangeLoop_none emp r]

theorem rangeLoop_sublist (emp : π → Bool) (s e : Option κ) :
    ∀ (f : Fib κ π), (rangeLoop emp s e f).Sublist f
  | [] => List.Sublist.slnil
  | (c, p) :: r => by
    unfold rangeLoop
    split
    · exact List.nil_sublist _
    · split
      · exact (rangeLoop_sublist emp s e r).cons_cons _
      · exact (rangeLoop_sublist emp s e r).cons _

/-- the loop commutes with a change of payload representation -/
theorem rangeLoop_map (emp : π → Bool) (s e : Option κ) (g : ρ → π) :
    ∀ (l : Fib κ ρ), rangeLoop emp s e (l.map (fun x => (x.1, g x.2))) =
      (rangeLoop (fun y => emp (g y)) s e l).map (fun x => (x.1, g x.2))
  | [] => rfl
  | (c, p) :: r => by
    simp only [List.map_cons]
    unfold rangeLoop
    split
    · rfl
    · split
      · simp only [List.map_cons]; rw [rangeLoop_map emp s e g r]
      · exact rangeLoop_map emp s e g r

/-! ### positions -/

theorem strip_withPos (f : Fib κ π) : strip (withPos f) = f := by
  unfold strip withPos
  rw [List.map_map]
  have : ((fun x : κ × (Nat × π) => (x.1, x.2.2)) ∘ fun x : (κ × π) × Nat => (x.1.1, (x.2, x.1.2))) = Prod.fst := by
    funext x; rfl
  rw [this, List.zipIdx_map_fst]

theorem mem_withPos {f : Fib κ π} {c : κ} {i : Nat} {p : π} (h : (c, (i, p)) ∈ withPos f) :
    f[i]? = some (c, p) := by
  unfold withPos at h
  obtain ⟨x, hx, hxe⟩ := List.mem_map.1 h
  obtain ⟨⟨c', p'⟩, j⟩ := x
  simp only [Prod.mk.injEq] at hxe
  obtain ⟨rfl, rfl, rfl⟩ := hxe
  have := List.mem_zipIdx hx
  simp only [Nat.zero_add, Nat.sub_zero] at this
  exact this.2.2 ▸ (by
    have h2 := this.2.1
    rw [List.getElem?_eq_getElem h2])

theorem withPos_length (f : Fib κ π) : (withPos f).length = f.length := by
  simp [withPos]

theorem withPos_keys (f : Fib κ π) : (withPos f).map (·.1) = f.map (·.1) := by
  have := congrArg (List.map (·.1)) (strip_withPos f)
  simpa [strip, List.map_map, Function.comp_def] using this

theorem sorted_iff_keys {f : Fib κ π} {g : Fib κ ρ} (h : f.map (·.1) = g.map (·.1)) :
    Sorted f ↔ Sorted g := by
  unfold Sorted
  have hf : List.Pairwise (fun x y : κ × π => x.1 < y.1) f ↔ List.Pairwise (· < ·) (f.map (·.1)) := by
    rw [List.pairwise_map]
  have hg : List.Pairwise (fun x y : κ × ρ => x.1 < y.1) g ↔ List.Pairwise (· < ·) (g.map (·.1)) := by
    rw [List.pairwise_map]
  rw [hf, hg, h]

theorem withPos_sorted {f : Fib κ π} (h : Sorted f) : Sorted (withPos f) :=
  (sorted_iff_keys (withPos_keys f)).2 h

theorem strip_take (l : Fib κ (Nat × π)) (n : Nat) : strip (l.take n) = (strip l).take n := by
  simp [strip, List.map_take]

theorem lookup_strip (l : Fib κ (Nat × π)) (c : κ) : lookup (strip l) c = (lookup l c).map (·.2) := by
  induction l with
  | nil => rfl
  | cons x r ih =>
    simp only [strip, List.map_cons] at ih ⊢
    rw [lookup_cons, lookup_cons]
    by_cases h : x.1 = c
    · simp [h]
    · simp [h]; exact ih

theorem lookup_withPos_map (f : Fib κ π) (c : κ) : (lookup (withPos f) c).map (·.2) = lookup f c := by
  rw [← lookup_strip, strip_withPos]

/-! ### `iterRange` on an eager fiber -/

theorem iterRange_strip (emp : π → Bool) (s e : Option κ) (f : Fib κ π) :
    strip (iterRange emp s e none f) = rangeLoop emp s e f := by
  unfold iterRange strip
  simp only [Option.getD_none, List.drop_zero]
  have h := rangeLoop_map emp s e (fun ip : Nat × π => ip.2) (withPos f)
  have h2 : (withPos f).map (fun x => (x.1, x.2.2)) = f := strip_withPos f
  rw [h2] at h
  exact h.symm

theorem mem_iterRange {emp : π → Bool} {s e : Option κ} {sp : Option Nat} {f : Fib κ π}
    {c : κ} {i : Nat} {p : π} (h : (c, (i, p)) ∈ iterRange emp s e sp f) : f[i]? = some (c, p) := by
  unfold iterRange at h
  exact mem_withPos (List.mem_of_mem_drop ((rangeLoop_sublist _ s e _).subset h))

theorem inSlice_withPos (emp : π → Bool) (s e : Option κ) (x : κ × (Nat × π)) :
    inSlice (fun ip : Nat × π => emp ip.2) s e x = inSlice emp s e (x.1, x.2.2) := rfl

theorem filter_take_withPos_nil {emp : π → Bool} {s e : Option κ} {sp : Nat} {f : Fib κ π}
    (h : ∀ x ∈ f.take sp, inSlice emp s e x = false) :
    ((withPos f).take sp).filter (inSlice (fun ip : Nat × π => emp ip.2) s e) = [] := by
  rw [List.filter_eq_nil_iff]
  intro x hx
  have hx' : (x.1, x.2.2) ∈ f.take sp := by
    have : (x.1, x.2.2) ∈ strip ((withPos f).take sp) := List.mem_map.2 ⟨x, hx, rfl⟩
    rwa [strip_take, strip_withPos] at this
  rw [inSlice_withPos, h _ hx']; simp

/-- a valid shortcut does not change what is yielded (positions included) -/
theorem iterRange_startpos_eq (emp : π → Bool) (s e : Option κ) (sp : Nat) (f : Fib κ π) (hs : Sorted f)
    (hv : validStart emp s e sp f = true) :
    iterRange emp s e (some sp) f = iterRange emp s e none f := by
  unfold validStart at hv
  rw [Bool.and_eq_true, List.all_eq_true] at hv
  have hv2 : ∀ x ∈ f.take sp, inSlice emp s e x = false := by
    intro x hx; have := hv.2 x hx; simpa using this
  unfold iterRange
  simp only [Option.getD_some, Option.getD_none, List.drop_zero]
  have hw := withPos_sorted hs
  rw [rangeLoop_eq_filter _ s e _ (sorted_drop hw sp), rangeLoop_eq_filter _ s e _ hw]
  unfold rangeSpec
  conv => rhs; rw [← List.take_append_drop sp (withPos f), List.filter_append, filter_take_withPos_nil hv2]
  rfl

/-- every position the traversal saves is a valid shortcut for any later slice that starts at
    or after the coordinate yielded there -/
theorem saved_is_valid {emp : π → Bool} {s e : Option κ} {sp : Option Nat} {f : Fib κ π} (hs : Sorted f)
    {c : κ} {i : Nat} {p : π} (h : (c, (i, p)) ∈ iterRange emp s e sp f)
    (s' : κ) (e' : Option κ) (hle : ¬ s' < c) : validStart emp (some s') e' i f = true := by
  have hi := mem_iterRange h
  unfold validStart
  rw [Bool.and_eq_true, List.all_eq_true]
  refine ⟨?_, ?_⟩
  · have := (List.getElem?_eq_some_iff.1 hi).1
    simpa using this
  · intro x hx
    have hlt : x.1 < c := sorted_take_lt hs hi x hx
    have : geStart (some s') x.1 = false := by
      simp only [geStart, Bool.not_eq_false', decide_eq_true_eq]
      rcases tri x.1 s' with h1 | h1 | h1
      · exact h1
      · subst h1; exact absurd hlt hle
      · exact absurd (trans h1 hlt) hle
    simp [inSlice, this]

end generic
end Ft.C07

namespace Ft.C07
open Ft StrictTotal

/-! ### Python's `range` -/

theorem pyRange_nil {s e : Int} {k : Nat} (h : ¬ (s < e ∧ 0 < k)) : pyRange s e k = [] := by
  rw [pyRange]; simp [h]

theorem pyRange_cons {s e : Int} {k : Nat} (h : s < e ∧ 0 < k) :
    pyRange s e k = s :: pyRange (s + k) e k := by
  rw [pyRange]; simp [h]

/-- `range(s, e, k)`: the coordinates `s, s+k, s+2k, …` below `e` -/
theorem mem_pyRange (s e : Int) (k : Nat) (c : Int) :
    c ∈ pyRange s e k ↔ 0 < k ∧ c < e ∧ ∃ n : Nat, c = s + n * k := by
  fun_induction pyRange s e k with
  | case1 s h ih =>
    rw [List.mem_cons, ih]
    constructor
    · rintro (rfl | ⟨hk, hlt, n, rfl⟩)
      · exact ⟨h.2, h.1, 0, by simp⟩
      · refine ⟨hk, hlt, n + 1, ?_⟩
        rw [Int.natCast_succ, Int.add_mul]; omega
    · rintro ⟨hk, hlt, n, rfl⟩
      cases n with
      | zero => left; simp
      | succ n =>
        right
        refine ⟨hk, hlt, n, ?_⟩
        rw [Int.natCast_succ, Int.add_mul]; omega
  | case2 s h =>
    simp only [List.not_mem_nil, false_iff]
    rintro ⟨hk, hlt, n, rfl⟩
    apply h
    refine ⟨?_, hk⟩
    have : (0 : Int) ≤ (n : Int) * (k : Int) := Int.mul_nonneg (Int.natCast_nonneg n) (Int.natCast_nonneg k)
    omega

theorem mem_pyRange_one (s e c : Int) : c ∈ pyRange s e 1 ↔ s ≤ c ∧ c < e := by
  rw [mem_pyRange]
  constructor
  · rintro ⟨_, hlt, n, rfl⟩
    exact ⟨by simp; omega, hlt⟩
  · rintro ⟨h1, h2⟩
    exact ⟨by decide, h2, (c - s).toNat, by simp; omega⟩

theorem pyRange_ge (s e : Int) (k : Nat) : ∀ c ∈ pyRange s e k, s ≤ c := by
  intro c hc
  obtain ⟨_, _, n, rfl⟩ := (mem_pyRange s e k c).1 hc
  have : (0 : Int) ≤ (n : Int) * (k : Int) := Int.mul_nonneg (Int.natCast_nonneg n) (Int.natCast_nonneg k)
  omega

/-- … in strictly ascending order -/
theorem pyRange_ascending (s e : Int) (k : Nat) : (pyRange s e k).Pairwise (· < ·) := by
  fun_induction pyRange s e k with
  | case1 s h ih =>
    rw [List.pairwise_cons]
    refine ⟨?_, ih⟩
    intro c hc
    have := pyRange_ge _ _ _ c hc
    omega
  | case2 s h => exact List.Pairwise.nil

end Ft.C07

namespace Ft.C07
open Ft StrictTotal

/-! ### shape iteration -/
section shape
variable {π : Type}

theorem getPos_eq_lookupPos (mk : π) {f : Fib Int π} (hs : Sorted f) (c : Int) :
    getPos mk f c = lookupPos mk f c := by
  unfold getPos lookupPos
  rw [posLookup_eq_lookup (withPos_sorted hs)]

theorem shapeIter_eq_spec (mk : π) {f : Fib Int π} (hs : Sorted f) (cs : List Int) :
    shapeIter mk f cs = shapeSpec mk f cs := by
  unfold shapeIter shapeSpec
  apply List.map_congr_left
  intro c _
  rw [getPos_eq_lookupPos mk hs]

/-- the payload part of the declarative lookup: stored payload or default -/
theorem lookupPos_snd (mk : π) (f : Fib Int π) (c : Int) : (lookupPos mk f c).2 = (lookup f c).getD mk := by
  unfold lookupPos
  rw [← lookup_withPos_map f c]
  cases lookup (withPos f) c <;> rfl

/-- the position part: `some i` exactly when the payload is the fiber's own element `i` -/
theorem lookupPos_fst_some {mk : π} {f : Fib Int π} {c : Int} {i : Nat} (h : (lookupPos mk f c).1 = some i) :
    f[i]? = some (c, (lookupPos mk f c).2) := by
  unfold lookupPos at h ⊢
  cases hl : lookup (withPos f) c with
  | none => rw [hl] at h; cases h
  | some ip =>
    rw [hl] at h
    simp only [Option.some.injEq] at h
    subst h
    exact mem_withPos (lookup_mem hl)

theorem lookupPos_fst_none {mk : π} {f : Fib Int π} {c : Int} (h : (lookupPos mk f c).1 = none) :
    lookup f c = none := by
  unfold lookupPos at h
  rw [← lookup_withPos_map f c]
  cases hl : lookup (withPos f) c with
  | none => rfl
  | some ip => rw [hl] at h; cases h

theorem lookup_posrefF (mk : π) {f : Fib Int π} (hs : Sorted f) (c c' : Int) :
    lookup (posrefF mk f c) c' = if c' = c then some ((lookup f c).getD mk) else lookup f c' := by
  unfold posrefF insertIfMissing
  rw [posLookup_eq_lookup hs]
  cases hl : lookup f c with
  | some p =>
    by_cases h : c' = c
    · subst h; simp [hl]
    · simp [h]
  | none =>
    simp only
    rw [lookup_insertAt hl]
    simp

theorem lookup_posrefF_getD (mk : π) {f : Fib Int π} (hs : Sorted f) (c c' : Int) :
    (lookup (posrefF mk f c) c').getD mk = (lookup f c').getD mk := by
  rw [lookup_posrefF mk hs]
  by_cases h : c' = c
  · subst h; simp
  · simp [h]

/-- the reference traversal: result sorted, holding the original plus the default at exactly
    the visited absent coordinates; yields as in the plain traversal -/
theorem shapeRefLoop_spec (mk : π) : ∀ (cs : List Int) (f : Fib Int π), Sorted f →
    Sorted (shapeRefLoop mk f cs).1 ∧
    (∀ c, lookup (shapeRefLoop mk f cs).1 c = refExpect mk f cs c) ∧
    (shapeRefLoop mk f cs).2 = cs.map (fun c => (c, (lookup f c).getD mk))
  | [], f, hs => by
    refine ⟨hs, ?_, rfl⟩
    intro c
    unfold refExpect shapeRefLoop
    cases lookup f c <;> simp
  | c :: cs, f, hs => by
    have hs' := posrefF_sorted mk f c hs
    obtain ⟨h1, h2, h3⟩ := shapeRefLoop_spec mk cs (posrefF mk f c) hs'
    unfold shapeRefLoop
    refine ⟨h1, ?_, ?_⟩
    · intro x
      show lookup (shapeRefLoop mk (posrefF mk f c) cs).1 x = _
      rw [h2 x]
      unfold refExpect
      rw [lookup_posrefF mk hs]
      by_cases hx : x = c
      · subst hx
        cases hl : lookup f x <;> simp
      · simp only [hx, if_false, List.mem_cons, false_or]
    · show (c, (posLookup f c).getD mk) :: (shapeRefLoop mk (posrefF mk f c) cs).2 = _
      rw [h3, posLookup_eq_lookup hs, List.map_cons]
      congr 1
      apply List.map_congr_left
      intro x _
      rw [lookup_posrefF_getD mk hs]

/-- two sorted fibers with the same lookup function are equal -/
theorem sorted_eq_of_lookup {a b : Fib Int π} (ha : Sorted a) (hb : Sorted b)
    (h : ∀ c, lookup a c = lookup b c) : a = b := by
  cases a with
  | nil =>
    cases b with
    | nil => rfl
    | cons y s =>
      have := h y.1
      rw [lookup_of_sorted_mem hb (List.mem_cons_self ..)] at this
      cases this
  | cons x r =>
    have mkd : π := x.2
    apply sorted_ext_of_fn (F := fun c => (lookup (x :: r) c).getD mkd) (x :: r) b ha hb
    · intro e he; rw [lookup_of_sorted_mem ha he]; rfl
    · intro e he; rw [h e.1, lookup_of_sorted_mem hb he]; rfl
    · intro c
      rw [← hasCoord_iff, ← hasCoord_iff, hasCoord_iff_lookup, hasCoord_iff_lookup, h c]

/-- a second traversal finds every coordinate stored: nothing is inserted, same yields -/
theorem shapeRefLoop_present (mk : π) : ∀ (cs : List Int) (g : Fib Int π), Sorted g →
    (∀ c ∈ cs, lookup g c ≠ none) →
    shapeRefLoop mk g cs = (g, cs.map (fun c => (c, (lookup g c).getD mk)))
  | [], g, _, _ => rfl
  | c :: cs, g, hs, hall => by
    have hc : posrefF mk g c = g := by
      unfold posrefF insertIfMissing
      rw [posLookup_eq_lookup hs]
      cases hl : lookup g c with
      | some _ => rfl
      | none => exact absurd hl (hall c (List.mem_cons_self ..))
    unfold shapeRefLoop
    rw [hc, shapeRefLoop_present mk cs g hs (fun x hx => hall x (List.mem_cons_of_mem _ hx)),
      posLookup_eq_lookup hs]
    rfl

end shape
end Ft.C07

namespace Ft.C07
open Ft StrictTotal

/-! ### dense co-iteration -/
section co
variable {π : Type}

theorem coShape_eq_spec (mk : π) (fs : List (Fib Int π)) (hs : ∀ f ∈ fs, Sorted f) (cs : List Int) :
    coShape mk fs cs = coShapeSpec mk fs cs := by
  unfold coShape coShapeSpec
  apply List.map_congr_left
  intro c _
  congr 1
  apply List.map_congr_left
  intro f hf
  exact getPos_eq_lookupPos mk (hs f hf) c

theorem coRefStep_eq (mk : π) (c : Int) : ∀ (fs : List (Fib Int π)),
    coRefStep mk c fs = (fs.map (fun f => posrefF mk f c), fs.map (fun f => (posLookup f c).getD mk))
  | [] => rfl
  | f :: fs => by
    unfold coRefStep
    rw [coRefStep_eq mk c fs]
    rfl

/-- the reference co-iteration treats every fiber as its own single-fiber reference traversal -/
theorem coShapeRefLoop_spec (mk : π) : ∀ (cs : List Int) (fs : List (Fib Int π)), (∀ f ∈ fs, Sorted f) →
    (coShapeRefLoop mk fs cs).1 = fs.map (fun f => (shapeRefLoop mk f cs).1) ∧
    (coShapeRefLoop mk fs cs).2 = cs.map (fun c => (c, fs.map (fun f => (lookup f c).getD mk)))
  | [], fs, _ => by
    unfold coShapeRefLoop
    refine ⟨?_, rfl⟩
    simp [shapeRefLoop]
  | c :: cs, fs, hs => by
    have hs' : ∀ g ∈ fs.map (fun f => posrefF mk f c), Sorted g := by
      intro g hg
      obtain ⟨f, hf, rfl⟩ := List.mem_map.1 hg
      exact posrefF_sorted mk f c (hs f hf)
    obtain ⟨h1, h2⟩ := coShapeRefLoop_spec mk cs (fs.map (fun f => posrefF mk f c)) hs'
    unfold coShapeRefLoop
    rw [coRefStep_eq]
    refine ⟨?_, ?_⟩
    · show (coShapeRefLoop mk (fs.map (fun f => posrefF mk f c)) cs).1 = _
      rw [h1, List.map_map]
      apply List.map_congr_left
      intro f _
      simp [shapeRefLoop]
    · show (c, fs.map (fun f => (posLookup f c).getD mk)) ::
        (coShapeRefLoop mk (fs.map (fun f => posrefF mk f c)) cs).2 = _
      rw [h2, List.map_cons]
      congr 1
      · congr 1
        apply List.map_congr_left
        intro f hf
        rw [posLookup_eq_lookup (hs f hf)]
      · apply List.map_congr_left
        intro x _
        congr 1
        rw [List.map_map]
        apply List.map_congr_left
        intro f hf
        exact lookup_posrefF_getD mk (hs f hf) c x

end co
end Ft.C07

namespace Ft.C07
open Ft StrictTotal

/-! ### default iteration, and the coherence of shape and occupancy iteration -/
section dispatch
variable {π : Type}

theorem stored_keys (l : Fib Int (Nat × π)) : (stored l).map (·.1) = l.map (·.1) := by
  simp [stored, List.map_map, Function.comp_def]

theorem stored_filter (P : Int → π → Bool) (l : Fib Int (Nat × π)) :
    (stored l).filter (fun x => P x.1 x.2.2) = stored (l.filter (fun x => P x.1 x.2.2)) := by
  unfold stored
  rw [List.filter_map]
  rfl

theorem sorted_filter {ρ : Type} {l : Fib Int ρ} (h : Sorted l) (P : Int × ρ → Bool) : Sorted (l.filter P) :=
  List.Pairwise.sublist List.filter_sublist h

theorem shapeSpec_sorted (mk : π) (f : Fib Int π) {cs : List Int} (h : cs.Pairwise (· < ·)) :
    Sorted (shapeSpec mk f cs) := by
  unfold shapeSpec Sorted
  rw [List.pairwise_map]
  exact h

theorem iterDefault_C (emp : π → Bool) (mk : π) (cfg : Cfg) (hf : cfg.fmt = .C) (f : Fib Int π) :
    iterDefault emp mk cfg none f = iterDefaultSpec emp mk cfg f := by
  unfold iterDefault iterDefaultSpec iterRange
  rw [hf]
  simp only [Option.getD_none, List.drop_zero]
  rw [rangeLoop_none]

theorem iterDefault_C_sp (emp : π → Bool) (mk : π) (cfg : Cfg) (hf : cfg.fmt = .C) {f : Fib Int π} (hs : Sorted f)
    (sp : Nat) (hv : validStart emp none none sp f = true) :
    iterDefault emp mk cfg (some sp) f = iterDefaultSpec emp mk cfg f := by
  rw [← iterDefault_C emp mk cfg hf f]
  unfold iterDefault
  rw [hf]
  simp only
  rw [iterRange_startpos_eq emp none none sp f hs hv]

theorem iterDefault_U (emp : π → Bool) (mk : π) (cfg : Cfg) (hf : cfg.fmt = .U) {f : Fib Int π} (hs : Sorted f)
    (sp : Option Nat) : iterDefault emp mk cfg sp f = iterDefaultSpec emp mk cfg f := by
  unfold iterDefault iterDefaultSpec
  rw [hf]
  exact shapeIter_eq_spec mk hs _

/-- the non-empty part of a dense traversal of `[a, b)` is the occupancy traversal clipped to
    `[a, b)` — same elements, same positions -/
theorem shape_nonempty_eq_range (emp : π → Bool) (mk : π) (hmk : emp mk = true) {f : Fib Int π} (hs : Sorted f)
    (a b : Int) :
    (shapeSpec mk f (pyRange a b 1)).filter (fun x => !emp x.2.2) =
      stored ((withPos f).filter (fun x => !emp x.2.2 && decide (a ≤ x.1) && decide (x.1 < b))) := by
  have hw := withPos_sorted hs
  apply sorted_ext_of_fn (F := fun c => lookupPos mk f c)
  · exact sorted_filter (shapeSpec_sorted mk f (pyRange_ascending a b 1)) _
  · exact (sorted_iff_keys (stored_keys _)).2 (sorted_filter hw _)
  · intro r hr
    obtain ⟨c, _, rfl⟩ := List.mem_map.1 (List.mem_filter.1 hr).1
    rfl
  · intro r hr
    obtain ⟨x, hx, rfl⟩ := List.mem_map.1 hr
    have hx' := (List.mem_filter.1 hx).1
    show (some x.2.1, x.2.2) = lookupPos mk f x.1
    unfold lookupPos
    rw [lookup_of_sorted_mem hw hx']
  · intro c
    constructor
    · rintro ⟨r, hr, rfl⟩
      obtain ⟨hr1, hr2⟩ := List.mem_filter.1 hr
      obtain ⟨c, hc, rfl⟩ := List.mem_map.1 hr1
      have hc' := (mem_pyRange_one a b c).1 hc
      simp only at hr2 ⊢
      cases hl : lookup (withPos f) c with
      | none =>
        have : (lookupPos mk f c).2 = mk := by unfold lookupPos; rw [hl]
        rw [this, hmk] at hr2; cases hr2
      | some ip =>
        have h2 : (lookupPos mk f c).2 = ip.2 := by unfold lookupPos; rw [hl]
        rw [h2] at hr2
        refine ⟨(c, (some ip.1, ip.2)), ?_, rfl⟩
        apply List.mem_map.2
        refine ⟨(c, ip), ?_, rfl⟩
        apply List.mem_filter.2
        refine ⟨lookup_mem hl, ?_⟩
        simp [hr2, hc'.1, hc'.2]
    · rintro ⟨r, hr, rfl⟩
      obtain ⟨x, hx, rfl⟩ := List.mem_map.1 hr
      obtain ⟨hx1, hx2⟩ := List.mem_filter.1 hx
      simp only [Bool.and_eq_true, decide_eq_true_eq] at hx2
      refine ⟨(x.1, lookupPos mk f x.1), ?_, rfl⟩
      apply List.mem_filter.2
      refine ⟨List.mem_map.2 ⟨x.1, (mem_pyRange_one a b x.1).2 ⟨hx2.1.2, hx2.2⟩, rfl⟩, ?_⟩
      have : (lookupPos mk f x.1).2 = x.2.2 := by
        unfold lookupPos; rw [lookup_of_sorted_mem hw hx1]
      simp only [this]
      exact hx2.1.1

end dispatch
end Ft.C07

namespace Ft.C07
open Ft StrictTotal

/-! ### `project` -/
section proj
variable {π ρ : Type}

theorem ivLoop_eq (iv : Option (Int × Int)) {l : Fib Int ρ} (hs : Sorted l) :
    ivLoop iv l = l.filter (fun x => inIv iv x.1) := by
  cases iv with
  | none => simp [ivLoop, inIv, List.filter_eq_self.2]
  | some p =>
    obtain ⟨lo, hi⟩ := p
    unfold ivLoop
    simp only
    rw [rangeLoop_eq_filter _ _ _ l hs]
    unfold rangeSpec
    apply filter_congr'
    intro x _
    simp only [inSlice, inIv, geStart, geEnd, Bool.not_false, Bool.true_and, Bool.not_not]
    congr 1
    by_cases h : x.1 < lo
    · have : ¬ lo ≤ x.1 := by omega
      simp [h, this]
    · have : lo ≤ x.1 := by omega
      simp [h, this]

theorem lazyIter_eq (emp : ρ → Bool) (os oe : Option Int) {l : Fib Int ρ} (hs : Sorted l) :
    lazyIter emp os oe l = l.filter (inSlice emp os oe) :=
  rangeLoop_eq_filter emp os oe l hs

/-- the normal form of the whole pipeline: transform, then keep what lies in the interval, is
    non-empty and lies in the range the result is iterated with -/
def nf (emp : π → Bool) (k m : Int) (iv : Option (Int × Int)) (os oe : Option Int)
    (src : Fib Int (Option Nat × π)) : Fib Int (Option Nat × π) :=
  (transF k m src).filter (fun x => inIv iv x.1 && inSlice (fun y : Option Nat × π => emp y.2) os oe x)

theorem pipeline_eq_nf (emp : π → Bool) (k m : Int) (iv : Option (Int × Int)) (os oe : Option Int)
    {src : Fib Int (Option Nat × π)} (hs : Sorted (transF k m src)) :
    lazyIter (fun y : Option Nat × π => emp y.2) os oe (ivLoop iv (transF k m src)) = nf emp k m iv os oe src := by
  rw [ivLoop_eq iv hs, lazyIter_eq _ os oe (sorted_filter hs _), List.filter_filter]
  unfold nf
  apply filter_congr'
  intro x _
  rw [Bool.and_comm]

theorem nf_append (emp : π → Bool) (k m : Int) (iv : Option (Int × Int)) (os oe : Option Int)
    (a b : Fib Int (Option Nat × π)) :
    nf emp k m iv os oe (a ++ b) = nf emp k m iv os oe a ++ nf emp k m iv os oe b := by
  simp [nf, transF, List.filter_append]

theorem nf_reverse (emp : π → Bool) (k m : Int) (iv : Option (Int × Int)) (os oe : Option Int)
    (a : Fib Int (Option Nat × π)) :
    nf emp k m iv os oe a.reverse = (nf emp k m iv os oe a).reverse := by
  simp [nf, transF, List.filter_reverse, List.map_reverse]

theorem transF_sorted_pos {k : Int} (hk : 0 < k) (m : Int) {l : Fib Int ρ} (hs : Sorted l) :
    Sorted (transF k m l) := by
  unfold transF Sorted
  rw [List.pairwise_map]
  apply List.Pairwise.imp _ hs
  intro a b hab
  have := Int.mul_lt_mul_of_pos_left hab hk
  show k * a.1 + m < k * b.1 + m
  omega

theorem transF_sorted_neg {k : Int} (hk : k < 0) (m : Int) {l : Fib Int ρ} (hs : Sorted l) :
    Sorted (transF k m l.reverse) := by
  unfold transF Sorted
  rw [List.pairwise_map, List.pairwise_reverse]
  apply List.Pairwise.imp _ hs
  intro a b hab
  have := Int.mul_lt_mul_of_neg_left hab hk
  show k * b.1 + m < k * a.1 + m
  omega

/-- the stored non-empty elements with their positions -/
def occ (emp : π → Bool) (f : Fib Int π) : Fib Int (Option Nat × π) :=
  stored ((withPos f).filter (fun x => !emp x.2.2))

theorem occ_sorted (emp : π → Bool) {f : Fib Int π} (hs : Sorted f) : Sorted (occ emp f) :=
  (sorted_iff_keys (stored_keys _)).2 (sorted_filter (withPos_sorted hs) _)

theorem occ_nonempty (emp : π → Bool) (f : Fib Int π) : ∀ x ∈ occ emp f, emp x.2.2 = false := by
  intro x hx
  obtain ⟨y, hy, rfl⟩ := List.mem_map.1 hx
  have := (List.mem_filter.1 hy).2
  simpa using this

/-- the specification in normal form -/
theorem projectSpec_eq_nf (emp : π → Bool) (k m : Int) (iv : Option (Int × Int)) (os oe : Option Int) (f : Fib Int π) :
    projectSpec emp k m iv os oe f =
      if k < 0 then (nf emp k m iv os oe (occ emp f)).reverse else nf emp k m iv os oe (occ emp f) := by
  have key : (transF k m (occ emp f)).filter (fun x => inIv iv x.1 && geStart os x.1 && !geEnd oe x.1) =
      nf emp k m iv os oe (occ emp f) := by
    unfold nf
    apply filter_congr'
    intro x hx
    obtain ⟨y, hy, rfl⟩ := List.mem_map.1 hx
    have := occ_nonempty emp f y hy
    simp only [inSlice, this, Bool.not_false, Bool.true_and, Bool.and_assoc]
  unfold projectSpec
  simp only
  show (if k < 0 then ((transF k m (occ emp f)).filter _).reverse else (transF k m (occ emp f)).filter _) = _
  rw [key]

end proj
end Ft.C07

namespace Ft.C07
open Ft StrictTotal

section projcases
variable {π : Type}

theorem mem_withPos_strip {f : Fib Int π} {x : Int × (Nat × π)} (hx : x ∈ withPos f) : (x.1, x.2.2) ∈ f := by
  have : (x.1, x.2.2) ∈ strip (withPos f) := List.mem_map.2 ⟨x, hx, rfl⟩
  rwa [strip_withPos] at this

theorem mem_take_withPos_strip {f : Fib Int π} {n : Nat} {x : Int × (Nat × π)} (hx : x ∈ (withPos f).take n) :
    (x.1, x.2.2) ∈ f.take n := by
  have : (x.1, x.2.2) ∈ strip ((withPos f).take n) := List.mem_map.2 ⟨x, hx, rfl⟩
  rwa [strip_take, strip_withPos] at this

theorem occ_congr {emp emp' : π → Bool} {f : Fib Int π} (h : ∀ x ∈ f, emp' x.2 = emp x.2) :
    occ emp' f = occ emp f := by
  unfold occ
  congr 1
  apply filter_congr'
  intro x hx
  have := h _ (mem_withPos_strip hx)
  simp only at this
  rw [this]

theorem revInner_eq (emp : π → Bool) (f : Fib Int π) : revInner emp f = (occ emp f).reverse := by
  unfold revInner occ stored
  rw [rangeLoop_none, List.filter_reverse, List.map_reverse]

theorem nf_filter_nonempty (emp : π → Bool) (k m : Int) (iv : Option (Int × Int)) (os oe : Option Int)
    (src : Fib Int (Option Nat × π)) :
    nf emp k m iv os oe (src.filter (fun x => !emp x.2.2)) = nf emp k m iv os oe src := by
  unfold nf transF
  rw [List.filter_map, List.filter_map, List.filter_filter]
  congr 1
  apply filter_congr'
  intro x _
  simp only [Function.comp, inSlice]
  cases emp x.2.2 <;> simp

theorem project_unfold_rev (emp : π → Bool) (mk : π) (cfg : Cfg) {k : Int} (hk : k < 0) (m : Int)
    (iv : Option (Int × Int)) (os oe : Option Int) (f : Fib Int π) :
    project emp mk cfg k m iv none os oe f =
      .ok (lazyIter (fun x : Option Nat × π => emp x.2) os oe (ivLoop iv (transF k m (revInner emp f)))) := by
  unfold project projectRaw
  have h2 : decide (k * 0 + m > k * 1 + m) = true := by
    simp only [decide_eq_true_eq]; omega
  simp only [h2, if_true, Option.isSome_none, Bool.false_eq_true, if_false]
  rfl

theorem project_unfold_fwd (emp : π → Bool) (mk : π) (cfg : Cfg) {k : Int} (hk : 0 < k) (m : Int)
    (iv : Option (Int × Int)) (sp : Option Nat) (os oe : Option Int) {f : Fib Int π}
    (hok : projStartOk k m iv sp f = true) :
    project emp mk cfg k m iv sp os oe f =
      .ok (lazyIter (fun x : Option Nat × π => emp x.2) os oe (ivLoop iv (transF k m (iterDefault emp mk cfg sp f)))) := by
  unfold project projectRaw
  have h2 : decide (k * 0 + m > k * 1 + m) = false := by
    simp only [decide_eq_false_iff_not]; omega
  simp only [Bool.false_eq_true, if_false, h2, hok, Bool.not_true]
  rfl

/-- order-reversing transform -/
theorem project_rev (emp : π → Bool) (mk : π) (cfg : Cfg) {k : Int} (hk : k < 0) (m : Int)
    (iv : Option (Int × Int)) (os oe : Option Int) {f : Fib Int π} (hs : Sorted f) :
    project emp mk cfg k m iv none os oe f = .ok (projectSpec emp k m iv os oe f) := by
  rw [project_unfold_rev emp mk cfg hk m iv os oe f, revInner_eq,
    pipeline_eq_nf emp k m iv os oe (transF_sorted_neg hk m (occ_sorted emp hs)), nf_reverse,
    projectSpec_eq_nf, if_pos hk]

theorem iterDefaultSpec_C (emp : π → Bool) (mk : π) (cfg : Cfg) (hf : cfg.fmt = .C) (f : Fib Int π) :
    iterDefaultSpec emp mk cfg f = occ emp f := by
  unfold iterDefaultSpec occ; rw [hf]

/-- order-preserving transform, compressed rank, no shortcut -/
theorem project_fwd_C (emp : π → Bool) (mk : π) (cfg : Cfg) (hf : cfg.fmt = .C) {k : Int} (hk : 0 < k) (m : Int)
    (iv : Option (Int × Int)) (os oe : Option Int) {f : Fib Int π} (hs : Sorted f) :
    project emp mk cfg k m iv none os oe f = .ok (projectSpec emp k m iv os oe f) := by
  rw [project_unfold_fwd emp mk cfg hk m iv none os oe rfl, iterDefault_C emp mk cfg hf,
    iterDefaultSpec_C emp mk cfg hf,
    pipeline_eq_nf emp k m iv os oe (transF_sorted_pos hk m (occ_sorted emp hs)),
    projectSpec_eq_nf, if_neg (by omega)]

theorem mem_take_le {f : Fib Int π} (hs : Sorted f) {n : Nat} {y : Int × π} (hy : f[n]? = some y) :
    ∀ z ∈ f.take (n + 1), z.1 ≤ y.1 := by
  intro z hz
  rw [List.take_add_one, hy] at hz
  rcases List.mem_append.1 hz with h | h
  · exact Int.le_of_lt (sorted_take_lt hs hy z h)
  · simp at h; subst h; exact Int.le_refl _

/-- order-preserving transform, compressed rank, valid shortcut -/
theorem project_fwd_C_sp (emp : π → Bool) (mk : π) (cfg : Cfg) (hf : cfg.fmt = .C) {k : Int} (hk : 0 < k) (m : Int)
    (iv : Option (Int × Int)) (sp : Nat) (os oe : Option Int) {f : Fib Int π} (hs : Sorted f)
    (hok : projStartOk k m iv (some sp) f = true) (hv : projValidStart emp k m iv sp f = true) :
    project emp mk cfg k m iv (some sp) os oe f = .ok (projectSpec emp k m iv os oe f) := by
  have hw := withPos_sorted hs
  rw [project_unfold_fwd emp mk cfg hk m iv (some sp) os oe hok]
  -- the traversed sequence: the non-empty elements from position `sp`
  have hsrc : iterDefault emp mk cfg (some sp) f = stored (((withPos f).drop sp).filter (fun x => !emp x.2.2)) := by
    unfold iterDefault iterRange
    rw [hf]; simp only [Option.getD_some]
    rw [rangeLoop_none]
  have hsplit : occ emp f = stored (((withPos f).take sp).filter (fun x => !emp x.2.2)) ++
      stored (((withPos f).drop sp).filter (fun x => !emp x.2.2)) := by
    unfold occ stored
    rw [← List.map_append, ← List.filter_append, List.take_append_drop]
  have hsort : Sorted (transF k m (stored (((withPos f).drop sp).filter (fun x => !emp x.2.2)))) := by
    apply transF_sorted_pos hk m
    exact (sorted_iff_keys (stored_keys _)).2 (sorted_filter (sorted_drop hw sp) _)
  rw [hsrc, pipeline_eq_nf emp k m iv os oe hsort, projectSpec_eq_nf, if_neg (by omega), hsplit, nf_append]
  -- nothing of the skipped prefix belongs to the result
  have hpre : nf emp k m iv os oe (stored (((withPos f).take sp).filter (fun x => !emp x.2.2))) = [] := by
    unfold projValidStart at hv
    rw [Bool.and_eq_true] at hv
    obtain ⟨_, hv⟩ := hv
    cases iv with
    | none =>
      simp only at hv
      rw [List.all_eq_true] at hv
      have : ((withPos f).take sp).filter (fun x => !emp x.2.2) = [] := by
        rw [List.filter_eq_nil_iff]
        intro x hx
        have := hv _ (mem_take_withPos_strip hx)
        simp only at this
        simp [this]
      rw [this]; rfl
    | some p =>
      obtain ⟨lo, hi⟩ := p
      simp only at hv
      cases sp with
      | zero => simp [nf, stored, transF]
      | succ n =>
        simp only [Nat.add_sub_cancel, Bool.or_eq_true] at hv
        rcases hv with hv | hv
        · simp at hv
        · cases hy : f[n]? with
          | none => rw [hy] at hv; cases hv
          | some y =>
            rw [hy] at hv
            simp only [decide_eq_true_eq] at hv
            unfold nf
            rw [List.filter_eq_nil_iff]
            intro r hr
            obtain ⟨a, ha, rfl⟩ := List.mem_map.1 hr
            obtain ⟨x, hx, rfl⟩ := List.mem_map.1 ha
            have hx' := (List.mem_filter.1 hx).1
            have hle := mem_take_le hs hy _ (mem_take_withPos_strip hx')
            simp only at hle
            have : k * x.1 + m < lo := by
              have := Int.mul_le_mul_of_nonneg_left hle (Int.le_of_lt hk)
              omega
            have hlo : ¬ lo ≤ k * x.1 + m := by omega
            simp [inIv, hlo]
  rw [hpre, List.nil_append]

/-- order-preserving transform, uncompressed rank whose content lies within its active range -/
theorem project_fwd_U (emp : π → Bool) (mk : π) (hmk : emp mk = true) (cfg : Cfg) (hf : cfg.fmt = .U)
    {k : Int} (hk : 0 < k) (m : Int) (iv : Option (Int × Int)) (sp : Option Nat) (os oe : Option Int)
    {f : Fib Int π} (hs : Sorted f) (hok : projStartOk k m iv sp f = true)
    (hin : withinActive emp cfg f = true) :
    project emp mk cfg k m iv sp os oe f = .ok (projectSpec emp k m iv os oe f) := by
  rw [project_unfold_fwd emp mk cfg hk m iv sp os oe hok, iterDefault_U emp mk cfg hf hs sp]
  have hD : iterDefaultSpec emp mk cfg f = shapeSpec mk f (pyRange (getActive cfg f).1 (getActive cfg f).2 1) := by
    unfold iterDefaultSpec; rw [hf]
  have hDs : Sorted (shapeSpec mk f (pyRange (getActive cfg f).1 (getActive cfg f).2 1)) :=
    shapeSpec_sorted mk f (pyRange_ascending _ _ 1)
  rw [hD, pipeline_eq_nf emp k m iv os oe (transF_sorted_pos hk m hDs), ← nf_filter_nonempty,
    shape_nonempty_eq_range emp mk hmk hs, projectSpec_eq_nf, if_neg (by omega)]
  have hfe : (withPos f).filter (fun x => !emp x.2.2 && decide ((getActive cfg f).1 ≤ x.1) &&
      decide (x.1 < (getActive cfg f).2)) = (withPos f).filter (fun x => !emp x.2.2) := by
    apply filter_congr'
    intro x hx
    unfold withinActive at hin
    rw [List.all_eq_true] at hin
    have := hin _ (mem_withPos_strip hx)
    simp only [Bool.or_eq_true, Bool.and_eq_true, decide_eq_true_eq] at this
    rcases this with h | h
    · simp [h]
    · simp [h.1, h.2]
  unfold occ
  rw [hfe]

/-- a valid shortcut passes the assertions of `project` -/
theorem projStartOk_of_valid {emp : π → Bool} {k m : Int} {iv : Option (Int × Int)} {sp : Nat} {f : Fib Int π}
    (hv : projValidStart emp k m iv sp f = true) : projStartOk k m iv (some sp) f = true := by
  unfold projValidStart at hv
  unfold projStartOk
  rw [Bool.and_eq_true] at hv ⊢
  refine ⟨hv.1, ?_⟩
  cases iv with
  | none => rfl
  | some p => exact hv.2

end projcases
end Ft.C07

namespace Ft.C07
open Ft StrictTotal

/-! ### `prune` -/
section prune
variable {π : Type}

theorem iterDefaultSpec_sorted (emp : π → Bool) (mk : π) (cfg : Cfg) {f : Fib Int π} (hs : Sorted f) :
    Sorted (iterDefaultSpec emp mk cfg f) := by
  unfold iterDefaultSpec
  cases cfg.fmt with
  | C => exact occ_sorted emp hs
  | U => exact shapeSpec_sorted mk f (pyRange_ascending _ _ 1)

theorem prune_eq_spec (emp : π → Bool) (mk : π) (cfg : Cfg) (pred : Nat → Int → π → Bool) (sp : Option Nat)
    (os oe : Option Int) {f : Fib Int π} (hs : Sorted f) (hl : startLegal sp f = true)
    (hD : iterDefault emp mk cfg sp f = iterDefaultSpec emp mk cfg f) :
    prune emp mk cfg pred sp os oe f = .ok (pruneSpec emp mk cfg pred os oe f) := by
  unfold prune pruneRaw
  rw [hl, hD]
  simp only [Bool.not_true, Bool.false_eq_true, if_false]
  show Except.ok (lazyIter _ os oe _) = _
  congr 1
  have hsub : (((iterDefaultSpec emp mk cfg f).zipIdx.filter (fun x => pred x.2 x.1.1 x.1.2.2)).map (·.1)).Sublist
      (iterDefaultSpec emp mk cfg f) := by
    have h1 : ((iterDefaultSpec emp mk cfg f).zipIdx.filter (fun x => pred x.2 x.1.1 x.1.2.2)).Sublist
        (iterDefaultSpec emp mk cfg f).zipIdx := List.filter_sublist
    have h2 := h1.map (·.1)
    rwa [List.zipIdx_map_fst] at h2
  have hsorted : Sorted (((iterDefaultSpec emp mk cfg f).zipIdx.filter (fun x => pred x.2 x.1.1 x.1.2.2)).map (·.1)) :=
    List.Pairwise.sublist hsub (iterDefaultSpec_sorted emp mk cfg hs)
  rw [lazyIter_eq _ os oe hsorted, List.filter_map, List.filter_filter]
  unfold pruneSpec
  congr 1
  apply filter_congr'
  intro x _
  simp only [Function.comp, inSlice]
  cases emp x.1.2.2 <;> cases pred x.2 x.1.1 x.1.2.2 <;> simp

end prune

/-! ### `fromLazy` -/
section mat
variable {ν : Type} [DecidableEq ν]

theorem popSpec_nil_left {π β : Type} (mk : π) (rm : Bool → π → Bool) (body : Int → π → β → π) :
    ∀ (b : Fib Int β), popSpec mk rm body ([] : Fib Int π) b =
      b.flatMap (fun e => popKeep rm true e.1 (body e.1 mk e.2))
  | [] => by rw [popSpec]; rfl
  | (bc, bp) :: rb => by
    rw [popSpec, popSpec_nil_left mk rm body rb]
    rfl

theorem rmOf_nonEmpty (dflt : ν) : ∀ (d : Nat) (t : Tree Int ν d), isEmpty dflt d t = false →
    rmOf dflt d true (nonEmpty dflt d t) = false
  | 0, v, h => by
    show decide ((show ν from v) = dflt) = false
    exact h
  | d + 1, f, h => by
    show (true && (List.isEmpty (show List (Int × Tree Int ν d) from nonEmpty dflt (d + 1) f))) = false
    simp only [Bool.true_and]
    cases hE : List.isEmpty (show List (Int × Tree Int ν d) from nonEmpty dflt (d + 1) f) with
    | false => rfl
    | true =>
      exfalso
      have hm : ((show List (Int × Tree Int ν d) from f).filter (fun e => !isEmpty dflt d e.2)).map
          (fun e => (e.1, nonEmpty dflt d e.2)) = [] := List.isEmpty_iff.1 hE
      have hf : (show List (Int × Tree Int ν d) from f).filter (fun e => !isEmpty dflt d e.2) = [] :=
        List.map_eq_nil_iff.1 hm
      have : isEmpty dflt (d + 1) f = true := by
        show (show List (Int × Tree Int ν d) from f).all (fun e => isEmpty dflt d e.2) = true
        rw [List.all_eq_true]
        intro x hx
        have := (List.filter_eq_nil_iff.1 hf) x hx
        simpa using this
      rw [this] at h; cases h

theorem flatMap_popKeep {π : Type} (rm : Bool → π → Bool) (g : Int × π → π) :
    ∀ (l : Fib Int π), (∀ e ∈ l, rm true (g e) = false) →
      l.flatMap (fun e => popKeep rm true e.1 (g e)) = l.map (fun e => (e.1, g e))
  | [], _ => rfl
  | e :: r, h => by
    rw [List.flatMap_cons, List.map_cons, flatMap_popKeep rm g r (fun x hx => h x (List.mem_cons_of_mem _ hx))]
    unfold popKeep
    rw [h e (List.mem_cons_self ..)]
    rfl

/-- materialisation copies the presented elements: `fromLazy` of a lazy fiber that yields `ys`
    is `nonEmpty` of the eager fiber `ys` -/
theorem fromLazy_eq_nonEmpty (dflt : ν) (d : Nat) (ys : Fib Int (Tree Int ν d)) (hs : Sorted ys) :
    fromLazy dflt d ys = nonEmpty dflt (d + 1) (show Tree Int ν (d + 1) from ys) := by
  unfold fromLazy populate
  have hb : Sorted (ys.filter (fun x => !isEmpty dflt d x.2)) := List.Pairwise.sublist List.filter_sublist hs
  have := popLoop_inv (defaultTree dflt d) (rmOf dflt d) (fun _ _ (bp : Tree Int ν d) => nonEmpty dflt d bp)
    (ys.filter (fun x => !isEmpty dflt d x.2)) [] [] (by simpa using sorted_nil) hb (fun x hx => by cases hx)
  have h2 : (popLoop (defaultTree dflt d) (rmOf dflt d) (fun _ _ (bp : Tree Int ν d) => nonEmpty dflt d bp)
      ([] : Fib Int (Tree Int ν d)) 0 (ys.filter (fun x => !isEmpty dflt d x.2))).1 =
      popSpec (defaultTree dflt d) (rmOf dflt d) (fun _ _ (bp : Tree Int ν d) => nonEmpty dflt d bp) []
        (ys.filter (fun x => !isEmpty dflt d x.2)) := by
    simpa using congrArg Prod.fst this
  show (popLoop _ _ _ ([] : Fib Int (Tree Int ν d)) 0 _).1 = _
  rw [h2, popSpec_nil_left]
  show _ = ((show List (Int × Tree Int ν d) from ys).filter (fun e => !isEmpty dflt d e.2)).map
    (fun e => (e.1, nonEmpty dflt d e.2))
  apply flatMap_popKeep (rmOf dflt d) (fun e => nonEmpty dflt d e.2)
  intro e he
  apply rmOf_nonEmpty
  have := (List.mem_filter.1 he).2
  simpa using this

end mat
end Ft.C07

namespace Ft.C07
open Ft StrictTotal

section specfacts
variable {π : Type}

theorem mem_withPos_iff {f : Fib Int π} {c : Int} {i : Nat} {p : π} :
    (c, (i, p)) ∈ withPos f ↔ f[i]? = some (c, p) := by
  constructor
  · exact mem_withPos
  · intro h
    unfold withPos
    apply List.mem_map.2
    exact ⟨((c, p), i), List.mem_zipIdx_iff_getElem?.2 h, rfl⟩

/-- what the projection consists of: exactly the stored non-empty elements whose transformed
    coordinate lies in the interval (and in the range the result is iterated with), each as the
    fiber's own payload under the transformed coordinate -/
theorem mem_projectSpec (emp : π → Bool) (k m : Int) (iv : Option (Int × Int)) (os oe : Option Int) (f : Fib Int π)
    (r : Int × (Option Nat × π)) :
    r ∈ projectSpec emp k m iv os oe f ↔
      ∃ c i p, f[i]? = some (c, p) ∧ emp p = false ∧ inIv iv (k * c + m) = true ∧
        geStart os (k * c + m) = true ∧ geEnd oe (k * c + m) = false ∧ r = (k * c + m, (some i, p)) := by
  have key : r ∈ (transF k m (stored ((withPos f).filter (fun x => !emp x.2.2)))).filter
      (fun x => inIv iv x.1 && geStart os x.1 && !geEnd oe x.1) ↔
      ∃ c i p, f[i]? = some (c, p) ∧ emp p = false ∧ inIv iv (k * c + m) = true ∧
        geStart os (k * c + m) = true ∧ geEnd oe (k * c + m) = false ∧ r = (k * c + m, (some i, p)) := by
    constructor
    · intro h
      obtain ⟨h1, h2⟩ := List.mem_filter.1 h
      obtain ⟨a, ha, rfl⟩ := List.mem_map.1 h1
      obtain ⟨x, hx, rfl⟩ := List.mem_map.1 ha
      obtain ⟨hx1, hx2⟩ := List.mem_filter.1 hx
      obtain ⟨c, i, p⟩ := x
      simp only [Bool.and_eq_true, Bool.not_eq_true'] at h2
      refine ⟨c, i, p, mem_withPos_iff.1 hx1, by simpa using hx2, h2.1.1, h2.1.2, h2.2, rfl⟩
    · rintro ⟨c, i, p, hi, he, h1, h2, h3, rfl⟩
      apply List.mem_filter.2
      refine ⟨?_, by simp [h1, h2, h3]⟩
      apply List.mem_map.2
      refine ⟨(c, (some i, p)), ?_, rfl⟩
      apply List.mem_map.2
      refine ⟨(c, (i, p)), ?_, rfl⟩
      apply List.mem_filter.2
      exact ⟨mem_withPos_iff.2 hi, by simp [he]⟩
  unfold projectSpec
  simp only
  split
  · rw [List.mem_reverse]; exact key
  · exact key

theorem projectSpec_sorted (emp : π → Bool) {k : Int} (hk : k ≠ 0) (m : Int) (iv : Option (Int × Int))
    (os oe : Option Int) {f : Fib Int π} (hs : Sorted f) : Sorted (projectSpec emp k m iv os oe f) := by
  rw [projectSpec_eq_nf]
  by_cases h : k < 0
  · rw [if_pos h, ← nf_reverse]
    exact sorted_filter (transF_sorted_neg h m (occ_sorted emp hs)) _
  · rw [if_neg h]
    have hk' : 0 < k := by omega
    exact sorted_filter (transF_sorted_pos hk' m (occ_sorted emp hs)) _

end specfacts
end Ft.C07

namespace Ft.C07
open Ft StrictTotal

/-! ### descending ranges, rank extents, projections of lazy fibers -/

theorem pyRangeDown_cons {s e : Int} {k : Nat} (h : e < s ∧ 0 < k) :
    pyRangeDown s e k = s :: pyRangeDown (s - k) e k := by
  rw [pyRangeDown]; simp [h]

/-- `range(s, e, -k)`: the coordinates `s, s-k, s-2k, …` above `e` -/
theorem mem_pyRangeDown (s e : Int) (k : Nat) (c : Int) :
    c ∈ pyRangeDown s e k ↔ 0 < k ∧ e < c ∧ ∃ n : Nat, c = s - n * k := by
  fun_induction pyRangeDown s e k with
  | case1 s h ih =>
    rw [List.mem_cons, ih]
    constructor
    · rintro (rfl | ⟨hk, hlt, n, rfl⟩)
      · exact ⟨h.2, h.1, 0, by simp⟩
      · refine ⟨hk, hlt, n + 1, ?_⟩
        rw [Int.natCast_succ, Int.add_mul]; omega
    · rintro ⟨hk, hlt, n, rfl⟩
      cases n with
      | zero => left; simp
      | succ n =>
        right
        refine ⟨hk, hlt, n, ?_⟩
        rw [Int.natCast_succ, Int.add_mul]; omega
  | case2 s h =>
    simp only [List.not_mem_nil, false_iff]
    rintro ⟨hk, hlt, n, rfl⟩
    apply h
    refine ⟨?_, hk⟩
    have : (0 : Int) ≤ (n : Int) * (k : Int) := Int.mul_nonneg (Int.natCast_nonneg n) (Int.natCast_nonneg k)
    omega

theorem pyRangeDown_descending (s e : Int) (k : Nat) : (pyRangeDown s e k).Pairwise (· > ·) := by
  fun_induction pyRangeDown s e k with
  | case1 s h ih =>
    rw [List.pairwise_cons]
    refine ⟨?_, ih⟩
    intro c hc
    obtain ⟨_, _, n, rfl⟩ := (mem_pyRangeDown _ _ _ c).1 hc
    have : (0 : Int) ≤ (n : Int) * (k : Int) := Int.mul_nonneg (Int.natCast_nonneg n) (Int.natCast_nonneg _)
    have hk : (0 : Int) < (k : Int) := by exact_mod_cast h.2
    show s > s - ↑k - ↑n * ↑k
    omega
  | case2 s h => exact List.Pairwise.nil

section lazychain
variable {ρ : Type}

/-- projecting a lazy fiber that presents the ascending list `src` with an increasing transform:
    the non-empty elements under the transformed coordinates inside the interval -/
theorem projectOfLazy_eq (emp : ρ → Bool) {k : Int} (hk : 0 < k) (m : Int) (iv : Option (Int × Int))
    {src : Fib Int ρ} (hs : Sorted src) :
    projectOfLazy emp k m iv none src =
      .ok ((transF k m (src.filter (fun x => !emp x.2))).filter (fun x => inIv iv x.1)) := by
  unfold projectOfLazy
  have h2 : decide (k * 0 + m > k * 1 + m) = false := by
    simp only [decide_eq_false_iff_not]; omega
  simp only [h2, Option.isSome_none, Bool.or_self, Bool.false_eq_true, if_false]
  rw [rangeLoop_none, ivLoop_eq iv (transF_sorted_pos hk m (sorted_filter hs _))]

theorem pruneOfLazy_eq (emp : ρ → Bool) (pred : Nat → Int → ρ → Bool) (src : Fib Int ρ) :
    pruneOfLazy emp pred none src =
      .ok ((((src.filter (fun x => !emp x.2)).zipIdx).filter (fun x => pred x.2 x.1.1 x.1.2)).map (·.1)) := by
  unfold pruneOfLazy
  simp only [Option.isSome_none, Bool.false_eq_true, if_false]
  rw [rangeLoop_none]

end lazychain

section extent
variable {π : Type}

/-- the fold of `rankExtent` from an accumulator -/
def extFold (acc : Option Int) (sibs : List (Fib Int π)) : Option Int :=
  sibs.foldl (fun acc g =>
    let n := estShape g
    if n = 0 then acc else match acc with
      | none => some n
      | some o => some (if o < n then n else o)) acc

theorem extFold_spec : ∀ (sibs : List (Fib Int π)) (acc : Option Int),
    (match extFold acc sibs with
     | none => acc = none ∧ ∀ g ∈ sibs, estShape g = 0
     | some n => (∀ o, acc = some o → o ≤ n) ∧ (∀ g ∈ sibs, estShape g = 0 ∨ estShape g ≤ n) ∧
        (acc = some n ∨ ∃ g ∈ sibs, estShape g = n ∧ n ≠ 0))
  | [], acc => by
    unfold extFold
    cases acc with
    | none => simp
    | some o => simp
  | g :: r, acc => by
    have step : extFold acc (g :: r) = extFold
        (if estShape g = 0 then acc else match acc with
          | none => some (estShape g)
          | some o => some (if o < estShape g then estShape g else o)) r := by
      unfold extFold; rw [List.foldl_cons]
    rw [step]
    by_cases h0 : estShape g = 0
    · rw [if_pos h0]
      have ih := extFold_spec r acc
      cases hres : extFold acc r with
      | none =>
        rw [hres] at ih
        refine ⟨ih.1, ?_⟩
        intro x hx
        rcases List.mem_cons.1 hx with rfl | hx
        · exact h0
        · exact ih.2 x hx
      | some n =>
        rw [hres] at ih
        refine ⟨ih.1, ?_, ?_⟩
        · intro x hx
          rcases List.mem_cons.1 hx with rfl | hx
          · exact Or.inl h0
          · exact ih.2.1 x hx
        · rcases ih.2.2 with h | ⟨x, hx, hx2⟩
          · exact Or.inl h
          · exact Or.inr ⟨x, List.mem_cons_of_mem _ hx, hx2⟩
    · rw [if_neg h0]
      cases acc with
      | none =>
        have ih := extFold_spec r (some (estShape g))
        cases hres : extFold (some (estShape g)) r with
        | none => rw [hres] at ih; simp at ih
        | some n =>
          rw [hres] at ih
          simp only at ih ⊢
          refine ⟨(by intro o h; cases h), ?_, ?_⟩
          · intro x hx
            rcases List.mem_cons.1 hx with rfl | hx
            · exact Or.inr (ih.1 _ rfl)
            · exact ih.2.1 x hx
          · right
            rcases ih.2.2 with h | ⟨x, hx, hx2⟩
            · simp only [Option.some.injEq] at h
              exact ⟨g, List.mem_cons_self .., h, by rw [← h]; exact h0⟩
            · exact ⟨x, List.mem_cons_of_mem _ hx, hx2⟩
      | some o =>
        have ih := extFold_spec r (some (if o < estShape g then estShape g else o))
        cases hres : extFold (some (if o < estShape g then estShape g else o)) r with
        | none => rw [hres] at ih; simp at ih
        | some n =>
          rw [hres] at ih
          simp only at ih ⊢
          have hmax := ih.1 _ rfl
          refine ⟨?_, ?_, ?_⟩
          · intro o' ho'
            simp only [Option.some.injEq] at ho'
            subst ho'
            split at hmax <;> omega
          · intro x hx
            rcases List.mem_cons.1 hx with rfl | hx
            · right; split at hmax <;> omega
            · exact ih.2.1 x hx
          · rcases ih.2.2 with h | ⟨x, hx, hx2⟩
            · simp only [Option.some.injEq] at h
              by_cases hlt : o < estShape g
              · rw [if_pos hlt] at h
                exact Or.inr ⟨g, List.mem_cons_self .., h, by rw [← h]; exact h0⟩
              · rw [if_neg hlt] at h
                exact Or.inl (by rw [h])
            · exact Or.inr ⟨x, List.mem_cons_of_mem _ hx, hx2⟩

end extent
end Ft.C07
