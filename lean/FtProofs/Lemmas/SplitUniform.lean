/-
  Helper lemmas for C08, uniform split: the lookup-or-append of `_SplitterUniform` is an
  "upsert" into an association list sorted by partition start, and the two nested loops
  build exactly the buckets `partition start ↦ elements in its halo-extended interval`.
-/
import FtModel.Split
import FtProofs.Lemmas.Sorted
import FtProofs.Lemmas.Merge
set_option linter.unusedSectionVars false
set_option linter.unusedSimpArgs false
set_option linter.unusedVariables false
namespace Ft
open StrictTotal

section upsert
variable {π : Type}

/-- lookup-or-append without the `search_start` shortcut -/
def upsert : Buckets π → Int → (Int × π) → Buckets π
  | [], P, x => [(P, [x])]
  | (Q, b) :: r, P, x => if Q = P then (Q, b ++ [x]) :: r else (Q, b) :: upsert r P x

theorem upsert_of_any (st : Buckets π) (P : Int) (x : Int × π)
    (h : st.any (fun b => b.1 == P) = true) :
    st.modify (st.findIdx (fun b => b.1 == P)) (fun b => (b.1, b.2 ++ [x])) = upsert st P x := by
  induction st with
  | nil => simp at h
  | cons a r ih =>
    obtain ⟨Q, b⟩ := a
    by_cases hq : Q = P
    · subst hq
      simp [upsert, List.findIdx_cons]
    · have hr : r.any (fun b => b.1 == P) = true := by
        simpa [List.any_cons, hq] using h
      have hq' : ((Q == P) = false) := by simpa using hq
      simp only [upsert, hq, if_false, List.findIdx_cons, hq', cond_false, List.modify_succ_cons]
      rw [ih hr]

theorem upsert_of_not_mem (st : Buckets π) (P : Int) (x : Int × π)
    (h : ∀ r ∈ st, r.1 ≠ P) : upsert st P x = st ++ [(P, [x])] := by
  induction st with
  | nil => rfl
  | cons a r ih =>
    obtain ⟨Q, b⟩ := a
    have hq : Q ≠ P := h (Q, b) (List.mem_cons_self ..)
    simp only [upsert, hq, if_false, List.cons_append]
    rw [ih (fun y hy => h y (List.mem_cons_of_mem _ hy))]

/-- with the `search_start` prefix free of `P`, the code's lookup-or-append is `upsert` -/
theorem uAdd_fst (st : Buckets π) (ss : Nat) (P : Int) (x : Int × π)
    (hss : ∀ r ∈ st.take ss, r.1 ≠ P) : (uAdd st ss P x).1 = upsert st P x := by
  unfold uAdd
  by_cases h : (st.drop ss).any (fun b => b.1 == P) = true
  · simp only [h, if_true]
    apply upsert_of_any
    rw [List.any_eq_true] at h ⊢
    obtain ⟨y, hy, hp⟩ := h
    exact ⟨y, List.mem_of_mem_drop hy, hp⟩
  · simp only [h]
    rw [upsert_of_not_mem]
    · rfl
    · intro r hr
      rw [← List.take_append_drop ss st] at hr
      rcases List.mem_append.1 hr with hr | hr
      · exact hss r hr
      · intro e
        apply h
        rw [List.any_eq_true]
        exact ⟨r, hr, by simp [e]⟩

theorem upsert_keys (st : Buckets π) (P : Int) (x : Int × π) :
    (upsert st P x).map (·.1) =
      if P ∈ st.map (·.1) then st.map (·.1) else st.map (·.1) ++ [P] := by
  induction st with
  | nil => simp [upsert]
  | cons a r ih =>
    obtain ⟨Q, b⟩ := a
    by_cases hq : Q = P
    · subst hq; simp [upsert]
    · have hq' : ¬ P = Q := fun e => hq e.symm
      simp only [upsert, hq, if_false, List.map_cons, ih, List.mem_cons, hq', false_or]
      split <;> simp

theorem upsert_keys_prefix (st : Buckets π) (P : Int) (x : Int × π) :
    st.map (·.1) <+: (upsert st P x).map (·.1) := by
  rw [upsert_keys]
  split
  · exact List.prefix_refl _
  · exact List.prefix_append _ _

theorem hasKey_iff_mem_keys (st : Buckets π) (Q : Int) : HasKey st Q ↔ Q ∈ st.map (·.1) := by
  simp [HasKey]

theorem hasKey_upsert (st : Buckets π) (P : Int) (x : Int × π) (Q : Int) :
    HasKey (upsert st P x) Q ↔ HasKey st Q ∨ Q = P := by
  rw [hasKey_iff_mem_keys, hasKey_iff_mem_keys, upsert_keys]
  split
  · constructor
    · exact Or.inl
    · rintro (h | rfl)
      · exact h
      · assumption
  · simp

/-- the index returned by the code is a position of `P` in the new list of partition starts -/
theorem uAdd_snd (st : Buckets π) (ss : Nat) (P : Int) (x : Int × π)
    (hss : ∀ r ∈ st.take ss, r.1 ≠ P) :
    ((uAdd st ss P x).1.map (·.1))[(uAdd st ss P x).2]? = some P := by
  have h1 := uAdd_fst st ss P x hss
  unfold uAdd at h1 ⊢
  by_cases h : (st.drop ss).any (fun b => b.1 == P) = true
  · simp only [h, if_true] at h1 ⊢
    have hany : ∃ y, y ∈ st ∧ (fun b : Int × Fib Int π => b.1 == P) y = true := by
      rw [List.any_eq_true] at h
      obtain ⟨y, hy, hp⟩ := h
      exact ⟨y, List.mem_of_mem_drop hy, hp⟩
    have hlt : st.findIdx (fun b => b.1 == P) < st.length := List.findIdx_lt_length.2 hany
    have hk : (st.modify (st.findIdx (fun b => b.1 == P)) (fun b => (b.1, b.2 ++ [x]))).map (·.1)
        = st.map (·.1) := by
      apply List.ext_getElem?
      intro j
      simp only [List.getElem?_map, List.getElem?_modify]
      cases st[j]? with
      | none => rfl
      | some a => simp only [Option.map_some, Functor.map]; split <;> rfl
    rw [hk, List.getElem?_map, List.getElem?_eq_getElem hlt]
    have := List.findIdx_getElem (p := fun b : Int × Fib Int π => b.1 == P) (xs := st) (w := hlt)
    simp only [Option.map_some]
    congr 1
    simpa using this
  · simp only [h]
    simp

theorem upsert_sorted (st : Buckets π) (P : Int) (x : Int × π) (hs : Sorted st)
    (hmax : ¬ HasKey st P → ∀ r ∈ st, r.1 < P) : Sorted (upsert st P x) := by
  induction st with
  | nil => simp [upsert, Sorted]
  | cons a r ih =>
    obtain ⟨Q, b⟩ := a
    by_cases hq : Q = P
    · subst hq
      simp only [upsert, if_true]
      exact sorted_cons.2 ⟨fun y hy => hs.head_lt y hy, hs.tail⟩
    · simp only [upsert, hq, if_false]
      refine sorted_cons.2 ⟨?_, ih hs.tail ?_⟩
      · intro y hy
        have hk : HasKey (upsert r P x) y.1 := ⟨y, hy, rfl⟩
        rcases (hasKey_upsert r P x y.1).1 hk with h | h
        · exact hs.lt_of_hasKey h
        · show Q < y.1
          rw [h]
          by_cases hp : HasKey r P
          · exact hs.lt_of_hasKey hp
          · have : ¬ HasKey ((Q, b) :: r) P := by
              intro hh
              rcases hasKey_cons.1 hh with h' | h'
              · exact hq h'
              · exact hp h'
            exact hmax this (Q, b) (List.mem_cons_self ..)
      · intro hp y hy
        have : ¬ HasKey ((Q, b) :: r) P := by
          intro hh
          rcases hasKey_cons.1 hh with h' | h'
          · exact hq h'
          · exact hp h'
        exact hmax this y (List.mem_cons_of_mem _ hy)

/-- the rows of `upsert st P x` -/
theorem mem_upsert (st : Buckets π) (P : Int) (x : Int × π) (hs : Sorted st) (y : Int × Fib Int π)
    (hy : y ∈ upsert st P x) :
    (y ∈ st ∧ y.1 ≠ P) ∨ (y.1 = P ∧ ((∃ b, (P, b) ∈ st ∧ y.2 = b ++ [x]) ∨ (¬ HasKey st P ∧ y.2 = [x]))) := by
  induction st with
  | nil =>
    simp only [upsert, List.mem_singleton] at hy
    subst hy
    exact Or.inr ⟨rfl, Or.inr ⟨not_hasKey_nil _, rfl⟩⟩
  | cons a r ih =>
    obtain ⟨Q, b⟩ := a
    by_cases hq : Q = P
    · subst hq
      simp only [upsert, if_true] at hy
      rcases List.mem_cons.1 hy with rfl | hy
      · exact Or.inr ⟨rfl, Or.inl ⟨b, List.mem_cons_self .., rfl⟩⟩
      · refine Or.inl ⟨List.mem_cons_of_mem _ hy, ?_⟩
        have := hs.head_lt y hy
        intro e
        rw [e] at this
        exact absurd this (Int.lt_irrefl _)
    · simp only [upsert, hq, if_false] at hy
      rcases List.mem_cons.1 hy with rfl | hy
      · exact Or.inl ⟨List.mem_cons_self .., hq⟩
      · rcases ih hs.tail hy with ⟨h1, h2⟩ | ⟨h1, h2⟩
        · exact Or.inl ⟨List.mem_cons_of_mem _ h1, h2⟩
        · refine Or.inr ⟨h1, ?_⟩
          rcases h2 with ⟨b', hb', e⟩ | ⟨hn, e⟩
          · exact Or.inl ⟨b', List.mem_cons_of_mem _ hb', e⟩
          · refine Or.inr ⟨?_, e⟩
            intro hh
            rcases hasKey_cons.1 hh with h' | h'
            · exact hq h'
            · exact hn h'

/-- `st` represents the finite-support function `F` from partition starts to buckets -/
structure Repr (st : Buckets π) (F : Int → Fib Int π) : Prop where
  sorted : Sorted st
  rows : ∀ r ∈ st, r.2 = F r.1
  nonempty : ∀ r ∈ st, F r.1 ≠ []
  cover : ∀ Q, F Q ≠ [] → HasKey st Q

theorem Repr.congr {st : Buckets π} {F G : Int → Fib Int π} (h : Repr st F) (e : ∀ Q, F Q = G Q) :
    Repr st G :=
  ⟨h.sorted, fun r hr => (h.rows r hr).trans (e _), fun r hr => by rw [← e]; exact h.nonempty r hr,
   fun Q hQ => h.cover Q (by rw [e]; exact hQ)⟩

theorem Repr.step {st : Buckets π} {F : Int → Fib Int π} (h : Repr st F) (P : Int) (x : Int × π)
    (hmax : ¬ HasKey st P → ∀ r ∈ st, r.1 < P) :
    Repr (upsert st P x) (fun Q => if Q = P then F P ++ [x] else F Q) := by
  have hrow : ∀ y ∈ upsert st P x, y.2 = (if y.1 = P then F P ++ [x] else F y.1) := by
    intro y hy
    rcases mem_upsert st P x h.sorted y hy with ⟨h1, h2⟩ | ⟨h1, h2⟩
    · rw [if_neg h2]; exact h.rows y h1
    · rw [if_pos h1]
      rcases h2 with ⟨b, hb, e⟩ | ⟨hn, e⟩
      · rw [e]; congr 1; exact h.rows (P, b) hb
      · rw [e]
        have : F P = [] := by
          by_cases hf : F P = []
          · exact hf
          · exact absurd (h.cover P hf) hn
        rw [this]; rfl
  refine ⟨upsert_sorted st P x h.sorted hmax, hrow, ?_, ?_⟩
  · intro y hy
    show (if y.1 = P then F P ++ [x] else F y.1) ≠ []
    rcases mem_upsert st P x h.sorted y hy with ⟨h1, h2⟩ | ⟨h1, _⟩
    · rw [if_neg h2]; exact h.nonempty y h1
    · rw [if_pos h1]; simp
  · intro Q hQ
    rw [hasKey_upsert]
    by_cases hq : Q = P
    · exact Or.inr hq
    · left
      apply h.cover
      simpa [hq] using hQ

/-- two representations of the same function are equal -/
theorem Repr.unique {st₁ st₂ : Buckets π} {F : Int → Fib Int π} (h₁ : Repr st₁ F) (h₂ : Repr st₂ F) :
    st₁ = st₂ := by
  apply sorted_ext_of_fn (F := F) st₁ st₂ h₁.sorted h₂.sorted h₁.rows h₂.rows
  intro c
  constructor
  · rintro ⟨r, hr, rfl⟩; exact h₂.cover _ (h₁.nonempty r hr)
  · rintro ⟨r, hr, rfl⟩; exact h₁.cover _ (h₂.nonempty r hr)

/-- the buckets described by a sequence of (partition start, element) events -/
def Fev (ev : List (Int × (Int × π))) (Q : Int) : Fib Int π :=
  (ev.filter (fun e => decide (e.1 = Q))).map (·.2)

theorem Fev_append (a b : List (Int × (Int × π))) (Q : Int) : Fev (a ++ b) Q = Fev a Q ++ Fev b Q := by
  simp [Fev, List.filter_append]

theorem Fev_snoc (ev : List (Int × (Int × π))) (P : Int) (x : Int × π) (Q : Int) :
    Fev (ev ++ [(P, x)]) Q = if Q = P then Fev ev P ++ [x] else Fev ev Q := by
  rw [Fev_append]
  by_cases h : Q = P
  · subst h; simp [Fev]
  · have : ¬ P = Q := fun e => h e.symm
    simp [Fev, h, this]

theorem Fev_ne_nil_iff (ev : List (Int × (Int × π))) (Q : Int) :
    Fev ev Q ≠ [] ↔ ∃ e ∈ ev, e.1 = Q := by
  simp [Fev, List.filter_eq_nil_iff]

end upsert
section parts
variable (step pre post as ae : Int)

/-- the partition `[P, P+step)` meets the active range -/
def actB (P : Int) : Bool := decide (as < P + step) && decide (P < ae)

/-- the partitions the inner `while` loop actually adds the coordinate `c` to -/
def activeParts (c : Int) : List Int := (uPartList step pre post c).filter (actB step as ae)

theorem mem_multiples (k0 k1 P : Int) :
    P ∈ (List.range (k1 + 1 - k0).toNat).map (fun (j : Nat) => (k0 + (j : Int)) * step) ↔
      ∃ k, k0 ≤ k ∧ k ≤ k1 ∧ P = k * step := by
  simp only [List.mem_map, List.mem_range]
  constructor
  · rintro ⟨j, hj, rfl⟩
    exact ⟨k0 + j, by omega, by omega, rfl⟩
  · rintro ⟨k, h0, h1, rfl⟩
    refine ⟨(k - k0).toNat, by omega, ?_⟩
    have : ((k - k0).toNat : Int) = k - k0 := Int.toNat_of_nonneg (by omega)
    rw [this]
    congr 1
    omega

theorem multiples_pairwise (hs : 0 < step) (k0 : Int) (n : Nat) :
    ((List.range n).map (fun (j : Nat) => (k0 + (j : Int)) * step)).Pairwise (· < ·) := by
  rw [List.pairwise_map]
  apply List.Pairwise.imp _ List.pairwise_lt_range
  intro a b hab
  apply Int.mul_lt_mul_of_pos_right _ hs
  omega

theorem succ_mul' (k : Int) : (k + 1) * step = k * step + step := by
  rw [Int.add_mul, Int.one_mul]

theorem mem_uPartList (hs : 0 < step) (c P : Int) :
    P ∈ uPartList step pre post c ↔ step ∣ P ∧ P - pre ≤ c ∧ c < P + step + post := by
  unfold uPartList
  simp only
  rw [mem_multiples]
  constructor
  · rintro ⟨k, h0, h1, rfl⟩
    refine ⟨Int.dvd_mul_left k step, ?_, ?_⟩
    · have := (Int.le_ediv_iff_mul_le hs).1 h1
      omega
    · have h : (c - post) / step < k + 1 := by omega
      have := (Int.ediv_lt_iff_lt_mul hs).1 h
      rw [succ_mul'] at this
      omega
  · rintro ⟨⟨k, rfl⟩, h1, h2⟩
    refine ⟨k, ?_, ?_, Int.mul_comm _ _⟩
    · have h : c - post < (k + 1) * step := by
        rw [succ_mul', Int.mul_comm k step]; omega
      have := (Int.ediv_lt_iff_lt_mul hs).2 h
      omega
    · apply (Int.le_ediv_iff_mul_le hs).2
      rw [Int.mul_comm k step]; omega

theorem mem_activeParts (hs : 0 < step) (c P : Int) :
    P ∈ activeParts step pre post as ae c ↔
      step ∣ P ∧ P - pre ≤ c ∧ c < P + step + post ∧ as < P + step ∧ P < ae := by
  unfold activeParts actB
  rw [List.mem_filter, mem_uPartList step pre post hs]
  simp only [Bool.and_eq_true, decide_eq_true_eq]
  constructor
  · rintro ⟨⟨a, b, c⟩, d, e⟩; exact ⟨a, b, c, d, e⟩
  · rintro ⟨a, b, c, d, e⟩; exact ⟨⟨a, b, c⟩, d, e⟩

theorem activeParts_pairwise (hs : 0 < step) (c : Int) :
    (activeParts step pre post as ae c).Pairwise (· < ·) := by
  unfold activeParts uPartList
  exact List.Pairwise.filter _ (multiples_pairwise step hs _ _)

theorem uPartList_pairwise (hs : 0 < step) (c : Int) :
    (uPartList step pre post c).Pairwise (· < ·) := by
  unfold uPartList
  exact multiples_pairwise step hs _ _

/-- inside the halo-extended active window every coordinate falls into some partition that meets
    the active range (so `min(inds)` never sees an empty list) -/
theorem activeParts_ne_nil (hs : 0 < step) (hact : as < ae) (hpre : 0 ≤ pre) (hpost : 0 ≤ post)
    (c : Int) (h1 : as - pre ≤ c) (h2 : c < ae + post) :
    activeParts step pre post as ae c ≠ [] := by
  have key : ∀ z : Int, c - post ≤ z → as ≤ z → z ≤ c + pre → z ≤ ae - 1 →
      (z / step) * step ∈ activeParts step pre post as ae c := by
    intro z hz1 hz2 hz3 hz4
    rw [mem_activeParts step pre post as ae hs]
    have a := Int.ediv_mul_le z (Int.ne_of_gt hs)
    have b := Int.lt_ediv_add_one_mul_self z hs
    rw [succ_mul'] at b
    exact ⟨Int.dvd_mul_left _ _, by omega, by omega, by omega, by omega⟩
  intro hnil
  by_cases hz : c - post ≤ as
  · have := key as hz (Int.le_refl _) (by omega) (by omega)
    rw [hnil] at this; cases this
  · have := key (c - post) (Int.le_refl _) (by omega) (by omega) (by omega)
    rw [hnil] at this; cases this

theorem mem_uCands (hs : 0 < step) (P : Int) :
    P ∈ uCands step as ae ↔ step ∣ P ∧ as < P + step ∧ P < ae := by
  unfold uCands
  simp only
  rw [mem_multiples]
  constructor
  · rintro ⟨k, h0, h1, rfl⟩
    refine ⟨Int.dvd_mul_left k step, ?_, ?_⟩
    · have h : as / step < k + 1 := by omega
      have := (Int.ediv_lt_iff_lt_mul hs).1 h
      rw [succ_mul'] at this
      omega
    · have := (Int.le_ediv_iff_mul_le hs).1 h1
      omega
  · rintro ⟨⟨k, rfl⟩, h1, h2⟩
    refine ⟨k, ?_, ?_, Int.mul_comm _ _⟩
    · have h : as < (k + 1) * step := by
        rw [succ_mul', Int.mul_comm k step]; omega
      have := (Int.ediv_lt_iff_lt_mul hs).2 h
      omega
    · apply (Int.le_ediv_iff_mul_le hs).2
      rw [Int.mul_comm k step]; omega

theorem uCands_pairwise (hs : 0 < step) : (uCands step as ae).Pairwise (· < ·) := by
  unfold uCands
  exact multiples_pairwise step hs _ _

end parts

section minof

theorem foldl_min_le (r : List Nat) (a : Nat) :
    r.foldl min a ≤ a ∧ ∀ i ∈ r, r.foldl min a ≤ i := by
  induction r generalizing a with
  | nil => simp
  | cons b r ih =>
    simp only [List.foldl_cons, List.mem_cons]
    obtain ⟨h1, h2⟩ := ih (min a b)
    refine ⟨Nat.le_trans h1 (Nat.min_le_left _ _), ?_⟩
    rintro i (rfl | hi)
    · exact Nat.le_trans h1 (Nat.min_le_right _ _)
    · exact h2 i hi

theorem minOf_le {l : List Nat} {m : Nat} (h : minOf l = some m) : ∀ i ∈ l, m ≤ i := by
  cases l with
  | nil => simp [minOf] at h
  | cons a r =>
    simp only [minOf, Option.some.injEq] at h
    subst h
    intro i hi
    rcases List.mem_cons.1 hi with rfl | hi
    · exact (foldl_min_le r _).1
    · exact (foldl_min_le r a).2 i hi

theorem minOf_isSome {l : List Nat} (h : l ≠ []) : ∃ m, minOf l = some m := by
  cases l with
  | nil => exact absurd rfl h
  | cons a r => exact ⟨_, rfl⟩

end minof

section loops
variable {π : Type} (step pre post as ae : Int)

/-- one pass of the inner loop body, as a fold function -/
def uStep (x : Int × π) (ss : Nat) (acc : Buckets π × List Nat) (P : Int) : Buckets π × List Nat :=
  ((uAdd acc.1 ss P x).1, acc.2 ++ [(uAdd acc.1 ss P x).2])

theorem uParts_eq_foldl (x : Int × π) (ss : Nat) :
    ∀ (L : List Int) (st : Buckets π) (inds : List Nat), L.Pairwise (· < ·) →
      uParts step as ae x ss L st inds = (L.filter (actB step as ae)).foldl (uStep x ss) (st, inds) := by
  intro L
  induction L with
  | nil => intro st inds _; rfl
  | cons P rest ih =>
    intro st inds hp
    have hp' := List.pairwise_cons.1 hp
    unfold uParts
    by_cases h1 : P + step ≤ as
    · have : actB step as ae P = false := by
        simp only [actB, Bool.and_eq_false_iff, decide_eq_false_iff_not]; left; omega
      simp only [h1, if_true, List.filter_cons, this]
      exact ih st inds hp'.2
    · by_cases h2 : ae ≤ P
      · simp only [h1, if_false, h2, if_true]
        have : (P :: rest).filter (actB step as ae) = [] := by
          rw [List.filter_eq_nil_iff]
          intro a ha
          have : P ≤ a := by
            rcases List.mem_cons.1 ha with rfl | ha
            · exact Int.le_refl _
            · exact Int.le_of_lt (hp'.1 a ha)
          simp only [actB, Bool.and_eq_true, decide_eq_true_eq]
          omega
        rw [this]; rfl
      · have : actB step as ae P = true := by
          simp only [actB, Bool.and_eq_true, decide_eq_true_eq]; omega
        simp only [h1, h2, if_false, List.filter_cons, this, if_true, List.foldl_cons]
        exact ih _ _ hp'.2

theorem prefix_take {α : Type} {l l' : List α} (h : l <+: l') {n : Nat} (hn : n ≤ l.length) :
    l'.take n = l.take n := by
  obtain ⟨t, rfl⟩ := h
  exact List.take_append_of_le_length hn

theorem prefix_getElem? {α : Type} {l l' : List α} (h : l <+: l') {i : Nat} {a : α}
    (hi : l[i]? = some a) : l'[i]? = some a := by
  obtain ⟨t, rfl⟩ := h
  have hlt : i < l.length := by
    rcases Nat.lt_or_ge i l.length with h | h
    · exact h
    · rw [List.getElem?_eq_none h] at hi; cases hi
  rw [List.getElem?_append_left hlt]; exact hi

/-- the inner loop: every partition of the ascending list `ps` receives `x` -/
theorem inner_fold (x : Int × π) (ss : Nat) :
    ∀ (ps : List Int) (st : Buckets π) (ev : List (Int × (Int × π))) (inds : List Nat),
      ps.Pairwise (· < ·) → Repr st (Fev ev) →
      (∀ P ∈ ps, (∀ e ∈ ev, e.1 ≠ P) → ∀ e ∈ ev, e.1 < P) →
      ss ≤ st.length → (∀ P ∈ ps, ∀ k ∈ (st.map (·.1)).take ss, k ≠ P) →
      Repr (ps.foldl (uStep x ss) (st, inds)).1 (Fev (ev ++ ps.map (fun P => (P, x)))) ∧
      st.map (·.1) <+: (ps.foldl (uStep x ss) (st, inds)).1.map (·.1) ∧
      (ps.foldl (uStep x ss) (st, inds)).2.length = inds.length + ps.length ∧
      (∀ i ∈ inds, i ∈ (ps.foldl (uStep x ss) (st, inds)).2) ∧
      (∀ P ∈ ps, ∃ i ∈ (ps.foldl (uStep x ss) (st, inds)).2,
        ((ps.foldl (uStep x ss) (st, inds)).1.map (·.1))[i]? = some P) := by
  intro ps
  induction ps with
  | nil =>
    intro st ev inds _ hr _ _ _
    simp only [List.foldl_nil, List.map_nil, List.append_nil, List.length_nil, Nat.add_zero]
    exact ⟨hr, List.prefix_refl _, trivial, fun i hi => hi, fun P hP => by cases hP⟩
  | cons P rest ih =>
    intro st ev inds hp hr hfresh hss hkb
    have hp' := List.pairwise_cons.1 hp
    have hne : ∀ r ∈ st.take ss, r.1 ≠ P := by
      intro r hr'
      apply hkb P (List.mem_cons_self ..)
      rw [← List.map_take]
      exact List.mem_map.2 ⟨r, hr', rfl⟩
    have hfst := uAdd_fst st ss P x hne
    have hsnd := uAdd_snd st ss P x hne
    -- the state after adding to P
    have hmax : ¬ HasKey st P → ∀ r ∈ st, r.1 < P := by
      intro hn r hr'
      have hev : ∀ e ∈ ev, e.1 ≠ P := by
        intro e he heq
        exact hn (hr.cover P ((Fev_ne_nil_iff ev P).2 ⟨e, he, heq⟩))
      obtain ⟨e, he, heq⟩ := (Fev_ne_nil_iff ev r.1).1 (hr.nonempty r hr')
      rw [← heq]
      exact hfresh P (List.mem_cons_self ..) hev e he
    have hr1 : Repr (upsert st P x) (Fev (ev ++ [(P, x)])) :=
      (hr.step P x hmax).congr (fun Q => (Fev_snoc ev P x Q).symm)
    have hpre1 : st.map (·.1) <+: (upsert st P x).map (·.1) := upsert_keys_prefix st P x
    have hlen1 : st.length ≤ (upsert st P x).length := by
      have := hpre1.length_le
      simpa using this
    have hfresh1 : ∀ P' ∈ rest, (∀ e ∈ ev ++ [(P, x)], e.1 ≠ P') → ∀ e ∈ ev ++ [(P, x)], e.1 < P' := by
      intro P' hP' hall e he
      rcases List.mem_append.1 he with he | he
      · exact hfresh P' (List.mem_cons_of_mem _ hP') (fun e' he' => hall e' (List.mem_append_left _ he')) e he
      · rw [List.mem_singleton] at he
        subst he
        exact hp'.1 P' hP'
    have hkb1 : ∀ P' ∈ rest, ∀ k ∈ ((upsert st P x).map (·.1)).take ss, k ≠ P' := by
      intro P' hP' k hk
      rw [prefix_take hpre1 (by simpa using hss)] at hk
      exact hkb P' (List.mem_cons_of_mem _ hP') k hk
    have step_eq : uStep x ss (st, inds) P = (upsert st P x, inds ++ [(uAdd st ss P x).2]) := by
      simp only [uStep, hfst]
    simp only [List.foldl_cons, step_eq]
    obtain ⟨a1, a2, a3, a4, a5⟩ := ih (upsert st P x) (ev ++ [(P, x)]) (inds ++ [(uAdd st ss P x).2])
      hp'.2 hr1 hfresh1 (Nat.le_trans hss hlen1) hkb1
    refine ⟨?_, hpre1.trans a2, ?_, ?_, ?_⟩
    · simpa [List.append_assoc] using a1
    · rw [a3]; simp only [List.length_append, List.length_cons, List.length_nil]; omega
    · intro i hi; exact a4 i (List.mem_append_left _ hi)
    · intro P' hP'
      rcases List.mem_cons.1 hP' with rfl | hP'
      · refine ⟨(uAdd st ss P' x).2, a4 _ (List.mem_append_right _ (List.mem_singleton.2 rfl)), ?_⟩
        apply prefix_getElem? a2
        rw [← hfst]; exact hsnd
      · exact a5 P' hP'

/-- all (partition, element) events of a list of elements, in processing order -/
def evs (l : Fib Int π) : List (Int × (Int × π)) :=
  (l.filter (fun e => inWindow as ae pre post e.1)).flatMap
    (fun x => (activeParts step pre post as ae x.1).map (fun P => (P, x)))

theorem mem_evs (l : Fib Int π) (e : Int × (Int × π)) :
    e ∈ evs step pre post as ae l ↔
      e.2 ∈ l ∧ inWindow as ae pre post e.2.1 = true ∧ e.1 ∈ activeParts step pre post as ae e.2.1 := by
  unfold evs
  simp only [List.mem_flatMap, List.mem_filter, List.mem_map]
  constructor
  · rintro ⟨y, ⟨hy, hw⟩, P, hP, rfl⟩
    exact ⟨hy, hw, hP⟩
  · rintro ⟨h1, h2, h3⟩
    exact ⟨e.2, ⟨h1, h2⟩, e.1, h3, rfl⟩

theorem evs_append (a b : Fib Int π) :
    evs step pre post as ae (a ++ b) = evs step pre post as ae a ++ evs step pre post as ae b := by
  simp [evs, List.filter_append, List.flatMap_append]

theorem evs_single_in (x : Int × π) (h : inWindow as ae pre post x.1 = true) :
    evs step pre post as ae [x] = (activeParts step pre post as ae x.1).map (fun P => (P, x)) := by
  simp [evs, List.filter_cons, h]

theorem evs_single_out (x : Int × π) (h : inWindow as ae pre post x.1 = false) :
    evs step pre post as ae [x] = [] := by
  simp [evs, List.filter_cons, h]

theorem evs_out (l : Fib Int π) (h : ∀ y ∈ l, inWindow as ae pre post y.1 = false) :
    evs step pre post as ae l = [] := by
  have : l.filter (fun e => inWindow as ae pre post e.1) = [] := by
    rw [List.filter_eq_nil_iff]
    intro a ha; simp [h a ha]
  simp [evs, this]

/-- a partition that has not been opened yet lies to the right of all opened ones -/
theorem fresh_evs (hs : 0 < step) (done : Fib Int π) (x : Int × π) (hsorted : Sorted (done ++ [x]))
    (P : Int) (hP : P ∈ activeParts step pre post as ae x.1)
    (hne : ∀ e ∈ evs step pre post as ae done, e.1 ≠ P) :
    ∀ e ∈ evs step pre post as ae done, e.1 < P := by
  intro e he
  obtain ⟨hy, hw, hQ⟩ := (mem_evs step pre post as ae done e).1 he
  have hlt : e.2.1 < x.1 := by
    have := (List.pairwise_append.1 hsorted).2.2 e.2 hy x (List.mem_singleton.2 rfl)
    exact this
  have hPx := (mem_activeParts step pre post as ae hs x.1 P).1 hP
  have hQy := (mem_activeParts step pre post as ae hs e.2.1 e.1).1 hQ
  by_cases hlt' : e.1 < P
  · exact hlt'
  · exfalso
    have hneq : e.1 ≠ P := hne e he
    have hgt : P < e.1 := by omega
    have : P ∈ activeParts step pre post as ae e.2.1 := by
      rw [mem_activeParts step pre post as ae hs]
      exact ⟨hPx.1, by omega, by omega, hPx.2.2.2.1, hPx.2.2.2.2⟩
    exact hne (P, e.2) ((mem_evs step pre post as ae done (P, e.2)).2 ⟨hy, hw, this⟩) rfl

/-- later coordinates never reach back before the first partition of an earlier coordinate -/
theorem activeParts_mono (hs : 0 < step) (c c' : Int) (hc : c ≤ c') (P1 : Int)
    (h1 : P1 ∈ activeParts step pre post as ae c)
    (hmin : ∀ Q ∈ activeParts step pre post as ae c, P1 ≤ Q)
    (P : Int) (hP : P ∈ activeParts step pre post as ae c') : P1 ≤ P := by
  by_cases h : P1 ≤ P
  · exact h
  · exfalso
    have a := (mem_activeParts step pre post as ae hs c P1).1 h1
    have b := (mem_activeParts step pre post as ae hs c' P).1 hP
    have : P ∈ activeParts step pre post as ae c := by
      rw [mem_activeParts step pre post as ae hs]
      exact ⟨b.1, by omega, by omega, b.2.2.2.1, b.2.2.2.2⟩
    have := hmin P this
    omega

theorem uLoop_spec (hs : 0 < step) (hact : as < ae) (hpre : 0 ≤ pre) (hpost : 0 ≤ post) :
    ∀ (rest done : Fib Int π) (st : Buckets π) (ss : Nat),
      Sorted (done ++ rest) → Repr st (Fev (evs step pre post as ae done)) → ss ≤ st.length →
      (∀ y ∈ rest, ∀ P ∈ activeParts step pre post as ae y.1, ∀ k ∈ (st.map (·.1)).take ss, k < P) →
      ∃ st', uLoop step pre post as ae rest st ss = some st' ∧
        Repr st' (Fev (evs step pre post as ae (done ++ rest))) := by
  intro rest
  induction rest with
  | nil =>
    intro done st ss _ hr _ _
    exact ⟨st, rfl, by simpa using hr⟩
  | cons x rest ih =>
    intro done st ss hsorted hr hss hkb
    have hsorted' : Sorted ((done ++ [x]) ++ rest) := by simpa [List.append_assoc] using hsorted
    have hsx : Sorted (done ++ [x]) := by
      have := (List.pairwise_append.1 hsorted')
      exact this.1
    have hxrest : Sorted (x :: rest) := (List.pairwise_append.1 hsorted).2.1
    have happ : done ++ x :: rest = (done ++ [x]) ++ rest := by simp [List.append_assoc]
    unfold uLoop
    by_cases h1 : x.1 < as - pre
    · -- before the window: skipped
      simp only [h1, if_true]
      have hout : inWindow as ae pre post x.1 = false := by
        simp only [inWindow, Bool.and_eq_false_iff, decide_eq_false_iff_not]; left; omega
      rw [happ]
      apply ih (done ++ [x]) st ss hsorted' _ hss (fun y hy => hkb y (List.mem_cons_of_mem _ hy))
      rw [evs_append, evs_single_out step pre post as ae x hout, List.append_nil]
      exact hr
    · by_cases h2 : ae + post ≤ x.1
      · -- beyond the window: the loop stops, and so does every later element
        simp only [h1, if_false, h2, if_true]
        refine ⟨st, rfl, ?_⟩
        rw [evs_append, evs_out step pre post as ae (x :: rest), List.append_nil]
        · exact hr
        · intro y hy
          have : x.1 ≤ y.1 := by
            rcases List.mem_cons.1 hy with rfl | hy
            · exact Int.le_refl _
            · exact Int.le_of_lt (hxrest.head_lt y hy)
          simp only [inWindow, Bool.and_eq_false_iff, decide_eq_false_iff_not]; right; omega
      · -- inside the window
        simp only [h1, h2, if_false]
        have hin : inWindow as ae pre post x.1 = true := by
          simp only [inWindow, Bool.and_eq_true, decide_eq_true_eq]; omega
        have hne := activeParts_ne_nil step pre post as ae hs hact hpre hpost x.1 (by omega) (by omega)
        have hpw := activeParts_pairwise step pre post as ae hs x.1
        rw [uParts_eq_foldl step as ae x ss _ st [] (uPartList_pairwise step pre post hs x.1)]
        change ∃ st', (match minOf ((activeParts step pre post as ae x.1).foldl (uStep x ss) (st, [])).2 with
          | none => none
          | some m => uLoop step pre post as ae rest
              ((activeParts step pre post as ae x.1).foldl (uStep x ss) (st, [])).1 m) = some st' ∧ _
        obtain ⟨a1, a2, a3, _, a5⟩ := inner_fold x ss (activeParts step pre post as ae x.1) st
          (evs step pre post as ae done) [] hpw hr
          (fun P hP => fresh_evs step pre post as ae hs done x hsx P hP) hss
          (fun P hP k hk => Int.ne_of_lt (hkb x (List.mem_cons_self ..) P hP k hk))
        generalize hres : (activeParts step pre post as ae x.1).foldl (uStep x ss) (st, []) = res at a1 a2 a3 a5
        -- the first partition of x
        obtain ⟨P1, tl, hps⟩ : ∃ P1 tl, activeParts step pre post as ae x.1 = P1 :: tl := by
          cases h : activeParts step pre post as ae x.1 with
          | nil => exact absurd h hne
          | cons a t => exact ⟨a, t, rfl⟩
        have hP1mem : P1 ∈ activeParts step pre post as ae x.1 := by rw [hps]; exact List.mem_cons_self ..
        have hP1min : ∀ Q ∈ activeParts step pre post as ae x.1, P1 ≤ Q := by
          intro Q hQ
          rw [hps] at hQ hpw
          rcases List.mem_cons.1 hQ with rfl | hQ
          · exact Int.le_refl _
          · exact Int.le_of_lt ((List.pairwise_cons.1 hpw).1 Q hQ)
        have hlen : res.2 ≠ [] := by
          intro e
          rw [e, hps] at a3
          simp at a3
        obtain ⟨m, hm⟩ := minOf_isSome hlen
        rw [hm]
        obtain ⟨i1, hi1, hk1⟩ := a5 P1 hP1mem
        have hmi : m ≤ i1 := minOf_le hm i1 hi1
        have hi1lt : i1 < (res.1.map (·.1)).length := by
          rcases Nat.lt_or_ge i1 (res.1.map (·.1)).length with h | h
          · exact h
          · rw [List.getElem?_eq_none h] at hk1; cases hk1
        have hKs : (res.1.map (·.1)).Pairwise (· < ·) := by
          rw [List.pairwise_map]; exact a1.sorted
        rw [happ]
        apply ih (done ++ [x]) res.1 m hsorted'
        · rw [evs_append, evs_single_in step pre post as ae x hin]
          exact a1
        · have : i1 < res.1.length := by simpa using hi1lt
          omega
        · intro y hy P hP k hk
          have hxy : x.1 ≤ y.1 := Int.le_of_lt (hxrest.head_lt y hy)
          have hP1P := activeParts_mono step pre post as ae hs x.1 y.1 hxy P1 hP1mem hP1min P hP
          obtain ⟨j, hj, rfl⟩ := List.mem_take_iff_getElem.1 hk
          have hj' : j < i1 := by omega
          have hji := (List.pairwise_iff_getElem.1 hKs) j i1 (by omega) hi1lt hj'
          have : (res.1.map (·.1))[i1] = P1 := by
            rw [List.getElem?_eq_getElem hi1lt] at hk1
            exact Option.some.inj hk1
          rw [this] at hji
          omega

end loops

section assemble
variable {π : Type} (step pre post as ae : Int)

/-- the declarative bucket of partition start `Q` -/
def uBucket (elems : Fib Int π) (Q : Int) : Fib Int π :=
  elems.filter (fun e => inWindow as ae pre post e.1 && decide (Q ∈ activeParts step pre post as ae e.1))

theorem Fev_map_single (ps : List Int) (hnd : ps.Pairwise (· < ·)) (x : Int × π) (Q : Int) :
    Fev (ps.map (fun P => (P, x))) Q = if Q ∈ ps then [x] else [] := by
  induction ps with
  | nil => simp [Fev]
  | cons P rest ih =>
    have hp := List.pairwise_cons.1 hnd
    have e : (P, x) :: rest.map (fun P => (P, x)) = [(P, x)] ++ rest.map (fun P => (P, x)) := rfl
    rw [List.map_cons, e, Fev_append, ih hp.2]
    by_cases hq : P = Q
    · subst hq
      have : P ∉ rest := fun h => absurd (hp.1 P h) (Int.lt_irrefl _)
      simp [Fev, this]
    · have hq' : ¬ Q = P := fun e => hq e.symm
      simp [Fev, hq, hq', List.mem_cons]

theorem Fev_evs (hs : 0 < step) (elems : Fib Int π) (Q : Int) :
    Fev (evs step pre post as ae elems) Q = uBucket step pre post as ae elems Q := by
  induction elems with
  | nil => simp [evs, Fev, uBucket]
  | cons x rest ih =>
    have e : x :: rest = [x] ++ rest := rfl
    rw [e, evs_append, Fev_append, ih]
    unfold uBucket
    rw [List.filter_append]
    congr 1
    by_cases hw : inWindow as ae pre post x.1 = true
    · rw [evs_single_in step pre post as ae x hw,
        Fev_map_single _ (activeParts_pairwise step pre post as ae hs x.1)]
      by_cases hm : Q ∈ activeParts step pre post as ae x.1 <;> simp [List.filter_cons, hw, hm]
    · have hw' : inWindow as ae pre post x.1 = false := by simpa using hw
      rw [evs_single_out step pre post as ae x hw']
      simp [Fev, List.filter_cons, hw']

/-- on a candidate partition start the declarative bucket is the `uMemb` filter of the spec -/
theorem uBucket_cand (hs : 0 < step) (elems : Fib Int π) (P : Int) (hP : P ∈ uCands step as ae) :
    uBucket step pre post as ae elems P = elems.filter (fun e => uMemb step pre post as ae P e.1) := by
  unfold uBucket
  apply filter_congr'
  intro x _
  have hc := (mem_uCands step as ae hs P).1 hP
  unfold uMemb
  by_cases hw : inWindow as ae pre post x.1 = true
  · simp only [hw, Bool.true_and]
    by_cases hm : P ∈ activeParts step pre post as ae x.1
    · have := (mem_activeParts step pre post as ae hs x.1 P).1 hm
      simp [hm, this.2.1, this.2.2.1]
    · have hm' : ¬ (P - pre ≤ x.1 ∧ x.1 < P + step + post) := by
        intro h
        exact hm ((mem_activeParts step pre post as ae hs x.1 P).2 ⟨hc.1, h.1, h.2, hc.2.1, hc.2.2⟩)
      simp only [hm, decide_false]
      symm
      simp only [Bool.and_eq_false_iff, decide_eq_false_iff_not]
      by_cases h1 : P - pre ≤ x.1
      · right; intro h2; exact hm' ⟨h1, h2⟩
      · left; exact h1
  · have hw' : inWindow as ae pre post x.1 = false := by simpa using hw
    simp [hw']

/-- the spec's (start, bucket) list before `build_elem` -/
def uSpecB (elems : Fib Int π) : Buckets π :=
  (uCands step as ae).filterMap (fun P =>
    let b := elems.filter (fun e => uMemb step pre post as ae P e.1)
    if b.isEmpty then none else some (P, b))

theorem mem_uSpecB (elems : Fib Int π) (r : Int × Fib Int π) :
    r ∈ uSpecB step pre post as ae elems ↔
      r.1 ∈ uCands step as ae ∧ r.2 = elems.filter (fun e => uMemb step pre post as ae r.1 e.1) ∧ r.2 ≠ [] := by
  unfold uSpecB
  simp only [List.mem_filterMap]
  constructor
  · rintro ⟨P, hP, h⟩
    by_cases he : (elems.filter (fun e => uMemb step pre post as ae P e.1)).isEmpty = true
    · simp [he] at h
    · simp only [he] at h
      simp only [Bool.false_eq_true, if_false, Option.some.injEq] at h
      subst h
      refine ⟨hP, rfl, ?_⟩
      intro e; apply he; simpa [List.isEmpty_iff] using e
  · rintro ⟨h1, h2, h3⟩
    refine ⟨r.1, h1, ?_⟩
    have : (elems.filter (fun e => uMemb step pre post as ae r.1 e.1)).isEmpty = false := by
      rw [← h2]; cases h : r.2 with
      | nil => exact absurd h h3
      | cons a t => rfl
    simp only [this, Bool.false_eq_true, if_false, Option.some.injEq]
    exact Prod.ext rfl h2.symm

theorem uSpecB_repr (hs : 0 < step) (elems : Fib Int π) :
    Repr (uSpecB step pre post as ae elems) (uBucket step pre post as ae elems) := by
  refine ⟨?_, ?_, ?_, ?_⟩
  · unfold Sorted uSpecB
    rw [List.pairwise_filterMap]
    apply List.Pairwise.imp _ (uCands_pairwise step as ae hs)
    intro a b hab x hx y hy
    by_cases h1 : (elems.filter (fun e => uMemb step pre post as ae a e.1)).isEmpty = true
    · simp [h1] at hx
    · by_cases h2 : (elems.filter (fun e => uMemb step pre post as ae b e.1)).isEmpty = true
      · simp [h2] at hy
      · simp only [h1, h2, Bool.false_eq_true, if_false, Option.mem_def, Option.some.injEq] at hx hy
        subst hx; subst hy; exact hab
  · intro r hr
    obtain ⟨h1, h2, _⟩ := (mem_uSpecB step pre post as ae elems r).1 hr
    rw [uBucket_cand step pre post as ae hs elems r.1 h1]; exact h2
  · intro r hr
    obtain ⟨h1, h2, h3⟩ := (mem_uSpecB step pre post as ae elems r).1 hr
    rw [uBucket_cand step pre post as ae hs elems r.1 h1, ← h2]; exact h3
  · intro Q hQ
    have hex : ∃ x ∈ elems, Q ∈ activeParts step pre post as ae x.1 := by
      unfold uBucket at hQ
      obtain ⟨x, hx⟩ := List.exists_mem_of_ne_nil _ hQ
      rw [List.mem_filter] at hx
      simp only [Bool.and_eq_true, decide_eq_true_eq] at hx
      exact ⟨x, hx.1, hx.2.2⟩
    obtain ⟨x, _, hm⟩ := hex
    have hm' := (mem_activeParts step pre post as ae hs x.1 Q).1 hm
    have hc : Q ∈ uCands step as ae := (mem_uCands step as ae hs Q).2 ⟨hm'.1, hm'.2.2.2.1, hm'.2.2.2.2⟩
    refine ⟨(Q, elems.filter (fun e => uMemb step pre post as ae Q e.1)), ?_, rfl⟩
    rw [mem_uSpecB]
    refine ⟨hc, rfl, ?_⟩
    show elems.filter (fun e => uMemb step pre post as ae Q e.1) ≠ []
    rw [← uBucket_cand step pre post as ae hs elems Q hc]; exact hQ

theorem uSpec_eq_map (rel : Bool) (elems : Fib Int π) :
    uSpec step pre post as ae rel elems =
      (uSpecB step pre post as ae elems).map
        (fun b => mkPart rel b.1 (max b.1 as) (min (b.1 + step) ae) b.2) := by
  unfold uSpec uSpecB
  rw [List.map_filterMap]
  apply filterMap_congr'
  intro P _
  by_cases h : (elems.filter (fun e => uMemb step pre post as ae P e.1)).isEmpty = true <;> simp [h]

/-- the uniform splitter computes the specification -/
theorem splitUniformIter_eq (hs : 0 < step) (hact : as < ae) (hpre : 0 ≤ pre) (hpost : 0 ≤ post)
    (rel : Bool) (elems : Fib Int π) (hsorted : Sorted elems) :
    splitUniformIter step pre post as ae rel elems = some (uSpec step pre post as ae rel elems) := by
  obtain ⟨st', h1, h2⟩ := uLoop_spec step pre post as ae hs hact hpre hpost elems [] [] 0
    (by simpa using hsorted)
    ⟨List.Pairwise.nil, fun r hr => (by cases hr), fun r hr => (by cases hr),
     fun Q hQ => (by simp [evs, Fev] at hQ)⟩
    (Nat.le_refl _) (fun y _ P _ k hk => by simp at hk)
  simp only [List.nil_append] at h2
  have h3 : Repr st' (uBucket step pre post as ae elems) :=
    h2.congr (fun Q => Fev_evs step pre post as ae hs elems Q)
  have h4 := Repr.unique h3 (uSpecB_repr step pre post as ae hs elems)
  unfold splitUniformIter
  rw [h1, uSpec_eq_map, h4]
  rfl

end assemble

end Ft
