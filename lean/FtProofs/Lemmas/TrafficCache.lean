/-
  Helper lemmas for C17 (cache): the simulation relation between the model of `cacheTraffic`
  (sorted list keyed by next-access stamp, `pop(0)` test) and the reference simulator (resident
  set, furthest next use by position in the access sequence).
-/
import FtProofs.Lemmas.TrafficCacheOrd
set_option linter.unusedSectionVars false
set_option linter.unusedSimpArgs false
set_option linter.unusedVariables false
namespace Ft
namespace Traffic

abbrev Sched := List (Nat × Acc)

def skey (x : Nat × Acc) : CKey := (x.1, x.2.point)
def selem (x : Nat × Acc) : LElem := ⟨x.2.stamp, x.2.point, x.1⟩

/-- the list element a resident line `k` carries: keyed by the stamp of its next use -/
def elemOf (rest : Sched) (k : CKey) : Option LElem :=
  (rest.find? (fun y => decide (skey y = k))).map (fun y => ⟨y.2.stamp, k.2, k.1⟩)

/-- `next` is the stamp of the next access of the same binding to the same line -/
def SNextOk : Sched → Prop
  | [] => True
  | x :: rest => x.2.next = (rest.find? (fun y => decide (skey y = skey x))).map (·.2.stamp) ∧ SNextOk rest

/-- the sequence is ordered the way `ListElem` compares (stamp, then binding position), and two
    accesses that compare equal touch the same line (no stamp ties between different lines) -/
def SOrd : Sched → Prop
  | [] => True
  | x :: rest =>
    (∀ y ∈ rest, (selem y).lt (selem x) = false ∧ ((selem y).keq (selem x) → skey y = skey x)) ∧ SOrd rest

theorem nextAfter_eq (k : CKey) (rest : Sched) :
    nextAfter k rest = (rest.findIdx? (fun y => decide (skey y = k))).map (fun j => rest.length - 1 - j) := by
  unfold nextAfter
  have : (fun y : Nat × Acc => decide ((y.1, y.2.point) = k)) = (fun y => decide (skey y = k)) := rfl
  rw [this]
  cases rest.findIdx? (fun y => decide (skey y = k)) <;> rfl

theorem nextAfter_cons_ne {k : CKey} {y : Nat × Acc} (rest : Sched) (h : skey y ≠ k) :
    nextAfter k (y :: rest) = nextAfter k rest := by
  rw [nextAfter_eq, nextAfter_eq, List.findIdx?_cons]
  simp only [h, decide_false, Bool.false_eq_true, if_false, Option.map_map]
  cases hf : rest.findIdx? (fun y => decide (skey y = k)) with
  | none => rfl
  | some j =>
    simp only [Option.map_some, Function.comp, List.length_cons, Option.some.injEq]
    omega

theorem nextAfter_cons_self {k : CKey} {y : Nat × Acc} (rest : Sched) (h : skey y = k) :
    nextAfter k (y :: rest) = some rest.length := by
  rw [nextAfter_eq, List.findIdx?_cons]
  simp [h]

theorem nextAfter_lt {k : CKey} {rest : Sched} {n : Nat} (h : nextAfter k rest = some n) :
    n < rest.length := by
  rw [nextAfter_eq] at h
  cases hf : rest.findIdx? (fun y => decide (skey y = k)) with
  | none => rw [hf] at h; cases h
  | some j =>
    rw [hf] at h
    simp only [Option.map_some, Option.some.injEq] at h
    have := (List.findIdx?_eq_some_iff_findIdx_eq.1 hf).1
    omega

theorem elemOf_cons_ne {k : CKey} {y : Nat × Acc} (rest : Sched) (h : skey y ≠ k) :
    elemOf (y :: rest) k = elemOf rest k := by
  simp [elemOf, List.find?_cons, h]

theorem elemOf_cons_self {k : CKey} {y : Nat × Acc} (rest : Sched) (h : skey y = k) :
    elemOf (y :: rest) k = some (selem y) := by
  simp only [elemOf, List.find?_cons, h, decide_true, Option.map_some, Option.some.injEq]
  rw [← h]; rfl

theorem elemOf_key {rest : Sched} {k : CKey} {e : LElem} (h : elemOf rest k = some e) :
    (e.pos, e.obj) = k := by
  unfold elemOf at h
  cases hf : rest.find? (fun y => decide (skey y = k)) with
  | none => rw [hf] at h; cases h
  | some y => rw [hf] at h; simp at h; rw [← h]

theorem elemOf_mem {rest : Sched} {k : CKey} {e : LElem} (h : elemOf rest k = some e) :
    ∃ y ∈ rest, skey y = k ∧ e = selem y := by
  unfold elemOf at h
  cases hf : rest.find? (fun y => decide (skey y = k)) with
  | none => rw [hf] at h; cases h
  | some y =>
    rw [hf] at h; simp at h
    have hk : skey y = k := by simpa using List.find?_some hf
    refine ⟨y, List.mem_of_find?_eq_some hf, hk, ?_⟩
    rw [← h, ← hk]; rfl

theorem elemOf_isSome_iff (rest : Sched) (k : CKey) :
    (elemOf rest k).isSome = (nextAfter k rest).isSome := by
  rw [nextAfter_eq]
  unfold elemOf
  simp only [Option.isSome_map]
  induction rest with
  | nil => rfl
  | cons y r ih =>
    simp only [List.find?_cons, List.findIdx?_cons]
    by_cases h : skey y = k
    · simp [h]
    · simp [h, ih]

theorem elemOf_of_nextAfter {rest : Sched} {k : CKey} {n : Nat} (h : nextAfter k rest = some n) :
    ∃ e, elemOf rest k = some e := by
  have := elemOf_isSome_iff rest k
  rw [h] at this
  cases he : elemOf rest k with
  | none => rw [he] at this; cases this
  | some e => exact ⟨e, rfl⟩

/-- later in the sequence = greater in the `ListElem` order, for accesses to different lines -/
theorem sord_head_lt {x : Nat × Acc} {rest : Sched} (h : SOrd (x :: rest)) {y : Nat × Acc}
    (hy : y ∈ rest) (hne : skey y ≠ skey x) : (selem x).lt (selem y) = true := by
  obtain ⟨h1, h2⟩ := h.1 y hy
  cases hxy : (selem x).lt (selem y)
  · exfalso
    have := LElem.lt_total hxy h1
    exact hne (h2 ⟨this.1.symm, this.2.symm⟩)
  · rfl

/-- the order isomorphism: of two resident lines, the one whose next use comes first (more accesses
    remain after it) has the smaller list element -/
theorem order_iso : ∀ {rest : Sched}, SOrd rest → ∀ {k1 k2 : CKey}, k1 ≠ k2 →
    ∀ {e1 e2 : LElem} {n1 n2 : Nat}, elemOf rest k1 = some e1 → elemOf rest k2 = some e2 →
      nextAfter k1 rest = some n1 → nextAfter k2 rest = some n2 →
      n1 ≠ n2 ∧ (n2 < n1 → e1.lt e2 = true)
  | [], _, _, _, _, _, _, _, _, h, _, _, _ => by simp [elemOf] at h
  | y :: r, ho, k1, k2, hne, e1, e2, n1, n2, he1, he2, hn1, hn2 => by
    by_cases h1 : skey y = k1
    · have h2 : skey y ≠ k2 := fun e => hne (h1.symm.trans e)
      rw [nextAfter_cons_self r h1] at hn1
      rw [nextAfter_cons_ne r h2] at hn2
      rw [elemOf_cons_self r h1] at he1
      rw [elemOf_cons_ne r h2] at he2
      cases hn1; cases he1
      have hlt := nextAfter_lt hn2
      refine ⟨by omega, fun _ => ?_⟩
      obtain ⟨y2, hy2, hk2, rfl⟩ := elemOf_mem he2
      exact sord_head_lt ho hy2 (by rw [hk2, h1]; exact fun e => hne e.symm)
    · by_cases h2 : skey y = k2
      · rw [nextAfter_cons_self r h2] at hn2
        rw [nextAfter_cons_ne r h1] at hn1
        cases hn2
        have hlt := nextAfter_lt hn1
        exact ⟨by omega, fun h => by omega⟩
      · rw [nextAfter_cons_ne r h1] at hn1
        rw [nextAfter_cons_ne r h2] at hn2
        rw [elemOf_cons_ne r h1] at he1
        rw [elemOf_cons_ne r h2] at he2
        exact order_iso ho.2 hne he1 he2 hn1 hn2

theorem order_iso_ne {rest : Sched} (ho : SOrd rest) {k1 k2 : CKey} (hne : k1 ≠ k2)
    {e1 e2 : LElem} {n1 n2 : Nat} (he1 : elemOf rest k1 = some e1) (he2 : elemOf rest k2 = some e2)
    (hn1 : nextAfter k1 rest = some n1) (hn2 : nextAfter k2 rest = some n2) : ¬ e1.keq e2 := by
  obtain ⟨hd, h12⟩ := order_iso ho hne he1 he2 hn1 hn2
  obtain ⟨_, h21⟩ := order_iso ho (Ne.symm hne) he2 he1 hn2 hn1
  intro hk
  rcases Nat.lt_or_gt_of_ne hd with h | h
  · exact LElem.not_keq_of_lt (h21 h) ⟨hk.1.symm, hk.2.symm⟩
  · exact LElem.not_keq_of_lt (h12 h) hk

/-! ### the simulation relation -/

structure CRel (ls : Nat) (s : CState) (r : RState) (rest : Sched) : Prop where
  ok     : s.failed = none
  pins   : ∀ k, s.pinned.contains k = true ↔ ∃ en ∈ r.res, en.key = k ∧ en.pinned = true
  objs   : ∀ k, alookup s.objs k = (r.res.find? (fun en => decide (en.key = k))).map (·.dirty)
  nodup  : (r.res.map (·.key)).Nodup
  idx    : ∀ en ∈ r.res, nextAfter en.key rest = some en.nextIdx
  sorted : SSorted s.nextEvict
  elems  : ∀ e, e ∈ s.nextEvict ↔ ∃ en ∈ r.res, en.pinned = false ∧ elemOf rest en.key = some e
  occ    : s.occ = ls * r.res.length
  reads  : s.reads = r.reads
  writes : s.writes = r.writes
  over   : s.over = r.over

theorem CRel.hit_iff {ls : Nat} {s : CState} {r : RState} {rest : Sched} (h : CRel ls s r rest) (k : CKey) :
    (alookup s.objs k).isNone = (r.res.find? (fun en => decide (en.key = k))).isNone := by
  rw [h.objs k]; simp

theorem CRel.resident {ls : Nat} {s : CState} {r : RState} {rest : Sched} (h : CRel ls s r rest)
    {k : CKey} {en : REntry} (hf : r.res.find? (fun en => decide (en.key = k)) = some en) :
    en ∈ r.res ∧ en.key = k :=
  ⟨List.mem_of_find?_eq_some hf, by simpa using List.find?_some hf⟩

theorem CRel.not_resident {ls : Nat} {s : CState} {r : RState} {rest : Sched} (h : CRel ls s r rest)
    {k : CKey} (hf : r.res.find? (fun en => decide (en.key = k)) = none) : ∀ en ∈ r.res, en.key ≠ k := by
  intro en hen e
  have := List.find?_eq_none.1 hf en hen
  simp [e] at this

/-- the line accessed now is not resident: everything resident looks at the rest of the sequence -/
theorem CRel.shift {ls : Nat} {s : CState} {r : RState} {x : Nat × Acc} {rest : Sched}
    (h : CRel ls s r (x :: rest)) (hk : ∀ en ∈ r.res, en.key ≠ skey x) : CRel ls s r rest := by
  refine { h with idx := ?_, elems := ?_ }
  · intro en hen
    rw [← nextAfter_cons_ne rest (Ne.symm (hk en hen))]; exact h.idx en hen
  · intro e
    rw [h.elems e]
    constructor
    · rintro ⟨en, hen, hp, he⟩
      exact ⟨en, hen, hp, by rw [← elemOf_cons_ne rest (Ne.symm (hk en hen))]; exact he⟩
    · rintro ⟨en, hen, hp, he⟩
      exact ⟨en, hen, hp, by rw [elemOf_cons_ne rest (Ne.symm (hk en hen))]; exact he⟩

/-! ### resident-set bookkeeping -/

theorem find_filter_ne (res : List REntry) (k k' : CKey) :
    (res.filter (fun en => decide (en.key ≠ k))).find? (fun en => decide (en.key = k'))
      = if k = k' then none else res.find? (fun en => decide (en.key = k')) := by
  induction res with
  | nil => simp
  | cons e r ih =>
    by_cases h1 : e.key = k
    · by_cases h2 : k = k'
      · simp only [List.filter_cons, h1, ne_eq, not_true_eq_false, decide_false, Bool.false_eq_true,
          if_false, h2, if_true] at ih ⊢
        exact ih
      · have : ¬ e.key = k' := by rw [h1]; exact h2
        simp only [List.filter_cons, h1, ne_eq, not_true_eq_false, decide_false, Bool.false_eq_true,
          if_false, h2, List.find?_cons, this] at ih ⊢
        exact ih
    · simp only [List.filter_cons, ne_eq, h1, not_false_eq_true, decide_true, if_true, List.find?_cons]
      by_cases h2 : e.key = k'
      · have : ¬ k = k' := by rw [← h2]; exact fun e' => h1 e'.symm
        simp [h2, this]
      · simp only [h2, decide_false]
        exact ih

theorem key_inj {res : List REntry} (hnd : (res.map (·.key)).Nodup) {a b : REntry} (ha : a ∈ res)
    (hb : b ∈ res) (h : a.key = b.key) : a = b := by
  induction res with
  | nil => cases ha
  | cons e r ih =>
    simp only [List.map_cons, List.nodup_cons, List.mem_map, not_exists, not_and] at hnd
    by_cases hae : a = e
    · by_cases hbe : b = e
      · rw [hae, hbe]
      · have hb' : b ∈ r := by
          rcases List.mem_cons.1 hb with e' | e'
          · exact absurd e' hbe
          · exact e'
        rw [hae] at h
        exact absurd h.symm (hnd.1 b hb')
    · have ha' : a ∈ r := by
        rcases List.mem_cons.1 ha with e' | e'
        · exact absurd e' hae
        · exact e'
      by_cases hbe : b = e
      · rw [hbe] at h
        exact absurd h (hnd.1 a ha')
      · have hb' : b ∈ r := by
          rcases List.mem_cons.1 hb with e' | e'
          · exact absurd e' hbe
          · exact e'
        exact ih hnd.2 ha' hb'

theorem find_of_mem {res : List REntry} (hnd : (res.map (·.key)).Nodup) {a : REntry} (ha : a ∈ res) :
    res.find? (fun en => decide (en.key = a.key)) = some a := by
  cases hf : res.find? (fun en => decide (en.key = a.key)) with
  | none =>
    have := List.find?_eq_none.1 hf a ha
    simp at this
  | some b =>
    have hb := List.mem_of_find?_eq_some hf
    have hk : b.key = a.key := by simpa using List.find?_some hf
    rw [key_inj hnd hb ha hk]

theorem filter_length_succ {res : List REntry} (hnd : (res.map (·.key)).Nodup) {a : REntry} (ha : a ∈ res) :
    (res.filter (fun en => decide (en.key ≠ a.key))).length + 1 = res.length := by
  induction res with
  | nil => cases ha
  | cons e r ih =>
    simp only [List.map_cons, List.nodup_cons, List.mem_map, not_exists, not_and] at hnd
    by_cases hae : a = e
    · subst hae
      have : r.filter (fun en => decide (en.key ≠ a.key)) = r := by
        apply List.filter_eq_self.2
        intro x hx
        have := hnd.1 x hx
        simpa using this
      rw [List.filter_cons]
      simp only [ne_eq, not_true_eq_false, decide_false, Bool.false_eq_true, if_false, List.length_cons]
      rw [this]
    · have ha' : a ∈ r := by
        rcases List.mem_cons.1 ha with e' | e'
        · exact absurd e' hae
        · exact e'
      have hne : e.key ≠ a.key := fun h => hnd.1 a ha' h.symm
      have := ih hnd.2 ha'
      rw [List.filter_cons]
      simp only [ne_eq, hne, not_false_eq_true, decide_true, if_true, List.length_cons]
      simp only [ne_eq] at this
      omega

/-- the pinned flag of a resident line, read off the model's `pinned` set -/
theorem CRel.pinned_iff {ls : Nat} {s : CState} {r : RState} {rest : Sched} (h : CRel ls s r rest)
    {en : REntry} (hen : en ∈ r.res) : s.pinned.contains en.key = en.pinned := by
  cases hp : en.pinned
  · cases hc : s.pinned.contains en.key
    · rfl
    · obtain ⟨en', hen', hk, hp'⟩ := (h.pins en.key).1 hc
      rw [key_inj h.nodup hen' hen hk, hp] at hp'; cases hp'
  · exact (h.pins en.key).2 ⟨en, hen, rfl, hp⟩

theorem CRel.not_pinned_of_not_resident {ls : Nat} {s : CState} {r : RState} {rest : Sched}
    (h : CRel ls s r rest) {k : CKey} (hk : ∀ en ∈ r.res, en.key ≠ k) : s.pinned.contains k = false := by
  cases hc : s.pinned.contains k
  · rfl
  · obtain ⟨en, hen, hk', _⟩ := (h.pins k).1 hc
    exact absurd hk' (hk en hen)

/-- removing a resident line (pinned or not) on both sides -/
theorem CRel.remove {ls : Nat} {s : CState} {r : RState} {rest : Sched} (h : CRel ls s r rest)
    {en0 : REntry} (hen0 : en0 ∈ r.res)
    {s' : CState} {W : List (Nat × Nat)}
    (hok : s'.failed = none)
    (hpin : ∀ k', s'.pinned.contains k' = (s.pinned.contains k' && decide (k' ≠ en0.key)))
    (hobjs : ∀ k', alookup s'.objs k' = if en0.key = k' then none else alookup s.objs k')
    (hsorted : SSorted s'.nextEvict)
    (hel : ∀ e, e ∈ s'.nextEvict ↔ e ∈ s.nextEvict ∧ (e.pos, e.obj) ≠ en0.key)
    (hocc : s'.occ = s.occ - ls) (hreads : s'.reads = s.reads) (hw : s'.writes = W)
    (hover : s'.over = s.over) :
    CRel ls s' { r with res := r.res.filter (fun en => decide (en.key ≠ en0.key)), writes := W } rest := by
  have hsub : ∀ en ∈ r.res.filter (fun en => decide (en.key ≠ en0.key)), en ∈ r.res ∧ en.key ≠ en0.key := by
    intro en hen
    have := List.mem_filter.1 hen
    exact ⟨this.1, by simpa using this.2⟩
  have hmk : ∀ en, en ∈ r.res → en.key ≠ en0.key →
      en ∈ r.res.filter (fun en => decide (en.key ≠ en0.key)) := by
    intro en hen hne
    exact List.mem_filter.2 ⟨hen, by simpa using hne⟩
  refine ⟨hok, ?_, ?_, ?_, ?_, hsorted, ?_, ?_, ?_, hw, ?_⟩
  · intro k'
    rw [hpin k']
    simp only [Bool.and_eq_true, decide_eq_true_eq]
    constructor
    · rintro ⟨hc, hne⟩
      obtain ⟨en, hen, hk, hp⟩ := (h.pins k').1 hc
      exact ⟨en, hmk en hen (by rw [hk]; exact hne), hk, hp⟩
    · rintro ⟨en, hen, hk, hp⟩
      obtain ⟨h1, h2⟩ := hsub en hen
      exact ⟨(h.pins k').2 ⟨en, h1, hk, hp⟩, by rw [← hk]; exact h2⟩
  · intro k'
    show alookup s'.objs k' = ((r.res.filter _).find? _).map _
    rw [hobjs k', find_filter_ne, h.objs k']
    by_cases hk : en0.key = k' <;> simp [hk]
  · exact List.Nodup.sublist (List.Sublist.map _ List.filter_sublist) h.nodup
  · intro en hen; exact h.idx en (hsub en hen).1
  · intro e
    rw [hel e, h.elems e]
    constructor
    · rintro ⟨⟨en, hen, hp, he⟩, hne⟩
      exact ⟨en, hmk en hen (by rw [← elemOf_key he]; exact hne), hp, he⟩
    · rintro ⟨en, hen, hp, he⟩
      obtain ⟨h1, h2⟩ := hsub en hen
      exact ⟨⟨en, h1, hp, he⟩, by rw [elemOf_key he]; exact h2⟩
  · show s'.occ = ls * (r.res.filter _).length
    rw [hocc, h.occ]
    have := filter_length_succ h.nodup hen0
    rw [← this, Nat.mul_add]; simp
  · exact hreads.trans h.reads
  · exact hover.trans h.over

/-- bringing a line in on both sides (`pn`: as a pinned line) -/
theorem CRel.insert {ls : Nat} {s : CState} {r : RState} {rest : Sched} (h : CRel ls s r rest)
    (ho : SOrd rest) {k : CKey} (hk : ∀ en ∈ r.res, en.key ≠ k) {n : Nat}
    (hn : nextAfter k rest = some n) {le : LElem} (hle : elemOf rest k = some le) {d pn : Bool}
    {s' : CState} (hok : s'.failed = none)
    (hpin : ∀ k', s'.pinned.contains k' = (s.pinned.contains k' || (pn && decide (k' = k))))
    (hobjs : ∀ k', alookup s'.objs k' = if k = k' then some d else alookup s.objs k')
    (hne : s'.nextEvict = if pn then s.nextEvict else sortedAdd le s.nextEvict)
    (hocc : s'.occ = s.occ + ls)
    (hreads : s'.reads = s.reads) (hw : s'.writes = s.writes) (hover : s'.over = s.over) :
    CRel ls s' { r with res := ⟨k, d, n, pn⟩ :: r.res } rest := by
  refine ⟨hok, ?_, ?_, ?_, ?_, ?_, ?_, ?_, hreads.trans h.reads, hw.trans h.writes, hover.trans h.over⟩
  · intro k'
    rw [hpin k']
    simp only [Bool.or_eq_true, Bool.and_eq_true, decide_eq_true_eq]
    constructor
    · rintro (hc | ⟨hp, hkk⟩)
      · obtain ⟨en, hen, hk', hp⟩ := (h.pins k').1 hc
        exact ⟨en, List.mem_cons_of_mem _ hen, hk', hp⟩
      · exact ⟨_, List.mem_cons_self, hkk.symm, hp⟩
    · rintro ⟨en, hen, hk', hp⟩
      rcases List.mem_cons.1 hen with rfl | hen
      · exact Or.inr ⟨hp, hk'.symm⟩
      · exact Or.inl ((h.pins k').2 ⟨en, hen, hk', hp⟩)
  · intro k'
    show alookup s'.objs k' = ((⟨k, d, n, pn⟩ :: r.res).find? _).map _
    rw [hobjs k', List.find?_cons]
    by_cases hkk : k = k'
    · simp [hkk]
    · simp [hkk, h.objs k']
  · show ((⟨k, d, n, pn⟩ :: r.res).map (·.key)).Nodup
    simp only [List.map_cons, List.nodup_cons, List.mem_map, not_exists, not_and]
    exact ⟨fun en hen e => hk en hen e, h.nodup⟩
  · intro en hen
    rcases List.mem_cons.1 hen with rfl | hen
    · exact hn
    · exact h.idx en hen
  · rw [hne]
    cases pn
    · simp only [Bool.false_eq_true, if_false]
      apply sortedAdd_sorted le _ h.sorted
      intro y hy
      obtain ⟨en, hen, _, he⟩ := (h.elems y).1 hy
      exact order_iso_ne ho (Ne.symm (hk en hen)) hle he hn (h.idx en hen)
    · simpa using h.sorted
  · intro e
    rw [hne]
    cases pn
    · simp only [Bool.false_eq_true, if_false, mem_sortedAdd, h.elems e]
      constructor
      · rintro (rfl | ⟨en, hen, hp, he⟩)
        · exact ⟨_, List.mem_cons_self, rfl, hle⟩
        · exact ⟨en, List.mem_cons_of_mem _ hen, hp, he⟩
      · rintro ⟨en, hen, hp, he⟩
        rcases List.mem_cons.1 hen with rfl | hen
        · left
          have : elemOf rest k = some e := he
          rw [hle] at this; cases this; rfl
        · exact Or.inr ⟨en, hen, hp, he⟩
    · simp only [if_true, h.elems e]
      constructor
      · rintro ⟨en, hen, hp, he⟩
        exact ⟨en, List.mem_cons_of_mem _ hen, hp, he⟩
      · rintro ⟨en, hen, hp, he⟩
        rcases List.mem_cons.1 hen with rfl | hen
        · cases hp
        · exact ⟨en, hen, hp, he⟩
  · show s'.occ = ls * (r.res.length + 1)
    rw [hocc, h.occ, Nat.mul_add]; simp

/-- the last element of the sorted list belongs to the furthest unpinned line -/
theorem CRel.last_is_furthest {ls : Nat} {s : CState} {r : RState} {rest : Sched} (h : CRel ls s r rest)
    (ho : SOrd rest) {far : LElem} (hl : s.nextEvict.getLast? = some far) :
    ∃ f, furthest r.res = some f ∧ f ∈ r.res ∧ f.pinned = false ∧ elemOf rest f.key = some far := by
  obtain ⟨hfar, hmax⟩ := ssorted_last h.sorted hl
  obtain ⟨enf, henf, hpf, hef⟩ := (h.elems far).1 hfar
  cases hf : furthest r.res with
  | none =>
    have := furthest_none.1 hf enf henf
    rw [hpf] at this; cases this
  | some f =>
    obtain ⟨hfm', hfp, hmin⟩ := furthest_some hf
    have hkey : enf.key = f.key := by
      apply Classical.byContradiction
      intro hne
      obtain ⟨ef, hef'⟩ := elemOf_of_nextAfter (h.idx f hfm')
      obtain ⟨hd, hlt⟩ := order_iso ho hne hef hef' (h.idx enf henf) (h.idx f hfm')
      have hle := hmin enf henf hpf
      have hlt' := hlt (by omega)
      have hefm : ef ∈ s.nextEvict := (h.elems ef).2 ⟨f, hfm', hfp, hef'⟩
      rcases hmax ef hefm with e | e
      · subst e
        exact hne ((elemOf_key hef).symm.trans (elemOf_key hef'))
      · rw [LElem.lt_asymm hlt'] at e; cases e
    have hef2 : enf = f := key_inj h.nodup henf hfm' hkey
    subst hef2
    exact ⟨enf, rfl, henf, hpf, hef⟩

theorem CRel.no_last {ls : Nat} {s : CState} {r : RState} {rest : Sched} (h : CRel ls s r rest)
    (hl : s.nextEvict.getLast? = none) : furthest r.res = none := by
  have hnil : s.nextEvict = [] := List.getLast?_eq_none_iff.1 hl
  apply furthest_none.2
  intro en hen
  cases hp : en.pinned
  · exfalso
    obtain ⟨e, he⟩ := elemOf_of_nextAfter (h.idx en hen)
    have := (h.elems e).2 ⟨en, hen, hp, he⟩
    rw [hnil] at this; cases this
  · rfl

/-! ### the eviction loops agree -/

theorem evict_loops (ls : Nat) (cap : Option Nat) {rest : Sched} (ho : SOrd rest) :
    ∀ (fm fr : Nat) (s : CState) (r : RState), CRel ls s r rest →
      s.nextEvict.length + 1 ≤ fm → r.res.length + 1 ≤ fr →
      CRel ls (evictLoop ls cap fm s) (refEvictLoop ls cap fr r) rest ∧
      (∀ en ∈ (refEvictLoop ls cap fr r).res, en ∈ r.res)
  | 0, _, _, _, _, hfm, _ => by omega
  | _ + 1, 0, _, _, _, _, hfr => by omega
  | fm + 1, fr + 1, s, r, h, hfm, hfr => by
    have hfit : capFits cap (s.occ + ls) = capFits cap (ls * (r.res.length + 1)) := by
      rw [h.occ, Nat.mul_add]; simp
    unfold evictLoop refEvictLoop
    rw [hfit]
    cases hc : capFits cap (ls * (r.res.length + 1))
    · simp only [Bool.false_eq_true, if_false]
      cases hl : s.nextEvict.getLast? with
      | none =>
        have hfn := h.no_last hl
        simp only [hfn]
        refine ⟨⟨h.ok, h.pins, h.objs, h.nodup, h.idx, h.sorted, h.elems, h.occ, h.reads,
          h.writes, ?_⟩, ?_⟩
        · show s.over + 1 = r.over + 1
          rw [h.over]
        · intro en hen
          have : en ∈ r.res := hen
          exact this
      | some far =>
        obtain ⟨f, hf, hfm', hfp, hef⟩ := h.last_is_furthest ho hl
        have hk : (far.pos, far.obj) = f.key := elemOf_key hef
        have hlook : alookup s.objs (far.pos, far.obj) = some f.dirty := by
          rw [hk, h.objs, find_of_mem h.nodup hfm']; rfl
        simp only [hlook, hf]
        let s1 : CState := { s with writes := (if f.dirty then addAt s.writes far.pos ls else s.writes),
                                    objs := aerase s.objs (far.pos, far.obj),
                                    nextEvict := s.nextEvict.dropLast,
                                    occ := s.occ - ls }
        let r1 : RState := { r with writes := (if f.dirty then addAt r.writes f.key.1 ls else r.writes),
                                    res := r.res.filter (fun x => decide (x.key ≠ f.key)) }
        have hpos : far.pos = f.key.1 := by rw [← hk]
        have hfnp : s.pinned.contains f.key = false := by rw [h.pinned_iff hfm', hfp]
        have hrel1 : CRel ls s1 r1 rest := by
          have := h.remove hfm' (s' := s1) (W := s1.writes) h.ok
            (by intro k'
                show s.pinned.contains k' = (s.pinned.contains k' && decide (k' ≠ f.key))
                by_cases hkk : k' = f.key
                · rw [hkk, hfnp]; simp
                · simp [hkk])
            (by intro k'; show alookup (aerase s.objs (far.pos, far.obj)) k' = _
                rw [alookup_aerase, hk])
            (ssorted_dropLast h.sorted)
            (by intro e
                show e ∈ s.nextEvict.dropLast ↔ _
                rw [mem_dropLast_of_ssorted h.sorted hl e]
                constructor
                · rintro ⟨he, hne⟩
                  refine ⟨he, fun hke => hne ?_⟩
                  obtain ⟨en, hen, _, hee⟩ := (h.elems e).1 he
                  have hkk : en.key = f.key := (elemOf_key hee).symm.trans hke
                  rw [hkk, hef] at hee; cases hee; rfl
                · rintro ⟨he, hne⟩
                  exact ⟨he, fun hee => hne (by rw [hee]; exact hk)⟩)
            rfl rfl rfl rfl
          have hw : s1.writes = (if f.dirty then addAt r.writes f.key.1 ls else r.writes) := by
            show (if f.dirty then addAt s.writes far.pos ls else s.writes) = _
            rw [h.writes, hpos]
          rw [hw] at this
          exact this
        have hlen1 : s1.nextEvict.length + 1 ≤ fm := by
          show s.nextEvict.dropLast.length + 1 ≤ fm
          have hne : s.nextEvict ≠ [] := by intro e; rw [e] at hl; cases hl
          have := @List.length_dropLast _ s.nextEvict
          have hpos' : 0 < s.nextEvict.length := by
            cases hh : s.nextEvict with
            | nil => exact absurd hh hne
            | cons _ _ => simp
          omega
        have hlen2 : r1.res.length + 1 ≤ fr := by
          have := filter_length_succ h.nodup hfm'
          show (r.res.filter _).length + 1 ≤ fr
          omega
        obtain ⟨ih1, ih2⟩ := evict_loops ls cap ho fm fr s1 r1 hrel1 hlen1 hlen2
        refine ⟨ih1, ?_⟩
        intro en hen
        exact (List.mem_filter.1 (ih2 en hen)).1
    · simp only [if_true]
      exact ⟨h, fun en hen => hen⟩

/-! ### one iteration of the main loop, case by case -/

theorem cCore_none_miss (ls : Nat) (cap : Option Nat) (s : CState) (x : Nat × Acc)
    (hn : x.2.next = none) (hl : alookup s.objs (skey x) = none) :
    cCore ls cap s x = if x.2.wb then { s with writes := addAt s.writes x.1 ls } else s := by
  have hl' : alookup s.objs (x.1, x.2.point) = none := hl
  simp [cCore, hn, hl']

theorem cCore_none_hit (ls : Nat) (cap : Option Nat) (s : CState) (x : Nat × Acc)
    (hn : x.2.next = none) {d : Bool} (hl : alookup s.objs (skey x) = some d) :
    cCore ls cap s x =
      { s with nextEvict := (if s.pinned.contains (skey x) then s.nextEvict else eraseKey s.nextEvict (skey x)),
               writes := (if (d || x.2.wb) then addAt s.writes x.1 ls else s.writes),
               objs := aerase s.objs (skey x),
               pinned := s.pinned.filter (· ≠ skey x),
               occ := s.occ - ls } := by
  have hl' : alookup s.objs (x.1, x.2.point) = some d := hl
  simp only [cCore, hn, hl', skey, Option.isNone_some, Option.isNone_none, Bool.not_false, Bool.not_true, Bool.and_self, Bool.false_eq_true, if_false, if_true, Bool.and_false, Bool.and_true, Bool.false_and, Bool.true_and, Option.getD_some, Bool.not_eq_true']
  try rfl

theorem cCore_some_hit (ls : Nat) (cap : Option Nat) (s : CState) (x : Nat × Acc) {nx : List Nat}
    (hn : x.2.next = some nx) {d : Bool} (hl : alookup s.objs (skey x) = some d)
    (hp : s.pinned.contains (skey x) = false) :
    cCore ls cap s x =
      { s with nextEvict := sortedAdd ⟨nx, x.2.point, x.1⟩ (eraseKey s.nextEvict (skey x)),
               objs := csetDirty s.objs (skey x) x.2.wb } := by
  have hl' : alookup s.objs (x.1, x.2.point) = some d := hl
  have hp' : s.pinned.contains (x.1, x.2.point) = false := hp
  simp only [cCore, hn, hl', hp', skey, Option.isNone_some, Option.isNone_none, Bool.not_false, Bool.not_true, Bool.and_self, Bool.false_eq_true, if_false, if_true, Bool.and_false, Bool.and_true, Bool.false_and, Bool.true_and, Option.getD_some, Bool.not_eq_true']

theorem cCore_some_hit_pinned (ls : Nat) (cap : Option Nat) (s : CState) (x : Nat × Acc) {nx : List Nat}
    (hn : x.2.next = some nx) {d : Bool} (hl : alookup s.objs (skey x) = some d)
    (hp : s.pinned.contains (skey x) = true) :
    cCore ls cap s x = { s with objs := csetDirty s.objs (skey x) x.2.wb } := by
  have hl' : alookup s.objs (x.1, x.2.point) = some d := hl
  have hp' : s.pinned.contains (x.1, x.2.point) = true := hp
  simp only [cCore, hn, hl', hp', skey, Option.isNone_some, Option.isNone_none, Bool.not_false, Bool.not_true, Bool.and_self, Bool.false_eq_true, if_false, if_true, Bool.and_false, Bool.and_true, Bool.false_and, Bool.true_and, Option.getD_some, Bool.not_eq_true']

theorem cCore_some_miss (ls : Nat) (cap : Option Nat) (s : CState) (x : Nat × Acc) {nx : List Nat}
    (hn : x.2.next = some nx) (hl : alookup s.objs (skey x) = none)
    (hp : s.pinned.contains (skey x) = false) :
    cCore ls cap s x =
      if (capFits cap (s.occ + ls) || x.2.staging ||
          (match s.nextEvict.getLast? with
           | none => false
           | some far => (⟨nx, x.2.point, x.1⟩ : LElem).le far)) then
        cAdd ls cap s x.1 x.2 ⟨nx, x.2.point, x.1⟩
      else if x.2.wb then { s with writes := addAt s.writes x.1 ls } else s := by
  have hl' : alookup s.objs (x.1, x.2.point) = none := hl
  have hp' : s.pinned.contains (x.1, x.2.point) = false := hp
  simp only [cCore, hn, hl', hp', Option.isNone_some, Option.isNone_none, Bool.not_false, Bool.not_true, Bool.and_self, Bool.false_eq_true, if_false, if_true, Bool.and_false, Bool.and_true, Bool.false_and, Bool.true_and, Option.getD_some, Bool.not_eq_true']
  cases capFits cap (s.occ + ls) <;> cases x.2.staging <;> first | rfl | simp

theorem mem_eraseKey (l : List LElem) (k : CKey) (e : LElem) :
    e ∈ eraseKey l k ↔ e ∈ l ∧ (e.pos, e.obj) ≠ k := by
  simp [eraseKey, List.mem_filter]

theorem ssorted_eraseKey {l : List LElem} (k : CKey) (h : SSorted l) : SSorted (eraseKey l k) :=
  List.Pairwise.sublist List.filter_sublist h

theorem contains_filter_ne (l : List CKey) (k k' : CKey) :
    (l.filter (· ≠ k)).contains k' = (l.contains k' && decide (k' ≠ k)) := by
  induction l with
  | nil => simp
  | cons a t ih =>
    by_cases h : a = k
    · subst h
      by_cases h2 : k' = a
      · subst h2; simp [List.filter_cons, ih]
      · simp [List.filter_cons, ih, h2]
    · by_cases h2 : k' = a
      · subst h2; simp [List.filter_cons, h]
      · simp [List.filter_cons, h, ih, List.contains_cons, h2]

theorem find_none_of_nextAfter {k : CKey} {rest : Sched} (h : nextAfter k rest = none) :
    rest.find? (fun y => decide (skey y = k)) = none := by
  have := elemOf_isSome_iff rest k
  rw [h] at this
  unfold elemOf at this
  cases hf : rest.find? (fun y => decide (skey y = k)) with
  | none => rfl
  | some y => rw [hf] at this; simp at this

theorem find_some_of_nextAfter {k : CKey} {rest : Sched} {n : Nat} (h : nextAfter k rest = some n) :
    ∃ y, rest.find? (fun y => decide (skey y = k)) = some y := by
  have := elemOf_isSome_iff rest k
  rw [h] at this
  unfold elemOf at this
  cases hf : rest.find? (fun y => decide (skey y = k)) with
  | none => rw [hf] at this; simp at this
  | some y => exact ⟨y, rfl⟩

theorem crel_charge {ls : Nat} {s : CState} {r : RState} {x : Nat × Acc} {rest : Sched}
    (h : CRel ls s r (x :: rest)) : CRel ls (cCharge ls s x) (rCharge ls r x) (x :: rest) := by
  unfold cCharge rCharge
  have := h.hit_iff (x.1, x.2.point)
  rw [this]
  split
  · exact ⟨h.ok, h.pins, h.objs, h.nodup, h.idx, h.sorted, h.elems, h.occ,
      by show addAt s.reads x.1 ls = addAt r.reads x.1 ls; rw [h.reads], h.writes, h.over⟩
  · exact h

/-- one iteration of the main loop keeps the two simulators in step -/
theorem crel_core {ls : Nat} {cap : Option Nat} {s : CState} {r : RState} {x : Nat × Acc} {rest : Sched}
    (h : CRel ls s r (x :: rest)) (hnx : SNextOk (x :: rest)) (ho : SOrd (x :: rest)) :
    CRel ls (cCore ls cap s x) (rCore ls cap r x rest) rest := by
  have hk : skey x = (x.1, x.2.point) := rfl
  have hnext := hnx.1
  cases hhit : r.res.find? (fun en => decide (en.key = skey x)) with
  | none =>
    have hnew : alookup s.objs (skey x) = none := by rw [h.objs, hhit]; rfl
    have hnotres := h.not_resident hhit
    have hnp : s.pinned.contains (skey x) = false := h.not_pinned_of_not_resident hnotres
    have hsh : CRel ls s r rest := h.shift hnotres
    have hhit' : r.res.find? (fun e => decide (e.key = (x.1, x.2.point))) = none := hhit
    cases hna : nextAfter (skey x) rest with
    | none =>
      have hnn : x.2.next = none := by rw [hnext, find_none_of_nextAfter hna]; rfl
      have hna' : nextAfter (x.1, x.2.point) rest = none := hna
      rw [cCore_none_miss ls cap s x hnn hnew]
      simp only [rCore, hna', hhit']
      cases x.2.wb
      · exact hsh
      · exact ⟨hsh.ok, hsh.pins, hsh.objs, hsh.nodup, hsh.idx, hsh.sorted, hsh.elems, hsh.occ,
          hsh.reads, by show addAt s.writes x.1 ls = addAt r.writes x.1 ls; rw [hsh.writes], hsh.over⟩
    | some n =>
      obtain ⟨y, hy⟩ := find_some_of_nextAfter hna
      have hnn : x.2.next = some y.2.stamp := by rw [hnext, hy]; rfl
      have hle : elemOf rest (skey x) = some ⟨y.2.stamp, x.2.point, x.1⟩ := by
        simp only [elemOf, hy, Option.map_some]; rfl
      have hna' : nextAfter (x.1, x.2.point) rest = some n := hna
      rw [cCore_some_miss ls cap s x hnn hnew hnp]
      simp only [rCore, hna', hhit']
      have hfit : capFits cap (s.occ + ls) = capFits cap (ls * (r.res.length + 1)) := by
        rw [h.occ, Nat.mul_add]; simp
      have hworth : (match s.nextEvict.getLast? with
            | none => false
            | some far => (⟨y.2.stamp, x.2.point, x.1⟩ : LElem).le far)
          = (match furthest r.res with
            | none => false
            | some f => decide (f.nextIdx < n)) := by
        cases hl : s.nextEvict.getLast? with
        | none => rw [hsh.no_last hl]
        | some far =>
          obtain ⟨f, hf, hfm', hfp, hef⟩ := hsh.last_is_furthest ho.2 hl
          rw [hf]
          have hkne : skey x ≠ f.key := fun e => hnotres f hfm' e.symm
          obtain ⟨hd, h12⟩ := order_iso ho.2 hkne hle hef hna (hsh.idx f hfm')
          obtain ⟨_, h21⟩ := order_iso ho.2 (Ne.symm hkne) hef hle (hsh.idx f hfm') hna
          have hnk := order_iso_ne ho.2 hkne hle hef hna (hsh.idx f hfm')
          show (⟨y.2.stamp, x.2.point, x.1⟩ : LElem).le far = decide (f.nextIdx < n)
          by_cases hlt : f.nextIdx < n
          · have := h12 hlt
            rw [(LElem.le_iff hnk).2 (LElem.lt_asymm this)]; simp [hlt]
          · have hgt : n < f.nextIdx := by omega
            have := h21 hgt
            have hle_false : (⟨y.2.stamp, x.2.point, x.1⟩ : LElem).le far = false := by
              cases hc : (⟨y.2.stamp, x.2.point, x.1⟩ : LElem).le far
              · rfl
              · rw [(LElem.le_iff hnk).1 hc] at this; cases this
            rw [hle_false]; simp [hlt]
      rw [hfit, hworth]
      cases hdec : (capFits cap (ls * (r.res.length + 1)) || x.2.staging ||
          (match furthest r.res with
            | none => false
            | some f => decide (f.nextIdx < n)))
      · simp only [Bool.false_eq_true, if_false]
        cases x.2.wb
        · exact hsh
        · exact ⟨hsh.ok, hsh.pins, hsh.objs, hsh.nodup, hsh.idx, hsh.sorted, hsh.elems, hsh.occ,
            hsh.reads, by show addAt s.writes x.1 ls = addAt r.writes x.1 ls; rw [hsh.writes], hsh.over⟩
      · simp only [if_true]
        obtain ⟨hl1, hl2⟩ := evict_loops ls cap ho.2 (s.nextEvict.length + 1) (r.res.length + 1) s r hsh
          (Nat.le_refl _) (Nat.le_refl _)
        have hnotres' : ∀ en ∈ (refEvictLoop ls cap (r.res.length + 1) r).res, en.key ≠ skey x :=
          fun en hen => hnotres en (hl2 en hen)
        unfold cAdd
        simp only [hl1.ok, Option.isSome_none, Bool.false_eq_true, if_false]
        cases hst : x.2.staging
        · simp only [Bool.not_false, if_true]
          exact hl1.insert ho.2 hnotres' hna hle (d := x.2.wb) (pn := false)
            (by first | rfl | exact hl1.ok)
            (by intro k'; simp)
            (by intro k'; show alookup (ainsert _ (x.1, x.2.point) x.2.wb) k' = _
                rw [alookup_ainsert, hk])
            rfl rfl rfl rfl rfl
        · simp only [Bool.not_true, Bool.false_eq_true, if_false]
          exact hl1.insert ho.2 hnotres' hna hle (d := x.2.wb) (pn := true)
            (by first | rfl | exact hl1.ok)
            (by intro k'
                dsimp only
                split
                · rename_i hc
                  by_cases hkk : k' = skey x
                  · have hm : (x.1, x.2.point) ∈ (evictLoop ls cap (s.nextEvict.length + 1) s).pinned := by
                      simpa using hc
                    rw [hkk]; simp [hk, hm]
                  · simp [hkk]
                · by_cases hkk : k' = skey x
                  · rw [hkk]; simp [hk]
                  · have : ¬ (k' = (x.1, x.2.point)) := hkk
                    simp [List.contains_cons, hkk, this])
            (by intro k'; show alookup (ainsert _ (x.1, x.2.point) x.2.wb) k' = _
                rw [alookup_ainsert, hk])
            rfl rfl rfl rfl rfl
  | some en0 =>
    obtain ⟨hen0, hk0⟩ := h.resident hhit
    have hlook : alookup s.objs (skey x) = some en0.dirty := by rw [h.objs, hhit]; rfl
    have hhit' : r.res.find? (fun e => decide (e.key = (x.1, x.2.point))) = some en0 := hhit
    have hpc : s.pinned.contains (skey x) = en0.pinned := by rw [← hk0]; exact h.pinned_iff hen0
    have hfilter : (fun x_1 : REntry => decide (x_1.key ≠ (x.1, x.2.point)))
        = (fun en : REntry => decide (en.key ≠ en0.key)) := by rw [hk0]; rfl
    have hlenpos : ls ≤ s.occ := by
      rw [h.occ]
      cases hr : r.res with
      | nil => rw [hr] at hen0; cases hen0
      | cons _ _ => simp [Nat.mul_add]
    -- membership in the list after the line's own element has left it (if it had one)
    have hel : ∀ e, e ∈ (if s.pinned.contains (skey x) then s.nextEvict else eraseKey s.nextEvict (skey x))
        ↔ e ∈ s.nextEvict ∧ (e.pos, e.obj) ≠ en0.key := by
      intro e
      rw [hk0]
      cases hp : s.pinned.contains (skey x)
      · simp only [Bool.false_eq_true, if_false, mem_eraseKey]
      · simp only [if_true]
        constructor
        · intro he
          refine ⟨he, fun hke => ?_⟩
          obtain ⟨en, hen, hpn, hee⟩ := (h.elems e).1 he
          have : en.key = en0.key := (elemOf_key hee).symm.trans (hke.trans hk0.symm)
          rw [key_inj h.nodup hen hen0 this, ← hpc, hp] at hpn; cases hpn
        · exact fun he => he.1
    have hsorted' : SSorted (if s.pinned.contains (skey x) then s.nextEvict else eraseKey s.nextEvict (skey x)) := by
      split
      · exact h.sorted
      · exact ssorted_eraseKey _ h.sorted
    have hnotres : ∀ en ∈ (r.res.filter (fun en => decide (en.key ≠ en0.key))), en.key ≠ skey x := by
      intro en hen
      have := (List.mem_filter.1 hen).2
      rw [← hk0]; simpa using this
    cases hna : nextAfter (skey x) rest with
    | none =>
      have hnn : x.2.next = none := by rw [hnext, find_none_of_nextAfter hna]; rfl
      have hna' : nextAfter (x.1, x.2.point) rest = none := hna
      rw [cCore_none_hit ls cap s x hnn hlook]
      simp only [rCore, hna', hhit', hfilter]
      have hrem := h.remove hen0
        (s' := { s with nextEvict := (if s.pinned.contains (skey x) then s.nextEvict else eraseKey s.nextEvict (skey x)),
                        writes := (if (en0.dirty || x.2.wb) then addAt s.writes x.1 ls else s.writes),
                        objs := aerase s.objs (skey x), pinned := s.pinned.filter (· ≠ skey x),
                        occ := s.occ - ls })
        (W := (if (en0.dirty || x.2.wb) then addAt r.writes x.1 ls else r.writes))
        h.ok
        (by intro k'; rw [hk0]; exact contains_filter_ne _ _ _)
        (by intro k'; show alookup (aerase s.objs (skey x)) k' = _
            rw [alookup_aerase, hk0])
        hsorted' hel rfl rfl
        (by show (if (en0.dirty || x.2.wb) then addAt s.writes x.1 ls else s.writes) = _
            rw [h.writes])
        rfl
      exact hrem.shift hnotres
    | some n =>
      obtain ⟨y, hy⟩ := find_some_of_nextAfter hna
      have hnn : x.2.next = some y.2.stamp := by rw [hnext, hy]; rfl
      have hle : elemOf rest (skey x) = some ⟨y.2.stamp, x.2.point, x.1⟩ := by
        simp only [elemOf, hy, Option.map_some]; rfl
      have hna' : nextAfter (x.1, x.2.point) rest = some n := hna
      -- remove the line (abstractly), look at the rest of the sequence, bring it back re-keyed
      have hrem := h.remove hen0
        (s' := { s with nextEvict := (if s.pinned.contains (skey x) then s.nextEvict else eraseKey s.nextEvict (skey x)),
                        objs := aerase s.objs (skey x), pinned := s.pinned.filter (· ≠ skey x),
                        occ := s.occ - ls })
        (W := r.writes) h.ok
        (by intro k'; rw [hk0]; exact contains_filter_ne _ _ _)
        (by intro k'; show alookup (aerase s.objs (skey x)) k' = _
            rw [alookup_aerase, hk0])
        hsorted' hel rfl rfl h.writes rfl
      have hsh := hrem.shift hnotres
      have hobjs' : ∀ k', alookup (csetDirty s.objs (skey x) x.2.wb) k'
          = if skey x = k' then some (en0.dirty || x.2.wb) else alookup (aerase s.objs (skey x)) k' := by
        intro k'
        simp only [csetDirty, hlook, alookup_ainsert, alookup_aerase]
        by_cases hkk : skey x = k' <;> simp [hkk]
      cases hp : en0.pinned
      · have hpf : s.pinned.contains (skey x) = false := by rw [hpc, hp]
        rw [cCore_some_hit ls cap s x hnn hlook hpf]
        simp only [rCore, hna', hhit', hfilter, hp]
        have hins := hsh.insert ho.2 hnotres hna hle (d := en0.dirty || x.2.wb) (pn := false)
          (s' := { s with nextEvict := sortedAdd ⟨y.2.stamp, x.2.point, x.1⟩ (eraseKey s.nextEvict (skey x)),
                          objs := csetDirty s.objs (skey x) x.2.wb })
          h.ok
          (by intro k'
              show s.pinned.contains k' = ((s.pinned.filter (· ≠ skey x)).contains k' || _)
              rw [contains_filter_ne]
              by_cases hkk : k' = skey x
              · rw [hkk, hpf]; simp
              · simp [hkk])
          hobjs'
          (by show _ = if false = true then _ else sortedAdd _ (if s.pinned.contains (skey x) then _ else _)
              simp only [hpf, Bool.false_eq_true, if_false])
          (by show s.occ = s.occ - ls + ls; omega)
          rfl rfl rfl
        exact hins
      · have hpt : s.pinned.contains (skey x) = true := by rw [hpc, hp]
        rw [cCore_some_hit_pinned ls cap s x hnn hlook hpt]
        simp only [rCore, hna', hhit', hfilter, hp]
        have hins := hsh.insert ho.2 hnotres hna hle (d := en0.dirty || x.2.wb) (pn := true)
          (s' := { s with objs := csetDirty s.objs (skey x) x.2.wb })
          h.ok
          (by intro k'
              show s.pinned.contains k' = ((s.pinned.filter (· ≠ skey x)).contains k' || _)
              rw [contains_filter_ne]
              by_cases hkk : k' = skey x
              · rw [hkk, hpt]; simp
              · simp [hkk])
          hobjs'
          (by show s.nextEvict = if true = true then (if s.pinned.contains (skey x) then _ else _) else _
              simp only [hpt, if_true])
          (by show s.occ = s.occ - ls + ls; omega)
          rfl rfl rfl
        exact hins

/-! ### the executable hypotheses -/

theorem snextOk_of_B : ∀ {xs : Sched}, schedNextOkB xs = true → SNextOk xs
  | [], _ => trivial
  | x :: rest, h => by
    simp only [schedNextOkB, Bool.and_eq_true, decide_eq_true_eq] at h
    exact ⟨h.1, snextOk_of_B h.2⟩

theorem sord_of_B : ∀ {xs : Sched}, schedOrdB xs = true → SOrd xs
  | [], _ => trivial
  | x :: rest, h => by
    simp only [schedOrdB, Bool.and_eq_true, List.all_eq_true, Bool.not_eq_true', Bool.or_eq_true,
      Bool.and_eq_false_imp, decide_eq_true_eq, decide_eq_false_iff_not] at h
    refine ⟨?_, sord_of_B h.2⟩
    intro y hy
    obtain ⟨h1, h2⟩ := h.1 y hy
    refine ⟨h1, ?_⟩
    rintro ⟨k1, k2⟩
    rcases h2 with h2 | h2
    · exact absurd k2 (h2 k1)
    · exact h2

end Traffic
end Ft
