/-
  C06 helper lemmas, part 5: `splitUniform` (halo 0, absolute coordinates; FtModel.Split / C08)
  produces the tiled operand: value at (.., x1, x0, ..) = value at (.., x0, ..) if x1 is the tile
  of x0, and 0 elsewhere.
-/
import FtProofs.Lemmas.KernelTile
import FtProofs.C08
set_option linter.unusedSectionVars false
set_option linter.unusedSimpArgs false
set_option linter.unusedVariables false
namespace Ft.C06
open Ft StrictTotal

/-- the multiple of `step` below `c` is the only multiple `P` with `P ≤ c < P + step` -/
theorem tile_unique (step P c : Int) (hs : 0 < step) (hd : step ∣ P) (h1 : P ≤ c) (h2 : c < P + step) :
    P = tileOf step c := by
  obtain ⟨k, rfl⟩ := hd
  unfold tileOf
  have hne : step ≠ 0 := by omega
  have : c = (c - step * k) + k * step := by rw [Int.mul_comm k step]; omega
  rw [this, Int.add_mul_ediv_right _ _ hne, Int.ediv_eq_zero_of_lt (by omega) (by omega)]
  rw [Int.zero_add, Int.mul_comm]

theorem tile_le (step c : Int) (hs : 0 < step) : tileOf step c ≤ c ∧ c < tileOf step c + step := by
  unfold tileOf
  have h1 := Int.emod_nonneg c (b := step) (by omega)
  have h2 := Int.emod_lt_of_pos c hs
  have h3 := Int.emod_def c step
  rw [Int.mul_comm] at h3
  constructor <;> omega

theorem tile_dvd (step c : Int) : step ∣ tileOf step c := ⟨c / step, by unfold tileOf; rw [Int.mul_comm]⟩

theorem val_cons_some {κ ν : Type} [DecidableEq κ] (dflt : ν) (d : Nat) (f : Tree κ ν (d + 1)) (c : κ) (cs : List κ)
    (s : Tree κ ν d) (h : lookup (show List (κ × Tree κ ν d) from f) c = some s) :
    val dflt (d + 1) f (c :: cs) = val dflt d s cs := by
  simp only [val]; rw [h]

theorem val_cons_none {κ ν : Type} [DecidableEq κ] (dflt : ν) (d : Nat) (f : Tree κ ν (d + 1)) (c : κ) (cs : List κ)
    (h : lookup (show List (κ × Tree κ ν d) from f) c = none) :
    val dflt (d + 1) f (c :: cs) = dflt := by
  simp only [val]; rw [h]

section
variable (step as ae : Int) (hs : 0 < step) (hact : as < ae)
include hs hact

/-- one fiber: the split of `f`, read as a function of (upper, lower, rest) -/
theorem splitFiber_val (d : Nat) (f : Tree Int Int (d + 1)) (hw : Ft.WF (d + 1) f)
    (hin : ∀ e ∈ (show List (Int × Tree Int Int d) from f), as ≤ e.1 ∧ e.1 < ae)
    (r : Tree Int Int (d + 2))
    (hr : splitFiber { op := .uniform step, act := some (as, ae) } (0 : Int) d f = some r)
    (x1 x0 : Int) (q : List Int) (hq : q.length = d) :
    val (0 : Int) (d + 2) r (x1 :: x0 :: q) =
      if x1 = tileOf step x0 then val (0 : Int) (d + 1) f (x0 :: q) else 0 := by
  -- the split is the specified one
  have hE : Sorted (present (0 : Int) d f) := present_sorted hw.sorted
  have hspec := uniform_spec step 0 0 as ae false (present (0 : Int) d f) hs hact (Int.le_refl 0) (Int.le_refl 0) hE
  have hr' : r = partsTree d (uSpec step 0 0 as ae false (present (0 : Int) d f)) := by
    unfold splitFiber splitFiberParts effActive splitIterOn presentFmt at hr
    simp only [Bool.false_eq_true, if_false] at hr
    rw [hspec] at hr
    simpa using hr.symm
  -- the upper fiber, as an association list
  let bucket := fun P : Int => (present (0 : Int) d f).filter (fun e => uMemb step 0 0 as ae P e.1)
  have hrl : (show List (Int × Tree Int Int (d + 1)) from r) =
      (uSpec step 0 0 as ae false (present (0 : Int) d f)).map (fun p => (p.start, (show Tree Int Int (d + 1) from p.elems))) := by
    rw [hr']; rfl
  have hrs : Sorted (show List (Int × Tree Int Int (d + 1)) from r) := by
    rw [hrl]
    unfold Sorted
    rw [List.pairwise_map]
    have := upper_ascending step 0 0 as ae false (present (0 : Int) d f) hs
    rw [List.pairwise_map] at this
    exact this
  have hlk_some : ∀ P, P ∈ uCands step as ae → bucket P ≠ [] →
      lookup (show List (Int × Tree Int Int (d + 1)) from r) P = some (show Tree Int Int (d + 1) from bucket P) := by
    intro P hP hb
    have hmem : (⟨P, bucket P, max P as, min (P + step) ae⟩ : Part (Tree Int Int d)) ∈
        uSpec step 0 0 as ae false (present (0 : Int) d f) :=
      (mem_uSpec step 0 0 as ae false _ _).2 ⟨P, hP, hb, by simp [mkPart, bucket]⟩
    have : (P, (show Tree Int Int (d + 1) from bucket P)) ∈ (show List (Int × Tree Int Int (d + 1)) from r) := by
      rw [hrl]
      exact List.mem_map.2 ⟨_, hmem, rfl⟩
    exact lookup_of_sorted_mem hrs this
  have hlk_any : ∀ P s, lookup (show List (Int × Tree Int Int (d + 1)) from r) P = some s →
      P ∈ uCands step as ae ∧ s = (show Tree Int Int (d + 1) from bucket P) := by
    intro P s hl
    have hm := lookup_mem hl
    rw [hrl] at hm
    obtain ⟨p, hp, hpe⟩ := List.mem_map.1 hm
    obtain ⟨P', hP', _, rfl⟩ := (mem_uSpec step 0 0 as ae false _ _).1 hp
    have e1 : P' = P := congrArg Prod.fst hpe
    have e2 := congrArg Prod.snd hpe
    subst e1
    exact ⟨hP', e2.symm⟩
  -- lookup inside a bucket
  have hbl : ∀ P c, lookup (bucket P) c =
      (lookup (show List (Int × Tree Int Int d) from f) c).bind
        (fun s => if isEmpty (0 : Int) d s then none else if uMemb step 0 0 as ae P c then some s else none) := by
    intro P c
    show lookup ((present (0 : Int) d f).filter _) c = _
    rw [lookup_filter_sorted hE, lookup_present f hw.sorted]
    cases lookup (show List (Int × Tree Int Int d) from f) c with
    | none => rfl
    | some s =>
      simp only [Option.bind_some]
      cases isEmpty (0 : Int) d s <;> simp
  -- evaluate both sides
  have lhs_none : lookup (show List (Int × Tree Int Int (d + 1)) from r) x1 = none →
      val (0 : Int) (d + 2) r (x1 :: x0 :: q) = 0 := fun h => val_cons_none (0 : Int) (d + 1) r x1 _ h
  have lhs_some : ∀ s, lookup (show List (Int × Tree Int Int (d + 1)) from r) x1 = some s →
      val (0 : Int) (d + 2) r (x1 :: x0 :: q) =
        ((lookup (bucket x1) x0).map (fun s => val (0 : Int) d s q)).getD 0 := by
    intro s hl
    obtain ⟨_, hsb⟩ := hlk_any x1 s hl
    rw [val_cons_some (0 : Int) (d + 1) r x1 _ s hl, hsb]
    cases hb : lookup (bucket x1) x0 with
    | none => exact val_cons_none (0 : Int) d (show Tree Int Int (d + 1) from bucket x1) x0 q hb
    | some s' => exact val_cons_some (0 : Int) d (show Tree Int Int (d + 1) from bucket x1) x0 q s' hb
  cases hf : lookup (show List (Int × Tree Int Int d) from f) x0 with
  | none =>
    rw [val_cons_none (0 : Int) d f x0 q hf]
    simp only [ite_self]
    cases hl : lookup (show List (Int × Tree Int Int (d + 1)) from r) x1 with
    | none => exact lhs_none hl
    | some s => rw [lhs_some s hl, hbl, hf]; rfl
  | some s0 =>
    rw [val_cons_some (0 : Int) d f x0 q s0 hf]
    have hws0 : Ft.WF d s0 := hw.sub _ (lookup_mem hf)
    have hx0 := hin _ (lookup_mem hf)
    by_cases hem : isEmpty (0 : Int) d s0 = true
    · -- an empty element is not presented, and reads as 0 anyway
      have hz : val (0 : Int) d s0 q = 0 := val_of_isEmpty s0 hws0 hem q hq
      simp only [hz, ite_self]
      cases hl : lookup (show List (Int × Tree Int Int (d + 1)) from r) x1 with
      | none => exact lhs_none hl
      | some s => rw [lhs_some s hl, hbl, hf]; simp [hem]
    · have hem' : isEmpty (0 : Int) d s0 = false := by simpa using hem
      by_cases hx : x1 = tileOf step x0
      · rw [if_pos hx]
        obtain ⟨t1, t2⟩ := tile_le step x0 hs
        have hP : x1 ∈ uCands step as ae := by
          rw [mem_uCands step as ae hs, hx]
          exact ⟨tile_dvd step x0, by omega, by omega⟩
        have hum : uMemb step 0 0 as ae x1 x0 = true := by
          simp only [uMemb, inWindow, Bool.and_eq_true, decide_eq_true_eq]
          rw [hx]; omega
        have hb : bucket x1 ≠ [] := by
          intro hnil
          have := hbl x1 x0
          rw [hnil, hf] at this
          simp [hem', hum, lookup] at this
        rw [lhs_some _ (hlk_some x1 hP hb), hbl, hf]; simp [hem', hum]
      · rw [if_neg hx]
        cases hl : lookup (show List (Int × Tree Int Int (d + 1)) from r) x1 with
        | none => exact lhs_none hl
        | some s =>
          obtain ⟨hP, _⟩ := hlk_any x1 s hl
          have hum : uMemb step 0 0 as ae x1 x0 = false := by
            cases hu : uMemb step 0 0 as ae x1 x0 with
            | false => rfl
            | true =>
              exfalso
              simp only [uMemb, inWindow, Bool.and_eq_true, decide_eq_true_eq] at hu
              have hd := ((mem_uCands step as ae hs x1).1 hP).1
              exact hx (tile_unique step x1 x0 hs hd (by omega) (by omega))
          rw [lhs_some s hl, hbl, hf]; simp [hem', hum]

/-- the split at depth `k` -/
theorem splitAt_val (U : List Int) (hUr : ∀ x ∈ U, as ≤ x ∧ x < ae) (d : Nat) :
    ∀ (k : Nat) (t : Tree Int Int (d + 1 + k)) (r : Tree Int Int (d + 2 + k)),
      Ft.WF (d + 1 + k) t → coordsInB U (d + 1 + k) t = true →
      splitAt { op := .uniform step, act := some (as, ae) } (0 : Int) d k t = some r →
      ∀ (p : List Int), p.length = k → ∀ (x1 x0 : Int) (q : List Int), q.length = d →
        val (0 : Int) (d + 2 + k) r (p ++ x1 :: x0 :: q) =
          if x1 = tileOf step x0 then val (0 : Int) (d + 1 + k) t (p ++ x0 :: q) else 0
  | 0, t, r, hw, hin, hr, p, hp, x1, x0, q, hq => by
    have : p = [] := List.length_eq_zero_iff.1 hp
    subst this
    simp only [List.nil_append]
    apply splitFiber_val step as ae hs hact d t hw _ r hr x1 x0 q hq
    intro e he
    exact hUr _ (coordsIn_sub hin he).1
  | k + 1, t, r, hw, hin, hr, p, hp, x1, x0, q, hq => by
    cases p with
    | nil => cases hp
    | cons c p' =>
      have hp' : p'.length = k := by simpa using hp
      unfold splitAt at hr
      cases hm : mapM? (fun e => (splitAt { op := .uniform step, act := some (as, ae) } (0 : Int) d k e.2).map (fun t => (e.1, t)))
          (show List (Int × Tree Int Int (d + 1 + k)) from t) with
      | none => rw [hm] at hr; cases hr
      | some l =>
        rw [hm] at hr
        have hrl : r = l := (Option.some.inj hr).symm
        subst hrl
        have hl := lookup_mapM? (splitAt { op := .uniform step, act := some (as, ae) } (0 : Int) d k) c _ _ hm
        simp only [List.cons_append, val]
        rw [hl]
        cases hlk : lookup (show List (Int × Tree Int Int (d + 1 + k)) from t) c with
        | none => simp
        | some s =>
          simp only [Option.bind_some]
          have hmem := lookup_mem hlk
          cases hs' : splitAt { op := .uniform step, act := some (as, ae) } (0 : Int) d k s with
          | none =>
            exfalso
            exact mapM?_some_of_mem (splitAt { op := .uniform step, act := some (as, ae) } (0 : Int) d k) _ _ hm
              (c, s) hmem hs'
          | some r' =>
            exact splitAt_val U hUr d k s r' (hw.sub _ hmem) (coordsIn_sub hin hmem).2 hs' p' hp' x1 x0 q hq

/-- the split tree is well-formed and stays inside a universe that is closed under the tile map -/
theorem splitFiber_ok (U : List Int) (hUr : ∀ x ∈ U, as ≤ x ∧ x < ae) (htile : ∀ x ∈ U, tileOf step x ∈ U)
    (d : Nat) (f : Tree Int Int (d + 1)) (hw : Ft.WF (d + 1) f) (hin : coordsInB U (d + 1) f = true)
    (r : Tree Int Int (d + 2))
    (hr : splitFiber { op := .uniform step, act := some (as, ae) } (0 : Int) d f = some r) :
    Ft.WF (d + 2) r ∧ coordsInB U (d + 2) r = true := by
  have hE : Sorted (present (0 : Int) d f) := present_sorted hw.sorted
  have hspec := uniform_spec step 0 0 as ae false (present (0 : Int) d f) hs hact (Int.le_refl 0) (Int.le_refl 0) hE
  have hr' : r = partsTree d (uSpec step 0 0 as ae false (present (0 : Int) d f)) := by
    unfold splitFiber splitFiberParts effActive splitIterOn presentFmt at hr
    simp only [Bool.false_eq_true, if_false] at hr
    rw [hspec] at hr
    simpa using hr.symm
  have hrl : (show List (Int × Tree Int Int (d + 1)) from r) =
      (uSpec step 0 0 as ae false (present (0 : Int) d f)).map (fun p => (p.start, (show Tree Int Int (d + 1) from p.elems))) := by
    rw [hr']; rfl
  have hrs : Sorted (show List (Int × Tree Int Int (d + 1)) from r) := by
    rw [hrl]
    unfold Sorted
    rw [List.pairwise_map]
    have := upper_ascending step 0 0 as ae false (present (0 : Int) d f) hs
    rw [List.pairwise_map] at this
    exact this
  -- every element of the upper fiber is (P, bucket P) for a candidate P with a non-empty bucket
  have helem : ∀ e ∈ (show List (Int × Tree Int Int (d + 1)) from r), ∃ P, P ∈ uCands step as ae ∧
      (present (0 : Int) d f).filter (fun x => uMemb step 0 0 as ae P x.1) ≠ [] ∧ e.1 = P ∧
      (show List (Int × Tree Int Int d) from e.2) = (present (0 : Int) d f).filter (fun x => uMemb step 0 0 as ae P x.1) := by
    intro e he
    rw [hrl] at he
    obtain ⟨p, hp, rfl⟩ := List.mem_map.1 he
    obtain ⟨P, hP, hne, rfl⟩ := (mem_uSpec step 0 0 as ae false _ _).1 hp
    exact ⟨P, hP, hne, rfl, rfl⟩
  have hbucket : ∀ P, ∀ x ∈ (present (0 : Int) d f).filter (fun x => uMemb step 0 0 as ae P x.1),
      x ∈ (show List (Int × Tree Int Int d) from f) ∧ uMemb step 0 0 as ae P x.1 = true := by
    intro P x hx
    obtain ⟨h1, h2⟩ := List.mem_filter.1 hx
    exact ⟨(mem_present.1 h1).1, h2⟩
  constructor
  · refine ⟨hrs, ?_⟩
    intro e he
    obtain ⟨P, _, _, _, he2⟩ := helem e he
    show Sorted (show List (Int × Tree Int Int d) from e.2) ∧ _
    rw [he2]
    exact ⟨sorted_filter hE _, fun x hx => hw.sub x (hbucket P x hx).1⟩
  · show (show List (Int × Tree Int Int (d + 1)) from r).all _ = true
    rw [List.all_eq_true]
    intro e he
    obtain ⟨P, hP, hne, he1, he2⟩ := helem e he
    rw [Bool.and_eq_true, List.contains_iff_mem]
    constructor
    · -- the upper coordinate is the tile of any element of its bucket
      cases hb : (present (0 : Int) d f).filter (fun x => uMemb step 0 0 as ae P x.1) with
      | nil => exact absurd hb hne
      | cons x _ =>
        obtain ⟨hxf, hxm⟩ := hbucket P x (by rw [hb]; exact List.mem_cons_self ..)
        simp only [uMemb, inWindow, Bool.and_eq_true, decide_eq_true_eq] at hxm
        have hd := ((mem_uCands step as ae hs P).1 hP).1
        rw [he1, tile_unique step P x.1 hs hd (by omega) (by omega)]
        exact htile _ (coordsIn_sub hin hxf).1
    · show (show List (Int × Tree Int Int d) from e.2).all _ = true
      rw [he2, List.all_eq_true]
      intro x hx
      obtain ⟨h1, h2⟩ := coordsIn_sub hin (hbucket P x hx).1
      rw [Bool.and_eq_true, List.contains_iff_mem]
      exact ⟨h1, h2⟩

theorem splitAt_ok (U : List Int) (hUr : ∀ x ∈ U, as ≤ x ∧ x < ae) (htile : ∀ x ∈ U, tileOf step x ∈ U)
    (d : Nat) : ∀ (k : Nat) (t : Tree Int Int (d + 1 + k)) (r : Tree Int Int (d + 2 + k)),
      Ft.WF (d + 1 + k) t → coordsInB U (d + 1 + k) t = true →
      splitAt { op := .uniform step, act := some (as, ae) } (0 : Int) d k t = some r →
      Ft.WF (d + 2 + k) r ∧ coordsInB U (d + 2 + k) r = true
  | 0, t, r, hw, hin, hr => splitFiber_ok step as ae hs hact U hUr htile d t hw hin r hr
  | k + 1, t, r, hw, hin, hr => by
    unfold splitAt at hr
    cases hm : mapM? (fun e => (splitAt { op := .uniform step, act := some (as, ae) } (0 : Int) d k e.2).map (fun t => (e.1, t)))
        (show List (Int × Tree Int Int (d + 1 + k)) from t) with
    | none => rw [hm] at hr; cases hr
    | some l =>
      rw [hm] at hr
      have hrl : r = (show Tree Int Int (d + 2 + (k + 1)) from l) := (Option.some.inj hr).symm
      rw [hrl]
      have hkeys := keys_mapM? (splitAt { op := .uniform step, act := some (as, ae) } (0 : Int) d k) _ _ hm
      have hsorted : Sorted l := by
        have h0 : Sorted (show List (Int × Tree Int Int (d + 1 + k)) from t) := hw.sorted
        unfold Sorted at h0 ⊢
        have h1 : ((show List (Int × Tree Int Int (d + 1 + k)) from t).map (·.1)).Pairwise (· < ·) := by
          rw [List.pairwise_map]; exact h0
        rw [← hkeys, List.pairwise_map] at h1
        exact h1
      -- every element of the result is the split of the element of `t` with the same coordinate
      have hsub : ∀ e ∈ l, ∃ s,
          (e.1, s) ∈ (show List (Int × Tree Int Int (d + 1 + k)) from t) ∧
          splitAt { op := .uniform step, act := some (as, ae) } (0 : Int) d k s = some e.2 := by
        intro e he
        have h1 := lookup_of_sorted_mem hsorted he
        rw [lookup_mapM? (splitAt { op := .uniform step, act := some (as, ae) } (0 : Int) d k) e.1 _ _ hm] at h1
        cases hl : lookup (show List (Int × Tree Int Int (d + 1 + k)) from t) e.1 with
        | none => rw [hl] at h1; cases h1
        | some s =>
          rw [hl] at h1
          exact ⟨s, lookup_mem hl, h1⟩
      constructor
      · refine ⟨hsorted, ?_⟩
        intro e he
        obtain ⟨s, hs1, hs2⟩ := hsub e he
        exact (splitAt_ok U hUr htile d k s e.2 (hw.sub _ hs1) (coordsIn_sub hin hs1).2 hs2).1
      · show l.all _ = true
        rw [List.all_eq_true]
        intro e he
        obtain ⟨s, hs1, hs2⟩ := hsub e he
        rw [Bool.and_eq_true, List.contains_iff_mem]
        exact ⟨(coordsIn_sub hin hs1).1,
          (splitAt_ok U hUr htile d k s e.2 (hw.sub _ hs1) (coordsIn_sub hin hs1).2 hs2).2⟩

end

/-! ### cursors built from trees of a given depth -/

section
variable {κ : Type}

def Cur.ofTree (ranks : List Nat) (d : Nat) (h : ranks.length = d) (t : Tree κ Int d) : Cur κ :=
  ⟨ranks, h ▸ t⟩

theorem cval_ofTree [DecidableEq κ] (ranks : List Nat) : ∀ (d : Nat) (h : ranks.length = d) (t : Tree κ Int d)
    (σ : Nat → κ), cval (Cur.ofTree ranks d h t) σ = val (0 : Int) d t (ranks.map σ) := by
  intro d h
  subst h
  intro t σ
  rfl

theorem wf_ofTree [LT κ] (ranks : List Nat) : ∀ (d : Nat) (h : ranks.length = d) (t : Tree κ Int d),
    Ft.WF d t → Ft.WF (Cur.ofTree ranks d h t).ranks.length (Cur.ofTree ranks d h t).t := by
  intro d h
  subst h
  intro t ht
  exact ht

theorem in_ofTree [DecidableEq κ] [LT κ] [DecidableRel (α := κ) (· < ·)] (U : List κ) (ranks : List Nat) :
    ∀ (d : Nat) (h : ranks.length = d) (t : Tree κ Int d),
    coordsInB U d t = true → coordsInB U (Cur.ofTree ranks d h t).ranks.length (Cur.ofTree ranks d h t).t = true := by
  intro d h
  subst h
  intro t ht
  exact ht

end

/-- **`splitUniform` tiles the operand**: splitting rank `v` (at depth `pre.length`) of an operand
    whose coordinates lie inside the active range gives the `Tiled` operand with ranks
    `pre ++ [v1, v] ++ post` -/
theorem splitUniform_tiled (step as ae : Int) (hs : 0 < step) (hact : as < ae) (U : List Int)
    (hUr : ∀ x ∈ U, as ≤ x ∧ x < ae) (pre post : List Nat) (v v1 : Nat)
    (t : Tree Int Int (post.length + 1 + pre.length)) (r : Tree Int Int (post.length + 2 + pre.length))
    (hw : Ft.WF _ t) (hin : coordsInB U _ t = true)
    (hr : splitAt { op := .uniform step, act := some (as, ae) } (0 : Int) post.length pre.length t = some r) :
    Tiled step v v1
      (Cur.ofTree (pre ++ v :: post) (post.length + 1 + pre.length) (by simp; omega) t)
      (Cur.ofTree (pre ++ v1 :: v :: post) (post.length + 2 + pre.length) (by simp; omega) r) := by
  intro σ
  rw [cval_ofTree, cval_ofTree]
  simp only [List.map_append, List.map_cons]
  exact splitAt_val step as ae hs hact U hUr post.length pre.length t r hw hin hr (pre.map σ) (by simp)
    (σ v1) (σ v) (post.map σ) (by simp)

end Ft.C06
