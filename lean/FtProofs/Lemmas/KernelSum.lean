/-
  C06 helper lemmas, part 1: finite sums over coordinate universes, assignments, products.
  (Mathlib-free.)
-/
import FtModel.Kernel
import FtProofs.Lemmas.Sorted
import FtProofs.Lemmas.Merge
set_option linter.unusedSectionVars false
set_option linter.unusedSimpArgs false
set_option linter.unusedVariables false
namespace Ft.C06
open Ft StrictTotal

/-! ### products -/

theorem prodL_append (a b : List Int) : prodL (a ++ b) = prodL a * prodL b := by
  induction a with
  | nil => simp [prodL]
  | cons x r ih => simp [prodL, ih, Int.mul_assoc]

theorem prodL_zero_of_mem {l : List Int} (h : (0 : Int) ∈ l) : prodL l = 0 := by
  induction l with
  | nil => cases h
  | cons x r ih =>
    rcases List.mem_cons.1 h with h | h
    · subst h; simp [prodL]
    · simp [prodL, ih h]

/-- a product is split along any predicate -/
theorem prodL_filter_split {α : Type} (f : α → Int) (p : α → Bool) (l : List α) :
    prodL (l.map f) = prodL ((l.filter p).map f) * prodL ((l.filter (fun x => !p x)).map f) := by
  induction l with
  | nil => simp [prodL]
  | cons x r ih =>
    by_cases hp : p x = true
    · simp only [List.map_cons, prodL, List.filter_cons, hp, if_true, Bool.not_true, Bool.false_eq_true, if_false]
      rw [ih, Int.mul_assoc]
    · have hp' : p x = false := by simpa using hp
      simp only [List.map_cons, prodL, List.filter_cons, hp', Bool.false_eq_true, if_false, Bool.not_false, if_true]
      rw [ih, ← Int.mul_assoc, ← Int.mul_assoc, Int.mul_comm (f x)]

/-! ### list sums -/

theorem sum_map_zero {α : Type} (l : List α) (f : α → Int) (h : ∀ x ∈ l, f x = 0) : (l.map f).sum = 0 := by
  induction l with
  | nil => rfl
  | cons x r ih =>
    simp only [List.map_cons, List.sum_cons, h x (List.mem_cons_self ..), Int.zero_add]
    exact ih (fun y hy => h y (List.mem_cons_of_mem _ hy))

theorem sum_map_congr {α : Type} (l : List α) (f g : α → Int) (h : ∀ x ∈ l, f x = g x) :
    (l.map f).sum = (l.map g).sum := by
  induction l with
  | nil => rfl
  | cons x r ih =>
    simp only [List.map_cons, List.sum_cons, h x (List.mem_cons_self ..)]
    rw [ih (fun y hy => h y (List.mem_cons_of_mem _ hy))]

theorem sum_map_add {α : Type} (l : List α) (f g : α → Int) :
    (l.map (fun x => f x + g x)).sum = (l.map f).sum + (l.map g).sum := by
  induction l with
  | nil => rfl
  | cons x r ih => simp only [List.map_cons, List.sum_cons, ih]; omega

/-- nested sums over two lists commute -/
theorem sum_comm {α β : Type} (l₁ : List α) (l₂ : List β) (f : α → β → Int) :
    (l₁.map (fun a => (l₂.map (fun b => f a b)).sum)).sum =
    (l₂.map (fun b => (l₁.map (fun a => f a b)).sum)).sum := by
  induction l₁ with
  | nil => simp [sum_map_zero]
  | cons a r ih =>
    simp only [List.map_cons, List.sum_cons, ih]
    rw [← sum_map_add]

section
variable {κ : Type} [LT κ] [DecidableRel (α := κ) (· < ·)] [DecidableEq κ] [StrictTotal κ]

/-- strictly ascending list of coordinates (the universe of a rank) -/
def Asc (U : List κ) : Prop := U.Pairwise (· < ·)

theorem Asc.tail {u : κ} {U : List κ} (h : Asc (u :: U)) : Asc U := (List.pairwise_cons.1 h).2
theorem Asc.head_lt {u : κ} {U : List κ} (h : Asc (u :: U)) : ∀ x ∈ U, u < x := (List.pairwise_cons.1 h).1

/-- **support lemma**: a sum over the universe of a function that vanishes outside the keys of a
    sorted list `rows ⊆ U` is the sum over `rows` -/
theorem sum_support {π : Type} (G : κ → Int) :
    ∀ (U : List κ) (rows : Fib κ π), Asc U → Sorted rows → (∀ r ∈ rows, r.1 ∈ U) →
      (∀ c ∈ U, ¬ HasKey rows c → G c = 0) →
      (U.map G).sum = (rows.map (fun r => G r.1)).sum
  | [], [], _, _, _, _ => rfl
  | [], r :: _, _, _, hk, _ => by cases hk r (List.mem_cons_self ..)
  | u :: U, [], hU, _, _, h0 => by
    simp only [List.map_nil, List.sum_nil]
    exact sum_map_zero _ _ (fun c hc => h0 c hc (not_hasKey_nil c))
  | u :: U, r :: rows, hU, hs, hk, h0 => by
    by_cases hur : u = r.1
    · -- the head of the universe is the first row
      simp only [List.map_cons, List.sum_cons, hur]
      congr 1
      apply sum_support G U rows hU.tail hs.tail
      · intro x hx
        have hlt : r.1 < x.1 := hs.head_lt x hx
        rcases List.mem_cons.1 (hk x (List.mem_cons_of_mem _ hx)) with h | h
        · rw [h, hur] at hlt; exact absurd hlt (irrefl _)
        · exact h
      · intro c hc hn
        apply h0 c (List.mem_cons_of_mem _ hc)
        intro hk'
        rcases hasKey_cons.1 hk' with h | h
        · have : u < c := hU.head_lt c hc
          rw [hur, h] at this; exact irrefl _ this
        · exact hn h
    · -- the head of the universe is below every row: it contributes nothing
      have hru : r.1 ∈ U := by
        rcases List.mem_cons.1 (hk r (List.mem_cons_self ..)) with h | h
        · exact absurd h.symm hur
        · exact h
      have hlt : u < r.1 := hU.head_lt _ hru
      have hG : G u = 0 := by
        apply h0 u (List.mem_cons_self ..)
        intro hk'
        rcases hasKey_cons.1 hk' with h | h
        · exact hur h.symm
        · have := hs.lt_of_hasKey h
          exact lt_asymm' hlt this
      simp only [List.map_cons (l := U), List.sum_cons, hG, Int.zero_add]
      apply sum_support G U (r :: rows) hU.tail hs
      · intro x hx
        rcases List.mem_cons.1 (hk x hx) with h | h
        · exfalso
          rcases List.mem_cons.1 hx with h' | h'
          · rw [h'] at h; exact hur h.symm
          · have h1 : r.1 < x.1 := hs.head_lt x h'
            rw [h] at h1
            exact lt_asymm' hlt h1
        · exact h
      · intro c hc hn
        exact h0 c (List.mem_cons_of_mem _ hc) hn

/-- a sum over the universe of a function supported at one point -/
theorem sum_single (G : κ → Int) (U : List κ) (hU : Asc U) (c : κ) (hc : c ∈ U)
    (h0 : ∀ x ∈ U, x ≠ c → G x = 0) : (U.map G).sum = G c := by
  have := sum_support (π := Unit) G U [(c, ())] hU (List.pairwise_singleton _ _)
    (fun r hr => by rw [List.mem_singleton.1 hr]; exact hc)
    (fun x hx hn => h0 x hx (fun e => hn ⟨(c, ()), List.mem_singleton.2 rfl, e.symm⟩))
  simpa using this

/-! ### assignments and `esum` -/

theorem upd_same (σ : Nat → κ) (v : Nat) (c : κ) : upd σ v c v = c := by simp [upd]
theorem upd_ne (σ : Nat → κ) {v w : Nat} (c : κ) (h : w ≠ v) : upd σ v c w = σ w := by simp [upd, h]

theorem upd_comm (σ : Nat → κ) {a b : Nat} (x y : κ) (h : a ≠ b) :
    upd (upd σ a x) b y = upd (upd σ b y) a x := by
  funext w
  unfold upd
  by_cases h1 : w = b
  · by_cases h2 : w = a
    · exact absurd (h2.symm.trans h1) h
    · subst h1; simp [h2]
  · by_cases h2 : w = a
    · subst h2; simp [h1]
    · simp [h1, h2]

theorem esum_zero (U : List κ) : ∀ (vs : List Nat) (σ : Nat → κ), esum U vs (fun _ => 0) σ = 0
  | [], _ => rfl
  | v :: vs, σ => by
    simp only [esum]
    exact sum_map_zero _ _ (fun c _ => esum_zero U vs _)

/-- `esum` only looks at assignments that agree with the start outside the summed variables -/
theorem esum_congr (U : List κ) : ∀ (vs : List Nat) (F G : (Nat → κ) → Int) (σ0 : Nat → κ),
    (∀ σ, (∀ w, w ∉ vs → σ w = σ0 w) → F σ = G σ) → esum U vs F σ0 = esum U vs G σ0
  | [], F, G, σ0, h => h σ0 (fun _ _ => rfl)
  | v :: vs, F, G, σ0, h => by
    simp only [esum]
    apply sum_map_congr
    intro c _
    apply esum_congr U vs F G
    intro σ hσ
    apply h
    intro w hw
    have h1 : w ≠ v := fun e => hw (e ▸ List.mem_cons_self ..)
    have h2 : w ∉ vs := fun e => hw (List.mem_cons_of_mem _ e)
    rw [hσ w h2, upd_ne _ _ h1]

theorem esum_eq_zero (U : List κ) (vs : List Nat) (F : (Nat → κ) → Int) (σ0 : Nat → κ)
    (h : ∀ σ, (∀ w, w ∉ vs → σ w = σ0 w) → F σ = 0) : esum U vs F σ0 = 0 := by
  rw [esum_congr U vs F (fun _ => 0) σ0 h, esum_zero]

/-- the start assignment is irrelevant on the summed variables and wherever `F` does not look -/
theorem esum_start (U : List κ) : ∀ (vs : List Nat) (F : (Nat → κ) → Int) (σ0 σ1 : Nat → κ),
    (∀ σ τ, (∀ w, w ∈ vs → σ w = τ w) → (∀ w, w ∉ vs → σ w = σ0 w) → (∀ w, w ∉ vs → τ w = σ1 w) → F σ = F τ) →
    esum U vs F σ0 = esum U vs F σ1
  | [], F, σ0, σ1, h => h σ0 σ1 (fun _ hw => by cases hw) (fun _ _ => rfl) (fun _ _ => rfl)
  | v :: vs, F, σ0, σ1, h => by
    simp only [esum]
    apply sum_map_congr
    intro c _
    apply esum_start U vs F
    intro σ τ h1 h2 h3
    apply h σ τ
    · intro w hw
      rcases List.mem_cons.1 hw with e | e
      · by_cases hv : v ∈ vs
        · exact h1 w (e ▸ hv)
        · rw [e, h2 v hv, h3 v hv, upd_same, upd_same]
      · exact h1 w e
    · intro w hw
      have hw1 : w ≠ v := fun e => hw (e ▸ List.mem_cons_self ..)
      rw [h2 w (fun e => hw (List.mem_cons_of_mem _ e)), upd_ne _ _ hw1]
    · intro w hw
      have hw1 : w ≠ v := fun e => hw (e ▸ List.mem_cons_self ..)
      rw [h3 w (fun e => hw (List.mem_cons_of_mem _ e)), upd_ne _ _ hw1]

/-- two adjacent summations commute -/
theorem esum_swap (U : List κ) (a b : Nat) (vs : List Nat) (F : (Nat → κ) → Int) (σ : Nat → κ) :
    esum U (a :: b :: vs) F σ = esum U (b :: a :: vs) F σ := by
  by_cases hab : a = b
  · subst hab; rfl
  · simp only [esum]
    rw [sum_comm]
    apply sum_map_congr
    intro y _
    apply sum_map_congr
    intro x _
    rw [upd_comm σ x y hab]

/-- **finite sums commute**: the dense sum does not depend on the order of the summations -/
theorem esum_perm (U : List κ) {vs ws : List Nat} (h : vs.Perm ws) :
    ∀ (F : (Nat → κ) → Int) (σ : Nat → κ), esum U vs F σ = esum U ws F σ := by
  induction h with
  | nil => intro F σ; rfl
  | cons v _ ih =>
    intro F σ
    simp only [esum]
    exact sum_map_congr _ _ _ (fun c _ => ih F _)
  | swap a b l => intro F σ; exact esum_swap U b a l F σ
  | trans _ _ ih1 ih2 => intro F σ; rw [ih1, ih2]

/-- `esum` only looks at assignments whose summed variables range over `U` -/
theorem esum_eq_zero_of_range (U : List κ) : ∀ (vs : List Nat) (F : (Nat → κ) → Int) (σ0 : Nat → κ),
    (∀ σ, (∀ w, w ∈ vs → σ w ∈ U) → F σ = 0) → esum U vs F σ0 = 0
  | [], F, σ0, h => h σ0 (fun _ hw => by cases hw)
  | v :: vs, F, σ0, h => by
    simp only [esum]
    apply sum_map_zero
    intro c hc
    by_cases hv : v ∈ vs
    · apply esum_eq_zero_of_range U vs F
      intro σ hσ
      apply h
      intro w hw
      rcases List.mem_cons.1 hw with e | e
      · exact e ▸ hσ v hv
      · exact hσ w e
    · -- v is not summed again: it keeps the value c ∈ U
      rw [esum_congr U vs F (fun σ => if σ v = c then F σ else 0) (upd σ0 v c)
        (fun σ hσ => by rw [if_pos (by rw [hσ v hv, upd_same])])]
      apply esum_eq_zero_of_range U vs
      intro σ hσ
      by_cases hσv : σ v = c
      · rw [if_pos hσv]
        apply h
        intro w hw
        rcases List.mem_cons.1 hw with e | e
        · rw [e, hσv]; exact hc
        · exact hσ w e
      · rw [if_neg hσv]

/-- **indicator form = point-wise form**: summing over all variables the terms whose output point is
    `q` is the same as fixing the output variables to `q` and summing the others — for points inside
    the universe -/
theorem esum_eq_dsum (U : List κ) (hU : Asc U) (F : (Nat → κ) → Int) :
    ∀ (order zr : List Nat) (q : List κ) (σ0 : Nat → κ), order.Nodup → zr.Sublist order →
      q.length = zr.length → (∀ x ∈ q, x ∈ U) →
      esum U order (fun σ => if zr.map σ = q then F σ else 0) σ0 = dsum U order zr q F σ0
  | [], zr, q, σ0, _, hz, hq, _ => by
    have : zr = [] := List.eq_nil_of_sublist_nil hz
    subst this
    have : q = [] := List.length_eq_zero_iff.1 hq
    subst this
    simp [esum, dsum]
  | v :: vs, [], q, σ0, hnd, _, hq, hqU => by
    have : q = [] := List.length_eq_zero_iff.1 hq
    subst this
    simp only [esum, dsum]
    apply sum_map_congr
    intro c _
    exact esum_eq_dsum U hU F vs [] [] (upd σ0 v c) (List.nodup_cons.1 hnd).2 (List.nil_sublist _) rfl hqU
  | v :: vs, zv :: zr, [], σ0, _, _, hq, _ => by cases hq
  | v :: vs, zv :: zr, qc :: q, σ0, hnd, hz, hq, hqU => by
    have hvs : vs.Nodup := (List.nodup_cons.1 hnd).2
    have hv : v ∉ vs := (List.nodup_cons.1 hnd).1
    have hq' : q.length = zr.length := by simpa using hq
    by_cases hzv : zv = v
    · subst hzv
      have hz' : zr.Sublist vs := List.cons_sublist_cons.1 hz
      simp only [esum, dsum, if_true]
      rw [sum_single _ U hU qc (hqU qc (List.mem_cons_self ..))]
      · rw [← esum_eq_dsum U hU F vs zr q (upd σ0 zv qc) hvs hz' hq'
          (fun x hx => hqU x (List.mem_cons_of_mem _ hx))]
        apply esum_congr
        intro σ hσ
        have : σ zv = qc := by rw [hσ zv hv, upd_same]
        simp [this]
      · intro x _ hx
        apply esum_eq_zero
        intro σ hσ
        have : σ zv = x := by rw [hσ zv hv, upd_same]
        have hne : ¬ ((zv :: zr).map σ = qc :: q) := by
          intro h
          simp only [List.map_cons, List.cons.injEq] at h
          exact hx (this ▸ h.1)
        exact if_neg hne
    · have hz' : (zv :: zr).Sublist vs := by
        rcases List.sublist_cons_iff.1 hz with h | ⟨r, hr, _⟩
        · exact h
        · exact absurd (List.cons.inj hr).1 hzv
      simp only [esum, dsum, hzv, if_false]
      apply sum_map_congr
      intro c _
      exact esum_eq_dsum U hU F vs (zv :: zr) (qc :: q) (upd σ0 v c) hvs hz' hq hqU

/-- outside the universe the dense result is zero -/
theorem esum_outside (U : List κ) (F : (Nat → κ) → Int) (order zr : List Nat) (q : List κ) (σ0 : Nat → κ)
    (hz : ∀ w ∈ zr, w ∈ order) (hq : ∃ x ∈ q, x ∉ U) :
    esum U order (fun σ => if zr.map σ = q then F σ else 0) σ0 = 0 := by
  apply esum_eq_zero_of_range
  intro σ hσ
  obtain ⟨x, hx, hxU⟩ := hq
  have : ¬ (zr.map σ = q) := by
    intro h
    rw [← h] at hx
    obtain ⟨w, hw, rfl⟩ := List.mem_map.1 hx
    exact hxU (hσ w (hz w hw))
  exact if_neg this

end
end Ft.C06
