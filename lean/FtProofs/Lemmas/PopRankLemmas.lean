/-
  Helpers for C02: the rank bookkeeping of populate loops.  A transformer that only *adds* fibers
  below the fiber it is applied to (it keeps every existing fiber) keeps the mirror if the bookkeeping
  appends exactly the new fibers (`popRanksR`); nested populate loops are such a transformer.
-/
import FtProofs.Lemmas.RankLemmas
import FtProofs.C05
set_option linter.unusedSectionVars false
set_option linter.unusedSimpArgs false
namespace Ft
open StrictTotal
open List

section
variable {κ ν : Type} [LT κ] [DecidableRel (α := κ) (· < ·)] [DecidableEq κ] [StrictTotal κ]

theorem mem_pathsAt_succ (d : Nat) (f : Tree κ ν (d + 1)) (i : Nat) (p : List κ) :
    p ∈ pathsAt (d + 1) f (i + 1) ↔
      ∃ e ∈ (show List (κ × Tree κ ν d) from f), ∃ cs ∈ pathsAt d e.2 i, p = e.1 :: cs := by
  rw [pathsAt_succ, List.mem_flatMap]
  constructor
  · rintro ⟨e, he, hp⟩
    obtain ⟨cs, hcs, rfl⟩ := List.mem_map.1 hp
    exact ⟨e, he, cs, hcs, rfl⟩
  · rintro ⟨e, he, cs, hcs, rfl⟩
    exact ⟨e, he, List.mem_map.2 ⟨cs, hcs, rfl⟩⟩

/-- in a well-formed tree no fiber is found twice -/
theorem pathsAt_nodup : ∀ (d : Nat) (t : Tree κ ν d), WF d t → ∀ i, (pathsAt d t i).Nodup
  | 0, _, _, _ => List.nodup_nil
  | _ + 1, _, _, 0 => by simp [pathsAt]
  | d + 1, f, h, i + 1 => by
    rw [pathsAt_succ]
    unfold List.Nodup
    rw [List.pairwise_flatMap]
    refine ⟨fun e he => ?_, ?_⟩
    · have ih := pathsAt_nodup d e.2 (h.sub e he) i
      unfold List.Nodup at ih
      exact List.Pairwise.map _ (fun a b hab hc => hab (List.cons.inj hc).2) ih
    · have hs : Sorted (show List (κ × Tree κ ν d) from f) := h.sorted
      unfold Sorted at hs
      refine List.Pairwise.imp ?_ hs
      intro a b hab x hx y hy hxy
      obtain ⟨x', _, rfl⟩ := List.mem_map.1 hx
      obtain ⟨y', _, rfl⟩ := List.mem_map.1 hy
      have := (List.cons.inj hxy).1
      rw [this] at hab
      exact StrictTotal.irrefl _ hab

/-- a duplicate-free list that contains another one is that one plus what is new -/
theorem grow_perm {α : Type} [BEq α] [LawfulBEq α] (l l' : List α) (hl : l.Nodup) (hl' : l'.Nodup)
    (hsub : ∀ x ∈ l, x ∈ l') : l'.Perm (l ++ l'.filter (fun p => !l.contains p)) := by
  have hnd : (l ++ l'.filter (fun p => !l.contains p)).Nodup := by
    rw [List.nodup_append]
    refine ⟨hl, List.Nodup.sublist List.filter_sublist hl', ?_⟩
    intro a ha b hb hab
    subst hab
    have := (List.mem_filter.1 hb).2
    simp [ha] at this
  refine (List.perm_ext_iff_of_nodup hl' hnd).2 (fun a => ?_)
  simp only [List.mem_append, List.mem_filter, List.contains_iff_mem, Bool.not_eq_true', decide_eq_false_iff_not]
  constructor
  · intro ha
    by_cases h : a ∈ l
    · exact Or.inl h
    · exact Or.inr ⟨ha, by simpa using h⟩
  · rintro (h | ⟨h, _⟩)
    · exact hsub a h
    · exact h

/-- the identity transformer -/
def idF : (d : Nat) → Tree κ ν (d + 1) → Tree κ ν (d + 1) × Outcome := fun _ f => (f, .ok)

theorem atPath_idF : ∀ (d : Nat) (t : Tree κ ν (d + 1)), WF (d + 1) t → ∀ q, (atPath idF d t q).1 = t
  | _, _, _, [] => by simp [atPath, idF]
  | 0, _, _, _ :: _ => by simp [atPath]
  | d + 1, (t : List (κ × Tree κ ν (d + 1))), h, c :: cs => by
    simp only [atPath]
    cases hl : lookup (show List (κ × Tree κ ν (d + 1)) from t) c with
    | none => rfl
    | some s =>
      simp only
      rw [atPath_idF d s (h.sub _ (lookup_mem hl)) cs]
      exact map_key_id h.sorted hl

theorem locate_wf : ∀ (d : Nat) (t : Tree κ ν (d + 1)), WF (d + 1) t → ∀ (q : List κ) (d' : Nat) (s : Tree κ ν (d' + 1)),
    locate d t q = some ⟨d', s⟩ → WF (d' + 1) s
  | d, t, h, [], d', s, hl => by
    simp only [locate, Option.some.injEq] at hl
    cases hl
    exact h
  | 0, _, _, _ :: _, _, _, hl => by simp [locate] at hl
  | d + 1, (t : List (κ × Tree κ ν (d + 1))), h, c :: cs, d', s, hl => by
    simp only [locate] at hl
    cases hlk : lookup (show List (κ × Tree κ ν (d + 1)) from t) c with
    | none => rw [hlk] at hl; cases hl
    | some s0 =>
      rw [hlk] at hl
      exact locate_wf d s0 (h.sub _ (lookup_mem hlk)) cs d' s hl

/-- what a raw walk finds at depth `i`, split into the fibers not below `q` and those below it -/
theorem pathsAt_split (d : Nat) (t : Tree κ ν (d + 1)) (h : WF (d + 1) t) (q : List κ) (d' : Nat)
    (s : Tree κ ν (d' + 1)) (hloc : locate d t q = some ⟨d', s⟩) (i : Nat) :
    pathsAt (d + 1) t i ~
      (pathsAt (d + 1) t i).filter (fun p => !properPrefix q p) ++
      ((pathsAt (d' + 1) s (i - q.length)).filter (fun _ => decide (q.length < i))).map (q ++ ·) := by
  have key := pathsAt_atPath (idF (κ := κ) (ν := ν)) d t h q i
  rw [hloc, atPath_idF d t h q] at key
  exact key

/-- **growth below a fiber**: a transformer applied at the fiber reached by `q` that keeps every fiber
    of the sub-tree it is applied to (it may add fibers) keeps the mirror, if the bookkeeping appends
    exactly the fibers that are new -/
theorem grow_mirror (F : (d : Nat) → Tree κ ν (d + 1) → Tree κ ν (d + 1) × Outcome)
    (d : Nat) (t : Tree κ ν (d + 1)) (R : RankLists κ) (q : List κ) (d' : Nat) (s : Tree κ ν (d' + 1))
    (h : WF (d + 1) t) (hm : Mirror (d + 1) t R) (hloc : locate d t q = some ⟨d', s⟩)
    (hwf' : WF (d' + 1) (F d' s).1)
    (hsub : ∀ j p, p ∈ pathsAt (d' + 1) s j → p ∈ pathsAt (d' + 1) (F d' s).1 j) :
    Mirror (d + 1) (atPath F d t q).1 (popRanksR R q d' s (F d' s).1) := by
  obtain ⟨hlen, hperm⟩ := hm
  have hs : WF (d' + 1) s := locate_wf d t h q d' s hloc
  refine ⟨by simp [popRanksR, hlen], ?_⟩
  intro i hi
  have hi' : i < R.length := hlen ▸ hi
  have e1 : (popRanksR R q d' s (F d' s).1).getD i [] =
      (if q.length < i then R.getD i [] ++
          ((pathsAt (d' + 1) (F d' s).1 (i - q.length)).filter
            (fun p => !(pathsAt (d' + 1) s (i - q.length)).contains p)).map (q ++ ·)
       else R.getD i []) := by
    unfold popRanksR
    simp only [List.getD_eq_getElem?_getD, List.getElem?_mapIdx, List.getElem?_eq_getElem hi', Option.map_some,
      Option.getD_some]
  rw [e1]
  have key := pathsAt_atPath F d t h q i
  rw [hloc] at key
  simp only at key
  have keyId := pathsAt_split d t h q d' s hloc i
  refine List.Perm.trans ?_ key.symm
  by_cases hq : q.length < i
  · simp only [hq, if_true, decide_true]
    have e2 : ∀ l : List (List κ), l.filter (fun _ => true) = l := fun l => by simp
    rw [e2]
    simp only [hq, decide_true] at keyId
    rw [e2] at keyId
    have g := grow_perm (pathsAt (d' + 1) s (i - q.length)) (pathsAt (d' + 1) (F d' s).1 (i - q.length))
      (pathsAt_nodup (d' + 1) s hs _) (pathsAt_nodup (d' + 1) (F d' s).1 hwf' _) (hsub _)
    calc R.getD i [] ++ ((pathsAt (d' + 1) (F d' s).1 (i - q.length)).filter
              (fun p => !(pathsAt (d' + 1) s (i - q.length)).contains p)).map (q ++ ·)
        ~ ((pathsAt (d + 1) t i).filter (fun p => !properPrefix q p) ++
            (pathsAt (d' + 1) s (i - q.length)).map (q ++ ·)) ++
          ((pathsAt (d' + 1) (F d' s).1 (i - q.length)).filter
              (fun p => !(pathsAt (d' + 1) s (i - q.length)).contains p)).map (q ++ ·) :=
          (((hperm i hi).trans keyId).append_right _)
      _ = (pathsAt (d + 1) t i).filter (fun p => !properPrefix q p) ++
            ((pathsAt (d' + 1) s (i - q.length)) ++
              (pathsAt (d' + 1) (F d' s).1 (i - q.length)).filter
                (fun p => !(pathsAt (d' + 1) s (i - q.length)).contains p)).map (q ++ ·) := by
          rw [List.map_append, List.append_assoc]
      _ ~ (pathsAt (d + 1) t i).filter (fun p => !properPrefix q p) ++
            (pathsAt (d' + 1) (F d' s).1 (i - q.length)).map (q ++ ·) :=
          ((g.symm.map _).append_left _)
  · simp only [hq, if_false, decide_false]
    have e3 : ∀ l : List (List κ), l.filter (fun _ => false) = [] := fun l => by simp
    rw [e3, List.map_nil, List.append_nil]
    simp only [hq, decide_false] at keyId
    rw [e3, List.map_nil, List.append_nil] at keyId
    exact (hperm i hi).trans keyId

/-! ### populate loops keep every fiber that was there -/

/-- an interior populate loop keeps every element of the destination: untouched if the source does not
    offer its coordinate, otherwise with the payload the body produced (an interior element that
    existed before the loop is never removed) -/
theorem populate_keeps {β : Type} [DecidableEq ν] (dflt : ν) (d : Nat)
    (body : κ → Tree κ ν (d + 1) → β → Tree κ ν (d + 1))
    (z : Tree κ ν (d + 2)) (src : Fib κ β) (hz : WF (d + 2) z) (hb : Sorted src)
    (e : κ × Tree κ ν (d + 1)) (he : e ∈ (show List (κ × Tree κ ν (d + 1)) from z)) :
    ∃ s', (e.1, s') ∈ (show List (κ × Tree κ ν (d + 1)) from (populate dflt (d + 1) body z src).1) ∧
      (s' = e.2 ∨ ∃ bp, (e.1, bp) ∈ src ∧ s' = body e.1 e.2 bp) := by
  have hl := (populate_struct (defaultTree dflt (d + 1)) (rmOf dflt (d + 1)) body
    (show List (κ × Tree κ ν (d + 1)) from z) src hz.sorted hb).2 e.1
  have hle : lookup (show List (κ × Tree κ ν (d + 1)) from z) e.1 = some e.2 := lookup_of_sorted_mem hz.sorted he
  unfold popExpect at hl
  cases hs : lookup src e.1 with
  | none =>
    rw [hs] at hl
    simp only at hl
    rw [hle] at hl
    exact ⟨e.2, lookup_mem hl, Or.inl rfl⟩
  | some bp =>
    rw [hs] at hl
    simp only [popAt, hle, Option.isNone_some, Option.getD_some] at hl
    have hr : rmOf dflt (d + 1) false (body e.1 e.2 bp) = false := by simp [rmOf, rmFiber]
    rw [hr] at hl
    simp only [Bool.false_eq_true, if_false] at hl
    exact ⟨_, lookup_mem hl, Or.inr ⟨bp, lookup_mem hs, rfl⟩⟩

theorem insertIfMissing_mem {π : Type} (mk : π) (f : Fib κ π) (c : κ) (x : κ × π) (hx : x ∈ f) :
    x ∈ insertIfMissing mk f c := by
  unfold insertIfMissing
  cases posLookup f c with
  | some _ => exact hx
  | none => exact mem_insertAt.2 (Or.inr hx)

/-- nested populate loops (with bodies that recurse, skip or only touch) never lose a fiber -/
theorem popNest_keeps_paths [DecidableEq ν] (dflt : ν) (leafF : List κ → ν → ν → ν) (inner : List κ → Inner κ) :
    ∀ (d : Nat) (pre : List κ) (z a : Tree κ ν (d + 1)), WF (d + 1) z → WF (d + 1) a →
      ∀ j p, p ∈ pathsAt (d + 1) z j → p ∈ pathsAt (d + 1) (popNest dflt leafF inner d pre z a) j
  | _, _, _, _, _, _, 0, p, hp => by simpa [pathsAt] using hp
  | 0, _, z, _, _, _, j + 1, p, hp => by
    obtain ⟨e, _, cs, hcs, _⟩ := (mem_pathsAt_succ 0 z j p).1 hp
    simp [pathsAt] at hcs
  | d + 1, pre, z, a, hz, ha, j + 1, p, hp => by
    obtain ⟨e, he, cs, hcs, rfl⟩ := (mem_pathsAt_succ (d + 1) z j p).1 hp
    simp only [popNest]
    obtain ⟨s', hs', hcase⟩ := populate_keeps dflt d
      (fun c (cur : Tree κ ν (d + 1)) (av : Tree κ ν (d + 1)) =>
        match inner (pre ++ [c]) with
        | .skip => cur
        | .touch c' => insertIfMissing (defaultTree dflt d) (show List (κ × Tree κ ν d) from cur) c'
        | .recurse => popNest dflt leafF inner d (pre ++ [c]) cur av) z
      (present dflt (d + 1) a) hz (present_sorted ha.sorted) e he
    refine (mem_pathsAt_succ (d + 1) _ j _).2 ⟨(e.1, s'), hs', cs, ?_, rfl⟩
    show cs ∈ pathsAt (d + 1) s' j
    rcases hcase with rfl | ⟨bp, hbp, rfl⟩
    · exact hcs
    · simp only
      cases hin : inner (pre ++ [e.1]) with
      | skip => exact hcs
      | touch c' =>
        simp only
        cases j with
        | zero => simpa [pathsAt] using hcs
        | succ j' =>
          obtain ⟨x, hx, cs', hcs', rfl⟩ := (mem_pathsAt_succ d e.2 j' cs).1 hcs
          exact (mem_pathsAt_succ d _ j' _).2 ⟨x, insertIfMissing_mem _ _ c' x hx, cs', hcs', rfl⟩
      | recurse =>
        simp only
        exact popNest_keeps_paths dflt leafF inner d (pre ++ [e.1]) e.2 bp (hz.sub e he)
          (ha.sub _ (mem_present.1 hbp).1) j cs hcs

end
end Ft
