/-
  Helpers for C02: the rank bookkeeping of populate loops.  A transformer that only *adds* fibers
  below the fiber it is applied to (it keeps every existing fiber) keeps the mirror if the bookkeeping
  appends exactly the new fibers (`popRanksR`); nested populate loops are such a transformer.
-/
import FtProofs.Lemmas.RankLemmas
set_option linter.unusedSectionVars false
set_option linter.unusedSimpArgs false
namespace Ft
open StrictTotal
open List

section
variable {κ ν : Type} [LT κ] [DecidableRel (α := κ) (· < ·)] [DecidableEq κ] [StrictTotal κ]

theorem mem_pathsAt_succ (d : Nat) (f : Tree κ ν (d + 1)) (i : Nat) (p : List κ) :
    p ∈ pathsAt (d + 1) f (i + 1) ↔
      ∃ e ∈ (show List (κ × Tree κ ν d) from f), ∃ cs ∈ pathsAt d e.2 i, p = e.1 :: cs := by
  rw [pathsAt_succ, List.mem_flatMap]
  constructor
  · rintro ⟨e, he, hp⟩
    obtain ⟨cs, hcs, rfl⟩ := List.mem_map.1 hp
    exact ⟨e, he, cs, hcs, rfl⟩
  · rintro ⟨e, he, cs, hcs, rfl⟩
    exact ⟨e, he, List.mem_map.2 ⟨cs, hcs, rfl⟩⟩

/-- in a well-formed tree no fiber is found twice -/
theorem pathsAt_nodup : ∀ (d : Nat) (t : Tree κ ν d), WF d t → ∀ i, (pathsAt d t i).Nodup
  | 0, _, _, _ => List.nodup_nil
  | _ + 1, _, _, 0 => by simp [pathsAt]
  | d + 1, f, h, i + 1 => by
    rw [pathsAt_succ]
    unfold List.Nodup
    rw [List.pairwise_flatMap]
    refine ⟨fun e he => ?_, ?_⟩
    · have ih := pathsAt_nodup d e.2 (h.sub e he) i
      unfold List.Nodup at ih
      exact List.Pairwise.map _ (fun a b hab hc => hab (List.cons.inj hc).2) ih
    · have hs : Sorted (show List (κ × Tree κ ν d) from f) := h.sorted
      unfold Sorted at hs
      refine List.Pairwise.imp ?_ hs
      intro a b hab x hx y hy hxy
      obtain ⟨x', _, rfl⟩ := List.mem_map.1 hx
      obtain ⟨y', _, rfl⟩ := List.mem_map.1 hy
      have := (List.cons.inj hxy).1
      rw [this] at hab
      exact StrictTotal.irrefl _ hab

/-- a duplicate-free list that contains another one is that one plus what is new -/
theorem grow_perm {α : Type} [DecidableEq α] (l l' : List α) (hl : l.Nodup) (hl' : l'.Nodup)
    (hsub : ∀ x ∈ l, x ∈ l') : l'.Perm (l ++ l'.filter (fun p => !l.contains p)) := by
  have hnd : (l ++ l'.filter (fun p => !l.contains p)).Nodup := by
    rw [List.nodup_append]
    refine ⟨hl, List.Nodup.sublist List.filter_sublist hl', ?_⟩
    intro a ha b hb hab
    subst hab
    have := (List.mem_filter.1 hb).2
    simp [ha] at this
  refine (List.perm_ext_iff_of_nodup hl' hnd).2 (fun a => ?_)
  simp only [List.mem_append, List.mem_filter, List.contains_iff_mem, Bool.not_eq_true', decide_eq_false_iff_not]
  constructor
  · intro ha
    by_cases h : a ∈ l
    · exact Or.inl h
    · exact Or.inr ⟨ha, by simpa using h⟩
  · rintro (h | ⟨h, _⟩)
    · exact hsub a h
    · exact h

end
end Ft
