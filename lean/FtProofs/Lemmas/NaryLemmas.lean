/-
  Helper lemmas for the aggregated co-iterators (n-ary intersection / union, leader–follower).
-/
import FtProofs.Lemmas.PointLemmas
import FtProofs.C04
import FtModel.Nary
set_option linter.unusedSectionVars false
set_option linter.unusedSimpArgs false
namespace Ft
open StrictTotal

section
variable {κ α β γ : Type} [LT κ] [DecidableRel (α := κ) (· < ·)] [DecidableEq κ] [StrictTotal κ]

theorem sorted_filterMap_key (l : Fib κ α) (g : κ × α → Option (κ × β))
    (hg : ∀ e r, g e = some r → r.1 = e.1) (hs : Sorted l) : Sorted (l.filterMap g) := by
  induction l with
  | nil => exact sorted_nil
  | cons e r ih =>
    rw [List.filterMap_cons]
    cases hge : g e with
    | none => exact ih hs.tail
    | some x =>
      simp only
      refine sorted_cons.2 ⟨?_, ih hs.tail⟩
      intro y hy
      obtain ⟨z, hz, hgz⟩ := List.mem_filterMap.1 hy
      rw [hg e x hge, hg z y hgz]
      exact hs.head_lt z hz

theorem andSpec_sorted (a : Fib κ α) (b : Fib κ β) (hs : Sorted a) : Sorted (andSpec a b) := by
  unfold andSpec
  apply sorted_filterMap_key _ _ _ hs
  intro e r h
  cases hl : lookup b e.1 with
  | none => simp [hl] at h
  | some pb => simp [hl] at h; rw [← h]

theorem mapM_option_cons (f : γ → Option β) (b : γ) (rest : List γ) :
    (b :: rest).mapM f = (f b).bind (fun pb => (rest.mapM f).map (fun ps => pb :: ps)) := by
  rw [List.mapM_cons]
  cases f b with
  | none => rfl
  | some pb =>
    cases rest.mapM f with
    | none => rfl
    | some ps => rfl

/-- the fold of `&` over further operands keeps exactly the elements present in all of them and
    appends their payloads in operand order -/
theorem foldl_and_spec : ∀ (rest : List (Fib κ α)) (acc : Fib κ (List α)), Sorted acc → (∀ b ∈ rest, Sorted b) →
    rest.foldl (fun acc b => (andMerge acc b).map (fun r => (r.1, r.2.1 ++ [r.2.2]))) acc =
      acc.filterMap (fun e => (rest.mapM (fun b => lookup b e.1)).map (fun ps => (e.1, e.2 ++ ps)))
  | [], acc, _, _ => by
    simp only [List.foldl_nil, List.mapM_nil]
    symm
    have : ∀ e : κ × List α, (Option.map (fun ps => (e.1, e.2 ++ ps)) (pure ([] : List α)) : Option (κ × List α)) = some e := by
      intro e; simp [pure]
    calc acc.filterMap _ = acc.filterMap some := by
          apply filterMap_congr'; intro e _; exact this e
      _ = acc := List.filterMap_some
  | b :: rest, acc, hs, hb => by
    simp only [List.foldl_cons]
    have hsb : Sorted b := hb b (List.mem_cons_self ..)
    rw [and_spec acc b hs hsb]
    have hs' : Sorted ((andSpec acc b).map (fun r => (r.1, r.2.1 ++ [r.2.2]))) :=
      sorted_map_key (andSpec acc b) (fun r => r.2.1 ++ [r.2.2]) (andSpec_sorted acc b hs)
    rw [foldl_and_spec rest _ hs' (fun x hx => hb x (List.mem_cons_of_mem _ hx))]
    unfold andSpec
    rw [List.filterMap_map, List.filterMap_filterMap]
    apply filterMap_congr'
    intro e _
    rw [mapM_option_cons]
    cases lookup b e.1 with
    | none => rfl
    | some pb =>
      simp only [Option.map_some, Option.bind_some, Function.comp]
      cases rest.mapM (fun b => lookup b e.1) with
      | none => rfl
      | some ps => simp [List.append_assoc]

end
end Ft

namespace Ft
open StrictTotal
section
variable {κ α : Type} [LT κ] [DecidableRel (α := κ) (· < ·)] [DecidableEq κ] [StrictTotal κ]

/-- invariant of the union fold after the operands `ops` have been merged -/
structure OrInv (ops : List (Fib κ α)) (st : Nat × Fib κ (List (Option α))) : Prop where
  count : st.1 = ops.length
  sorted : Sorted st.2
  rows : ∀ row ∈ st.2, row.2 = naryOrRow ops row.1 ∧ row.2.any (·.isSome) = true
  cover : ∀ b ∈ ops, ∀ e ∈ b, HasKey st.2 e.1

def orStep (st : Nat × Fib κ (List (Option α))) (b : Fib κ α) : Nat × Fib κ (List (Option α)) :=
  (st.1 + 1, (orMerge st.2 b).map (fun r => (r.1, (r.2.2.1.getD (List.replicate st.1 none)) ++ [r.2.2.2])))

theorem naryOrRow_append (ops : List (Fib κ α)) (b : Fib κ α) (c : κ) :
    naryOrRow (ops ++ [b]) c = naryOrRow ops c ++ [lookup b c] := by
  simp [naryOrRow]

theorem naryOrRow_none_of_not_cover (ops : List (Fib κ α)) (c : κ)
    (h : ∀ b ∈ ops, ¬ HasKey b c) : naryOrRow ops c = List.replicate ops.length none := by
  induction ops with
  | nil => rfl
  | cons b r ih =>
    simp only [naryOrRow, List.map_cons, List.length_cons, List.replicate_succ]
    rw [lookup_none_of_not_hasKey (h b (List.mem_cons_self ..))]
    congr 1
    exact ih (fun x hx => h x (List.mem_cons_of_mem _ hx))

theorem orStep_inv (ops : List (Fib κ α)) (st : Nat × Fib κ (List (Option α))) (b : Fib κ α)
    (hinv : OrInv ops st) (hb : Sorted b) : OrInv (ops ++ [b]) (orStep st b) := by
  have hms := orMerge_sorted st.2 b hinv.sorted hb
  have hrows := orMerge_rows st.2 b hinv.sorted hb
  refine ⟨by simp [orStep, hinv.count], sorted_map_key _ _ hms, ?_, ?_⟩
  · intro row hrow
    obtain ⟨r, hr, rfl⟩ := List.mem_map.1 hrow
    obtain ⟨h1, h2, _⟩ := hrows r hr
    simp only
    rw [naryOrRow_append, h1, h2]
    have hk : HasKey st.2 r.1 ∨ HasKey b r.1 := orMerge_keys st.2 b r.1 ⟨r, hr, rfl⟩
    cases hl : lookup st.2 r.1 with
    | some ps =>
      have hmem := lookup_mem hl
      obtain ⟨e1, e2⟩ := hinv.rows _ hmem
      simp only [Option.getD_some]
      simp only at e1 e2
      refine ⟨by rw [e1], ?_⟩
      rw [List.any_append, e2]; rfl
    | none =>
      simp only [Option.getD_none]
      have hnk : ¬ HasKey st.2 r.1 := by
        intro h
        have := (hasCoord_iff st.2 r.1).2 h
        rw [hasCoord_iff_lookup, hl] at this; cases this
      have hnone : ∀ x ∈ ops, ¬ HasKey x r.1 := by
        intro x hx ⟨e, he, hec⟩
        exact hnk (hec ▸ hinv.cover x hx e he)
      refine ⟨by rw [naryOrRow_none_of_not_cover ops r.1 hnone, hinv.count], ?_⟩
      rcases hk with h | h
      · exact absurd h hnk
      · have : (lookup b r.1).isSome = true := by
          rw [← hasCoord_iff_lookup]; exact (hasCoord_iff b r.1).2 h
        rw [List.any_append]; simp [this]
  · intro x hx e he
    have hk : HasKey (orMerge st.2 b) e.1 := by
      apply orMerge_cover
      rcases List.mem_append.1 hx with h | h
      · exact Or.inl (hinv.cover x h e he)
      · rw [List.mem_singleton.1 h] at he; exact Or.inr ⟨e, he, rfl⟩
    exact (hasKey_map_key _ _ _).2 hk

theorem foldl_orStep_inv : ∀ (rest : List (Fib κ α)) (ops : List (Fib κ α)) (st : Nat × Fib κ (List (Option α))),
    OrInv ops st → (∀ b ∈ rest, Sorted b) → OrInv (ops ++ rest) (rest.foldl orStep st)
  | [], ops, st, h, _ => by simpa using h
  | b :: rest, ops, st, h, hb => by
    have := foldl_orStep_inv rest (ops ++ [b]) (orStep st b)
      (orStep_inv ops st b h (hb b (List.mem_cons_self ..))) (fun x hx => hb x (List.mem_cons_of_mem _ hx))
    simpa [List.append_assoc] using this

theorem naryOr_inv (a : Fib κ α) (rest : List (Fib κ α)) (ha : Sorted a) (hr : ∀ b ∈ rest, Sorted b) :
    OrInv (a :: rest) (rest.foldl orStep (1, a.map (fun e => (e.1, [some e.2])))) := by
  have h0 : OrInv [a] (1, a.map (fun e => (e.1, [some e.2]))) := by
    refine ⟨rfl, sorted_map_key a (fun e => [some e.2]) ha, ?_, ?_⟩
    · intro row hrow
      obtain ⟨e, he, rfl⟩ := List.mem_map.1 hrow
      simp [naryOrRow, lookup_of_sorted_mem ha he]
    · intro b hb e he
      rw [List.mem_singleton.1 hb] at he
      exact (hasKey_map_key a _ e.1).2 ⟨e, he, rfl⟩
  have := foldl_orStep_inv rest [a] _ h0 hr
  simpa using this

end
end Ft
