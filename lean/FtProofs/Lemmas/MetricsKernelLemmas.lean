/-
  C15 lemmas about the kernel's event sequence (FtModel/MetricsKernel.lean): an induction principle
  over the loop nest, and the three facts proved with it (counters balanced with the operators that
  ran, "iter" uses balanced with loop bodies, every call made on a registered rank).
-/
import FtProofs.Lemmas.MetricsLemmas
set_option linter.unusedSectionVars false
set_option linter.unusedSimpArgs false
set_option linter.unusedVariables false
namespace Ft.C15
open Ft

/-! ### the induction principle -/

theorem descend_noU (v : String) : ∀ (ops : List Operand) (ch : List (Nat × ATree)),
    (∀ o ∈ ops, o.uShape = none) → ∀ o ∈ descend v ops ch, o.uShape = none := by
  intro ops
  induction ops with
  | nil => intro ch _ o ho; simp [descend] at ho
  | cons x xs ih =>
    intro ch h o ho
    unfold descend at ho
    split at ho
    · split at ho
      · rcases List.mem_cons.1 ho with rfl | ho
        · exact h x List.mem_cons_self
        · exact ih _ (fun o ho => h o (List.mem_cons_of_mem _ ho)) o ho
      · rcases List.mem_cons.1 ho with rfl | ho
        · exact h _ List.mem_cons_self
        · exact ih _ (fun o ho => h o (List.mem_cons_of_mem _ ho)) o ho
    · rcases List.mem_cons.1 ho with rfl | ho
      · exact h _ List.mem_cons_self
      · exact ih _ (fun o ho => h o (List.mem_cons_of_mem _ ho)) o ho

theorem uLeafLoop_noU (v : String) (parts : List Operand) (h : ∀ o ∈ parts, o.uShape = none) : uLeafLoop v parts = none := by
  unfold uLeafLoop
  split
  · rename_i o
    rw [h o List.mem_cons_self]
    split <;> rfl
  · rfl

/-- `P` for whole (sub-)kernels, `Q v` for the inside of the loop at rank `v` -/
theorem runK_ind (cfg : KCfg) (noU : Bool) (P : List KEv → Prop) (Q : String → List KEv → Prop)
    (hnil : P []) (hleaf : ∀ b zt ops, P (leafBody b zt ops).2)
    (hQ0 : ∀ v, Q v []) (hQapp : ∀ v a b, Q v a → Q v b → Q v (a ++ b))
    (hiter : ∀ v c pos inner, P inner → Q v (iterEv v c pos inner))
    (hiterU : noU = false → ∀ v inner, P inner → Q v (iterEvU v inner))
    (hwrap : ∀ v (asrt inner : List KEv), (∀ e ∈ asrt, ∃ ins, e = KEv.assertShape v cfg.declared ins) → Q v inner →
      P ([KEv.call (.registerRank v)] ++ asrt ++ inner ++ [KEv.call (.endIter v)]))
    :
    ∀ (loops zr : List String) (zt : ATree) (ops : List Operand),
      (noU = true → ∀ o ∈ ops, o.uShape = none) → P (runK cfg loops zr zt ops).2 := by
  intro loops
  induction loops with
  | nil => intro zr zt ops _; simp only [runK]; exact hleaf _ zt ops
  | cons v rest ih =>
    intro zr zt ops hU
    have hUd : ∀ ch, noU = true → ∀ o ∈ descend v ops ch, o.uShape = none :=
      fun ch hn => descend_noU v ops ch (hU hn)
    simp only [runK]
    split
    · -- output rank: populate
      split
      · rename_i d zf
        simp only
        apply hwrap
        · intro e he
          split at he
          · simp only [List.mem_singleton] at he; exact ⟨_, he⟩
          · cases he
        · -- the yields
          suffices hy : ∀ (ys : List ((Int × Tree Int Int d × List (Nat × ATree)) × Nat)),
              Q v (ys.flatMap fun y => iterEv v y.1.1 y.2
                (runK cfg rest zr.tail ⟨d, y.1.2.1⟩ (descend v ops y.1.2.2)).2) from hy _
          intro ys
          induction ys with
          | nil => simpa using hQ0 v
          | cons y ys ihy =>
            rw [List.flatMap_cons]
            exact hQapp v _ _ (hiter v _ _ _ (ih _ _ _ (hUd _))) ihy
      · exact hnil
    · -- reduced rank: fold over the intersection
      simp only
      apply hwrap v [] _ (fun e he => by cases he)
      have key : ∀ (l : List ((Int × List (Nat × ATree)) × Nat)) (acc : ATree × List KEv), Q v acc.2 →
          Q v (l.foldl (fun (acc : ATree × List KEv) y =>
            ((runK cfg rest zr acc.1 (descend v ops y.1.2)).1,
              acc.2 ++ (if (uLeafLoop v (ops.filter fun o => o.ranks.head? == some v)).isSome then
                  iterEvU v (runK cfg rest zr acc.1 (descend v ops y.1.2)).2
                else iterEv v y.1.1 (usePos (decide ((ops.filter fun o => o.ranks.head? == some v).length ≥ 2)) y.2 y.1.2)
                  (runK cfg rest zr acc.1 (descend v ops y.1.2)).2))) acc).2 := by
        intro l
        induction l with
        | nil => intro acc h; exact h
        | cons y l ihl =>
          intro acc h
          rw [List.foldl_cons]
          apply ihl
          simp only
          apply hQapp v _ _ h
          split
          · rename_i hsome
            apply hiterU _ v _ (ih _ _ _ (hUd _))
            cases hn : noU with
            | false => rfl
            | true =>
              have := uLeafLoop_noU v (ops.filter fun o => o.ranks.head? == some v)
                (fun o ho => hU hn o (List.mem_filter.1 ho).1)
              rw [this] at hsome; cases hsome
          · exact hiter v _ _ _ (ih _ _ _ (hUd _))
      exact key _ (zt, []) (hQ0 v)

end Ft.C15

namespace Ft.C15
open Ft

/-- a property of event lists that is closed under `++` holds for the innermost statement as soon as it
    holds for the events of each payload operator -/
theorem bodyEv_ind (P : List KEv → Prop) (h0 : P []) (happ : ∀ a b, P a → P b → P (a ++ b))
    (hm : P mulEv) (him : P imulEv) (ha : P addEv) (has : P assignEv) (hi : ∀ old, P (iaddEv old))
    (b : Body) (n : Nat) (old : Int) : P (bodyEv b n old) := by
  have rep : ∀ (x : List KEv), P x → ∀ (l : List Nat), P (l.flatMap (fun _ => x)) := by
    intro x hx l
    induction l with
    | nil => exact h0
    | cons y ys ih => rw [List.flatMap_cons]; exact happ _ _ hx ih
  cases b with
  | iaddMul => exact happ _ _ (rep _ hm _) (hi old)
  | addAssign => exact happ _ _ (happ _ _ (rep _ hm _) ha) has
  | imulTmp => exact happ _ _ (rep _ him _) (hi old)

theorem leafBody_ind (P : List KEv → Prop) (h0 : P []) (happ : ∀ a b, P a → P b → P (a ++ b))
    (hm : P mulEv) (him : P imulEv) (ha : P addEv) (has : P assignEv) (hi : ∀ old, P (iaddEv old))
    (b : Body) (zt : ATree) (ops : List Operand) : P (leafBody b zt ops).2 := by
  unfold leafBody
  split
  · split
    · exact h0
    · exact bodyEv_ind P h0 happ hm him ha has hi _ _ _
  · exact h0

/-! ### additive measures -/

theorem callsOf_append (a b : List KEv) : callsOf (a ++ b) = callsOf a ++ callsOf b := by
  simp [callsOf, List.filterMap_append]

theorem callsOf_nil : callsOf [] = [] := rfl

def cnt (metric : String) (evs : List KEv) : Int := sumInc "Compute" metric (callsOf evs)

theorem cnt_append (m : String) (a b : List KEv) : cnt m (a ++ b) = cnt m a + cnt m b := by
  simp [cnt, callsOf_append, sumInc_append]

theorem nMul_append (a b : List KEv) : nMul (a ++ b) = nMul a + nMul b := by simp [nMul, List.countP_append]
theorem nUpd_append (a b : List KEv) : nUpd (a ++ b) = nUpd a + nUpd b := by simp [nUpd, List.countP_append]
theorem nAdd_append (a b : List KEv) : nAdd (a ++ b) = nAdd a + nAdd b := by simp [nAdd, List.countP_append]
theorem nBody_append (r : String) (a b : List KEv) : nBody r (a ++ b) = nBody r a + nBody r b := by
  simp [nBody, List.countP_append]

/-- the counters the calls add up to are the operators that ran -/
def Bal (evs : List KEv) : Prop :=
  cnt "payload_mul" evs = nMul evs ∧ cnt "payload_update" evs = nUpd evs ∧ cnt "payload_add" evs = nAdd evs

theorem Bal.nil : Bal [] := by simp [Bal, cnt, callsOf, sumInc, nMul, nUpd, nAdd]

theorem Bal.append {a b : List KEv} (ha : Bal a) (hb : Bal b) : Bal (a ++ b) := by
  obtain ⟨a1, a2, a3⟩ := ha
  obtain ⟨b1, b2, b3⟩ := hb
  refine ⟨?_, ?_, ?_⟩
  · rw [cnt_append, nMul_append, a1, b1]; omega
  · rw [cnt_append, nUpd_append, a2, b2]; omega
  · rw [cnt_append, nAdd_append, a3, b3]; omega

theorem strip_compute : strip "Compute" = "Compute" := by decide

theorem Bal.mulEv : Bal mulEv := by
  simp [Bal, cnt, callsOf, sumInc, nMul, nUpd, nAdd, Ft.C15.mulEv, strip_compute]

theorem Bal.iaddEv (old : Int) : Bal (iaddEv old) := by
  by_cases h : old = 0
  · subst h
    simp [Bal, cnt, callsOf, sumInc, nMul, nUpd, nAdd, Ft.C15.iaddEv, strip_compute]
  · simp [Bal, cnt, callsOf, sumInc, nMul, nUpd, nAdd, Ft.C15.iaddEv, strip_compute, h]

theorem Bal.leaf (b : Body) (zt : ATree) (ops : List Operand) : Bal (leafBody b zt ops).2 := by
  apply leafBody_ind Bal Bal.nil (fun _ _ => Bal.append) Bal.mulEv ?_ ?_ ?_ Bal.iaddEv
  · simp [Bal, cnt, callsOf, sumInc, nMul, nUpd, nAdd, imulEv, strip_compute]
  · simp [Bal, cnt, callsOf, sumInc, nMul, nUpd, nAdd, addEv, strip_compute]
  · simp [Bal, cnt, callsOf, sumInc, nMul, nUpd, nAdd, assignEv, strip_compute]

theorem Bal.iterEv (v : String) (c pos : Int) (inner : List KEv) (h : Bal inner) : Bal (iterEv v c pos inner) := by
  unfold Ft.C15.iterEv
  refine Bal.append (Bal.append ?_ h) ?_
  · simp [Bal, cnt, callsOf, sumInc, nMul, nUpd, nAdd]
  · simp [Bal, cnt, callsOf, sumInc, nMul, nUpd, nAdd]

theorem Bal.iterEvU (v : String) (inner : List KEv) (h : Bal inner) : Bal (iterEvU v inner) := by
  unfold Ft.C15.iterEvU
  refine Bal.append (Bal.append ?_ h) ?_
  · simp [Bal, cnt, callsOf, sumInc, nMul, nUpd, nAdd]
  · simp [Bal, cnt, callsOf, sumInc, nMul, nUpd, nAdd]

theorem Bal.asserts (v : String) (asrt : List KEv) (h : ∀ e ∈ asrt, ∃ d ins, e = KEv.assertShape v d ins) : Bal asrt := by
  induction asrt with
  | nil => exact Bal.nil
  | cons e es ih =>
    obtain ⟨d, ins, rfl⟩ := h e List.mem_cons_self
    have : Bal [KEv.assertShape v d ins] := by simp [Bal, cnt, callsOf, sumInc, nMul, nUpd, nAdd]
    exact Bal.append this (ih (fun e he => h e (List.mem_cons_of_mem _ he)))

theorem runK_bal (cfg : KCfg) (loops zr : List String) (zt : ATree) (ops : List Operand) :
    Bal (runK cfg loops zr zt ops).2 := by
  apply runK_ind cfg false Bal (fun _ => Bal) Bal.nil Bal.leaf (fun _ => Bal.nil) (fun _ _ _ => Bal.append)
    (fun v c pos inner h => Bal.iterEv v c pos inner h) (fun _ v inner h => Bal.iterEvU v inner h)
  · intro v asrt inner ha hi
    refine Bal.append (Bal.append (Bal.append ?_ (Bal.asserts v asrt (fun e he => ⟨cfg.declared, ha e he⟩))) hi) ?_
    · simp [Bal, cnt, callsOf, sumInc, nMul, nUpd, nAdd]
    · simp [Bal, cnt, callsOf, sumInc, nMul, nUpd, nAdd]
  · intro h; cases h

/-! ### "iter" uses and loop bodies -/

def UB (evs : List KEv) : Prop := ∀ r, nUse r "iter" (callsOf evs) = nBody r evs

theorem nUse_append' (r ty : String) (a b : List MOp) : nUse r ty (a ++ b) = nUse r ty a + nUse r ty b := by
  simp [nUse, List.countP_append]

theorem UB.nil : UB [] := by intro r; simp [callsOf, nUse, nBody]

theorem UB.append {a b : List KEv} (ha : UB a) (hb : UB b) : UB (a ++ b) := by
  intro r; rw [callsOf_append, nUse_append', nBody_append, ha r, hb r]

theorem UB.leaf (b : Body) (zt : ATree) (ops : List Operand) : UB (leafBody b zt ops).2 := by
  apply leafBody_ind UB UB.nil (fun _ _ => UB.append)
  · intro r; simp [callsOf, nUse, nBody, mulEv]
  · intro r; simp [callsOf, nUse, nBody, imulEv]
  · intro r; simp [callsOf, nUse, nBody, addEv]
  · intro r; simp [callsOf, nUse, nBody, assignEv]
  · intro old r
    unfold iaddEv
    split <;> simp [callsOf, nUse, nBody]

theorem UB.iterEv (v : String) (c pos : Int) (inner : List KEv) (h : UB inner) : UB (iterEv v c pos inner) := by
  unfold Ft.C15.iterEv
  refine UB.append (UB.append ?_ h) ?_
  · intro r
    by_cases hr : v = r
    · subst hr; simp [callsOf, nUse, nBody]
    · have h1 : (v == r) = false := by simpa using hr
      have h2 : (KEv.body v == KEv.body r) = false := by
        cases hb : (KEv.body v == KEv.body r) with
        | false => rfl
        | true => exact absurd (KEv.body.inj (eq_of_beq hb)) hr
      simp [callsOf, nUse, nBody, h1, h2, List.countP_cons]
  · intro r; simp [callsOf, nUse, nBody]

theorem runK_ub (cfg : KCfg) (loops zr : List String) (zt : ATree) (ops : List Operand)
    (hU : ∀ o ∈ ops, o.uShape = none) : UB (runK cfg loops zr zt ops).2 := by
  apply runK_ind cfg true UB (fun _ => UB) UB.nil UB.leaf (fun _ => UB.nil) (fun _ _ _ => UB.append)
    (fun v c pos inner h => UB.iterEv v c pos inner h) (fun h => by cases h)
  · intro v asrt inner ha hi
    refine UB.append (UB.append (UB.append ?_ ?_) hi) ?_
    · intro r; simp [callsOf, nUse, nBody]
    · induction asrt with
      | nil => exact UB.nil
      | cons e es ih =>
        obtain ⟨ins, rfl⟩ := ha e List.mem_cons_self
        have : UB [KEv.assertShape v cfg.declared ins] := by intro r; simp [callsOf, nUse, nBody]
        exact UB.append this (ih (fun e he => ha e (List.mem_cons_of_mem _ he)))
    · intro r; simp [callsOf, nUse, nBody]
  · intro _; exact hU

end Ft.C15

namespace Ft.C15
open Ft

/-! ### every call is made on a registered rank -/

/-- the registered ranks after the calls `a` -/
def regsAfter (regd : List String) : List MOp → List String
  | [] => regd
  | .registerRank r :: rest => regsAfter (r :: regd) rest
  | _ :: rest => regsAfter regd rest

theorem regsAfter_mono (x : String) : ∀ (a : List MOp) (regd : List String), regd.contains x = true →
    (regsAfter regd a).contains x = true := by
  intro a
  induction a with
  | nil => intro regd h; exact h
  | cons op a ih =>
    intro regd h
    cases op <;> simp only [regsAfter] <;> try exact ih regd h
    apply ih
    simp only [List.contains_cons, h, Bool.or_true]

theorem safeB_append : ∀ (a b : List MOp) (regd : List String),
    safeB regd (a ++ b) = (safeB regd a && safeB (regsAfter regd a) b) := by
  intro a
  induction a with
  | nil => intro b regd; simp [safeB, regsAfter]
  | cons op a ih =>
    intro b regd
    cases op with
    | registerRank r => simp only [List.cons_append, safeB, regsAfter, ih]
    | addUse r c pos t itn =>
      cases itn with
      | none => simp only [List.cons_append, safeB, regsAfter, ih, Bool.and_assoc]
      | some l => simp [safeB]
    | incIter r => simp only [List.cons_append, safeB, regsAfter, ih, Bool.and_assoc]
    | endIter r => simp only [List.cons_append, safeB, regsAfter, ih, Bool.and_assoc]
    | incCount l k n => simp only [List.cons_append, safeB, regsAfter, ih]
    | beginCollect p => simp [safeB]
    | endCollect => simp [safeB]
    | getLabel r => simp [safeB]
    | getIndex r => simp [safeB]
    | getIter => simp [safeB]
    | isCollecting => simp [safeB]
    | isTraced r t => simp [safeB]
    | matchRanks a b => simp [safeB]
    | trace r t c => simp [safeB]
    | consumeTrace r t => simp [safeB]
    | setNumCachedUses n => simp [safeB]
    | associateShape r => simp [safeB]
    | dump => simp [safeB]

/-- a closed (sub-)kernel is safe from any set of registered ranks -/
def Safe (evs : List KEv) : Prop := ∀ regd, safeB regd (callsOf evs) = true
/-- the inside of the loop at `v` is safe once `v` is registered -/
def SafeIn (v : String) (evs : List KEv) : Prop := ∀ regd, regd.contains v = true → safeB regd (callsOf evs) = true

theorem Safe.nil : Safe [] := fun _ => rfl
theorem SafeIn.nil (v : String) : SafeIn v [] := fun _ _ => rfl

theorem SafeIn.append {v : String} {a b : List KEv} (ha : SafeIn v a) (hb : SafeIn v b) : SafeIn v (a ++ b) := by
  intro regd h
  rw [callsOf_append, safeB_append, ha regd h, hb _ (regsAfter_mono v _ regd h)]; rfl

theorem Safe.toIn {v : String} {a : List KEv} (h : Safe a) : SafeIn v a := fun regd _ => h regd

theorem Safe.leaf (b : Body) (zt : ATree) (ops : List Operand) : Safe (leafBody b zt ops).2 := by
  have happ : ∀ a b, Safe a → Safe b → Safe (a ++ b) := by
    intro a b ha hb regd
    rw [callsOf_append, safeB_append, ha regd, hb _]; rfl
  apply leafBody_ind Safe Safe.nil happ
  · intro regd; simp [callsOf, safeB, mulEv]
  · intro regd; simp [callsOf, safeB, imulEv]
  · intro regd; simp [callsOf, safeB, addEv]
  · intro regd; simp [callsOf, safeB, assignEv]
  · intro old regd
    unfold iaddEv
    split <;> simp [callsOf, safeB]

theorem SafeIn.iterEv (v : String) (c pos : Int) (inner : List KEv) (h : Safe inner) :
    SafeIn v (iterEv v c pos inner) := by
  unfold Ft.C15.iterEv
  refine SafeIn.append (SafeIn.append ?_ h.toIn) ?_
  · intro regd hv; simp only [callsOf, List.filterMap_cons, List.filterMap_nil, safeB, hv]; rfl
  · intro regd hv; simp only [callsOf, List.filterMap_cons, List.filterMap_nil, safeB, hv]; rfl

theorem SafeIn.iterEvU (v : String) (inner : List KEv) (h : Safe inner) : SafeIn v (iterEvU v inner) := by
  unfold Ft.C15.iterEvU
  refine SafeIn.append (SafeIn.append ?_ h.toIn) ?_
  · intro regd hv; simp [callsOf, safeB]
  · intro regd hv; simp only [callsOf, List.filterMap_cons, List.filterMap_nil, safeB, hv]; rfl

theorem callsOf_asserts (v : String) (asrt : List KEv) (h : ∀ e ∈ asrt, ∃ d ins, e = KEv.assertShape v d ins) :
    callsOf asrt = [] := by
  induction asrt with
  | nil => rfl
  | cons e es ih =>
    obtain ⟨d, ins, rfl⟩ := h e List.mem_cons_self
    simp only [callsOf, List.filterMap_cons]
    exact ih (fun e he => h e (List.mem_cons_of_mem _ he))

theorem runK_safe (cfg : KCfg) (loops zr : List String) (zt : ATree) (ops : List Operand) :
    Safe (runK cfg loops zr zt ops).2 := by
  apply runK_ind cfg false Safe SafeIn Safe.nil Safe.leaf SafeIn.nil (fun _ _ _ => SafeIn.append)
    (fun v c pos inner h => SafeIn.iterEv v c pos inner h) (fun _ v inner h => SafeIn.iterEvU v inner h)
  · intro v asrt inner ha hi regd
    rw [callsOf_append, callsOf_append, callsOf_append, callsOf_asserts v asrt (fun e he => ⟨cfg.declared, ha e he⟩)]
    have h1 : callsOf [KEv.call (.registerRank v)] = [.registerRank v] := rfl
    have h2 : callsOf [KEv.call (.endIter v)] = [.endIter v] := rfl
    rw [h1, h2]
    simp only [List.append_nil, List.singleton_append]
    have hv : (v :: regd).contains v = true := by simp
    rw [safeB_append]
    simp only [safeB, regsAfter, hi _ hv, Bool.true_and, Bool.and_true]
    exact regsAfter_mono v _ _ hv
  · intro h; cases h

theorem registers_cons' (r : String) (op : MOp) (ops : List MOp) :
    registers r (op :: ops) = (op == .registerRank r || registers r ops) := by
  simp only [registers, List.contains_cons]
  cases h : (MOp.registerRank r == op) <;> cases h' : (op == MOp.registerRank r) <;> simp_all

theorem nUse_cons' (r ty : String) (op : MOp) (ops : List MOp) :
    nUse r ty (op :: ops) = nUse r ty [op] + nUse r ty ops := by
  simp only [nUse, List.countP_cons, List.countP_nil]; omega

/-! ### assertions, and what kind of calls a kernel makes -/

theorem runK_asserts (cfg : KCfg) (loops zr : List String) (zt : ATree) (ops : List Operand) :
    ∀ e ∈ (runK cfg loops zr zt ops).2, ∀ v d ins, e = KEv.assertShape v d ins → d = cfg.declared := by
  let P : List KEv → Prop := fun evs => ∀ e ∈ evs, ∀ v d ins, e = KEv.assertShape v d ins → d = cfg.declared
  have happ : ∀ a b, P a → P b → P (a ++ b) := by
    intro a b ha hb e he
    rcases List.mem_append.1 he with h | h
    · exact ha e h
    · exact hb e h
  have hsing : ∀ op, P [KEv.call op] := by
    intro op e he v d ins h
    simp only [List.mem_singleton] at he; subst he; cases h
  apply runK_ind cfg false P (fun _ => P)
  · intro e he; cases he
  · intro b zt ops
    have hnone : ∀ (l : List KEv), (∀ e ∈ l, ∀ v d ins, e ≠ KEv.assertShape v d ins) → P l :=
      fun l hl e he v d ins h => absurd h (hl e he v d ins)
    apply leafBody_ind P (fun e he => by cases he) happ
    · exact hnone _ (by intro e he v d ins; simp only [mulEv, List.mem_cons, List.not_mem_nil, or_false] at he; rcases he with rfl | rfl <;> simp)
    · exact hnone _ (by intro e he v d ins; simp only [imulEv, List.mem_cons, List.not_mem_nil, or_false] at he; rcases he with rfl | rfl | rfl <;> simp)
    · exact hnone _ (by intro e he v d ins; simp only [addEv, List.mem_cons, List.not_mem_nil, or_false] at he; rcases he with rfl | rfl <;> simp)
    · exact hnone _ (by intro e he v d ins; simp only [assignEv, List.mem_cons, List.not_mem_nil, or_false] at he; rcases he with rfl | rfl <;> simp)
    · intro old
      apply hnone
      intro e he v d ins
      unfold iaddEv at he
      split at he <;> simp at he <;> rcases he with rfl | rfl | rfl <;> simp
  · intro v e he; cases he
  · intro v a b; exact happ a b
  · intro v c pos inner hi
    unfold iterEv
    refine happ _ _ (happ _ _ ?_ hi) (hsing _)
    intro e he v' d ins h
    simp only [List.mem_cons, List.mem_singleton, List.not_mem_nil, or_false] at he
    rcases he with rfl | rfl <;> cases h
  · intro _ v inner hi
    unfold iterEvU
    refine happ _ _ (happ _ _ ?_ hi) (hsing _)
    intro e he v' d ins h
    simp only [List.mem_singleton] at he; subst he; cases h
  · intro v asrt inner ha hi
    refine happ _ _ (happ _ _ (happ _ _ (hsing _) ?_) hi) (hsing _)
    intro e he v' d ins h
    obtain ⟨ins', hins⟩ := ha e he
    rw [hins] at h
    exact ((KEv.assertShape.inj h).2.1).symm
  · intro h; cases h

theorem assertsOk_of_declared (wtr : String → Bool) (b : Body) (loops zr : List String) (zt : ATree) (ops : List Operand) :
    assertsOk wtr (runK { declared := true, body := b } loops zr zt ops).2 = true := by
  unfold assertsOk
  rw [List.all_eq_true]
  intro e he
  cases e with
  | assertShape v d ins =>
    have := runK_asserts { declared := true, body := b } loops zr zt ops _ he v d ins rfl
    subst this; rfl
  | call op => rfl
  | body r => rfl
  | pop o => rfl

/-- … nor when the destination's write trace is not being collected -/
theorem assertsOk_of_untraced (wtr : String → Bool) (hw : ∀ v, wtr v = false) (evs : List KEv) :
    assertsOk wtr evs = true := by
  unfold assertsOk
  rw [List.all_eq_true]
  intro e _
  cases e with
  | assertShape v d ins => simp [hw v]
  | call op => rfl
  | body r => rfl
  | pop o => rfl

theorem inBody_of_safe : ∀ (ops : List MOp) (regd : List String), safeB regd ops = true → ∀ op ∈ ops, op.inBody = true := by
  intro ops
  induction ops with
  | nil => intro _ _ op h; cases h
  | cons o ops ih =>
    intro regd hs op hop
    cases o with
    | registerRank r =>
      simp only [safeB] at hs
      rcases List.mem_cons.1 hop with rfl | h
      · rfl
      · exact ih _ hs op h
    | addUse r c pos t itn =>
      cases itn with
      | some l => simp [safeB] at hs
      | none =>
        simp only [safeB, Bool.and_eq_true] at hs
        rcases List.mem_cons.1 hop with rfl | h
        · rfl
        · exact ih _ hs.2 op h
    | incIter r =>
      simp only [safeB, Bool.and_eq_true] at hs
      rcases List.mem_cons.1 hop with rfl | h
      · rfl
      · exact ih _ hs.2 op h
    | endIter r =>
      simp only [safeB, Bool.and_eq_true] at hs
      rcases List.mem_cons.1 hop with rfl | h
      · rfl
      · exact ih _ hs.2 op h
    | incCount l k n =>
      simp only [safeB] at hs
      rcases List.mem_cons.1 hop with rfl | h
      · rfl
      · exact ih _ hs op h
    | beginCollect q => simp [safeB] at hs
    | endCollect => simp [safeB] at hs
    | getLabel r => simp [safeB] at hs
    | getIndex r => simp [safeB] at hs
    | getIter => simp [safeB] at hs
    | isCollecting => simp [safeB] at hs
    | isTraced r t => simp [safeB] at hs
    | matchRanks a b => simp [safeB] at hs
    | trace r t c => simp [safeB] at hs
    | consumeTrace r t => simp [safeB] at hs
    | setNumCachedUses n => simp [safeB] at hs
    | associateShape r => simp [safeB] at hs
    | dump => simp [safeB] at hs

/-- a rank that is never registered is never used -/
theorem nUse_zero_of_safe (r ty : String) : ∀ (ops : List MOp) (regd : List String), safeB regd ops = true →
    regd.contains r = false → registers r ops = false → nUse r ty ops = 0 := by
  intro ops
  induction ops with
  | nil => intro _ _ _ _; rfl
  | cons o ops ih =>
    intro regd hs hr hreg
    rw [registers_cons'] at hreg
    simp only [Bool.or_eq_false_iff] at hreg
    rw [nUse_cons']
    cases o with
    | registerRank q =>
      simp only [safeB] at hs
      have hq : q ≠ r := by
        intro e; subst e
        simp at hreg
      have : (q :: regd).contains r = false := by
        simp only [List.contains_cons, hr, Bool.or_false]
        simpa using (Ne.symm hq)
      rw [ih _ hs this hreg.2]; simp [nUse]
    | addUse q c pos t itn =>
      cases itn with
      | some l => simp [safeB] at hs
      | none =>
        simp only [safeB, Bool.and_eq_true] at hs
        have hq : (q == r) = false := by
          cases h : (q == r) with
          | false => rfl
          | true => rw [eq_of_beq h] at hs; rw [hs.1] at hr; cases hr
        rw [ih _ hs.2 hr hreg.2]; simp [nUse, hq]
    | incIter q =>
      simp only [safeB, Bool.and_eq_true] at hs
      rw [ih _ hs.2 hr hreg.2]; simp [nUse]
    | endIter q =>
      simp only [safeB, Bool.and_eq_true] at hs
      rw [ih _ hs.2 hr hreg.2]; simp [nUse]
    | incCount l k n =>
      simp only [safeB] at hs
      rw [ih _ hs hr hreg.2]; simp [nUse]
    | beginCollect q => simp [safeB] at hs
    | endCollect => simp [safeB] at hs
    | getLabel q => simp [safeB] at hs
    | getIndex q => simp [safeB] at hs
    | getIter => simp [safeB] at hs
    | isCollecting => simp [safeB] at hs
    | isTraced q t => simp [safeB] at hs
    | matchRanks a b => simp [safeB] at hs
    | trace q t c => simp [safeB] at hs
    | consumeTrace q t => simp [safeB] at hs
    | setNumCachedUses n => simp [safeB] at hs
    | associateShape q => simp [safeB] at hs
    | dump => simp [safeB] at hs

end Ft.C15
