/-
  Helper lemmas about the union / xor / difference merges.
-/
import FtProofs.Lemmas.Sorted
set_option linter.unusedSectionVars false
set_option linter.unusedSimpArgs false
namespace Ft
open StrictTotal

section
variable {κ : Type} [LT κ] [DecidableRel (α := κ) (· < ·)] [DecidableEq κ] [StrictTotal κ]
variable {α β π : Type}

/-- coordinate membership as a Prop -/
def HasKey (f : Fib κ π) (c : κ) : Prop := ∃ e ∈ f, e.1 = c

theorem hasCoord_iff (f : Fib κ π) (c : κ) : hasCoord f c = true ↔ HasKey f c := by
  simp [hasCoord, HasKey]

theorem hasKey_cons {e : κ × π} {f : Fib κ π} {c : κ} :
    HasKey (e :: f) c ↔ e.1 = c ∨ HasKey f c := by
  simp [HasKey]

theorem not_hasKey_nil (c : κ) : ¬ HasKey ([] : Fib κ π) c := by simp [HasKey]

theorem Sorted.lt_of_hasKey {e : κ × π} {f : Fib κ π} (h : Sorted (e :: f)) {c : κ}
    (hc : HasKey f c) : e.1 < c := by
  obtain ⟨x, hx, rfl⟩ := hc
  exact h.head_lt x hx

theorem sorted_map_key {γ : Type} (f : Fib κ π) (g : κ × π → γ) (h : Sorted f) :
    Sorted (f.map (fun e => (e.1, g e))) := by
  unfold Sorted at *
  rw [List.pairwise_map]
  exact h

theorem hasKey_map_key {γ : Type} (f : Fib κ π) (g : κ × π → γ) (c : κ) :
    HasKey (f.map (fun e => (e.1, g e))) c ↔ HasKey f c := by
  unfold HasKey
  constructor
  · rintro ⟨e, he, rfl⟩
    obtain ⟨x, hx, rfl⟩ := List.mem_map.1 he
    exact ⟨x, hx, rfl⟩
  · rintro ⟨x, hx, rfl⟩
    exact ⟨_, List.mem_map.2 ⟨x, hx, rfl⟩, rfl⟩

/-- keys of a union come from the operands -/
theorem orMerge_keys (a : Fib κ α) (b : Fib κ β) (c : κ) :
    HasKey (orMerge a b) c → HasKey a c ∨ HasKey b c := by
  fun_induction orMerge a b with
  | case1 b => intro h; right; exact (hasKey_map_key b _ c).1 h
  | case2 e r => intro h; left; exact (hasKey_map_key (e :: r) _ c).1 h
  | case3 pa ra ca pb rb ih =>
    intro h
    rcases hasKey_cons.1 h with h | h
    · left; exact hasKey_cons.2 (Or.inl h)
    · rcases ih h with h | h
      · left; exact hasKey_cons.2 (Or.inr h)
      · right; exact hasKey_cons.2 (Or.inr h)
  | case4 ca pa ra cb pb rb hne hlt ih =>
    intro h
    rcases hasKey_cons.1 h with h | h
    · left; exact hasKey_cons.2 (Or.inl h)
    · rcases ih h with h | h
      · left; exact hasKey_cons.2 (Or.inr h)
      · right; exact h
  | case5 ca pa ra cb pb rb hne hnlt ih =>
    intro h
    rcases hasKey_cons.1 h with h | h
    · right; exact hasKey_cons.2 (Or.inl h)
    · rcases ih h with h | h
      · left; exact h
      · right; exact hasKey_cons.2 (Or.inr h)

theorem gt_of_not_lt_ne {a b : κ} (hne : ¬ a = b) (hnlt : ¬ a < b) : b < a := by
  rcases tri a b with h | h | h
  · exact absurd h hnlt
  · exact absurd h hne
  · exact h

theorem sorted_cons_of_keys {e : κ × π} {f : Fib κ π} (hs : Sorted f)
    (h : ∀ c, HasKey f c → e.1 < c) : Sorted (e :: f) :=
  sorted_cons.2 ⟨fun x hx => h x.1 ⟨x, hx, rfl⟩, hs⟩

theorem Sorted.lt_of_hasKey_cons {e : κ × π} {f : Fib κ π} (h : Sorted (e :: f)) {c x : κ}
    (hx : x < e.1) (hc : HasKey (e :: f) c) : x < c := by
  rcases hasKey_cons.1 hc with rfl | hc
  · exact hx
  · exact trans hx (h.lt_of_hasKey hc)

/-- the union of sorted operands is sorted -/
theorem orMerge_sorted (a : Fib κ α) (b : Fib κ β) (ha : Sorted a) (hb : Sorted b) :
    Sorted (orMerge a b) := by
  fun_induction orMerge a b with
  | case1 b => exact sorted_map_key b _ hb
  | case2 e r => exact sorted_map_key (e :: r) _ ha
  | case3 pa ra ca pb rb ih =>
    refine sorted_cons_of_keys (ih ha.tail hb.tail) ?_
    intro c hc
    rcases orMerge_keys _ _ c hc with h | h
    · exact ha.lt_of_hasKey h
    · exact hb.lt_of_hasKey h
  | case4 ca pa ra cb pb rb hne hlt ih =>
    refine sorted_cons_of_keys (ih ha.tail hb) ?_
    intro c hc
    rcases orMerge_keys _ _ c hc with h | h
    · exact ha.lt_of_hasKey h
    · exact hb.lt_of_hasKey_cons hlt h
  | case5 ca pa ra cb pb rb hne hnlt ih =>
    have hgt := gt_of_not_lt_ne hne hnlt
    refine sorted_cons_of_keys (ih ha hb.tail) ?_
    intro c hc
    rcases orMerge_keys _ _ c hc with h | h
    · exact ha.lt_of_hasKey_cons hgt h
    · exact hb.lt_of_hasKey h

/-- every operand coordinate appears in the union -/
theorem orMerge_cover (a : Fib κ α) (b : Fib κ β) (c : κ) :
    HasKey a c ∨ HasKey b c → HasKey (orMerge a b) c := by
  fun_induction orMerge a b with
  | case1 b =>
    rintro (h | h)
    · exact absurd h (not_hasKey_nil c)
    · exact (hasKey_map_key b _ c).2 h
  | case2 e r =>
    rintro (h | h)
    · exact (hasKey_map_key (e :: r) _ c).2 h
    · exact absurd h (not_hasKey_nil c)
  | case3 pa ra ca pb rb ih =>
    rintro (h | h)
    · rcases hasKey_cons.1 h with h | h
      · exact hasKey_cons.2 (Or.inl h)
      · exact hasKey_cons.2 (Or.inr (ih (Or.inl h)))
    · rcases hasKey_cons.1 h with h | h
      · exact hasKey_cons.2 (Or.inl h)
      · exact hasKey_cons.2 (Or.inr (ih (Or.inr h)))
  | case4 ca pa ra cb pb rb hne hlt ih =>
    rintro (h | h)
    · rcases hasKey_cons.1 h with h | h
      · exact hasKey_cons.2 (Or.inl h)
      · exact hasKey_cons.2 (Or.inr (ih (Or.inl h)))
    · exact hasKey_cons.2 (Or.inr (ih (Or.inr h)))
  | case5 ca pa ra cb pb rb hne hnlt ih =>
    rintro (h | h)
    · exact hasKey_cons.2 (Or.inr (ih (Or.inl h)))
    · rcases hasKey_cons.1 h with h | h
      · exact hasKey_cons.2 (Or.inl h)
      · exact hasKey_cons.2 (Or.inr (ih (Or.inr h)))

theorem lookup_cons_ne {e : κ × π} {f : Fib κ π} {c : κ} (h : e.1 ≠ c) :
    lookup (e :: f) c = lookup f c := by
  rw [lookup_cons]; simp [h]

theorem hasCoord_cons_ne {e : κ × π} {f : Fib κ π} {c : κ} (h : e.1 ≠ c) :
    hasCoord (e :: f) c = hasCoord f c := by
  rw [hasCoord_cons]; simp [h]

theorem lookup_none_of_not_hasKey {f : Fib κ π} {c : κ} (h : ¬ HasKey f c) : lookup f c = none := by
  have := hasCoord_iff_lookup f c
  cases hl : lookup f c with
  | none => rfl
  | some v =>
    rw [hl] at this
    exact absurd ((hasCoord_iff f c).1 (by simpa using this)) h

end
end Ft

namespace Ft
open StrictTotal
section
variable {κ : Type} [LT κ] [DecidableRel (α := κ) (· < ·)] [DecidableEq κ] [StrictTotal κ]
variable {α β π : Type}

/-- a union row is correct: operands' own payloads, mask = sides present -/
def OrRow (a : Fib κ α) (b : Fib κ β) (row : κ × Mask × Option α × Option β) : Prop :=
  row.2.2.1 = lookup a row.1 ∧ row.2.2.2 = lookup b row.1 ∧
  some row.2.1 = maskOf (hasCoord a row.1) (hasCoord b row.1)

theorem orRowOk_iff [DecidableEq α] [DecidableEq β] (a : Fib κ α) (b : Fib κ β)
    (row : κ × Mask × Option α × Option β) : orRowOk a b row = true ↔ OrRow a b row := by
  simp [orRowOk, OrRow, and_assoc]

theorem OrRow.cons_left {a : Fib κ α} {b : Fib κ β} {row} (e : κ × α) (h : OrRow a b row)
    (hne : e.1 ≠ row.1) : OrRow (e :: a) b row := by
  unfold OrRow at *
  rw [lookup_cons_ne hne, hasCoord_cons_ne hne]; exact h

theorem OrRow.cons_right {a : Fib κ α} {b : Fib κ β} {row} (e : κ × β) (h : OrRow a b row)
    (hne : e.1 ≠ row.1) : OrRow a (e :: b) row := by
  unfold OrRow at *
  rw [lookup_cons_ne hne, hasCoord_cons_ne hne]; exact h

theorem lookup_of_sorted_mem {f : Fib κ π} (hs : Sorted f) {e : κ × π} (he : e ∈ f) :
    lookup f e.1 = some e.2 := by
  induction f with
  | nil => cases he
  | cons x r ih =>
    rcases List.mem_cons.1 he with rfl | he
    · simp [lookup_cons]
    · have : x.1 ≠ e.1 := lt_ne (hs.head_lt e he)
      rw [lookup_cons_ne this]; exact ih hs.tail he

theorem hasCoord_of_mem {f : Fib κ π} {e : κ × π} (he : e ∈ f) : hasCoord f e.1 = true :=
  (hasCoord_iff f e.1).2 ⟨e, he, rfl⟩

theorem hasCoord_false_of_not_hasKey {f : Fib κ π} {c : κ} (h : ¬ HasKey f c) : hasCoord f c = false := by
  rw [← Bool.not_eq_true, hasCoord_iff]; exact h

theorem orMerge_rows (a : Fib κ α) (b : Fib κ β) (ha : Sorted a) (hb : Sorted b) :
    ∀ row ∈ orMerge a b, OrRow a b row := by
  fun_induction orMerge a b with
  | case1 b =>
    intro row hrow
    obtain ⟨e, he, rfl⟩ := List.mem_map.1 hrow
    refine ⟨rfl, ?_, ?_⟩
    · exact (lookup_of_sorted_mem hb he).symm
    · show some Mask.B = maskOf (hasCoord ([] : Fib κ α) e.1) (hasCoord b e.1)
      rw [hasCoord_of_mem he]; rfl
  | case2 e r =>
    intro row hrow
    obtain ⟨x, hx, rfl⟩ := List.mem_map.1 hrow
    refine ⟨?_, rfl, ?_⟩
    · exact (lookup_of_sorted_mem ha hx).symm
    · show some Mask.A = maskOf (hasCoord (e :: r) x.1) (hasCoord ([] : Fib κ β) x.1)
      rw [hasCoord_of_mem hx]; rfl
  | case3 pa ra ca pb rb ih =>
    intro row hrow
    rcases List.mem_cons.1 hrow with rfl | hrow
    · simp [OrRow, lookup_cons, hasCoord_cons, maskOf]
    · have hk : HasKey (orMerge ra rb) row.1 := ⟨row, hrow, rfl⟩
      have hlt : ca < row.1 := by
        rcases orMerge_keys _ _ _ hk with h | h
        · exact ha.lt_of_hasKey h
        · exact hb.lt_of_hasKey h
      exact ((ih ha.tail hb.tail row hrow).cons_left (ca, pa) (lt_ne hlt)).cons_right (ca, pb) (lt_ne hlt)
  | case4 ca pa ra cb pb rb hne hlt ih =>
    intro row hrow
    have hnb : ¬ HasKey ((cb, pb) :: rb) ca := by
      intro h; exact irrefl ca (hb.lt_of_hasKey_cons hlt h)
    rcases List.mem_cons.1 hrow with rfl | hrow
    · simp [OrRow, lookup_cons, hasCoord_cons, maskOf, hne, lookup_none_of_not_hasKey hnb,
        hasCoord_false_of_not_hasKey hnb]
    · have hk : HasKey (orMerge ra ((cb, pb) :: rb)) row.1 := ⟨row, hrow, rfl⟩
      have hlt' : ca < row.1 := by
        rcases orMerge_keys _ _ _ hk with h | h
        · exact ha.lt_of_hasKey h
        · exact hb.lt_of_hasKey_cons hlt h
      exact (ih ha.tail hb row hrow).cons_left (ca, pa) (lt_ne hlt')
  | case5 ca pa ra cb pb rb hne hnlt ih =>
    have hgt := gt_of_not_lt_ne hne hnlt
    intro row hrow
    have hna : ¬ HasKey ((ca, pa) :: ra) cb := by
      intro h; exact irrefl cb (ha.lt_of_hasKey_cons hgt h)
    rcases List.mem_cons.1 hrow with rfl | hrow
    · refine ⟨?_, ?_, ?_⟩
      · exact (lookup_none_of_not_hasKey hna).symm
      · simp [lookup_cons]
      · simp [hasCoord_false_of_not_hasKey hna, hasCoord_cons, maskOf]
    · have hk : HasKey (orMerge ((ca, pa) :: ra) rb) row.1 := ⟨row, hrow, rfl⟩
      have hlt' : cb < row.1 := by
        rcases orMerge_keys _ _ _ hk with h | h
        · exact ha.lt_of_hasKey_cons hgt h
        · exact hb.lt_of_hasKey h
      exact (ih ha hb.tail row hrow).cons_right (cb, pb) (lt_ne hlt')

/-- two sorted lists whose rows are a function of their key and which have the same
    key set are equal -/
theorem sorted_ext_of_fn {F : κ → π} :
    ∀ (l₁ l₂ : Fib κ π), Sorted l₁ → Sorted l₂ →
    (∀ r ∈ l₁, r.2 = F r.1) → (∀ r ∈ l₂, r.2 = F r.1) →
    (∀ c, HasKey l₁ c ↔ HasKey l₂ c) → l₁ = l₂
  | [], [], _, _, _, _, _ => rfl
  | [], y :: s, _, _, _, _, hk => absurd ((hk y.1).2 ⟨y, List.mem_cons_self .., rfl⟩) (not_hasKey_nil _)
  | x :: r, [], _, _, _, _, hk => absurd ((hk x.1).1 ⟨x, List.mem_cons_self .., rfl⟩) (not_hasKey_nil _)
  | x :: r, y :: s, h1, h2, f1, f2, hk => by
    have hxy : x.1 = y.1 := by
      have hx := (hk x.1).1 (hasKey_cons.2 (Or.inl rfl))
      have hy := (hk y.1).2 (hasKey_cons.2 (Or.inl rfl))
      rcases hasKey_cons.1 hx with h | h
      · exact h.symm
      · rcases hasKey_cons.1 hy with h' | h'
        · exact h'
        · exact absurd (h1.lt_of_hasKey h') (lt_asymm' (h2.lt_of_hasKey h))
    have hxy' : x = y := by
      have e1 := f1 x (List.mem_cons_self ..)
      have e2 := f2 y (List.mem_cons_self ..)
      rw [hxy] at e1
      exact Prod.ext hxy (e1.trans e2.symm)
    subst hxy'
    congr 1
    apply sorted_ext_of_fn r s h1.tail h2.tail
      (fun z hz => f1 z (List.mem_cons_of_mem _ hz)) (fun z hz => f2 z (List.mem_cons_of_mem _ hz))
    intro c
    constructor
    · intro hc
      rcases hasKey_cons.1 ((hk c).1 (hasKey_cons.2 (Or.inr hc))) with h | h
      · exact absurd (h1.lt_of_hasKey hc) (by rw [h]; exact irrefl c)
      · exact h
    · intro hc
      rcases hasKey_cons.1 ((hk c).2 (hasKey_cons.2 (Or.inr hc))) with h | h
      · exact absurd (h2.lt_of_hasKey hc) (by rw [h]; exact irrefl c)
      · exact h

end
end Ft
