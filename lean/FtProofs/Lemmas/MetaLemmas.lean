/-
  Helper lemmas for C14 (FtModel/Meta.lean): looking entries up by rank id on lists without
  duplicates, the common suffix computed by swizzle, unflatten's loops, shape estimation.
-/
import FtModel.Meta
set_option linter.unusedSectionVars false
set_option linter.unusedSimpArgs false
set_option linter.unusedVariables false
namespace Ft.C14

/-! ### lookup by id -/

section look
variable {α : Type}

theorem lookD_cons_self (i : RId) (is : List RId) (x : α) (xs : List α) (d : α) :
    lookD (i :: is) (x :: xs) i d = x := by
  simp [lookD]

theorem lookD_cons_ne (i r : RId) (is : List RId) (x : α) (xs : List α) (d : α) (h : i ≠ r) :
    lookD (i :: is) (x :: xs) r d = lookD is xs r d := by
  simp [lookD, h]

/-- L1: on ids without duplicates, looking every id up gives the list back -/
theorem map_lookD_self (d : α) : ∀ (ids : List RId) (xs : List α), ids.Nodup → xs.length = ids.length →
    ids.map (fun r => lookD ids xs r d) = xs
  | [], [], _, _ => rfl
  | [], _ :: _, _, h => by simp at h
  | _ :: _, [], _, h => by simp at h
  | i :: is, x :: xs, hn, hl => by
    have hn' := List.nodup_cons.1 hn
    simp only [List.map_cons, lookD_cons_self]
    congr 1
    have ih := map_lookD_self d is xs hn'.2 (by simpa using hl)
    rw [← ih]
    apply List.map_congr_left
    intro r hr
    have : i ≠ r := fun e => hn'.1 (e ▸ hr)
    rw [lookD_cons_ne _ _ _ _ _ _ this, ih]

theorem map_take_lookD (d : α) (ids : List RId) (xs : List α) (hn : ids.Nodup) (hl : xs.length = ids.length)
    (k : Nat) : (ids.take k).map (fun r => lookD ids xs r d) = xs.take k := by
  rw [List.map_take, map_lookD_self d ids xs hn hl]

theorem map_drop_lookD (d : α) (ids : List RId) (xs : List α) (hn : ids.Nodup) (hl : xs.length = ids.length)
    (k : Nat) : (ids.drop k).map (fun r => lookD ids xs r d) = xs.drop k := by
  rw [List.map_drop, map_lookD_self d ids xs hn hl]

/-- L2: the entry found for the id stored at position `k` is entry `k` -/
theorem lookD_getElem? (d : α) (ids : List RId) (xs : List α) (hn : ids.Nodup) (hl : xs.length = ids.length)
    (k : Nat) (r : RId) (hr : ids[k]? = some r) : xs[k]? = some (lookD ids xs r d) := by
  have h := map_lookD_self d ids xs hn hl
  have h2 : (ids.map (fun r => lookD ids xs r d))[k]? = xs[k]? := by rw [h]
  rw [List.getElem?_map, hr] at h2
  exact h2.symm

theorem take_succ_of_getElem? (xs : List α) (k : Nat) (x : α) (h : xs[k]? = some x) :
    xs.take (k + 1) = xs.take k ++ [x] := by
  rw [List.take_succ, h]; rfl

theorem drop_of_getElem? (xs : List α) (k : Nat) (x : α) (h : xs[k]? = some x) :
    xs.drop k = x :: xs.drop (k + 1) := by
  obtain ⟨hk, rfl⟩ := List.getElem?_eq_some_iff.1 h
  exact List.drop_eq_getElem_cons hk

theorem lookD_all (d : α) : ∀ (ids : List RId) (xs : List α) (r : RId), (∀ x ∈ xs, x = d) → lookD ids xs r d = d
  | [], _, _, _ => by simp [lookD]
  | _ :: _, [], _, _ => by simp [lookD]
  | i :: is, x :: xs, r, h => by
    unfold lookD
    split
    · exact h x (List.mem_cons_self ..)
    · exact lookD_all d is xs r (fun y hy => h y (List.mem_cons_of_mem _ hy))

theorem map_swapAt {β : Type} (f : α → β) (k : Nat) (l : List α) : (swapAt k l).map f = swapAt k (l.map f) := by
  unfold swapAt
  simp only [List.map_append, List.map_take, List.map_drop]

theorem map_dupAt {β : Type} (f : α → β) (k : Nat) (l : List α) : (dupAt k l).map f = dupAt k (l.map f) := by
  unfold dupAt
  simp only [List.map_append, List.map_take, List.map_drop]

end look

/-! ### the common suffix computed by swizzle -/

theorem zip_takeWhile_take : ∀ (A B : List RId),
    A.take ((A.zip B).takeWhile (fun p => p.1 = p.2)).length =
    B.take ((A.zip B).takeWhile (fun p => p.1 = p.2)).length
  | [], _ => by simp
  | _ :: _, [] => by simp
  | a :: A, b :: B => by
    by_cases h : a = b
    · subst h
      simp only [List.zip_cons_cons, List.takeWhile_cons, decide_true, if_true, List.length_cons,
        List.take_succ_cons]
      rw [zip_takeWhile_take A B]
    · simp [List.takeWhile_cons, h]

/-- from position `swizLen` on, the requested order coincides with the current one -/
theorem swizLen_drop (ids order : List RId) (hl : order.length = ids.length) :
    order.drop (swizLen ids order) = ids.drop (swizLen ids order) := by
  unfold swizLen
  have h := zip_takeWhile_take ids.reverse order.reverse
  rw [List.take_reverse, List.take_reverse] at h
  have h' := List.reverse_inj.1 h
  rw [hl] at h' ⊢
  exact h'.symm

theorem wfB_iff (m : Meta) : m.wfB = true ↔
    m.fmts.length = m.ids.length ∧ (∀ s, m.shape = some s → s.length = m.ids.length) ∧ m.ids.Nodup := by
  unfold Meta.wfB
  cases hs : m.shape with
  | none => simp
  | some s => simp [and_assoc]

/-! ### unflatten -/

section app3
variable {α : Type}

theorem take_app3 (A B : List α) (x y : α) : (A ++ [x, y] ++ B).take (A.length + 1) = A ++ [x] := by
  rw [List.append_assoc, List.take_append]
  simp [List.take_of_length_le]

theorem drop_app3 (A B : List α) (x y : α) : (A ++ [x, y] ++ B).drop (A.length + 2) = B := by
  rw [List.append_assoc, List.drop_append]
  simp

theorem drop_take_mid (A N B : List α) : ((A ++ N ++ B).drop A.length).take N.length = N := by
  rw [List.append_assoc, List.drop_append]
  simp

end app3

/-- the loop replaces the list id at position `k` by `levels + 1` ids and leaves the rest alone -/
theorem unflIds_form : ∀ (l k : Nat) (ids ids' : List RId), unflIds (l + 1) k ids = some ids' →
    ∃ news, news.length = l + 2 ∧ ids' = ids.take k ++ news ++ ids.drop (k + 1)
  | 0, k, ids, ids', h => by
    unfold unflIds at h
    split at h
    · simp only [unflIds, Option.some.injEq] at h
      exact ⟨_, rfl, h.symm⟩
    · simp only [unflIds, Option.some.injEq] at h
      exact ⟨_, rfl, h.symm⟩
    · cases h
  | l + 1, k, ids, ids', h => by
    rw [unflIds] at h
    have step : ∀ (x y : RId), ids[k]?.isSome →
        unflIds (l + 1) (k + 1) (ids.take k ++ [x, y] ++ ids.drop (k + 1)) = some ids' →
        ∃ news, news.length = l + 1 + 2 ∧ ids' = ids.take k ++ news ++ ids.drop (k + 1) := by
      intro x y hk h
      have hklt : k < ids.length := by
        cases hh : ids[k]? with
        | none => rw [hh] at hk; cases hk
        | some v => exact (List.getElem?_eq_some_iff.1 hh).1
      have hlen : (ids.take k).length = k := by simp; omega
      obtain ⟨news, hn, he⟩ := unflIds_form l (k + 1) _ ids' h
      have t := take_app3 (ids.take k) (ids.drop (k + 1)) x y
      have d := drop_app3 (ids.take k) (ids.drop (k + 1)) x y
      rw [hlen] at t d
      rw [t, d] at he
      refine ⟨x :: news, by simp [hn], ?_⟩
      rw [he]; simp
    split at h
    · next a b hh => exact step _ _ (by rw [hh]; rfl) h
    · next a b c r hh => exact step _ _ (by rw [hh]; rfl) h
    · cases h

section mid
variable {α : Type}

theorem getElem?_mid (A B : List α) (x : α) : (A ++ [x] ++ B)[A.length]? = some x := by
  rw [List.append_assoc, List.getElem?_append_right (Nat.le_refl _)]
  simp

theorem take_mid (A B : List α) (x : α) : (A ++ [x] ++ B).take A.length = A := by
  rw [List.append_assoc, List.take_append]
  simp

theorem drop_mid (A B : List α) (x : α) : (A ++ [x] ++ B).drop (A.length + 1) = B := by
  rw [List.append_assoc, List.drop_append]
  simp

end mid

/-- unflatten undoes the id list a flatten made -/
theorem unflIds_many : ∀ (l : Nat) (pre post : List RId) (as : List String), as.length = l + 2 →
    unflIds (l + 1) pre.length (pre ++ [RId.many as] ++ post) = some (pre ++ as.map RId.one ++ post)
  | 0, pre, post, [a, b], _ => by
    rw [unflIds, getElem?_mid]
    simp only [unflIds, take_mid, drop_mid, List.map_cons, List.map_nil]
  | l + 1, pre, post, a :: b :: c :: r, h => by
    rw [unflIds, getElem?_mid]
    simp only [take_mid, drop_mid]
    have ih := unflIds_many l (pre ++ [RId.one a]) post (b :: c :: r) (by simpa using h)
    simp only [List.length_append, List.length_cons, List.length_nil, List.append_assoc, List.cons_append,
      List.nil_append, List.map_cons] at ih ⊢
    exact ih

theorem unflShape_tuple : ∀ (l : Nat) (pre post : List Sx) (seg : List Sx), seg.length = l + 2 →
    unflShape (l + 1) pre.length (pre ++ [Sx.ofList seg] ++ post) = some (pre ++ seg ++ post)
  | 0, pre, post, [a, b], _ => by
    rw [unflShape, getElem?_mid]
    simp only [Sx.ofList, unflShape, take_mid, drop_mid]
  | l + 1, pre, post, a :: b :: c :: r, h => by
    rw [unflShape, getElem?_mid]
    simp only [Sx.ofList, take_mid, drop_mid]
    have ih := unflShape_tuple l (pre ++ [a]) post (b :: c :: r) (by simpa using h)
    simp only [Sx.ofList, List.length_append, List.length_cons, List.length_nil, List.append_assoc,
      List.cons_append, List.nil_append] at ih ⊢
    exact ih

theorem unflShape_pair : ∀ (l : Nat) (pre post : List Sx) (seg : List Sx), seg.length = l + 2 →
    unflShape (l + 1) pre.length (pre ++ [nestPair seg] ++ post) = some (pre ++ seg ++ post)
  | 0, pre, post, [a, b], _ => by
    rw [unflShape, getElem?_mid]
    simp only [nestPair, unflShape, take_mid, drop_mid]
  | l + 1, pre, post, a :: b :: c :: r, h => by
    rw [unflShape, getElem?_mid]
    simp only [nestPair, take_mid, drop_mid]
    have ih := unflShape_pair l (pre ++ [a]) post (b :: c :: r) (by simpa using h)
    simp only [List.length_append, List.length_cons, List.length_nil, List.append_assoc,
      List.cons_append, List.nil_append] at ih ⊢
    exact ih

end Ft.C14
