/-
  Helper lemmas for C14 (FtModel/Meta.lean): looking entries up by rank id on lists without
  duplicates, the common suffix computed by swizzle, unflatten's loops, shape estimation.
-/
import FtModel.Meta
import FtModel.Coiter
import FtProofs.Lemmas.SplitSpec
set_option linter.unusedSectionVars false
set_option linter.unusedSimpArgs false
set_option linter.unusedVariables false
namespace Ft.C14

/-! ### lookup by id -/

section look
variable {α : Type}

theorem lookD_cons_self (i : RId) (is : List RId) (x : α) (xs : List α) (d : α) :
    lookD (i :: is) (x :: xs) i d = x := by
  simp [lookD]

theorem lookD_cons_ne (i r : RId) (is : List RId) (x : α) (xs : List α) (d : α) (h : i ≠ r) :
    lookD (i :: is) (x :: xs) r d = lookD is xs r d := by
  simp [lookD, h]

/-- L1: on ids without duplicates, looking every id up gives the list back -/
theorem map_lookD_self (d : α) : ∀ (ids : List RId) (xs : List α), ids.Nodup → xs.length = ids.length →
    ids.map (fun r => lookD ids xs r d) = xs
  | [], [], _, _ => rfl
  | [], _ :: _, _, h => by simp at h
  | _ :: _, [], _, h => by simp at h
  | i :: is, x :: xs, hn, hl => by
    have hn' := List.nodup_cons.1 hn
    simp only [List.map_cons, lookD_cons_self]
    congr 1
    have ih := map_lookD_self d is xs hn'.2 (by simpa using hl)
    rw [← ih]
    apply List.map_congr_left
    intro r hr
    have : i ≠ r := fun e => hn'.1 (e ▸ hr)
    rw [lookD_cons_ne _ _ _ _ _ _ this, ih]

theorem map_take_lookD (d : α) (ids : List RId) (xs : List α) (hn : ids.Nodup) (hl : xs.length = ids.length)
    (k : Nat) : (ids.take k).map (fun r => lookD ids xs r d) = xs.take k := by
  rw [List.map_take, map_lookD_self d ids xs hn hl]

theorem map_drop_lookD (d : α) (ids : List RId) (xs : List α) (hn : ids.Nodup) (hl : xs.length = ids.length)
    (k : Nat) : (ids.drop k).map (fun r => lookD ids xs r d) = xs.drop k := by
  rw [List.map_drop, map_lookD_self d ids xs hn hl]

/-- L2: the entry found for the id stored at position `k` is entry `k` -/
theorem lookD_getElem? (d : α) (ids : List RId) (xs : List α) (hn : ids.Nodup) (hl : xs.length = ids.length)
    (k : Nat) (r : RId) (hr : ids[k]? = some r) : xs[k]? = some (lookD ids xs r d) := by
  have h := map_lookD_self d ids xs hn hl
  have h2 : (ids.map (fun r => lookD ids xs r d))[k]? = xs[k]? := by rw [h]
  rw [List.getElem?_map, hr] at h2
  exact h2.symm

theorem take_succ_of_getElem? (xs : List α) (k : Nat) (x : α) (h : xs[k]? = some x) :
    xs.take (k + 1) = xs.take k ++ [x] := by
  rw [List.take_succ, h]; rfl

theorem drop_of_getElem? (xs : List α) (k : Nat) (x : α) (h : xs[k]? = some x) :
    xs.drop k = x :: xs.drop (k + 1) := by
  obtain ⟨hk, rfl⟩ := List.getElem?_eq_some_iff.1 h
  exact List.drop_eq_getElem_cons hk

theorem lookD_all (d : α) : ∀ (ids : List RId) (xs : List α) (r : RId), (∀ x ∈ xs, x = d) → lookD ids xs r d = d
  | [], _, _, _ => by simp [lookD]
  | _ :: _, [], _, _ => by simp [lookD]
  | i :: is, x :: xs, r, h => by
    unfold lookD
    split
    · exact h x (List.mem_cons_self ..)
    · exact lookD_all d is xs r (fun y hy => h y (List.mem_cons_of_mem _ hy))

theorem map_swapAt {β : Type} (f : α → β) (k : Nat) (l : List α) : (swapAt k l).map f = swapAt k (l.map f) := by
  unfold swapAt
  simp only [List.map_append, List.map_take, List.map_drop]

theorem map_dupAt {β : Type} (f : α → β) (k : Nat) (l : List α) : (dupAt k l).map f = dupAt k (l.map f) := by
  unfold dupAt
  simp only [List.map_append, List.map_take, List.map_drop]

end look

/-! ### the common suffix computed by swizzle -/

theorem zip_takeWhile_take : ∀ (A B : List RId),
    A.take ((A.zip B).takeWhile (fun p => p.1 = p.2)).length =
    B.take ((A.zip B).takeWhile (fun p => p.1 = p.2)).length
  | [], _ => by simp
  | _ :: _, [] => by simp
  | a :: A, b :: B => by
    by_cases h : a = b
    · subst h
      simp only [List.zip_cons_cons, List.takeWhile_cons, decide_true, if_true, List.length_cons,
        List.take_succ_cons]
      rw [zip_takeWhile_take A B]
    · simp [List.takeWhile_cons, h]

/-- from position `swizLen` on, the requested order coincides with the current one -/
theorem swizLen_drop (ids order : List RId) (hl : order.length = ids.length) :
    order.drop (swizLen ids order) = ids.drop (swizLen ids order) := by
  unfold swizLen
  have h := zip_takeWhile_take ids.reverse order.reverse
  rw [List.take_reverse, List.take_reverse] at h
  have h' := List.reverse_inj.1 h
  rw [hl] at h' ⊢
  exact h'.symm

theorem metaWfB_iff (m : Meta) : m.wfB = true ↔
    m.fmts.length = m.ids.length ∧ (∀ s, m.shape = some s → s.length = m.ids.length) ∧ m.ids.Nodup := by
  unfold Meta.wfB
  cases hs : m.shape with
  | none => simp
  | some s => simp [and_assoc]

/-! ### unflatten -/

section app3
variable {α : Type}

theorem take_app3 (A B : List α) (x y : α) : (A ++ [x, y] ++ B).take (A.length + 1) = A ++ [x] := by
  rw [List.append_assoc, List.take_append]
  simp [List.take_of_length_le]

theorem drop_app3 (A B : List α) (x y : α) : (A ++ [x, y] ++ B).drop (A.length + 2) = B := by
  rw [List.append_assoc, List.drop_append]
  simp

theorem drop_take_mid (A N B : List α) : ((A ++ N ++ B).drop A.length).take N.length = N := by
  rw [List.append_assoc, List.drop_append]
  simp

end app3

/-- the loop replaces the list id at position `k` by `levels + 1` ids and leaves the rest alone -/
theorem unflIds_form : ∀ (l k : Nat) (ids ids' : List RId), unflIds (l + 1) k ids = some ids' →
    ∃ news, news.length = l + 2 ∧ ids' = ids.take k ++ news ++ ids.drop (k + 1)
  | 0, k, ids, ids', h => by
    unfold unflIds at h
    split at h
    · simp only [unflIds, Option.some.injEq] at h
      exact ⟨_, rfl, h.symm⟩
    · simp only [unflIds, Option.some.injEq] at h
      exact ⟨_, rfl, h.symm⟩
    · cases h
  | l + 1, k, ids, ids', h => by
    rw [unflIds] at h
    have step : ∀ (x y : RId), ids[k]?.isSome →
        unflIds (l + 1) (k + 1) (ids.take k ++ [x, y] ++ ids.drop (k + 1)) = some ids' →
        ∃ news, news.length = l + 1 + 2 ∧ ids' = ids.take k ++ news ++ ids.drop (k + 1) := by
      intro x y hk h
      have hklt : k < ids.length := by
        cases hh : ids[k]? with
        | none => rw [hh] at hk; cases hk
        | some v => exact (List.getElem?_eq_some_iff.1 hh).1
      have hlen : (ids.take k).length = k := by simp; omega
      obtain ⟨news, hn, he⟩ := unflIds_form l (k + 1) _ ids' h
      have t := take_app3 (ids.take k) (ids.drop (k + 1)) x y
      have d := drop_app3 (ids.take k) (ids.drop (k + 1)) x y
      rw [hlen] at t d
      rw [t, d] at he
      refine ⟨x :: news, by simp [hn], ?_⟩
      rw [he]; simp
    split at h
    · next a b hh => exact step _ _ (by rw [hh]; rfl) h
    · next a b c r hh => exact step _ _ (by rw [hh]; rfl) h
    · cases h

section mid
variable {α : Type}

theorem getElem?_mid (A B : List α) (x : α) : (A ++ [x] ++ B)[A.length]? = some x := by
  rw [List.append_assoc, List.getElem?_append_right (Nat.le_refl _)]
  simp

theorem take_mid (A B : List α) (x : α) : (A ++ [x] ++ B).take A.length = A := by
  rw [List.append_assoc, List.take_append]
  simp

theorem drop_mid (A B : List α) (x : α) : (A ++ [x] ++ B).drop (A.length + 1) = B := by
  rw [List.append_assoc, List.drop_append]
  simp

end mid

/-- unflatten undoes the id list a flatten made -/
theorem unflIds_many : ∀ (l : Nat) (pre post : List RId) (as : List String), as.length = l + 2 →
    unflIds (l + 1) pre.length (pre ++ [RId.many as] ++ post) = some (pre ++ as.map RId.one ++ post)
  | 0, pre, post, [a, b], _ => by
    rw [unflIds, getElem?_mid]
    simp only [unflIds, take_mid, drop_mid, List.map_cons, List.map_nil]
  | l + 1, pre, post, a :: b :: c :: r, h => by
    rw [unflIds, getElem?_mid]
    simp only [take_mid, drop_mid]
    have ih := unflIds_many l (pre ++ [RId.one a]) post (b :: c :: r) (by simpa using h)
    simp only [List.length_append, List.length_cons, List.length_nil, List.append_assoc, List.cons_append,
      List.nil_append, List.map_cons] at ih ⊢
    exact ih

theorem unflShape_tuple : ∀ (l : Nat) (pre post : List Sx) (seg : List Sx), seg.length = l + 2 →
    unflShape (l + 1) pre.length (pre ++ [Sx.ofList seg] ++ post) = some (pre ++ seg ++ post)
  | 0, pre, post, [a, b], _ => by
    rw [unflShape, getElem?_mid]
    simp only [Sx.ofList, unflShape, take_mid, drop_mid]
  | l + 1, pre, post, a :: b :: c :: r, h => by
    rw [unflShape, getElem?_mid]
    simp only [Sx.ofList, take_mid, drop_mid]
    have ih := unflShape_tuple l (pre ++ [a]) post (b :: c :: r) (by simpa using h)
    simp only [Sx.ofList, List.length_append, List.length_cons, List.length_nil, List.append_assoc,
      List.cons_append, List.nil_append] at ih ⊢
    exact ih

theorem unflShape_pair : ∀ (l : Nat) (pre post : List Sx) (seg : List Sx), seg.length = l + 2 →
    unflShape (l + 1) pre.length (pre ++ [nestPair seg] ++ post) = some (pre ++ seg ++ post)
  | 0, pre, post, [a, b], _ => by
    rw [unflShape, getElem?_mid]
    simp only [nestPair, unflShape, take_mid, drop_mid]
  | l + 1, pre, post, a :: b :: c :: r, h => by
    rw [unflShape, getElem?_mid]
    simp only [nestPair, take_mid, drop_mid]
    have ih := unflShape_pair l (pre ++ [a]) post (b :: c :: r) (by simpa using h)
    simp only [List.length_append, List.length_cons, List.length_nil, List.append_assoc,
      List.cons_append, List.nil_append] at ih ⊢
    exact ih

/-! ### the bounds invariant on integer coordinates -/

theorem inShape_n (c s : Int) : Sx.inShape (.n c) (.n s) = (decide (0 ≤ c) && decide (c < s)) := rfl

theorem inRange_n (lo hi c : Int) :
    Sx.inRange (.n lo) (.n hi) (.n c) = (decide (lo ≤ c) && decide (c < hi)) := by
  unfold Sx.inRange Sx.cmp
  simp only [compare, compareOfLessAndEq]
  by_cases h1 : lo < c <;> by_cases h2 : lo = c <;> by_cases h3 : c < hi <;> by_cases h4 : c = hi <;>
    simp [h1, h2, h3, h4] <;> omega

/-! ### shape estimation -/

theorem ascB_iff : ∀ (cs : List Int), ascB cs = true ↔ cs.Pairwise (· < ·)
  | [] => by simp [ascB]
  | [a] => by simp [ascB]
  | a :: b :: r => by
    rw [ascB, Bool.and_eq_true, decide_eq_true_eq, ascB_iff (b :: r), List.pairwise_cons (a := a)]
    constructor
    · rintro ⟨hab, hp⟩
      refine ⟨?_, hp⟩
      intro x hx
      rcases List.mem_cons.1 hx with rfl | hx
      · exact hab
      · exact Int.lt_trans hab ((List.pairwise_cons.1 hp).1 x hx)
    · rintro ⟨h1, hp⟩
      exact ⟨h1 b (List.mem_cons_self ..), hp⟩

/-- in an ascending list every coordinate is at most the last one -/
theorem le_getLast : ∀ (cs : List Int), cs.Pairwise (· < ·) → ∀ c ∈ cs, ∃ l, cs.getLast? = some l ∧ c ≤ l
  | [], _, c, hc => by cases hc
  | [a], _, c, hc => by
    rcases List.mem_cons.1 hc with rfl | h
    · exact ⟨c, rfl, Int.le_refl _⟩
    · cases h
  | a :: b :: r, hp, c, hc => by
    have hp' := List.pairwise_cons.1 hp
    rw [List.getLast?_cons_cons]
    rcases List.mem_cons.1 hc with rfl | h
    · obtain ⟨l, hl, _⟩ := le_getLast (b :: r) hp'.2 b (List.mem_cons_self ..)
      refine ⟨l, hl, ?_⟩
      have hm : l ∈ b :: r := List.mem_of_getLast? hl
      exact Int.le_of_lt (hp'.1 l hm)
    · exact le_getLast (b :: r) hp'.2 c h

theorem lt_estFiber (cs : List Int) (hp : cs.Pairwise (· < ·)) (c : Int) (hc : c ∈ cs) : c < estFiber cs := by
  obtain ⟨l, hl, hle⟩ := le_getLast cs hp c hc
  unfold estFiber
  rw [hl]; simp only; omega

theorem estFiber_nonneg (cs : List Int) (h : ∀ c ∈ cs, 0 ≤ c) : 0 ≤ estFiber cs := by
  unfold estFiber
  cases hl : cs.getLast? with
  | none => simp
  | some l => have := h l (List.mem_of_getLast? hl); simp only; omega

theorem estStep_ge (acc : Option Int) (cs : List Int) (ha : 0 ≤ acc.getD 0) (hc : 0 ≤ estFiber cs) :
    acc.getD 0 ≤ (estStep acc cs).getD 0 ∧ estFiber cs ≤ (estStep acc cs).getD 0 := by
  unfold estStep
  cases acc with
  | none =>
    by_cases h : estFiber cs = 0
    · simp [h]
    · simp [h]; omega
  | some o =>
    have ha' : 0 ≤ o := by simpa using ha
    by_cases h : estFiber cs = 0
    · simp [h]; omega
    · simp [h]; omega

theorem foldl_estStep_ge : ∀ (fs : List (List Int)) (acc : Option Int), 0 ≤ acc.getD 0 →
    (∀ cs ∈ fs, 0 ≤ estFiber cs) →
    acc.getD 0 ≤ (fs.foldl estStep acc).getD 0 ∧ ∀ cs ∈ fs, estFiber cs ≤ (fs.foldl estStep acc).getD 0
  | [], acc, _, _ => ⟨Int.le_refl _, fun _ h => by cases h⟩
  | f :: fs, acc, ha, hf => by
    have h1 := estStep_ge acc f ha (hf f (List.mem_cons_self ..))
    have ha' : 0 ≤ (estStep acc f).getD 0 := Int.le_trans ha h1.1
    have ih := foldl_estStep_ge fs (estStep acc f) ha' (fun cs h => hf cs (List.mem_cons_of_mem _ h))
    rw [List.foldl_cons]
    refine ⟨Int.le_trans h1.1 ih.1, ?_⟩
    intro cs hcs
    rcases List.mem_cons.1 hcs with rfl | h
    · exact Int.le_trans h1.2 ih.1
    · exact ih.2 cs h

/-- the estimate of a rank covers every coordinate stored in the rank -/
theorem lt_estLevel (fs : List (List Int)) (hasc : ∀ cs ∈ fs, cs.Pairwise (· < ·))
    (hnn : ∀ cs ∈ fs, ∀ c ∈ cs, 0 ≤ c) (cs : List Int) (hcs : cs ∈ fs) (c : Int) (hc : c ∈ cs) :
    c < estLevel fs := by
  have h := (foldl_estStep_ge fs none (by simp) (fun x hx => estFiber_nonneg x (hnn x hx))).2 cs hcs
  have := lt_estFiber cs (hasc cs hcs) c hc
  unfold estLevel
  omega

/-! ### flattening two levels: the child ranges' minimum / maximum -/

section flat
variable {π : Type}

theorem foldl_min_le (g : π → Int) : ∀ (r : List π) (a : Int),
    r.foldl (fun a x => min a (g x)) a ≤ a ∧ ∀ x ∈ r, r.foldl (fun a x => min a (g x)) a ≤ g x
  | [], a => ⟨Int.le_refl _, fun _ h => by cases h⟩
  | y :: r, a => by
    have ih := foldl_min_le g r (min a (g y))
    rw [List.foldl_cons]
    refine ⟨by have := ih.1; omega, ?_⟩
    intro x hx
    rcases List.mem_cons.1 hx with rfl | h
    · have := ih.1; omega
    · exact ih.2 x h

theorem le_foldl_max (g : π → Int) : ∀ (r : List π) (a : Int),
    a ≤ r.foldl (fun a x => max a (g x)) a ∧ ∀ x ∈ r, g x ≤ r.foldl (fun a x => max a (g x)) a
  | [], a => ⟨Int.le_refl _, fun _ h => by cases h⟩
  | y :: r, a => by
    have ih := le_foldl_max g r (max a (g y))
    rw [List.foldl_cons]
    refine ⟨by have := ih.1; omega, ?_⟩
    intro x hx
    rcases List.mem_cons.1 hx with rfl | h
    · have := ih.1; omega
    · exact ih.2 x h

theorem childLo_le (f : Fib Int (AF π)) (rs : Int) (h : childLo f = some rs) : ∀ e ∈ f, rs ≤ e.2.lo := by
  cases f with
  | nil => cases h
  | cons e r =>
    simp only [childLo, Option.some.injEq] at h
    subst h
    have := foldl_min_le (fun x : Int × AF π => x.2.lo) r e.2.lo
    intro x hx
    rcases List.mem_cons.1 hx with rfl | hx
    · exact this.1
    · exact this.2 x hx

theorem le_childHi (f : Fib Int (AF π)) (re : Int) (h : childHi f = some re) : ∀ e ∈ f, e.2.hi ≤ re := by
  cases f with
  | nil => cases h
  | cons e r =>
    simp only [childHi, Option.some.injEq] at h
    subst h
    have := le_foldl_max (fun x : Int × AF π => x.2.hi) r e.2.hi
    intro x hx
    rcases List.mem_cons.1 hx with rfl | hx
    · exact this.1
    · exact this.2 x hx

end flat

/-! ### swizzle's active-range reset -/

theorem foldl_min_le' : ∀ (l : List Int) (a : Int), l.foldl min a ≤ a ∧ ∀ x ∈ l, l.foldl min a ≤ x
  | [], a => ⟨Int.le_refl _, fun _ h => by cases h⟩
  | y :: l, a => by
    have ih := foldl_min_le' l (min a y)
    rw [List.foldl_cons]
    refine ⟨by have := ih.1; omega, ?_⟩
    intro x hx
    rcases List.mem_cons.1 hx with rfl | h
    · have := ih.1; omega
    · exact ih.2 x h

theorem le_foldl_max' : ∀ (l : List Int) (a : Int), a ≤ l.foldl max a ∧ ∀ x ∈ l, x ≤ l.foldl max a
  | [], a => ⟨Int.le_refl _, fun _ h => by cases h⟩
  | y :: l, a => by
    have ih := le_foldl_max' l (max a y)
    rw [List.foldl_cons]
    refine ⟨by have := ih.1; omega, ?_⟩
    intro x hx
    rcases List.mem_cons.1 hx with rfl | h
    · have := ih.1; omega
    · exact ih.2 x h

theorem head_le_of_asc : ∀ (cs : List Int), cs.Pairwise (· < ·) → ∀ c ∈ cs, ∃ h, cs.head? = some h ∧ h ≤ c
  | [], _, c, hc => by cases hc
  | a :: r, hp, c, hc => by
    refine ⟨a, rfl, ?_⟩
    rcases List.mem_cons.1 hc with rfl | h
    · exact Int.le_refl _
    · exact Int.le_of_lt ((List.pairwise_cons.1 hp).1 c h)

/-! ### two-operand merges keep the first operand's coordinates -/

section merge
variable {α β : Type}

theorem andMerge_coord_mem (a : Fib Int α) (b : Fib Int β) : ∀ x ∈ andMerge a b, ∃ e ∈ a, e.1 = x.1 := by
  fun_induction andMerge a b with
  | case1 b => intro x hx; cases hx
  | case2 e r => intro x hx; cases hx
  | case3 pa ra ca pb rb ih =>
    intro x hx
    rcases List.mem_cons.1 hx with rfl | hx
    · exact ⟨_, List.mem_cons_self .., rfl⟩
    · obtain ⟨e, he, h⟩ := ih x hx
      exact ⟨e, List.mem_cons_of_mem _ he, h⟩
  | case4 ca pa ra cb pb rb hne hlt ih =>
    intro x hx
    obtain ⟨e, he, h⟩ := ih x hx
    exact ⟨e, List.mem_cons_of_mem _ he, h⟩
  | case5 ca pa ra cb pb rb hne hnlt ih => exact ih

theorem subMerge_mem (a : Fib Int α) (b : Fib Int β) : ∀ x ∈ subMerge a b, x ∈ a := by
  fun_induction subMerge a b with
  | case1 b => intro x hx; cases hx
  | case2 e r => intro x hx; exact hx
  | case3 pa ra ca pb rb ih => intro x hx; exact List.mem_cons_of_mem _ (ih x hx)
  | case4 ca pa ra cb pb rb hne hlt ih =>
    intro x hx
    rcases List.mem_cons.1 hx with rfl | hx
    · exact List.mem_cons_self ..
    · exact List.mem_cons_of_mem _ (ih x hx)
  | case5 ca pa ra cb pb rb hne hnlt ih => exact ih

end merge

end Ft.C14
