/-
  Helper lemmas for C03 (point access).
-/
import FtProofs.Lemmas.EqLemmas
import FtModel.Point
set_option linter.unusedSectionVars false
set_option linter.unusedSimpArgs false
namespace Ft
open StrictTotal

section
variable {κ ν π : Type} [LT κ] [DecidableRel (α := κ) (· < ·)] [DecidableEq κ] [StrictTotal κ]

theorem lowerBound_nil (c : κ) : lowerBound ([] : Fib κ π) c = 0 := rfl

theorem lowerBound_cons (e : κ × π) (r : Fib κ π) (c : κ) :
    lowerBound (e :: r) c = if e.1 < c then lowerBound r c + 1 else 0 := by
  unfold lowerBound
  by_cases h : e.1 < c <;> simp [List.takeWhile_cons, h]

theorem lowerBound_le (f : Fib κ π) (c : κ) : lowerBound f c ≤ f.length := by
  unfold lowerBound
  exact (List.takeWhile_sublist _).length_le

/-- on a sorted fiber, position lookup (`_coord2pos` + `_coordExists`) is lookup by coordinate -/
theorem posLookup_eq_lookup {f : Fib κ π} (hs : Sorted f) (c : κ) : posLookup f c = lookup f c := by
  induction f with
  | nil => rfl
  | cons e r ih =>
    unfold posLookup
    rw [lowerBound_cons]
    by_cases h : e.1 < c
    · have hne : e.1 ≠ c := lt_ne h
      simp only [h, if_true, List.getElem?_cons_succ]
      rw [lookup_cons_ne hne, ← ih hs.tail]; rfl
    · simp only [h, if_false, List.getElem?_cons_zero]
      by_cases he : e.1 = c
      · simp [he, lookup_cons]
      · simp only [he, if_false]
        rw [lookup_cons_ne he]
        symm
        apply lookup_eq_none_of_lt
        intro x hx
        exact trans (gt_of_not_lt_ne he h) (hs.head_lt x hx)

theorem getPosition_isSome_iff {f : Fib κ π} (hs : Sorted f) (c : κ) :
    (getPosition f c).isSome = (lookup f c).isSome := by
  rw [← posLookup_eq_lookup hs]
  unfold getPosition posLookup
  cases f[lowerBound f c]? with
  | none => rfl
  | some e => by_cases h : e.1 = c <;> simp [h]

theorem getPosition_eq {f : Fib κ π} (c : κ) (i : Nat) (h : getPosition f c = some i) :
    i = lowerBound f c ∧ ∃ e, f[i]? = some e ∧ e.1 = c := by
  unfold getPosition at h
  cases hh : f[lowerBound f c]? with
  | none => rw [hh] at h; cases h
  | some e =>
    rw [hh] at h
    by_cases he : e.1 = c
    · simp only [he, if_true, Option.some.injEq] at h
      subst h; exact ⟨rfl, e, hh, he⟩
    · simp [he] at h

theorem takeWhile_of_prefix {α : Type} (p : α → Bool) : ∀ (l : List α) (n : Nat),
    (∀ x ∈ l.take n, p x = true) → l.takeWhile p = l.take n ++ (l.drop n).takeWhile p
  | _, 0, _ => by simp
  | [], _ + 1, _ => by simp
  | x :: l, n + 1, h => by
    have hx : p x = true := h x (by simp)
    simp only [List.takeWhile_cons, hx, if_true, List.take_succ_cons, List.drop_succ_cons, List.cons_append]
    rw [takeWhile_of_prefix p l n (fun y hy => h y (by simp [List.take_succ_cons, hy]))]

theorem sorted_take_lt : ∀ {f : Fib κ π} {n : Nat} {e : κ × π}, Sorted f → f[n]? = some e →
    ∀ x ∈ f.take n, x.1 < e.1
  | [], _, _, _, h => by simp at h
  | y :: r, 0, _, _, _ => by simp
  | y :: r, n + 1, e, hs, h => by
    intro x hx
    simp only [List.getElem?_cons_succ] at h
    rw [List.take_succ_cons] at hx
    rcases List.mem_cons.1 hx with rfl | hx
    · exact hs.head_lt e (List.mem_of_getElem? h)
    · exact sorted_take_lt hs.tail h x hx

/-- **a legal search-start shortcut never changes the position found** -/
theorem coord2posFrom_eq {f : Fib κ π} (hs : Sorted f) (sp : Nat) (c : κ)
    (hl : legalStart f sp c = true) : coord2posFrom f sp c = lowerBound f c := by
  unfold legalStart at hl
  unfold coord2posFrom
  rcases Nat.eq_zero_or_pos sp with rfl | hpos
  · simp
  · have hne : (sp == 0) = false := by simp; omega
    rw [hne, Bool.false_or] at hl
    cases he : f[sp]? with
    | none => rw [he] at hl; cases hl
    | some e =>
      rw [he] at hl
      have hle : ¬ c < e.1 := by simpa using hl
      have hpre : ∀ x ∈ f.take sp, decide (x.1 < c) = true := by
        intro x hx
        have h1 := sorted_take_lt hs he x hx
        rcases tri e.1 c with h | h | h
        · simpa using trans h1 h
        · simpa [← h] using h1
        · exact absurd h hle
      have hlen : sp < f.length := by
        rcases List.getElem?_eq_some_iff.1 he with ⟨h, _⟩; exact h
      unfold lowerBound
      rw [takeWhile_of_prefix _ f sp hpre, List.length_append, List.length_take]
      omega

end
end Ft

namespace Ft
open StrictTotal
section
variable {κ ν π : Type} [LT κ] [DecidableRel (α := κ) (· < ·)] [DecidableEq κ] [StrictTotal κ]

theorem lookup_mem {f : Fib κ π} {c : κ} {s : π} (hl : lookup f c = some s) : (c, s) ∈ f := by
  unfold lookup at hl
  cases hf : List.find? (fun e => decide (e.1 = c)) f with
  | none => rw [hf] at hl; cases hl
  | some e =>
    rw [hf] at hl
    have h1 := List.find?_some hf
    have h2 := List.mem_of_find?_eq_some hf
    simp only [Option.map_some, Option.some.injEq] at hl
    simp only [decide_eq_true_eq] at h1
    rw [← h1, ← hl]; exact h2

theorem getLeaf_eq_val (dflt : ν) : ∀ (d : Nat) (t : Tree κ ν d), WF d t → ∀ p,
    getLeaf dflt d t p = val dflt d t p
  | 0, _, _, _ => rfl
  | _ + 1, _, _, [] => rfl
  | d + 1, f, h, c :: cs => by
    simp only [getLeaf, val]
    rw [posLookup_eq_lookup h.sorted]
    cases hl : lookup (show List (κ × Tree κ ν d) from f) c with
    | none => rfl
    | some s => exact getLeaf_eq_val dflt d s (h.sub _ (lookup_mem hl)) cs

/-- lookup after rewriting the payloads stored under key `c` -/
theorem lookup_map_key (f : Fib κ π) (c c' : κ) (h : π → π) :
    lookup (f.map (fun e => if e.1 = c then (e.1, h e.2) else e)) c' =
      if c' = c then (lookup f c).map h else lookup f c' := by
  induction f with
  | nil => simp [lookup]
  | cons e r ih =>
    rw [List.map_cons, lookup_cons, lookup_cons, lookup_cons, ih]
    by_cases h1 : e.1 = c
    · by_cases h2 : c' = c
      · subst h2; simp [h1]
      · have : ¬ c = c' := fun h3 => h2 h3.symm
        subst h1
        simp [h2, this]
    · by_cases h2 : c' = c
      · subst h2; simp [h1]
      · simp [h1, h2]

theorem sorted_map_payload (f : Fib κ π) (g : κ × π → κ × π) (hg : ∀ e, (g e).1 = e.1)
    (h : Sorted f) : Sorted (f.map g) := by
  unfold Sorted at *
  rw [List.pairwise_map]
  exact h.imp (fun {a b} hab => by rw [hg a, hg b]; exact hab)

theorem lookup_append (f g : Fib κ π) (c : κ) :
    lookup (f ++ g) c = (lookup f c).orElse (fun _ => lookup g c) := by
  induction f with
  | nil => simp [lookup]
  | cons e r ih =>
    rw [List.cons_append, lookup_cons, lookup_cons, ih]
    by_cases h : e.1 = c <;> simp [h]

theorem lookup_take_drop (f : Fib κ π) (n : Nat) (c : κ) :
    (lookup (f.take n) c).orElse (fun _ => lookup (f.drop n) c) = lookup f c := by
  rw [← lookup_append, List.take_append_drop]

theorem lookup_insertAt {f : Fib κ π} {c : κ} (hn : lookup f c = none) (p : π) (c' : κ) :
    lookup (insertAt f c p) c' = if c' = c then some p else lookup f c' := by
  unfold insertAt
  rw [lookup_append, lookup_cons]
  have key := lookup_take_drop f (lowerBound f c) c'
  by_cases h : c' = c
  · subst h
    rw [hn] at key
    have : lookup (f.take (lowerBound f c')) c' = none := by
      cases h1 : lookup (f.take (lowerBound f c')) c' with
      | none => rfl
      | some v => rw [h1] at key; simp at key
    simp [this]
  · have h' : ¬ c = c' := fun e => h e.symm
    simp only [h, h', if_false]
    exact key

theorem lowerBound_take_lt (f : Fib κ π) (c : κ) : ∀ x ∈ f.take (lowerBound f c), x.1 < c := by
  induction f with
  | nil => simp
  | cons e r ih =>
    rw [lowerBound_cons]
    by_cases h : e.1 < c
    · simp only [h, if_true, List.take_succ_cons]
      intro x hx
      rcases List.mem_cons.1 hx with rfl | hx
      · exact h
      · exact ih x hx
    · simp [h]

theorem lowerBound_drop_ge {f : Fib κ π} (hs : Sorted f) (c : κ) :
    ∀ x ∈ f.drop (lowerBound f c), ¬ x.1 < c := by
  induction f with
  | nil => simp
  | cons e r ih =>
    rw [lowerBound_cons]
    by_cases h : e.1 < c
    · simp only [h, if_true, List.drop_succ_cons]
      exact ih hs.tail
    · simp only [h, if_false, List.drop_zero]
      intro x hx
      rcases List.mem_cons.1 hx with rfl | hx
      · exact h
      · intro hxc
        exact h (trans (hs.head_lt x hx) hxc)

theorem sorted_append {f g : Fib κ π} (hf : Sorted f) (hg : Sorted g)
    (h : ∀ x ∈ f, ∀ y ∈ g, x.1 < y.1) : Sorted (f ++ g) := by
  unfold Sorted at *
  exact List.pairwise_append.2 ⟨hf, hg, h⟩

theorem sorted_take {f : Fib κ π} (hs : Sorted f) (n : Nat) : Sorted (f.take n) := by
  unfold Sorted at *; exact hs.sublist (List.take_sublist n f)

theorem sorted_drop {f : Fib κ π} (hs : Sorted f) (n : Nat) : Sorted (f.drop n) := by
  unfold Sorted at *; exact hs.sublist (List.drop_sublist n f)

theorem not_hasKey_of_lookup_none {f : Fib κ π} {c : κ} (h : lookup f c = none) : ∀ x ∈ f, x.1 ≠ c := by
  intro x hx he
  have := hasCoord_iff_lookup f c
  rw [h] at this
  have h2 : hasCoord f c = true := (hasCoord_iff f c).2 ⟨x, hx, he⟩
  rw [h2] at this; cases this

/-- inserting an absent coordinate at its lower bound keeps the fiber sorted -/
theorem insertAt_sorted {f : Fib κ π} (hs : Sorted f) {c : κ} (hn : lookup f c = none) (p : π) :
    Sorted (insertAt f c p) := by
  unfold insertAt
  have hne := not_hasKey_of_lookup_none hn
  have hgt : ∀ y ∈ f.drop (lowerBound f c), c < y.1 := by
    intro y hy
    exact gt_of_not_lt_ne (hne y (List.mem_of_mem_drop hy)) (lowerBound_drop_ge hs c y hy)
  apply sorted_append (sorted_take hs _)
  · exact sorted_cons.2 ⟨hgt, sorted_drop hs _⟩
  · intro x hx y hy
    have hxc := lowerBound_take_lt f c x hx
    rcases List.mem_cons.1 hy with rfl | hy
    · exact hxc
    · exact trans hxc (hgt y hy)

theorem mem_insertAt {f : Fib κ π} {c : κ} {p : π} {x : κ × π} :
    x ∈ insertAt f c p ↔ x = (c, p) ∨ x ∈ f := by
  unfold insertAt
  rw [List.mem_append, List.mem_cons]
  constructor
  · rintro (h | h | h)
    · exact Or.inr (List.mem_of_mem_take h)
    · exact Or.inl h
    · exact Or.inr (List.mem_of_mem_drop h)
  · rintro (h | h)
    · exact Or.inr (Or.inl h)
    · rw [← List.take_append_drop (lowerBound f c) f, List.mem_append] at h
      rcases h with h | h
      · exact Or.inl h
      · exact Or.inr (Or.inr h)

end
end Ft

namespace Ft
open StrictTotal
section
variable {κ ν : Type} [LT κ] [DecidableRel (α := κ) (· < ·)] [DecidableEq κ] [StrictTotal κ]

/-- the path `p` (a full point) is stored in the tree -/
def PathExists : (d : Nat) → Tree κ ν d → List κ → Prop
  | 0,     _, _       => True
  | _ + 1, _, []      => False
  | d + 1, f, c :: cs => ∃ s, lookup (show List (κ × Tree κ ν d) from f) c = some s ∧ PathExists d s cs

theorem wf_defaultTree (dflt : ν) : ∀ d, WF d (defaultTree (κ := κ) dflt d)
  | 0 => trivial
  | _ + 1 => ⟨List.Pairwise.nil, fun _ h => by cases h⟩

theorem val_defaultTree (dflt : ν) : ∀ d q, val dflt d (defaultTree (κ := κ) dflt d) q = dflt
  | 0, _ => rfl
  | _ + 1, [] => rfl
  | _ + 1, _ :: _ => rfl

theorem refAt_val (dflt : ν) : ∀ (d : Nat) (t : Tree κ ν d), WF d t → ∀ p q,
    val dflt d (refAt dflt d t p) q = val dflt d t q
  | 0, _, _, _, _ => rfl
  | _ + 1, _, _, [], _ => rfl
  | _ + 1, _, _, _ :: _, [] => rfl
  | d + 1, (f : List (κ × Tree κ ν d)), h, c :: cs, c' :: qs => by
    simp only [refAt]
    rw [posLookup_eq_lookup h.sorted]
    cases hl : lookup (show List (κ × Tree κ ν d) from f) c with
    | some s =>
      simp only [val]
      rw [lookup_map_key f c c' (fun t => refAt dflt d t cs)]
      by_cases hc : c' = c
      · subst hc
        simp only [if_true, hl, Option.map_some]
        exact refAt_val dflt d s (h.sub _ (lookup_mem hl)) cs qs
      · simp only [hc, if_false]
    | none =>
      simp only [val]
      rw [lookup_insertAt hl]
      by_cases hc : c' = c
      · subst hc
        simp only [if_true, hl]
        rw [refAt_val dflt d _ (wf_defaultTree dflt d) cs qs, val_defaultTree]
      · simp only [hc, if_false]

theorem refAt_wf (dflt : ν) : ∀ (d : Nat) (t : Tree κ ν d), WF d t → ∀ p, WF d (refAt dflt d t p)
  | 0, _, _, _ => trivial
  | _ + 1, _, h, [] => h
  | d + 1, (f : List (κ × Tree κ ν d)), h, c :: cs => by
    simp only [refAt]
    rw [posLookup_eq_lookup h.sorted]
    cases hl : lookup (show List (κ × Tree κ ν d) from f) c with
    | some s =>
      refine ⟨sorted_map_payload _ _ (fun e => by by_cases he : e.1 = c <;> simp [he]) h.sorted, ?_⟩
      intro e he
      obtain ⟨x, hx, rfl⟩ := List.mem_map.1 he
      by_cases hxc : x.1 = c
      · simp only [hxc, if_true]; exact refAt_wf dflt d x.2 (h.sub x hx) cs
      · simp only [hxc, if_false]; exact h.sub x hx
    | none =>
      refine ⟨insertAt_sorted h.sorted hl _, ?_⟩
      intro e he
      rcases mem_insertAt.1 he with rfl | he
      · exact refAt_wf dflt d _ (wf_defaultTree dflt d) cs
      · exact h.sub e he

theorem refAt_path (dflt : ν) : ∀ (d : Nat) (t : Tree κ ν d), WF d t → ∀ p, p.length = d →
    PathExists d (refAt dflt d t p) p
  | 0, _, _, _, _ => trivial
  | _ + 1, _, _, [], hp => by cases hp
  | d + 1, (f : List (κ × Tree κ ν d)), h, c :: cs, hp => by
    have hp' : cs.length = d := by simpa using hp
    simp only [refAt]
    rw [posLookup_eq_lookup h.sorted]
    cases hl : lookup (show List (κ × Tree κ ν d) from f) c with
    | some s =>
      refine ⟨refAt dflt d s cs, ?_, refAt_path dflt d s (h.sub _ (lookup_mem hl)) cs hp'⟩
      show lookup (List.map _ _) c = _
      rw [lookup_map_key f c c (fun t => refAt dflt d t cs)]; simp [hl]
    | none =>
      refine ⟨_, ?_, refAt_path dflt d _ (wf_defaultTree dflt d) cs hp'⟩
      show lookup (insertAt _ _ _) c = _
      rw [lookup_insertAt hl]; simp

theorem updateAt_val (dflt : ν) (g : ν → ν) : ∀ (d : Nat) (t : Tree κ ν d) (p q : List κ),
    PathExists d t p → p.length = d → q.length = d →
    val dflt d (updateAt g d t p) q = if q = p then g (val dflt d t p) else val dflt d t q
  | 0, v, [], [], _, _, _ => by simp [val, updateAt]
  | 0, _, _ :: _, _, _, hp, _ => by cases hp
  | 0, _, [], _ :: _, _, _, hq => by cases hq
  | _ + 1, _, [], _, _, hp, _ => by cases hp
  | _ + 1, _, _ :: _, [], _, _, hq => by cases hq
  | d + 1, (f : List (κ × Tree κ ν d)), c :: cs, c' :: qs, hpe, hp, hq => by
    obtain ⟨s, hl, hs⟩ := hpe
    have hp' : cs.length = d := by simpa using hp
    have hq' : qs.length = d := by simpa using hq
    simp only [val, updateAt]
    rw [lookup_map_key f c c' (fun t => updateAt g d t cs)]
    by_cases hc : c' = c
    · subst hc
      simp only [if_true, hl, Option.map_some]
      rw [updateAt_val dflt g d s cs qs hs hp' hq']
      by_cases hqs : qs = cs <;> simp [hqs]
    · have : ¬ (c' :: qs = c :: cs) := fun e => hc (List.cons.inj e).1
      simp only [hc, this, if_false]

theorem lookup_map_snd {π : Type} (f : Fib κ π) (h : π → π) (c : κ) :
    lookup (f.map (fun e => (e.1, h e.2))) c = (lookup f c).map h := by
  induction f with
  | nil => rfl
  | cons e r ih =>
    rw [List.map_cons, lookup_cons, lookup_cons]
    by_cases h1 : e.1 = c
    · simp [h1]
    · simp [h1, ih]

/-- reads after an in-place update of everything below the partial point `p`: points below `p` see the updated
    value, every other point what it saw before (`g` leaves the default alone, as `x ↦ x * k` does for 0 and as the
    library's walk does for any default by skipping empty elements) -/
theorem updateUnder_val (dflt : ν) (g : ν → ν) (hg : g dflt = dflt) :
    ∀ (d : Nat) (t : Tree κ ν d) (p q : List κ), p.length ≤ d →
    val dflt d (updateUnder g d t p) q = if p <+: q then g (val dflt d t q) else val dflt d t q
  | 0, v, [], q, _ => by simp [val, updateUnder]
  | 0, _, _ :: _, _, hp => by simp at hp
  | d + 1, (f : List (κ × Tree κ ν d)), [], [], _ => by simp [val, hg]
  | d + 1, (f : List (κ × Tree κ ν d)), [], c' :: qs, _ => by
    simp only [val, updateUnder, List.nil_prefix, if_true]
    rw [lookup_map_snd f (fun t => updateUnder g d t []) c']
    cases hl : lookup (show List (κ × Tree κ ν d) from f) c' with
    | none => simp [hg]
    | some s =>
      simp only [Option.map_some]
      rw [updateUnder_val dflt g hg d s [] qs (Nat.zero_le _)]; simp
  | d + 1, (f : List (κ × Tree κ ν d)), c :: cs, [], _ => by simp [val]
  | d + 1, (f : List (κ × Tree κ ν d)), c :: cs, c' :: qs, hp => by
    have hp' : cs.length ≤ d := by simpa using hp
    simp only [val, updateUnder]
    rw [lookup_map_key f c c' (fun t => updateUnder g d t cs)]
    by_cases hc : c' = c
    · subst hc
      simp only [if_true, List.cons_prefix_cons, true_and]
      cases hl : lookup (show List (κ × Tree κ ν d) from f) c' with
      | none => simp [hg]
      | some s =>
        simp only [Option.map_some]
        rw [updateUnder_val dflt g hg d s cs qs hp']
    · have : ¬ (c :: cs <+: c' :: qs) := by
        rw [List.cons_prefix_cons]; exact fun h => hc h.1.symm
      simp only [hc, this, if_false]

theorem updateUnder_wf (g : ν → ν) : ∀ (d : Nat) (t : Tree κ ν d), WF d t → ∀ p, WF d (updateUnder g d t p)
  | 0, _, _, _ => trivial
  | d + 1, (f : List (κ × Tree κ ν d)), h, [] => by
    simp only [updateUnder]
    refine ⟨sorted_map_payload _ _ (fun e => rfl) h.sorted, ?_⟩
    intro e he
    obtain ⟨x, hx, rfl⟩ := List.mem_map.1 he
    exact updateUnder_wf g d x.2 (h.sub x hx) []
  | d + 1, (f : List (κ × Tree κ ν d)), h, c :: cs => by
    simp only [updateUnder]
    refine ⟨sorted_map_payload _ _ (fun e => by by_cases he : e.1 = c <;> simp [he]) h.sorted, ?_⟩
    intro e he
    obtain ⟨x, hx, rfl⟩ := List.mem_map.1 he
    by_cases hxc : x.1 = c
    · simp only [hxc, if_true]; exact updateUnder_wf g d x.2 (h.sub x hx) cs
    · simp only [hxc, if_false]; exact h.sub x hx

theorem updateAt_wf (g : ν → ν) : ∀ (d : Nat) (t : Tree κ ν d), WF d t → ∀ p, WF d (updateAt g d t p)
  | 0, _, _, _ => trivial
  | _ + 1, _, h, [] => h
  | d + 1, (f : List (κ × Tree κ ν d)), h, c :: cs => by
    simp only [updateAt]
    refine ⟨sorted_map_payload _ _ (fun e => by by_cases he : e.1 = c <;> simp [he]) h.sorted, ?_⟩
    intro e he
    obtain ⟨x, hx, rfl⟩ := List.mem_map.1 he
    by_cases hxc : x.1 = c
    · simp only [hxc, if_true]; exact updateAt_wf g d x.2 (h.sub x hx) cs
    · simp only [hxc, if_false]; exact h.sub x hx

end
end Ft

namespace Ft
open StrictTotal
section
variable {κ ν : Type} [LT κ] [DecidableRel (α := κ) (· < ·)] [DecidableEq κ] [StrictTotal κ] [DecidableEq ν]

theorem clookup_append (l₁ l₂ : List (List κ × ν)) (p : List κ) :
    clookup (l₁ ++ l₂) p = (clookup l₁ p).orElse (fun _ => clookup l₂ p) := by
  unfold clookup
  rw [List.find?_append]
  cases List.find? (fun pv => decide (pv.1 = p)) l₁ <;> simp

theorem clookup_pre (e c : κ) (X : List (List κ × ν)) (cs : List κ) :
    clookup (pre e X) (c :: cs) = if e = c then clookup X cs else none := by
  unfold clookup pre
  induction X with
  | nil => simp
  | cons x r ih =>
    simp only [List.map_cons, List.find?_cons]
    by_cases h : e = c
    · subst h
      by_cases hx : x.1 = cs
      · simp [hx]
      · simp only [List.cons.injEq, true_and, hx, decide_false]
        simpa using ih
    · have : ¬ (e :: x.1 = c :: cs) := fun e' => h (List.cons.inj e').1
      simp only [this, decide_false, h, if_false]
      simp [h]

theorem clookup_content_none (dflt : ν) (d : Nat) (r : List (κ × Tree κ ν d)) (c : κ) (cs : List κ)
    (h : ∀ x ∈ r, x.1 ≠ c) : clookup (content dflt (d + 1) (show Tree κ ν (d + 1) from r)) (c :: cs) = none := by
  induction r with
  | nil => rfl
  | cons e r ih =>
    rw [content_cons, clookup_append, clookup_pre]
    simp only [h e (List.mem_cons_self ..), if_false]
    exact ih (fun x hx => h x (List.mem_cons_of_mem _ hx))

/-- the abstract view agrees with lookup in the content (absent or explicit default ⇒ default) -/
theorem val_eq_content (dflt : ν) : ∀ (d : Nat) (t : Tree κ ν d), WF d t → ∀ p, p.length = d →
    val dflt d t p = (clookup (content dflt d t) p).getD dflt
  | 0, v, _, [], _ => by
    show (show ν from v) = (clookup (if (show ν from v) = dflt then [] else [([], (show ν from v))]) []).getD dflt
    by_cases h : (show ν from v) = dflt
    · simp [h, clookup]
    · simp [h, clookup]; rfl
  | 0, _, _, _ :: _, hp => by cases hp
  | _ + 1, _, _, [], hp => by cases hp
  | d + 1, (f : List (κ × Tree κ ν d)), h, c :: cs, hp => by
    have hp' : cs.length = d := by simpa using hp
    have hs : Sorted f := h.sorted
    have hsub : ∀ e ∈ f, WF d e.2 := h.sub
    clear h
    induction f with
    | nil => rfl
    | cons e r ih =>
      rw [content_cons, clookup_append, clookup_pre]
      simp only [val]
      rw [lookup_cons]
      by_cases he : e.1 = c
      · simp only [he, if_true]
        rw [val_eq_content dflt d e.2 (hsub e (List.mem_cons_self ..)) cs hp']
        have : clookup (content dflt (d + 1) (show Tree κ ν (d + 1) from r)) (c :: cs) = none := by
          apply clookup_content_none
          intro x hx
          exact fun hxc => lt_ne (hs.head_lt x hx) (he.trans hxc.symm)
        rw [this]
        cases clookup (content dflt d e.2) cs <;> rfl
      · simp only [he, if_false, Option.orElse_none]
        have := ih hs.tail (fun x hx => hsub x (List.mem_cons_of_mem _ hx))
        simp only [val] at this
        exact this

end
end Ft
