/-
  Helper lemmas about `content`, `isEmpty`, `present`, `countValues`, `nonEmpty`.
-/
import FtProofs.Lemmas.Sorted
import FtProofs.Lemmas.Merge
set_option linter.unusedSectionVars false
set_option linter.unusedSimpArgs false
namespace Ft
open StrictTotal

section
variable {κ ν : Type} [DecidableEq ν]

/-- prefix every point of a content list with coordinate `c` -/
def pre (c : κ) (l : List (List κ × ν)) : List (List κ × ν) := l.map (fun pv => (c :: pv.1, pv.2))

theorem content_succ (dflt : ν) (d : Nat) (f : Tree κ ν (d + 1)) :
    content dflt (d + 1) f =
      (show List (κ × Tree κ ν d) from f).flatMap (fun e => pre e.1 (content dflt d e.2)) := rfl

theorem content_cons (dflt : ν) (d : Nat) (e : κ × Tree κ ν d) (r : List (κ × Tree κ ν d)) :
    content dflt (d + 1) (show Tree κ ν (d + 1) from e :: r) =
      pre e.1 (content dflt d e.2) ++ content dflt (d + 1) (show Tree κ ν (d + 1) from r) := by
  show List.flatMap _ (e :: r) = _ ++ List.flatMap _ r
  rw [List.flatMap_cons]; rfl

theorem content_nil (dflt : ν) (d : Nat) :
    content dflt (d + 1) (show Tree κ ν (d + 1) from ([] : List (κ × Tree κ ν d))) = [] := rfl

theorem pre_eq_nil {c : κ} {l : List (List κ × ν)} : pre c l = [] ↔ l = [] := by
  simp [pre]

/-- a tree is empty exactly when it has no content -/
theorem isEmpty_iff_content (dflt : ν) : ∀ (d : Nat) (t : Tree κ ν d),
    isEmpty dflt d t = true ↔ content dflt d t = []
  | 0, v => by
    show decide ((show ν from v) = dflt) = true ↔ (if (show ν from v) = dflt then [] else [([], (show ν from v))]) = []
    by_cases h : (show ν from v) = dflt <;> simp [h]
  | d + 1, f => by
    show (show List (κ × Tree κ ν d) from f).all (fun e => isEmpty dflt d e.2) = true ↔ _
    rw [content_succ]
    generalize (show List (κ × Tree κ ν d) from f) = l
    rw [List.all_eq_true, List.flatMap_eq_nil_iff]
    constructor
    · intro h e he; exact pre_eq_nil.2 ((isEmpty_iff_content dflt d e.2).1 (h e he))
    · intro h e he; exact (isEmpty_iff_content dflt d e.2).2 (pre_eq_nil.1 (h e he))

theorem content_eq_nil_of_isEmpty {dflt : ν} {d : Nat} {t : Tree κ ν d} (h : isEmpty dflt d t = true) :
    content dflt d t = [] := (isEmpty_iff_content dflt d t).1 h

/-- the content only sees the presented (non-empty) elements -/
theorem content_present (dflt : ν) (d : Nat) (f : Tree κ ν (d + 1)) :
    content dflt (d + 1) f = (present dflt d f).flatMap (fun e => pre e.1 (content dflt d e.2)) := by
  rw [content_succ]
  unfold present
  generalize (show List (κ × Tree κ ν d) from f) = l
  induction l with
  | nil => rfl
  | cons e r ih =>
    by_cases h : isEmpty dflt d e.2 = true
    · have : pre e.1 (content dflt d e.2) = [] := pre_eq_nil.2 (content_eq_nil_of_isEmpty h)
      rw [List.flatMap_cons, this, List.nil_append, ih, List.filter_cons]
      simp [h]
    · rw [List.flatMap_cons, ih, List.filter_cons]
      simp [h]

/-- `countValues` counts the content -/
theorem countValues_eq_length (dflt : ν) : ∀ (d : Nat) (t : Tree κ ν d),
    countValues dflt d t = (content dflt d t).length
  | 0, v => by
    show (if (show ν from v) = dflt then 0 else 1) = (if (show ν from v) = dflt then [] else [([], (show ν from v))]).length
    by_cases h : (show ν from v) = dflt <;> simp [h]
  | d + 1, f => by
    show ((show List (κ × Tree κ ν d) from f).map (fun e => countValues dflt d e.2)).sum = _
    rw [content_succ]
    generalize (show List (κ × Tree κ ν d) from f) = l
    induction l with
    | nil => rfl
    | cons e r ih =>
      simp [ih, countValues_eq_length dflt d e.2, pre]

end

/-! ### Grouped lists: `flat` is injective on sorted groups with non-empty members -/
section
variable {κ ν : Type} [LT κ] [DecidableRel (α := κ) (· < ·)] [DecidableEq κ] [StrictTotal κ]

def flat (G : List (κ × List (List κ × ν))) : List (List κ × ν) :=
  G.flatMap (fun g => pre g.1 g.2)

theorem flat_cons (g : κ × List (List κ × ν)) (G) : flat (g :: G) = pre g.1 g.2 ++ flat G := by
  simp [flat]

def headIs (c : κ) (pv : List κ × ν) : Bool :=
  match pv.1 with
  | [] => false
  | x :: _ => decide (x = c)

theorem headIs_pre (c : κ) (l : List (List κ × ν)) : ∀ x ∈ pre c l, headIs c x = true := by
  intro x hx
  obtain ⟨y, _, rfl⟩ := List.mem_map.1 hx
  simp [headIs]

theorem headIs_flat_false {c : κ} {G : List (κ × List (List κ × ν))}
    (h : ∀ g ∈ G, c < g.1) : ∀ x ∈ flat G, headIs c x = false := by
  intro x hx
  obtain ⟨g, hg, hx⟩ := List.mem_flatMap.1 hx
  obtain ⟨y, _, rfl⟩ := List.mem_map.1 hx
  have : g.1 ≠ c := fun e => lt_ne (h g hg) e.symm
  simp [headIs, this]

theorem append_split {α : Type} (p : α → Bool) :
    ∀ (l₁ l₂ r₁ r₂ : List α), (∀ x ∈ l₁, p x = true) → (∀ x ∈ l₂, p x = true) →
      (∀ x ∈ r₁, p x = false) → (∀ x ∈ r₂, p x = false) →
      l₁ ++ r₁ = l₂ ++ r₂ → l₁ = l₂ ∧ r₁ = r₂
  | [], [], _, _, _, _, _, _, h => ⟨rfl, h⟩
  | [], y :: l₂, r₁, _, _, h2, h3, _, h => by
    cases r₁ with
    | nil => cases h
    | cons z r₁ =>
      simp only [List.nil_append, List.cons_append, List.cons.injEq] at h
      have a := h3 z (List.mem_cons_self ..)
      have b := h2 y (List.mem_cons_self ..)
      rw [h.1] at a; rw [a] at b; cases b
  | x :: l₁, [], _, r₂, h1, _, _, h4, h => by
    cases r₂ with
    | nil => cases h
    | cons z r₂ =>
      simp only [List.nil_append, List.cons_append, List.cons.injEq] at h
      have a := h4 z (List.mem_cons_self ..)
      have b := h1 x (List.mem_cons_self ..)
      rw [← h.1] at a; rw [a] at b; cases b
  | x :: l₁, y :: l₂, r₁, r₂, h1, h2, h3, h4, h => by
    simp only [List.cons_append, List.cons.injEq] at h
    obtain ⟨e, h⟩ := h
    have := append_split p l₁ l₂ r₁ r₂ (fun z hz => h1 z (List.mem_cons_of_mem _ hz))
      (fun z hz => h2 z (List.mem_cons_of_mem _ hz)) h3 h4 h
    exact ⟨by rw [e, this.1], this.2⟩

theorem pre_injective (c : κ) {l₁ l₂ : List (List κ × ν)} (h : pre c l₁ = pre c l₂) : l₁ = l₂ := by
  induction l₁ generalizing l₂ with
  | nil => cases l₂ with
    | nil => rfl
    | cons b m => simp [pre] at h
  | cons a l ih => cases l₂ with
    | nil => simp [pre] at h
    | cons b m =>
      simp only [pre, List.map_cons, List.cons.injEq, Prod.mk.injEq, true_and] at h
      rw [Prod.ext h.1.1 h.1.2, ih h.2]

theorem flat_injective : ∀ (G₁ G₂ : List (κ × List (List κ × ν))),
    Sorted G₁ → Sorted G₂ → (∀ g ∈ G₁, g.2 ≠ []) → (∀ g ∈ G₂, g.2 ≠ []) →
    flat G₁ = flat G₂ → G₁ = G₂
  | [], [], _, _, _, _, _ => rfl
  | [], h :: s, _, _, _, n2, e => by
    rw [flat_cons] at e
    have := n2 h (List.mem_cons_self ..)
    cases hh : h.2 with
    | nil => exact absurd hh this
    | cons a l => rw [hh] at e; simp [flat, pre] at e
  | g :: r, [], _, _, n1, _, e => by
    rw [flat_cons] at e
    have := n1 g (List.mem_cons_self ..)
    cases hh : g.2 with
    | nil => exact absurd hh this
    | cons a l => rw [hh] at e; simp [flat, pre] at e
  | g :: r, h :: s, s1, s2, n1, n2, e => by
    rw [flat_cons, flat_cons] at e
    have hg := n1 g (List.mem_cons_self ..)
    have hh := n2 h (List.mem_cons_self ..)
    have hc : g.1 = h.1 := by
      cases g2 : g.2 with
      | nil => exact absurd g2 hg
      | cons a l =>
        cases h2 : h.2 with
        | nil => exact absurd h2 hh
        | cons b m =>
          rw [g2, h2] at e
          simp only [pre, List.map_cons, List.cons_append, List.cons.injEq, Prod.mk.injEq] at e
          exact e.1.1.1
    have e' : pre g.1 g.2 ++ flat r = pre g.1 h.2 ++ flat s := by rw [e, hc]
    have sp := append_split (headIs g.1) _ _ _ _ (headIs_pre g.1 g.2) (headIs_pre g.1 h.2)
      (headIs_flat_false (fun x hx => s1.head_lt x hx))
      (headIs_flat_false (fun x hx => by rw [hc]; exact s2.head_lt x hx)) e'
    have hgh : g = h := Prod.ext hc (pre_injective g.1 sp.1)
    rw [hgh, flat_injective r s s1.tail s2.tail (fun x hx => n1 x (List.mem_cons_of_mem _ hx))
      (fun x hx => n2 x (List.mem_cons_of_mem _ hx)) sp.2]

end
end Ft
