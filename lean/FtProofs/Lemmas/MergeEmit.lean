/-
  C19, latency "N": the insertion-buffer merge emits every coordinate of its lists exactly
  once, so what a merge leaves for the next round is the sorted union of its lists.
-/
import FtProofs.Lemmas.MergeInf
set_option linter.unusedSectionVars false
set_option linter.unusedSimpArgs false
set_option linter.unusedVariables false
namespace Ft
open List

/-- what is still to be emitted -/
def pending (lists : List (List Int)) (buf : List (Int × Nat)) : List Int :=
  buf.map (·.1) ++ lists.flatten

theorem bufInsert_perm (buf : List (Int × Nat)) (e : Int × Nat) : bufInsert buf e ~ e :: buf := by
  unfold bufInsert
  exact perm_middle.trans ((filter_append_perm _ buf).cons e)

theorem mem_bufInsert {buf : List (Int × Nat)} {e x : Int × Nat} :
    x ∈ bufInsert buf e ↔ x = e ∨ x ∈ buf := by
  rw [(bufInsert_perm buf e).mem_iff, mem_cons]

theorem flatten_set_perm (lists : List (List Int)) :
    ∀ (i : Nat) (c : Int) (l : List Int), lists.getD i [] = c :: l →
      lists.flatten ~ c :: (lists.set i l).flatten := by
  induction lists with
  | nil => intro i c l h; simp at h
  | cons x r ih =>
    intro i c l h
    cases i with
    | zero =>
      have hx : x = c :: l := by simpa using h
      subst hx
      simp
    | succ i =>
      have hr : r.getD i [] = c :: l := by simpa using h
      have := ih i c l hr
      simp only [set_cons_succ, flatten_cons]
      exact (Perm.append_left x this).trans perm_middle

theorem getD_set_self (lists : List (List Int)) (i : Nat) (l : List Int) (h : lists.getD i [] ≠ []) :
    (lists.set i l).getD i [] = l := by
  have hi : i < lists.length := by
    apply Classical.byContradiction
    intro hn
    apply h
    simp [getD_eq_getElem?_getD, getElem?_eq_none (by omega : lists.length ≤ i)]
  simp [getD_eq_getElem?_getD, getElem?_set_self hi]

theorem getD_set_ne (lists : List (List Int)) (i j : Nat) (l : List Int) (h : i ≠ j) :
    (lists.set i l).getD j [] = lists.getD j [] := by
  simp [getD_eq_getElem?_getD, getElem?_set_ne h]

/-- every list that still holds coordinates has its head in the buffer -/
def Tracked (off : Nat) (lists : List (List Int)) (buf : List (Int × Nat)) : Prop :=
  ∀ k, lists.getD k [] ≠ [] → ∃ c, (c, off + k) ∈ buf

theorem flatten_nil_of_all_nil (lists : List (List Int)) (h : ∀ k, lists.getD k [] = []) :
    lists.flatten = [] := by
  induction lists with
  | nil => rfl
  | cons x r ih =>
    have hx : x = [] := by simpa using h 0
    have hr : ∀ k, r.getD k [] = [] := fun k => by simpa using h (k + 1)
    simp [hx, ih hr]

theorem specDrain_emits (fuel : Nat) :
    ∀ (lists : List (List Int)) (buf : List (Int × Nat)) (out : List Int) (cost : Nat),
      Tracked 0 lists buf → (pending lists buf).length ≤ fuel →
      (specDrain fuel lists buf out cost).2 ~ out ++ pending lists buf := by
  induction fuel with
  | zero =>
    intro lists buf out cost _ hf
    have : pending lists buf = [] := length_eq_zero_iff.1 (by omega)
    simp [specDrain, this]
  | succ fuel ih =>
    intro lists buf out cost ht hf
    cases buf with
    | nil =>
      have hall : ∀ k, lists.getD k [] = [] := by
        intro k
        apply Classical.byContradiction
        intro hne
        obtain ⟨c, hc⟩ := ht k hne
        simp at hc
      simp [specDrain, pending, flatten_nil_of_all_nil lists hall]
    | cons x b =>
      obtain ⟨c, i⟩ := x
      simp only [specDrain]
      cases hl : lists.getD i [] with
      | nil =>
        simp only
        have ht' : Tracked 0 lists b := by
          intro k hk
          obtain ⟨c', hc'⟩ := ht k hk
          simp only [Nat.zero_add, mem_cons, Prod.mk.injEq] at hc'
          rcases hc' with ⟨_, rfl⟩ | hc'
          · exact absurd hl hk
          · exact ⟨c', by simpa using hc'⟩
        have hf' : (pending lists b).length ≤ fuel := by
          simp only [pending, map_cons, length_append, length_cons, length_map] at hf ⊢
          omega
        refine (ih lists b (out ++ [c]) cost ht' hf').trans ?_
        simp only [pending, map_cons, append_assoc, singleton_append, cons_append]
        exact Perm.refl _
      | cons c' l =>
        simp only
        have hne : lists.getD i [] ≠ [] := by rw [hl]; simp
        have ht' : Tracked 0 (lists.set i l) (bufInsert b (c', i)) := by
          intro k hk
          by_cases hki : k = i
          · subst hki
            exact ⟨c', by rw [Nat.zero_add]; exact mem_bufInsert.2 (Or.inl rfl)⟩
          · rw [getD_set_ne lists i k l (fun h => hki h.symm)] at hk
            obtain ⟨c'', hc''⟩ := ht k hk
            simp only [Nat.zero_add, mem_cons, Prod.mk.injEq] at hc''
            rcases hc'' with ⟨_, rfl⟩ | hc''
            · exact absurd rfl hki
            · exact ⟨c'', by rw [Nat.zero_add]; exact mem_bufInsert.2 (Or.inr hc'')⟩
        have hperm : c :: pending (lists.set i l) (bufInsert b (c', i)) ~ pending lists ((c, i) :: b) := by
          simp only [pending, map_cons]
          refine Perm.cons c ?_
          have h1 : (bufInsert b (c', i)).map (·.1) ~ c' :: b.map (·.1) := by
            simpa using (bufInsert_perm b (c', i)).map (·.1)
          have h2 := flatten_set_perm lists i c' l hl
          refine (Perm.append_right _ h1).trans ?_
          simp only [cons_append]
          exact (perm_middle.symm).trans (Perm.append_left _ h2.symm)
        have hf' : (pending (lists.set i l) (bufInsert b (c', i))).length ≤ fuel := by
          have := hperm.length_eq
          simp only [length_cons] at this
          omega
        refine (ih (lists.set i l) (bufInsert b (c', i)) (out ++ [c]) _ ht' hf').trans ?_
        rw [append_assoc]
        exact Perm.append_left out (by simpa using hperm)

theorem specHeads_content (lists : List (List Int)) :
    ∀ (i : Nat) (buf : List (Int × Nat)) (cost : Nat),
      pending (specHeads i lists buf cost).1 (specHeads i lists buf cost).2.1 ~ pending lists buf ∧
      (∀ x ∈ buf, x ∈ (specHeads i lists buf cost).2.1) ∧
      Tracked i (specHeads i lists buf cost).1 (specHeads i lists buf cost).2.1 := by
  induction lists with
  | nil =>
    intro i buf cost
    refine ⟨Perm.refl _, fun x hx => hx, ?_⟩
    intro k hk; simp [specHeads] at hk
  | cons x ls ih =>
    intro i buf cost
    cases x with
    | nil =>
      obtain ⟨h1, h2, h3⟩ := ih (i + 1) buf cost
      simp only [specHeads]
      refine ⟨by simpa [pending] using h1, h2, ?_⟩
      intro k hk
      cases k with
      | zero => simp at hk
      | succ k =>
        obtain ⟨c, hc⟩ := h3 k (by simpa using hk)
        exact ⟨c, by rw [show i + (k + 1) = i + 1 + k by omega]; exact hc⟩
    | cons c l =>
      obtain ⟨h1, h2, h3⟩ := ih (i + 1) (bufInsert buf (c, i)) (cost + bufCost buf (c, i))
      simp only [specHeads]
      refine ⟨?_, ?_, ?_⟩
      · have hb : (bufInsert buf (c, i)).map (·.1) ~ c :: buf.map (·.1) := by
          simpa using (bufInsert_perm buf (c, i)).map (·.1)
        simp only [pending, flatten_cons] at h1 ⊢
        have e1 : map (fun x => x.fst) (specHeads (i + 1) ls (bufInsert buf (c, i)) (cost + bufCost buf (c, i))).2.1 ++
            (l ++ (specHeads (i + 1) ls (bufInsert buf (c, i)) (cost + bufCost buf (c, i))).1.flatten) ~
            l ++ (map (fun x => x.fst) (specHeads (i + 1) ls (bufInsert buf (c, i)) (cost + bufCost buf (c, i))).2.1 ++
              (specHeads (i + 1) ls (bufInsert buf (c, i)) (cost + bufCost buf (c, i))).1.flatten) := by
          rw [← append_assoc, ← append_assoc]
          exact Perm.append_right _ perm_append_comm
        refine e1.trans ((Perm.append_left l h1).trans ?_)
        refine (Perm.append_left l (Perm.append_right _ hb)).trans ?_
        simp only [cons_append]
        refine perm_middle.trans ?_
        have e2 : l ++ (map (fun x => x.fst) buf ++ ls.flatten) ~ map (fun x => x.fst) buf ++ (l ++ ls.flatten) := by
          rw [← append_assoc, ← append_assoc]
          exact Perm.append_right _ perm_append_comm
        exact (e2.cons c).trans perm_middle.symm
      · intro y hy
        exact h2 y (mem_bufInsert.2 (Or.inr hy))
      · intro k hk
        cases k with
        | zero => exact ⟨c, h2 (c, i) (mem_bufInsert.2 (Or.inl rfl))⟩
        | succ k =>
          obtain ⟨c', hc'⟩ := h3 k (by simpa using hk)
          exact ⟨c', by rw [show i + (k + 1) = i + 1 + k by omega]; exact hc'⟩

theorem pySort_congr {l1 l2 : List Int} (h : l1 ~ l2) : pySort l1 = pySort l2 := by
  apply Perm.eq_of_pairwise (le := fun a b => decide (a ≤ b) = true)
  · intro a b _ _ h1 h2
    simp only [decide_eq_true_eq] at h1 h2
    omega
  · exact pySort_pairwise _
  · exact pySort_pairwise _
  · exact (pySort_perm l1).trans (h.trans (pySort_perm l2).symm)

/-- a merge leaves the sorted union of its lists -/
theorem insertMerge_sorted (lists : List (List Int)) : (insertMerge lists).2 = pySort lists.flatten := by
  unfold insertMerge
  obtain ⟨h1, _, h3⟩ := specHeads_content lists 0 [] 0
  have hc : pending lists [] = lists.flatten := by simp [pending]
  have hlen : (pending (specHeads 0 lists [] 0).1 (specHeads 0 lists [] 0).2.1).length ≤ (lists.map List.length).sum := by
    rw [h1.length_eq, hc, length_flatten]
    exact Nat.le_refl _
  have := specDrain_emits _ _ _ [] (specHeads 0 lists [] 0).2.2 h3 hlen
  simp only [nil_append] at this
  apply pySort_congr
  exact this.trans (by rw [← hc]; exact h1)

end Ft
