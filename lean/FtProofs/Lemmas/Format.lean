/-
  Helper lemmas for C18 (format footprints): sums over loops, the stack walk of
  `getSubTree`, the enumeration of reachable fibers, spec dictionaries.  Mathlib-free.
-/
import FtModel.Format
import FtProofs.Lemmas.Sorted
set_option linter.unusedSectionVars false
set_option linter.unusedSimpArgs false
set_option linter.unusedVariables false
namespace Ft

/-! ### sums -/

theorem foldl_add_eq_sum {α : Type} (g : α → Nat) (l : List α) (init : Nat) :
    l.foldl (fun total e => total + g e) init = init + (l.map g).sum := by
  induction l generalizing init with
  | nil => simp
  | cons x r ih => simp only [List.foldl_cons, List.map_cons, List.sum_cons, ih]; omega

theorem sum_flatMap {α : Type} (l : List α) (f : α → List Nat) :
    (l.flatMap f).sum = (l.map (fun x => (f x).sum)).sum := by
  induction l with
  | nil => rfl
  | cons x r ih => simp [List.flatMap_cons, List.sum_append, ih]

theorem sum_map_flatMap {α β : Type} (l : List α) (f : α → List β) (g : β → Nat) :
    ((l.flatMap f).map g).sum = (l.map (fun x => ((f x).map g).sum)).sum := by
  rw [List.map_flatMap, sum_flatMap]

/-! ### one fiber -/

theorem fpFiber_eq (l : FpLevel) (occ : Nat) :
    fpFiber l occ = l.fhbits + (l.cbits + l.pbits) * fpNumElems l occ := by
  unfold fpFiber; rw [Nat.add_mul]; omega

section
variable {ν : Type} [DecidableEq ν]

/-! ### the stack walk -/

/-- sub-tree footprint of a stack entry, recomputed from the enumeration -/
def fpItemSpec (dflt : ν) (lv : Nat → FpLevel) (it : FpItem ν) : Nat := fpSubTreeSpec dflt lv it.h it.f

def fpItemSize (dflt : ν) (lv : Nat → FpLevel) (it : FpItem ν) : Nat := fpSize dflt lv it.h it.f

theorem fpSubTreeSpec_zero (dflt : ν) (lv : Nat → FpLevel) (f : Tree Int ν 1) :
    fpSubTreeSpec dflt lv 0 f = fpFiber (lv 0) (fpOcc 0 f) := by
  simp [fpSubTreeSpec, fpReach]

theorem fpSubTreeSpec_succ (dflt : ν) (lv : Nat → FpLevel) (d : Nat) (f : Tree Int ν (d + 2)) :
    fpSubTreeSpec dflt lv (d + 1) f =
      fpFiber (lv (d + 1)) (fpOcc (d + 1) f) +
        ((fpKids dflt (lv (d + 1)) d f).map (fun k => fpSubTreeSpec dflt lv d k.2)).sum := by
  simp only [fpSubTreeSpec, fpReach, List.map_cons, List.sum_cons, sum_map_flatMap, List.map_map]
  rfl

theorem fpItemSpec_step (dflt : ν) (lv : Nat → FpLevel) (it : FpItem ν) :
    fpItemSpec dflt lv it =
      fpItemCost lv it + ((fpItemKids dflt lv it).map (fpItemSpec dflt lv)).sum := by
  obtain ⟨h, f⟩ := it
  cases h with
  | zero => simp [fpItemSpec, fpItemCost, fpItemKids, fpSubTreeSpec_zero]
  | succ d =>
    simp only [fpItemSpec, fpItemCost, fpItemKids, fpSubTreeSpec_succ, List.map_map]
    rfl

theorem fpItemSize_step (dflt : ν) (lv : Nat → FpLevel) (it : FpItem ν) :
    fpItemSize dflt lv it = 1 + ((fpItemKids dflt lv it).map (fpItemSize dflt lv)).sum := by
  obtain ⟨h, f⟩ := it
  cases h with
  | zero => simp [fpItemSize, fpItemKids, fpSize]
  | succ d =>
    simp only [fpItemSize, fpItemKids, fpSize, List.map_map]
    rfl

/-- With at least as much fuel as fibers to visit, the stack loop returns the running total
    plus the sub-tree sums of everything on the stack — whatever the stack order. -/
theorem fpWalk_spec (dflt : ν) (lv : Nat → FpLevel) :
    ∀ (fuel : Nat) (stack : List (FpItem ν)) (total : Nat),
      (stack.map (fpItemSize dflt lv)).sum ≤ fuel →
      fpWalk dflt lv fuel stack total = total + (stack.map (fpItemSpec dflt lv)).sum := by
  intro fuel
  induction fuel with
  | zero =>
    intro stack total h
    cases stack with
    | nil => simp [fpWalk]
    | cons it r =>
      rw [List.map_cons, List.sum_cons, fpItemSize_step] at h
      omega
  | succ n ih =>
    intro stack total h
    cases stack with
    | nil => simp [fpWalk]
    | cons it r =>
      rw [List.map_cons, List.sum_cons, fpItemSize_step] at h
      rw [fpWalk, ih]
      · rw [List.map_append, List.sum_append, List.map_reverse, List.sum_reverse,
          List.map_cons, List.sum_cons, fpItemSpec_step dflt lv it]
        omega
      · rw [List.map_append, List.sum_append, List.map_reverse, List.sum_reverse]
        omega

/-! ### the enumeration of reachable fibers -/

theorem mem_fpKids_U {dflt : ν} {l : FpLevel} {d : Nat} {f : Tree Int ν (d + 2)}
    (hf : l.format = .U) (k : Int × Tree Int ν (d + 1)) :
    k ∈ fpKids dflt l d f ↔ 0 ≤ k.1 ∧ k.1 < (l.shape : Int) ∧ k.2 = fpChildAt d f k.1 := by
  simp only [fpKids, hf, List.mem_map, List.mem_range]
  constructor
  · rintro ⟨n, hn, rfl⟩
    exact ⟨by simp, by simp; omega, rfl⟩
  · rintro ⟨h0, h1, h2⟩
    refine ⟨k.1.toNat, by omega, ?_⟩
    have : ((k.1.toNat : Nat) : Int) = k.1 := by omega
    rw [this]
    exact Prod.ext rfl h2.symm

theorem mem_fpKids_C {dflt : ν} {l : FpLevel} {d : Nat} {f : Tree Int ν (d + 2)}
    (hf : l.format = .C) (k : Int × Tree Int ν (d + 1)) :
    k ∈ fpKids dflt l d f ↔
      k ∈ (show List (Int × Tree Int ν (d + 1)) from f) ∧ isEmpty dflt (d + 1) k.2 = false := by
  simp only [fpKids, hf, present]
  rw [List.mem_filter (as := (show List (Int × Tree Int ν (d + 1)) from f))]
  simp


theorem mem_fpReach_succ (dflt : ν) (lv : Nat → FpLevel) (d : Nat) (f : Tree Int ν (d + 2))
    (x : FpReached) :
    x ∈ fpReach dflt lv (d + 1) f ↔
      x = ([], d + 1, fpOcc (d + 1) f) ∨
      ∃ k ∈ fpKids dflt (lv (d + 1)) d f, ∃ r ∈ fpReach dflt lv d k.2, x = (k.1 :: r.1, r.2) := by
  simp only [fpReach, List.mem_cons, List.mem_flatMap, List.mem_map]
  constructor
  · rintro (h | ⟨k, hk, r, hr, rfl⟩)
    · exact Or.inl h
    · exact Or.inr ⟨k, hk, r, hr, rfl⟩
  · rintro (h | ⟨k, hk, r, hr, rfl⟩)
    · exact Or.inl h
    · exact Or.inr ⟨k, hk, r, hr, rfl⟩

/-- the enumeration lists exactly the declaratively reachable fibers -/
theorem fpReach_iff (dflt : ν) (lv : Nat → FpLevel) :
    ∀ (d : Nat) (f : Tree Int ν (d + 1)) (p : List Int) (h o : Nat),
      (p, h, o) ∈ fpReach dflt lv d f ↔ FpReachable dflt lv d f p h o := by
  intro d
  induction d with
  | zero => intro f p h o; simp [fpReach, FpReachable]
  | succ d ih =>
    intro f p h o
    rw [mem_fpReach_succ]
    cases p with
    | nil =>
      simp only [FpReachable]
      constructor
      · rintro (h1 | ⟨k, hk, r, hr, h2⟩)
        · simpa using h1
        · simp at h2
      · rintro ⟨rfl, rfl⟩; exact Or.inl rfl
    | cons c p' =>
      have key : ((c :: p', h, o) = (([] : List Int), d + 1, fpOcc (d + 1) f) ∨
          ∃ k ∈ fpKids dflt (lv (d + 1)) d f, ∃ r ∈ fpReach dflt lv d k.2,
            (c :: p', h, o) = (k.1 :: r.1, r.2)) ↔
          ∃ k ∈ fpKids dflt (lv (d + 1)) d f, k.1 = c ∧ FpReachable dflt lv d k.2 p' h o := by
        constructor
        · rintro (h1 | ⟨k, hk, r, hr, h2⟩)
          · simp at h1
          · obtain ⟨r1, r2, r3⟩ := r
            simp only [Prod.mk.injEq, List.cons.injEq] at h2
            obtain ⟨⟨rfl, rfl⟩, rfl, rfl⟩ := h2
            exact ⟨k, hk, rfl, (ih k.2 _ _ _).1 hr⟩
        · rintro ⟨k, hk, rfl, hr⟩
          exact Or.inr ⟨k, hk, (p', h, o), (ih k.2 _ _ _).2 hr, rfl⟩
      rw [key]
      cases hfmt : (lv (d + 1)).format with
      | U =>
        simp only [FpReachable, hfmt]
        constructor
        · rintro ⟨k, hk, rfl, hr⟩
          obtain ⟨h0, h1, h2⟩ := (mem_fpKids_U hfmt k).1 hk
          exact ⟨h0, h1, h2 ▸ hr⟩
        · rintro ⟨h0, h1, hr⟩
          exact ⟨(c, fpChildAt d f c), (mem_fpKids_U hfmt _).2 ⟨h0, h1, rfl⟩, rfl, hr⟩
      | C =>
        simp only [FpReachable, hfmt]
        constructor
        · rintro ⟨k, hk, rfl, hr⟩
          obtain ⟨h0, h1⟩ := (mem_fpKids_C hfmt k).1 hk
          exact ⟨k.2, h0, h1, hr⟩
        · rintro ⟨g, hg, he, hr⟩
          exact ⟨(c, g), (mem_fpKids_C hfmt _).2 ⟨hg, he⟩, rfl, hr⟩


/-! ### every reachable fiber is listed once -/

/-- the executable well-formedness check decides `WF` (sorted fibers at every level) -/
theorem fp_wfB_iff : ∀ (d : Nat) (t : Tree Int ν d), wfB d t = true ↔ WF d t := by
  intro d
  induction d with
  | zero => intro t; simp [wfB, WF]
  | succ d ih =>
    intro t
    simp only [wfB, WF, Bool.and_eq_true]
    constructor
    · rintro ⟨h1, h2⟩
      exact ⟨(sortedB_iff _).1 h1, fun e he => (ih e.2).1 (List.all_eq_true.1 h2 e he)⟩
    · rintro ⟨h1, h2⟩
      exact ⟨(sortedB_iff _).2 h1, List.all_eq_true.2 (fun e he => (ih e.2).2 (h2 e he))⟩

theorem fp_lookup_mem {π : Type} {f : Fib Int π} {c : Int} {g : π} (h : lookup f c = some g) :
    (c, g) ∈ f := by
  unfold lookup at h
  cases hf : f.find? (fun e => e.1 = c) with
  | none => simp [hf] at h
  | some e =>
    simp only [hf, Option.map_some, Option.some.injEq] at h
    have hm := List.mem_of_find?_eq_some hf
    have hp := List.find?_some hf
    simp only [decide_eq_true_eq] at hp
    subst hp; subst h
    exact hm

theorem fpChildAt_wf (d : Nat) (f : Tree Int ν (d + 2)) (hw : WF (d + 2) f) (c : Int) :
    WF (d + 1) (fpChildAt d f c) := by
  unfold fpChildAt
  cases hl : lookup (show List (Int × Tree Int ν (d + 1)) from f) c with
  | none =>
    simp only [Option.getD_none, fpEmptyFiber]
    exact ⟨List.Pairwise.nil, fun e he => by cases he⟩
  | some g =>
    simp only [Option.getD_some]
    exact hw.2 (c, g) (fp_lookup_mem hl)

theorem fpKids_wf (dflt : ν) (l : FpLevel) (d : Nat) (f : Tree Int ν (d + 2)) (hw : WF (d + 2) f) :
    ∀ k ∈ fpKids dflt l d f, WF (d + 1) k.2 := by
  intro k hk
  cases hfmt : l.format with
  | U =>
    obtain ⟨_, _, h2⟩ := (mem_fpKids_U hfmt k).1 hk
    rw [h2]; exact fpChildAt_wf d f hw _
  | C =>
    obtain ⟨h0, _⟩ := (mem_fpKids_C hfmt k).1 hk
    exact hw.2 k h0

theorem fpKids_pairwise (dflt : ν) (l : FpLevel) (d : Nat) (f : Tree Int ν (d + 2)) (hw : WF (d + 2) f) :
    (fpKids dflt l d f).Pairwise (fun a b => a.1 ≠ b.1) := by
  cases hfmt : l.format with
  | U =>
    simp only [fpKids, hfmt, List.pairwise_map]
    exact List.pairwise_lt_range.imp (fun {a b} h => by omega)
  | C =>
    simp only [fpKids, hfmt, present]
    have hs : List.Pairwise (fun x y => x.1 < y.1) (show List (Int × Tree Int ν (d + 1)) from f) := hw.1
    exact (hs.filter _).imp (fun {a b} h => by omega)

/-- distinct reachable fibers have distinct coordinate paths: the enumeration has no repeats -/
theorem fpReach_nodup (dflt : ν) (lv : Nat → FpLevel) :
    ∀ (d : Nat) (f : Tree Int ν (d + 1)), WF (d + 1) f →
      ((fpReach dflt lv d f).map (·.1)).Nodup := by
  intro d
  induction d with
  | zero => intro f _; simp [fpReach]
  | succ d ih =>
    intro f hw
    simp only [fpReach, List.map_cons, List.map_flatMap, List.map_map]
    refine List.nodup_cons.2 ⟨?_, ?_⟩
    · intro hm
      obtain ⟨k, _, hm⟩ := List.mem_flatMap.1 hm
      obtain ⟨r, _, hr⟩ := List.mem_map.1 hm
      simp at hr
    · unfold List.Nodup
      refine List.pairwise_flatMap.2 ⟨?_, ?_⟩
      · intro k hk
        have := ih k.2 (fpKids_wf dflt _ d f hw k hk)
        unfold List.Nodup at this
        rw [List.pairwise_map] at this ⊢
        exact this.imp (fun {a b} h => by simpa using h)
      · refine (fpKids_pairwise dflt _ d f hw).imp ?_
        intro a b hab x hx y hy
        obtain ⟨r, _, rfl⟩ := List.mem_map.1 hx
        obtain ⟨r', _, rfl⟩ := List.mem_map.1 hy
        simp [hab]


/-! ### the same for fibers that are only unique (created with `ordered=False`) -/

theorem fpUniq_of_wf : ∀ (d : Nat) (t : Tree Int ν d), WF d t → FpUniq d t := by
  intro d
  induction d with
  | zero => intro t _; trivial
  | succ d ih =>
    intro t hw
    have hs : List.Pairwise (fun x y => x.1 < y.1) (show List (Int × Tree Int ν d) from t) := hw.1
    exact ⟨hs.imp (fun {a b} h => by omega), fun e he => ih e.2 (hw.2 e he)⟩

theorem fpChildAt_uniq (d : Nat) (f : Tree Int ν (d + 2)) (hw : FpUniq (d + 2) f) (c : Int) :
    FpUniq (d + 1) (fpChildAt d f c) := by
  unfold fpChildAt
  cases hl : lookup (show List (Int × Tree Int ν (d + 1)) from f) c with
  | none =>
    simp only [Option.getD_none, fpEmptyFiber]
    exact ⟨List.Pairwise.nil, fun e he => by cases he⟩
  | some g =>
    simp only [Option.getD_some]
    exact hw.2 (c, g) (fp_lookup_mem hl)

theorem fpKids_uniq (dflt : ν) (l : FpLevel) (d : Nat) (f : Tree Int ν (d + 2)) (hw : FpUniq (d + 2) f) :
    ∀ k ∈ fpKids dflt l d f, FpUniq (d + 1) k.2 := by
  intro k hk
  cases hfmt : l.format with
  | U =>
    obtain ⟨_, _, h2⟩ := (mem_fpKids_U hfmt k).1 hk
    rw [h2]; exact fpChildAt_uniq d f hw _
  | C =>
    obtain ⟨h0, _⟩ := (mem_fpKids_C hfmt k).1 hk
    exact hw.2 k h0

theorem fpKids_pairwise_uniq (dflt : ν) (l : FpLevel) (d : Nat) (f : Tree Int ν (d + 2))
    (hw : FpUniq (d + 2) f) : (fpKids dflt l d f).Pairwise (fun a b => a.1 ≠ b.1) := by
  cases hfmt : l.format with
  | U =>
    simp only [fpKids, hfmt, List.pairwise_map]
    exact List.pairwise_lt_range.imp (fun {a b} h => by omega)
  | C =>
    simp only [fpKids, hfmt, present]
    have hs : List.Pairwise (fun x y => x.1 ≠ y.1) (show List (Int × Tree Int ν (d + 1)) from f) := hw.1
    exact hs.filter _

theorem fpReach_nodup_uniq (dflt : ν) (lv : Nat → FpLevel) :
    ∀ (d : Nat) (f : Tree Int ν (d + 1)), FpUniq (d + 1) f →
      ((fpReach dflt lv d f).map (·.1)).Nodup := by
  intro d
  induction d with
  | zero => intro f _; simp [fpReach]
  | succ d ih =>
    intro f hw
    simp only [fpReach, List.map_cons, List.map_flatMap, List.map_map]
    refine List.nodup_cons.2 ⟨?_, ?_⟩
    · intro hm
      obtain ⟨k, _, hm⟩ := List.mem_flatMap.1 hm
      obtain ⟨r, _, hr⟩ := List.mem_map.1 hm
      simp at hr
    · unfold List.Nodup
      refine List.pairwise_flatMap.2 ⟨?_, ?_⟩
      · intro k hk
        have := ih k.2 (fpKids_uniq dflt _ d f hw k hk)
        unfold List.Nodup at this
        rw [List.pairwise_map] at this ⊢
        exact this.imp (fun {a b} h => by simpa using h)
      · refine (fpKids_pairwise_uniq dflt _ d f hw).imp ?_
        intro a b hab x hx y hy
        obtain ⟨r, _, rfl⟩ := List.mem_map.1 hx
        obtain ⟨r', _, rfl⟩ := List.mem_map.1 hy
        simp [hab]

/-! ### the raw walk by depth -/

theorem mem_fpFibersAt_succ (d : Nat) (f : Tree Int ν (d + 2)) (i : Nat) (e : FpRankEntry) :
    e ∈ fpFibersAt (d + 1) f (i + 1) ↔
      ∃ x ∈ (show List (Int × Tree Int ν (d + 1)) from f), ∃ r ∈ fpFibersAt d x.2 i,
        e = (r.1.map (x.1 :: ·), r.2) := by
  show e ∈ List.flatMap (fun x => (fpFibersAt d x.2 i).map (fun r => (r.1.map (x.1 :: ·), r.2)))
      (show List (Int × Tree Int ν (d + 1)) from f) ↔ _
  constructor
  · intro h
    obtain ⟨x, hx, hm⟩ := List.mem_flatMap.1 h
    obtain ⟨r, hr, rfl⟩ := List.mem_map.1 hm
    exact ⟨x, hx, r, hr, rfl⟩
  · rintro ⟨x, hx, r, hr, rfl⟩
    exact List.mem_flatMap.2 ⟨x, hx, List.mem_map.2 ⟨r, hr, rfl⟩⟩

theorem fpFibersAt_iff : ∀ (d : Nat) (f : Tree Int ν (d + 1)) (i : Nat) (e : FpRankEntry),
    e ∈ fpFibersAt d f i ↔ ∃ p, e.1 = some p ∧ p.length = i ∧ FpStored d f p e.2 := by
  intro d
  induction d with
  | zero =>
    intro f i e
    cases i with
    | zero =>
      simp only [fpFibersAt, List.mem_singleton, FpStored]
      constructor
      · rintro rfl; exact ⟨[], rfl, rfl, rfl, rfl⟩
      · rintro ⟨p, h1, _, rfl, h3⟩; exact Prod.ext h1 h3
    | succ i =>
      simp only [fpFibersAt, List.not_mem_nil, FpStored, false_iff]
      rintro ⟨p, _, h2, rfl, _⟩; simp at h2
  | succ d ih =>
    intro f i e
    cases i with
    | zero =>
      simp only [fpFibersAt, List.mem_singleton]
      constructor
      · rintro rfl; exact ⟨[], rfl, rfl, rfl⟩
      · rintro ⟨p, h1, h2, h3⟩
        have : p = [] := List.eq_nil_of_length_eq_zero h2
        subst this
        exact Prod.ext h1 h3
    | succ i =>
      rw [mem_fpFibersAt_succ]
      constructor
      · rintro ⟨x, hx, r, hr, rfl⟩
        obtain ⟨p, h1, h2, h3⟩ := (ih x.2 i r).1 hr
        refine ⟨x.1 :: p, by simp [h1], by simp [h2], ?_⟩
        exact ⟨x.2, hx, h3⟩
      · rintro ⟨p, h1, h2, h3⟩
        cases p with
        | nil => simp at h2
        | cons c p' =>
          obtain ⟨g, hg, hs⟩ := h3
          refine ⟨(c, g), hg, (some p', e.2), (ih g i _).2 ⟨p', rfl, by simpa using h2, hs⟩, ?_⟩
          exact Prod.ext (by simp [h1]) rfl

end

/-! ### spec dictionaries -/

theorem lookupD_nil {κ π : Type} [DecidableEq κ] (c : κ) : lookup ([] : Fib κ π) c = none := rfl

theorem lookupD_cons {κ π : Type} [DecidableEq κ] (e : κ × π) (f : Fib κ π) (c : κ) :
    lookup (e :: f) c = if e.1 = c then some e.2 else lookup f c := by
  unfold lookup
  by_cases h : e.1 = c <;> simp [List.find?_cons, h]

theorem lookup_append_single (e : SpecDict) (k : String) (v : SpecVal) (k' : String) :
    lookup (e ++ [(k, v)]) k' =
      match lookup e k' with
      | some x => some x
      | none => if k = k' then some v else none := by
  induction e with
  | nil => simp [lookupD_cons, lookupD_nil]
  | cons x r ih =>
    rw [List.cons_append, lookupD_cons, lookupD_cons]
    by_cases h : x.1 = k'
    · simp [h]
    · simp [h, ih]

theorem fillIntField_lookup {e e' : SpecDict} {k : String} (h : fillIntField e k = some e')
    (k' : String) :
    lookup e' k' = if k' = k then some ((lookup e k).getD (SpecVal.int 0)) else lookup e k' := by
  unfold fillIntField at h
  cases hl : lookup e k with
  | none =>
    simp only [hl, lookup_append_single, if_true] at h
    injection h with h; subst h
    rw [lookup_append_single]
    by_cases hk : k' = k
    · subst hk; simp [hl]
    · have : ¬ k = k' := fun h => hk h.symm
      cases hl' : lookup e k' <;> simp [hk, this]
  | some v =>
    simp only [hl] at h
    cases v with
    | int n =>
      injection h with h; subst h
      by_cases hk : k' = k
      · subst hk; simp [hl]
      · simp [hk]
    | str s => simp at h
    | other => simp at h

theorem fillStrField_lookup {e e' : SpecDict} {k dflt : String} {opts : List String}
    (h : fillStrField e k dflt opts = some e') (k' : String) :
    lookup e' k' = if k' = k then some ((lookup e k).getD (SpecVal.str dflt)) else lookup e k' := by
  unfold fillStrField at h
  cases hl : lookup e k with
  | none =>
    simp only [hl, lookup_append_single, if_true] at h
    split at h
    · injection h with h; subst h
      rw [lookup_append_single]
      by_cases hk : k' = k
      · subst hk; simp [hl]
      · have : ¬ k = k' := fun h => hk h.symm
        cases hl' : lookup e k' <;> simp [hk, this]
    · cases h
  | some v =>
    simp only [hl] at h
    cases v with
    | str s =>
      simp only at h
      split at h
      · injection h with h; subst h
        by_cases hk : k' = k
        · subst hk; simp [hl]
        · simp [hk]
      · cases h
    | int n => simp at h
    | other => simp at h

theorem checkFillRank_lookup {e e' : SpecDict} (h : checkFillRank e = some e') (k : String) :
    lookup e' k = match lookup e k with
      | some v => some v
      | none => specRankDefault k := by
  unfold checkFillRank at h
  simp only [Option.bind_eq_bind, Option.bind_eq_some_iff] at h
  obtain ⟨e1, h1, e2, h2, e3, h3, e4, h4, e5, h5, e6, h6, h7⟩ := h
  split at h7
  · injection h7 with h7; subst h7
    have L1 := fillIntField_lookup h1
    have L2 := fillIntField_lookup h2
    have L3 := fillIntField_lookup h3
    have L4 := fillIntField_lookup h4
    have L5 := fillStrField_lookup h5
    have L6 := fillStrField_lookup h6
    simp only [L6, L5, L4, L3, L2, L1]
    unfold specRankDefault
    by_cases k1 : k = "layout"
    · subst k1; cases lookup e "layout" <;> simp
    by_cases k2 : k = "format"
    · subst k2; cases lookup e "format" <;> simp
    by_cases k3 : k = "pbits"
    · subst k3; cases lookup e "pbits" <;> simp
    by_cases k4 : k = "cbits"
    · subst k4; cases lookup e "cbits" <;> simp
    by_cases k5 : k = "fhbits"
    · subst k5; cases lookup e "fhbits" <;> simp
    by_cases k6 : k = "rhbits"
    · subst k6; cases lookup e "rhbits" <;> simp
    · cases lookup e k <;> simp [k1, k2, k3, k4, k5, k6]
  · cases h7

theorem checkFillRoot_lookup {e e' : SpecDict} (h : checkFillRoot e = some e') (k : String) :
    lookup e' k = match lookup e k with
      | some v => some v
      | none => specRootDefault k := by
  unfold checkFillRoot at h
  simp only [Option.bind_eq_bind, Option.bind_eq_some_iff] at h
  obtain ⟨e1, h1, e2, h2, h7⟩ := h
  split at h7
  · injection h7 with h7; subst h7
    have L1 := fillIntField_lookup h1
    have L2 := fillIntField_lookup h2
    simp only [L2, L1]
    unfold specRootDefault
    by_cases k1 : k = "pbits"
    · subst k1; cases lookup e "pbits" <;> simp
    by_cases k2 : k = "hbits"
    · subst k2; cases lookup e "hbits" <;> simp
    · cases lookup e k <;> simp [k1, k2]
  · cases h7

end Ft
