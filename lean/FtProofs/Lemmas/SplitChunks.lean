/-
  Helper lemmas for C08, position space: the boundaries chosen by `splitEqual` / `splitUnEqual`
  cut the active elements into consecutive chunks, and the non-uniform split at those boundaries
  (halo 0) returns exactly those chunks.
-/
import FtModel.Split
import FtProofs.Lemmas.SplitSpec
set_option linter.unusedSectionVars false
set_option linter.unusedSimpArgs false
set_option linter.unusedVariables false
namespace Ft

section chunks
variable {π : Type}

/-- first coordinate of a chunk -/
def headCoord (c : Fib Int π) : Int :=
  match c with
  | e :: _ => e.1
  | [] => 0

/-- boundaries of a chunking whose first chunk is declared to start at `s` -/
def boundsOf (s : Int) (cs : List (Fib Int π)) : List Int :=
  match cs with
  | [] => []
  | _ :: rest => s :: rest.map headCoord

theorem nuMemb_cons_succ (s : Int) (B : List Int) (pre post as ae : Int) (i : Nat) (c : Int) :
    nuMemb (s :: B) pre post as ae (i + 1) c = nuMemb B pre post as ae i c := by
  unfold nuMemb
  simp only [List.getElem?_cons_succ]

theorem nuHi_cons_succ (s : Int) (B : List Int) (ae : Int) (i : Nat) :
    nuHi (s :: B) ae (i + 1) = nuHi B ae i := by
  unfold nuHi
  simp only [List.getElem?_cons_succ]

theorem nuSpec_cons (s : Int) (B : List Int) (pre post as ae : Int) (rel : Bool) (l : Fib Int π) :
    nuSpec (s :: B) pre post as ae rel l =
      (if (l.filter (fun e => nuMemb (s :: B) pre post as ae 0 e.1)).isEmpty then []
       else [mkPart rel s (max s as) (nuHi (s :: B) ae 0)
              (l.filter (fun e => nuMemb (s :: B) pre post as ae 0 e.1))]) ++
      nuSpec B pre post as ae rel l := by
  unfold nuSpec
  rw [List.length_cons, List.range_succ_eq_map, List.filterMap_cons, List.filterMap_map]
  have htail : (List.range B.length).filterMap
      ((fun i =>
        let b := l.filter (fun e => nuMemb (s :: B) pre post as ae i e.1)
        if b.isEmpty then none
        else some (mkPart rel ((s :: B).getD i 0) (max ((s :: B).getD i 0) as) (nuHi (s :: B) ae i) b)) ∘ Nat.succ) =
      (List.range B.length).filterMap (fun i =>
        let b := l.filter (fun e => nuMemb B pre post as ae i e.1)
        if b.isEmpty then none
        else some (mkPart rel (B.getD i 0) (max (B.getD i 0) as) (nuHi B ae i) b)) := by
    apply filterMap_congr'
    intro i _
    simp only [Function.comp, Nat.succ_eq_add_one, nuMemb_cons_succ, nuHi_cons_succ, List.getD_cons_succ]
  rw [htail]
  by_cases h : (l.filter (fun e => nuMemb (s :: B) pre post as ae 0 e.1)).isEmpty = true
  · simp [h]
  · simp [h]

theorem sorted_append_lt {a b : Fib Int π} (h : Sorted (a ++ b)) : ∀ x ∈ a, ∀ y ∈ b, x.1 < y.1 :=
  (List.pairwise_append.1 h).2.2

theorem filter_all {l : Fib Int π} {p : Int × π → Bool} (h : ∀ x ∈ l, p x = true) : l.filter p = l :=
  List.filter_eq_self.2 h

theorem filter_none {l : Fib Int π} {p : Int × π → Bool} (h : ∀ x ∈ l, p x = false) : l.filter p = [] := by
  rw [List.filter_eq_nil_iff]; intro a ha; simp [h a ha]

/-- the non-uniform split (halo 0) at the boundaries of a chunking of the active elements at/after
    `s` returns the chunks -/
theorem nuSpec_chunks (as ae : Int) (rel : Bool) (l : Fib Int π) (hl : Sorted l) :
    ∀ (cs : List (Fib Int π)) (s : Int), (∀ c ∈ cs, c ≠ []) → as ≤ s →
      l.filter (fun e => decide (as ≤ e.1) && decide (e.1 < ae) && decide (s ≤ e.1)) = cs.flatten →
      nuSpec (boundsOf s cs) 0 0 as ae rel l = chunkPartsFrom ae rel s cs := by
  intro cs
  induction cs with
  | nil => intro s _ _ _; simp [nuSpec, boundsOf, chunkPartsFrom]
  | cons c rest ih =>
    intro s hne hs hflat
    have hc : c ≠ [] := hne c (List.mem_cons_self ..)
    have hFs : Sorted (c ++ rest.flatten) := by
      have : Sorted (l.filter (fun e => decide (as ≤ e.1) && decide (e.1 < ae) && decide (s ≤ e.1))) :=
        List.Pairwise.sublist List.filter_sublist hl
      rw [hflat, List.flatten_cons] at this
      exact this
    have hFmem : ∀ x ∈ c ++ rest.flatten, as ≤ x.1 ∧ x.1 < ae ∧ s ≤ x.1 := by
      intro x hx
      rw [← List.flatten_cons, ← hflat, List.mem_filter] at hx
      have := hx.2
      simp only [Bool.and_eq_true, decide_eq_true_eq] at this
      exact ⟨this.1.1, this.1.2, this.2⟩
    cases rest with
    | nil =>
      have hb : l.filter (fun e => nuMemb [s] 0 0 as ae 0 e.1) = c := by
        have : l.filter (fun e => nuMemb [s] 0 0 as ae 0 e.1) =
            l.filter (fun e => decide (as ≤ e.1) && decide (e.1 < ae) && decide (s ≤ e.1)) := by
          apply filter_congr'
          intro x _
          rw [Bool.eq_iff_iff, nuMemb_iff]
          simp only [List.getElem?_cons_zero, Option.some.injEq, exists_eq_left', Bool.and_eq_true,
            decide_eq_true_eq]
          constructor
          · rintro ⟨a, b, _, _, e⟩; omega
          · rintro ⟨⟨a, b⟩, e⟩
            exact ⟨by omega, by omega, fun t ht => by simp at ht, by omega, by omega⟩
        rw [this, hflat]; simp
      show nuSpec [s] 0 0 as ae rel l = _
      rw [nuSpec_cons, hb]
      have : c.isEmpty = false := by
        cases c with
        | nil => exact absurd rfl hc
        | cons a t => rfl
      simp only [this, Bool.false_eq_true, if_false, chunkPartsFrom]
      have h1 : max s as = s := by omega
      have h2 : nuHi [s] ae 0 = ae := by simp [nuHi]
      rw [h1, h2]
      simp [nuSpec]
    | cons c1 rest' =>
      have hc1 : c1 ≠ [] := hne c1 (List.mem_cons_of_mem _ (List.mem_cons_self ..))
      obtain ⟨e1, t1, rfl⟩ : ∃ e1 t1, c1 = e1 :: t1 := by
        cases c1 with
        | nil => exact absurd rfl hc1
        | cons a t => exact ⟨a, t, rfl⟩
      have htail : ((e1 :: t1) :: rest').flatten = e1 :: (t1 ++ rest'.flatten) := by
        simp [List.flatten_cons]
      have he1 := hFmem e1 (List.mem_append_right _ (by rw [htail]; exact List.mem_cons_self ..))
      have hlt : ∀ x ∈ c, x.1 < e1.1 := fun x hx =>
        sorted_append_lt hFs x hx e1 (by rw [htail]; exact List.mem_cons_self ..)
      have hge : ∀ y ∈ ((e1 :: t1) :: rest').flatten, e1.1 ≤ y.1 := by
        intro y hy
        rw [htail] at hy
        have hs2 : Sorted (e1 :: (t1 ++ rest'.flatten)) := by
          rw [← htail]; exact (List.pairwise_append.1 hFs).2.1
        rcases List.mem_cons.1 hy with rfl | hy
        · exact Int.le_refl _
        · exact Int.le_of_lt (hs2.head_lt y hy)
      obtain ⟨x0, hx0⟩ := List.exists_mem_of_ne_nil c hc
      have hx0' := hFmem x0 (List.mem_append_left _ hx0)
      have hx0lt := hlt x0 hx0
      have hbounds : boundsOf s (c :: (e1 :: t1) :: rest') = s :: boundsOf e1.1 ((e1 :: t1) :: rest') := by
        simp [boundsOf, headCoord]
      -- the first bucket
      have hb : l.filter (fun e => nuMemb (s :: boundsOf e1.1 ((e1 :: t1) :: rest')) 0 0 as ae 0 e.1) = c := by
        have : l.filter (fun e => nuMemb (s :: boundsOf e1.1 ((e1 :: t1) :: rest')) 0 0 as ae 0 e.1) =
            (l.filter (fun e => decide (as ≤ e.1) && decide (e.1 < ae) && decide (s ≤ e.1))).filter
              (fun e => decide (e.1 < e1.1)) := by
          rw [List.filter_filter]
          apply filter_congr'
          intro x _
          rw [Bool.eq_iff_iff, nuMemb_iff]
          simp only [boundsOf, List.getElem?_cons_zero, List.getElem?_cons_succ, Option.some.injEq,
            exists_eq_left', Bool.and_eq_true, decide_eq_true_eq]
          constructor
          · rintro ⟨a, b, d, _, e⟩
            have := d e1.1 rfl
            omega
          · rintro ⟨a, ⟨⟨b, d⟩, e⟩⟩
            exact ⟨by omega, by omega, fun t ht => by subst ht; constructor <;> omega, by omega, by omega⟩
        rw [this, hflat, List.flatten_cons, List.filter_append,
          filter_all (fun x hx => by simpa using hlt x hx),
          filter_none (fun y hy => by have := hge y hy; simp; omega)]
        simp
      -- the remaining buckets
      have hflat' : l.filter (fun e => decide (as ≤ e.1) && decide (e.1 < ae) && decide (e1.1 ≤ e.1)) =
          ((e1 :: t1) :: rest').flatten := by
        have : l.filter (fun e => decide (as ≤ e.1) && decide (e.1 < ae) && decide (e1.1 ≤ e.1)) =
            (l.filter (fun e => decide (as ≤ e.1) && decide (e.1 < ae) && decide (s ≤ e.1))).filter
              (fun e => decide (e1.1 ≤ e.1)) := by
          rw [List.filter_filter]
          apply filter_congr'
          intro x _
          rw [Bool.eq_iff_iff]
          simp only [Bool.and_eq_true, decide_eq_true_eq]
          constructor
          · rintro ⟨⟨a, b⟩, d⟩; exact ⟨d, ⟨a, b⟩, by omega⟩
          · rintro ⟨d, ⟨a, b⟩, _⟩; exact ⟨⟨a, b⟩, d⟩
        rw [this, hflat, List.flatten_cons, List.filter_append,
          filter_none (fun x hx => by have := hlt x hx; simp; omega),
          filter_all (fun y hy => by simpa using hge y hy)]
        simp
      have IH := ih e1.1 (fun c' hc' => hne c' (List.mem_cons_of_mem _ hc')) (by omega) hflat'
      rw [hbounds, nuSpec_cons, hb, IH]
      have : c.isEmpty = false := by
        cases c with
        | nil => exact absurd rfl hc
        | cons a t => rfl
      simp only [this, Bool.false_eq_true, if_false, chunkPartsFrom, List.singleton_append]
      have h1 : max s as = s := by omega
      have h2 : nuHi (s :: boundsOf e1.1 ((e1 :: t1) :: rest')) ae 0 = e1.1 := by
        simp only [nuHi, boundsOf, List.getElem?_cons_succ, List.getElem?_cons_zero]; omega
      rw [h1, h2]

end chunks
section equal
variable {π : Type}

theorem chunksOf_nil {α : Type} (n : Nat) : chunksOf n ([] : List α) = [] := by
  rw [chunksOf]; simp

theorem chunksOf_cons {α : Type} (n : Nat) (l : List α) (hn : n ≠ 0) (hl : l ≠ []) :
    chunksOf n l = l.take n :: chunksOf n (l.drop n) := by
  rw [chunksOf]
  have : ¬ (n = 0 ∨ l = []) := fun h => h.elim hn hl
  simp only [this, dite_false]

theorem chunksOf_nonempty {α : Type} (n : Nat) (hn : n ≠ 0) (l : List α) :
    ∀ c ∈ chunksOf n l, c ≠ [] := by
  fun_induction chunksOf n l with
  | case1 l h => intro c hc; cases hc
  | case2 l h ih =>
    intro c hc
    have hl : l ≠ [] := fun e => h (Or.inr e)
    rcases List.mem_cons.1 hc with rfl | hc
    · cases l with
      | nil => exact absurd rfl hl
      | cons a t =>
        cases n with
        | zero => exact absurd rfl hn
        | succ m => simp
    · exact ih c hc

theorem chunksOf_flatten {α : Type} (n : Nat) (hn : n ≠ 0) (l : List α) :
    (chunksOf n l).flatten = l := by
  fun_induction chunksOf n l with
  | case1 l h =>
    rcases h with h | h
    · exact absurd h hn
    · subst h; rfl
  | case2 l h ih => rw [List.flatten_cons, ih, List.take_append_drop]

/-- the boundary the equal split records for the element `ei` (with its position) -/
def eqPick (step as : Int) (ei : (Int × π) × Nat) : Option Int :=
  if ei.2 = 0 then some as
  else if (ei.2 : Int) % step = 0 then some ei.1.1
  else none

theorem equalBounds_eq (step as : Int) (act : Fib Int π) :
    equalBounds step as act = (act.zipIdx 0).filterMap (eqPick step as) := rfl

theorem emod_cast (i : Nat) (step : Int) (h : 1 ≤ step) :
    ((i : Int) % step = 0) ↔ (i % step.toNat = 0) := by
  have e : step = (step.toNat : Int) := (Int.toNat_of_nonneg (by omega)).symm
  conv => lhs; rw [e, Int.ofNat_mod_ofNat]
  omega

/-- inside a chunk no further boundary is recorded -/
theorem eqPick_none_run (step as : Int) (hstep : 1 ≤ step) :
    ∀ (t : Fib Int π) (k : Nat), 0 < k % step.toNat → k % step.toNat + t.length ≤ step.toNat →
      (t.zipIdx k).filterMap (eqPick step as) = [] := by
  intro t
  induction t with
  | nil => intro k _ _; rfl
  | cons x t ih =>
    intro k hk hlen
    rw [List.zipIdx_cons, List.filterMap_cons]
    have hk0 : k ≠ 0 := by
      intro e; subst e; simp at hk
    have hmod : ¬ ((k : Int) % step = 0) := by
      rw [emod_cast k step hstep]; omega
    have : eqPick step as (x, k) = none := by simp [eqPick, hk0, hmod]
    rw [this]
    simp only [List.length_cons] at hlen
    have hn : 0 < step.toNat := by omega
    have hlt : k % step.toNat + 1 < step.toNat ∨ t = [] := by
      cases t with
      | nil => right; rfl
      | cons a b => left; simp only [List.length_cons] at hlen; omega
    rcases hlt with hlt | rfl
    · have hk1 : (k + 1) % step.toNat = k % step.toNat + 1 := by
        rw [Nat.add_mod, Nat.mod_eq_of_lt (a := 1) (by omega)]
        exact Nat.mod_eq_of_lt hlt
      exact ih (k + 1) (by omega) (by omega)
    · rfl

theorem headCoord_take (n : Nat) (hn : n ≠ 0) (l : Fib Int π) : headCoord (l.take n) = headCoord l := by
  cases l with
  | nil => simp
  | cons a t =>
    cases n with
    | zero => exact absurd rfl hn
    | succ m => rfl

/-- `splitEqual`'s boundaries are those of the chunking into `step` elements -/
theorem eqBounds_chunks (step as : Int) (hstep : 1 ≤ step) (l : Fib Int π) :
    ∀ (off : Nat), off % step.toNat = 0 →
      (l.zipIdx off).filterMap (eqPick step as) =
        boundsOf (if off = 0 then as else headCoord l) (chunksOf step.toNat l) := by
  have hn : step.toNat ≠ 0 := by omega
  fun_induction chunksOf step.toNat l with
  | case1 l h =>
    intro off _
    rcases h with h | h
    · exact absurd h hn
    · subst h; rfl
  | case2 l h ih =>
    intro off hoff
    have hl : l ≠ [] := fun e => h (Or.inr e)
    obtain ⟨x, t, rfl⟩ : ∃ x t, l = x :: t := by
      cases l with
      | nil => exact absurd rfl hl
      | cons a b => exact ⟨a, b, rfl⟩
    -- split the positions at the end of the first chunk
    have hsplit : (x :: t).zipIdx off =
        ((x :: t).take step.toNat).zipIdx off ++
          ((x :: t).drop step.toNat).zipIdx (off + ((x :: t).take step.toNat).length) := by
      rw [← List.zipIdx_append, List.take_append_drop]
    rw [hsplit, List.filterMap_append]
    -- first chunk: exactly one boundary
    obtain ⟨m, hm⟩ : ∃ m, step.toNat = m + 1 := ⟨step.toNat - 1, by omega⟩
    have hfirst : (((x :: t).take step.toNat).zipIdx off).filterMap (eqPick step as) =
        [if off = 0 then as else x.1] := by
      rw [hm, List.take_succ_cons, List.zipIdx_cons, List.filterMap_cons]
      have hpick : eqPick step as (x, off) = some (if off = 0 then as else x.1) := by
        by_cases h0 : off = 0
        · simp [eqPick, h0]
        · have : (off : Int) % step = 0 := (emod_cast off step hstep).2 hoff
          simp [eqPick, h0, this]
      rw [hpick]
      simp only
      by_cases hm0 : m = 0
      · subst hm0; simp
      · rw [eqPick_none_run step as hstep (t.take m) (off + 1)]
        · have : (off + 1) % step.toNat = 1 := by
            rw [Nat.add_mod, hoff, Nat.zero_add, Nat.mod_mod]
            exact Nat.mod_eq_of_lt (by omega)
          omega
        · have : (off + 1) % step.toNat = 1 := by
            rw [Nat.add_mod, hoff, Nat.zero_add, Nat.mod_mod]
            exact Nat.mod_eq_of_lt (by omega)
          rw [this, List.length_take]; omega
    rw [hfirst, List.singleton_append]
    show _ = (if off = 0 then as else x.1) :: (chunksOf step.toNat ((x :: t).drop step.toNat)).map headCoord
    congr 1
    -- the remaining chunks
    by_cases hd : (x :: t).drop step.toNat = []
    · rw [hd, chunksOf_nil]; rfl
    · have hlen : ((x :: t).take step.toNat).length = step.toNat := by
        rw [List.length_take]
        have : step.toNat < (x :: t).length := by
          rcases Nat.lt_or_ge step.toNat (x :: t).length with h' | h'
          · exact h'
          · exact absurd (List.drop_eq_nil_of_le h') hd
        omega
      rw [hlen, ih (off + step.toNat) (by rw [Nat.add_mod_right]; exact hoff)]
      have hne0 : ¬ (off + step.toNat = 0) := by omega
      simp only [hne0, if_false]
      rw [chunksOf_cons step.toNat _ hn hd]
      show headCoord _ :: _ = headCoord _ :: _
      rw [headCoord_take step.toNat hn]

end equal

section unequal
variable {π : Type}

theorem takeChunks_nil {α : Type} (ss : List Nat) : takeChunks ss ([] : List α) = [] := by
  cases ss <;> simp [takeChunks]

theorem takeChunks_cons_cons {α : Type} (s : Nat) (ss : List Nat) (a : α) (t : List α) :
    takeChunks (s :: ss) (a :: t) = (a :: t).take s :: takeChunks ss ((a :: t).drop s) := by
  rw [takeChunks]; simp

theorem takeChunks_nonempty {α : Type} : ∀ (ss : List Nat) (l : List α), (∀ s ∈ ss, 1 ≤ s) →
    ∀ c ∈ takeChunks ss l, c ≠ [] := by
  intro ss
  induction ss with
  | nil =>
    intro l _ c hc
    unfold takeChunks at hc
    cases l with
    | nil => simp at hc
    | cons a t => simp at hc; subst hc; simp
  | cons s ss ih =>
    intro l hpos c hc
    unfold takeChunks at hc
    cases l with
    | nil => simp at hc
    | cons a t =>
      simp only [List.isEmpty_cons, Bool.false_eq_true, if_false, List.mem_cons] at hc
      rcases hc with rfl | hc
      · have := hpos s (List.mem_cons_self ..)
        obtain ⟨m, rfl⟩ : ∃ m, s = m + 1 := ⟨s - 1, by omega⟩
        simp
      · exact ih _ (fun s' hs' => hpos s' (List.mem_cons_of_mem _ hs')) c hc

theorem takeChunks_flatten {α : Type} : ∀ (ss : List Nat) (l : List α), (takeChunks ss l).flatten = l := by
  intro ss
  induction ss with
  | nil =>
    intro l
    unfold takeChunks
    cases l <;> simp
  | cons s ss ih =>
    intro l
    unfold takeChunks
    cases l with
    | nil => simp
    | cons a t =>
      simp only [List.isEmpty_cons, Bool.false_eq_true, if_false, List.flatten_cons, ih,
        List.take_append_drop]

theorem unequalLoop_done (sizes : List Int) (as : Int) (l : Fib Int π) (off j base : Nat)
    (hoff : 0 < off) (h : j = sizes.length) : unequalLoop sizes as (l.zipIdx off) j base = [] := by
  cases l with
  | nil => rfl
  | cons a t =>
    rw [List.zipIdx_cons]
    unfold unequalLoop
    have : ¬ off = 0 := by omega
    simp [h, this]

theorem unequalLoop_chunks (sizes : List Int) (hpos : ∀ s ∈ sizes, 1 ≤ s) (as : Int) :
    ∀ (l : Fib Int π) (off j base : Nat), j < sizes.length → 0 < off → base < off →
      (off : Int) ≤ base + sizes.getD j 0 →
      unequalLoop sizes as (l.zipIdx off) j base =
        (takeChunks ((sizes.drop (j + 1)).map Int.toNat)
          (l.drop (base + (sizes.getD j 0).toNat - off))).map headCoord := by
  intro l
  induction l with
  | nil => intro off j base _ _ _ _; simp [unequalLoop, takeChunks_nil]
  | cons x t ih =>
    intro off j base hj hoff hbase hle
    have hszj : sizes.getD j 0 = sizes[j] := by
      simp [List.getD_eq_getElem?_getD, List.getElem?_eq_getElem hj]
    have hsz1 : 1 ≤ sizes.getD j 0 := by rw [hszj]; exact hpos _ (List.getElem_mem hj)
    rw [List.zipIdx_cons]
    unfold unequalLoop
    have h1 : ¬ j = sizes.length := by omega
    have h2 : ¬ off = 0 := by omega
    simp only [h2, if_false, h1]
    by_cases h3 : (off : Int) - (base : Int) = sizes.getD j 0
    · simp only [h3, if_true]
      have hd : base + (sizes.getD j 0).toNat - off = 0 := by omega
      rw [hd, List.drop_zero]
      by_cases hlast : j + 1 = sizes.length
      · rw [unequalLoop_done sizes as t (off + 1) (j + 1) off (by omega) hlast]
        have : sizes.drop (j + 1) = [] := List.drop_eq_nil_of_le (by omega)
        rw [this]
        simp [takeChunks, headCoord]
      · have hj1 : j + 1 < sizes.length := by omega
        have hszj1 : sizes.getD (j + 1) 0 = sizes[j + 1] := by
          simp [List.getD_eq_getElem?_getD, List.getElem?_eq_getElem hj1]
        have hsz2 : 1 ≤ sizes[j + 1] := hpos _ (List.getElem_mem hj1)
        rw [ih (off + 1) (j + 1) off hj1 (by omega) (by omega) (by rw [hszj1]; omega)]
        rw [List.drop_eq_getElem_cons hj1, List.map_cons]
        obtain ⟨m, hm⟩ : ∃ m, sizes[j + 1].toNat = m + 1 := ⟨sizes[j + 1].toNat - 1, by omega⟩
        rw [takeChunks_cons_cons, List.map_cons, hm, List.take_succ_cons, List.drop_succ_cons]
        have : off + (sizes.getD (j + 1) 0).toNat - (off + 1) = m := by rw [hszj1]; omega
        rw [this]
        rfl
    · simp only [h3, if_false]
      rw [ih (off + 1) j base hj (by omega) (by omega) (by omega)]
      obtain ⟨m, hm⟩ : ∃ m, base + (sizes.getD j 0).toNat - off = m + 1 :=
        ⟨base + (sizes.getD j 0).toNat - off - 1, by omega⟩
      rw [hm, List.drop_succ_cons]
      have : base + (sizes.getD j 0).toNat - (off + 1) = m := by omega
      rw [this]

/-- `splitUnEqual`'s boundaries are those of the chunking by the sizes (the empty size list included:
    one chunk with everything) -/
theorem unequalBounds_chunks (sizes : List Int) (hpos : ∀ s ∈ sizes, 1 ≤ s)
    (as : Int) (act : Fib Int π) :
    unequalBounds sizes as act = boundsOf as (takeChunks (sizes.map Int.toNat) act) := by
  unfold unequalBounds
  cases act with
  | nil => simp [unequalLoop, takeChunks_nil, boundsOf]
  | cons x t =>
    rw [List.zipIdx_cons]
    unfold unequalLoop
    simp only [if_true]
    cases sizes with
    | nil =>
      rw [unequalLoop_done [] as t (0 + 1) 0 0 (by omega) rfl]
      simp [takeChunks, boundsOf]
    | cons s0 ss =>
      have hs0 : 1 ≤ s0 := hpos s0 (List.mem_cons_self ..)
      rw [unequalLoop_chunks (s0 :: ss) hpos as t (0 + 1) 0 0 (by simp) (by omega) (by omega)
        (by simp; omega)]
      obtain ⟨m, hm⟩ : ∃ m, s0.toNat = m + 1 := ⟨s0.toNat - 1, by omega⟩
      simp only [List.map_cons]
      rw [takeChunks_cons_cons]
      simp only [boundsOf]
      rw [hm, List.drop_succ_cons]
      have : 0 + ((s0 :: ss).getD 0 0).toNat - (0 + 1) = m := by simp; omega
      rw [this]
      simp

end unequal

section counting
variable {π : Type}

theorem chunksOf_length_le {α : Type} (k : Nat) (l : List α) :
    ∀ m : Nat, l.length ≤ m * k → (chunksOf k l).length ≤ m := by
  fun_induction chunksOf k l with
  | case1 l h => intro m _; simp
  | case2 l h ih =>
    intro m hm
    have hk : k ≠ 0 := fun e => h (Or.inl e)
    have hl : l ≠ [] := fun e => h (Or.inr e)
    have hpos : 0 < l.length := List.length_pos_iff.2 hl
    cases m with
    | zero => rw [Nat.zero_mul] at hm; omega
    | succ m' =>
      simp only [List.length_cons]
      have := ih m' (by
        rw [List.length_drop]
        have : (m' + 1) * k = m' * k + k := Nat.succ_mul m' k
        omega)
      omega

theorem chunkPartsFrom_length (ae : Int) (rel : Bool) :
    ∀ (cs : List (Fib Int π)) (s : Int), (chunkPartsFrom ae rel s cs).length = cs.length := by
  intro cs
  induction cs with
  | nil => intro s; rfl
  | cons c rest ih => intro s; simp [chunkPartsFrom, ih]

end counting

end Ft
