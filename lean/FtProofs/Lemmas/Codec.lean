/-
  Helper lemmas for C20 (codec): rank-wise append, positions, masks, dense expansion.
-/
import FtModel.Codec
import FtProofs.Lemmas.Sorted
set_option linter.unusedSectionVars false
set_option linter.unusedSimpArgs false
set_option linter.unusedVariables false
namespace Ft
namespace Codec

/-! ### rank-wise append -/

theorem zipApp_nil_left {α : Type} (b : List (List α)) : zipApp [] b = [] := by simp [zipApp]

theorem zipApp_cons {α : Type} (a : List α) (as : List (List α)) (b : List α) (bs : List (List α)) :
    zipApp (a :: as) (b :: bs) = (a ++ b) :: zipApp as bs := by simp [zipApp]

theorem length_zipApp {α : Type} (a b : List (List α)) : (zipApp a b).length = min a.length b.length := by
  simp [zipApp]

theorem zipApp_assoc {α : Type} (a b c : List (List α)) :
    zipApp (zipApp a b) c = zipApp a (zipApp b c) := by
  induction a generalizing b c with
  | nil => simp [zipApp]
  | cons x a ih =>
    cases b with
    | nil => simp [zipApp]
    | cons y b =>
      cases c with
      | nil => simp [zipApp]
      | cons z c => simp only [zipApp_cons, ih, List.append_assoc]

theorem zipApp_replicate_nil {α : Type} (k : Nat) (r : List (List α)) (h : r.length = k) :
    zipApp (List.replicate k []) r = r := by
  induction k generalizing r with
  | zero => cases r with
    | nil => rfl
    | cons _ _ => simp at h
  | succ k ih =>
    cases r with
    | nil => simp at h
    | cons x r =>
      simp only [List.replicate_succ, zipApp_cons, List.nil_append]
      rw [ih r (by simpa using h)]

theorem zipApp_replicate_nil_right {α : Type} (k : Nat) (r : List (List α)) (h : r.length = k) :
    zipApp r (List.replicate k []) = r := by
  induction k generalizing r with
  | zero => cases r with
    | nil => rfl
    | cons _ _ => simp at h
  | succ k ih =>
    cases r with
    | nil => simp at h
    | cons x r =>
      simp only [List.replicate_succ, zipApp_cons, List.append_nil]
      rw [ih r (by simpa using h)]

/-! ### positions -/

/-- positions `lo … lo+m-1` -/
def posFrom (lo m : Nat) : List Int := (List.range' lo m).map Int.ofNat

theorem irange_eq (n : Nat) : irange n = posFrom 0 n := by
  simp [irange, posFrom, List.range_eq_range']

theorem posFrom_zero (lo : Nat) : posFrom lo 0 = [] := rfl

theorem posFrom_succ (lo m : Nat) : posFrom lo (m + 1) = (lo : Int) :: posFrom (lo + 1) m := by
  simp [posFrom, List.range'_succ]

theorem length_posFrom (lo m : Nat) : (posFrom lo m).length = m := by simp [posFrom]

theorem mem_posFrom {lo m : Nat} {x : Int} : x ∈ posFrom lo m ↔ (lo : Int) ≤ x ∧ x < (lo + m : Nat) := by
  induction m generalizing lo with
  | zero => simp [posFrom_zero]
  | succ m ih =>
    rw [posFrom_succ, List.mem_cons, ih]
    constructor
    · rintro (h | ⟨h1, h2⟩)
      · subst h; constructor <;> omega
      · constructor <;> omega
    · rintro ⟨h1, h2⟩
      by_cases hx : x = (lo : Int)
      · exact Or.inl hx
      · right; constructor <;> omega

/-- strictly increasing integer list -/
def Inc (cs : List Int) : Prop := cs.Pairwise (· < ·)

/-- filtering the positions of a range by membership in a sorted list inside the range gives the list -/
theorem filter_posFrom_contains (m lo : Nat) (cs : List Int) (hs : Inc cs)
    (hin : ∀ c ∈ cs, (lo : Int) ≤ c ∧ c < (lo + m : Nat)) :
    (posFrom lo m).filter (fun i => cs.contains i) = cs := by
  induction m generalizing lo cs with
  | zero =>
    cases cs with
    | nil => rfl
    | cons c r => have := hin c (List.mem_cons_self ..); omega
  | succ m ih =>
    rw [posFrom_succ]
    cases cs with
    | nil => simp
    | cons c r =>
      have hc := hin c (List.mem_cons_self ..)
      have hr : ∀ x ∈ r, c < x := (List.pairwise_cons.1 hs).1
      have hsr : Inc r := (List.pairwise_cons.1 hs).2
      by_cases hcl : c = (lo : Int)
      · subst hcl
        have h1 : (posFrom (lo + 1) m).filter (fun i => (((lo : Int)) :: r).contains i)
            = (posFrom (lo + 1) m).filter (fun i => r.contains i) := by
          apply List.filter_congr
          intro x hx
          have := (mem_posFrom.1 hx).1
          have hne : x ≠ (lo : Int) := by omega
          simp [List.contains_cons, hne]
        have hhead : (((lo : Int)) :: r).contains (lo : Int) = true := by simp
        rw [List.filter_cons, if_pos hhead, h1, ih (lo + 1) r hsr]
        intro x hx
        have := hr x hx
        have := (hin x (List.mem_cons_of_mem _ hx)).2
        constructor <;> omega
      · have hlo : ((c :: r).contains (lo : Int)) = false := by
          rw [Bool.eq_false_iff]
          intro hcon
          rcases List.mem_cons.1 (List.contains_iff_mem.1 hcon) with h | h
          · exact hcl h.symm
          · have := hr _ h; omega
        rw [List.filter_cons, if_neg (by rw [hlo]; simp)]
        apply ih (lo + 1) (c :: r) hs
        intro x hx
        have hx' := hin x hx
        rcases List.mem_cons.1 hx with h | h
        · subst h; constructor <;> omega
        · have := hr x h; constructor <;> omega

/-- positions of the set bits of the mask of a sorted in-range list are the list -/
theorem maskCoords_mask_aux (m lo : Nat) (cs : List Int) :
    ((((posFrom lo m).map (fun i => if cs.contains i then (1 : Int) else 0)).zipIdx lo).filter
        (fun e => !decide (e.1 = 0))).map (fun e => (e.2 : Int))
      = (posFrom lo m).filter (fun i => cs.contains i) := by
  induction m generalizing lo with
  | zero => simp [posFrom_zero]
  | succ m ih =>
    rw [posFrom_succ]
    simp only [List.map_cons, List.zipIdx_cons]
    by_cases h : cs.contains (lo : Int) = true
    · rw [if_pos h, List.filter_cons, List.filter_cons, if_pos h, if_pos (by simp), List.map_cons, ih (lo + 1)]
    · rw [if_neg h, List.filter_cons, List.filter_cons, if_neg h, if_neg (by simp), ih (lo + 1)]

theorem maskCoords_maskOf (dim : Nat) (cs : List Int) (hs : Inc cs)
    (hin : ∀ c ∈ cs, 0 ≤ c ∧ c < (dim : Nat)) : maskCoords (maskOf dim cs) = cs := by
  unfold maskCoords maskOf
  rw [irange_eq]
  rw [maskCoords_mask_aux dim 0 cs]
  apply filter_posFrom_contains dim 0 cs hs
  intro c hc
  have := hin c hc
  constructor <;> omega

theorem length_maskOf (dim : Nat) (cs : List Int) : (maskOf dim cs).length = dim := by
  simp [maskOf, irange]

/-! ### dense expansion and element lists -/

theorem zip_map_fst_snd {α β : Type} (l : List (α × β)) : (l.map (·.1)).zip (l.map (·.2)) = l := by
  induction l with
  | nil => rfl
  | cons x l ih => simp [ih]

theorem flatMap_filter_skip {α β : Type} (G : α → List β) (p : α → Bool) (l : List α)
    (h : ∀ x ∈ l, p x = false → G x = []) : (l.filter p).flatMap G = l.flatMap G := by
  induction l with
  | nil => rfl
  | cons x l ih =>
    have ih' := ih (fun y hy => h y (List.mem_cons_of_mem _ hy))
    by_cases hp : p x = true
    · simp [List.filter_cons, hp, ih']
    · have hx := h x (List.mem_cons_self ..) (by simpa using hp)
      simp [List.filter_cons, hp, ih', hx]

/-- walking all positions of a range and looking each one up (absent → a default that
    contributes nothing) visits exactly the stored elements of a sorted in-range fiber -/
theorem flatMap_dense {π β : Type} (g : Int → π → List β) (dflt : π) (hd : ∀ c, g c dflt = [])
    (m lo : Nat) (a : Fib Int π) (hs : Sorted a)
    (hin : ∀ e ∈ a, (lo : Int) ≤ e.1 ∧ e.1 < (lo + m : Nat)) :
    ((posFrom lo m).map (fun i => (i, (lookup a i).getD dflt))).flatMap (fun e => g e.1 e.2)
      = a.flatMap (fun e => g e.1 e.2) := by
  induction m generalizing lo a with
  | zero =>
    cases a with
    | nil => rfl
    | cons e r => have := hin e (List.mem_cons_self ..); omega
  | succ m ih =>
    rw [posFrom_succ]
    cases a with
    | nil =>
      simp only [List.map_cons, List.flatMap_cons, lookup_nil, Option.getD_none, hd, List.nil_append,
        List.flatMap_nil]
      have := ih (lo + 1) [] sorted_nil (by intro e he; cases he)
      simpa [lookup_nil] using this
    | cons e r =>
      have he := hin e (List.mem_cons_self ..)
      have hr : ∀ x ∈ r, e.1 < x.1 := hs.head_lt
      by_cases hcl : e.1 = (lo : Int)
      · have h1 : (posFrom (lo + 1) m).map (fun i => (i, (lookup (e :: r) i).getD dflt))
            = (posFrom (lo + 1) m).map (fun i => (i, (lookup r i).getD dflt)) := by
          apply List.map_congr_left
          intro x hx
          have := (mem_posFrom.1 hx).1
          have hne : e.1 ≠ x := by omega
          simp [lookup_cons, hne]
        simp only [List.map_cons, List.flatMap_cons]
        rw [h1, ih (lo + 1) r hs.tail]
        · simp [lookup_cons, hcl]
        · intro x hx
          have := hr x hx
          have := (hin x (List.mem_cons_of_mem _ hx)).2
          constructor <;> omega
      · have hnone : lookup (e :: r) (lo : Int) = none := by
          apply lookup_eq_none_of_lt
          intro x hx
          rcases List.mem_cons.1 hx with h | h
          · subst h; omega
          · have := hr x h; omega
        simp only [List.map_cons, List.flatMap_cons, hnone, Option.getD_none, hd, List.nil_append]
        apply ih (lo + 1) (e :: r) hs
        intro x hx
        have hx' := hin x hx
        rcases List.mem_cons.1 hx with h | h
        · subst h; constructor <;> omega
        · have := hr x h; constructor <;> omega

/-- the elements a format lays out carry the whole content of the fiber -/
theorem flatMap_elemsOf {π β : Type} (g : Int → π → List β) (f : Fmt) (dim : Nat) (dflt : π)
    (isE : π → Bool) (hd : ∀ c, g c dflt = []) (hE : ∀ c x, isE x = true → g c x = [])
    (a : Fib Int π) (hs : Sorted a) (hin : ∀ e ∈ a, 0 ≤ e.1 ∧ e.1 < (dim : Nat)) :
    (elemsOf f dim dflt isE a).flatMap (fun e => g e.1 e.2) = a.flatMap (fun e => g e.1 e.2) := by
  cases f with
  | U =>
    simp only [elemsOf, irange_eq]
    apply flatMap_dense g dflt hd dim 0 a hs
    intro e he; have := hin e he; constructor <;> omega
  | C =>
    simp only [elemsOf]
    apply flatMap_filter_skip
    intro x _ hx; exact hE x.1 x.2 (by simpa using hx)
  | B =>
    simp only [elemsOf]
    apply flatMap_filter_skip
    intro x _ hx; exact hE x.1 x.2 (by simpa using hx)

/-- the coordinates of the laid-out elements are strictly increasing and inside the extent -/
theorem elemsOf_coords_inc {π : Type} (f : Fmt) (dim : Nat) (dflt : π) (isE : π → Bool)
    (a : Fib Int π) (hs : Sorted a) : Inc ((elemsOf f dim dflt isE a).map (·.1)) := by
  cases f with
  | U =>
    have hm : (elemsOf Fmt.U dim dflt isE a).map (·.1) = (List.range dim).map Int.ofNat := by
      simp [elemsOf, irange, List.map_map, Function.comp_def]
    rw [hm, Inc, List.pairwise_map]
    have : (List.range dim).Pairwise (· < ·) := List.pairwise_lt_range
    exact this.imp (by intro a b h; simp; omega)
  | C =>
    simp only [elemsOf, Inc]
    rw [List.pairwise_map]
    exact (List.Pairwise.filter _ hs)
  | B =>
    simp only [elemsOf, Inc]
    rw [List.pairwise_map]
    exact (List.Pairwise.filter _ hs)

theorem elemsOf_coords_in {π : Type} (f : Fmt) (dim : Nat) (dflt : π) (isE : π → Bool)
    (a : Fib Int π) (hin : ∀ e ∈ a, 0 ≤ e.1 ∧ e.1 < (dim : Nat)) :
    ∀ c ∈ (elemsOf f dim dflt isE a).map (·.1), (0 : Int) ≤ c ∧ c < ((dim : Nat) : Int) := by
  intro c hc
  obtain ⟨e, he, rfl⟩ := List.mem_map.1 hc
  cases f with
  | U =>
    simp only [elemsOf, irange_eq] at he
    obtain ⟨i, hi, rfl⟩ := List.mem_map.1 he
    have := mem_posFrom.1 hi
    constructor <;> simp <;> omega
  | C => exact hin e (List.mem_filter.1 he).1
  | B => exact hin e (List.mem_filter.1 he).1

theorem elemsOf_U_coords {π : Type} (dim : Nat) (dflt : π) (isE : π → Bool) (a : Fib Int π) :
    (elemsOf .U dim dflt isE a).map (·.1) = irange dim := by
  simp [elemsOf, List.map_map, Function.comp_def]

theorem length_elemsOf_U {π : Type} (dim : Nat) (dflt : π) (isE : π → Bool) (a : Fib Int π) :
    (elemsOf .U dim dflt isE a).length = dim := by
  simp [elemsOf, irange]

/-- every payload of a laid-out element is a stored payload or the default -/
theorem elemsOf_payload {π : Type} (f : Fmt) (dim : Nat) (dflt : π) (isE : π → Bool) (a : Fib Int π)
    (e : Int × π) (he : e ∈ elemsOf f dim dflt isE a) : e.2 = dflt ∨ ∃ e' ∈ a, e'.2 = e.2 := by
  cases f with
  | U =>
    simp only [elemsOf] at he
    obtain ⟨i, _, rfl⟩ := List.mem_map.1 he
    cases h : lookup a i with
    | none => left; simp [h]
    | some p =>
      right
      simp only [h, Option.getD_some]
      unfold lookup at h
      cases hf : a.find? (fun e => decide (e.1 = i)) with
      | none => simp [hf] at h
      | some x =>
        simp [hf] at h
        exact ⟨x, List.mem_of_find?_eq_some hf, h⟩
  | C => right; exact ⟨e, (List.mem_filter.1 he).1, rfl⟩
  | B => right; exact ⟨e, (List.mem_filter.1 he).1, rfl⟩

/-! ### encoder / decoder round trip -/

theorem takeCoords_stored (f : Fmt) (dim n : Nat) (ec rest : List Int)
    (hU : f = .U → ec = irange dim) (hn : f = .C → n = ec.length) (hinc : Inc ec)
    (hin : ∀ c ∈ ec, (0 : Int) ≤ c ∧ c < ((dim : Nat) : Int)) :
    takeCoords f dim n (storedCoords f dim ec ++ rest) = (ec, rest) := by
  cases f with
  | U => simp [takeCoords, storedCoords, hU rfl]
  | C => simp [takeCoords, storedCoords, hn rfl]
  | B =>
    have hl := length_maskOf dim ec
    simp only [takeCoords, storedCoords]
    rw [List.take_left' hl, List.drop_left' hl, maskCoords_maskOf dim ec hinc hin]

theorem encKids_len {α : Type} (k : Nat) (enc1 : Cnt → α → Res)
    (hlen : ∀ cnt x, (enc1 cnt x).cs.length = k ∧ (enc1 cnt x).ps.length = k)
    (xs : List α) (cnt : Cnt) (cum : Nat) :
    (encKids k enc1 xs cnt cum).cs.length = k ∧ (encKids k enc1 xs cnt cum).ps.length = k ∧
    (encKids k enc1 xs cnt cum).cums.length = xs.length := by
  induction xs generalizing cnt cum with
  | nil => simp [encKids]
  | cons x xs ih =>
    have h := hlen cnt x
    have ih' := ih (enc1 cnt x).cnt (cum + (enc1 cnt x).occ)
    simp only [encKids, length_zipApp, h.1, h.2, ih'.1, ih'.2.1, ih'.2.2, Nat.min_self, List.length_cons,
      and_self]

theorem encF_len (d : Nat) : ∀ (fs : List Fmt) (tsh : List Nat) (ish : Option (List Nat)) (pidx : Nat) (cnt : Cnt)
    (a : Tree Int Int (d + 1)),
    (encF d fs tsh ish pidx cnt a).cs.length = d + 1 ∧ (encF d fs tsh ish pidx cnt a).ps.length = d + 1 := by
  induction d with
  | zero => intro fs tsh ish pidx cnt a; simp [encF]
  | succ d ih =>
    intro fs tsh ish pidx cnt a
    simp only [encF, List.length_cons]
    have := encKids_len (d + 1)
      (encF d fs.tail tsh.tail (ishNext (fs.headD Fmt.U) ish) (cnt.headD (0, 0)).1)
      (fun c x => ih _ _ _ _ c x)
    constructor
    · exact congrArg (· + 1) (this _ _ _).1
    · exact congrArg (· + 1) (this _ _ _).2.1

theorem diffs_encKids {α : Type} (k : Nat) (enc1 : Cnt → α → Res) (x : α) (xs : List α) (cnt : Cnt) (cum : Nat) :
    diffs (cum : Int) (encKids k enc1 (x :: xs) cnt cum).cums
      = (enc1 cnt x).occ :: diffs ((cum + (enc1 cnt x).occ : Nat) : Int)
          (encKids k enc1 xs (enc1 cnt x).cnt (cum + (enc1 cnt x).occ)).cums := by
  simp only [encKids, diffs]
  congr 1
  omega

def pre (c : Int) (pv : List Int × Int) : List Int × Int := (c :: pv.1, pv.2)

/-- the decoder's loop over the children undoes the encoder's loop, provided each child decodes -/
theorem decKids_encKids {α : Type} (k : Nat) (enc1 : Cnt → α → Res)
    (dec1 : Nat → List (List Int) → List (List Int) → DRes) (cont1 : α → Content) (needN : Prop)
    (P : α → Prop)
    (h1 : ∀ x, P x → ∀ (cnt : Cnt) (n : Nat) (rc rp : List (List Int)), rc.length = k → rp.length = k →
        (needN → n = (enc1 cnt x).occ) →
        dec1 n (zipApp (enc1 cnt x).cs rc) (zipApp (enc1 cnt x).ps rp) = ⟨cont1 x, rc, rp⟩)
    (hlen : ∀ cnt x, (enc1 cnt x).cs.length = k ∧ (enc1 cnt x).ps.length = k)
    (els : List (Int × α)) (hP : ∀ e ∈ els, P e.2) (cnt : Cnt) (cum : Nat) (rc rp : List (List Int))
    (hrc : rc.length = k) (hrp : rp.length = k) (sizes : List Nat) (hsz : sizes.length = els.length)
    (hN : needN → sizes = diffs (cum : Int) (encKids k enc1 (els.map (·.2)) cnt cum).cums) :
    decKids dec1 ((els.map (·.1)).zip sizes)
        (zipApp (encKids k enc1 (els.map (·.2)) cnt cum).cs rc)
        (zipApp (encKids k enc1 (els.map (·.2)) cnt cum).ps rp)
      = ⟨els.flatMap (fun e => (cont1 e.2).map (pre e.1)), rc, rp⟩ := by
  induction els generalizing cnt cum sizes with
  | nil =>
    simp only [List.map_nil, encKids, List.zip_nil_left, decKids, List.flatMap_nil]
    rw [zipApp_replicate_nil k rc hrc, zipApp_replicate_nil k rp hrp]
  | cons e els ih =>
    cases sizes with
    | nil => simp at hsz
    | cons s ss =>
      have hl := encKids_len k enc1 hlen (els.map (·.2)) (enc1 cnt e.2).cnt (cum + (enc1 cnt e.2).occ)
      have hs : needN → s = (enc1 cnt e.2).occ ∧
          ss = diffs ((cum + (enc1 cnt e.2).occ : Nat) : Int)
                (encKids k enc1 (els.map (·.2)) (enc1 cnt e.2).cnt (cum + (enc1 cnt e.2).occ)).cums := by
        intro hn
        have := hN hn
        rw [List.map_cons, diffs_encKids] at this
        exact List.cons.inj this
      simp only [List.map_cons, List.zip_cons_cons, decKids]
      have hK : encKids k enc1 (e.2 :: els.map (·.2)) cnt cum =
          ⟨zipApp (enc1 cnt e.2).cs (encKids k enc1 (els.map (·.2)) (enc1 cnt e.2).cnt (cum + (enc1 cnt e.2).occ)).cs,
           zipApp (enc1 cnt e.2).ps (encKids k enc1 (els.map (·.2)) (enc1 cnt e.2).cnt (cum + (enc1 cnt e.2).occ)).ps,
           zipApp (enc1 cnt e.2).fibs (encKids k enc1 (els.map (·.2)) (enc1 cnt e.2).cnt (cum + (enc1 cnt e.2).occ)).fibs,
           ((cum + (enc1 cnt e.2).occ : Nat) : Int) ::
             (encKids k enc1 (els.map (·.2)) (enc1 cnt e.2).cnt (cum + (enc1 cnt e.2).occ)).cums,
           (encKids k enc1 (els.map (·.2)) (enc1 cnt e.2).cnt (cum + (enc1 cnt e.2).occ)).cnt⟩ := by
        simp [encKids]
      rw [hK]
      simp only [zipApp_assoc]
      rw [h1 e.2 (hP e (List.mem_cons_self ..)) cnt s _ _ (by rw [length_zipApp, hl.1, hrc, Nat.min_self])
            (by rw [length_zipApp, hl.2.1, hrp, Nat.min_self]) (fun hn => (hs hn).1)]
      simp only
      rw [ih (fun x hx => hP x (List.mem_cons_of_mem _ hx)) (enc1 cnt e.2).cnt (cum + (enc1 cnt e.2).occ) ss
            (by simpa using hsz) (fun hn => (hs hn).2)]
      simp [List.flatMap_cons, pre]

theorem length_diffs (p : Int) (l : List Int) : (diffs p l).length = l.length := by
  induction l generalizing p with
  | nil => rfl
  | cons e r ih => simp [diffs, ih]

theorem content_of_isEmpty : ∀ (d : Nat) (x : Tree Int Int d),
    isEmpty (κ := Int) (0 : Int) d x = true → content (κ := Int) (0 : Int) d x = []
  | 0, v, h => by
    simp only [isEmpty, decide_eq_true_eq] at h
    simp only [content, h, if_true]
  | d + 1, f, h => by
    have key : ∀ (l : List (Int × Tree Int Int d)),
        isEmpty (κ := Int) (0 : Int) (d + 1) (show Tree Int Int (d + 1) from l) = true →
        content (κ := Int) (0 : Int) (d + 1) (show Tree Int Int (d + 1) from l) = [] := by
      intro l h
      simp only [isEmpty, List.all_eq_true] at h
      simp only [content]
      rw [List.flatMap_eq_nil_iff]
      intro e he
      rw [content_of_isEmpty d e.2 (h e he)]
      rfl
    exact key f h

theorem content_succ (d : Nat) (a : Tree Int Int (d + 1)) :
    content (κ := Int) (0 : Int) (d + 1) a
      = (show List (Int × Tree Int Int d) from a).flatMap (fun e => (content (κ := Int) (0 : Int) d e.2).map (pre e.1)) := rfl

theorem leaf_filter_map (els : List (Int × Int)) :
    (els.filter (fun e => !decide (e.2 = 0))).map (fun e => ([e.1], e.2))
      = els.flatMap (fun e => (content (κ := Int) (ν := Int) (0 : Int) 0 e.2).map (pre e.1)) := by
  induction els with
  | nil => rfl
  | cons e els ih =>
    by_cases h : e.2 = 0
    · simp [List.filter_cons, h, content, ih]
    · simp [List.filter_cons, h, content, ih, pre]

theorem decF_encF_zero (fs : List Fmt) (tsh : List Nat) (ish : Option (List Nat)) (pidx : Nat) (cnt : Cnt)
    (a : List (Int × Int)) (n : Nat) (rc rp : List (List Int))
    (hfs : fs.length = 1) (hwf : wfB (κ := Int) (ν := Int) 1 a = true) (hin : inEff 1 fs tsh ish a = true)
    (hrc : rc.length = 1) (hrp : rp.length = 1)
    (hn : fs.headD .U = .C → n = (encF 0 fs tsh ish pidx cnt a).occ) :
    decF 0 fs (effShape fs tsh ish) n (zipApp (encF 0 fs tsh ish pidx cnt a).cs rc)
        (zipApp (encF 0 fs tsh ish pidx cnt a).ps rp) = ⟨content (κ := Int) (ν := Int) (0 : Int) 1 a, rc, rp⟩ := by
  match fs, hfs with
  | [f], _ =>
  match rc, hrc with
  | [rc0], _ =>
  match rp, hrp with
  | [rp0], _ =>
  have hs : Sorted a := by
    simp only [wfB, Bool.and_eq_true] at hwf
    exact (sortedB_iff _).1 hwf.1
  have hin' : ∀ e ∈ a, 0 ≤ e.1 ∧ e.1 < ((dimOf tsh ish : Nat) : Int) := by
    intro e he
    have hin2 : (a.all fun e => decide (0 ≤ e.1) && decide (e.1 < ((dimOf tsh ish : Nat) : Int)) && true) = true := hin
    rw [List.all_eq_true] at hin2
    have := hin2 e he
    simp only [Bool.and_eq_true, decide_eq_true_eq] at this
    exact ⟨this.1.1, this.1.2⟩
  obtain ⟨els, hels⟩ : ∃ els, els = elemsOf f (dimOf tsh ish) (0 : Int) (fun v => decide (v = 0)) a := ⟨_, rfl⟩
  have htc := takeCoords_stored f (dimOf tsh ish) n (els.map (·.1)) rc0
    (by intro h; subst h; rw [hels]; exact elemsOf_U_coords _ _ _ _)
    (by intro h; subst h; rw [hels]; simpa [encF] using hn rfl)
    (by rw [hels]; exact elemsOf_coords_inc _ _ _ _ _ hs) (by rw [hels]; exact elemsOf_coords_in _ _ _ _ _ hin')
  simp only [encF, decF, effShape, List.headD_cons, zipApp_cons, zipApp_nil_left]
  rw [← hels, htc]
  have hl : (els.map (·.2)).length = (els.map (·.1)).length := by simp
  simp only []
  rw [List.take_left' hl, List.drop_left' hl, zip_map_fst_snd, leaf_filter_map, hels]
  have hd : ∀ c : Int, (content (κ := Int) (ν := Int) (0 : Int) 0 (0 : Int)).map (pre c) = [] := by
    intro c; simp [content]
  have hE : ∀ (c : Int) (x : Int), (fun v : Int => decide (v = 0)) x = true →
      (content (κ := Int) (ν := Int) (0 : Int) 0 x).map (pre c) = [] := by
    intro c x hx
    have : x = 0 := by simpa using hx
    subst this; exact hd c
  rw [flatMap_elemsOf (fun c (v : Int) => (content (κ := Int) (ν := Int) (0 : Int) 0 v).map (pre c)) f (dimOf tsh ish)
        (0 : Int) _ hd hE a hs hin']
  rfl
theorem encF_succ_cs (d : Nat) (f : Fmt) (fs' : List Fmt) (tsh : List Nat) (ish : Option (List Nat))
    (pidx : Nat) (cnt : Cnt) (a : List (Int × Tree Int Int (d + 1))) :
    (encF (d + 1) (f :: fs') tsh ish pidx cnt a).cs =
      storedCoords f (dimOf tsh ish)
        ((elemsOf f (dimOf tsh ish) (emptyT d) (isEmpty (κ := Int) (0 : Int) (d + 1)) a).map (·.1)) ::
      (encKids (d + 1) (encF d fs' tsh.tail (ishNext f ish) (cnt.headD (0, 0)).1)
        ((elemsOf f (dimOf tsh ish) (emptyT d) (isEmpty (κ := Int) (0 : Int) (d + 1)) a).map (·.2)) cnt.tail 0).cs := rfl

theorem encF_succ_ps (d : Nat) (f : Fmt) (fs' : List Fmt) (tsh : List Nat) (ish : Option (List Nat))
    (pidx : Nat) (cnt : Cnt) (a : List (Int × Tree Int Int (d + 1))) :
    (encF (d + 1) (f :: fs') tsh ish pidx cnt a).ps =
      (if (fs'.headD .U).explicit then
        (encKids (d + 1) (encF d fs' tsh.tail (ishNext f ish) (cnt.headD (0, 0)).1)
          ((elemsOf f (dimOf tsh ish) (emptyT d) (isEmpty (κ := Int) (0 : Int) (d + 1)) a).map (·.2)) cnt.tail 0).cums
       else []) ::
      (encKids (d + 1) (encF d fs' tsh.tail (ishNext f ish) (cnt.headD (0, 0)).1)
        ((elemsOf f (dimOf tsh ish) (emptyT d) (isEmpty (κ := Int) (0 : Int) (d + 1)) a).map (·.2)) cnt.tail 0).ps := rfl

theorem encF_succ_occ (d : Nat) (f : Fmt) (fs' : List Fmt) (tsh : List Nat) (ish : Option (List Nat))
    (pidx : Nat) (cnt : Cnt) (a : List (Int × Tree Int Int (d + 1))) :
    (encF (d + 1) (f :: fs') tsh ish pidx cnt a).occ =
      (match f with
       | .U => pidx
       | _ => (elemsOf f (dimOf tsh ish) (emptyT d) (isEmpty (κ := Int) (0 : Int) (d + 1)) a).length) := rfl

theorem decF_succ (d : Nat) (f : Fmt) (fs' : List Fmt) (sh : Nat) (shs : List Nat) (n : Nat)
    (c : List Int) (cs : List (List Int)) (p : List Int) (ps : List (List Int)) :
    decF (d + 1) (f :: fs') (sh :: shs) n (c :: cs) (p :: ps) =
      ⟨(decKids (decF d fs' shs)
          ((takeCoords f sh n c).1.zip
            (if (fs'.headD .U).explicit then diffs 0 (p.take (takeCoords f sh n c).1.length)
             else List.replicate (takeCoords f sh n c).1.length 0)) cs ps).cont,
       (takeCoords f sh n c).2 ::
        (decKids (decF d fs' shs)
          ((takeCoords f sh n c).1.zip
            (if (fs'.headD .U).explicit then diffs 0 (p.take (takeCoords f sh n c).1.length)
             else List.replicate (takeCoords f sh n c).1.length 0)) cs ps).cs,
       (if (fs'.headD .U).explicit then p.drop (takeCoords f sh n c).1.length else p) ::
        (decKids (decF d fs' shs)
          ((takeCoords f sh n c).1.zip
            (if (fs'.headD .U).explicit then diffs 0 (p.take (takeCoords f sh n c).1.length)
             else List.replicate (takeCoords f sh n c).1.length 0)) cs ps).ps⟩ := rfl

theorem decF_encF (d : Nat) : ∀ (fs : List Fmt) (tsh : List Nat) (ish : Option (List Nat)) (pidx : Nat) (cnt : Cnt)
    (a : List (Int × Tree Int Int d)) (n : Nat) (rc rp : List (List Int)),
    fs.length = d + 1 → wfB (κ := Int) (ν := Int) (d + 1) a = true → inEff (d + 1) fs tsh ish a = true →
    rc.length = d + 1 → rp.length = d + 1 →
    (fs.headD .U = .C → n = (encF d fs tsh ish pidx cnt a).occ) →
    decF d fs (effShape fs tsh ish) n (zipApp (encF d fs tsh ish pidx cnt a).cs rc)
        (zipApp (encF d fs tsh ish pidx cnt a).ps rp)
      = ⟨content (κ := Int) (ν := Int) (0 : Int) (d + 1) a, rc, rp⟩ := by
  induction d with
  | zero =>
    intro fs tsh ish pidx cnt a n rc rp hfs hwf hin hrc hrp hn
    exact decF_encF_zero fs tsh ish pidx cnt a n rc rp hfs hwf hin hrc hrp hn
  | succ d ih =>
    intro fs tsh ish pidx cnt a n rc rp hfs hwf hin hrc hrp hn
    match fs, hfs with
    | f :: fs', hfs' =>
    match rc, hrc with
    | rc0 :: rc', hrc' =>
    match rp, hrp with
    | rp0 :: rp', hrp' =>
    have hfs'' : fs'.length = d + 1 := by simpa using hfs'
    have hrc'' : rc'.length = d + 1 := by simpa using hrc'
    have hrp'' : rp'.length = d + 1 := by simpa using hrp'
    have hwf2 : (sortedB a && a.all (fun e => wfB (κ := Int) (ν := Int) (d + 1) e.2)) = true := hwf
    rw [Bool.and_eq_true, List.all_eq_true] at hwf2
    have hs : Sorted a := (sortedB_iff _).1 hwf2.1
    obtain ⟨ishK, hishK⟩ : ∃ ishK, ishK = ishNext f ish := ⟨_, rfl⟩
    have hin2 : (a.all fun e => decide (0 ≤ e.1) && decide (e.1 < ((dimOf tsh ish : Nat) : Int)) &&
        inEff (d + 1) fs' tsh.tail ishK e.2) = true := by rw [hishK]; exact hin
    rw [List.all_eq_true] at hin2
    have hin' : ∀ e ∈ a, 0 ≤ e.1 ∧ e.1 < ((dimOf tsh ish : Nat) : Int) := by
      intro e he
      have := hin2 e he
      simp only [Bool.and_eq_true, decide_eq_true_eq] at this
      exact ⟨this.1.1, this.1.2⟩
    obtain ⟨els, hels⟩ : ∃ els, els = elemsOf f (dimOf tsh ish)
        (emptyT d) (isEmpty (κ := Int) (0 : Int) (d + 1)) a := ⟨_, rfl⟩
    have hn' : f = .C → n = els.length := by
      intro h; subst h; rw [hels]; simpa [encF_succ_occ] using hn rfl
    have htc := takeCoords_stored f (dimOf tsh ish) n (els.map (·.1)) rc0
      (by intro h; subst h; rw [hels]; exact elemsOf_U_coords _ _ _ _) (by intro h; rw [hn' h]; simp)
      (by rw [hels]; exact elemsOf_coords_inc _ _ _ _ _ hs) (by rw [hels]; exact elemsOf_coords_in _ _ _ _ _ hin')
    -- every child is well-formed and inside its extents
    have hP : ∀ e ∈ els, wfB (κ := Int) (ν := Int) (d + 1) e.2 = true ∧ inEff (d + 1) fs' tsh.tail ishK e.2 = true := by
      intro e he
      rw [hels] at he
      rcases elemsOf_payload _ _ _ _ _ e he with h | ⟨e', he', h⟩
      · rw [h]; constructor <;> rfl
      · rw [← h]
        refine ⟨hwf2.2 e' he', ?_⟩
        have := hin2 e' he'
        simp only [Bool.and_eq_true] at this
        exact this.2
    have hlenE : ∀ (c : Cnt) (x : Tree Int Int (d + 1)),
        (encF d fs' tsh.tail ishK (cnt.headD (0, 0)).1 c x).cs.length = d + 1 ∧
        (encF d fs' tsh.tail ishK (cnt.headD (0, 0)).1 c x).ps.length = d + 1 :=
      fun c x => encF_len d _ _ _ _ c x
    obtain ⟨K, hK⟩ : ∃ K, K = encKids (d + 1) (encF d fs' tsh.tail ishK (cnt.headD (0, 0)).1)
        (els.map (·.2)) cnt.tail 0 := ⟨_, rfl⟩
    have hKlen := encKids_len (d + 1) _ hlenE (els.map (·.2)) cnt.tail 0
    rw [← hK] at hKlen
    rw [encF_succ_cs, encF_succ_ps, ← hishK, ← hels, ← hK]
    show decF (d + 1) (f :: fs') (dimOf tsh ish :: effShape fs' tsh.tail (ishNext f ish)) n _ _ = _
    rw [zipApp_cons, zipApp_cons, decF_succ, htc, ← hishK]
    have hcl : K.cums.length = (els.map (·.1)).length := by rw [hKlen.2.2]; simp
    have hcont : els.flatMap (fun e => (content (κ := Int) (ν := Int) (0 : Int) (d + 1) e.2).map (pre e.1))
        = content (κ := Int) (ν := Int) (0 : Int) (d + 1 + 1) a := by
      rw [hels]
      show _ = a.flatMap (fun e => (content (κ := Int) (ν := Int) (0 : Int) (d + 1) e.2).map (pre e.1))
      exact flatMap_elemsOf (fun c (x : Tree Int Int (d + 1)) => (content (κ := Int) (ν := Int) (0 : Int) (d + 1) x).map (pre c))
        f (dimOf tsh ish) (emptyT d) _ (by intro c; rfl)
        (by intro c x hx; rw [content_of_isEmpty (d + 1) x hx]; rfl) a hs hin'
    have hdk : ∀ sizes : List Nat, sizes.length = els.length →
        (fs'.headD .U = .C → sizes = diffs ((0 : Nat) : Int) K.cums) →
        decKids (decF d fs' (effShape fs' tsh.tail ishK)) ((els.map (·.1)).zip sizes) (zipApp K.cs rc') (zipApp K.ps rp')
          = ⟨content (κ := Int) (ν := Int) (0 : Int) (d + 1 + 1) a, rc', rp'⟩ := by
      intro sizes hsz hN
      rw [hK, ← hcont]
      exact decKids_encKids (d + 1) (encF d fs' tsh.tail ishK (cnt.headD (0, 0)).1)
        (decF d fs' (effShape fs' tsh.tail ishK)) (fun x => content (κ := Int) (ν := Int) (0 : Int) (d + 1) x)
        (fs'.headD .U = .C)
        (fun x => wfB (κ := Int) (ν := Int) (d + 1) x = true ∧ inEff (d + 1) fs' tsh.tail ishK x = true)
        (fun x hx c n rc rp hrc hrp hn => ih fs' tsh.tail ishK _ c x n rc rp hfs'' hx.1 hx.2 hrc hrp hn)
        hlenE els hP cnt.tail 0 rc' rp' hrc'' hrp'' sizes hsz (by rw [← hK]; exact hN)
    cases hg : (fs'.headD .U).explicit with
    | true =>
      simp only [if_true]
      rw [List.take_left' hcl, List.drop_left' hcl,
        hdk (diffs 0 K.cums) (by rw [length_diffs, hcl]; simp) (fun _ => rfl)]
    | false =>
      simp only [Bool.false_eq_true, if_false, List.nil_append]
      rw [hdk (List.replicate (els.map (·.1)).length 0) (by simp) (by intro h; rw [h] at hg; cases hg)]



/-! ### extents: effective vs declared -/

theorem ishNext_none (f : Fmt) : ishNext f none = none := by cases f <;> rfl

theorem effShape_none : ∀ (fs : List Fmt) (tsh : List Nat), tsh.length = fs.length → effShape fs tsh none = tsh
  | [], tsh, h => by cases tsh with
    | nil => rfl
    | cons _ _ => simp at h
  | f :: fs, tsh, h => by
    cases tsh with
    | nil => simp at h
    | cons x tsh =>
      simp only [effShape, ishNext_none, List.tail_cons]
      rw [effShape_none fs tsh (by simpa using h)]
      rfl

/-- the imposed shape (if any) dominates the tensor's own shape -/
def IshOK (ish : Option (List Nat)) (tsh : List Nat) : Prop :=
  match ish with
  | none => True
  | some s => shapeGe s tsh = true

theorem IshOK_next (f : Fmt) (ish : Option (List Nat)) (tsh : List Nat) (h : IshOK ish tsh) :
    IshOK (ishNext f ish) tsh.tail := by
  cases ish with
  | none => rw [ishNext_none]; trivial
  | some s =>
    have h' : shapeGe s tsh = true := h
    cases f with
    | B => trivial
    | U =>
      show shapeGe s.tail tsh.tail = true
      cases s with
      | nil => cases tsh with
        | nil => rfl
        | cons _ _ => simp [shapeGe] at h'
      | cons a s => cases tsh with
        | nil => simp [shapeGe] at h'
        | cons b tsh => simp [shapeGe] at h'; exact h'.2
    | C =>
      show shapeGe s.tail tsh.tail = true
      cases s with
      | nil => cases tsh with
        | nil => rfl
        | cons _ _ => simp [shapeGe] at h'
      | cons a s => cases tsh with
        | nil => simp [shapeGe] at h'
        | cons b tsh => simp [shapeGe] at h'; exact h'.2

theorem dimOf_ge (tsh : List Nat) (ish : Option (List Nat)) (h : IshOK ish tsh) : tsh.headD 0 ≤ dimOf tsh ish := by
  cases ish with
  | none => exact Nat.le_refl _
  | some s =>
    have h' : shapeGe s tsh = true := h
    cases s with
    | nil => cases tsh with
      | nil => exact Nat.le_refl _
      | cons _ _ => simp [shapeGe] at h'
    | cons a s => cases tsh with
      | nil => simp [shapeGe] at h'
      | cons b tsh => simp [shapeGe] at h'; simpa [dimOf] using h'.1

theorem inEff_of_inShape (d : Nat) : ∀ (fs : List Fmt) (tsh : List Nat) (ish : Option (List Nat)) (a : Tree Int Int d),
    inShape d tsh a = true → IshOK ish tsh → inEff d fs tsh ish a = true := by
  induction d with
  | zero => intro _ _ _ _ _ _; rfl
  | succ d ih =>
    intro fs tsh ish a
    have key : ∀ (l : List (Int × Tree Int Int d)), inShape (d + 1) tsh (show Tree Int Int (d + 1) from l) = true →
        IshOK ish tsh → inEff (d + 1) fs tsh ish (show Tree Int Int (d + 1) from l) = true := by
      intro l h hok
      have h2 : (l.all fun e => decide (0 ≤ e.1) && decide (e.1 < ((tsh.headD 0 : Nat) : Int)) &&
          inShape d tsh.tail e.2) = true := h
      show (l.all fun e => decide (0 ≤ e.1) && decide (e.1 < ((dimOf tsh ish : Nat) : Int)) &&
          inEff d fs.tail tsh.tail (ishNext (fs.headD .U) ish) e.2) = true
      rw [List.all_eq_true] at h2 ⊢
      intro e he
      have := h2 e he
      simp only [Bool.and_eq_true, decide_eq_true_eq] at this ⊢
      have hd := dimOf_ge tsh ish hok
      refine ⟨⟨this.1.1, by omega⟩, ih _ _ _ _ this.2 (IshOK_next _ _ _ hok)⟩
    exact key a

/-- the decoder does not look at the extent of a C rank -/
theorem decF_agree (d : Nat) : ∀ (fs : List Fmt) (s1 s2 : List Nat), agreeNonC fs s1 s2 = true →
    fs.length = d + 1 → decF d fs s1 = decF d fs s2 := by
  induction d with
  | zero =>
    intro fs s1 s2 h hl
    match fs, hl with
    | [f], _ =>
    funext n cs ps
    simp only [agreeNonC, Bool.and_true, Bool.or_eq_true, beq_iff_eq] at h
    simp only [decF, List.headD_cons]
    rcases h with h | h
    · subst h; rfl
    · rw [h]
  | succ d ih =>
    intro fs s1 s2 h hl
    match fs, hl with
    | f :: fs', hl' =>
    simp only [agreeNonC, Bool.and_eq_true, Bool.or_eq_true, beq_iff_eq] at h
    funext n cs ps
    have hrec := ih fs' s1.tail s2.tail h.2 (by simpa using hl')
    simp only [decF, List.headD_cons, List.tail_cons, hrec]
    rcases h.1 with h1 | h1
    · subst h1; rfl
    · rw [h1]

end Codec
end Ft
