/-
  Helper lemmas for C20 (codec): rank-wise append, positions, masks, dense expansion.
-/
import FtModel.Codec
import FtProofs.Lemmas.Sorted
set_option linter.unusedSectionVars false
set_option linter.unusedSimpArgs false
set_option linter.unusedVariables false
namespace Ft
namespace Codec

variable {hu : Nat → Bool} {dflt : Int}

/-! ### rank-wise append -/

theorem zipApp_nil_left {α : Type} (b : List (List α)) : zipApp [] b = [] := by simp [zipApp]

theorem zipApp_cons {α : Type} (a : List α) (as : List (List α)) (b : List α) (bs : List (List α)) :
    zipApp (a :: as) (b :: bs) = (a ++ b) :: zipApp as bs := by simp [zipApp]

theorem length_zipApp {α : Type} (a b : List (List α)) : (zipApp a b).length = min a.length b.length := by
  simp [zipApp]

theorem zipApp_assoc {α : Type} (a b c : List (List α)) :
    zipApp (zipApp a b) c = zipApp a (zipApp b c) := by
  induction a generalizing b c with
  | nil => simp [zipApp]
  | cons x a ih =>
    cases b with
    | nil => simp [zipApp]
    | cons y b =>
      cases c with
      | nil => simp [zipApp]
      | cons z c => simp only [zipApp_cons, ih, List.append_assoc]

theorem zipApp_replicate_nil {α : Type} (k : Nat) (r : List (List α)) (h : r.length = k) :
    zipApp (List.replicate k []) r = r := by
  induction k generalizing r with
  | zero => cases r with
    | nil => rfl
    | cons _ _ => simp at h
  | succ k ih =>
    cases r with
    | nil => simp at h
    | cons x r =>
      simp only [List.replicate_succ, zipApp_cons, List.nil_append]
      rw [ih r (by simpa using h)]

theorem zipApp_replicate_nil_right {α : Type} (k : Nat) (r : List (List α)) (h : r.length = k) :
    zipApp r (List.replicate k []) = r := by
  induction k generalizing r with
  | zero => cases r with
    | nil => rfl
    | cons _ _ => simp at h
  | succ k ih =>
    cases r with
    | nil => simp at h
    | cons x r =>
      simp only [List.replicate_succ, zipApp_cons, List.append_nil]
      rw [ih r (by simpa using h)]

/-! ### positions -/

/-- positions `lo … lo+m-1` -/
def posFrom (lo m : Nat) : List Int := (List.range' lo m).map Int.ofNat

theorem irange_eq (n : Nat) : irange n = posFrom 0 n := by
  simp [irange, posFrom, List.range_eq_range']

theorem posFrom_zero (lo : Nat) : posFrom lo 0 = [] := rfl

theorem posFrom_succ (lo m : Nat) : posFrom lo (m + 1) = (lo : Int) :: posFrom (lo + 1) m := by
  simp [posFrom, List.range'_succ]

theorem length_posFrom (lo m : Nat) : (posFrom lo m).length = m := by simp [posFrom]

theorem mem_posFrom {lo m : Nat} {x : Int} : x ∈ posFrom lo m ↔ (lo : Int) ≤ x ∧ x < (lo + m : Nat) := by
  induction m generalizing lo with
  | zero => simp [posFrom_zero]
  | succ m ih =>
    rw [posFrom_succ, List.mem_cons, ih]
    constructor
    · rintro (h | ⟨h1, h2⟩)
      · subst h; constructor <;> omega
      · constructor <;> omega
    · rintro ⟨h1, h2⟩
      by_cases hx : x = (lo : Int)
      · exact Or.inl hx
      · right; constructor <;> omega

/-- strictly increasing integer list -/
def Inc (cs : List Int) : Prop := cs.Pairwise (· < ·)

/-- filtering the positions of a range by membership in a sorted list inside the range gives the list -/
theorem filter_posFrom_contains (m lo : Nat) (cs : List Int) (hs : Inc cs)
    (hin : ∀ c ∈ cs, (lo : Int) ≤ c ∧ c < (lo + m : Nat)) :
    (posFrom lo m).filter (fun i => cs.contains i) = cs := by
  induction m generalizing lo cs with
  | zero =>
    cases cs with
    | nil => rfl
    | cons c r => have := hin c (List.mem_cons_self ..); omega
  | succ m ih =>
    rw [posFrom_succ]
    cases cs with
    | nil => simp
    | cons c r =>
      have hc := hin c (List.mem_cons_self ..)
      have hr : ∀ x ∈ r, c < x := (List.pairwise_cons.1 hs).1
      have hsr : Inc r := (List.pairwise_cons.1 hs).2
      by_cases hcl : c = (lo : Int)
      · subst hcl
        have h1 : (posFrom (lo + 1) m).filter (fun i => (((lo : Int)) :: r).contains i)
            = (posFrom (lo + 1) m).filter (fun i => r.contains i) := by
          apply List.filter_congr
          intro x hx
          have := (mem_posFrom.1 hx).1
          have hne : x ≠ (lo : Int) := by omega
          simp [List.contains_cons, hne]
        have hhead : (((lo : Int)) :: r).contains (lo : Int) = true := by simp
        rw [List.filter_cons, if_pos hhead, h1, ih (lo + 1) r hsr]
        intro x hx
        have := hr x hx
        have := (hin x (List.mem_cons_of_mem _ hx)).2
        constructor <;> omega
      · have hlo : ((c :: r).contains (lo : Int)) = false := by
          rw [Bool.eq_false_iff]
          intro hcon
          rcases List.mem_cons.1 (List.contains_iff_mem.1 hcon) with h | h
          · exact hcl h.symm
          · have := hr _ h; omega
        rw [List.filter_cons, if_neg (by rw [hlo]; simp)]
        apply ih (lo + 1) (c :: r) hs
        intro x hx
        have hx' := hin x hx
        rcases List.mem_cons.1 hx with h | h
        · subst h; constructor <;> omega
        · have := hr x h; constructor <;> omega

/-- positions of the set bits of the mask of a sorted in-range list are the list -/
theorem maskCoords_mask_aux (m lo : Nat) (cs : List Int) :
    ((((posFrom lo m).map (fun i => if cs.contains i then (1 : Int) else 0)).zipIdx lo).filter
        (fun e => !decide (e.1 = 0))).map (fun e => (e.2 : Int))
      = (posFrom lo m).filter (fun i => cs.contains i) := by
  induction m generalizing lo with
  | zero => simp [posFrom_zero]
  | succ m ih =>
    rw [posFrom_succ]
    simp only [List.map_cons, List.zipIdx_cons]
    by_cases h : cs.contains (lo : Int) = true
    · rw [if_pos h, List.filter_cons, List.filter_cons, if_pos h, if_pos (by simp), List.map_cons, ih (lo + 1)]
    · rw [if_neg h, List.filter_cons, List.filter_cons, if_neg h, if_neg (by simp), ih (lo + 1)]

theorem maskCoords_maskOf (dim : Nat) (cs : List Int) (hs : Inc cs)
    (hin : ∀ c ∈ cs, 0 ≤ c ∧ c < (dim : Nat)) : maskCoords (maskOf dim cs) = cs := by
  unfold maskCoords maskOf
  rw [irange_eq]
  rw [maskCoords_mask_aux dim 0 cs]
  apply filter_posFrom_contains dim 0 cs hs
  intro c hc
  have := hin c hc
  constructor <;> omega

theorem length_maskOf (dim : Nat) (cs : List Int) : (maskOf dim cs).length = dim := by
  simp [maskOf, irange]

/-! ### dense expansion and element lists -/

theorem zip_map_fst_snd {α β : Type} (l : List (α × β)) : (l.map (·.1)).zip (l.map (·.2)) = l := by
  induction l with
  | nil => rfl
  | cons x l ih => simp [ih]

theorem flatMap_filter_skip {α β : Type} (G : α → List β) (p : α → Bool) (l : List α)
    (h : ∀ x ∈ l, p x = false → G x = []) : (l.filter p).flatMap G = l.flatMap G := by
  induction l with
  | nil => rfl
  | cons x l ih =>
    have ih' := ih (fun y hy => h y (List.mem_cons_of_mem _ hy))
    by_cases hp : p x = true
    · simp [List.filter_cons, hp, ih']
    · have hx := h x (List.mem_cons_self ..) (by simpa using hp)
      simp [List.filter_cons, hp, ih', hx]

/-- walking all positions of a range and looking each one up (absent → a default that
    contributes nothing) visits exactly the stored elements of a sorted in-range fiber -/
theorem flatMap_dense {π β : Type} (g : Int → π → List β) (dflt : π) (hd : ∀ c, g c dflt = [])
    (m lo : Nat) (a : Fib Int π) (hs : Sorted a)
    (hin : ∀ e ∈ a, (lo : Int) ≤ e.1 ∧ e.1 < (lo + m : Nat)) :
    ((posFrom lo m).map (fun i => (i, (lookup a i).getD dflt))).flatMap (fun e => g e.1 e.2)
      = a.flatMap (fun e => g e.1 e.2) := by
  induction m generalizing lo a with
  | zero =>
    cases a with
    | nil => rfl
    | cons e r => have := hin e (List.mem_cons_self ..); omega
  | succ m ih =>
    rw [posFrom_succ]
    cases a with
    | nil =>
      simp only [List.map_cons, List.flatMap_cons, lookup_nil, Option.getD_none, hd, List.nil_append,
        List.flatMap_nil]
      have := ih (lo + 1) [] sorted_nil (by intro e he; cases he)
      simpa [lookup_nil] using this
    | cons e r =>
      have he := hin e (List.mem_cons_self ..)
      have hr : ∀ x ∈ r, e.1 < x.1 := hs.head_lt
      by_cases hcl : e.1 = (lo : Int)
      · have h1 : (posFrom (lo + 1) m).map (fun i => (i, (lookup (e :: r) i).getD dflt))
            = (posFrom (lo + 1) m).map (fun i => (i, (lookup r i).getD dflt)) := by
          apply List.map_congr_left
          intro x hx
          have := (mem_posFrom.1 hx).1
          have hne : e.1 ≠ x := by omega
          simp [lookup_cons, hne]
        simp only [List.map_cons, List.flatMap_cons]
        rw [h1, ih (lo + 1) r hs.tail]
        · simp [lookup_cons, hcl]
        · intro x hx
          have := hr x hx
          have := (hin x (List.mem_cons_of_mem _ hx)).2
          constructor <;> omega
      · have hnone : lookup (e :: r) (lo : Int) = none := by
          apply lookup_eq_none_of_lt
          intro x hx
          rcases List.mem_cons.1 hx with h | h
          · subst h; omega
          · have := hr x h; omega
        simp only [List.map_cons, List.flatMap_cons, hnone, Option.getD_none, hd, List.nil_append]
        apply ih (lo + 1) (e :: r) hs
        intro x hx
        have hx' := hin x hx
        rcases List.mem_cons.1 hx with h | h
        · subst h; constructor <;> omega
        · have := hr x h; constructor <;> omega

/-- walking the positions `0 … m-1` with look-up -/
def cd_denseOf {π : Type} (m : Nat) (dflt : π) (a : Fib Int π) : Fib Int π :=
  (irange m).map (fun i => (i, (lookup a i).getD dflt))

theorem cd_elemsOf_cases {π : Type} (f : Fmt) (u : Bool) (dim tdim : Nat) (dflt : π) (isE : π → Bool)
    (a : Fib Int π) (htd : tdim ≤ dim) :
    (∃ m, m ≤ dim ∧ tdim ≤ m ∧ (f = .U → m = dim) ∧ elemsOf f u dim tdim dflt isE a = cd_denseOf m dflt a) ∨
    (f ≠ .U ∧ elemsOf f u dim tdim dflt isE a = a.filter (fun e => !isE e.2)) := by
  cases f with
  | U => left; exact ⟨dim, Nat.le_refl _, htd, fun _ => rfl, rfl⟩
  | C =>
    cases u with
    | true => left; exact ⟨tdim, htd, Nat.le_refl _, fun h => Fmt.noConfusion h, rfl⟩
    | false => right; exact ⟨by decide, rfl⟩
  | B =>
    cases u with
    | true => left; exact ⟨tdim, htd, Nat.le_refl _, fun h => Fmt.noConfusion h, rfl⟩
    | false => right; exact ⟨by decide, rfl⟩

/-- the elements a format lays out carry the whole content of the fiber -/
theorem flatMap_elemsOf {π β : Type} (g : Int → π → List β) (f : Fmt) (u : Bool) (dim tdim : Nat) (dflt : π)
    (isE : π → Bool) (hd : ∀ c, g c dflt = []) (hE : ∀ c x, isE x = true → g c x = [])
    (a : Fib Int π) (hs : Sorted a) (htd : tdim ≤ dim) (hin : ∀ e ∈ a, 0 ≤ e.1 ∧ e.1 < (tdim : Nat)) :
    (elemsOf f u dim tdim dflt isE a).flatMap (fun e => g e.1 e.2) = a.flatMap (fun e => g e.1 e.2) := by
  rcases cd_elemsOf_cases f u dim tdim dflt isE a htd with ⟨m, hm, htm, _, he⟩ | ⟨_, he⟩
  · rw [he]
    simp only [cd_denseOf, irange_eq]
    apply flatMap_dense g dflt hd m 0 a hs
    intro e he; have := hin e he; constructor <;> omega
  · rw [he]
    apply flatMap_filter_skip
    intro x _ hx; exact hE x.1 x.2 (by simpa using hx)

/-- the coordinates of the laid-out elements are strictly increasing and inside the extent -/
theorem elemsOf_coords_inc {π : Type} (f : Fmt) (u : Bool) (dim tdim : Nat) (dflt : π) (isE : π → Bool)
    (a : Fib Int π) (hs : Sorted a) : Inc ((elemsOf f u dim tdim dflt isE a).map (·.1)) := by
  have hdense : ∀ m, Inc ((cd_denseOf m dflt a).map (·.1)) := by
    intro m
    have hm : (cd_denseOf m dflt a).map (·.1) = (List.range m).map Int.ofNat := by
      simp [cd_denseOf, irange, List.map_map, Function.comp_def]
    rw [hm, Inc, List.pairwise_map]
    have : (List.range m).Pairwise (· < ·) := List.pairwise_lt_range
    exact this.imp (by intro a b h; simp; omega)
  have hfilt : Inc ((a.filter (fun e => !isE e.2)).map (·.1)) := by
    simp only [Inc]
    rw [List.pairwise_map]
    exact (List.Pairwise.filter _ hs)
  cases f with
  | U => exact hdense dim
  | C => cases u with
    | true => exact hdense tdim
    | false => exact hfilt
  | B => cases u with
    | true => exact hdense tdim
    | false => exact hfilt

theorem elemsOf_coords_in {π : Type} (f : Fmt) (u : Bool) (dim tdim : Nat) (dflt : π) (isE : π → Bool)
    (a : Fib Int π) (htd : tdim ≤ dim) (hin : ∀ e ∈ a, 0 ≤ e.1 ∧ e.1 < (tdim : Nat)) :
    ∀ c ∈ (elemsOf f u dim tdim dflt isE a).map (·.1), (0 : Int) ≤ c ∧ c < ((dim : Nat) : Int) := by
  intro c hc
  obtain ⟨e, he, rfl⟩ := List.mem_map.1 hc
  rcases cd_elemsOf_cases f u dim tdim dflt isE a htd with ⟨m, hm, _, _, hel⟩ | ⟨_, hel⟩
  · rw [hel] at he
    simp only [cd_denseOf, irange_eq] at he
    obtain ⟨i, hi, rfl⟩ := List.mem_map.1 he
    have := mem_posFrom.1 hi
    constructor <;> simp <;> omega
  · rw [hel] at he
    have := hin e (List.mem_filter.1 he).1
    constructor <;> omega

theorem elemsOf_U_coords {π : Type} (u : Bool) (dim tdim : Nat) (dflt : π) (isE : π → Bool) (a : Fib Int π) :
    (elemsOf .U u dim tdim dflt isE a).map (·.1) = irange dim := by
  simp [elemsOf, List.map_map, Function.comp_def]

/-- every payload of a laid-out element is a stored payload or the default -/
theorem elemsOf_payload {π : Type} (f : Fmt) (u : Bool) (dim tdim : Nat) (dflt : π) (isE : π → Bool) (a : Fib Int π)
    (e : Int × π) (he : e ∈ elemsOf f u dim tdim dflt isE a) : e.2 = dflt ∨ ∃ e' ∈ a, e'.2 = e.2 := by
  have hdense : ∀ m, e ∈ cd_denseOf m dflt a → e.2 = dflt ∨ ∃ e' ∈ a, e'.2 = e.2 := by
    intro m he
    simp only [cd_denseOf] at he
    obtain ⟨i, _, rfl⟩ := List.mem_map.1 he
    cases h : lookup a i with
    | none => left; simp [h]
    | some p =>
      right
      simp only [h, Option.getD_some]
      unfold lookup at h
      cases hf : a.find? (fun e => decide (e.1 = i)) with
      | none => simp [hf] at h
      | some x =>
        simp [hf] at h
        exact ⟨x, List.mem_of_find?_eq_some hf, h⟩
  cases f with
  | U => exact hdense dim he
  | C => cases u with
    | true => exact hdense tdim he
    | false => right; exact ⟨e, (List.mem_filter.1 he).1, rfl⟩
  | B => cases u with
    | true => exact hdense tdim he
    | false => right; exact ⟨e, (List.mem_filter.1 he).1, rfl⟩

/-- what the proofs need of the extents and coordinates of one rank -/
theorem cd_level_facts (d : Nat) (f : Fmt) (fs' : List Fmt) (tsh : List Nat) (ish : Option (List Nat))
    (a : List (Int × Tree Int Int d))
    (hin : inShape (d + 1) tsh a = true) (hdims : dimsOK (f :: fs') tsh ish = true) :
    tsh.headD 0 ≤ dimOf tsh ish ∧ dimsOK fs' tsh.tail (ishNext f ish) = true ∧
    (∀ e ∈ a, 0 ≤ e.1 ∧ e.1 < ((tsh.headD 0 : Nat) : Int)) ∧
    (∀ e ∈ a, inShape d tsh.tail e.2 = true) := by
  have h1 : (decide (tsh.headD 0 ≤ dimOf tsh ish) && dimsOK fs' tsh.tail (ishNext f ish)) = true := hdims
  rw [Bool.and_eq_true, decide_eq_true_eq] at h1
  have h2 : (a.all fun e => decide (0 ≤ e.1) && decide (e.1 < ((tsh.headD 0 : Nat) : Int)) &&
      inShape d tsh.tail e.2) = true := hin
  rw [List.all_eq_true] at h2
  refine ⟨h1.1, h1.2, ?_, ?_⟩
  · intro e he
    have := h2 e he
    simp only [Bool.and_eq_true, decide_eq_true_eq] at this
    exact ⟨this.1.1, this.1.2⟩
  · intro e he
    have := h2 e he
    simp only [Bool.and_eq_true] at this
    exact this.2

/-! ### encoder / decoder round trip -/

theorem takeCoords_stored (f : Fmt) (dim n : Nat) (ec rest : List Int)
    (hU : f = .U → ec = irange dim) (hn : f = .C → n = ec.length) (hinc : Inc ec)
    (hin : ∀ c ∈ ec, (0 : Int) ≤ c ∧ c < ((dim : Nat) : Int)) :
    takeCoords f dim n (storedCoords f dim ec ++ rest) = (ec, rest) := by
  cases f with
  | U => simp [takeCoords, storedCoords, hU rfl]
  | C => simp [takeCoords, storedCoords, hn rfl]
  | B =>
    have hl := length_maskOf dim ec
    simp only [takeCoords, storedCoords]
    rw [List.take_left' hl, List.drop_left' hl, maskCoords_maskOf dim ec hinc hin]

theorem encKids_len {α : Type} (k : Nat) (enc1 : Cnt → α → Res)
    (hlen : ∀ cnt x, (enc1 cnt x).cs.length = k ∧ (enc1 cnt x).ps.length = k)
    (xs : List α) (cnt : Cnt) (cum : Nat) :
    (encKids k enc1 xs cnt cum).cs.length = k ∧ (encKids k enc1 xs cnt cum).ps.length = k ∧
    (encKids k enc1 xs cnt cum).cums.length = xs.length := by
  induction xs generalizing cnt cum with
  | nil => simp [encKids]
  | cons x xs ih =>
    have h := hlen cnt x
    have ih' := ih (enc1 cnt x).cnt (cum + (enc1 cnt x).occ)
    simp only [encKids, length_zipApp, h.1, h.2, ih'.1, ih'.2.1, ih'.2.2, Nat.min_self, List.length_cons,
      and_self]

theorem encF_len (d : Nat) : ∀ (fs : List Fmt) (tsh : List Nat) (ish : Option (List Nat)) (pidx : Nat) (cnt : Cnt)
    (a : Tree Int Int (d + 1)),
    (encF hu dflt d fs tsh ish pidx cnt a).cs.length = d + 1 ∧ (encF hu dflt d fs tsh ish pidx cnt a).ps.length = d + 1 := by
  induction d with
  | zero => intro fs tsh ish pidx cnt a; simp [encF]
  | succ d ih =>
    intro fs tsh ish pidx cnt a
    simp only [encF, List.length_cons]
    have := encKids_len (d + 1)
      (encF hu dflt d fs.tail tsh.tail (ishNext (fs.headD Fmt.U) ish) (cnt.headD (0, 0)).1)
      (fun c x => ih _ _ _ _ c x)
    constructor
    · exact congrArg (· + 1) (this _ _ _).1
    · exact congrArg (· + 1) (this _ _ _).2.1

theorem diffs_encKids {α : Type} (k : Nat) (enc1 : Cnt → α → Res) (x : α) (xs : List α) (cnt : Cnt) (cum : Nat) :
    diffs (cum : Int) (encKids k enc1 (x :: xs) cnt cum).cums
      = (enc1 cnt x).occ :: diffs ((cum + (enc1 cnt x).occ : Nat) : Int)
          (encKids k enc1 xs (enc1 cnt x).cnt (cum + (enc1 cnt x).occ)).cums := by
  simp only [encKids, diffs]
  congr 1
  omega

def pre (c : Int) (pv : List Int × Int) : List Int × Int := (c :: pv.1, pv.2)

/-- the decoder's loop over the children undoes the encoder's loop, provided each child decodes -/
theorem decKids_encKids {α : Type} (k : Nat) (enc1 : Cnt → α → Res)
    (dec1 : Nat → List (List Int) → List (List Int) → DRes) (cont1 : α → Content) (needN : Prop)
    (P : α → Prop)
    (h1 : ∀ x, P x → ∀ (cnt : Cnt) (n : Nat) (rc rp : List (List Int)), rc.length = k → rp.length = k →
        (needN → n = (enc1 cnt x).occ) →
        dec1 n (zipApp (enc1 cnt x).cs rc) (zipApp (enc1 cnt x).ps rp) = ⟨cont1 x, rc, rp⟩)
    (hlen : ∀ cnt x, (enc1 cnt x).cs.length = k ∧ (enc1 cnt x).ps.length = k)
    (els : List (Int × α)) (hP : ∀ e ∈ els, P e.2) (cnt : Cnt) (cum : Nat) (rc rp : List (List Int))
    (hrc : rc.length = k) (hrp : rp.length = k) (sizes : List Nat) (hsz : sizes.length = els.length)
    (hN : needN → sizes = diffs (cum : Int) (encKids k enc1 (els.map (·.2)) cnt cum).cums) :
    decKids dec1 ((els.map (·.1)).zip sizes)
        (zipApp (encKids k enc1 (els.map (·.2)) cnt cum).cs rc)
        (zipApp (encKids k enc1 (els.map (·.2)) cnt cum).ps rp)
      = ⟨els.flatMap (fun e => (cont1 e.2).map (pre e.1)), rc, rp⟩ := by
  induction els generalizing cnt cum sizes with
  | nil =>
    simp only [List.map_nil, encKids, List.zip_nil_left, decKids, List.flatMap_nil]
    rw [zipApp_replicate_nil k rc hrc, zipApp_replicate_nil k rp hrp]
  | cons e els ih =>
    cases sizes with
    | nil => simp at hsz
    | cons s ss =>
      have hl := encKids_len k enc1 hlen (els.map (·.2)) (enc1 cnt e.2).cnt (cum + (enc1 cnt e.2).occ)
      have hs : needN → s = (enc1 cnt e.2).occ ∧
          ss = diffs ((cum + (enc1 cnt e.2).occ : Nat) : Int)
                (encKids k enc1 (els.map (·.2)) (enc1 cnt e.2).cnt (cum + (enc1 cnt e.2).occ)).cums := by
        intro hn
        have := hN hn
        rw [List.map_cons, diffs_encKids] at this
        exact List.cons.inj this
      simp only [List.map_cons, List.zip_cons_cons, decKids]
      have hK : encKids k enc1 (e.2 :: els.map (·.2)) cnt cum =
          ⟨zipApp (enc1 cnt e.2).cs (encKids k enc1 (els.map (·.2)) (enc1 cnt e.2).cnt (cum + (enc1 cnt e.2).occ)).cs,
           zipApp (enc1 cnt e.2).ps (encKids k enc1 (els.map (·.2)) (enc1 cnt e.2).cnt (cum + (enc1 cnt e.2).occ)).ps,
           zipApp (enc1 cnt e.2).fibs (encKids k enc1 (els.map (·.2)) (enc1 cnt e.2).cnt (cum + (enc1 cnt e.2).occ)).fibs,
           ((cum + (enc1 cnt e.2).occ : Nat) : Int) ::
             (encKids k enc1 (els.map (·.2)) (enc1 cnt e.2).cnt (cum + (enc1 cnt e.2).occ)).cums,
           (encKids k enc1 (els.map (·.2)) (enc1 cnt e.2).cnt (cum + (enc1 cnt e.2).occ)).cnt⟩ := by
        simp [encKids]
      rw [hK]
      simp only [zipApp_assoc]
      rw [h1 e.2 (hP e (List.mem_cons_self ..)) cnt s _ _ (by rw [length_zipApp, hl.1, hrc, Nat.min_self])
            (by rw [length_zipApp, hl.2.1, hrp, Nat.min_self]) (fun hn => (hs hn).1)]
      simp only
      rw [ih (fun x hx => hP x (List.mem_cons_of_mem _ hx)) (enc1 cnt e.2).cnt (cum + (enc1 cnt e.2).occ) ss
            (by simpa using hsz) (fun hn => (hs hn).2)]
      simp [List.flatMap_cons, pre]

theorem length_diffs (p : Int) (l : List Int) : (diffs p l).length = l.length := by
  induction l generalizing p with
  | nil => rfl
  | cons e r ih => simp [diffs, ih]

theorem content_of_isEmpty : ∀ (d : Nat) (x : Tree Int Int d),
    isEmpty (κ := Int) dflt d x = true → content (κ := Int) dflt d x = []
  | 0, v, h => by
    simp only [isEmpty, decide_eq_true_eq] at h
    simp only [content, h, if_true]
  | d + 1, f, h => by
    have key : ∀ (l : List (Int × Tree Int Int d)),
        isEmpty (κ := Int) dflt (d + 1) (show Tree Int Int (d + 1) from l) = true →
        content (κ := Int) dflt (d + 1) (show Tree Int Int (d + 1) from l) = [] := by
      intro l h
      simp only [isEmpty, List.all_eq_true] at h
      simp only [content]
      rw [List.flatMap_eq_nil_iff]
      intro e he
      rw [content_of_isEmpty d e.2 (h e he)]
      rfl
    exact key f h

theorem content_succ (d : Nat) (a : Tree Int Int (d + 1)) :
    content (κ := Int) dflt (d + 1) a
      = (show List (Int × Tree Int Int d) from a).flatMap (fun e => (content (κ := Int) dflt d e.2).map (pre e.1)) := rfl

theorem leaf_filter_map (els : List (Int × Int)) :
    (els.filter (fun e => !decide (e.2 = dflt))).map (fun e => ([e.1], e.2))
      = els.flatMap (fun e => (content (κ := Int) (ν := Int) dflt 0 e.2).map (pre e.1)) := by
  induction els with
  | nil => rfl
  | cons e els ih =>
    by_cases h : e.2 = dflt
    · simp [List.filter_cons, h, content, ih]
    · simp [List.filter_cons, h, content, ih, pre]

theorem decF_encF_zero (fs : List Fmt) (tsh : List Nat) (ish : Option (List Nat)) (pidx : Nat) (cnt : Cnt)
    (a : List (Int × Int)) (n : Nat) (rc rp : List (List Int))
    (hfs : fs.length = 1) (hwf : wfB (κ := Int) (ν := Int) 1 a = true) (hin : inShape 1 tsh a = true) (hdims : dimsOK fs tsh ish = true)
    (hrc : rc.length = 1) (hrp : rp.length = 1)
    (hn : fs.headD .U = .C → n = (encF hu dflt 0 fs tsh ish pidx cnt a).occ) :
    decF dflt 0 fs (effShape fs tsh ish) n (zipApp (encF hu dflt 0 fs tsh ish pidx cnt a).cs rc)
        (zipApp (encF hu dflt 0 fs tsh ish pidx cnt a).ps rp) = ⟨content (κ := Int) (ν := Int) dflt 1 a, rc, rp⟩ := by
  match fs, hfs with
  | [f], _ =>
  match rc, hrc with
  | [rc0], _ =>
  match rp, hrp with
  | [rp0], _ =>
  have hs : Sorted a := by
    simp only [wfB, Bool.and_eq_true] at hwf
    exact (sortedB_iff _).1 hwf.1
  obtain ⟨htd, _, hin', _⟩ := cd_level_facts 0 f [] tsh ish a hin hdims
  obtain ⟨els, hels⟩ : ∃ els, els = elemsOf f (hu 0) (dimOf tsh ish) (tsh.headD 0) dflt (fun v => decide (v = dflt)) a := ⟨_, rfl⟩
  have htc := takeCoords_stored f (dimOf tsh ish) n (els.map (·.1)) rc0
    (by intro h; subst h; rw [hels]; exact elemsOf_U_coords _ _ _ _ _ _)
    (by intro h; subst h; rw [hels]; simpa [encF] using hn rfl)
    (by rw [hels]; exact elemsOf_coords_inc _ _ _ _ _ _ _ hs) (by rw [hels]; exact elemsOf_coords_in _ _ _ _ _ _ _ htd hin')
  simp only [encF, decF, effShape, List.headD_cons, zipApp_cons, zipApp_nil_left]
  rw [← hels, htc]
  have hl : (els.map (·.2)).length = (els.map (·.1)).length := by simp
  simp only []
  rw [List.take_left' hl, List.drop_left' hl, zip_map_fst_snd, leaf_filter_map, hels]
  have hd : ∀ c : Int, (content (κ := Int) (ν := Int) dflt 0 dflt).map (pre c) = [] := by
    intro c; simp [content]
  have hE : ∀ (c : Int) (x : Int), (fun v : Int => decide (v = dflt)) x = true →
      (content (κ := Int) (ν := Int) dflt 0 x).map (pre c) = [] := by
    intro c x hx
    have : x = dflt := by simpa using hx
    subst this; exact hd c
  rw [flatMap_elemsOf (fun c (v : Int) => (content (κ := Int) (ν := Int) dflt 0 v).map (pre c)) f _ (dimOf tsh ish)
        _ dflt _ hd hE a hs htd hin']
  rfl
theorem encF_succ_cs (d : Nat) (f : Fmt) (fs' : List Fmt) (tsh : List Nat) (ish : Option (List Nat))
    (pidx : Nat) (cnt : Cnt) (a : List (Int × Tree Int Int (d + 1))) :
    (encF hu dflt (d + 1) (f :: fs') tsh ish pidx cnt a).cs =
      storedCoords f (dimOf tsh ish)
        ((elemsOf f (hu (d + 1)) (dimOf tsh ish) (tsh.headD 0) (emptyT d) (isEmpty (κ := Int) dflt (d + 1)) a).map (·.1)) ::
      (encKids (d + 1) (encF hu dflt d fs' tsh.tail (ishNext f ish) (cnt.headD (0, 0)).1)
        ((elemsOf f (hu (d + 1)) (dimOf tsh ish) (tsh.headD 0) (emptyT d) (isEmpty (κ := Int) dflt (d + 1)) a).map (·.2)) cnt.tail 0).cs := rfl

theorem encF_succ_ps (d : Nat) (f : Fmt) (fs' : List Fmt) (tsh : List Nat) (ish : Option (List Nat))
    (pidx : Nat) (cnt : Cnt) (a : List (Int × Tree Int Int (d + 1))) :
    (encF hu dflt (d + 1) (f :: fs') tsh ish pidx cnt a).ps =
      (if (fs'.headD .U).explicit then
        (encKids (d + 1) (encF hu dflt d fs' tsh.tail (ishNext f ish) (cnt.headD (0, 0)).1)
          ((elemsOf f (hu (d + 1)) (dimOf tsh ish) (tsh.headD 0) (emptyT d) (isEmpty (κ := Int) dflt (d + 1)) a).map (·.2)) cnt.tail 0).cums
       else []) ::
      (encKids (d + 1) (encF hu dflt d fs' tsh.tail (ishNext f ish) (cnt.headD (0, 0)).1)
        ((elemsOf f (hu (d + 1)) (dimOf tsh ish) (tsh.headD 0) (emptyT d) (isEmpty (κ := Int) dflt (d + 1)) a).map (·.2)) cnt.tail 0).ps := rfl

theorem encF_succ_occ (d : Nat) (f : Fmt) (fs' : List Fmt) (tsh : List Nat) (ish : Option (List Nat))
    (pidx : Nat) (cnt : Cnt) (a : List (Int × Tree Int Int (d + 1))) :
    (encF hu dflt (d + 1) (f :: fs') tsh ish pidx cnt a).occ =
      (match f with
       | .U => pidx
       | _ => (elemsOf f (hu (d + 1)) (dimOf tsh ish) (tsh.headD 0) (emptyT d) (isEmpty (κ := Int) dflt (d + 1)) a).length) := rfl

theorem decF_succ (d : Nat) (f : Fmt) (fs' : List Fmt) (sh : Nat) (shs : List Nat) (n : Nat)
    (c : List Int) (cs : List (List Int)) (p : List Int) (ps : List (List Int)) :
    decF dflt (d + 1) (f :: fs') (sh :: shs) n (c :: cs) (p :: ps) =
      ⟨(decKids (decF dflt d fs' shs)
          ((takeCoords f sh n c).1.zip
            (if (fs'.headD .U).explicit then diffs 0 (p.take (takeCoords f sh n c).1.length)
             else List.replicate (takeCoords f sh n c).1.length 0)) cs ps).cont,
       (takeCoords f sh n c).2 ::
        (decKids (decF dflt d fs' shs)
          ((takeCoords f sh n c).1.zip
            (if (fs'.headD .U).explicit then diffs 0 (p.take (takeCoords f sh n c).1.length)
             else List.replicate (takeCoords f sh n c).1.length 0)) cs ps).cs,
       (if (fs'.headD .U).explicit then p.drop (takeCoords f sh n c).1.length else p) ::
        (decKids (decF dflt d fs' shs)
          ((takeCoords f sh n c).1.zip
            (if (fs'.headD .U).explicit then diffs 0 (p.take (takeCoords f sh n c).1.length)
             else List.replicate (takeCoords f sh n c).1.length 0)) cs ps).ps⟩ := rfl

theorem decF_encF (d : Nat) : ∀ (fs : List Fmt) (tsh : List Nat) (ish : Option (List Nat)) (pidx : Nat) (cnt : Cnt)
    (a : List (Int × Tree Int Int d)) (n : Nat) (rc rp : List (List Int)),
    fs.length = d + 1 → wfB (κ := Int) (ν := Int) (d + 1) a = true → inShape (d + 1) tsh a = true →
    dimsOK fs tsh ish = true →
    rc.length = d + 1 → rp.length = d + 1 →
    (fs.headD .U = .C → n = (encF hu dflt d fs tsh ish pidx cnt a).occ) →
    decF dflt d fs (effShape fs tsh ish) n (zipApp (encF hu dflt d fs tsh ish pidx cnt a).cs rc)
        (zipApp (encF hu dflt d fs tsh ish pidx cnt a).ps rp)
      = ⟨content (κ := Int) (ν := Int) dflt (d + 1) a, rc, rp⟩ := by
  induction d with
  | zero =>
    intro fs tsh ish pidx cnt a n rc rp hfs hwf hin hdims hrc hrp hn
    exact decF_encF_zero fs tsh ish pidx cnt a n rc rp hfs hwf hin hdims hrc hrp hn
  | succ d ih =>
    intro fs tsh ish pidx cnt a n rc rp hfs hwf hin hdims hrc hrp hn
    match fs, hfs with
    | f :: fs', hfs' =>
    match rc, hrc with
    | rc0 :: rc', hrc' =>
    match rp, hrp with
    | rp0 :: rp', hrp' =>
    have hfs'' : fs'.length = d + 1 := by simpa using hfs'
    have hrc'' : rc'.length = d + 1 := by simpa using hrc'
    have hrp'' : rp'.length = d + 1 := by simpa using hrp'
    have hwf2 : (sortedB a && a.all (fun e => wfB (κ := Int) (ν := Int) (d + 1) e.2)) = true := hwf
    rw [Bool.and_eq_true, List.all_eq_true] at hwf2
    have hs : Sorted a := (sortedB_iff _).1 hwf2.1
    obtain ⟨ishK, hishK⟩ : ∃ ishK, ishK = ishNext f ish := ⟨_, rfl⟩
    obtain ⟨htd, hdk, hin', hkin⟩ := cd_level_facts (d + 1) f fs' tsh ish a hin hdims
    obtain ⟨els, hels⟩ : ∃ els, els = elemsOf f (hu (d + 1)) (dimOf tsh ish) (tsh.headD 0)
        (emptyT d) (isEmpty (κ := Int) dflt (d + 1)) a := ⟨_, rfl⟩
    have hn' : f = .C → n = els.length := by
      intro h; subst h; rw [hels]; simpa [encF_succ_occ] using hn rfl
    have htc := takeCoords_stored f (dimOf tsh ish) n (els.map (·.1)) rc0
      (by intro h; subst h; rw [hels]; exact elemsOf_U_coords _ _ _ _ _ _) (by intro h; rw [hn' h]; simp)
      (by rw [hels]; exact elemsOf_coords_inc _ _ _ _ _ _ _ hs) (by rw [hels]; exact elemsOf_coords_in _ _ _ _ _ _ _ htd hin')
    -- every child is well-formed and inside its extents
    have hP : ∀ e ∈ els, wfB (κ := Int) (ν := Int) (d + 1) e.2 = true ∧ inShape (d + 1) tsh.tail e.2 = true := by
      intro e he
      rw [hels] at he
      rcases elemsOf_payload _ _ _ _ _ _ _ e he with h | ⟨e', he', h⟩
      · rw [h]; constructor <;> rfl
      · rw [← h]
        refine ⟨hwf2.2 e' he', ?_⟩
        exact hkin e' he'
    have hlenE : ∀ (c : Cnt) (x : Tree Int Int (d + 1)),
        (encF hu dflt d fs' tsh.tail ishK (cnt.headD (0, 0)).1 c x).cs.length = d + 1 ∧
        (encF hu dflt d fs' tsh.tail ishK (cnt.headD (0, 0)).1 c x).ps.length = d + 1 :=
      fun c x => encF_len d _ _ _ _ c x
    obtain ⟨K, hK⟩ : ∃ K, K = encKids (d + 1) (encF hu dflt d fs' tsh.tail ishK (cnt.headD (0, 0)).1)
        (els.map (·.2)) cnt.tail 0 := ⟨_, rfl⟩
    have hKlen := encKids_len (d + 1) _ hlenE (els.map (·.2)) cnt.tail 0
    rw [← hK] at hKlen
    rw [encF_succ_cs, encF_succ_ps, ← hishK, ← hels, ← hK]
    show decF dflt (d + 1) (f :: fs') (dimOf tsh ish :: effShape fs' tsh.tail (ishNext f ish)) n _ _ = _
    rw [zipApp_cons, zipApp_cons, decF_succ, htc, ← hishK]
    have hcl : K.cums.length = (els.map (·.1)).length := by rw [hKlen.2.2]; simp
    have hcont : els.flatMap (fun e => (content (κ := Int) (ν := Int) dflt (d + 1) e.2).map (pre e.1))
        = content (κ := Int) (ν := Int) dflt (d + 1 + 1) a := by
      rw [hels]
      show _ = a.flatMap (fun e => (content (κ := Int) (ν := Int) dflt (d + 1) e.2).map (pre e.1))
      exact flatMap_elemsOf (fun c (x : Tree Int Int (d + 1)) => (content (κ := Int) (ν := Int) dflt (d + 1) x).map (pre c))
        f _ (dimOf tsh ish) _ (emptyT d) _ (by intro c; rfl)
        (by intro c x hx; rw [content_of_isEmpty (d + 1) x hx]; rfl) a hs htd hin'
    have hdk : ∀ sizes : List Nat, sizes.length = els.length →
        (fs'.headD .U = .C → sizes = diffs ((0 : Nat) : Int) K.cums) →
        decKids (decF dflt d fs' (effShape fs' tsh.tail ishK)) ((els.map (·.1)).zip sizes) (zipApp K.cs rc') (zipApp K.ps rp')
          = ⟨content (κ := Int) (ν := Int) dflt (d + 1 + 1) a, rc', rp'⟩ := by
      intro sizes hsz hN
      rw [hK, ← hcont]
      exact decKids_encKids (d + 1) (encF hu dflt d fs' tsh.tail ishK (cnt.headD (0, 0)).1)
        (decF dflt d fs' (effShape fs' tsh.tail ishK)) (fun x => content (κ := Int) (ν := Int) dflt (d + 1) x)
        (fs'.headD .U = .C)
        (fun x => wfB (κ := Int) (ν := Int) (d + 1) x = true ∧ inShape (d + 1) tsh.tail x = true)
        (fun x hx c n rc rp hrc hrp hn => ih fs' tsh.tail ishK _ c x n rc rp hfs'' hx.1 hx.2 (by rw [hishK]; exact hdk) hrc hrp hn)
        hlenE els hP cnt.tail 0 rc' rp' hrc'' hrp'' sizes hsz (by rw [← hK]; exact hN)
    cases hg : (fs'.headD .U).explicit with
    | true =>
      simp only [if_true]
      rw [List.take_left' hcl, List.drop_left' hcl,
        hdk (diffs 0 K.cums) (by rw [length_diffs, hcl]; simp) (fun _ => rfl)]
    | false =>
      simp only [Bool.false_eq_true, if_false, List.nil_append]
      rw [hdk (List.replicate (els.map (·.1)).length 0) (by simp) (by intro h; rw [h] at hg; cases hg)]



/-! ### extents: effective vs declared -/

theorem ishNext_none (f : Fmt) : ishNext f none = none := rfl

theorem effShape_none : ∀ (fs : List Fmt) (tsh : List Nat), tsh.length = fs.length → effShape fs tsh none = tsh
  | [], tsh, h => by cases tsh with
    | nil => rfl
    | cons _ _ => simp at h
  | f :: fs, tsh, h => by
    cases tsh with
    | nil => simp at h
    | cons x tsh =>
      simp only [effShape, ishNext_none, List.tail_cons]
      rw [effShape_none fs tsh (by simpa using h)]
      rfl

/-- the imposed shape (if any) dominates the tensor's own shape -/
def IshOK (ish : Option (List Nat)) (tsh : List Nat) : Prop :=
  match ish with
  | none => True
  | some s => shapeGe s tsh = true

theorem IshOK_next (f : Fmt) (ish : Option (List Nat)) (tsh : List Nat) (h : IshOK ish tsh) :
    IshOK (ishNext f ish) tsh.tail := by
  cases ish with
  | none => trivial
  | some s =>
    have h' : shapeGe s tsh = true := h
    show shapeGe s.tail tsh.tail = true
    cases s with
    | nil => cases tsh with
      | nil => rfl
      | cons _ _ => simp [shapeGe] at h'
    | cons a s => cases tsh with
      | nil => simp [shapeGe] at h'
      | cons b tsh => simp [shapeGe] at h'; exact h'.2

theorem cd_shapeGe_length : ∀ (s tsh : List Nat), shapeGe s tsh = true → s.length = tsh.length
  | [], [], _ => rfl
  | [], _ :: _, h => by simp [shapeGe] at h
  | _ :: _, [], h => by simp [shapeGe] at h
  | a :: s, b :: tsh, h => by
    simp [shapeGe] at h
    simp [cd_shapeGe_length s tsh h.2]

/-- with an imposed shape of the right length every rank is laid out with the imposed extent -/
theorem cd_effShape_some : ∀ (fs : List Fmt) (tsh s : List Nat), s.length = fs.length →
    effShape fs tsh (some s) = s
  | [], tsh, s, h => by cases s with
    | nil => rfl
    | cons _ _ => simp at h
  | f :: fs, tsh, s, h => by
    cases s with
    | nil => simp at h
    | cons x s =>
      simp only [effShape, ishNext, Option.map_some, List.tail_cons, dimOf]
      rw [cd_effShape_some fs tsh.tail s (by simpa using h)]

/-- the extents the ranks are laid out with are the declared ones -/
theorem cd_effShape_decl (fs : List Fmt) (tsh : List Nat) (ish : Option (List Nat))
    (htsh : tsh.length = fs.length) (hish : IshOK ish tsh) : effShape fs tsh ish = declShape tsh ish := by
  cases ish with
  | none => exact effShape_none fs tsh htsh
  | some s =>
    have h' : shapeGe s tsh = true := hish
    exact cd_effShape_some fs tsh s (by rw [cd_shapeGe_length s tsh h', htsh])

theorem dimOf_ge (tsh : List Nat) (ish : Option (List Nat)) (h : IshOK ish tsh) : tsh.headD 0 ≤ dimOf tsh ish := by
  cases ish with
  | none => exact Nat.le_refl _
  | some s =>
    have h' : shapeGe s tsh = true := h
    cases s with
    | nil => cases tsh with
      | nil => exact Nat.le_refl _
      | cons _ _ => simp [shapeGe] at h'
    | cons a s => cases tsh with
      | nil => simp [shapeGe] at h'
      | cons b tsh => simp [shapeGe] at h'; simpa [dimOf] using h'.1

theorem cd_dimsOK_of_IshOK : ∀ (fs : List Fmt) (tsh : List Nat) (ish : Option (List Nat)),
    IshOK ish tsh → dimsOK fs tsh ish = true
  | [], _, _, _ => rfl
  | f :: fs, tsh, ish, h => by
    show (decide (tsh.headD 0 ≤ dimOf tsh ish) && dimsOK fs tsh.tail (ishNext f ish)) = true
    rw [Bool.and_eq_true, decide_eq_true_eq]
    exact ⟨dimOf_ge tsh ish h, cd_dimsOK_of_IshOK fs tsh.tail (ishNext f ish) (IshOK_next f ish tsh h)⟩

/-- the decoder does not look at the extent of a C rank -/
theorem decF_agree (d : Nat) : ∀ (fs : List Fmt) (s1 s2 : List Nat), agreeNonC fs s1 s2 = true →
    fs.length = d + 1 → decF dflt d fs s1 = decF dflt d fs s2 := by
  induction d with
  | zero =>
    intro fs s1 s2 h hl
    match fs, hl with
    | [f], _ =>
    funext n cs ps
    simp only [agreeNonC, Bool.and_true, Bool.or_eq_true, beq_iff_eq] at h
    simp only [decF, List.headD_cons]
    rcases h with h | h
    · subst h; rfl
    · rw [h]
  | succ d ih =>
    intro fs s1 s2 h hl
    match fs, hl with
    | f :: fs', hl' =>
    simp only [agreeNonC, Bool.and_eq_true, Bool.or_eq_true, beq_iff_eq] at h
    funext n cs ps
    have hrec := ih fs' s1.tail s2.tail h.2 (by simpa using hl')
    simp only [decF, List.headD_cons, List.tail_cons, hrec]
    rcases h.1 with h1 | h1
    · subst h1; rfl
    · rw [h1]

/-! ### binary search -/

/-- the length of the maximal prefix below `q` is the only position that splits the list into
    "below `q`" and "first element not below `q`" -/
theorem takeWhile_length_unique (cs : List Int) (q : Int) (p : Nat) (hp : p ≤ cs.length)
    (hlt : ∀ i, i < p → cs.getD i 0 < q) (hge : p < cs.length → ¬ cs.getD p 0 < q) :
    (cs.takeWhile (fun c => decide (c < q))).length = p := by
  induction cs generalizing p with
  | nil => simp at hp; simp [hp]
  | cons c r ih =>
    cases p with
    | zero =>
      have := hge (by simp)
      simp only [List.getD_cons_zero] at this
      simp [List.takeWhile_cons, this]
    | succ p =>
      have h0 := hlt 0 (by omega)
      simp only [List.getD_cons_zero] at h0
      simp only [List.takeWhile_cons, h0, decide_true, if_true, List.length_cons]
      congr 1
      apply ih p (by simpa using hp)
      · intro i hi
        have := hlt (i + 1) (by omega)
        simpa using this
      · intro h
        have := hge (by simpa using h)
        simpa using this

theorem inc_getD (cs : List Int) (h : Inc cs) (i j : Nat) (hij : i < j) (hj : j < cs.length) :
    cs.getD i 0 < cs.getD j 0 := by
  have hi : i < cs.length := by omega
  have e1 : cs.getD i 0 = cs[i] := by simp [List.getD_eq_getElem?_getD, hi]
  have e2 : cs.getD j 0 = cs[j] := by simp [List.getD_eq_getElem?_getD, hj]
  rw [e1, e2]
  exact (List.pairwise_iff_getElem.1 h) i j hi hj hij

/-- the loop of `coordToHandle`: with everything left of `lo` below `q`, everything right of
    `hi` above `q` and `mid` the last probe, the result is the lower-bound position -/
theorem bsearch_spec (cs : List Int) (hinc : Inc cs) (q : Int) (lo hi mid : Int)
    (h0 : 0 ≤ lo) (hhi : hi < cs.length) (hlh : lo ≤ hi + 1)
    (hL : ∀ i : Nat, (i : Int) < lo → cs.getD i 0 < q)
    (hR : ∀ i : Nat, hi < (i : Int) → i < cs.length → q < cs.getD i 0)
    (hM : hi < lo → (lo = mid + 1 ∧ cs.getD mid.toNat 0 < q) ∨ (lo = mid ∧ 0 ≤ mid ∧ q < cs.getD mid.toNat 0)) :
    let r := bsearch cs q lo hi mid
    0 ≤ r ∧ r ≤ cs.length ∧ (∀ i : Nat, (i : Int) < r → cs.getD i 0 < q) ∧
      (∀ i : Nat, r ≤ (i : Int) → i < cs.length → q ≤ cs.getD i 0) := by
  fun_induction bsearch cs q lo hi mid with
  | case1 lo hi mid hle mid' v hv =>
    -- found
    have hm0 : 0 ≤ mid' := by simp only [mid']; omega
    have hmh : mid' ≤ hi := by simp only [mid']; omega
    have hml : mid'.toNat < cs.length := by omega
    refine ⟨hm0, by omega, ?_, ?_⟩
    · intro i hi'
      have := inc_getD cs hinc i mid'.toNat (by omega) hml
      rw [← hv]; exact this
    · intro i hi' hil
      by_cases he : i = mid'.toNat
      · subst he; rw [← hv]; exact Int.le_refl _
      · have := inc_getD cs hinc mid'.toNat i (by omega) hil
        rw [← hv]; exact Int.le_of_lt this
  | case2 lo hi mid hle mid' v hv hlt ih =>
    have hm0 : 0 ≤ mid' := by simp only [mid']; omega
    have hmh : mid' ≤ hi := by simp only [mid']; omega
    have hml : mid'.toNat < cs.length := by omega
    apply ih (by omega) hhi (by omega)
    · intro i hi'
      by_cases he : i = mid'.toNat
      · subst he; exact hlt
      · have := inc_getD cs hinc i mid'.toNat (by omega) hml
        exact Int.lt_trans this hlt
    · exact hR
    · intro _; left; exact ⟨rfl, hlt⟩
  | case3 lo hi mid hle mid' v hv hnlt ih =>
    have hm0 : 0 ≤ mid' := by simp only [mid']; omega
    have hmh : mid' ≤ hi := by simp only [mid']; omega
    have hlm : lo ≤ mid' := by simp only [mid']; omega
    have hml : mid'.toNat < cs.length := by omega
    have hgt : q < v := by omega
    apply ih h0 (by omega) (by omega) hL
    · intro i hi' hil
      by_cases he : i = mid'.toNat
      · subst he; exact hgt
      · have := inc_getD cs hinc mid'.toNat i (by omega) hil
        exact Int.lt_trans hgt this
    · intro hlt'
      right; exact ⟨by omega, hm0, hgt⟩
  | case4 lo hi mid hnle hgt =>
    rcases hM (by omega) with ⟨h1, h2⟩ | ⟨h1, h2, h3⟩
    · refine ⟨by omega, by omega, ?_, ?_⟩
      · intro i hi'; exact hL i (by omega)
      · intro i hi' hil; exact Int.le_of_lt (hR i (by omega) hil)
    · omega
  | case5 lo hi mid hnle hngt =>
    rcases hM (by omega) with ⟨h1, h2⟩ | ⟨h1, h2, h3⟩
    · omega
    · refine ⟨by omega, by omega, ?_, ?_⟩
      · intro i hi'; exact hL i (by omega)
      · intro i hi' hil; exact Int.le_of_lt (hR i (by omega) hil)


theorem getLastD_eq_getD (c0 : Int) (r : List Int) :
    (c0 :: r).getLastD 0 = (c0 :: r).getD r.length 0 := by
  induction r generalizing c0 with
  | nil => rfl
  | cons c1 r ih =>
    have := ih c1
    simp only [List.getLastD_cons, List.length_cons, List.getD_cons_succ] at this ⊢
    exact this

/-- `CoordinateList.coordToHandle` on strictly increasing coordinates is the lower bound:
    the handle of the first stored coordinate not below the query, None past the end -/
theorem c2hC_lowerHandle (cs : List Int) (hinc : Inc cs) (q : Int) : c2hC cs q = lowerHandle cs q := by
  cases cs with
  | nil => rfl
  | cons c0 r =>
    have hlast := getLastD_eq_getD c0 r
    simp only [c2hC, lowerHandle]
    by_cases h1 : q > (c0 :: r).getLastD 0
    · -- past the end
      rw [if_pos h1]
      have : ((c0 :: r).takeWhile (fun c => decide (c < q))).length = (c0 :: r).length := by
        apply takeWhile_length_unique _ _ _ (Nat.le_refl _)
        · intro i hi
          rw [hlast] at h1
          by_cases he : i = r.length
          · subst he; exact h1
          · have := inc_getD _ hinc i r.length (by simp at hi; omega) (by simp)
            exact Int.lt_trans this h1
        · intro h; omega
      rw [this]; simp
    · rw [if_neg h1]
      by_cases h2 : q ≤ c0
      · rw [if_pos h2]
        have : ((c0 :: r).takeWhile (fun c => decide (c < q))).length = 0 := by
          apply takeWhile_length_unique _ _ _ (Nat.zero_le _)
          · intro i hi; omega
          · intro _; simp; omega
        rw [this]; simp
      · rw [if_neg h2]
        have hs := bsearch_spec (c0 :: r) hinc q 0 (((c0 :: r).length : Int) - 1) 0 (Int.le_refl _) (by omega)
          (by simp; omega) (by intro i hi; omega) (by intro i hi hil; omega) (by intro h; simp at h; omega)
        obtain ⟨hr0, hrl, hL, hR⟩ := hs
        have hrlt : bsearch (c0 :: r) q 0 (((c0 :: r).length : Int) - 1) 0 < (c0 :: r).length := by
          by_cases h : bsearch (c0 :: r) q 0 (((c0 :: r).length : Int) - 1) 0 < ((c0 :: r).length : Int)
          · exact h
          · exfalso
            have := hL r.length (by simp at h ⊢; omega)
            rw [hlast] at h1
            omega
        have : ((c0 :: r).takeWhile (fun c => decide (c < q))).length
            = (bsearch (c0 :: r) q 0 (((c0 :: r).length : Int) - 1) 0).toNat := by
          apply takeWhile_length_unique _ _ _ (by omega)
          · intro i hi; exact hL i (by omega)
          · intro hlt
            have := hR _ (by omega) hlt
            omega
        rw [this, if_pos (by omega)]


/-! ### the invariant of encoded fiber objects -/

/-- what every fiber object produced by the encoder satisfies (the invariant the handle
    interface relies on) -/
structure FibFacts (F : EFib) : Prop where
  n_eq : F.n = F.ecoords.length
  coords_eq : F.coords = storedCoords F.fmt F.shape F.ecoords
  inc : Inc F.ecoords
  inrange : ∀ c ∈ F.ecoords, (0 : Int) ≤ c ∧ c < ((F.shape : Nat) : Int)
  dense : F.fmt = .U → F.ecoords = irange F.shape
  occs_len : F.occs.length = (match F.next with | some g => if g.explicit then F.n else 0 | none => 0)
  vals_len : F.vals.length = (match F.next with | some _ => 0 | none => F.n)
  npay_eq : F.npay = (match F.fmt, F.next with
                      | .C, some g => if g.explicit then F.n else 0
                      | _, _ => F.n)

theorem mem_flatten_zipApp {α : Type} (a b : List (List α)) (x : α) (h : x ∈ (zipApp a b).flatten) :
    x ∈ a.flatten ∨ x ∈ b.flatten := by
  induction a generalizing b with
  | nil => simp [zipApp] at h
  | cons u a ih =>
    cases b with
    | nil => simp [zipApp] at h
    | cons v b =>
      rw [zipApp_cons, List.flatten_cons, List.mem_append, List.mem_append] at h
      rcases h with (h | h) | h
      · left; simp [h]
      · right; simp [h]
      · rcases ih b h with h | h
        · left; simp [h]
        · right; simp [h]

theorem encKids_fibs {α : Type} (P : EFib → Prop) (Q : α → Prop) (k : Nat) (enc1 : Cnt → α → Res)
    (h1 : ∀ cnt x, Q x → ∀ F ∈ (enc1 cnt x).fibs.flatten, P F)
    (xs : List α) (hQ : ∀ x ∈ xs, Q x) (cnt : Cnt) (cum : Nat) :
    ∀ F ∈ (encKids k enc1 xs cnt cum).fibs.flatten, P F := by
  induction xs generalizing cnt cum with
  | nil => intro F hF; simp [encKids] at hF
  | cons x xs ih =>
    intro F hF
    simp only [encKids] at hF
    rcases mem_flatten_zipApp _ _ F hF with h | h
    · exact h1 cnt x (hQ x (List.mem_cons_self ..)) F h
    · exact ih (fun y hy => hQ y (List.mem_cons_of_mem _ hy)) _ _ F h

theorem encF_zero_fibs (f : Fmt) (fs' : List Fmt) (tsh : List Nat) (ish : Option (List Nat)) (pidx : Nat) (cnt : Cnt)
    (a : List (Int × Int)) :
    (encF hu dflt 0 (f :: fs') tsh ish pidx cnt a).fibs =
      [[{ fmt := f, next := none, shape := dimOf tsh ish,
          n := (elemsOf f (hu 0) (dimOf tsh ish) (tsh.headD 0) dflt (fun v => decide (v = dflt)) a).length,
          ecoords := (elemsOf f (hu 0) (dimOf tsh ish) (tsh.headD 0) dflt (fun v => decide (v = dflt)) a).map (·.1),
          coords := storedCoords f (dimOf tsh ish) ((elemsOf f (hu 0) (dimOf tsh ish) (tsh.headD 0) dflt (fun v => decide (v = dflt)) a).map (·.1)),
          occs := [], vals := (elemsOf f (hu 0) (dimOf tsh ish) (tsh.headD 0) dflt (fun v => decide (v = dflt)) a).map (·.2),
          npay := (elemsOf f (hu 0) (dimOf tsh ish) (tsh.headD 0) dflt (fun v => decide (v = dflt)) a).length,
          nnz := (match f with | .U => pidx | _ => (elemsOf f (hu 0) (dimOf tsh ish) (tsh.headD 0) dflt (fun v => decide (v = dflt)) a).length),
          idx := (cnt.headD (0, 0)).1, osf := (cnt.headD (0, 0)).2, kid0 := 0 }]] := rfl

theorem encF_succ_fibs (d : Nat) (f : Fmt) (fs' : List Fmt) (tsh : List Nat) (ish : Option (List Nat))
    (pidx : Nat) (cnt : Cnt) (a : List (Int × Tree Int Int (d + 1))) :
    (encF hu dflt (d + 1) (f :: fs') tsh ish pidx cnt a).fibs =
      [{ fmt := f, next := some (fs'.headD .U), shape := dimOf tsh ish,
         n := (elemsOf f (hu (d + 1)) (dimOf tsh ish) (tsh.headD 0) (emptyT d) (isEmpty (κ := Int) dflt (d + 1)) a).length,
         ecoords := (elemsOf f (hu (d + 1)) (dimOf tsh ish) (tsh.headD 0) (emptyT d) (isEmpty (κ := Int) dflt (d + 1)) a).map (·.1),
         coords := storedCoords f (dimOf tsh ish)
           ((elemsOf f (hu (d + 1)) (dimOf tsh ish) (tsh.headD 0) (emptyT d) (isEmpty (κ := Int) dflt (d + 1)) a).map (·.1)),
         occs := (if (fs'.headD .U).explicit then
                    (encKids (d + 1) (encF hu dflt d fs' tsh.tail (ishNext f ish) (cnt.headD (0, 0)).1)
                      ((elemsOf f (hu (d + 1)) (dimOf tsh ish) (tsh.headD 0) (emptyT d) (isEmpty (κ := Int) dflt (d + 1)) a).map (·.2))
                      cnt.tail 0).cums
                  else []),
         vals := [],
         npay := (match f with
                  | .C => (if (fs'.headD .U).explicit then
                            (elemsOf f (hu (d + 1)) (dimOf tsh ish) (tsh.headD 0) (emptyT d) (isEmpty (κ := Int) dflt (d + 1)) a).length else 0)
                  | _ => (elemsOf f (hu (d + 1)) (dimOf tsh ish) (tsh.headD 0) (emptyT d) (isEmpty (κ := Int) dflt (d + 1)) a).length),
         nnz := (match f with
                 | .U => pidx
                 | _ => (elemsOf f (hu (d + 1)) (dimOf tsh ish) (tsh.headD 0) (emptyT d) (isEmpty (κ := Int) dflt (d + 1)) a).length),
         idx := (cnt.headD (0, 0)).1, osf := (cnt.headD (0, 0)).2, kid0 := (cnt.tail.headD (0, 0)).1 }] ::
      (encKids (d + 1) (encF hu dflt d fs' tsh.tail (ishNext f ish) (cnt.headD (0, 0)).1)
        ((elemsOf f (hu (d + 1)) (dimOf tsh ish) (tsh.headD 0) (emptyT d) (isEmpty (κ := Int) dflt (d + 1)) a).map (·.2)) cnt.tail 0).fibs := rfl

theorem encF_fibs_facts_zero (fs : List Fmt) (tsh : List Nat) (ish : Option (List Nat)) (pidx : Nat) (cnt : Cnt)
    (a : List (Int × Int))
    (hfs : fs.length = 1) (hwf : wfB (κ := Int) (ν := Int) 1 a = true) (hin : inShape 1 tsh a = true) (hdims : dimsOK fs tsh ish = true) :
    ∀ F ∈ (encF hu dflt 0 fs tsh ish pidx cnt a).fibs.flatten, FibFacts F := by
  intro F hF
  match fs, hfs with
  | [f], _ =>
  have hwf2 : (sortedB a && a.all (fun e => wfB (κ := Int) (ν := Int) 0 e.2)) = true := hwf
  rw [Bool.and_eq_true] at hwf2
  have hs : Sorted a := (sortedB_iff _).1 hwf2.1
  obtain ⟨htd, _, hin', _⟩ := cd_level_facts 0 f [] tsh ish a hin hdims
  rw [encF_zero_fibs] at hF
  simp only [List.flatten_cons, List.flatten_nil, List.append_nil, List.mem_singleton] at hF
  subst hF
  refine ⟨by simp, rfl, elemsOf_coords_inc _ _ _ _ _ _ _ hs, elemsOf_coords_in _ _ _ _ _ _ _ htd hin', ?_, rfl, by simp, ?_⟩
  · intro h; simp only at h; subst h; exact elemsOf_U_coords _ _ _ _ _ _
  · cases f <;> rfl

/-- every fiber object the encoder creates satisfies the invariant -/
theorem encF_fibs_facts (d : Nat) : ∀ (fs : List Fmt) (tsh : List Nat) (ish : Option (List Nat)) (pidx : Nat) (cnt : Cnt)
    (a : List (Int × Tree Int Int d)),
    fs.length = d + 1 → wfB (κ := Int) (ν := Int) (d + 1) a = true → inShape (d + 1) tsh a = true →
    dimsOK fs tsh ish = true →
    ∀ F ∈ (encF hu dflt d fs tsh ish pidx cnt a).fibs.flatten, FibFacts F := by
  induction d with
  | zero =>
    intro fs tsh ish pidx cnt a hfs hwf hin hdims
    exact encF_fibs_facts_zero fs tsh ish pidx cnt a hfs hwf hin hdims
  | succ d ih =>
    intro fs tsh ish pidx cnt a hfs hwf hin hdims F hF
    match fs, hfs with
    | f :: fs', hfs' =>
    have hfs'' : fs'.length = d + 1 := by simpa using hfs'
    have hwf2 : (sortedB a && a.all (fun e => wfB (κ := Int) (ν := Int) (d + 1) e.2)) = true := hwf
    rw [Bool.and_eq_true, List.all_eq_true] at hwf2
    have hs : Sorted a := (sortedB_iff _).1 hwf2.1
    obtain ⟨htd, hdk, hin', hkin⟩ := cd_level_facts (d + 1) f fs' tsh ish a hin hdims
    obtain ⟨els, hels⟩ : ∃ els, els = elemsOf f (hu (d + 1)) (dimOf tsh ish) (tsh.headD 0) (emptyT d) (isEmpty (κ := Int) dflt (d + 1)) a := ⟨_, rfl⟩
    have hP : ∀ x ∈ els.map (·.2), wfB (κ := Int) (ν := Int) (d + 1) x = true ∧
        inShape (d + 1) tsh.tail x = true := by
      intro x hx
      obtain ⟨e, he, rfl⟩ := List.mem_map.1 hx
      rw [hels] at he
      rcases elemsOf_payload _ _ _ _ _ _ _ e he with h | ⟨e', he', h⟩
      · rw [h]; constructor <;> rfl
      · rw [← h]
        refine ⟨hwf2.2 e' he', ?_⟩
        exact hkin e' he'
    have hlenE : ∀ (c : Cnt) (x : Tree Int Int (d + 1)),
        (encF hu dflt d fs' tsh.tail (ishNext f ish) (cnt.headD (0, 0)).1 c x).cs.length = d + 1 ∧
        (encF hu dflt d fs' tsh.tail (ishNext f ish) (cnt.headD (0, 0)).1 c x).ps.length = d + 1 :=
      fun c x => encF_len d _ _ _ _ c x
    have hKlen := encKids_len (d + 1) _ hlenE (els.map (·.2)) cnt.tail 0
    rw [encF_succ_fibs, ← hels] at hF
    rw [List.flatten_cons, List.mem_append] at hF
    rcases hF with hF | hF
    · simp only [List.mem_singleton] at hF
      subst hF
      refine ⟨by simp, rfl, by rw [hels]; exact elemsOf_coords_inc _ _ _ _ _ _ _ hs,
        by rw [hels]; exact elemsOf_coords_in _ _ _ _ _ _ _ htd hin', ?_, ?_, rfl, ?_⟩
      · intro h; simp only at h; subst h; rw [hels]; exact elemsOf_U_coords _ _ _ _ _ _
      · simp only
        cases (fs'.headD .U).explicit with
        | true => simp only [if_true]; rw [hKlen.2.2]; simp
        | false => simp
      · cases f <;> rfl
    · exact encKids_fibs FibFacts
        (fun x => wfB (κ := Int) (ν := Int) (d + 1) x = true ∧ inShape (d + 1) tsh.tail x = true)
        (d + 1) _ (fun c x hx => ih fs' tsh.tail (ishNext f ish) _ c x hfs'' hx.1 hx.2 hdk) _ hP _ _ F hF


/-! ### lookup, size, scan of an encoded fiber -/

theorem coordToHandle_C (F : EFib) (hF : FibFacts F) (hC : F.fmt = .C) (q : Int) :
    F.coordToHandle q = lowerHandle F.ecoords q := by
  have hc : F.coords = F.ecoords := by rw [hF.coords_eq, hC]; rfl
  simp only [EFib.coordToHandle, hC, hc]
  exact c2hC_lowerHandle F.ecoords hF.inc q

theorem getSize_facts (F : EFib) (hF : FibFacts F) : F.getSize = some F.words := by
  obtain ⟨hn, hc, _, _, _, hocc, hval, hnp⟩ := hF
  have hclen : F.fmt = .C → F.coords.length = F.n := by
    intro h; rw [hc, h, hn]; rfl
  have hblen : F.fmt = .B → F.coords.length = F.shape := by
    intro h; rw [hc, h]; exact length_maskOf _ _
  cases hf : F.fmt with
  | U =>
    rw [hf] at hnp
    cases hnx : F.next with
    | none =>
      rw [hnx] at hocc hnp
      simp [EFib.getSize, EFib.words, EFib.isLeaf, hf, hnx, hocc, hnp]
    | some g =>
      rw [hnx] at hocc hnp
      simp only [EFib.getSize, EFib.words, EFib.isLeaf, hf, hnx, hocc, hnp]
      cases g.explicit <;> simp
  | C =>
    have hl := hclen hf
    rw [hf] at hnp
    cases hnx : F.next with
    | none =>
      rw [hnx] at hocc hnp
      simp [EFib.getSize, EFib.words, hf, hnx, hocc, hnp, hl]
    | some g =>
      rw [hnx] at hocc hnp
      simp only [EFib.getSize, EFib.words, hf, hnx, hocc, hnp, hl]
      cases g.explicit <;> simp
  | B =>
    have hl := hblen hf
    rw [hf] at hnp
    cases hnx : F.next with
    | none =>
      rw [hnx] at hocc hnp
      simp [EFib.getSize, EFib.words, hf, hnx, hocc, hnp, hl]
    | some g =>
      rw [hnx] at hocc hnp
      simp only [EFib.getSize, EFib.words, hf, hnx, hocc, hnp, hl]

/-- the k-th coordinate of `l` paired with payload handle `k`, counting from `k0` -/
def specFrom (l : List Int) (k0 : Nat) : List (Option Int × Option Nat) :=
  (l.zipIdx k0).map (fun e => (some e.1, some e.2))

theorem specFrom_cons (c : Int) (l : List Int) (k : Nat) :
    specFrom (c :: l) k = (some c, some k) :: specFrom l (k + 1) := by
  simp [specFrom, List.zipIdx_cons]

/-- … with the payload handles starting at `b` -/
def cd_specFromB (b : Nat) (l : List Int) (k0 : Nat) : List (Option Int × Option Nat) :=
  (l.zipIdx k0).map (fun e => (some e.1, some (b + e.2)))

theorem cd_specFromB_cons (b : Nat) (c : Int) (l : List Int) (k : Nat) :
    cd_specFromB b (c :: l) k = (some c, some (b + k)) :: cd_specFromB b l (k + 1) := by
  simp [cd_specFromB, List.zipIdx_cons]

theorem cd_specFromB_zero (l : List Int) (k0 : Nat) : cd_specFromB 0 l k0 = specFrom l k0 := by
  simp [cd_specFromB, specFrom]

theorem scanSpec_eq (F : EFib) : F.scanSpec = cd_specFromB F.payBase F.layoutCoords 0 := rfl

theorem cd_payBase_zero (F : EFib) (h : ¬ (F.fmt = .C ∧ F.next = some .U)) : F.payBase = 0 := by
  simp only [EFib.payBase]; rw [if_neg h]

theorem cd_payBase_CU (F : EFib) (h1 : F.fmt = .C) (h2 : F.next = some .U) : F.payBase = F.osf := by
  simp only [EFib.payBase]; rw [if_pos ⟨h1, h2⟩]

/-- U: handles `h … shape-1`, coordinate = payload handle = position -/
theorem scanFrom_U (F : EFib) (hU : F.fmt = .U) (hnp : F.npay = F.shape) (m h : Nat) (hm : h + m = F.shape) :
    scanFrom F F.shape h = specFrom (posFrom h m) h := by
  have hsub : F.shape - h = m := by omega
  rw [scanFrom, hsub]
  clear hsub
  induction m generalizing h with
  | zero => simp [scanN, posFrom_zero, specFrom]
  | succ m ih =>
    rw [scanN, posFrom_succ, specFrom_cons, ih (h + 1) (by omega)]
    simp only [hU, EFib.handleToPayload, hnp]
    rw [if_neg (by omega)]

/-- C (not above U): handles `h … len-1`, the stored coordinate and the handle itself -/
theorem scanFrom_C (F : EFib) (hC : F.fmt = .C) (hnu : F.next ≠ some .U) (m h : Nat)
    (hm : h + m = F.coords.length) :
    scanFrom F F.coords.length h = specFrom (F.coords.drop h) h := by
  have hsub : F.coords.length - h = m := by omega
  rw [scanFrom, hsub]
  clear hsub
  induction m generalizing h with
  | zero =>
    have : F.coords.drop h = [] := List.drop_eq_nil_of_le (by omega)
    simp [this, specFrom, scanN]
  | succ m ih =>
    have hlt : h < F.coords.length := by omega
    have hd : F.coords.drop h = F.coords.getD h 0 :: F.coords.drop (h + 1) := by
      rw [List.drop_eq_getElem_cons hlt]
      simp [List.getD_eq_getElem?_getD, hlt]
    rw [scanN, hd, specFrom_cons, ih (h + 1) (by omega)]
    have hp : F.handleToPayload h = some h := by
      simp only [EFib.handleToPayload, hC]
      cases hnx : F.next with
      | none => rfl
      | some g =>
        cases g with
        | U => exact absurd hnx hnu
        | C => rfl
        | B => rfl
    simp only [hC, hp]
    rw [if_neg (by omega)]

/-- C above U: handle `h` maps to `occupancy_so_far + h` -/
theorem scanFrom_CU (F : EFib) (hC : F.fmt = .C) (hnu : F.next = some .U) (m h : Nat)
    (hm : h + m = F.coords.length) :
    scanFrom F F.coords.length h = cd_specFromB F.osf (F.coords.drop h) h := by
  have hsub : F.coords.length - h = m := by omega
  rw [scanFrom, hsub]
  clear hsub
  induction m generalizing h with
  | zero =>
    have : F.coords.drop h = [] := List.drop_eq_nil_of_le (by omega)
    simp [this, scanN, cd_specFromB]
  | succ m ih =>
    have hlt : h < F.coords.length := by omega
    have hd : F.coords.drop h = F.coords.getD h 0 :: F.coords.drop (h + 1) := by
      rw [List.drop_eq_getElem_cons hlt]
      simp [List.getD_eq_getElem?_getD, hlt]
    rw [scanN, hd, cd_specFromB_cons, ih (h + 1) (by omega)]
    have hp : F.handleToPayload h = some (F.osf + h) := by
      simp only [EFib.handleToPayload, hC, hnu]; rfl
    simp only [hC, hp]
    rw [if_neg (by omega)]

/-- positions (from `ch`) of the set bits -/
def maskCoordsFrom (ch : Nat) (bits : List Int) : List Int :=
  ((bits.zipIdx ch).filter (fun e => !decide (e.1 = 0))).map (fun e => (e.2 : Int))

theorem maskCoords_eq_from (bits : List Int) : maskCoords bits = maskCoordsFrom 0 bits := rfl

theorem maskCoordsFrom_cons (ch : Nat) (b : Int) (r : List Int) :
    maskCoordsFrom ch (b :: r) = if b = 0 then maskCoordsFrom (ch + 1) r else (ch : Int) :: maskCoordsFrom (ch + 1) r := by
  by_cases h : b = 0 <;> simp [maskCoordsFrom, List.zipIdx_cons, List.filter_cons, h]

/-- B: the set positions in order with a running payload handle, provided the payload list
    has exactly one entry per set bit -/
theorem scanBits_spec (F : EFib) (hB : F.fmt = .B) (bits : List Int) (h01 : ∀ b ∈ bits, b = 0 ∨ b = 1)
    (ch ph : Nat) (hcnt : ph + (maskCoordsFrom ch bits).length = F.npay) :
    scanBits F bits ch ph = specFrom (maskCoordsFrom ch bits) ph := by
  induction bits generalizing ch ph with
  | nil => simp [scanBits, maskCoordsFrom, specFrom]
  | cons b r ih =>
    have hr : ∀ x ∈ r, x = 0 ∨ x = 1 := fun x hx => h01 x (List.mem_cons_of_mem _ hx)
    rw [maskCoordsFrom_cons] at hcnt ⊢
    rcases h01 b (List.mem_cons_self ..) with hb | hb
    · subst hb
      simp only [if_true] at hcnt ⊢
      rw [scanBits]
      by_cases hge : ph ≥ F.npay
      · rw [if_pos hge]
        have : (maskCoordsFrom (ch + 1) r).length = 0 := by omega
        rw [List.length_eq_zero_iff.1 this]; rfl
      · rw [if_neg hge, if_neg (by decide)]
        exact ih hr (ch + 1) ph hcnt
    · subst hb
      simp only [show ¬ ((1 : Int) = 0) by decide, if_false, List.length_cons] at hcnt ⊢
      rw [scanBits, if_neg (by omega), if_pos rfl, specFrom_cons, ih hr (ch + 1) (ph + 1) (by omega)]
      simp only [EFib.handleToPayload, hB]
      rw [if_neg (by omega)]

theorem maskOf_01 (dim : Nat) (cs : List Int) : ∀ b ∈ maskOf dim cs, b = 0 ∨ b = 1 := by
  intro b hb
  simp only [maskOf, List.mem_map] at hb
  obtain ⟨i, _, rfl⟩ := hb
  by_cases h : cs.contains i = true
  · right; rw [if_pos h]
  · left; rw [if_neg h]

/-- the layout coordinates of an encoded fiber are the coordinates of its source elements -/
theorem layoutCoords_facts (F : EFib) (hF : FibFacts F) : F.layoutCoords = F.ecoords := by
  cases hf : F.fmt with
  | U => simp only [EFib.layoutCoords, hf]; exact (hF.dense hf).symm
  | C => simp only [EFib.layoutCoords, hf]; rw [hF.coords_eq, hf]; rfl
  | B =>
    simp only [EFib.layoutCoords, hf]
    rw [hF.coords_eq, hf]
    exact maskCoords_maskOf _ _ hF.inc hF.inrange

/-- scanning an encoded fiber through its handle interface yields its layout coordinates in
    order, the k-th with payload handle k — except for C above U -/
theorem cd_scan_facts_nonCU (F : EFib) (hF : FibFacts F) (hcu : ¬ (F.fmt = .C ∧ F.next = some .U)) :
    F.scan = F.scanSpec := by
  rw [scanSpec_eq, cd_payBase_zero F hcu, cd_specFromB_zero]
  cases hf : F.fmt with
  | U =>
    have hsh : F.n = F.shape := by rw [hF.n_eq, hF.dense hf]; simp [irange]
    have hnp : F.npay = F.shape := by
      rw [hF.npay_eq, hf]; exact hsh
    simp only [EFib.scan, EFib.layoutCoords, EFib.coordToHandle, hf]
    by_cases h0 : F.shape = 0
    · simp [h0, irange, specFrom]
    · have : ¬ ((0 : Int) < 0 ∨ (0 : Int) ≥ (F.shape : Int)) := by omega
      rw [if_neg this]
      simp only [Int.toNat_zero]
      rw [scanFrom_U F hf hnp F.shape 0 (by omega), irange_eq]
  | C =>
    have hnu : F.next ≠ some .U := fun h => hcu ⟨hf, h⟩
    have hc : F.coords = F.ecoords := by rw [hF.coords_eq, hf]; rfl
    simp only [EFib.scan, EFib.layoutCoords, EFib.coordToHandle, hf]
    rw [hc, c2hC_lowerHandle F.ecoords hF.inc 0]
    have hlb : (F.ecoords.takeWhile (fun c => decide (c < 0))).length = 0 := by
      apply takeWhile_length_unique _ _ _ (Nat.zero_le _)
      · intro i hi; omega
      · intro hlt
        have hmem : F.ecoords.getD 0 0 ∈ F.ecoords := by
          simp [List.getD_eq_getElem?_getD, hlt]
        have := (hF.inrange _ hmem).1
        omega
    simp only [lowerHandle, hlb]
    by_cases h0 : 0 < F.ecoords.length
    · rw [if_pos h0]
      have := scanFrom_C F hf hnu F.coords.length 0 (by omega)
      rw [hc] at this
      simpa using this
    · rw [if_neg h0]
      have : F.ecoords = [] := List.length_eq_zero_iff.1 (by omega)
      simp [this, specFrom]
  | B =>
    have hc : F.coords = maskOf F.shape F.ecoords := by rw [hF.coords_eq, hf]; rfl
    have hmc : maskCoords F.coords = F.ecoords := by rw [hc]; exact maskCoords_maskOf _ _ hF.inc hF.inrange
    have hnp : F.npay = F.n := by rw [hF.npay_eq, hf]
    simp only [EFib.scan, EFib.layoutCoords, hf]
    rw [maskCoords_eq_from]
    apply scanBits_spec F hf F.coords (by rw [hc]; exact maskOf_01 _ _) 0 0
    rw [← maskCoords_eq_from, hmc, hnp, hF.n_eq]; simp

/-- C above U: the k-th coordinate with payload `occupancy_so_far + k` -/
theorem scan_CU_facts (F : EFib) (hF : FibFacts F) (hf : F.fmt = .C) (hnu : F.next = some .U) :
    F.scan = F.scanSpec := by
  have hc : F.coords = F.ecoords := by rw [hF.coords_eq, hf]; rfl
  rw [scanSpec_eq, cd_payBase_CU F hf hnu, layoutCoords_facts F hF]
  simp only [EFib.scan, EFib.coordToHandle, hf]
  rw [hc, c2hC_lowerHandle F.ecoords hF.inc 0]
  have hlb : (F.ecoords.takeWhile (fun c => decide (c < 0))).length = 0 := by
    apply takeWhile_length_unique _ _ _ (Nat.zero_le _)
    · intro i hi; omega
    · intro hlt
      have hmem : F.ecoords.getD 0 0 ∈ F.ecoords := by
        simp [List.getD_eq_getElem?_getD, hlt]
      have := (hF.inrange _ hmem).1
      omega
  simp only [lowerHandle, hlb]
  by_cases h0 : 0 < F.ecoords.length
  · rw [if_pos h0]
    have := scanFrom_CU F hf hnu F.coords.length 0 (by omega)
    rw [hc] at this
    simpa using this
  · rw [if_neg h0]
    have : F.ecoords = [] := List.length_eq_zero_iff.1 (by omega)
    simp [this, cd_specFromB]

/-- scanning an encoded fiber through its handle interface yields its layout coordinates in
    order, the k-th with payload handle `payBase + k` -/
theorem scan_facts (F : EFib) (hF : FibFacts F) : F.scan = F.scanSpec := by
  by_cases hcu : F.fmt = .C ∧ F.next = some .U
  · exact scan_CU_facts F hF hcu.1 hcu.2
  · exact cd_scan_facts_nonCU F hF hcu

theorem mem_zipIdx_lt {α : Type} (l : List α) (e : α × Nat) (h : e ∈ l.zipIdx) : e.2 < l.length := by
  have := List.mem_zipIdx h
  omega

/-- … and with every payload handle resolved (leaf: `payloadToValue`, above: the child fiber
    it designates) the scan yields the fiber's elements; for C above U this needs that the
    fiber's `occupancy_so_far` is the next-rank position of its first child -/
theorem scanElems_facts (F : EFib) (hF : FibFacts F)
    (hosf : F.fmt = .C → F.next = some .U → F.osf = F.kid0) :
    F.scanElems = F.elemsSpec := by
  simp only [EFib.scanElems, scan_facts F hF, EFib.scanSpec, layoutCoords_facts F hF, EFib.elemsSpec,
    List.map_map]
  apply List.map_congr_left
  intro e he
  have hk : e.2 < F.n := by rw [hF.n_eq]; exact mem_zipIdx_lt _ _ he
  simp only [Function.comp, EFib.resolve]
  by_cases hcu : F.fmt = .C ∧ F.next = some .U
  · rw [cd_payBase_CU F hcu.1 hcu.2, hcu.2]
    simp [hcu.1, hosf hcu.1 hcu.2]
  · rw [cd_payBase_zero F hcu, Nat.zero_add]
    cases hnx : F.next with
    | none =>
      have hnp : F.npay = F.n := by
        rw [hF.npay_eq, hnx]; cases F.fmt <;> rfl
      simp only [hnp]
      rw [if_neg (by omega)]
    | some g =>
      have hnp : F.npay = F.n := by
        rw [hF.npay_eq, hnx]
        cases hf : F.fmt with
        | U => rfl
        | B => rfl
        | C =>
          cases g with
          | U => exact absurd ⟨hf, hnx⟩ hcu
          | C => rfl
          | B => rfl
      simp only [hnp]
      have hne : ¬ (F.fmt = .C ∧ g = .U) := by
        intro h; exact hcu ⟨h.1, by rw [hnx, h.2]⟩
      rw [if_neg hne, if_pos hk]

/-! ### rank counters: occupancy_so_far is the position of the first child -/

/-- the rank counters are consistent: below a C or B rank every element owns exactly one fiber
    of the next rank, so the elements counted so far (`occupancy_so_far` of the next fiber) are
    the fibers of the next rank counted so far -/
def cd_CntInv : List Fmt → Cnt → Prop
  | [], _ => True
  | [_], _ => True
  | f :: g :: fs, cnt =>
    (f ≠ .U → (cnt.headD (0, 0)).2 = (cnt.tail.headD (0, 0)).1) ∧ cd_CntInv (g :: fs) cnt.tail

/-- `occupancy_so_far` of a non-leaf C/B fiber is the next-rank position of its first child -/
def cd_OsfFact (F : EFib) : Prop := F.fmt ≠ .U → F.next ≠ none → F.osf = F.kid0

theorem cd_CntInv_replicate : ∀ (fs : List Fmt) (n : Nat), cd_CntInv fs (List.replicate n (0, 0))
  | [], _ => trivial
  | [_], _ => trivial
  | f :: g :: fs, n => by
    refine ⟨?_, ?_⟩
    · intro _
      cases n with
      | zero => rfl
      | succ n => cases n <;> rfl
    · cases n with
      | zero => exact cd_CntInv_replicate (g :: fs) 0
      | succ n => exact cd_CntInv_replicate (g :: fs) n

theorem cd_encKids_inv {α : Type} (I : Cnt → Prop) (P : EFib → Prop) (k : Nat) (enc1 : Cnt → α → Res)
    (h1 : ∀ cnt x, I cnt → I (enc1 cnt x).cnt ∧
        ((enc1 cnt x).cnt.headD (0, 0)).1 = (cnt.headD (0, 0)).1 + 1 ∧
        ∀ F ∈ (enc1 cnt x).fibs.flatten, P F)
    (xs : List α) (cnt : Cnt) (cum : Nat) (hI : I cnt) :
    I (encKids k enc1 xs cnt cum).cnt ∧
    ((encKids k enc1 xs cnt cum).cnt.headD (0, 0)).1 = (cnt.headD (0, 0)).1 + xs.length ∧
    ∀ F ∈ (encKids k enc1 xs cnt cum).fibs.flatten, P F := by
  induction xs generalizing cnt cum with
  | nil => refine ⟨hI, rfl, ?_⟩; intro F hF; simp [encKids] at hF
  | cons x xs ih =>
    obtain ⟨h1a, h1b, h1c⟩ := h1 cnt x hI
    obtain ⟨iha, ihb, ihc⟩ := ih (enc1 cnt x).cnt (cum + (enc1 cnt x).occ) h1a
    refine ⟨iha, ?_, ?_⟩
    · show ((encKids k enc1 xs (enc1 cnt x).cnt (cum + (enc1 cnt x).occ)).cnt.headD (0, 0)).1 = _
      rw [ihb, h1b, List.length_cons]; omega
    · intro F hF
      simp only [encKids] at hF
      rcases mem_flatten_zipApp _ _ F hF with h | h
      · exact h1c F h
      · exact ihc F h

theorem cd_encF_zero_cnt (f : Fmt) (fs' : List Fmt) (tsh : List Nat) (ish : Option (List Nat)) (pidx : Nat) (cnt : Cnt)
    (a : List (Int × Int)) :
    ((encF hu dflt 0 (f :: fs') tsh ish pidx cnt a).cnt.headD (0, 0)).1 = (cnt.headD (0, 0)).1 + 1 := rfl

theorem cd_encF_succ_cnt (d : Nat) (f : Fmt) (fs' : List Fmt) (tsh : List Nat) (ish : Option (List Nat))
    (pidx : Nat) (cnt : Cnt) (a : List (Int × Tree Int Int (d + 1))) :
    (encF hu dflt (d + 1) (f :: fs') tsh ish pidx cnt a).cnt =
      ((cnt.headD (0, 0)).1 + 1,
       (cnt.headD (0, 0)).2 + (match f with
         | .U => pidx
         | _ => (elemsOf f (hu (d + 1)) (dimOf tsh ish) (tsh.headD 0) (emptyT d) (isEmpty (κ := Int) dflt (d + 1)) a).length)) ::
      (encKids (d + 1) (encF hu dflt d fs' tsh.tail (ishNext f ish) (cnt.headD (0, 0)).1)
        ((elemsOf f (hu (d + 1)) (dimOf tsh ish) (tsh.headD 0) (emptyT d) (isEmpty (κ := Int) dflt (d + 1)) a).map (·.2)) cnt.tail 0).cnt := rfl

/-- the encoder keeps the rank counters consistent, advances its own rank's fiber count by one,
    and every fiber object it creates has its `occupancy_so_far` equal to its first child's position -/
theorem cd_encF_cnt (d : Nat) : ∀ (fs : List Fmt) (tsh : List Nat) (ish : Option (List Nat)) (pidx : Nat) (cnt : Cnt)
    (a : List (Int × Tree Int Int d)), fs.length = d + 1 → cd_CntInv fs cnt →
    cd_CntInv fs (encF hu dflt d fs tsh ish pidx cnt a).cnt ∧
    ((encF hu dflt d fs tsh ish pidx cnt a).cnt.headD (0, 0)).1 = (cnt.headD (0, 0)).1 + 1 ∧
    ∀ F ∈ (encF hu dflt d fs tsh ish pidx cnt a).fibs.flatten, cd_OsfFact F := by
  induction d with
  | zero =>
    intro fs tsh ish pidx cnt a hfs hI
    match fs, hfs with
    | [f], _ =>
    have key : ∀ (a : List (Int × Int)),
        cd_CntInv [f] (encF hu dflt 0 [f] tsh ish pidx cnt a).cnt ∧
        ((encF hu dflt 0 [f] tsh ish pidx cnt a).cnt.headD (0, 0)).1 = (cnt.headD (0, 0)).1 + 1 ∧
        ∀ F ∈ (encF hu dflt 0 [f] tsh ish pidx cnt a).fibs.flatten, cd_OsfFact F := by
      intro a
      refine ⟨trivial, rfl, ?_⟩
      intro F hF
      rw [encF_zero_fibs] at hF
      simp only [List.flatten_cons, List.flatten_nil, List.append_nil, List.mem_singleton] at hF
      subst hF
      intro _ h; exact absurd rfl h
    exact key a
  | succ d ih =>
    intro fs tsh ish pidx cnt a hfs hI
    match fs, hfs with
    | f :: g :: fs'', hfs' =>
    have hfs'' : (g :: fs'').length = d + 1 := by simpa using hfs'
    obtain ⟨hI1, hI2⟩ := hI
    obtain ⟨els, hels⟩ : ∃ els, els = elemsOf f (hu (d + 1)) (dimOf tsh ish) (tsh.headD 0) (emptyT d) (isEmpty (κ := Int) dflt (d + 1)) a := ⟨_, rfl⟩
    have hK := cd_encKids_inv (cd_CntInv (g :: fs'')) cd_OsfFact (d + 1)
      (encF hu dflt d (g :: fs'') tsh.tail (ishNext f ish) (cnt.headD (0, 0)).1)
      (fun c x hc => ih (g :: fs'') tsh.tail (ishNext f ish) _ c x hfs'' hc)
      (els.map (·.2)) cnt.tail 0 hI2
    obtain ⟨hKa, hKb, hKc⟩ := hK
    rw [cd_encF_succ_cnt, encF_succ_fibs, ← hels]
    refine ⟨⟨?_, hKa⟩, rfl, ?_⟩
    · intro hne
      show (cnt.headD (0, 0)).2 + _ = _
      simp only [List.tail_cons, List.headD_cons] at hKb ⊢
      rw [hKb, hI1 hne, List.length_map]
    · intro F hF
      rw [List.flatten_cons, List.mem_append] at hF
      rcases hF with hF | hF
      · simp only [List.mem_singleton] at hF
        subst hF
        intro hne _
        exact hI1 hne
      · exact hKc F hF


/-! ### depth-first walk through the rank lists -/

theorem cd_encKids_fibs_len {α : Type} (k : Nat) (enc1 : Cnt → α → Res)
    (hlen : ∀ cnt x, (enc1 cnt x).fibs.length = k) (xs : List α) (cnt : Cnt) (cum : Nat) :
    (encKids k enc1 xs cnt cum).fibs.length = k := by
  induction xs generalizing cnt cum with
  | nil => simp [encKids]
  | cons x xs ih => simp only [encKids, length_zipApp, hlen cnt x, ih, Nat.min_self]

theorem cd_encF_fibs_len (d : Nat) : ∀ (fs : List Fmt) (tsh : List Nat) (ish : Option (List Nat)) (pidx : Nat) (cnt : Cnt)
    (a : Tree Int Int (d + 1)), (encF hu dflt d fs tsh ish pidx cnt a).fibs.length = d + 1 := by
  induction d with
  | zero => intro fs tsh ish pidx cnt a; simp [encF]
  | succ d ih =>
    intro fs tsh ish pidx cnt a
    simp only [encF, List.length_cons]
    exact congrArg (· + 1) (cd_encKids_fibs_len (d + 1) _ (fun c x => ih _ _ _ _ c x) _ _ _)

/-- the fiber counters are the lengths of the rank lists built so far -/
def cd_lenOK : Cnt → List (List EFib) → Prop
  | _, [] => True
  | cnt, p :: ps => (cnt.headD (0, 0)).1 = p.length ∧ cd_lenOK cnt.tail ps

theorem cd_encKids_lenOK {α : Type} (k : Nat) (enc1 : Cnt → α → Res)
    (hlen : ∀ cnt x, (enc1 cnt x).fibs.length = k)
    (h1 : ∀ cnt x (pre : List (List EFib)), pre.length = k → cd_lenOK cnt pre →
        cd_lenOK (enc1 cnt x).cnt (zipApp pre (enc1 cnt x).fibs))
    (xs : List α) (cnt : Cnt) (cum : Nat) (pre : List (List EFib)) (hpre : pre.length = k)
    (hok : cd_lenOK cnt pre) :
    cd_lenOK (encKids k enc1 xs cnt cum).cnt (zipApp pre (encKids k enc1 xs cnt cum).fibs) := by
  induction xs generalizing cnt cum pre with
  | nil =>
    simp only [encKids]
    rw [zipApp_replicate_nil_right k pre hpre]; exact hok
  | cons x xs ih =>
    simp only [encKids]
    rw [← zipApp_assoc]
    exact ih _ _ _ (by rw [length_zipApp, hpre, hlen, Nat.min_self]) (h1 cnt x pre hpre hok)

theorem cd_encF_lenOK (d : Nat) : ∀ (fs : List Fmt) (tsh : List Nat) (ish : Option (List Nat)) (pidx : Nat) (cnt : Cnt)
    (a : Tree Int Int (d + 1)) (pre : List (List EFib)), pre.length = d + 1 → cd_lenOK cnt pre →
    cd_lenOK (encF hu dflt d fs tsh ish pidx cnt a).cnt (zipApp pre (encF hu dflt d fs tsh ish pidx cnt a).fibs) := by
  induction d with
  | zero =>
    intro fs tsh ish pidx cnt a pre hpre hok
    match pre, hpre with
    | [p0], _ =>
    simp only [encF, zipApp_cons, zipApp_nil_left]
    refine ⟨?_, trivial⟩
    simp only [List.headD_cons, List.length_append, List.length_singleton]
    rw [hok.1]
  | succ d ih =>
    intro fs tsh ish pidx cnt a pre hpre hok
    match pre, hpre with
    | p0 :: pre', hpre' =>
    have hpre'' : pre'.length = d + 1 := by simpa using hpre'
    simp only [encF, zipApp_cons]
    refine ⟨?_, ?_⟩
    · simp only [List.headD_cons, List.length_append, List.length_singleton]
      rw [hok.1]
    · simp only [List.tail_cons]
      exact cd_encKids_lenOK (d + 1) _ (fun c x => cd_encF_fibs_len d _ _ _ _ c x)
        (fun c x pr hp ho => ih _ _ _ _ c x pr hp ho) _ _ _ pre' hpre'' hok.2


theorem cd_walk_kids {α : Type} (k : Nat) (enc1 : Cnt → α → Res) (cont1 : α → Content) (Q : α → Prop)
    (I : Cnt → Prop)
    (hlen : ∀ cnt x, (enc1 cnt x).fibs.length = k)
    (hI : ∀ cnt x, I cnt → I (enc1 cnt x).cnt ∧
        ((enc1 cnt x).cnt.headD (0, 0)).1 = (cnt.headD (0, 0)).1 + 1)
    (hlo : ∀ cnt x (pre : List (List EFib)), pre.length = k → cd_lenOK cnt pre →
        cd_lenOK (enc1 cnt x).cnt (zipApp pre (enc1 cnt x).fibs))
    (hw : ∀ x, Q x → ∀ (cnt : Cnt) (pre post : List (List EFib)), pre.length = k → post.length = k →
        cd_lenOK cnt pre → I cnt →
        walkM dflt (zipApp pre (zipApp (enc1 cnt x).fibs post)) (cnt.headD (0, 0)).1 = cont1 x)
    (xs : List α) (hQ : ∀ x ∈ xs, Q x) (cnt : Cnt) (cum : Nat) (pre post : List (List EFib))
    (hpre : pre.length = k) (hpost : post.length = k) (hok : cd_lenOK cnt pre) (hIc : I cnt) :
    ∀ (j : Nat) (hj : j < xs.length),
      walkM dflt (zipApp pre (zipApp (encKids k enc1 xs cnt cum).fibs post)) ((cnt.headD (0, 0)).1 + j)
        = cont1 (xs[j]) := by
  induction xs generalizing cnt cum pre with
  | nil => intro j hj; simp at hj
  | cons x xs ih =>
    intro j hj
    have hKl := cd_encKids_fibs_len k enc1 hlen xs (enc1 cnt x).cnt (cum + (enc1 cnt x).occ)
    simp only [encKids]
    cases j with
    | zero =>
      rw [zipApp_assoc]
      simp only [Nat.add_zero, List.getElem_cons_zero]
      exact hw x (hQ x (List.mem_cons_self ..)) cnt pre _ hpre
        (by rw [length_zipApp, hKl, hpost, Nat.min_self]) hok hIc
    | succ j =>
      rw [zipApp_assoc, ← zipApp_assoc pre]
      have hI' := hI cnt x hIc
      have := ih (fun y hy => hQ y (List.mem_cons_of_mem _ hy)) (enc1 cnt x).cnt (cum + (enc1 cnt x).occ)
        (zipApp pre (enc1 cnt x).fibs) (by rw [length_zipApp, hpre, hlen, Nat.min_self])
        (hlo cnt x pre hpre hok) hI'.1 j (by simpa using hj)
      rw [hI'.2] at this
      simp only [List.getElem_cons_succ]
      rw [← this]
      congr 1
      omega

theorem cd_zipIdx_flatMap {α : Type} (els : List (Int × α)) (W : Nat → Content) (cont1 : α → Content) (k0 : Nat)
    (hW : ∀ (j : Nat) (hj : j < els.length), W (k0 + j) = cont1 (els[j]).2) :
    ((els.map (·.1)).zipIdx k0).flatMap (fun e => (W e.2).map (pre e.1))
      = els.flatMap (fun e => (cont1 e.2).map (pre e.1)) := by
  induction els generalizing k0 with
  | nil => rfl
  | cons e els ih =>
    simp only [List.map_cons, List.zipIdx_cons, List.flatMap_cons]
    have h0 := hW 0 (by simp)
    simp only [Nat.add_zero, List.getElem_cons_zero] at h0
    rw [h0, ih (k0 + 1)]
    intro j hj
    have := hW (j + 1) (by simpa using hj)
    simp only [List.getElem_cons_succ] at this
    rw [← this]; congr 1; omega

theorem cd_zipIdx_vals (front els : List (Int × Int)) :
    ((els.map (·.1)).zipIdx front.length).map
        (fun e => ((some e.1 : Option Int), (some (((front ++ els).map (·.2)).getD e.2 0) : Option Int)))
      = els.map (fun e => (some e.1, some e.2)) := by
  induction els generalizing front with
  | nil => rfl
  | cons e els ih =>
    simp only [List.map_cons, List.zipIdx_cons]
    have := ih (front ++ [e])
    simp only [List.length_append, List.length_singleton, List.append_assoc, List.singleton_append] at this
    rw [this]
    congr 1
    simp [List.getD_eq_getElem?_getD]

theorem cd_getD_mid (p0 q0 : List EFib) (F : EFib) : (p0 ++ ([F] ++ q0)).getD p0.length default = F := by
  simp [List.getD_eq_getElem?_getD]


theorem cd_walk_encF_zero (fs : List Fmt) (tsh : List Nat) (ish : Option (List Nat)) (pidx : Nat) (cnt : Cnt)
    (a : List (Int × Int)) (pre post : List (List EFib))
    (hfs : fs.length = 1) (hwf : wfB (κ := Int) (ν := Int) 1 a = true) (hin : inShape 1 tsh a = true) (hdims : dimsOK fs tsh ish = true)
    (hok : cd_lenOK cnt pre) (hpre : pre.length = 1) (hpost : post.length = 1) :
    walkM dflt (zipApp pre (zipApp (encF hu dflt 0 fs tsh ish pidx cnt a).fibs post)) (cnt.headD (0, 0)).1
      = content (κ := Int) (ν := Int) dflt 1 a := by
  match fs, hfs with
  | [f], _ =>
  match pre, hpre with
  | [p0], _ =>
  match post, hpost with
  | [q0], _ =>
  have hfacts := encF_fibs_facts_zero (hu := hu) (dflt := dflt) [f] tsh ish pidx cnt a rfl hwf hin hdims
  have hwf2 : (sortedB a && a.all (fun e => wfB (κ := Int) (ν := Int) 0 e.2)) = true := hwf
  rw [Bool.and_eq_true] at hwf2
  have hs : Sorted a := (sortedB_iff _).1 hwf2.1
  obtain ⟨htd, _, hin', _⟩ := cd_level_facts 0 f [] tsh ish a hin hdims
  obtain ⟨els, hels⟩ : ∃ els, els = elemsOf f (hu 0) (dimOf tsh ish) (tsh.headD 0) dflt (fun v => decide (v = dflt)) a := ⟨_, rfl⟩
  obtain ⟨F, hfibs, hnext, hv, hc⟩ : ∃ F : EFib, (encF hu dflt 0 [f] tsh ish pidx cnt a).fibs = [[F]] ∧ F.next = none ∧
      F.vals = els.map (·.2) ∧ F.ecoords = els.map (·.1) :=
    ⟨_, encF_zero_fibs f [] tsh ish pidx cnt a, rfl, by rw [hels], by rw [hels]⟩
  rw [hfibs] at hfacts ⊢
  have hF : FibFacts F := hfacts F (by simp)
  have hse : F.scanElems = F.elemsSpec := scanElems_facts F hF (by intro _ h; rw [hnext] at h; cases h)
  simp only [zipApp_cons, zipApp_nil_left, walkM]
  rw [hok.1, cd_getD_mid, hse]
  simp only [EFib.elemsSpec, hnext]
  rw [hv, hc]
  have hz := cd_zipIdx_vals [] els
  simp only [List.length_nil, List.nil_append] at hz
  rw [hz, List.flatMap_map]
  have hleaf : (els.flatMap fun e => if e.2 = dflt then [] else [([e.1], e.2)])
      = els.flatMap (fun e => (content (κ := Int) (ν := Int) dflt 0 e.2).map (Codec.pre e.1)) := by
    congr 1
    funext e
    by_cases h : e.2 = dflt <;> simp [content, h, Codec.pre]
  simp only []
  rw [hleaf, hels]
  have hd : ∀ c : Int, (content (κ := Int) (ν := Int) dflt 0 dflt).map (Codec.pre c) = [] := by
    intro c; simp [content]
  have hE : ∀ (c : Int) (x : Int), (fun v : Int => decide (v = dflt)) x = true →
      (content (κ := Int) (ν := Int) dflt 0 x).map (Codec.pre c) = [] := by
    intro c x hx
    have : x = dflt := by simpa using hx
    subst this; exact hd c
  rw [flatMap_elemsOf (fun c (v : Int) => (content (κ := Int) (ν := Int) dflt 0 v).map (Codec.pre c)) f _ (dimOf tsh ish)
        _ dflt _ hd hE a hs htd hin']
  rfl


/-- a depth-first walk through the rank lists, started at the position the encoder's counters
    point to, reads back the content of the sub-tree that was encoded there -/
theorem cd_walk_encF (d : Nat) : ∀ (fs : List Fmt) (tsh : List Nat) (ish : Option (List Nat)) (pidx : Nat) (cnt : Cnt)
    (a : List (Int × Tree Int Int d)) (pr po : List (List EFib)),
    fs.length = d + 1 → wfB (κ := Int) (ν := Int) (d + 1) a = true → inShape (d + 1) tsh a = true →
    dimsOK fs tsh ish = true →
    cd_CntInv fs cnt → cd_lenOK cnt pr → pr.length = d + 1 → po.length = d + 1 →
    walkM dflt (zipApp pr (zipApp (encF hu dflt d fs tsh ish pidx cnt a).fibs po)) (cnt.headD (0, 0)).1
      = content (κ := Int) (ν := Int) dflt (d + 1) a := by
  induction d with
  | zero =>
    intro fs tsh ish pidx cnt a pr po hfs hwf hin hdims _ hok hpr hpo
    exact cd_walk_encF_zero fs tsh ish pidx cnt a pr po hfs hwf hin hdims hok hpr hpo
  | succ d ih =>
    intro fs tsh ish pidx cnt a pr po hfs hwf hin hdims hinv hok hpr hpo
    match fs, hfs with
    | f :: g :: fs'', hfs' =>
    match pr, hpr with
    | p0 :: pr', hpr' =>
    match po, hpo with
    | q0 :: po', hpo' =>
    have hfs'' : (g :: fs'').length = d + 1 := by simpa using hfs'
    have hpr'' : pr'.length = d + 1 := by simpa using hpr'
    have hpo'' : po'.length = d + 1 := by simpa using hpo'
    have hfacts := encF_fibs_facts (hu := hu) (dflt := dflt) (d + 1) (f :: g :: fs'') tsh ish pidx cnt a hfs' hwf hin hdims
    have hosfs := (cd_encF_cnt (hu := hu) (dflt := dflt) (d + 1) (f :: g :: fs'') tsh ish pidx cnt a hfs' hinv).2.2
    have hwf2 : (sortedB a && a.all (fun e => wfB (κ := Int) (ν := Int) (d + 1) e.2)) = true := hwf
    rw [Bool.and_eq_true, List.all_eq_true] at hwf2
    have hs : Sorted a := (sortedB_iff _).1 hwf2.1
    obtain ⟨htd, hdk, hin', hkin⟩ := cd_level_facts (d + 1) f (g :: fs'') tsh ish a hin hdims
    obtain ⟨els, hels⟩ : ∃ els, els = elemsOf f (hu (d + 1)) (dimOf tsh ish) (tsh.headD 0) (emptyT d) (isEmpty (κ := Int) dflt (d + 1)) a := ⟨_, rfl⟩
    have hQ : ∀ x ∈ els.map (·.2), wfB (κ := Int) (ν := Int) (d + 1) x = true ∧
        inShape (d + 1) tsh.tail x = true := by
      intro x hx
      obtain ⟨e, he, rfl⟩ := List.mem_map.1 hx
      rw [hels] at he
      rcases elemsOf_payload _ _ _ _ _ _ _ e he with h | ⟨e', he', h⟩
      · rw [h]; constructor <;> rfl
      · rw [← h]
        refine ⟨hwf2.2 e' he', ?_⟩
        exact hkin e' he'
    obtain ⟨K, hK⟩ : ∃ K, K = encKids (d + 1) (encF hu dflt d (g :: fs'') tsh.tail (ishNext f ish) (cnt.headD (0, 0)).1)
        (els.map (·.2)) cnt.tail 0 := ⟨_, rfl⟩
    obtain ⟨F, hfibs, hnext, hc, hk0⟩ : ∃ F : EFib, (encF hu dflt (d + 1) (f :: g :: fs'') tsh ish pidx cnt a).fibs = [F] :: K.fibs ∧
        F.next = some g ∧ F.ecoords = els.map (·.1) ∧ F.kid0 = (cnt.tail.headD (0, 0)).1 :=
      ⟨_, by rw [hK, hels]; exact encF_succ_fibs d f (g :: fs'') tsh ish pidx cnt a, rfl, by rw [hels], rfl⟩
    rw [hfibs] at hfacts hosfs ⊢
    have hF : FibFacts F := hfacts F (by simp)
    have hse : F.scanElems = F.elemsSpec := scanElems_facts F hF (by
      intro hC hU
      exact hosfs F (by simp) (by rw [hC]; decide) (by rw [hU]; exact Option.some_ne_none _))
    have hkids := cd_walk_kids (d + 1) (encF hu dflt d (g :: fs'') tsh.tail (ishNext f ish) (cnt.headD (0, 0)).1)
      (fun x => content (κ := Int) (ν := Int) dflt (d + 1) x)
      (fun x => wfB (κ := Int) (ν := Int) (d + 1) x = true ∧ inShape (d + 1) tsh.tail x = true)
      (cd_CntInv (g :: fs''))
      (fun c x => cd_encF_fibs_len d _ _ _ _ c x)
      (fun c x hc => ⟨(cd_encF_cnt d (g :: fs'') tsh.tail (ishNext f ish) _ c x hfs'' hc).1,
                      (cd_encF_cnt d (g :: fs'') tsh.tail (ishNext f ish) _ c x hfs'' hc).2.1⟩)
      (fun c x p hp ho => cd_encF_lenOK d _ _ _ _ c x p hp ho)
      (fun x hx c p q hp hq ho hc => ih (g :: fs'') tsh.tail (ishNext f ish) _ c x p q hfs'' hx.1 hx.2 hdk hc ho hp hq)
      (els.map (·.2)) hQ cnt.tail 0 pr' po' hpr'' hpo'' hok.2 hinv.2
    rw [← hK] at hkids
    simp only [zipApp_cons, walkM]
    rw [hok.1, cd_getD_mid, hse]
    simp only [EFib.elemsSpec, hnext, hc, hk0, List.flatMap_map]
    have hcont : els.flatMap (fun e => (content (κ := Int) (ν := Int) dflt (d + 1) e.2).map (Codec.pre e.1))
        = content (κ := Int) (ν := Int) dflt (d + 1 + 1) a := by
      rw [hels]
      show _ = a.flatMap (fun e => (content (κ := Int) (ν := Int) dflt (d + 1) e.2).map (Codec.pre e.1))
      exact flatMap_elemsOf (fun c (x : Tree Int Int (d + 1)) => (content (κ := Int) (ν := Int) dflt (d + 1) x).map (Codec.pre c))
        f _ (dimOf tsh ish) _ (emptyT d) _ (by intro c; rfl)
        (by intro c x hx; rw [content_of_isEmpty (d + 1) x hx]; rfl) a hs htd hin'
    rw [← hcont]
    have := cd_zipIdx_flatMap els
      (fun j => walkM dflt (zipApp pr' (zipApp K.fibs po')) ((cnt.tail.headD (0, 0)).1 + j))
      (fun x => content (κ := Int) (ν := Int) dflt (d + 1) x) 0
      (by
        intro j hj
        have := hkids j (by simpa using hj)
        simp only [Nat.zero_add]
        rw [this]; simp)
    rw [← this]
    simp only [Int.toNat_natCast]
    rfl


theorem cd_lenOK_replicate : ∀ (n m : Nat), cd_lenOK (List.replicate n (0, 0)) (List.replicate m [])
  | _, 0 => trivial
  | n, m + 1 => by
    refine ⟨?_, ?_⟩
    · cases n <;> rfl
    · cases n with
      | zero => exact cd_lenOK_replicate 0 m
      | succ n => exact cd_lenOK_replicate n m


/-! ### slices that start at a coordinate b -/

/-- number of leading coordinates below `b` -/
def cd_lb (l : List Int) (b : Int) : Nat := (l.takeWhile (fun c => decide (c < b))).length

theorem cd_lb_cons (c : Int) (r : List Int) (b : Int) :
    cd_lb (c :: r) b = if c < b then cd_lb r b + 1 else 0 := by
  unfold cd_lb
  by_cases h : c < b <;> simp [List.takeWhile_cons, h]

theorem cd_inc_tail {c : Int} {r : List Int} (h : Inc (c :: r)) : Inc r := (List.pairwise_cons.1 h).2
theorem cd_inc_head {c : Int} {r : List Int} (h : Inc (c :: r)) : ∀ x ∈ r, c < x := (List.pairwise_cons.1 h).1

/-- on a strictly increasing list, keeping the coordinates `≥ b` drops exactly the first `cd_lb` ones -/
theorem cd_filter_zipIdx (l : List Int) (hinc : Inc l) (b : Int) (k0 : Nat) :
    (l.zipIdx k0).filter (fun e => decide (b ≤ e.1)) = (l.drop (cd_lb l b)).zipIdx (k0 + cd_lb l b) := by
  induction l generalizing k0 with
  | nil => simp [cd_lb]
  | cons c r ih =>
    rw [cd_lb_cons]
    by_cases h : c < b
    · rw [if_pos h, List.zipIdx_cons, List.filter_cons, if_neg (by simp; omega), ih (cd_inc_tail hinc) (k0 + 1)]
      simp only [List.drop_succ_cons]
      congr 1; omega
    · rw [if_neg h]
      simp only [List.drop_zero, Nat.add_zero]
      rw [List.filter_eq_self]
      intro e he
      have hm := List.mem_zipIdx he
      have hmem : e.1 ∈ c :: r := by
        have := hm.2.2
        rw [this]; exact List.getElem_mem _
      rcases List.mem_cons.1 hmem with h1 | h1
      · simp; omega
      · have := cd_inc_head hinc _ h1; simp; omega

theorem cd_drop_lb_ge (l : List Int) (hinc : Inc l) (b : Int) : ∀ x ∈ l.drop (cd_lb l b), b ≤ x := by
  induction l with
  | nil => intro x hx; simp at hx
  | cons c r ih =>
    intro x hx
    rw [cd_lb_cons] at hx
    by_cases h : c < b
    · rw [if_pos h, List.drop_succ_cons] at hx; exact ih (cd_inc_tail hinc) x hx
    · rw [if_neg h, List.drop_zero] at hx
      rcases List.mem_cons.1 hx with h1 | h1
      · omega
      · have := cd_inc_head hinc _ h1; omega

theorem cd_take_lb_lt (l : List Int) (b : Int) : ∀ x ∈ l.take (cd_lb l b), x < b := by
  induction l with
  | nil => intro x hx; simp at hx
  | cons c r ih =>
    intro x hx
    rw [cd_lb_cons] at hx
    by_cases h : c < b
    · rw [if_pos h, List.take_succ_cons] at hx
      rcases List.mem_cons.1 hx with h1 | h1
      · omega
      · exact ih x h1
    · rw [if_neg h] at hx; simp at hx

theorem cd_lb_le (l : List Int) (b : Int) : cd_lb l b ≤ l.length := by
  induction l with
  | nil => simp [cd_lb]
  | cons c r ih =>
    rw [cd_lb_cons]
    by_cases h : c < b
    · rw [if_pos h]; simp; omega
    · rw [if_neg h]; simp

theorem cd_posFrom_drop (lo m k : Nat) (hk : k ≤ m) : (posFrom lo m).drop k = posFrom (lo + k) (m - k) := by
  induction k generalizing lo m with
  | zero => simp
  | succ k ih =>
    cases m with
    | zero => omega
    | succ m =>
      rw [posFrom_succ, List.drop_succ_cons, ih (lo + 1) m (by omega)]
      congr 1 <;> omega

theorem cd_lb_posFrom (lo m : Nat) (b : Nat) (hb1 : lo ≤ b) (hb2 : b ≤ lo + m) :
    cd_lb (posFrom lo m) (b : Int) = b - lo := by
  induction m generalizing lo with
  | zero => simp [posFrom_zero, cd_lb]; omega
  | succ m ih =>
    rw [posFrom_succ, cd_lb_cons]
    by_cases h : (lo : Int) < (b : Int)
    · rw [if_pos h, ih (lo + 1) (by omega) (by omega)]; omega
    · rw [if_neg h]; omega


theorem cd_scanBase_U (F : EFib) (hF : FibFacts F) (hf : F.fmt = .U) (b : Nat) (hb : b ≤ F.shape) :
    F.scanBase b = cd_specFromB F.payBase (F.ecoords.drop (cd_lb F.ecoords b)) (cd_lb F.ecoords b) := by
  have hsh : F.n = F.shape := by rw [hF.n_eq, hF.dense hf]; simp [irange]
  have hnp : F.npay = F.shape := by rw [hF.npay_eq, hf]; exact hsh
  have hcu : ¬ (F.fmt = .C ∧ F.next = some .U) := by rw [hf]; intro h; cases h.1
  rw [cd_payBase_zero F hcu, cd_specFromB_zero, hF.dense hf, irange_eq,
    cd_lb_posFrom 0 F.shape b (Nat.zero_le _) (by omega), cd_posFrom_drop 0 F.shape (b - 0) (by omega)]
  simp only [EFib.scanBase, EFib.coordToHandle, hf, Nat.sub_zero, Nat.zero_add]
  by_cases hlt : b < F.shape
  · have : ¬ (((b : Nat) : Int) < 0 ∨ ((b : Nat) : Int) ≥ (F.shape : Int)) := by omega
    rw [if_neg this]
    simp only [Int.toNat_natCast]
    exact scanFrom_U F hf hnp (F.shape - b) b (by omega)
  · have hbe : b = F.shape := by omega
    have : (((b : Nat) : Int) < 0 ∨ ((b : Nat) : Int) ≥ (F.shape : Int)) := by omega
    rw [if_pos this, hbe, Nat.sub_self, posFrom_zero]
    rfl

theorem cd_scanBase_C (F : EFib) (hF : FibFacts F) (hf : F.fmt = .C) (b : Nat) :
    F.scanBase b = cd_specFromB F.payBase (F.ecoords.drop (cd_lb F.ecoords b)) (cd_lb F.ecoords b) := by
  have hc : F.coords = F.ecoords := by rw [hF.coords_eq, hf]; rfl
  simp only [EFib.scanBase, EFib.coordToHandle, hf]
  rw [hc, c2hC_lowerHandle F.ecoords hF.inc b]
  show (match (if cd_lb F.ecoords b < F.ecoords.length then some (cd_lb F.ecoords b) else none) with
        | some h => scanFrom F F.ecoords.length h
        | none => []) = _
  by_cases hlt : cd_lb F.ecoords b < F.ecoords.length
  · rw [if_pos hlt]
    simp only
    by_cases hcu : F.fmt = .C ∧ F.next = some .U
    · rw [cd_payBase_CU F hcu.1 hcu.2]
      have := scanFrom_CU F hf hcu.2 (F.coords.length - cd_lb F.ecoords b) (cd_lb F.ecoords b) (by rw [hc]; omega)
      rw [hc] at this; exact this
    · rw [cd_payBase_zero F hcu, cd_specFromB_zero]
      have := scanFrom_C F hf (fun h => hcu ⟨hf, h⟩) (F.coords.length - cd_lb F.ecoords b) (cd_lb F.ecoords b)
        (by rw [hc]; omega)
      rw [hc] at this; exact this
  · rw [if_neg hlt]
    have : F.ecoords.drop (cd_lb F.ecoords b) = [] := List.drop_eq_nil_of_le (by omega)
    rw [this]; rfl


theorem cd_posFrom_take (lo m k : Nat) (hk : k ≤ m) : (posFrom lo m).take k = posFrom lo k := by
  induction k generalizing lo m with
  | zero => simp [posFrom_zero]
  | succ k ih =>
    cases m with
    | zero => omega
    | succ m => rw [posFrom_succ, posFrom_succ, List.take_succ_cons, ih (lo + 1) m (by omega)]

theorem cd_contains_drop (l : List Int) (hinc : Inc l) (b x : Int) (hx : b ≤ x) :
    l.contains x = (l.drop (cd_lb l b)).contains x := by
  have hl : l = l.take (cd_lb l b) ++ l.drop (cd_lb l b) := (List.take_append_drop _ _).symm
  have hnot : (l.take (cd_lb l b)).contains x = false := by
    rw [Bool.eq_false_iff]; intro h
    have := cd_take_lb_lt l b x (List.contains_iff_mem.1 h); omega
  conv => lhs; rw [hl]
  rw [List.contains_eq_mem, List.contains_eq_mem] at *
  simp only [List.mem_append, decide_eq_decide]
  constructor
  · rintro (h | h)
    · have := cd_take_lb_lt l b x h; omega
    · exact h
  · exact Or.inr

theorem cd_contains_take (l : List Int) (hinc : Inc l) (b x : Int) (hx : x < b) :
    l.contains x = (l.take (cd_lb l b)).contains x := by
  have hl : l = l.take (cd_lb l b) ++ l.drop (cd_lb l b) := (List.take_append_drop _ _).symm
  conv => lhs; rw [hl]
  rw [List.contains_eq_mem, List.contains_eq_mem]
  simp only [List.mem_append, decide_eq_decide]
  constructor
  · rintro (h | h)
    · exact h
    · have := cd_drop_lb_ge l hinc b x h; omega
  · exact Or.inl

theorem cd_foldl_bits (l : List Int) (xs : List Int) (acc : Int) :
    (xs.map (fun i => if l.contains i then (1 : Int) else 0)).foldl (· + ·) acc
      = acc + ((xs.filter (fun i => l.contains i)).length : Nat) := by
  induction xs generalizing acc with
  | nil => simp
  | cons x xs ih =>
    simp only [List.map_cons, List.foldl_cons, List.filter_cons]
    rw [ih]
    by_cases h : l.contains x = true
    · rw [if_pos h, if_pos h]; simp only [List.length_cons]; omega
    · rw [if_neg h, if_neg h]; omega

theorem cd_inc_sublists (l : List Int) (hinc : Inc l) (k : Nat) : Inc (l.take k) ∧ Inc (l.drop k) :=
  ⟨hinc.sublist (List.take_sublist _ _), hinc.sublist (List.drop_sublist _ _)⟩

theorem cd_scanBase_B (F : EFib) (hF : FibFacts F) (hf : F.fmt = .B) (b : Nat) (hb : b ≤ F.shape) :
    F.scanBase b = cd_specFromB F.payBase (F.ecoords.drop (cd_lb F.ecoords b)) (cd_lb F.ecoords b) := by
  have hc : F.coords = maskOf F.shape F.ecoords := by rw [hF.coords_eq, hf]; rfl
  have hcu : ¬ (F.fmt = .C ∧ F.next = some .U) := by rw [hf]; intro h; cases h.1
  have hnp : F.npay = F.ecoords.length := by rw [hF.npay_eq, hf, hF.n_eq]
  have hincs := cd_inc_sublists F.ecoords hF.inc (cd_lb F.ecoords b)
  -- the mask bits from position b on, and the set positions among them
  have hdrop : F.coords.drop b = (posFrom b (F.shape - b)).map (fun i => if F.ecoords.contains i then (1 : Int) else 0) := by
    rw [hc, maskOf, irange_eq, ← List.map_drop, cd_posFrom_drop 0 F.shape b hb, Nat.zero_add]
  have htake : F.coords.take b = (posFrom 0 b).map (fun i => if F.ecoords.contains i then (1 : Int) else 0) := by
    rw [hc, maskOf, irange_eq, ← List.map_take, cd_posFrom_take 0 F.shape b hb]
  have hset : maskCoordsFrom b (F.coords.drop b) = F.ecoords.drop (cd_lb F.ecoords b) := by
    rw [hdrop]
    show ((((posFrom b (F.shape - b)).map (fun i => if F.ecoords.contains i then (1 : Int) else 0)).zipIdx b).filter
        (fun e => !decide (e.1 = 0))).map (fun e => (e.2 : Int)) = _
    rw [maskCoords_mask_aux (F.shape - b) b F.ecoords]
    have hcongr : (posFrom b (F.shape - b)).filter (fun i => F.ecoords.contains i)
        = (posFrom b (F.shape - b)).filter (fun i => (F.ecoords.drop (cd_lb F.ecoords b)).contains i) := by
      apply List.filter_congr
      intro x hx
      exact cd_contains_drop F.ecoords hF.inc b x (mem_posFrom.1 hx).1
    rw [hcongr]
    apply filter_posFrom_contains (F.shape - b) b _ hincs.2
    intro c hcm
    have h1 := cd_drop_lb_ge F.ecoords hF.inc b c hcm
    have h2 := (hF.inrange c (List.mem_of_mem_drop hcm)).2
    constructor <;> omega
  have hph : ((F.coords.take b).foldl (· + ·) 0).toNat = cd_lb F.ecoords b := by
    rw [htake, cd_foldl_bits]
    have hcongr : (posFrom 0 b).filter (fun i => F.ecoords.contains i)
        = (posFrom 0 b).filter (fun i => (F.ecoords.take (cd_lb F.ecoords b)).contains i) := by
      apply List.filter_congr
      intro x hx
      exact cd_contains_take F.ecoords hF.inc b x (by have := (mem_posFrom.1 hx).2; omega)
    rw [hcongr, filter_posFrom_contains b 0 _ hincs.1]
    · simp [List.length_take, Nat.min_eq_left (cd_lb_le _ _)]
    · intro c hcm
      have h1 := cd_take_lb_lt F.ecoords b c hcm
      have h2 := (hF.inrange c (List.mem_of_mem_take hcm)).1
      constructor <;> omega
  rw [cd_payBase_zero F hcu, cd_specFromB_zero]
  simp only [EFib.scanBase, hf]
  rw [hph, ← hset]
  apply scanBits_spec F hf (F.coords.drop b)
    (by intro x hx; exact maskOf_01 F.shape F.ecoords x (by rw [← hc]; exact List.mem_of_mem_drop hx))
  rw [hset, hnp, List.length_drop]
  have := cd_lb_le F.ecoords b
  omega


theorem cd_scanBase_raw (F : EFib) (hF : FibFacts F) (b : Nat) (hb : b ≤ F.shape) :
    F.scanBase b = cd_specFromB F.payBase (F.ecoords.drop (cd_lb F.ecoords b)) (cd_lb F.ecoords b) := by
  cases hf : F.fmt with
  | U => exact cd_scanBase_U F hF hf b hb
  | C => exact cd_scanBase_C F hF hf b
  | B => exact cd_scanBase_B F hF hf b hb

/-- what payload handle `payBase + k` designates: the k-th leaf value resp. the k-th child -/
theorem cd_resolve_spec (F : EFib) (hF : FibFacts F)
    (hosf : F.fmt = .C → F.next = some .U → F.osf = F.kid0) (k : Nat) (hk : k < F.n) :
    F.resolve (some (F.payBase + k)) =
      (match F.next with
       | none => some (F.vals.getD k 0)
       | some _ => some ((F.kid0 + k : Nat) : Int)) := by
  simp only [EFib.resolve]
  by_cases hcu : F.fmt = .C ∧ F.next = some .U
  · rw [cd_payBase_CU F hcu.1 hcu.2, hcu.2]
    simp [hcu.1, hosf hcu.1 hcu.2]
  · rw [cd_payBase_zero F hcu, Nat.zero_add]
    cases hnx : F.next with
    | none =>
      have hnp : F.npay = F.n := by
        rw [hF.npay_eq, hnx]; cases F.fmt <;> rfl
      simp only [hnp]
      rw [if_neg (by omega)]
    | some g =>
      have hnp : F.npay = F.n := by
        rw [hF.npay_eq, hnx]
        cases hf : F.fmt with
        | U => rfl
        | B => rfl
        | C =>
          cases g with
          | U => exact absurd ⟨hf, hnx⟩ hcu
          | C => rfl
          | B => rfl
      simp only [hnp]
      have hne : ¬ (F.fmt = .C ∧ g = .U) := by
        intro h; exact hcu ⟨h.1, by rw [hnx, h.2]⟩
      rw [if_neg hne, if_pos hk]

/-- the k-th element of the fiber as the layout defines it -/
def cd_G (F : EFib) (e : Int × Nat) : Option Int × Option Int :=
  (some e.1, match F.next with
             | none => some (F.vals.getD e.2 0)
             | some _ => some ((F.kid0 + e.2 : Nat) : Int))

theorem cd_elemsSpec_eq (F : EFib) : F.elemsSpec = F.ecoords.zipIdx.map (cd_G F) := rfl

theorem cd_elemsSpecFrom_eq (F : EFib) (b : Nat) :
    F.elemsSpecFrom b = (F.ecoords.zipIdx.filter (fun e => decide ((b : Int) ≤ e.1))).map (cd_G F) := by
  unfold EFib.elemsSpecFrom
  rw [cd_elemsSpec_eq, List.filter_map]
  rfl

/-- a slice set up at coordinate `b` (inside the extent) delivers exactly the fiber's elements
    at coordinates `≥ b`, in order, each with the payload it has in a full scan -/
theorem cd_scanBase_elems (F : EFib) (hF : FibFacts F)
    (hosf : F.fmt = .C → F.next = some .U → F.osf = F.kid0) (b : Nat) (hb : b ≤ F.shape) :
    (F.scanBase b).map (fun e => (e.1, F.resolve e.2)) = F.elemsSpecFrom b := by
  rw [cd_scanBase_raw F hF b hb, cd_elemsSpecFrom_eq]
  have := cd_filter_zipIdx F.ecoords hF.inc b 0
  rw [Nat.zero_add] at this
  rw [this]
  simp only [cd_specFromB, List.map_map]
  apply List.map_congr_left
  intro e he
  have hk : e.2 < F.n := by
    have := List.mem_zipIdx he
    rw [hF.n_eq]
    have hl := List.length_drop (i := cd_lb F.ecoords b) (l := F.ecoords)
    have := cd_lb_le F.ecoords b
    omega
  simp only [Function.comp, cd_G]
  rw [cd_resolve_spec F hF hosf e.2 hk]


end Codec
end Ft
