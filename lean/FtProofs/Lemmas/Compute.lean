/-
  Helper lemmas for C19 (swap-count model): chunking, the rounds with a finite latency,
  the skeleton of a tree, the refinement of the incremental merge.
-/
import FtModel.Compute
set_option linter.unusedSectionVars false
set_option linter.unusedSimpArgs false
set_option linter.unusedVariables false
namespace Ft

/-! ### chunks -/

theorem chunks_nil {α : Type} (r : Nat) : chunks r ([] : List α) = [] := by
  rw [chunks]; simp

theorem chunks_zero {α : Type} (l : List α) : chunks 0 l = [] := by
  rw [chunks]; simp

theorem chunks_cons {α : Type} (r : Nat) (l : List α) (hr : r ≠ 0) (hl : l ≠ []) :
    chunks r l = l.take r :: chunks r (l.drop r) := by
  rw [chunks]; simp [hr, hl]

theorem flatten_chunks {α : Type} (r : Nat) (hr : r ≠ 0) (l : List α) : (chunks r l).flatten = l := by
  fun_induction chunks r l with
  | case1 l h =>
    rcases h with h | h
    · exact absurd h hr
    · simp [h]
  | case2 l h ih => simp [ih]

/-! ### finite latency -/

theorem total_eq_flatten (ls : List (List Int)) : total ls = ls.flatten.length := by
  simp [total, List.length_flatten]

theorem length_pySort (l : List Int) : (pySort l).length = l.length := by
  simp [pySort]

theorem c19_sum_map_add {α : Type} (l : List α) (f g : α → Nat) :
    (l.map (fun x => f x + g x)).sum = (l.map f).sum + (l.map g).sum := by
  induction l with
  | nil => rfl
  | cons x r ih => simp only [List.map_cons, List.sum_cons, ih]; omega

theorem sum_map_mul {α : Type} (l : List α) (c : Nat) (f : α → Nat) :
    (l.map (fun x => c * f x)).sum = c * (l.map f).sum := by
  induction l with
  | nil => rfl
  | cons x r ih => simp only [List.map_cons, List.sum_cons, ih, Nat.mul_add]

theorem sum_flatten_length (L : List (List (List Int))) :
    (L.map (fun ch => ch.flatten.length)).sum = L.flatten.flatten.length := by
  induction L with
  | nil => rfl
  | cons x r ih =>
    simp only [List.map_cons, List.sum_cons, ih, List.flatten_cons, List.flatten_append, List.length_append]

theorem chunks_total (r : Nat) (hr : r ≠ 0) (coords : List (List Int)) :
    ((chunks r coords).map (fun ch => ch.flatten.length)).sum = total coords := by
  rw [sum_flatten_length, flatten_chunks r hr, total_eq_flatten]

/-- one round with a finite latency: cost and what it leaves -/
theorem round_fin (lat r : Nat) (hr : r ≠ 0) (coords : List (List Int)) :
    (((chunks r coords).map (mergeChunk (Lat.fin lat))).map (·.1)).sum = lat * (coords.length + total coords) ∧
    (((chunks r coords).map (mergeChunk (Lat.fin lat))).map (·.2)).length = ceilDiv coords.length r ∧
    total (((chunks r coords).map (mergeChunk (Lat.fin lat))).map (·.2)) = total coords := by
  refine ⟨?_, ?_, ?_⟩
  · simp only [List.map_map]
    have : ((fun x : Nat × List Int => x.1) ∘ mergeChunk (Lat.fin lat)) =
        fun ch => lat * (ch.length + ch.flatten.length) := by
      funext ch; simp [mergeChunk, mergeFin, length_pySort]
    rw [this, sum_map_mul, c19_sum_map_add]
    congr 1
    have h1 : ((chunks r coords).map List.length).sum = coords.length := by
      rw [← List.length_flatten, flatten_chunks r hr]
    have h2 := chunks_total r hr coords
    rw [h1, h2]
  · simp [length_chunks r hr]
  · simp only [List.map_map]
    have : ((fun x : Nat × List Int => x.2) ∘ mergeChunk (Lat.fin lat)) = fun ch => pySort ch.flatten := by
      funext ch; simp [mergeChunk, mergeFin]
    rw [this]
    simp only [total, List.map_map, Function.comp_def, length_pySort]
    have h2 := chunks_total r hr coords
    rw [h2, total]

end Ft

namespace Ft

/-- the radix is at least 2 (`float("inf")` allowed); smaller radices do not terminate in Python -/
def RadixOk : Option Nat → Prop
  | none => True
  | some r => 2 ≤ r

theorem clamp_bounds (radix : Option Nat) (h : RadixOk radix) (k : Nat) (hk : 2 ≤ k) :
    2 ≤ clampRadix radix k ∧ clampRadix radix k ≤ k := by
  cases radix with
  | none => simp [clampRadix]; omega
  | some r =>
    simp only [RadixOk] at h
    simp only [clampRadix]
    split <;> omega

theorem clamp_clamp (radix : Option Nat) (k k' : Nat) (hk : k' ≤ k) :
    clampRadix (some (clampRadix radix k)) k' = clampRadix radix k' := by
  cases radix with
  | none =>
    simp only [clampRadix]
    by_cases h : k > k' <;> simp [h] <;> omega
  | some r =>
    simp only [clampRadix]
    repeat' split
    all_goals omega

theorem ceilDiv_le (k r : Nat) (hr : r ≠ 0) : ceilDiv k r ≤ k := by
  unfold ceilDiv
  rw [Nat.div_le_iff_le_mul_add_pred (by omega)]
  have : k * 1 ≤ k * r := Nat.mul_le_mul_left k (by omega)
  rw [Nat.mul_comm r k]
  omega

theorem roundsCost_eq (radix : Option Nat) (lat n k : Nat) :
    roundsCost radix lat n k =
      if 2 ≤ k ∧ 2 ≤ clampRadix radix k then
        lat * (k + n) + roundsCost radix lat n (ceilDiv k (clampRadix radix k))
      else 0 := by
  rw [roundsCost]
  by_cases h : 2 ≤ k ∧ 2 ≤ clampRadix radix k <;> simp [h]

theorem roundsCost_clamp (radix : Option Nat) (lat n k : Nat) :
    ∀ k', k' ≤ k → roundsCost (some (clampRadix radix k)) lat n k' = roundsCost radix lat n k' := by
  intro k'
  induction k' using Nat.strongRecOn with
  | _ k' ih =>
    intro hk
    rw [roundsCost_eq (some (clampRadix radix k)), roundsCost_eq radix]
    rw [clamp_clamp radix k k' hk]
    by_cases hc : 2 ≤ k' ∧ 2 ≤ clampRadix radix k'
    · simp only [hc, and_self, if_true]
      have hlt : ceilDiv k' (clampRadix radix k') < k' := by
        apply ceilDiv_lt hc.1 hc.2
        cases radix with
        | none => simp [clampRadix]
        | some r => simp only [clampRadix]; split <;> omega
      rw [ih _ hlt (by omega)]
    · simp only [hc, if_false]

theorem roundsCost_small (radix : Option Nat) (lat n k : Nat) (hk : k ≤ 1) : roundsCost radix lat n k = 0 := by
  rw [roundsCost]
  have : ¬ (2 ≤ k ∧ 2 ≤ clampRadix radix k) := by omega
  simp [this]

/-- the rounds with a finite latency are the closed-form rounds cost (and the fuel suffices) -/
theorem swapRounds_fin (lat : Nat) (fuel : Nat) :
    ∀ (radix : Option Nat) (coords : List (List Int)), RadixOk radix → coords.length ≤ fuel →
      swapRounds (Lat.fin lat) fuel radix coords = roundsCost radix lat (total coords) coords.length := by
  induction fuel with
  | zero =>
    intro radix coords _ hf
    simp only [swapRounds]
    rw [roundsCost_small _ _ _ _ (by omega)]
  | succ fuel ih =>
    intro radix coords hr hf
    simp only [swapRounds]
    by_cases hk : coords.length ≤ 1
    · simp only [hk, if_true]
      rw [roundsCost_small _ _ _ _ hk]
    · simp only [hk, if_false]
      have hk2 : 2 ≤ coords.length := by omega
      obtain ⟨hc1, hc2⟩ := clamp_bounds radix hr coords.length hk2
      have hr0 : clampRadix radix coords.length ≠ 0 := by omega
      obtain ⟨h1, h2, h3⟩ := round_fin lat (clampRadix radix coords.length) hr0 coords
      have hlt := ceilDiv_lt hk2 hc1 hc2
      rw [h1, ih (some (clampRadix radix coords.length)) _ (by simpa [RadixOk] using hc1) (by rw [h2]; omega)]
      rw [h2, h3, roundsCost_clamp radix lat (total coords) coords.length _ (by omega)]
      conv => rhs; rw [roundsCost_eq]
      simp [hk2, hc1]

theorem total_map_negSorted (lists : List (List Int)) : total (lists.map negSorted) = total lists := by
  simp [total, negSorted, length_pySort, Function.comp_def]

theorem swapsAt_fin (radix : Option Nat) (hr : RadixOk radix) (lat : Nat) (lists : List (List Int)) :
    swapsAt radix (Lat.fin lat) lists = roundsCost radix lat (total lists) lists.length := by
  unfold swapsAt
  rw [swapRounds_fin lat _ radix _ hr (by simp), total_map_negSorted, List.length_map]

end Ft

namespace Ft

/-! ### the tree walk, and the skeleton -/

theorem c19_sum_map_flatMap {α β : Type} (l : List α) (f : α → List β) (g : β → Nat) :
    ((l.flatMap f).map g).sum = (l.map (fun x => ((f x).map g).sum)).sum := by
  induction l with
  | nil => rfl
  | cons x r ih => simp [ih]

theorem numSwapsTree_eq_nodes {ν : Type} (e : Nat) (radix : Option Nat) (lat : Lat) :
    ∀ (depth : Nat) (t : Tree Int ν (e + 2 + depth)),
      numSwapsTree e radix lat depth t = ((mergeNodes e depth t).map (swapsAt radix lat)).sum := by
  intro depth
  induction depth with
  | zero => intro t; simp [numSwapsTree, mergeNodes]
  | succ depth ih =>
    intro (t : List (Int × Tree Int ν (e + 2 + depth)))
    show (t.map (fun el => numSwapsTree e radix lat depth el.2)).sum =
      ((t.flatMap (fun el => mergeNodes e depth el.2)).map (swapsAt radix lat)).sum
    rw [c19_sum_map_flatMap]
    congr 1
    apply List.map_congr_left
    intro el _
    exact ih el.2

theorem map_fst_skel {κ ν : Type} {d : Nat} (l : List (κ × Tree κ ν d)) :
    (l.map (fun el => (el.1, skel d el.2))).map (·.1) = l.map (·.1) := by
  simp [Function.comp_def]

theorem coordsOf_skel {κ ν : Type} {d : Nat} (f : Tree κ ν (d + 1)) :
    coordsOf (d := d) (skel (d + 1) f) = coordsOf (d := d) f :=
  map_fst_skel (show List (κ × Tree κ ν d) from f)

theorem c19_flatMap_congr' {α β : Type} (l : List α) (f g : α → List β) (h : ∀ x ∈ l, f x = g x) :
    l.flatMap f = l.flatMap g := by
  induction l with
  | nil => rfl
  | cons x r ih =>
    simp only [List.flatMap_cons, h x (List.mem_cons_self ..),
      ih (fun y hy => h y (List.mem_cons_of_mem _ hy))]

theorem storedLists_skel {ν : Type} (e : Nat) (l : List (Int × Tree Int ν (e + 1))) :
    storedLists (ν := ν) e l = storedLists (ν := Unit) e (l.map (fun el => (el.1, skel (e + 1) el.2))) := by
  show (l.map (fun el => coordsOf (d := e) el.2)).filter (fun l => !l.isEmpty) =
    ((l.map (fun el => (el.1, skel (e + 1) el.2))).map (fun el => coordsOf (d := e) el.2)).filter (fun l => !l.isEmpty)
  rw [List.map_map]
  congr 1
  apply List.map_congr_left
  intro el _
  exact (coordsOf_skel (d := e) el.2).symm

/-- the merged lists are those of the coordinate skeleton: payload values are never read -/
theorem mergeNodes_skel {ν : Type} (e : Nat) :
    ∀ (depth : Nat) (t : Tree Int ν (e + 2 + depth)),
      mergeNodes e depth t = skelNodes e depth (skel (e + 2 + depth) t) := by
  intro depth
  induction depth with
  | zero =>
    intro (t : List (Int × Tree Int ν (e + 1)))
    show [storedLists (ν := ν) e t] = [storedLists (ν := Unit) e (t.map (fun el => (el.1, skel (e + 1) el.2)))]
    rw [storedLists_skel]
  | succ depth ih =>
    intro (t : List (Int × Tree Int ν (e + 2 + depth)))
    show t.flatMap (fun el => mergeNodes e depth el.2) =
      (t.map (fun el => (el.1, skel (e + 2 + depth) el.2))).flatMap (fun el => mergeNodes (ν := Unit) e depth el.2)
    rw [List.flatMap_map]
    apply c19_flatMap_congr'
    intro el _
    exact ih el.2

theorem numSwapsTree_skel {ν : Type} (e : Nat) (radix : Option Nat) (lat : Lat) (depth : Nat)
    (t : Tree Int ν (e + 2 + depth)) :
    numSwapsTree e radix lat depth t = swapsSpec e radix lat depth (skel (e + 2 + depth) t) := by
  rw [numSwapsTree_eq_nodes, mergeNodes_skel e depth t, swapsSpec]

end Ft
