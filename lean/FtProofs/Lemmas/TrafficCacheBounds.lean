/-
  Helper lemmas for C17 (cache): fills are charged only by `cCharge`, resident lines are lines that
  were accessed, hence the unconditional bounds on the fills of the cache model.
-/
import FtProofs.Lemmas.TrafficBasic
set_option linter.unusedSectionVars false
set_option linter.unusedSimpArgs false
set_option linter.unusedVariables false
namespace Ft
namespace Traffic

theorem getAt_addAt (l : List (Nat × Nat)) (i j v : Nat) :
    getAt (addAt l i v) j = if i = j then getAt l i + v else getAt l j := by
  unfold getAt addAt
  rw [alookup_ainsert]
  by_cases h : i = j
  · subst h; simp
  · simp [h]

/-! ### `reads` is touched by the charge only -/

theorem evictLoop_reads (ls : Nat) (cap : Option Nat) : ∀ (fuel : Nat) (s : CState),
    (evictLoop ls cap fuel s).reads = s.reads
  | 0, _ => rfl
  | fuel + 1, s => by
    unfold evictLoop
    simp only
    repeat' split
    all_goals first | rfl | (rw [evictLoop_reads ls cap fuel])

theorem cAdd_reads (ls : Nat) (cap : Option Nat) (s : CState) (i : Nat) (a : Acc) (le : LElem) :
    (cAdd ls cap s i a le).reads = s.reads := by
  unfold cAdd
  simp only
  repeat' split
  all_goals exact evictLoop_reads ls cap _ s

theorem cCore_reads (ls : Nat) (cap : Option Nat) (s : CState) (x : Nat × Acc) :
    (cCore ls cap s x).reads = s.reads := by
  unfold cCore
  simp only
  repeat' split
  all_goals first | rfl | (rw [cAdd_reads])

/-- a fill is charged exactly for a read miss -/
theorem cstep_reads (ls : Nat) (cap : Option Nat) (s : CState) (x : Nat × Acc) (i : Nat) :
    getAt (cstep ls cap s x).reads i =
      getAt s.reads i +
        (if s.failed = none ∧ x.1 = i ∧ alookup s.objs (x.1, x.2.point) = none ∧ x.2.isWrite = false
         then ls else 0) := by
  unfold cstep
  cases hf : s.failed with
  | some e => simp
  | none =>
    simp only [Option.isSome_none, Bool.false_eq_true, if_false, cCore_reads, true_and]
    unfold cCharge
    cases hl : alookup s.objs (x.1, x.2.point) with
    | some d => simp
    | none =>
      cases hw : x.2.isWrite
      · simp only [Option.isNone_none, Bool.not_false, Bool.and_self, if_true, getAt_addAt]
        by_cases hi : x.1 = i
        · subst hi; simp
        · simp [hi]
      · simp

/-! ### resident lines have been accessed -/

theorem evictLoop_objs (ls : Nat) (cap : Option Nat) : ∀ (fuel : Nat) (s : CState) (k : CKey),
    (alookup (evictLoop ls cap fuel s).objs k).isSome = true → (alookup s.objs k).isSome = true
  | 0, _, _, h => h
  | fuel + 1, s, k, h => by
    unfold evictLoop at h
    simp only at h
    repeat' split at h
    all_goals first
      | exact h
      | (have := evictLoop_objs ls cap fuel _ k h
         simp only [alookup_aerase] at this
         split at this
         · simp at this
         · exact this)

theorem cAdd_objs (ls : Nat) (cap : Option Nat) (s : CState) (i : Nat) (a : Acc) (le : LElem) (k : CKey) :
    (alookup (cAdd ls cap s i a le).objs k).isSome = true →
      (alookup s.objs k).isSome = true ∨ k = (i, a.point) := by
  unfold cAdd
  simp only
  intro h
  repeat' split at h
  all_goals first
    | exact Or.inl (evictLoop_objs ls cap _ s k h)
    | (simp only [alookup_ainsert] at h
       split at h
       · right; rename_i e; exact e.symm
       · exact Or.inl (evictLoop_objs ls cap _ s k h))

theorem csetDirty_objs (objs : List (CKey × Bool)) (k k' : CKey) (wb : Bool) :
    (alookup (csetDirty objs k wb) k').isSome = true → (alookup objs k').isSome = true := by
  unfold csetDirty
  intro h
  split at h
  · rename_i d hd
    simp only [alookup_ainsert] at h
    split at h
    · rename_i e; subst e; simp [hd]
    · exact h
  · exact h

theorem cCore_objs (ls : Nat) (cap : Option Nat) (s : CState) (x : Nat × Acc) (k : CKey) :
    (alookup (cCore ls cap s x).objs k).isSome = true →
      (alookup s.objs k).isSome = true ∨ k = (x.1, x.2.point) := by
  unfold cCore
  simp only
  intro h
  repeat' split at h
  all_goals first
    | exact Or.inl h
    | exact cAdd_objs ls cap _ _ _ _ k h
    | exact Or.inl (csetDirty_objs _ _ _ _ h)
    | (simp only [alookup_aerase] at h
       split at h
       · simp at h
       · exact Or.inl h)
    | (rcases cAdd_objs ls cap _ _ _ _ k h with h2 | h2
       · exact Or.inl h2
       · exact Or.inr h2)

theorem cstep_objs (ls : Nat) (cap : Option Nat) (s : CState) (x : Nat × Acc) (k : CKey) :
    (alookup (cstep ls cap s x).objs k).isSome = true →
      (alookup s.objs k).isSome = true ∨ k = (x.1, x.2.point) := by
  unfold cstep
  split
  · exact Or.inl
  · intro h
    have := cCore_objs ls cap _ x k h
    have hc : (cCharge ls s x).objs = s.objs := by unfold cCharge; split <;> rfl
    rwa [hc] at this

/-- an exception ends the run: once `failed`, always `failed` -/
theorem foldl_failed (ls : Nat) (cap : Option Nat) : ∀ (xs : List (Nat × Acc)) (s : CState),
    s.failed ≠ none → xs.foldl (cstep ls cap) s = s
  | [], _, _ => rfl
  | x :: xs, s, h => by
    have : cstep ls cap s x = s := by
      unfold cstep
      cases hf : s.failed with
      | none => exact absurd hf h
      | some _ => simp
    simp only [List.foldl_cons, this]
    exact foldl_failed ls cap xs s h

/-- reads of binding `i` that are first accesses to their line -/
def firstReadsOf (i : Nat) : List CKey → List (Nat × Acc) → Nat
  | _, [] => 0
  | seen, x :: rest =>
    (if x.1 = i ∧ (x.1, x.2.point) ∉ seen ∧ x.2.isWrite = false then 1 else 0)
      + firstReadsOf i ((x.1, x.2.point) :: seen) rest

def readsOf (i : Nat) (xs : List (Nat × Acc)) : Nat :=
  (xs.filter (fun x => decide (x.1 = i) && !x.2.isWrite)).length

theorem cache_upper (ls : Nat) (cap : Option Nat) (i : Nat) : ∀ (xs : List (Nat × Acc)) (s : CState),
    getAt (xs.foldl (cstep ls cap) s).reads i ≤ getAt s.reads i + ls * readsOf i xs
  | [], _ => by simp [readsOf]
  | x :: xs, s => by
    have ih := cache_upper ls cap i xs (cstep ls cap s x)
    have hs := cstep_reads ls cap s x i
    simp only [List.foldl_cons]
    have : readsOf i (x :: xs) = readsOf i xs + (if x.1 = i ∧ x.2.isWrite = false then 1 else 0) := by
      unfold readsOf
      rw [List.filter_cons]
      by_cases h1 : x.1 = i <;> cases h2 : x.2.isWrite <;> simp [h1, h2]
    rw [this, Nat.mul_add]
    have hle : (if s.failed = none ∧ x.1 = i ∧ alookup s.objs (x.1, x.2.point) = none ∧ x.2.isWrite = false
         then ls else 0) ≤ ls * (if x.1 = i ∧ x.2.isWrite = false then 1 else 0) := by
      split
      · rename_i h; simp [h.2.1, h.2.2.2]
      · exact Nat.zero_le _
    omega

theorem cache_lower (ls : Nat) (cap : Option Nat) (i : Nat) : ∀ (xs : List (Nat × Acc)) (s : CState)
    (seen : List CKey), (∀ k, (alookup s.objs k).isSome = true → k ∈ seen) →
    (xs.foldl (cstep ls cap) s).failed = none →
    getAt s.reads i + ls * firstReadsOf i seen xs ≤ getAt (xs.foldl (cstep ls cap) s).reads i
  | [], _, _, _, _ => by simp [firstReadsOf]
  | x :: xs, s, seen, hsub, hok => by
    simp only [List.foldl_cons] at hok ⊢
    have hsf : s.failed = none := by
      cases hf : s.failed with
      | none => rfl
      | some e =>
        have h1 : s.failed ≠ none := by rw [hf]; simp
        have : cstep ls cap s x = s := by unfold cstep; simp [hf]
        rw [this, foldl_failed ls cap xs s h1, hf] at hok
        cases hok
    have hsub' : ∀ k, (alookup (cstep ls cap s x).objs k).isSome = true → k ∈ (x.1, x.2.point) :: seen := by
      intro k hk
      rcases cstep_objs ls cap s x k hk with h | h
      · exact List.mem_cons_of_mem _ (hsub k h)
      · rw [h]; exact List.mem_cons_self
    have ih := cache_lower ls cap i xs (cstep ls cap s x) _ hsub' hok
    have hs := cstep_reads ls cap s x i
    simp only [firstReadsOf, Nat.mul_add]
    have hge : ls * (if x.1 = i ∧ (x.1, x.2.point) ∉ seen ∧ x.2.isWrite = false then 1 else 0) ≤
        (if s.failed = none ∧ x.1 = i ∧ alookup s.objs (x.1, x.2.point) = none ∧ x.2.isWrite = false
         then ls else 0) := by
      split
      · rename_i h
        have hnone : alookup s.objs (x.1, x.2.point) = none := by
          cases hl : alookup s.objs (x.1, x.2.point) with
          | none => rfl
          | some d => exact absurd (hsub _ (by simp [hl])) h.2.1
        rw [if_pos ⟨hsf, h.1, hnone, h.2.2⟩]; simp
      · simp
    omega

end Traffic
end Ft
