/-
  Helper lemmas for C19 (intersection cost models): points of the emitted rows, the
  simulation of one fiber by the two-finger / skip-ahead loops, groups of fibers.
-/
import FtModel.Intersect
set_option linter.unusedSectionVars false
set_option linter.unusedSimpArgs false
set_option linter.unusedVariables false
namespace Ft

/-! ### points -/

theorem lexLt_snoc (pre : List Int) (a b : Int) :
    c19_lexLt (pre ++ [a]) (pre ++ [b]) = decide (a < b) := by
  induction pre with
  | nil =>
    simp only [List.nil_append, c19_lexLt]
    by_cases h : a < b
    · simp [h]
    · by_cases h2 : a = b <;> simp [h, h2]
  | cons x xs ih =>
    simp only [List.cons_append, c19_lexLt, Int.lt_irrefl, if_false, if_true, ih]

theorem snoc_inj (pre : List Int) (a b : Int) : (pre ++ [a] = pre ++ [b]) ↔ a = b := by
  constructor
  · intro h; simpa using List.append_cancel_left h
  · intro h; rw [h]

theorem snoc_isEmpty (pre : List Int) (a : Int) : (pre ++ [a]).isEmpty = false := by
  cases pre <;> rfl

theorem dropLast_snoc (pre : List Int) (a : Int) : (pre ++ [a]).dropLast = pre := by
  simp

/-- the points `pre ++ [c]` of a list of used coordinates -/
def P (pre : List Int) (cs : List Int) : List c19_Pt := cs.map (fun c => pre ++ [c])

@[simp] theorem P_nil (pre : List Int) : P pre [] = [] := rfl
@[simp] theorem P_cons (pre : List Int) (c : Int) (cs : List Int) :
    P pre (c :: cs) = (pre ++ [c]) :: P pre cs := rfl

/-- `R` does not continue the fiber `pre` -/
def Foreign (pre : List Int) (R : List c19_Pt) : Prop := endOf pre R = true

theorem foreign_nil (pre : List Int) : Foreign pre [] := rfl

theorem endOf_P_cons (pre : List Int) (c : Int) (cs : List Int) (R : List c19_Pt) :
    endOf pre (P pre (c :: cs) ++ R) = false := by
  simp [endOf, P]

theorem fiberOf_P_cons (pre : List Int) (c : Int) (cs : List Int) (R : List c19_Pt) :
    fiberOf (P pre (c :: cs) ++ R) = some pre := by
  simp [fiberOf, P, snoc_isEmpty]

theorem fiberOf_foreign {pre : List Int} {R : List c19_Pt} (h : Foreign pre R) :
    fiberOf R ≠ some pre := by
  cases R with
  | nil => simp [fiberOf]
  | cons q r =>
    simp only [fiberOf]
    split
    · simp
    · intro heq
      simp only [Foreign, endOf, decide_eq_true_eq] at h
      exact h (Option.some.inj heq).symm

/-! ### the uses of and_iterator without their stamps -/

def andPts : List Int → List Int → List Int × List Int
  | [], [] => ([], [])
  | a :: _, [] => ([a], [])
  | [], b :: _ => ([], [b])
  | a :: ra, b :: rb =>
    if a = b then (a :: (andPts ra rb).1, b :: (andPts ra rb).2)
    else if a < b then (a :: (andPts ra (b :: rb)).1, (andPts ra (b :: rb)).2)
    else ((andPts (a :: ra) rb).1, b :: (andPts (a :: ra) rb).2)
termination_by a b => a.length + b.length
decreasing_by all_goals (simp only [List.length_cons]; omega)

theorem andUses_coords (s : Nat) (a b : List Int) :
    (andUses s a b).1.map (·.2) = (andPts a b).1 ∧ (andUses s a b).2.map (·.2) = (andPts a b).2 := by
  fun_induction andUses s a b with
  | case1 s => simp [andPts]
  | case2 s a ra => simp [andPts]
  | case3 s b rb => simp [andPts]
  | case4 s ra a rb r ih =>
    simp only [List.map_cons]
    rw [andPts]; simp only [if_true]
    exact ⟨by rw [ih.1], by rw [ih.2]⟩
  | case5 s a ra b rb h1 h2 r ih =>
    rw [andPts]; simp only [h1, h2, if_true, if_false, List.map_cons]
    exact ⟨by rw [ih.1], ih.2⟩
  | case6 s a ra b rb h1 h2 r ih =>
    rw [andPts]; simp only [h1, h2, if_true, if_false, List.map_cons]
    exact ⟨ih.1, by rw [ih.2]⟩

theorem andPts_fst_cons (a : Int) (ra b : List Int) : ∃ t, (andPts (a :: ra) b).1 = a :: t := by
  induction b with
  | nil => exact ⟨[], by simp [andPts]⟩
  | cons b rb ih =>
    rw [andPts]
    by_cases h1 : a = b
    · simp [h1]
    · by_cases h2 : a < b
      · simp [h1, h2]
      · simp only [h1, h2, if_false]; exact ih

theorem andPts_snd_cons (a : List Int) (b : Int) (rb : List Int) : ∃ t, (andPts a (b :: rb)).2 = b :: t := by
  induction a with
  | nil => exact ⟨[], by simp [andPts]⟩
  | cons a ra ih =>
    rw [andPts]
    by_cases h1 : a = b
    · simp [h1]
    · by_cases h2 : a < b
      · simp only [h1, h2, if_false, if_true]; exact ih
      · simp [h1, h2]

theorem andPts_nil_left (b : List Int) : (andPts [] b).1 = [] := by
  cases b <;> simp [andPts]

theorem andPts_nil_right (a : List Int) : (andPts a []).2 = [] := by
  cases a <;> simp [andPts]

end Ft

namespace Ft

theorem tfLoop_nil_left (l : List c19_Pt) : tfLoop [] l = 0 := by rw [tfLoop]; intros; simp_all
theorem tfLoop_nil_right (l : List c19_Pt) : tfLoop l [] = 0 := by rw [tfLoop]; intros; simp_all

theorem mergeLabels_nil_left (b : List Int) : mergeLabels ([] : List Int) b = [] := by
  rw [mergeLabels]; intros; simp_all
theorem mergeLabels_nil_right (a : List Int) : mergeLabels a ([] : List Int) = [] := by
  rw [mergeLabels]; intros; simp_all

/-! ### Python's list order on outer points -/

theorem c19_lexLt_irrefl (x : List Int) : c19_lexLt x x = false := by
  induction x with
  | nil => rfl
  | cons a r ih => simp [c19_lexLt, ih]

theorem c19_lexLt_nil_right (x : List Int) : c19_lexLt x [] = false := by
  cases x <;> rfl

theorem c19_lexLt_asymm : ∀ (x y : List Int), c19_lexLt x y = true → c19_lexLt y x = false := by
  intro x
  induction x with
  | nil => intro y _; exact c19_lexLt_nil_right y
  | cons a r ih =>
    intro y h
    cases y with
    | nil => simp [c19_lexLt] at h
    | cons b s =>
      simp only [c19_lexLt] at h ⊢
      by_cases h1 : a < b
      · have : ¬ b < a := by omega
        have h2 : ¬ b = a := by omega
        simp [this, h2]
      · by_cases h2 : a = b
        · subst h2
          simp only [Int.lt_irrefl, if_false, if_true] at h ⊢
          exact ih s h
        · simp [h1, h2] at h

/-- all of `R` lies in fibers behind `pre` -/
def Later (pre : List Int) (R : List c19_Pt) : Prop := ∀ q ∈ R, c19_lexLt pre q.dropLast = true

theorem later_nil (pre : List Int) : Later pre [] := by intro q h; cases h

theorem Later.tail {pre : List Int} {q : c19_Pt} {R : List c19_Pt} (h : Later pre (q :: R)) : Later pre R :=
  fun x hx => h x (List.mem_cons_of_mem _ hx)

theorem Later.head_ne {pre : List Int} {q : c19_Pt} {R : List c19_Pt} (h : Later pre (q :: R)) :
    q.isEmpty = false ∧ c19_lexLt pre q.dropLast = true ∧ c19_lexLt q.dropLast pre = false ∧ pre ≠ q.dropLast := by
  have h1 := h q (List.mem_cons_self ..)
  refine ⟨?_, h1, c19_lexLt_asymm _ _ h1, ?_⟩
  · cases q with
    | nil => simp [c19_lexLt_nil_right] at h1
    | cons _ _ => rfl
  · intro he; rw [← he, c19_lexLt_irrefl] at h1; cases h1

theorem Later.foreign {pre : List Int} {R : List c19_Pt} (h : Later pre R) : Foreign pre R := by
  cases R with
  | nil => rfl
  | cons q r => simp [Foreign, endOf, h.head_ne.2.2.2]

/-- a lone trailing row of the fiber `pre` in trace 1 is passed over -/
theorem tfLoop_skip_right (pre : List Int) (y : Int) (R0 R1 : List c19_Pt) (h0 : Later pre R0) :
    tfLoop R0 ((pre ++ [y]) :: R1) = tfLoop R0 R1 := by
  cases R0 with
  | nil => rw [tfLoop_nil_left, tfLoop_nil_left]
  | cons q r =>
    obtain ⟨e1, e2, e3, _⟩ := h0.head_ne
    rw [tfLoop]
    simp [e1, snoc_isEmpty, dropLast_snoc, e2, e3]

theorem tfLoop_skip_left (pre : List Int) (x : Int) (R0 R1 : List c19_Pt) (h1 : Later pre R1) :
    tfLoop ((pre ++ [x]) :: R0) R1 = tfLoop R0 R1 := by
  cases R1 with
  | nil => rw [tfLoop_nil_right, tfLoop_nil_right]
  | cons q r =>
    obtain ⟨e1, e2, e3, _⟩ := h1.head_ne
    rw [tfLoop]
    simp [e1, snoc_isEmpty, dropLast_snoc, e2, e3]

/-- one fiber inside a trace: the two-finger loop performs exactly the merge steps of the
    operands and continues behind the fiber, whatever the operands are -/
theorem tfLoop_fiber (pre : List Int) (a b : List Int) (R0 R1 : List c19_Pt)
    (h0 : Later pre R0) (h1 : Later pre R1) :
    tfLoop (P pre (andPts a b).1 ++ R0) (P pre (andPts a b).2 ++ R1)
      = (mergeLabels a b).length + tfLoop R0 R1 := by
  fun_induction andPts a b with
  | case1 => simp [mergeLabels_nil_left]
  | case2 a ra =>
    simp only [P_cons, P_nil, List.cons_append, List.nil_append, mergeLabels_nil_right, List.length_nil, Nat.zero_add]
    exact tfLoop_skip_left pre a R0 R1 h1
  | case3 b rb =>
    simp only [P_cons, P_nil, List.cons_append, List.nil_append, mergeLabels_nil_left, List.length_nil, Nat.zero_add]
    exact tfLoop_skip_right pre b R0 R1 h0
  | case4 ta x tb ih =>
    have hstep : ∀ r0 r1 : List c19_Pt, tfLoop ((pre ++ [x]) :: r0) ((pre ++ [x]) :: r1) = 1 + tfLoop r0 r1 := by
      intro r0 r1; rw [tfLoop]; simp [snoc_isEmpty, dropLast_snoc, c19_lexLt_irrefl]
    have hml : mergeLabels (x :: ta) (x :: tb) = Lab.M :: mergeLabels ta tb := by
      rw [mergeLabels]; simp
    simp only [P_cons, List.cons_append, hstep, hml, List.length_cons]
    rw [ih]; omega
  | case5 a ra b rb hne hlt ih =>
    have hml : mergeLabels (a :: ra) (b :: rb) = Lab.L :: mergeLabels ra (b :: rb) := by
      rw [mergeLabels]; simp [hne, hlt]
    obtain ⟨t1, ht1⟩ := andPts_snd_cons ra b rb
    simp only [P_cons, List.cons_append, hml, List.length_cons]
    cases ra with
    | nil =>
      have : andPts [] (b :: rb) = ([], [b]) := by simp [andPts]
      rw [this]
      simp only [P_nil, P_cons, List.nil_append, List.cons_append]
      rw [tfLoop]
      have h0' : endOf pre R0 = true := h0.foreign
      simp [snoc_isEmpty, snoc_inj, hne, lexLt_snoc, hlt, dropLast_snoc, h0', mergeLabels_nil_left, c19_lexLt_irrefl]
    | cons y ra' =>
      obtain ⟨t0, ht0⟩ := andPts_fst_cons y ra' (b :: rb)
      have hih := ih
      rw [ht1] at hih ⊢
      rw [ht0] at hih ⊢
      simp only [P_cons, List.cons_append] at hih ⊢
      rw [tfLoop]
      simp [snoc_isEmpty, snoc_inj, hne, lexLt_snoc, hlt, dropLast_snoc, endOf, c19_lexLt_irrefl]
      rw [hih]; omega
  | case6 a ra b rb hne hnlt ih =>
    have hml : mergeLabels (a :: ra) (b :: rb) = Lab.R :: mergeLabels (a :: ra) rb := by
      rw [mergeLabels]; simp [hne, hnlt]
    obtain ⟨t0, ht0⟩ := andPts_fst_cons a ra rb
    simp only [P_cons, List.cons_append, hml, List.length_cons]
    cases rb with
    | nil =>
      have : andPts (a :: ra) [] = ([a], []) := by simp [andPts]
      rw [this]
      simp only [P_nil, P_cons, List.nil_append, List.cons_append]
      rw [tfLoop]
      have h1' : endOf pre R1 = true := h1.foreign
      simp [snoc_isEmpty, snoc_inj, hne, lexLt_snoc, hnlt, dropLast_snoc, h1', mergeLabels_nil_right, c19_lexLt_irrefl]
    | cons y rb' =>
      obtain ⟨t1, ht1⟩ := andPts_snd_cons (a :: ra) y rb'
      have hih := ih
      rw [ht1] at hih ⊢
      rw [ht0] at hih ⊢
      simp only [P_cons, List.cons_append] at hih ⊢
      rw [tfLoop]
      simp [snoc_isEmpty, snoc_inj, hne, lexLt_snoc, hnlt, dropLast_snoc, endOf, c19_lexLt_irrefl]
      rw [hih]; omega

end Ft

namespace Ft

/-! ### skip-ahead -/

/-- the skip-ahead count of a label sequence when the run in progress is `curr` -/
def runsFrom : Option Nat → List Lab → Nat
  | _, [] => 0
  | _, Lab.M :: r => 1 + runsFrom none r
  | c, Lab.L :: r => (if c ≠ some 0 then 1 else 0) + runsFrom (some 0) r
  | c, Lab.R :: r => (if c ≠ some 1 then 1 else 0) + runsFrom (some 1) r

theorem saLoop_nil_left (c : Option Nat) (l : List c19_Pt) : saLoop c [] l = 0 := by
  rw [saLoop]; intros; simp_all
theorem saLoop_nil_right (c : Option Nat) (l : List c19_Pt) : saLoop c l [] = 0 := by
  rw [saLoop]; intros; simp_all

theorem saLoop_skip_right (pre : List Int) (y : Int) (R0 R1 : List c19_Pt) (c : Option Nat)
    (h0 : Later pre R0) : saLoop c R0 ((pre ++ [y]) :: R1) = saLoop none R0 R1 := by
  cases R0 with
  | nil => rw [saLoop_nil_left, saLoop_nil_left]
  | cons q r =>
    obtain ⟨e1, e2, e3, _⟩ := h0.head_ne
    rw [saLoop]
    simp [e1, snoc_isEmpty, dropLast_snoc, e2, e3]

theorem saLoop_skip_left (pre : List Int) (x : Int) (R0 R1 : List c19_Pt) (c : Option Nat)
    (h1 : Later pre R1) : saLoop c ((pre ++ [x]) :: R0) R1 = saLoop none R0 R1 := by
  cases R1 with
  | nil => rw [saLoop_nil_right, saLoop_nil_right]
  | cons q r =>
    obtain ⟨e1, e2, e3, _⟩ := h1.head_ne
    rw [saLoop]
    simp [e1, snoc_isEmpty, dropLast_snoc, e2, e3]

theorem saLoop_fiber (pre : List Int) (a b : List Int) (R0 R1 : List c19_Pt) (curr : Option Nat)
    (h0 : Later pre R0) (h1 : Later pre R1) (hcur : a = [] → b = [] → curr = none) :
    saLoop curr (P pre (andPts a b).1 ++ R0) (P pre (andPts a b).2 ++ R1)
      = runsFrom curr (mergeLabels a b) + saLoop none R0 R1 := by
  fun_induction andPts a b generalizing curr with
  | case1 =>
    rw [hcur rfl rfl]
    simp [mergeLabels_nil_left, runsFrom]
  | case2 a ra =>
    simp only [P_cons, P_nil, List.cons_append, List.nil_append, mergeLabels_nil_right, runsFrom, Nat.zero_add]
    exact saLoop_skip_left pre a R0 R1 curr h1
  | case3 b rb =>
    simp only [P_cons, P_nil, List.cons_append, List.nil_append, mergeLabels_nil_left, runsFrom, Nat.zero_add]
    exact saLoop_skip_right pre b R0 R1 curr h0
  | case4 ta x tb ih =>
    have hstep : ∀ r0 r1 : List c19_Pt, saLoop curr ((pre ++ [x]) :: r0) ((pre ++ [x]) :: r1) = 1 + saLoop none r0 r1 := by
      intro r0 r1; rw [saLoop]; simp [snoc_isEmpty, dropLast_snoc, c19_lexLt_irrefl]
    have hml : mergeLabels (x :: ta) (x :: tb) = Lab.M :: mergeLabels ta tb := by
      rw [mergeLabels]; simp
    simp only [P_cons, List.cons_append, hstep, hml, runsFrom]
    rw [ih none (fun _ _ => rfl)]; omega
  | case5 a ra b rb hne hlt ih =>
    have hml : mergeLabels (a :: ra) (b :: rb) = Lab.L :: mergeLabels ra (b :: rb) := by
      rw [mergeLabels]; simp [hne, hlt]
    obtain ⟨t1, ht1⟩ := andPts_snd_cons ra b rb
    simp only [P_cons, List.cons_append, hml, runsFrom]
    cases ra with
    | nil =>
      have : andPts [] (b :: rb) = ([], [b]) := by simp [andPts]
      rw [this]
      simp only [P_nil, P_cons, List.nil_append, List.cons_append]
      rw [saLoop]
      have h0' : endOf pre R0 = true := h0.foreign
      have hf := fiberOf_foreign h0.foreign
      simp [snoc_isEmpty, snoc_inj, hne, lexLt_snoc, hlt, dropLast_snoc, h0', hf, mergeLabels_nil_left, runsFrom, c19_lexLt_irrefl]
    | cons y ra' =>
      obtain ⟨t0, ht0⟩ := andPts_fst_cons y ra' (b :: rb)
      have hih := ih (some 0) (by intro h; cases h)
      rw [ht1] at hih ⊢
      rw [ht0] at hih ⊢
      simp only [P_cons, List.cons_append] at hih ⊢
      rw [saLoop]
      simp [snoc_isEmpty, snoc_inj, hne, lexLt_snoc, hlt, dropLast_snoc, endOf, fiberOf, c19_lexLt_irrefl]
      rw [hih]; omega
  | case6 a ra b rb hne hnlt ih =>
    have hml : mergeLabels (a :: ra) (b :: rb) = Lab.R :: mergeLabels (a :: ra) rb := by
      rw [mergeLabels]; simp [hne, hnlt]
    obtain ⟨t0, ht0⟩ := andPts_fst_cons a ra rb
    simp only [P_cons, List.cons_append, hml, runsFrom]
    cases rb with
    | nil =>
      have : andPts (a :: ra) [] = ([a], []) := by simp [andPts]
      rw [this]
      simp only [P_nil, P_cons, List.nil_append, List.cons_append]
      rw [saLoop]
      have h1' : endOf pre R1 = true := h1.foreign
      have hf := fiberOf_foreign h0.foreign
      simp [snoc_isEmpty, snoc_inj, hne, lexLt_snoc, hnlt, dropLast_snoc, h1', hf, mergeLabels_nil_right, runsFrom, c19_lexLt_irrefl]
    | cons y rb' =>
      obtain ⟨t1, ht1⟩ := andPts_snd_cons (a :: ra) y rb'
      have hih := ih (some 1) (by intro _ h; cases h)
      rw [ht1] at hih ⊢
      rw [ht0] at hih ⊢
      simp only [P_cons, List.cons_append] at hih ⊢
      rw [saLoop]
      simp [snoc_isEmpty, snoc_inj, hne, lexLt_snoc, hnlt, dropLast_snoc, endOf, fiberOf, c19_lexLt_irrefl]
      rw [hih]; omega

end Ft

namespace Ft

/-- what `curr` holds after a step with label `prev` -/
def currOf : Option Lab → Option Nat
  | some Lab.L => some 0
  | some Lab.R => some 1
  | _ => none

/-- the declarative count with an explicit predecessor -/
def runsG (prev : Option Lab) (l : List Lab) : Nat :=
  ((prev :: l.map some).zip l).countP (fun px => decide (px.2 ≠ Lab.M) && decide (px.1 ≠ some px.2))
    + l.count Lab.M

theorem runsFrom_eq_runsG (prev : Option Lab) (l : List Lab) :
    runsFrom (currOf prev) l = runsG prev l := by
  induction l generalizing prev with
  | nil => simp [runsFrom, runsG]
  | cons x r ih =>
    have hG : runsG prev (x :: r) =
        (if (decide (x ≠ Lab.M) && decide (prev ≠ some x)) = true then 1 else 0)
          + (if x = Lab.M then 1 else 0) + runsG (some x) r := by
      simp only [runsG, List.map_cons, List.zip_cons_cons, List.countP_cons, List.count_cons]
      simp only [beq_iff_eq]
      omega
    rw [hG, ← ih (some x)]
    cases x with
    | M => simp [runsFrom, currOf]
    | L =>
      simp only [runsFrom, currOf]
      rcases prev with _ | (_ | _ | _) <;> simp [currOf]
    | R =>
      simp only [runsFrom, currOf]
      rcases prev with _ | (_ | _ | _) <;> simp [currOf]

theorem runsFrom_none (l : List Lab) : runsFrom none l = sameSideRuns l + l.count Lab.M := by
  have := runsFrom_eq_runsG none l
  simpa [currOf, runsG, sameSideRuns] using this

end Ft

namespace Ft

/-! ### groups of consecutive fibers -/

def FiberIn.pts (f : FiberIn) : List c19_Pt × List c19_Pt :=
  (P f.pre (andPts f.a f.b).1, P f.pre (andPts f.a f.b).2)

def groupPts (g : List FiberIn) : List c19_Pt × List c19_Pt :=
  (g.flatMap (fun f => f.pts.1), g.flatMap (fun f => f.pts.2))

theorem groupPts_cons (f : FiberIn) (g : List FiberIn) :
    groupPts (f :: g) = (f.pts.1 ++ (groupPts g).1, f.pts.2 ++ (groupPts g).2) := by
  simp [groupPts]

theorem later_P_append (pre pre' : List Int) (cs : List Int) (R : List c19_Pt)
    (hlt : c19_lexLt pre pre' = true) (hR : Later pre R) : Later pre (P pre' cs ++ R) := by
  intro q hq
  rcases List.mem_append.1 hq with hq | hq
  · simp only [P, List.mem_map] at hq
    obtain ⟨c, _, rfl⟩ := hq
    rw [dropLast_snoc]; exact hlt
  · exact hR q hq

theorem later_group (pre : List Int) (g : List FiberIn) (h : ∀ f ∈ g, c19_lexLt pre f.pre = true) :
    Later pre (groupPts g).1 ∧ Later pre (groupPts g).2 := by
  induction g with
  | nil => exact ⟨later_nil _, later_nil _⟩
  | cons f g ih =>
    have hf := h f (List.mem_cons_self ..)
    have ih' := ih (fun x hx => h x (List.mem_cons_of_mem _ hx))
    rw [groupPts_cons]
    exact ⟨later_P_append _ _ _ _ hf ih'.1, later_P_append _ _ _ _ hf ih'.2⟩

theorem ascPre_cons (f : FiberIn) (g : List FiberIn) :
    ascPre (f :: g) = true ↔ (∀ h ∈ g, c19_lexLt f.pre h.pre = true) ∧ ascPre g = true := by
  simp [ascPre, List.all_eq_true]

theorem tfSpecAll_cons (f : FiberIn) (g : List FiberIn) :
    tfSpecAll (f :: g) = tfSpec f.a f.b + tfSpecAll g := by simp [tfSpecAll]

theorem saSpecAll_cons (f : FiberIn) (g : List FiberIn) :
    saSpecAll (f :: g) = saSpec f.a f.b + saSpecAll g := by simp [saSpecAll]

/-- a whole group in one call: the two-finger loop counts the merge steps of every fiber -/
theorem tfLoop_group (g : List FiberIn) (hd : ascPre g = true) :
    tfLoop (groupPts g).1 (groupPts g).2 = tfSpecAll g := by
  induction g with
  | nil => simp [groupPts, tfLoop_nil_left, tfSpecAll]
  | cons f g ih =>
    obtain ⟨hdf, hdg⟩ := (ascPre_cons f g).1 hd
    obtain ⟨hF0, hF1⟩ := later_group f.pre g hdf
    rw [groupPts_cons, tfSpecAll_cons]
    simp only [FiberIn.pts]
    rw [tfLoop_fiber f.pre f.a f.b _ _ hF0 hF1, ih hdg, tfSpec]

theorem saLoop_group (g : List FiberIn) (hd : ascPre g = true) :
    saLoop none (groupPts g).1 (groupPts g).2 = saSpecAll g := by
  induction g with
  | nil => simp [groupPts, saLoop_nil_left, saSpecAll]
  | cons f g ih =>
    obtain ⟨hdf, hdg⟩ := (ascPre_cons f g).1 hd
    obtain ⟨hF0, hF1⟩ := later_group f.pre g hdf
    rw [groupPts_cons, saSpecAll_cons]
    simp only [FiberIn.pts]
    rw [saLoop_fiber f.pre f.a f.b _ _ none hF0 hF1 (fun _ _ => rfl), ih hdg, runsFrom_none, saSpec]

end Ft

namespace Ft

/-! ### from rows to points -/

theorem mapM_some {α β : Type} (f : α → Option β) (g : α → β) (l : List α)
    (h : ∀ x ∈ l, f x = some (g x)) : l.mapM f = some (l.map g) := by
  induction l with
  | nil => rfl
  | cons x r ih =>
    rw [List.mapM_cons, h x (List.mem_cons_self ..), ih (fun y hy => h y (List.mem_cons_of_mem _ hy))]
    rfl

theorem point_row (n : Nat) (oi pre : List Int) (s c pos : Int)
    (ho : oi.length + 1 = n) (hp : pre.length + 1 = n) :
    TRow.point n (TRow.data (oi ++ [s] ++ pre ++ [c, pos])) = some (pre ++ [c]) := by
  simp only [TRow.point]
  have h1 : (oi ++ [s] ++ pre ++ [c, pos]) = (oi ++ [s]) ++ (pre ++ [c] ++ [pos]) := by simp
  rw [h1, List.drop_left' (by simp [ho]), List.take_left' (by simp [hp])]

theorem mapM_point_mkRows (n : Nat) (oi pre : List Int) (uses : List (Nat × Int))
    (ho : oi.length + 1 = n) (hp : pre.length + 1 = n) :
    (mkRows oi pre uses).mapM (TRow.point n) = some (P pre (uses.map (·.2))) := by
  unfold mkRows
  rw [List.mapM_map]
  rw [mapM_some _ (fun u : (Nat × Int) × Nat => pre ++ [u.1.2])]
  · congr 1
    simp only [P]
    conv => rhs; rw [← List.zipIdx_map_fst 0 uses]
    simp only [List.map_map]
    rfl
  · intro u hu
    exact point_row n oi pre _ _ _ ho hp

end Ft

namespace Ft

theorem mapM_append_some {α β : Type} (f : α → Option β) (l1 l2 : List α) (x y : List β)
    (h1 : l1.mapM f = some x) (h2 : l2.mapM f = some y) : (l1 ++ l2).mapM f = some (x ++ y) := by
  rw [List.mapM_append, h1, h2]; rfl

/-- every fiber of the group has rows of `n` loop ranks -/
def ShapeOk (n : Nat) (g : List FiberIn) : Prop := ∀ f ∈ g, f.oi.length + 1 = n ∧ f.pre.length + 1 = n

theorem fiber_rows_points (n : Nat) (f : FiberIn) (h : f.oi.length + 1 = n ∧ f.pre.length + 1 = n) :
    f.rows.1.mapM (TRow.point n) = some f.pts.1 ∧ f.rows.2.mapM (TRow.point n) = some f.pts.2 := by
  simp only [FiberIn.rows, FiberIn.pts]
  rw [mapM_point_mkRows n _ _ _ h.1 h.2, mapM_point_mkRows n _ _ _ h.1 h.2,
      (andUses_coords 0 f.a f.b).1, (andUses_coords 0 f.a f.b).2]
  exact ⟨rfl, rfl⟩

theorem group_rows_points (n : Nat) (g : List FiberIn) (h : ShapeOk n g) :
    (groupRows g).1.mapM (TRow.point n) = some (groupPts g).1 ∧
    (groupRows g).2.mapM (TRow.point n) = some (groupPts g).2 := by
  induction g with
  | nil => exact ⟨rfl, rfl⟩
  | cons f g ih =>
    have hf := fiber_rows_points n f (h f (List.mem_cons_self ..))
    have ih' := ih (fun x hx => h x (List.mem_cons_of_mem _ hx))
    simp only [groupRows, groupPts, List.flatMap_cons] at ih' ⊢
    exact ⟨mapM_append_some _ _ _ _ _ hf.1 ih'.1, mapM_append_some _ _ _ _ _ hf.2 ih'.2⟩

theorem startPts_group (n : Nat) (g : List FiberIn) (h : ShapeOk n g) :
    startPts n (groupRows g).1 (groupRows g).2 =
      some (match (groupPts g).1, (groupPts g).2 with
            | _ :: _, _ :: _ => some (groupPts g)
            | _, _ => none) := by
  obtain ⟨h0, h1⟩ := group_rows_points n g h
  simp only [startPts, h0, h1, Option.bind_eq_bind, Option.bind_some]
  cases hq0 : (groupPts g).1 with
  | nil => rfl
  | cons p0 r0 =>
    cases hq1 : (groupPts g).2 with
    | nil => rfl
    | cons p1 r1 =>
      simp only
      rw [← hq0, ← hq1]; rfl

end Ft

namespace Ft

/-! ### `addTraces` on the rows of a group, and successive calls -/

theorem tfAdd_started (n : Nat) (g : List FiberIn) (s : IState) (hs : s.started = true)
    (hn : s.numRanks = n) (h : ShapeOk n g) (hd : ascPre g = true) :
    tfAdd s (groupRows g).1 (groupRows g).2 = some { s with count := s.count + tfSpecAll g } := by
  have hl := tfLoop_group g hd
  simp only [tfAdd, hs, Option.bind_eq_bind, hn, startPts_group n g h, Option.bind_some]
  cases hq0 : (groupPts g).1 with
  | nil =>
    rw [hq0, tfLoop_nil_left] at hl
    simp [← hl]
    cases s; simp_all
  | cons p0 r0 =>
    cases hq1 : (groupPts g).2 with
    | nil =>
      rw [hq1, tfLoop_nil_right] at hl
      simp [← hl]
      cases s; simp_all
    | cons p1 r1 =>
      rw [hq0, hq1] at hl
      simp only [Option.pure_def, Option.some.injEq]
      rw [← hl]
      have : groupPts g = (p0 :: r0, p1 :: r1) := Prod.ext hq0 hq1
      rw [this]

theorem tfAdd_first (n : Nat) (g : List FiberIn) (s : IState) (hs : s.started = false)
    (h : ShapeOk n g) (hd : ascPre g = true) :
    tfAdd s (TRow.hdr (2 * n + 1) :: (groupRows g).1) (TRow.hdr (2 * n + 1) :: (groupRows g).2)
      = some { started := true, numRanks := n, count := s.count + tfSpecAll g } := by
  have hn : (2 * n + 1 - 1) / 2 = n := by omega
  have := tfAdd_started n g { s with started := true, numRanks := n } rfl rfl h hd
  simp only [tfAdd, hs, TRow.len, hn, List.drop_succ_cons, List.drop_zero,
    Option.bind_eq_bind, Option.bind_some] at this ⊢
  simpa [tfAdd] using this

end Ft

namespace Ft

theorem saAdd_started (n : Nat) (g : List FiberIn) (s : IState) (hs : s.started = true)
    (hn : s.numRanks = n) (h : ShapeOk n g) (hd : ascPre g = true) :
    saAdd s (groupRows g).1 (groupRows g).2 = some { s with count := s.count + saSpecAll g } := by
  have hl := saLoop_group g hd
  simp only [saAdd, hs, Option.bind_eq_bind, hn, startPts_group n g h, Option.bind_some]
  cases hq0 : (groupPts g).1 with
  | nil =>
    rw [hq0, saLoop_nil_left] at hl
    simp [← hl]
    cases s; simp_all
  | cons p0 r0 =>
    cases hq1 : (groupPts g).2 with
    | nil =>
      rw [hq1, saLoop_nil_right] at hl
      simp [← hl]
      cases s; simp_all
    | cons p1 r1 =>
      rw [hq0, hq1] at hl
      simp only [Option.pure_def, Option.some.injEq]
      rw [← hl]
      have : groupPts g = (p0 :: r0, p1 :: r1) := Prod.ext hq0 hq1
      rw [this]

theorem saAdd_first (n : Nat) (g : List FiberIn) (s : IState) (hs : s.started = false)
    (h : ShapeOk n g) (hd : ascPre g = true) :
    saAdd s (TRow.hdr (2 * n + 1) :: (groupRows g).1) (TRow.hdr (2 * n + 1) :: (groupRows g).2)
      = some { started := true, numRanks := n, count := s.count + saSpecAll g } := by
  have hn : (2 * n + 1 - 1) / 2 = n := by omega
  have := saAdd_started n g { s with started := true, numRanks := n } rfl rfl h hd
  simp only [saAdd, hs, TRow.len, hn, List.drop_succ_cons, List.drop_zero,
    Option.bind_eq_bind, Option.bind_some] at this ⊢
  simpa [saAdd] using this

/-- hypotheses on a list of groups -/
def GroupsOk (n : Nat) (groups : List (List FiberIn)) : Prop :=
  ∀ g ∈ groups, ShapeOk n g ∧ ascPre g = true

theorem tfSpecAll_append (g h : List FiberIn) : tfSpecAll (g ++ h) = tfSpecAll g + tfSpecAll h := by
  simp [tfSpecAll]
theorem saSpecAll_append (g h : List FiberIn) : saSpecAll (g ++ h) = saSpecAll g + saSpecAll h := by
  simp [saSpecAll]

theorem feed2_tf_started (n : Nat) (groups : List (List FiberIn)) (s : IState) (hs : s.started = true)
    (hn : s.numRanks = n) (h : GroupsOk n groups) :
    feed2 tfAdd s (groups.map groupRows) = some { s with count := s.count + tfSpecAll groups.flatten } := by
  induction groups generalizing s with
  | nil => simp [feed2, tfSpecAll]
  | cons g r ih =>
    obtain ⟨h1, h2⟩ := h g (List.mem_cons_self ..)
    simp only [List.map_cons, feed2]
    rw [show groupRows g = ((groupRows g).1, (groupRows g).2) from rfl]
    simp only [tfAdd_started n g s hs hn h1 h2, Option.bind_some]
    rw [ih { s with count := s.count + tfSpecAll g } hs hn (fun x hx => h x (List.mem_cons_of_mem _ hx))]
    simp [tfSpecAll_append, Int.add_assoc]

theorem feed2_sa_started (n : Nat) (groups : List (List FiberIn)) (s : IState) (hs : s.started = true)
    (hn : s.numRanks = n) (h : GroupsOk n groups) :
    feed2 saAdd s (groups.map groupRows) = some { s with count := s.count + saSpecAll groups.flatten } := by
  induction groups generalizing s with
  | nil => simp [feed2, saSpecAll]
  | cons g r ih =>
    obtain ⟨h1, h2⟩ := h g (List.mem_cons_self ..)
    simp only [List.map_cons, feed2]
    rw [show groupRows g = ((groupRows g).1, (groupRows g).2) from rfl]
    simp only [saAdd_started n g s hs hn h1 h2, Option.bind_some]
    rw [ih { s with count := s.count + saSpecAll g } hs hn (fun x hx => h x (List.mem_cons_of_mem _ hx))]
    simp [saSpecAll_append, Int.add_assoc]

theorem batchesOf_cons_cons (n : Nat) (f : FiberIn) (g : List FiberIn) (r : List (List FiberIn)) :
    batchesOf n ((f :: g) :: r) =
      (TRow.hdr (2 * n + 1) :: (groupRows (f :: g)).1, TRow.hdr (2 * n + 1) :: (groupRows (f :: g)).2)
        :: r.map groupRows := rfl

theorem tfAdd_empty_unstarted : tfAdd {} [] [] = some {} := by
  simp [tfAdd, startPts]

/-- two-finger: any grouping, empty calls anywhere -/
theorem tfTotal_batches (n : Nat) (groups : List (List FiberIn)) (h : GroupsOk n groups) :
    tfTotal (batchesOf n groups) = some (tfSpecAll groups.flatten : Int) := by
  induction groups with
  | nil => simp [tfTotal, batchesOf, feed2, tfSpecAll]
  | cons g r ih =>
    cases g with
    | nil =>
      have := ih (fun x hx => h x (List.mem_cons_of_mem _ hx))
      simp only [tfTotal, batchesOf, feed2, tfAdd_empty_unstarted, Option.bind_some] at this ⊢
      simpa using this
    | cons f g' =>
      obtain ⟨h1, h2⟩ := h (f :: g') (List.mem_cons_self ..)
      rw [batchesOf_cons_cons]
      simp only [tfTotal, feed2]
      rw [tfAdd_first n (f :: g') {} rfl h1 h2]
      simp only [Option.bind_some]
      rw [feed2_tf_started n r _ rfl rfl (fun x hx => h x (List.mem_cons_of_mem _ hx))]
      rw [List.flatten_cons, tfSpecAll_append]
      simp

theorem saAdd_empty_unstarted : saAdd {} [] [] = some {} := by
  simp [saAdd, startPts]

/-- skip-ahead: any grouping, empty calls anywhere -/
theorem saTotal_batches (n : Nat) (groups : List (List FiberIn)) (h : GroupsOk n groups) :
    saTotal (batchesOf n groups) = some (saSpecAll groups.flatten : Int) := by
  induction groups with
  | nil => simp [saTotal, batchesOf, feed2, saSpecAll]
  | cons g r ih =>
    cases g with
    | nil =>
      have := ih (fun x hx => h x (List.mem_cons_of_mem _ hx))
      simp only [saTotal, batchesOf, feed2, saAdd_empty_unstarted, Option.bind_some] at this ⊢
      simpa using this
    | cons f g' =>
      obtain ⟨h1, h2⟩ := h (f :: g') (List.mem_cons_self ..)
      rw [batchesOf_cons_cons]
      simp only [saTotal, feed2]
      rw [saAdd_first n (f :: g') {} rfl h1 h2]
      simp only [Option.bind_some]
      rw [feed2_sa_started n r _ rfl rfl (fun x hx => h x (List.mem_cons_of_mem _ hx))]
      rw [List.flatten_cons, saSpecAll_append]
      simp

end Ft

namespace Ft

/-! ### leader-follower -/

theorem foldl_lfAdd_started (bs : List (List TRow)) (s : IState) (hs : s.started = true) :
    (bs.foldl lfAdd s).count = s.count + ((bs.map List.length).sum : Nat) := by
  induction bs generalizing s with
  | nil => simp
  | cons b r ih =>
    simp only [List.foldl_cons, List.map_cons, List.sum_cons]
    have h1 : (lfAdd s b).started = true := by simp [lfAdd, hs]
    have h2 : (lfAdd s b).count = s.count + b.length := by simp [lfAdd, hs]
    rw [ih _ h1, h2]
    omega

theorem lfAdd_empty_unstarted (s : IState) (hs : s.started = false) : lfAdd s [] = s := by
  cases s; simp_all [lfAdd]

/-- any batching of a trace: the total is the number of rows behind the header (nothing, as
    long as no row has arrived) -/
theorem lfTotal_rows (bs : List (List TRow)) :
    lfTotal bs = ((bs.map List.length).sum : Nat) - (if bs.all List.isEmpty then (0 : Int) else 1) := by
  unfold lfTotal
  have key : ∀ (bs : List (List TRow)) (s : IState), s.started = false →
      (bs.foldl lfAdd s).count =
        s.count + ((bs.map List.length).sum : Nat) - (if bs.all List.isEmpty then (0 : Int) else 1) := by
    intro bs
    induction bs with
    | nil => intro s _; simp
    | cons b r ih =>
      intro s hs
      cases b with
      | nil =>
        simp only [List.foldl_cons, lfAdd_empty_unstarted s hs, List.map_cons, List.length_nil,
          List.sum_cons, Nat.zero_add, List.all_cons, List.isEmpty_nil, Bool.true_and]
        exact ih s hs
      | cons x t =>
        simp only [List.foldl_cons, List.all_cons, List.isEmpty_cons, Bool.false_and,
          Bool.false_eq_true, if_false, List.map_cons, List.sum_cons]
        have h1 : (lfAdd s (x :: t)).started = true := by simp [lfAdd, hs]
        have h2 : (lfAdd s (x :: t)).count = s.count + (((x :: t).length : Nat) : Int) - 1 := by
          simp [lfAdd, hs]; omega
        rw [foldl_lfAdd_started r _ h1, h2]
        omega
  have := key bs {} rfl
  simpa using this

theorem lfTotal_cons (b : List TRow) (r : List (List TRow)) (hb : b ≠ []) :
    lfTotal (b :: r) = (((b :: r).map List.length).sum : Nat) - 1 := by
  rw [lfTotal_rows]
  have : (b :: r).all List.isEmpty = false := by
    cases b with
    | nil => exact absurd rfl hb
    | cons _ _ => simp
  rw [this]; simp

theorem length_mkRows (oi pre : List Int) (uses : List (Nat × Int)) :
    (mkRows oi pre uses).length = uses.length := by simp [mkRows]

theorem length_leaderRows (f : FiberIn) : f.leaderRows.length = f.a.length := by
  simp [FiberIn.leaderRows, length_mkRows]

theorem sum_length_flatMap {α β : Type} (l : List α) (f : α → List β) :
    (l.flatMap f).length = (l.map (fun x => (f x).length)).sum := by
  induction l with
  | nil => rfl
  | cons x r ih => simp [ih]

theorem lfSpecAll_append (g h : List FiberIn) : lfSpecAll (g ++ h) = lfSpecAll g + lfSpecAll h := by
  simp [lfSpecAll]

theorem sum_leader_lengths (groups : List (List FiberIn)) :
    ((groups.map (fun g => g.flatMap FiberIn.leaderRows)).map List.length).sum = lfSpecAll groups.flatten := by
  induction groups with
  | nil => rfl
  | cons g r ih =>
    simp only [List.map_cons, List.sum_cons, ih, List.flatten_cons, lfSpecAll_append]
    congr 1
    rw [sum_length_flatMap]
    simp [lfSpecAll, length_leaderRows]

/-- rows of the leader trace over all calls: the presented elements, plus the header as soon
    as one intersection has run -/
theorem rows_leader (n : Nat) (groups : List (List FiberIn)) :
    ((leaderBatchesOf n groups).map List.length).sum =
      lfSpecAll groups.flatten + (if groups.all List.isEmpty then 0 else 1) := by
  induction groups with
  | nil => rfl
  | cons g r ih =>
    cases g with
    | nil => simpa [leaderBatchesOf] using ih
    | cons f g' =>
      have := sum_leader_lengths ((f :: g') :: r)
      simp only [List.map_cons, List.sum_cons] at this
      simp only [leaderBatchesOf, List.map_cons, List.sum_cons, List.length_cons, List.all_cons,
        List.isEmpty_cons, Bool.false_and, Bool.false_eq_true, if_false]
      omega

theorem leaderBatches_all_empty (n : Nat) (groups : List (List FiberIn)) :
    (leaderBatchesOf n groups).all List.isEmpty = groups.all List.isEmpty := by
  induction groups with
  | nil => rfl
  | cons g r ih =>
    cases g with
    | nil => simpa [leaderBatchesOf] using ih
    | cons f g' => simp [leaderBatchesOf]

/-- leader-follower: any grouping, empty calls anywhere (also when no intersection ever runs) -/
theorem lfTotal_leader (n : Nat) (groups : List (List FiberIn)) :
    lfTotal (leaderBatchesOf n groups) = (lfSpecAll groups.flatten : Int) := by
  rw [lfTotal_rows, rows_leader, leaderBatches_all_empty]
  split <;> simp

theorem singletons_ok (n : Nat) (fs : List FiberIn)
    (hshape : ∀ f ∈ fs, f.oi.length + 1 = n ∧ f.pre.length + 1 = n) :
    GroupsOk n (fs.map (fun f => [f])) := by
  intro g hg
  obtain ⟨f, hf, rfl⟩ := List.mem_map.1 hg
  refine ⟨?_, rfl⟩
  intro f' hf'
  rw [List.mem_singleton.1 hf']
  exact hshape f hf

theorem flatten_singletons (fs : List FiberIn) : (fs.map (fun f => [f])).flatten = fs := by
  induction fs with
  | nil => rfl
  | cons f r ih => simp [ih]

end Ft
