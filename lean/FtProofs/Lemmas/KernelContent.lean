/-
  C06 helper lemmas, part 7: the content list of a well-formed tree is the lexicographically sorted
  list of its non-default points, so a tree whose values are known point-wise has a known content list.
-/
import FtProofs.Lemmas.KernelSwizzle
set_option linter.unusedSectionVars false
set_option linter.unusedSimpArgs false
set_option linter.unusedVariables false
namespace Ft.C06
open Ft StrictTotal

section
variable {κ : Type} [LT κ] [DecidableRel (α := κ) (· < ·)] [DecidableEq κ] [StrictTotal κ]

/-- two lexicographically sorted lists with the same members are equal -/
theorem lexSorted_ext {π : Type} : ∀ (l₁ l₂ : List (List κ × π)), LexSorted l₁ → LexSorted l₂ →
    (∀ x, x ∈ l₁ ↔ x ∈ l₂) → l₁ = l₂
  | [], [], _, _, _ => rfl
  | [], y :: _, _, _, h => by cases (h y).2 (List.mem_cons_self ..)
  | x :: _, [], _, _, h => by cases (h x).1 (List.mem_cons_self ..)
  | x :: r₁, y :: r₂, h1, h2, h => by
    have h1' := List.pairwise_cons.1 h1
    have h2' := List.pairwise_cons.1 h2
    have hxy : x = y := by
      rcases List.mem_cons.1 ((h x).1 (List.mem_cons_self ..)) with e | hx
      · exact e
      · rcases List.mem_cons.1 ((h y).2 (List.mem_cons_self ..)) with e | hy
        · exact e.symm
        · have a := h2'.1 x hx
          have b := h1'.1 y hy
          have := lexLt_trans a b
          rw [lexLt_irrefl] at this; cases this
    subst hxy
    congr 1
    apply lexSorted_ext r₁ r₂ h1'.2 h2'.2
    intro z
    constructor
    · intro hz
      rcases List.mem_cons.1 ((h z).1 (List.mem_cons_of_mem _ hz)) with e | hz'
      · subst e
        have := h1'.1 z hz
        rw [lexLt_irrefl] at this; cases this
      · exact hz'
    · intro hz
      rcases List.mem_cons.1 ((h z).2 (List.mem_cons_of_mem _ hz)) with e | hz'
      · subst e
        have := h2'.1 z hz
        rw [lexLt_irrefl] at this; cases this
      · exact hz'

variable {ν : Type} [DecidableEq ν] (dflt : ν)

theorem content_len : ∀ (d : Nat) (t : Tree κ ν d), ∀ pv ∈ content dflt d t, pv.1.length = d
  | 0, v, pv, h => by
    have h' : pv ∈ (if (show ν from v) = dflt then [] else [([], (show ν from v))]) := h
    by_cases hv : (show ν from v) = dflt
    · rw [if_pos hv] at h'; cases h'
    · rw [if_neg hv] at h'; rw [List.mem_singleton.1 h']; rfl
  | d + 1, f, pv, h => by
    rw [content_succ] at h
    obtain ⟨e, _, hpv⟩ := List.mem_flatMap.1 h
    obtain ⟨x, hx, rfl⟩ := List.mem_map.1 hpv
    simp [content_len d e.2 x hx]

theorem content_lexSorted : ∀ (d : Nat) (t : Tree κ ν d), Ft.WF d t → LexSorted (content dflt d t)
  | 0, v, _ => by
    show LexSorted (if (show ν from v) = dflt then [] else [([], (show ν from v))])
    by_cases hv : (show ν from v) = dflt
    · rw [if_pos hv]; exact List.Pairwise.nil
    · rw [if_neg hv]; exact List.pairwise_singleton _ _
  | d + 1, f, hw => by
    rw [content_succ]
    unfold LexSorted
    rw [List.pairwise_flatMap]
    constructor
    · intro e he
      unfold pre
      rw [List.pairwise_map]
      exact (content_lexSorted d e.2 (hw.sub e he)).imp (fun {a b} hab => by
        show lexLt (e.1 :: a.1) (e.1 :: b.1) = true
        rw [lexLt_cons, if_neg (irrefl _), if_pos rfl]; exact hab)
    · have hs : Sorted (show List (κ × Tree κ ν d) from f) := hw.sorted
      exact hs.imp (fun {a b} hab x hx y hy => by
        obtain ⟨x', _, rfl⟩ := List.mem_map.1 hx
        obtain ⟨y', _, rfl⟩ := List.mem_map.1 hy
        show lexLt (a.1 :: x'.1) (b.1 :: y'.1) = true
        rw [lexLt_cons, if_pos hab])

theorem clookup_of_mem {l : List (List κ × ν)} (hd : KeysDistinct l) {p : List κ} {v : ν}
    (h : (p, v) ∈ l) : clookup l p = some v := by
  induction l with
  | nil => cases h
  | cons a r ih =>
    have hd' := List.pairwise_cons.1 hd
    unfold clookup
    rw [List.find?_cons]
    rcases List.mem_cons.1 h with e | hr
    · subst e; simp
    · have : a.1 ≠ p := fun e => hd'.1 (p, v) hr e
      simp only [this, decide_false]
      exact ih hd'.2 hr

theorem mem_of_clookup {l : List (List κ × ν)} {p : List κ} {v : ν} (h : clookup l p = some v) :
    (p, v) ∈ l := by
  unfold clookup at h
  cases hf : l.find? (fun pv => pv.1 = p) with
  | none => rw [hf] at h; cases h
  | some e =>
    rw [hf] at h
    have h1 := List.find?_some hf
    have h2 := List.mem_of_find?_eq_some hf
    simp only [decide_eq_true_eq] at h1
    simp only [Option.map_some, Option.some.injEq] at h
    rw [← h1, ← h]; exact h2

/-- membership in the content of a well-formed tree -/
theorem mem_content_iff (d : Nat) (t : Tree κ ν d) (hw : Ft.WF d t) (p : List κ) (v : ν) :
    (p, v) ∈ content dflt d t ↔ p.length = d ∧ val dflt d t p = v ∧ v ≠ dflt := by
  constructor
  · intro h
    have hl := content_len dflt d t (p, v) h
    refine ⟨hl, ?_, content_ne_default dflt d t (p, v) h⟩
    rw [val_eq_content dflt d t hw p hl,
      clookup_of_mem (lexSorted_distinct (content_lexSorted dflt d t hw)) h]
    rfl
  · rintro ⟨hl, hv, hne⟩
    rw [val_eq_content dflt d t hw p hl] at hv
    apply mem_of_clookup
    cases hc : clookup (content dflt d t) p with
    | none => rw [hc] at hv; exact absurd hv.symm hne
    | some w => rw [hc] at hv; simp only [Option.getD_some] at hv; rw [hv]

end

section
variable {κ : Type} [LT κ] [DecidableRel (α := κ) (· < ·)] [DecidableEq κ] [StrictTotal κ]

theorem mem_denseOn (U : List κ) (vars : List Nat) (ops : List (Cur κ)) (zpt : (Nat → κ) → List κ)
    (σ0 : Nat → κ) (cands : List (List κ)) (q : List κ) (v : Int) :
    (q, v) ∈ denseOn U vars ops zpt σ0 cands ↔
      q ∈ cands ∧ v = einsum U vars ops zpt q σ0 ∧ v ≠ 0 := by
  unfold denseOn
  rw [List.mem_filterMap]
  constructor
  · rintro ⟨q', hq', h⟩
    by_cases h0 : einsum U vars ops zpt q' σ0 = 0
    · simp [h0] at h
    · simp only [h0, if_false, Option.some.injEq, Prod.mk.injEq] at h
      obtain ⟨e1, e2⟩ := h
      subst e1
      exact ⟨hq', e2.symm, e2 ▸ h0⟩
  · rintro ⟨hq, hv, hne⟩
    refine ⟨q, hq, ?_⟩
    have : ¬ einsum U vars ops zpt q σ0 = 0 := hv ▸ hne
    simp [this, hv]

theorem denseOn_lexSorted (U : List κ) (vars : List Nat) (ops : List (Cur κ)) (zpt : (Nat → κ) → List κ)
    (σ0 : Nat → κ) (cands : List (List κ)) (hc : cands.Pairwise (fun a b => lexLt a b = true)) :
    LexSorted (denseOn U vars ops zpt σ0 cands) := by
  unfold denseOn LexSorted
  apply List.Pairwise.filterMap _ _ hc
  intro a b hab x hx y hy
  by_cases ha : einsum U vars ops zpt a σ0 = 0
  · simp [ha] at hx
  · by_cases hb : einsum U vars ops zpt b σ0 = 0
    · simp [hb] at hy
    · simp only [ha, if_false, Option.some.injEq] at hx
      simp only [hb, if_false, Option.some.injEq] at hy
      rw [← hx, ← hy]; exact hab

end
/-! ### all points of a shape -/
section
variable {κ : Type} [LT κ] [DecidableRel (α := κ) (· < ·)] [DecidableEq κ] [StrictTotal κ]

theorem mem_points (U : List κ) : ∀ (d : Nat) (q : List κ), q.length = d → (∀ x ∈ q, x ∈ U) → q ∈ points U d
  | 0, q, hq, _ => by
    rw [List.length_eq_zero_iff.1 hq]; exact List.mem_singleton.2 rfl
  | d + 1, q, hq, h => by
    cases q with
    | nil => cases hq
    | cons c q' =>
      show c :: q' ∈ List.flatMap _ U
      rw [List.mem_flatMap]
      refine ⟨c, h c (List.mem_cons_self ..), List.mem_map.2 ⟨q', ?_, rfl⟩⟩
      exact mem_points U d q' (by simpa using hq) (fun x hx => h x (List.mem_cons_of_mem _ hx))

theorem points_len (U : List κ) : ∀ (d : Nat) (q : List κ), q ∈ points U d → q.length = d
  | 0, q, h => by rw [List.mem_singleton.1 h]; rfl
  | d + 1, q, h => by
    have h' : q ∈ List.flatMap (fun c => (points U d).map (fun p => c :: p)) U := h
    obtain ⟨c, _, hq⟩ := List.mem_flatMap.1 h'
    obtain ⟨q', hq', rfl⟩ := List.mem_map.1 hq
    simp [points_len U d q' hq']

theorem points_sorted (U : List κ) (hU : Asc U) : ∀ d, (points U d).Pairwise (fun a b => lexLt a b = true)
  | 0 => List.pairwise_singleton _ _
  | d + 1 => by
    show List.Pairwise _ (List.flatMap (fun c => (points U d).map (fun p => c :: p)) U)
    rw [List.pairwise_flatMap]
    constructor
    · intro c _
      rw [List.pairwise_map]
      exact (points_sorted U hU d).imp (fun {a b} hab => by
        rw [lexLt_cons, if_neg (irrefl c), if_pos rfl]; exact hab)
    · exact hU.imp (fun {a b} hab x hx y hy => by
        obtain ⟨x', _, rfl⟩ := List.mem_map.1 hx
        obtain ⟨y', _, rfl⟩ := List.mem_map.1 hy
        rw [lexLt_cons, if_pos hab])

end

end Ft.C06
