/-
  Helper lemmas for C01: each mutator keeps fibers sorted; rejected operations change nothing.
-/
import FtProofs.Lemmas.PopLemmas
import FtModel.Mutate
set_option linter.unusedSectionVars false
set_option linter.unusedSimpArgs false
namespace Ft
open StrictTotal

section
variable {κ π : Type} [LT κ] [DecidableRel (α := κ) (· < ·)] [DecidableEq κ] [StrictTotal κ]

theorem sorted_le_last : ∀ {f : Fib κ π} {e : κ × π}, Sorted f → f.getLast? = some e →
    ∀ x ∈ f, x = e ∨ x.1 < e.1
  | [], _, _, h => by simp at h
  | [a], e, _, h => by
    simp only [List.getLast?_singleton, Option.some.injEq] at h
    intro x hx; left; rw [List.mem_singleton.1 hx, h]
  | a :: b :: r, e, hs, h => by
    have h' : (b :: r).getLast? = some e := by simpa [List.getLast?_cons_cons] using h
    intro x hx
    rcases List.mem_cons.1 hx with rfl | hx
    · right
      rcases sorted_le_last hs.tail h' b (List.mem_cons_self ..) with hb | hb
      · rw [← hb]; exact hs.head_lt b (List.mem_cons_self ..)
      · exact trans (hs.head_lt b (List.mem_cons_self ..)) hb
    · exact sorted_le_last hs.tail h' x hx

theorem sorted_snoc {f : Fib κ π} {c : κ} {v : π} (hs : Sorted f)
    (h : ∀ x ∈ f, x.1 < c) : Sorted (f ++ [(c, v)]) :=
  sorted_append hs (sorted_cons.2 ⟨(fun _ h => by cases h), sorted_nil⟩)
    (fun x hx y hy => by rw [List.mem_singleton.1 hy]; exact h x hx)

theorem all_lt_of_last_lt {f : Fib κ π} {e : κ × π} {c : κ} (hs : Sorted f)
    (hl : f.getLast? = some e) (hc : e.1 < c) : ∀ x ∈ f, x.1 < c := by
  intro x hx
  rcases sorted_le_last hs hl x hx with rfl | h
  · exact hc
  · exact trans h hc

theorem appendF_sorted (f : Fib κ π) (c : κ) (v : π) (hs : Sorted f) : Sorted (appendF f c v).1 := by
  unfold appendF
  cases hl : f.getLast? with
  | none =>
    have : f = [] := by simpa using hl
    subst this
    exact sorted_snoc sorted_nil (fun _ h => by cases h)
  | some e =>
    by_cases h : e.1 < c
    · simp only [h, if_true]; exact sorted_snoc hs (all_lt_of_last_lt hs hl h)
    · simp only [h, if_false]; exact hs

theorem appendF_mem (f : Fib κ π) (c : κ) (v : π) : ∀ x ∈ (appendF f c v).1, x ∈ f ∨ x = (c, v) := by
  unfold appendF
  intro x hx
  cases hl : f.getLast? with
  | none => rw [hl] at hx; simpa using hx
  | some e =>
    rw [hl] at hx
    by_cases h : e.1 < c
    · simp only [h, if_true] at hx; simpa using hx
    · simp only [h, if_false] at hx; exact Or.inl hx

theorem appendF_rejected (f : Fib κ π) (c : κ) (v : π) (h : (appendF f c v).2 ≠ .ok) : (appendF f c v).1 = f := by
  unfold appendF at *
  cases hl : f.getLast? with
  | none => simp only [hl] at h; exact absurd rfl h
  | some e =>
    simp only [hl] at h ⊢
    by_cases hc : e.1 < c
    · simp only [hc, if_true] at h; exact absurd rfl h
    · simp only [hc, if_false]

theorem extendF_sorted (b : Bool) (f g : Fib κ π) (hf : Sorted f) (hg : Sorted g) : Sorted (extendF b f g).1 := by
  unfold extendF
  by_cases hb : b = true
  · simp only [hb, if_true]; exact hf
  · simp only [hb, Bool.false_eq_true, if_false]
    cases hl : f.getLast? with
    | none =>
      have : f = [] := by simpa using hl
      subst this; simpa using hg
    | some e =>
      cases hh : g.head? with
      | none =>
        have : g = [] := by simpa using hh
        subst this; simpa using hf
      | some h =>
        by_cases hc : e.1 < h.1
        · simp only [hc, if_true]
          apply sorted_append hf hg
          intro x hx y hy
          have h1 := all_lt_of_last_lt hf hl hc x hx
          cases g with
          | nil => cases hy
          | cons g0 gr =>
            simp only [List.head?_cons, Option.some.injEq] at hh
            subst hh
            rcases List.mem_cons.1 hy with rfl | hy
            · exact h1
            · exact trans h1 (hg.head_lt y hy)
        · simp only [hc, if_false]; exact hf

theorem extendF_mem (b : Bool) (f g : Fib κ π) : ∀ x ∈ (extendF b f g).1, x ∈ f ∨ x ∈ g := by
  unfold extendF
  intro x hx
  by_cases hb : b = true
  · simp only [hb, if_true] at hx; exact Or.inl hx
  · simp only [hb, Bool.false_eq_true, if_false] at hx
    cases hl : f.getLast? with
    | none => rw [hl] at hx; simpa using hx
    | some e =>
      rw [hl] at hx
      cases hh : g.head? with
      | none => rw [hh] at hx; simpa using hx
      | some h =>
        rw [hh] at hx
        by_cases hc : e.1 < h.1
        · simp only [hc, if_true] at hx; simpa using hx
        · simp only [hc, if_false] at hx; exact Or.inl hx

theorem extendF_rejected (b : Bool) (f g : Fib κ π) (h : (extendF b f g).2 ≠ .ok) : (extendF b f g).1 = f := by
  unfold extendF at *
  by_cases hb : b = true
  · simp only [hb, if_true]
  · simp only [hb, Bool.false_eq_true, if_false] at h ⊢
    cases hl : f.getLast? with
    | none => simp only [hl] at h; exact absurd rfl h
    | some e =>
      simp only [hl] at h ⊢
      cases hh : g.head? with
      | none => simp only [hh] at h; exact absurd rfl h
      | some h' =>
        simp only [hh] at h ⊢
        by_cases hc : e.1 < h'.1
        · simp only [hc, if_true] at h; exact absurd rfl h
        · simp only [hc, if_false]

end
end Ft

namespace Ft
open StrictTotal
section
variable {κ π : Type} [LT κ] [DecidableRel (α := κ) (· < ·)] [DecidableEq κ] [StrictTotal κ]

theorem split_at {α : Type} : ∀ (f : List α) (pos : Nat) (old : α), f[pos]? = some old →
    ∃ A B, f = A ++ old :: B ∧ A.length = pos
  | [], _, _, h => by simp at h
  | a :: r, 0, old, h => by
    simp only [List.getElem?_cons_zero, Option.some.injEq] at h
    exact ⟨[], r, by simp [h], rfl⟩
  | a :: r, n + 1, old, h => by
    simp only [List.getElem?_cons_succ] at h
    obtain ⟨A, B, hf, hl⟩ := split_at r n old h
    exact ⟨a :: A, B, by simp [hf], by simp [hl]⟩

theorem getLast?_eq_of_append_len {α : Type} (A : List α) (x : α) (B : List α) (h : 0 < A.length) :
    (A ++ x :: B)[A.length - 1]? = A.getLast? := by
  rw [List.getElem?_append_left (by omega), List.getLast?_eq_getElem?]

/-- the accepted case of `__setitem__` with a new coordinate -/
theorem set_sorted {f : Fib κ π} {pos : Nat} {old : κ × π} (hs : Sorted f) (hp : f[pos]? = some old)
    (c : κ) (p : π)
    (hleft : pos = 0 ∨ ∃ l, f[pos - 1]? = some l ∧ l.1 < c)
    (hright : f[pos + 1]? = none ∨ ∃ r, f[pos + 1]? = some r ∧ c < r.1) :
    Sorted (f.set pos (c, p)) := by
  obtain ⟨A, B, hf, hl⟩ := split_at f pos old hp
  subst hl
  have hsA : Sorted A := (hf ▸ hs).of_append_left
  have hsB : Sorted (old :: B) := (hf ▸ hs).of_append_right
  have hA : ∀ x ∈ A, x.1 < c := by
    rcases hleft with h0 | ⟨l, hl1, hl2⟩
    · have : A = [] := List.eq_nil_of_length_eq_zero h0
      subst this; intro x hx; cases hx
    · by_cases hA0 : A.length = 0
      · have : A = [] := List.eq_nil_of_length_eq_zero hA0
        subst this; intro x hx; cases hx
      · rw [hf, getLast?_eq_of_append_len A old B (by omega)] at hl1
        exact all_lt_of_last_lt hsA hl1 hl2
  have hB : ∀ y ∈ B, c < y.1 := by
    have e1 : f[A.length + 1]? = B[0]? := by
      rw [hf, List.getElem?_append_right (by omega)]
      have : A.length + 1 - A.length = 1 := by omega
      rw [this]; rfl
    cases B with
    | nil => intro y hy; cases hy
    | cons b0 br =>
      rw [e1] at hright
      simp only [List.getElem?_cons_zero] at hright
      rcases hright with h | ⟨r, hr1, hr2⟩
      · cases h
      · simp only [Option.some.injEq] at hr1
        subst hr1
        intro y hy
        rcases List.mem_cons.1 hy with rfl | hy
        · exact hr2
        · exact trans hr2 (hsB.tail.head_lt y hy)
  rw [hf, set_append_len]
  exact sorted_append hsA (sorted_cons.2 ⟨hB, hsB.tail⟩)
    (fun x hx y hy => by
      rcases List.mem_cons.1 hy with rfl | hy
      · exact hA x hx
      · exact trans (hA x hx) (hB y hy))

/-- replacing only the payload keeps the order -/
theorem set_payload_sorted {f : Fib κ π} {pos : Nat} {old : κ × π} (hs : Sorted f) (hp : f[pos]? = some old)
    (p : π) : Sorted (f.set pos (old.1, p)) := by
  obtain ⟨A, B, hf, hl⟩ := split_at f pos old hp
  subst hl
  have hs' : Sorted (A ++ old :: B) := hf ▸ hs
  rw [hf, set_append_len]
  exact sorted_append hs'.of_append_left (sorted_cons.2 ⟨hs'.of_append_right.head_lt, hs'.of_append_right.tail⟩)
    (fun x hx y hy => by
      rcases List.mem_cons.1 hy with rfl | hy
      · exact hs'.append_lt x hx old (List.mem_cons_self ..)
      · exact hs'.append_lt x hx y (List.mem_cons_of_mem _ hy))

theorem setitemF_sorted (f : Fib κ π) (pos : Nat) (c : Option κ) (v : Option π) (hs : Sorted f) :
    Sorted (setitemF f pos c v).1 := by
  unfold setitemF
  cases hp : f[pos]? with
  | none => exact hs
  | some old =>
    simp only
    by_cases hok : (leftOk f pos c && rightOk f pos c) = true
    · simp only [hok, if_true]
      cases c with
      | none => exact set_payload_sorted hs hp _
      | some c =>
        rw [Bool.and_eq_true] at hok
        obtain ⟨hl, hr⟩ := hok
        simp only [leftOk, Bool.or_eq_true] at hl
        simp only [rightOk] at hr
        apply set_sorted hs hp
        · rcases hl with h | h
          · left; simpa using h
          · cases hlk : f[pos - 1]? with
            | none =>
              left
              have hlen := (List.getElem?_eq_some_iff.1 hp).1
              rcases Nat.eq_zero_or_pos pos with h0 | h0
              · exact h0
              · have : pos - 1 < f.length := by omega
                rw [List.getElem?_eq_getElem this] at hlk; cases hlk
            | some l => right; rw [hlk] at h; exact ⟨l, rfl, by simpa using h⟩
        · cases hrk : f[pos + 1]? with
          | none => left; rfl
          | some r => right; rw [hrk] at hr; exact ⟨r, rfl, by simpa using hr⟩
    · simp only [hok, Bool.false_eq_true, if_false]; exact hs

theorem setitemF_rejected (f : Fib κ π) (pos : Nat) (c : Option κ) (v : Option π)
    (h : (setitemF f pos c v).2 ≠ .ok) : (setitemF f pos c v).1 = f := by
  unfold setitemF at *
  cases hp : f[pos]? with
  | none => rfl
  | some old =>
    simp only [hp] at h ⊢
    by_cases hok : (leftOk f pos c && rightOk f pos c) = true
    · simp only [hok, if_true] at h; exact absurd rfl h
    · simp only [hok, Bool.false_eq_true, if_false]

theorem setitemF_mem (f : Fib κ π) (pos : Nat) (c : Option κ) (v : Option π) :
    ∀ x ∈ (setitemF f pos c v).1, x ∈ f ∨ (∃ old ∈ f, x.2 = v.getD old.2) := by
  unfold setitemF
  intro x hx
  cases hp : f[pos]? with
  | none => rw [hp] at hx; exact Or.inl hx
  | some old =>
    rw [hp] at hx
    simp only at hx
    by_cases hok : (leftOk f pos c && rightOk f pos c) = true
    · simp only [hok, if_true] at hx
      rcases List.mem_or_eq_of_mem_set hx with h | h
      · exact Or.inl h
      · exact Or.inr ⟨old, List.mem_of_getElem? hp, by rw [h]⟩
    · simp only [hok, Bool.false_eq_true, if_false] at hx; exact Or.inl hx

theorem posrefF_sorted (mk : π) (f : Fib κ π) (c : κ) (hs : Sorted f) : Sorted (posrefF mk f c) := by
  unfold posrefF insertIfMissing
  rw [posLookup_eq_lookup hs]
  cases hl : lookup f c with
  | some _ => exact hs
  | none => exact insertAt_sorted hs hl mk

theorem posrefF_mem (mk : π) (f : Fib κ π) (c : κ) : ∀ x ∈ posrefF mk f c, x ∈ f ∨ x = (c, mk) := by
  unfold posrefF insertIfMissing
  intro x hx
  cases hl : posLookup f c with
  | some _ => rw [hl] at hx; exact Or.inl hx
  | none =>
    rw [hl] at hx
    rcases mem_insertAt.1 hx with h | h
    · exact Or.inr h
    · exact Or.inl h

end

section
variable {π : Type}

theorem updCoordsF_sorted (k m : Int) (hk : k ≠ 0) (f : Fib Int π) (hs : Sorted f) :
    Sorted (updCoordsF k m f) := by
  unfold updCoordsF Sorted at *
  by_cases hneg : k < 0
  · simp only [hneg, if_true]
    rw [List.pairwise_reverse, List.pairwise_map]
    exact hs.imp (fun {a b} hab => by
      show k * b.1 + m < k * a.1 + m
      have : k * b.1 < k * a.1 := Int.mul_lt_mul_of_neg_left hab hneg
      omega)
  · simp only [hneg, if_false]
    rw [List.pairwise_map]
    have hpos : 0 < k := by omega
    exact hs.imp (fun {a b} hab => by
      show k * a.1 + m < k * b.1 + m
      have : k * a.1 < k * b.1 := Int.mul_lt_mul_of_pos_left hab hpos
      omega)

theorem updCoordsF_mem (k m : Int) (f : Fib Int π) :
    ∀ x ∈ updCoordsF k m f, ∃ e ∈ f, x.2 = e.2 := by
  unfold updCoordsF
  intro x hx
  by_cases hneg : k < 0
  · simp only [hneg, if_true, List.mem_reverse, List.mem_map] at hx
    obtain ⟨e, he, rfl⟩ := hx; exact ⟨e, he, rfl⟩
  · simp only [hneg, if_false, List.mem_map] at hx
    obtain ⟨e, he, rfl⟩ := hx; exact ⟨e, he, rfl⟩

end
end Ft

namespace Ft
open StrictTotal
section
variable {κ ν : Type} [LT κ] [DecidableRel (α := κ) (· < ·)] [DecidableEq κ] [StrictTotal κ]

theorem map_key_id {f : Fib κ (Tree κ ν d)} {c : κ} {s : Tree κ ν d} (hs : Sorted f)
    (hl : lookup f c = some s) : f.map (fun e => if e.1 = c then (e.1, s) else e) = f := by
  have : ∀ e ∈ f, (if e.1 = c then (e.1, s) else e) = e := by
    intro e he
    by_cases hc : e.1 = c
    · simp only [hc, if_true]
      have := lookup_of_sorted_mem hs he
      rw [hc, hl] at this
      simp only [Option.some.injEq] at this
      rw [this, ← hc]
    · simp only [hc, if_false]
  calc f.map (fun e => if e.1 = c then (e.1, s) else e) = f.map id := List.map_congr_left this
    _ = f := List.map_id f

/-- a transformer that keeps every fiber well-formed keeps the tree well-formed wherever it is applied -/
theorem atPath_wf (F : (d : Nat) → Tree κ ν (d + 1) → Tree κ ν (d + 1) × Outcome)
    (hF : ∀ d f, WF (d + 1) f → WF (d + 1) (F d f).1) :
    ∀ (d : Nat) (t : Tree κ ν (d + 1)) (path : List κ), WF (d + 1) t → WF (d + 1) (atPath F d t path).1
  | d, t, [], h => by simp only [atPath]; exact hF d t h
  | 0, t, _ :: _, h => by simp only [atPath]; exact h
  | d + 1, (t : List (κ × Tree κ ν (d + 1))), c :: cs, h => by
    simp only [atPath]
    cases hl : lookup (show List (κ × Tree κ ν (d + 1)) from t) c with
    | none => exact h
    | some s =>
      have ih := atPath_wf F hF d s cs (h.sub _ (lookup_mem hl))
      refine ⟨sorted_map_payload _ _ (fun e => by by_cases he : e.1 = c <;> simp [he]) h.sorted, ?_⟩
      intro e he
      obtain ⟨x, hx, rfl⟩ := List.mem_map.1 he
      by_cases hxc : x.1 = c
      · simp only [hxc, if_true]; exact ih
      · simp only [hxc, if_false]; exact h.sub x hx

/-- … and a transformer whose rejections change nothing changes nothing when rejected at depth -/
theorem atPath_rejected (F : (d : Nat) → Tree κ ν (d + 1) → Tree κ ν (d + 1) × Outcome)
    (hF : ∀ d f, (F d f).2 ≠ .ok → (F d f).1 = f) :
    ∀ (d : Nat) (t : Tree κ ν (d + 1)) (path : List κ), WF (d + 1) t →
      (atPath F d t path).2 ≠ .ok → (atPath F d t path).1 = t
  | d, t, [], _, hr => by simp only [atPath] at hr ⊢; exact hF d t hr
  | 0, t, _ :: _, _, _ => by simp only [atPath]
  | d + 1, (t : List (κ × Tree κ ν (d + 1))), c :: cs, h, hr => by
    simp only [atPath] at hr ⊢
    cases hl : lookup (show List (κ × Tree κ ν (d + 1)) from t) c with
    | none => rfl
    | some s =>
      simp only [hl] at hr ⊢
      have ih := atPath_rejected F hF d s cs (h.sub _ (lookup_mem hl)) hr
      rw [ih]
      exact map_key_id h.sorted hl

end
end Ft
