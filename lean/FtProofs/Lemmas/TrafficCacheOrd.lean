/-
  Helper lemmas for C17 (cache): the order of `ListElem`, `SortedList.add`, first / last element
  of a strictly sorted list, and `furthest` of the reference simulator.
-/
import FtProofs.Lemmas.TrafficBasic
set_option linter.unusedSectionVars false
set_option linter.unusedSimpArgs false
set_option linter.unusedVariables false
namespace Ft
namespace Traffic

/-- `ListElem.__eq__` -/
def LElem.keq (a b : LElem) : Prop := a.next = b.next ∧ a.pos = b.pos

theorem LElem.lt_irrefl (a : LElem) : a.lt a = false := by simp [LElem.lt]

theorem LElem.lt_trans {a b c : LElem} (h1 : a.lt b = true) (h2 : b.lt c = true) : a.lt c = true := by
  unfold LElem.lt at *
  by_cases hab : a.next = b.next
  · by_cases hbc : b.next = c.next
    · have hac : a.next = c.next := hab.trans hbc
      simp only [hab, hbc, ne_eq, not_true_eq_false, if_false, decide_eq_true_eq] at h1 h2
      simp only [hac, ne_eq, not_true_eq_false, if_false, decide_eq_true_eq]
      omega
    · have hac : ¬ a.next = c.next := by rw [hab]; exact hbc
      simp only [hbc, ne_eq, not_false_eq_true, if_true] at h2
      simp only [hac, ne_eq, not_false_eq_true, if_true]
      rw [hab]; exact h2
  · by_cases hbc : b.next = c.next
    · have hac : ¬ a.next = c.next := by rw [← hbc]; exact hab
      simp only [hab, ne_eq, not_false_eq_true, if_true] at h1
      simp only [hac, ne_eq, not_false_eq_true, if_true]
      rw [← hbc]; exact h1
    · simp only [hab, hbc, ne_eq, not_false_eq_true, if_true] at h1 h2
      have hlt := lexLt_trans h1 h2
      have hac : ¬ a.next = c.next := lexLt_ne hlt
      simp [hac, hlt]

theorem LElem.lt_asymm {a b : LElem} (h : a.lt b = true) : b.lt a = false := by
  cases hb : b.lt a
  · rfl
  · have := LElem.lt_trans h hb; rw [LElem.lt_irrefl] at this; cases this

theorem LElem.lt_total {a b : LElem} (h1 : a.lt b = false) (h2 : b.lt a = false) : a.keq b := by
  unfold LElem.lt at *
  by_cases hab : a.next = b.next
  · simp only [hab, ne_eq, not_true_eq_false, if_false, decide_eq_false_iff_not] at h1 h2
    exact ⟨hab, by omega⟩
  · have hba : ¬ b.next = a.next := fun e => hab e.symm
    simp only [hab, ne_eq, not_false_eq_true, if_true] at h1
    simp only [hba, ne_eq, not_false_eq_true, if_true] at h2
    exact absurd (lexLt_total h1 h2) hab

theorem LElem.not_keq_of_lt {a b : LElem} (h : a.lt b = true) : ¬ a.keq b := by
  rintro ⟨h1, h2⟩
  simp [LElem.lt, h1, h2] at h

theorem LElem.le_iff {a b : LElem} (hne : ¬ a.keq b) : a.le b = true ↔ b.lt a = false := by
  unfold LElem.le
  constructor
  · intro h
    simp only [Bool.or_eq_true, Bool.and_eq_true, decide_eq_true_eq] at h
    rcases h with h | h
    · exact LElem.lt_asymm h
    · exact absurd h hne
  · intro h
    cases hab : a.lt b
    · exact absurd (LElem.lt_total hab h) hne
    · simp

/-- strictly sorted -/
def SSorted (l : List LElem) : Prop := l.Pairwise (fun a b => a.lt b = true)

theorem mem_sortedAdd (e : LElem) : ∀ (l : List LElem) (y : LElem), y ∈ sortedAdd e l ↔ y = e ∨ y ∈ l
  | [], y => by simp [sortedAdd]
  | x :: xs, y => by
    unfold sortedAdd
    split
    · simp
    · simp only [List.mem_cons, mem_sortedAdd e xs y]
      constructor
      · rintro (h | h | h)
        · exact Or.inr (Or.inl h)
        · exact Or.inl h
        · exact Or.inr (Or.inr h)
      · rintro (h | h | h)
        · exact Or.inr (Or.inl h)
        · exact Or.inl h
        · exact Or.inr (Or.inr h)

theorem sortedAdd_length (e : LElem) : ∀ (l : List LElem), (sortedAdd e l).length = l.length + 1
  | [] => rfl
  | x :: xs => by
    unfold sortedAdd
    split
    · simp
    · simp [sortedAdd_length e xs]

theorem sortedAdd_sorted (e : LElem) : ∀ (l : List LElem), SSorted l → (∀ x ∈ l, ¬ e.keq x) →
    SSorted (sortedAdd e l)
  | [], _, _ => by simp [sortedAdd, SSorted]
  | x :: xs, hs, hne => by
    unfold sortedAdd
    have hs' := List.pairwise_cons.1 hs
    split
    · rename_i hlt
      apply List.pairwise_cons.2
      refine ⟨?_, hs⟩
      intro y hy
      rcases List.mem_cons.1 hy with rfl | hy
      · exact hlt
      · exact LElem.lt_trans hlt (hs'.1 y hy)
    · rename_i hnlt
      apply List.pairwise_cons.2
      refine ⟨?_, sortedAdd_sorted e xs hs'.2 (fun y hy => hne y (List.mem_cons_of_mem _ hy))⟩
      intro y hy
      rcases (mem_sortedAdd e xs y).1 hy with rfl | hy
      · cases hxe : x.lt y
        · exfalso
          have hk := LElem.lt_total (by simpa using hnlt) hxe
          exact hne x List.mem_cons_self hk
        · rfl
      · exact hs'.1 y hy

/-- an element below all others is the first of a strictly sorted list -/
theorem ssorted_head {h : LElem} {t : List LElem} (hs : SSorted (h :: t)) {m : LElem} (hm : m ∈ h :: t)
    (hmin : ∀ y ∈ h :: t, y ≠ m → m.lt y = true) : m = h := by
  rcases List.mem_cons.1 hm with rfl | hmt
  · rfl
  · have h1 := (List.pairwise_cons.1 hs).1 m hmt
    by_cases e : h = m
    · exact e.symm
    · have h2 := hmin h List.mem_cons_self e
      rw [LElem.lt_asymm h1] at h2; cases h2

theorem ssorted_nodup {l : List LElem} (hs : SSorted l) : l.Nodup := by
  unfold SSorted at hs
  apply List.Pairwise.imp _ hs
  intro a b h e
  subst e; rw [LElem.lt_irrefl] at h; cases h

/-- every element is below the last of a strictly sorted list -/
theorem ssorted_last : ∀ {l : List LElem} {far : LElem}, SSorted l → l.getLast? = some far →
    far ∈ l ∧ ∀ y ∈ l, y = far ∨ y.lt far = true
  | [x], far, _, h => by
    simp at h; subst h; simp
  | x :: y :: r, far, hs, h => by
    have hs' := List.pairwise_cons.1 hs
    have h' : (y :: r).getLast? = some far := by simpa [List.getLast?_cons_cons] using h
    obtain ⟨hm, hall⟩ := ssorted_last hs'.2 h'
    refine ⟨List.mem_cons_of_mem _ hm, ?_⟩
    intro z hz
    rcases List.mem_cons.1 hz with rfl | hz
    · exact Or.inr (hs'.1 far hm)
    · exact hall z hz
  | [], _, _, h => by simp at h

theorem dropLast_append_last {l : List LElem} {far : LElem} (h : l.getLast? = some far) :
    l = l.dropLast ++ [far] := by
  have hne : l ≠ [] := by intro e; rw [e] at h; cases h
  have := List.dropLast_concat_getLast hne
  rw [List.getLast?_eq_some_getLast hne] at h
  cases h
  exact this.symm

theorem mem_dropLast_of_ssorted {l : List LElem} {far : LElem} (hs : SSorted l)
    (h : l.getLast? = some far) (y : LElem) : y ∈ l.dropLast ↔ y ∈ l ∧ y ≠ far := by
  have hl := dropLast_append_last h
  have hnd := ssorted_nodup hs
  rw [hl] at hnd
  have hnd' := List.nodup_append.1 hnd
  constructor
  · intro hy
    refine ⟨by rw [hl]; exact List.mem_append_left _ hy, ?_⟩
    intro e; subst e
    exact hnd'.2.2 y hy y (by simp) rfl
  · rintro ⟨hy, hne⟩
    rw [hl] at hy
    rcases List.mem_append.1 hy with h1 | h1
    · exact h1
    · simp at h1; exact absurd h1 hne

theorem ssorted_dropLast {l : List LElem} (hs : SSorted l) : SSorted l.dropLast :=
  List.Pairwise.sublist (List.dropLast_sublist l) hs

theorem ssorted_tail {h : LElem} {t : List LElem} (hs : SSorted (h :: t)) : SSorted t :=
  (List.pairwise_cons.1 hs).2

/-! ### `furthest`: the unpinned resident line with the least `nextIdx` -/

theorem furthest_none {res : List REntry} :
    furthest res = none ↔ ∀ e ∈ res, e.pinned = true := by
  induction res with
  | nil => simp [furthest]
  | cons e r ih =>
    cases he : e.pinned
    · simp only [furthest, he, Bool.false_eq_true, if_false]
      constructor
      · intro h
        cases hf : furthest r <;> simp [hf] at h
        split at h <;> cases h
      · intro h
        have := h e List.mem_cons_self
        rw [he] at this; cases this
    · simp only [furthest, he, if_true, ih]
      constructor
      · intro h x hx
        rcases List.mem_cons.1 hx with rfl | hx
        · exact he
        · exact h x hx
      · intro h x hx; exact h x (List.mem_cons_of_mem _ hx)

theorem furthest_some {res : List REntry} {f : REntry}
    (h : furthest res = some f) :
    f ∈ res ∧ f.pinned = false ∧ ∀ e ∈ res, e.pinned = false → f.nextIdx ≤ e.nextIdx := by
  induction res generalizing f with
  | nil => simp [furthest] at h
  | cons e r ih =>
    cases he : e.pinned
    · simp only [furthest, he, Bool.false_eq_true, if_false] at h
      cases hf : furthest r with
      | none =>
        simp only [hf, Option.some.injEq] at h
        subst h
        have hall := furthest_none.1 hf
        refine ⟨List.mem_cons_self, he, ?_⟩
        intro x hx hxp
        rcases List.mem_cons.1 hx with rfl | hx
        · exact Nat.le_refl _
        · rw [hall x hx] at hxp; cases hxp
      | some g =>
        obtain ⟨hg, hgp, hall⟩ := ih hf
        simp only [hf] at h
        by_cases hlt : e.nextIdx < g.nextIdx
        · simp only [hlt, if_true, Option.some.injEq] at h
          subst h
          refine ⟨List.mem_cons_self, he, ?_⟩
          intro x hx hxp
          rcases List.mem_cons.1 hx with rfl | hx
          · exact Nat.le_refl _
          · have := hall x hx hxp; omega
        · simp only [hlt, if_false, Option.some.injEq] at h
          subst h
          refine ⟨List.mem_cons_of_mem _ hg, hgp, ?_⟩
          intro x hx hxp
          rcases List.mem_cons.1 hx with rfl | hx
          · omega
          · exact hall x hx hxp
    · simp only [furthest, he, if_true] at h
      obtain ⟨hg, hgp, hall⟩ := ih h
      refine ⟨List.mem_cons_of_mem _ hg, hgp, ?_⟩
      intro x hx hxp
      rcases List.mem_cons.1 hx with rfl | hx
      · rw [he] at hxp; cases hxp
      · exact hall x hx hxp

end Traffic
end Ft
