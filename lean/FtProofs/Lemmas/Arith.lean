/-
  Helper lemmas for C11: point lookups in merged / mapped / filtered association lists, and
  the dense view (`denseAt`) of trees.
-/
import FtModel.Arith
import FtProofs.Lemmas.Sorted
import FtProofs.Lemmas.Merge
import FtProofs.C04
set_option linter.unusedSectionVars false
set_option linter.unusedSimpArgs false
set_option linter.unusedVariables false
namespace Ft
open StrictTotal

section
variable {κ : Type} [LT κ] [DecidableRel (α := κ) (· < ·)] [DecidableEq κ] [StrictTotal κ]
variable {α β γ π : Type}

theorem hasKey_iff_lookup (f : Fib κ π) (c : κ) : HasKey f c ↔ (lookup f c).isSome = true := by
  rw [← hasCoord_iff, hasCoord_iff_lookup]

theorem mem_of_lookup {f : Fib κ π} {c : κ} {v : π} (h : lookup f c = some v) : (c, v) ∈ f := by
  induction f with
  | nil => simp [lookup_nil] at h
  | cons e r ih =>
    rw [lookup_cons] at h
    by_cases hc : e.1 = c
    · simp [hc] at h
      subst hc; subst h
      exact List.mem_cons_self ..
    · simp [hc] at h
      exact List.mem_cons_of_mem _ (ih h)

/-- lookup through a key-preserving map -/
theorem lookup_map_val (f : Fib κ α) (g : κ → α → β) (c : κ) :
    lookup (f.map (fun e => (e.1, g e.1 e.2))) c = (lookup f c).map (g c) := by
  induction f with
  | nil => rfl
  | cons e r ih =>
    simp only [List.map_cons]
    rw [lookup_cons, lookup_cons]
    by_cases hc : e.1 = c
    · subst hc; simp
    · simp [hc, ih]

/-- lookup through a filter on payloads (needs unique keys) -/
theorem lookup_filter_val {f : Fib κ α} (hs : Sorted f) (q : α → Bool) (c : κ) :
    lookup (f.filter (fun e => q e.2)) c = (lookup f c).filter q := by
  induction f with
  | nil => rfl
  | cons e r ih =>
    rw [lookup_cons]
    by_cases hc : e.1 = c
    · subst hc
      by_cases hq : q e.2 = true
      · simp [List.filter_cons, hq, lookup_cons, Option.filter]
      · have hnone : lookup r e.1 = none := lookup_eq_none_of_lt (fun x hx => hs.head_lt x hx)
        simp [List.filter_cons, hq, ih hs.tail, hnone, Option.filter]
    · by_cases hq : q e.2 = true
      · simp [List.filter_cons, hq, lookup_cons, hc, ih hs.tail]
      · simp [List.filter_cons, hq, hc, ih hs.tail]

theorem sorted_filter {f : Fib κ α} (hs : Sorted f) (q : κ × α → Bool) : Sorted (f.filter q) := by
  unfold Sorted at *
  exact hs.filter q

/-- point lookup in a union: present iff present on a side; carries both sides' lookups -/
theorem lookup_orMerge (a : Fib κ α) (b : Fib κ β) (ha : Sorted a) (hb : Sorted b) (c : κ) :
    (lookup (orMerge a b) c).map (fun r => (r.2.1, r.2.2)) =
      if (lookup a c).isSome = true ∨ (lookup b c).isSome = true then some (lookup a c, lookup b c)
      else none := by
  by_cases h : (lookup a c).isSome = true ∨ (lookup b c).isSome = true
  · rw [if_pos h]
    have hk : HasKey a c ∨ HasKey b c := by
      rcases h with h | h
      · exact Or.inl ((hasKey_iff_lookup a c).2 h)
      · exact Or.inr ((hasKey_iff_lookup b c).2 h)
    obtain ⟨row, hrow, rfl⟩ := orMerge_cover a b c hk
    rw [lookup_of_sorted_mem (orMerge_sorted a b ha hb) hrow]
    obtain ⟨h1, h2, _⟩ := orMerge_rows a b ha hb row hrow
    simp [h1, h2]
  · rw [if_neg h]
    have hk : ¬ HasKey (orMerge a b) c := by
      intro hk
      rcases orMerge_keys a b c hk with hk | hk
      · exact h (Or.inl ((hasKey_iff_lookup a c).1 hk))
      · exact h (Or.inr ((hasKey_iff_lookup b c).1 hk))
    rw [lookup_none_of_not_hasKey hk]; rfl

/-- point lookup in an intersection -/
theorem lookup_andMerge (a : Fib κ α) (b : Fib κ β) (ha : Sorted a) (hb : Sorted b) (c : κ) :
    lookup (andMerge a b) c =
      match lookup a c, lookup b c with
      | some x, some y => some (x, y)
      | _, _ => none := by
  rw [and_spec a b ha hb]
  induction a with
  | nil => simp [andSpec, lookup_nil]
  | cons e r ih =>
    have hnone : ∀ (l : Fib κ (α × β)), (∀ x ∈ l, e.1 < x.1) → lookup l e.1 = none :=
      fun l hl => lookup_eq_none_of_lt hl
    have hrest : ∀ x ∈ andSpec r b, e.1 < x.1 := by
      intro x hx
      simp only [andSpec, List.mem_filterMap] at hx
      obtain ⟨y, hy, hxy⟩ := hx
      cases hl : lookup b y.1 with
      | none => simp [hl] at hxy
      | some pb =>
        simp [hl] at hxy
        subst hxy
        exact ha.head_lt y hy
    have hcons : andSpec (e :: r) b =
        match lookup b e.1 with
        | some pb => (e.1, (e.2, pb)) :: andSpec r b
        | none => andSpec r b := by
      cases hl : lookup b e.1 <;> simp [andSpec, hl]
    rw [hcons, lookup_cons]
    by_cases hc : e.1 = c
    · subst hc
      cases hl : lookup b e.1 with
      | none => simp [hnone _ hrest]
      | some pb => simp [lookup_cons]
    · have := ih ha.tail
      cases hl : lookup b e.1 with
      | none => simp [hc, this]
      | some pb => simp [lookup_cons, hc, this]

theorem lookup_consOpt (k : κ) (o : Option α) (l : Fib κ α) (c : κ) :
    lookup (consOpt k o l) c =
      match o with
      | some v => if k = c then some v else lookup l c
      | none => lookup l c := by
  cases o with
  | none => rfl
  | some v => simp [consOpt, lookup_cons]

/-- point lookup after driving the populate iterator with a body `upd` -/
theorem lookup_lshiftMerge (upd : Option α → β → Option α) (a : Fib κ α) (b : Fib κ β)
    (ha : Sorted a) (hb : Sorted b) (c : κ) :
    lookup (lshiftMerge upd a b) c =
      match lookup b c with
      | none => lookup a c
      | some vb => upd (lookup a c) vb := by
  fun_induction lshiftMerge upd a b with
  | case1 a => simp [lookup_nil]
  | case2 cb vb rb ih =>
    rw [lookup_consOpt, lookup_cons]
    have hrb : cb = c → lookup rb c = none := by
      intro h; subst h; exact lookup_eq_none_of_lt (fun x hx => hb.head_lt x hx)
    have ih' := ih sorted_nil hb.tail
    by_cases hc : cb = c
    · cases hu : upd none vb with
      | none => simp [hc, ih', hrb hc, lookup_nil, hu]
      | some v => simp [hc, lookup_nil, hu]
    · cases hu : upd none vb <;> simp [hc, ih', lookup_nil]
  | case3 pa ra ca vb rb ih =>
    rw [lookup_consOpt, lookup_cons, lookup_cons]
    have hra : ca = c → lookup ra c = none := by
      intro h; subst h; exact lookup_eq_none_of_lt (fun x hx => ha.head_lt x hx)
    have hrb : ca = c → lookup rb c = none := by
      intro h; subst h; exact lookup_eq_none_of_lt (fun x hx => hb.head_lt x hx)
    have ih' := ih ha.tail hb.tail
    by_cases hc : ca = c
    · cases hu : upd (some pa) vb with
      | none => simp [hc, ih', hrb hc, hra hc, hu]
      | some v => simp [hc, hu]
    · cases hu : upd (some pa) vb <;> simp [hc, ih']
  | case4 ca pa ra cb vb rb hne hlt ih =>
    rw [lookup_cons]
    have ih' := ih ha.tail hb
    by_cases hc : ca = c
    · have hb' : lookup ((cb, vb) :: rb) c = none := by
        subst hc
        apply lookup_eq_none_of_lt
        intro x hx
        rcases List.mem_cons.1 hx with rfl | hx
        · exact hlt
        · exact trans hlt (hb.head_lt x hx)
      simp [hc, hb', lookup_cons]
    · rw [if_neg hc, ih']
      simp [lookup_cons, hc]
  | case5 ca pa ra cb vb rb hne hnlt ih =>
    have hgt : cb < ca := gt_of_not_lt_ne hne hnlt
    rw [lookup_consOpt]
    have ih' := ih ha hb.tail
    have hrb : cb = c → lookup rb c = none := by
      intro h; subst h; exact lookup_eq_none_of_lt (fun x hx => hb.head_lt x hx)
    have haa : cb = c → lookup ((ca, pa) :: ra) c = none := by
      intro h; subst h
      apply lookup_eq_none_of_lt
      intro x hx
      rcases List.mem_cons.1 hx with rfl | hx
      · exact hgt
      · exact trans hgt (ha.head_lt x hx)
    by_cases hc : cb = c
    · cases hu : upd none vb with
      | none => rw [ih', hrb hc]; simp [lookup_cons, hc, haa hc, hu]
      | some v => simp [lookup_cons, hc, haa hc, hu]
    · cases hu : upd none vb <;> simp [hc, ih', lookup_cons]

/-- point lookup after the `*=` loop -/
theorem lookup_imulMerge (f : α → β → α) (a : Fib κ α) (b : Fib κ β)
    (ha : Sorted a) (hb : Sorted b) (c : κ) :
    lookup (imulMerge f a b) c =
      match lookup a c with
      | none => none
      | some x =>
        match lookup b c with
        | some y => some (f x y)
        | none => some x := by
  fun_induction imulMerge f a b with
  | case1 b => simp [lookup_nil]
  | case2 e r => cases hl : lookup (e :: r) c <;> simp [lookup_nil]
  | case3 pa ra ca pb rb ih =>
    rw [lookup_cons, lookup_cons, lookup_cons]
    by_cases hc : ca = c
    · simp [hc]
    · simp [hc, ih ha.tail hb.tail]
  | case4 ca pa ra cb pb rb hne hlt ih =>
    rw [lookup_cons, lookup_cons]
    by_cases hc : ca = c
    · have hb' : lookup ((cb, pb) :: rb) c = none := by
        subst hc
        apply lookup_eq_none_of_lt
        intro x hx
        rcases List.mem_cons.1 hx with rfl | hx
        · exact hlt
        · exact trans hlt (hb.head_lt x hx)
      simp [hc, hb']
    · simp [hc, ih ha.tail hb]
  | case5 ca pa ra cb pb rb hne hnlt ih =>
    have hgt : cb < ca := gt_of_not_lt_ne hne hnlt
    rw [ih ha hb.tail]
    by_cases hc : cb = c
    · have haa : lookup ((ca, pa) :: ra) c = none := by
        subst hc
        apply lookup_eq_none_of_lt
        intro x hx
        rcases List.mem_cons.1 hx with rfl | hx
        · exact hgt
        · exact trans hgt (ha.head_lt x hx)
      simp [haa]
    · rw [lookup_cons_ne (e := (cb, pb)) hc]

end

/-! ### scalar forms: ranges and upserts -/

section
variable {κ : Type} [LT κ] [DecidableRel (α := κ) (· < ·)] [DecidableEq κ] [StrictTotal κ]
variable {α ν : Type}

theorem lookup_append (l₁ l₂ : Fib κ α) (c : κ) :
    lookup (l₁ ++ l₂) c = (lookup l₁ c).or (lookup l₂ c) := by
  unfold lookup
  rw [List.find?_append]
  cases List.find? (fun e => decide (e.1 = c)) l₁ <;> rfl

theorem lookup_upsert [DecidableEq ν] (dflt : ν) (g : ν → ν) (f : Fib κ ν) (hs : Sorted f) (c c' : κ) :
    lookup (upsert dflt g f c) c' =
      if c = c' then some (g ((lookup f c).getD dflt)) else lookup f c' := by
  induction f with
  | nil =>
    simp only [upsert, lookup_cons, lookup_nil]
    by_cases h : c = c' <;> simp [h]
  | cons e r ih =>
    obtain ⟨ca, va⟩ := e
    simp only [upsert]
    by_cases h1 : ca = c
    · subst h1
      simp only [if_true, lookup_cons]
      by_cases h : ca = c' <;> simp [h]
    · rw [if_neg h1]
      by_cases h2 : c < ca
      · rw [if_pos h2]
        have hnone : lookup r c = none :=
          lookup_eq_none_of_lt (fun x hx => trans h2 (hs.head_lt x hx))
        simp only [lookup_cons, hnone]
        by_cases h : c = c'
        · have hca : ca ≠ c' := fun hh => h1 (hh.trans h.symm)
          simp [h, hca]
        · simp [h, h1]
      · rw [if_neg h2]
        simp only [lookup_cons]
        rw [ih hs.tail]
        by_cases h : ca = c'
        · have : c ≠ c' := fun hc => h1 (h.trans hc.symm)
          simp [h, this, h1]
        · simp [h, h1]

theorem upsert_keys [DecidableEq ν] (dflt : ν) (g : ν → ν) (f : Fib κ ν) (c : κ) (x : κ × ν)
    (hx : x ∈ upsert dflt g f c) : x.1 = c ∨ ∃ y ∈ f, y.1 = x.1 := by
  induction f with
  | nil => simp [upsert] at hx; left; rw [hx]
  | cons e r ih =>
    obtain ⟨ca, va⟩ := e
    simp only [upsert] at hx
    by_cases h1 : ca = c
    · rw [if_pos h1] at hx
      rcases List.mem_cons.1 hx with rfl | hx
      · left; exact h1
      · right; exact ⟨x, List.mem_cons_of_mem _ hx, rfl⟩
    · rw [if_neg h1] at hx
      by_cases h2 : c < ca
      · rw [if_pos h2] at hx
        rcases List.mem_cons.1 hx with rfl | hx
        · left; rfl
        · right; exact ⟨x, hx, rfl⟩
      · rw [if_neg h2] at hx
        rcases List.mem_cons.1 hx with rfl | hx
        · right; exact ⟨_, List.mem_cons_self .., rfl⟩
        · rcases ih hx with h | ⟨y, hy, hyx⟩
          · left; exact h
          · right; exact ⟨y, List.mem_cons_of_mem _ hy, hyx⟩

theorem upsert_sorted [DecidableEq ν] (dflt : ν) (g : ν → ν) (f : Fib κ ν) (hs : Sorted f) (c : κ) :
    Sorted (upsert dflt g f c) := by
  induction f with
  | nil => simp [upsert, Sorted]
  | cons e r ih =>
    obtain ⟨ca, va⟩ := e
    simp only [upsert]
    by_cases h1 : ca = c
    · rw [if_pos h1]
      exact sorted_cons.2 ⟨fun x hx => hs.head_lt x hx, hs.tail⟩
    · rw [if_neg h1]
      by_cases h2 : c < ca
      · rw [if_pos h2]
        refine sorted_cons.2 ⟨?_, hs⟩
        intro x hx
        rcases List.mem_cons.1 hx with rfl | hx
        · exact h2
        · exact trans h2 (hs.head_lt x hx)
      · rw [if_neg h2]
        have hgt : ca < c := gt_of_not_lt_ne (fun h => h1 h.symm) h2
        refine sorted_cons.2 ⟨?_, ih hs.tail⟩
        intro x hx
        rcases upsert_keys dflt g r c x hx with h | ⟨y, hy, hyx⟩
        · rw [h]; exact hgt
        · rw [← hyx]; exact hs.head_lt y hy

end

section
variable {ν : Type}

theorem lookup_range_map (g : Nat → ν) (n : Nat) (c : Int) :
    lookup ((List.range n).map (fun (i : Nat) => ((i : Int), g i))) c =
      if 0 ≤ c ∧ c < (n : Int) then some (g c.toNat) else none := by
  induction n with
  | zero =>
    have : ¬ (0 ≤ c ∧ c < ((0 : Nat) : Int)) := by omega
    rw [if_neg this]; rfl
  | succ n ih =>
    rw [List.range_succ, List.map_append, lookup_append, ih]
    simp only [List.map_cons, List.map_nil, lookup_cons, lookup_nil]
    by_cases h1 : 0 ≤ c ∧ c < (n : Int)
    · have h2 : 0 ≤ c ∧ c < ((n + 1 : Nat) : Int) := by omega
      rw [if_pos h1, if_pos h2]; rfl
    · by_cases h3 : (n : Int) = c
      · have h2 : 0 ≤ c ∧ c < ((n + 1 : Nat) : Int) := by omega
        rw [if_neg h1, if_pos h2, if_pos h3]
        subst h3
        rw [Int.toNat_natCast]; rfl
      · have h2 : ¬ (0 ≤ c ∧ c < ((n + 1 : Nat) : Int)) := by omega
        rw [if_neg h1, if_neg h2, if_neg h3]; rfl

/-- lookup after `for c in range(n): getPayloadRef(c) += s` -/
theorem lookup_isaddF [DecidableEq ν] [Add ν] (dflt s : ν) (n : Nat) (f : Fib Int ν) (hs : Sorted f) :
    Sorted (isaddF dflt s n f) ∧
    ∀ c : Int, lookup (isaddF dflt s n f) c =
      if 0 ≤ c ∧ c < (n : Int) then some ((lookup f c).getD dflt + s) else lookup f c := by
  induction n with
  | zero =>
    refine ⟨by simpa [isaddF] using hs, ?_⟩
    intro c
    have : ¬ (0 ≤ c ∧ c < ((0 : Nat) : Int)) := by omega
    rw [if_neg this]; rfl
  | succ n ih =>
    have hstep : isaddF dflt s (n + 1) f = upsert dflt (fun v => v + s) (isaddF dflt s n f) (n : Int) := by
      simp [isaddF, List.range_succ, List.foldl_append]
    obtain ⟨ihs, ihl⟩ := ih
    refine ⟨by rw [hstep]; exact upsert_sorted _ _ _ ihs _, ?_⟩
    intro c
    rw [hstep, lookup_upsert dflt _ _ ihs]
    by_cases h3 : (n : Int) = c
    · have h2 : 0 ≤ c ∧ c < ((n + 1 : Nat) : Int) := by omega
      have h1 : ¬ (0 ≤ (n : Int) ∧ (n : Int) < (n : Int)) := by omega
      subst h3
      rw [if_pos rfl, if_pos h2, ihl, if_neg h1]
    · rw [if_neg h3, ihl]
      by_cases h1 : 0 ≤ c ∧ c < (n : Int)
      · have h2 : 0 ≤ c ∧ c < ((n + 1 : Nat) : Int) := by omega
        rw [if_pos h1, if_pos h2]
      · have h2 : ¬ (0 ≤ c ∧ c < ((n + 1 : Nat) : Int)) := by omega
        rw [if_neg h1, if_neg h2]

end

/-! ### the dense view -/

section
variable {κ ν : Type} [LT κ] [DecidableRel (α := κ) (· < ·)] [DecidableEq κ] [StrictTotal κ]
variable [DecidableEq ν]

theorem denseAt_zero (dflt : ν) (v : Tree κ ν 0) (p : List κ) : denseAt dflt 0 v p = (show ν from v) := by
  unfold denseAt; rfl

theorem denseAt_nil (dflt : ν) (d : Nat) (f : Tree κ ν (d + 1)) : denseAt dflt (d + 1) f [] = dflt := by
  simp [denseAt]

theorem denseAt_cons (dflt : ν) (d : Nat) (f : Tree κ ν (d + 1)) (c : κ) (p : List κ) :
    denseAt dflt (d + 1) f (c :: p) =
      match lookup (show List (κ × Tree κ ν d) from f) c with
      | some t => denseAt dflt d t p
      | none => dflt := by
  rw [denseAt]; rfl

/-- the dense value below an optional payload (named, so that no anonymous matcher is involved) -/
def optDense (dflt : ν) (d : Nat) (o : Option (Tree κ ν d)) (q : List κ) : ν :=
  match o with
  | some t => denseAt dflt d t q
  | none => dflt

theorem optDense_some (dflt : ν) (d : Nat) (t : Tree κ ν d) (q : List κ) :
    optDense dflt d (some t) q = denseAt dflt d t q := rfl

theorem optDense_none (dflt : ν) (d : Nat) (q : List κ) :
    optDense (κ := κ) dflt d none q = dflt := rfl

theorem denseAt_cons' (dflt : ν) (d : Nat) (f : Tree κ ν (d + 1)) (c : κ) (p : List κ) :
    denseAt dflt (d + 1) f (c :: p) =
      optDense dflt d (lookup (show List (κ × Tree κ ν d) from f) c) p := by
  rw [denseAt_cons]; rfl

theorem denseAt_dfltTree (dflt : ν) (d : Nat) (p : List κ) :
    denseAt dflt d (dfltTree (κ := κ) dflt d) p = dflt := by
  cases d with
  | zero => simp [denseAt, dfltTree]
  | succ d =>
    cases p with
    | nil => simp [denseAt]
    | cons c p => simp [denseAt, dfltTree, lookup_nil]

/-- an empty tree (all leaves default) is default everywhere -/
theorem denseAt_of_isEmpty (dflt : ν) : ∀ (d : Nat) (t : Tree κ ν d) (p : List κ),
    isEmpty dflt d t = true → denseAt dflt d t p = dflt := by
  intro d
  induction d with
  | zero => intro t p h; simpa [isEmpty, denseAt] using h
  | succ d ih =>
    intro t p h
    cases p with
    | nil => simp [denseAt]
    | cons c p =>
      rw [denseAt_cons]
      cases hl : lookup (show List (κ × Tree κ ν d) from t) c with
      | none => rfl
      | some u =>
        have hm := mem_of_lookup hl
        have : isEmpty dflt d u = true := by
          have h' : (show List (κ × Tree κ ν d) from t).all (fun e => isEmpty dflt d e.2) = true := by
            simpa [isEmpty] using h
          exact List.all_eq_true.1 h' (c, u) hm
        exact ih u p this

theorem lookup_present (dflt : ν) (d : Nat) (f : Tree κ ν (d + 1))
    (hs : Sorted (show List (κ × Tree κ ν d) from f)) (c : κ) :
    lookup (present dflt d f) c =
      (lookup (show List (κ × Tree κ ν d) from f) c).filter (fun t => !isEmpty dflt d t) := by
  unfold present
  exact lookup_filter_val hs (fun t => !isEmpty dflt d t) c

theorem sorted_present (dflt : ν) (d : Nat) (f : Tree κ ν (d + 1))
    (hs : Sorted (show List (κ × Tree κ ν d) from f)) : Sorted (present dflt d f) := by
  unfold present
  exact sorted_filter hs _

/-- the presented element (or the default tree) has the dense view of the whole fiber under `c` -/
theorem denseAt_present (dflt : ν) (d : Nat) (f : Tree κ ν (d + 1))
    (hs : Sorted (show List (κ × Tree κ ν d) from f)) (c : κ) (p : List κ) :
    denseAt dflt d ((lookup (present dflt d f) c).getD (dfltTree dflt d)) p =
      denseAt dflt (d + 1) f (c :: p) := by
  rw [lookup_present dflt d f hs, denseAt_cons]
  cases hl : lookup (show List (κ × Tree κ ν d) from f) c with
  | none => simp [Option.filter, denseAt_dfltTree]
  | some t =>
    by_cases he : isEmpty dflt d t = true
    · simp [Option.filter, he, denseAt_dfltTree, denseAt_of_isEmpty dflt d t p he]
    · simp [Option.filter, he]

theorem WF_succ (d : Nat) (f : Tree κ ν (d + 1)) :
    WF (d + 1) f ↔ Sorted (show List (κ × Tree κ ν d) from f) ∧
      ∀ e ∈ (show List (κ × Tree κ ν d) from f), WF d e.2 := by
  simp [WF]

theorem WF_dfltTree (dflt : ν) (d : Nat) : WF d (dfltTree (κ := κ) dflt d) := by
  cases d with
  | zero => simp [WF]
  | succ d => simp [WF, dfltTree, Sorted]

theorem WF_of_lookup {d : Nat} {f : Tree κ ν (d + 1)} (h : WF (d + 1) f) {c : κ} {t : Tree κ ν d}
    (hl : lookup (show List (κ × Tree κ ν d) from f) c = some t) : WF d t :=
  ((WF_succ d f).1 h).2 (c, t) (mem_of_lookup hl)

theorem WF_of_lookup_present {dflt : ν} {d : Nat} {f : Tree κ ν (d + 1)} (h : WF (d + 1) f) {c : κ}
    {t : Tree κ ν d} (hl : lookup (present dflt d f) c = some t) : WF d t := by
  have hm := mem_of_lookup hl
  unfold present at hm
  exact ((WF_succ d f).1 h).2 (c, t) (List.mem_filter.1 hm).1

theorem WF_getD_present {dflt : ν} {d : Nat} {f : Tree κ ν (d + 1)} (h : WF (d + 1) f) (c : κ) :
    WF d ((lookup (present dflt d f) c).getD (dfltTree dflt d)) := by
  cases hl : lookup (present dflt d f) c with
  | none => exact WF_dfltTree dflt d
  | some t => exact WF_of_lookup_present h hl

/-- a presented element is not empty -/
theorem not_isEmpty_of_lookup_present {dflt : ν} {d : Nat} {f : Tree κ ν (d + 1)} {c : κ}
    {t : Tree κ ν d} (hl : lookup (present dflt d f) c = some t) : isEmpty dflt d t = false := by
  have hm := mem_of_lookup hl
  unfold present at hm
  simpa using (List.mem_filter.1 hm).2

end
end Ft
