/-
  Helper lemmas for C11: point lookups in merged / mapped / filtered association lists, and
  the dense view (`denseAt`) of trees.
-/
import FtModel.Arith
import FtProofs.Lemmas.Sorted
import FtProofs.Lemmas.Merge
import FtProofs.C04
set_option linter.unusedSectionVars false
set_option linter.unusedSimpArgs false
set_option linter.unusedVariables false
namespace Ft
namespace Arith
open StrictTotal

section
variable {κ : Type} [LT κ] [DecidableRel (α := κ) (· < ·)] [DecidableEq κ] [StrictTotal κ]
variable {α β γ π : Type}

theorem hasKey_iff_lookup (f : Fib κ π) (c : κ) : HasKey f c ↔ (lookup f c).isSome = true := by
  rw [← hasCoord_iff, hasCoord_iff_lookup]

theorem mem_of_lookup {f : Fib κ π} {c : κ} {v : π} (h : lookup f c = some v) : (c, v) ∈ f := by
  induction f with
  | nil => simp [lookup_nil] at h
  | cons e r ih =>
    rw [lookup_cons] at h
    by_cases hc : e.1 = c
    · simp [hc] at h
      subst hc; subst h
      exact List.mem_cons_self ..
    · simp [hc] at h
      exact List.mem_cons_of_mem _ (ih h)

/-- lookup through a key-preserving map -/
theorem lookup_map_val (f : Fib κ α) (g : κ → α → β) (c : κ) :
    lookup (f.map (fun e => (e.1, g e.1 e.2))) c = (lookup f c).map (g c) := by
  induction f with
  | nil => rfl
  | cons e r ih =>
    simp only [List.map_cons]
    rw [lookup_cons, lookup_cons]
    by_cases hc : e.1 = c
    · subst hc; simp
    · simp [hc, ih]

/-- lookup through a filter on payloads (needs unique keys) -/
theorem lookup_filter_val {f : Fib κ α} (hs : Sorted f) (q : α → Bool) (c : κ) :
    lookup (f.filter (fun e => q e.2)) c = (lookup f c).filter q := by
  induction f with
  | nil => rfl
  | cons e r ih =>
    rw [lookup_cons]
    by_cases hc : e.1 = c
    · subst hc
      by_cases hq : q e.2 = true
      · simp [List.filter_cons, hq, lookup_cons, Option.filter]
      · have hnone : lookup r e.1 = none := lookup_eq_none_of_lt (fun x hx => hs.head_lt x hx)
        simp [List.filter_cons, hq, ih hs.tail, hnone, Option.filter]
    · by_cases hq : q e.2 = true
      · simp [List.filter_cons, hq, lookup_cons, hc, ih hs.tail]
      · simp [List.filter_cons, hq, hc, ih hs.tail]

theorem sorted_filter {f : Fib κ α} (hs : Sorted f) (q : κ × α → Bool) : Sorted (f.filter q) := by
  unfold Sorted at *
  exact hs.filter q

/-- point lookup in a union: present iff present on a side; carries both sides' lookups -/
theorem lookup_orMerge (a : Fib κ α) (b : Fib κ β) (ha : Sorted a) (hb : Sorted b) (c : κ) :
    (lookup (orMerge a b) c).map (fun r => (r.2.1, r.2.2)) =
      if (lookup a c).isSome = true ∨ (lookup b c).isSome = true then some (lookup a c, lookup b c)
      else none := by
  by_cases h : (lookup a c).isSome = true ∨ (lookup b c).isSome = true
  · rw [if_pos h]
    have hk : HasKey a c ∨ HasKey b c := by
      rcases h with h | h
      · exact Or.inl ((hasKey_iff_lookup a c).2 h)
      · exact Or.inr ((hasKey_iff_lookup b c).2 h)
    obtain ⟨row, hrow, rfl⟩ := orMerge_cover a b c hk
    rw [lookup_of_sorted_mem (orMerge_sorted a b ha hb) hrow]
    obtain ⟨h1, h2, _⟩ := orMerge_rows a b ha hb row hrow
    simp [h1, h2]
  · rw [if_neg h]
    have hk : ¬ HasKey (orMerge a b) c := by
      intro hk
      rcases orMerge_keys a b c hk with hk | hk
      · exact h (Or.inl ((hasKey_iff_lookup a c).1 hk))
      · exact h (Or.inr ((hasKey_iff_lookup b c).1 hk))
    rw [lookup_none_of_not_hasKey hk]; rfl

/-- point lookup in an intersection -/
theorem lookup_andMerge (a : Fib κ α) (b : Fib κ β) (ha : Sorted a) (hb : Sorted b) (c : κ) :
    lookup (andMerge a b) c =
      match lookup a c, lookup b c with
      | some x, some y => some (x, y)
      | _, _ => none := by
  rw [and_spec a b ha hb]
  induction a with
  | nil => simp [andSpec, lookup_nil]
  | cons e r ih =>
    have hnone : ∀ (l : Fib κ (α × β)), (∀ x ∈ l, e.1 < x.1) → lookup l e.1 = none :=
      fun l hl => lookup_eq_none_of_lt hl
    have hrest : ∀ x ∈ andSpec r b, e.1 < x.1 := by
      intro x hx
      simp only [andSpec, List.mem_filterMap] at hx
      obtain ⟨y, hy, hxy⟩ := hx
      cases hl : lookup b y.1 with
      | none => simp [hl] at hxy
      | some pb =>
        simp [hl] at hxy
        subst hxy
        exact ha.head_lt y hy
    have hcons : andSpec (e :: r) b =
        match lookup b e.1 with
        | some pb => (e.1, (e.2, pb)) :: andSpec r b
        | none => andSpec r b := by
      cases hl : lookup b e.1 <;> simp [andSpec, hl]
    rw [hcons, lookup_cons]
    by_cases hc : e.1 = c
    · subst hc
      cases hl : lookup b e.1 with
      | none => simp [hnone _ hrest]
      | some pb => simp [lookup_cons]
    · have := ih ha.tail
      cases hl : lookup b e.1 with
      | none => simp [hc, this]
      | some pb => simp [lookup_cons, hc, this]

theorem lookup_consOpt (k : κ) (o : Option α) (l : Fib κ α) (c : κ) :
    lookup (consOpt k o l) c =
      match o with
      | some v => if k = c then some v else lookup l c
      | none => lookup l c := by
  cases o with
  | none => rfl
  | some v => simp [consOpt, lookup_cons]

/-- point lookup after driving the populate iterator with a body `upd` -/
theorem lookup_lshiftMerge (upd : Option α → β → Option α) (a : Fib κ α) (b : Fib κ β)
    (ha : Sorted a) (hb : Sorted b) (c : κ) :
    lookup (lshiftMerge upd a b) c =
      match lookup b c with
      | none => lookup a c
      | some vb => upd (lookup a c) vb := by
  fun_induction lshiftMerge upd a b with
  | case1 a => simp [lookup_nil]
  | case2 cb vb rb ih =>
    rw [lookup_consOpt, lookup_cons]
    have hrb : cb = c → lookup rb c = none := by
      intro h; subst h; exact lookup_eq_none_of_lt (fun x hx => hb.head_lt x hx)
    have ih' := ih sorted_nil hb.tail
    by_cases hc : cb = c
    · cases hu : upd none vb with
      | none => simp [hc, ih', hrb hc, lookup_nil, hu]
      | some v => simp [hc, lookup_nil, hu]
    · cases hu : upd none vb <;> simp [hc, ih', lookup_nil]
  | case3 pa ra ca vb rb ih =>
    rw [lookup_consOpt, lookup_cons, lookup_cons]
    have hra : ca = c → lookup ra c = none := by
      intro h; subst h; exact lookup_eq_none_of_lt (fun x hx => ha.head_lt x hx)
    have hrb : ca = c → lookup rb c = none := by
      intro h; subst h; exact lookup_eq_none_of_lt (fun x hx => hb.head_lt x hx)
    have ih' := ih ha.tail hb.tail
    by_cases hc : ca = c
    · cases hu : upd (some pa) vb with
      | none => simp [hc, ih', hrb hc, hra hc, hu]
      | some v => simp [hc, hu]
    · cases hu : upd (some pa) vb <;> simp [hc, ih']
  | case4 ca pa ra cb vb rb hne hlt ih =>
    rw [lookup_cons]
    have ih' := ih ha.tail hb
    by_cases hc : ca = c
    · have hb' : lookup ((cb, vb) :: rb) c = none := by
        subst hc
        apply lookup_eq_none_of_lt
        intro x hx
        rcases List.mem_cons.1 hx with rfl | hx
        · exact hlt
        · exact trans hlt (hb.head_lt x hx)
      simp [hc, hb', lookup_cons]
    · rw [if_neg hc, ih']
      simp [lookup_cons, hc]
  | case5 ca pa ra cb vb rb hne hnlt ih =>
    have hgt : cb < ca := gt_of_not_lt_ne hne hnlt
    rw [lookup_consOpt]
    have ih' := ih ha hb.tail
    have hrb : cb = c → lookup rb c = none := by
      intro h; subst h; exact lookup_eq_none_of_lt (fun x hx => hb.head_lt x hx)
    have haa : cb = c → lookup ((ca, pa) :: ra) c = none := by
      intro h; subst h
      apply lookup_eq_none_of_lt
      intro x hx
      rcases List.mem_cons.1 hx with rfl | hx
      · exact hgt
      · exact trans hgt (ha.head_lt x hx)
    by_cases hc : cb = c
    · cases hu : upd none vb with
      | none => rw [ih', hrb hc]; simp [lookup_cons, hc, haa hc, hu]
      | some v => simp [lookup_cons, hc, haa hc, hu]
    · cases hu : upd none vb <;> simp [hc, ih', lookup_cons]

/-- point lookup after the `*=` loops -/
theorem lookup_imulMerge (f : α → β → α) (g : α → α) (a : Fib κ α) (b : Fib κ β)
    (ha : Sorted a) (hb : Sorted b) (c : κ) :
    lookup (imulMerge f g a b) c =
      match lookup a c with
      | none => none
      | some x =>
        match lookup b c with
        | some y => some (f x y)
        | none => some (g x) := by
  fun_induction imulMerge f g a b with
  | case1 b => simp [lookup_nil]
  | case2 e r =>
    rw [lookup_map_val (e :: r) (fun _ v => g v) c]
    cases hl : lookup (e :: r) c <;> simp [lookup_nil]
  | case3 pa ra ca pb rb ih =>
    rw [lookup_cons, lookup_cons, lookup_cons]
    by_cases hc : ca = c
    · simp [hc]
    · simp [hc, ih ha.tail hb.tail]
  | case4 ca pa ra cb pb rb hne hlt ih =>
    rw [lookup_cons, lookup_cons]
    by_cases hc : ca = c
    · have hb' : lookup ((cb, pb) :: rb) c = none := by
        subst hc
        apply lookup_eq_none_of_lt
        intro x hx
        rcases List.mem_cons.1 hx with rfl | hx
        · exact hlt
        · exact trans hlt (hb.head_lt x hx)
      simp [hc, hb']
    · simp [hc, ih ha.tail hb]
  | case5 ca pa ra cb pb rb hne hnlt ih =>
    have hgt : cb < ca := gt_of_not_lt_ne hne hnlt
    rw [ih ha hb.tail]
    by_cases hc : cb = c
    · have haa : lookup ((ca, pa) :: ra) c = none := by
        subst hc
        apply lookup_eq_none_of_lt
        intro x hx
        rcases List.mem_cons.1 hx with rfl | hx
        · exact hgt
        · exact trans hgt (ha.head_lt x hx)
      simp [haa]
    · rw [lookup_cons_ne (e := (cb, pb)) hc]

end

/-! ### scalar forms: ranges and upserts -/

section
variable {κ : Type} [LT κ] [DecidableRel (α := κ) (· < ·)] [DecidableEq κ] [StrictTotal κ]
variable {α ν : Type}

theorem lookup_append (l₁ l₂ : Fib κ α) (c : κ) :
    lookup (l₁ ++ l₂) c = (lookup l₁ c).or (lookup l₂ c) := by
  unfold lookup
  rw [List.find?_append]
  cases List.find? (fun e => decide (e.1 = c)) l₁ <;> rfl

theorem lookup_upsert [DecidableEq ν] (dflt : ν) (g : ν → ν) (f : Fib κ ν) (hs : Sorted f) (c c' : κ) :
    lookup (upsert dflt g f c) c' =
      if c = c' then some (g ((lookup f c).getD dflt)) else lookup f c' := by
  induction f with
  | nil =>
    simp only [upsert, lookup_cons, lookup_nil]
    by_cases h : c = c' <;> simp [h]
  | cons e r ih =>
    obtain ⟨ca, va⟩ := e
    simp only [upsert]
    by_cases h1 : ca = c
    · subst h1
      simp only [if_true, lookup_cons]
      by_cases h : ca = c' <;> simp [h]
    · rw [if_neg h1]
      by_cases h2 : c < ca
      · rw [if_pos h2]
        have hnone : lookup r c = none :=
          lookup_eq_none_of_lt (fun x hx => trans h2 (hs.head_lt x hx))
        simp only [lookup_cons, hnone]
        by_cases h : c = c'
        · have hca : ca ≠ c' := fun hh => h1 (hh.trans h.symm)
          simp [h, hca]
        · simp [h, h1]
      · rw [if_neg h2]
        simp only [lookup_cons]
        rw [ih hs.tail]
        by_cases h : ca = c'
        · have : c ≠ c' := fun hc => h1 (h.trans hc.symm)
          simp [h, this, h1]
        · simp [h, h1]

theorem upsert_keys [DecidableEq ν] (dflt : ν) (g : ν → ν) (f : Fib κ ν) (c : κ) (x : κ × ν)
    (hx : x ∈ upsert dflt g f c) : x.1 = c ∨ ∃ y ∈ f, y.1 = x.1 := by
  induction f with
  | nil => simp [upsert] at hx; left; rw [hx]
  | cons e r ih =>
    obtain ⟨ca, va⟩ := e
    simp only [upsert] at hx
    by_cases h1 : ca = c
    · rw [if_pos h1] at hx
      rcases List.mem_cons.1 hx with rfl | hx
      · left; exact h1
      · right; exact ⟨x, List.mem_cons_of_mem _ hx, rfl⟩
    · rw [if_neg h1] at hx
      by_cases h2 : c < ca
      · rw [if_pos h2] at hx
        rcases List.mem_cons.1 hx with rfl | hx
        · left; rfl
        · right; exact ⟨x, hx, rfl⟩
      · rw [if_neg h2] at hx
        rcases List.mem_cons.1 hx with rfl | hx
        · right; exact ⟨_, List.mem_cons_self .., rfl⟩
        · rcases ih hx with h | ⟨y, hy, hyx⟩
          · left; exact h
          · right; exact ⟨y, List.mem_cons_of_mem _ hy, hyx⟩

theorem upsert_sorted [DecidableEq ν] (dflt : ν) (g : ν → ν) (f : Fib κ ν) (hs : Sorted f) (c : κ) :
    Sorted (upsert dflt g f c) := by
  induction f with
  | nil => simp [upsert, Sorted]
  | cons e r ih =>
    obtain ⟨ca, va⟩ := e
    simp only [upsert]
    by_cases h1 : ca = c
    · rw [if_pos h1]
      exact sorted_cons.2 ⟨fun x hx => hs.head_lt x hx, hs.tail⟩
    · rw [if_neg h1]
      by_cases h2 : c < ca
      · rw [if_pos h2]
        refine sorted_cons.2 ⟨?_, hs⟩
        intro x hx
        rcases List.mem_cons.1 hx with rfl | hx
        · exact h2
        · exact trans h2 (hs.head_lt x hx)
      · rw [if_neg h2]
        have hgt : ca < c := gt_of_not_lt_ne (fun h => h1 h.symm) h2
        refine sorted_cons.2 ⟨?_, ih hs.tail⟩
        intro x hx
        rcases upsert_keys dflt g r c x hx with h | ⟨y, hy, hyx⟩
        · rw [h]; exact hgt
        · rw [← hyx]; exact hs.head_lt y hy

end

section
variable {ν : Type}

theorem lookup_range_map (g : Nat → ν) (n : Nat) (c : Int) :
    lookup ((List.range n).map (fun (i : Nat) => ((i : Int), g i))) c =
      if 0 ≤ c ∧ c < (n : Int) then some (g c.toNat) else none := by
  induction n with
  | zero =>
    have : ¬ (0 ≤ c ∧ c < ((0 : Nat) : Int)) := by omega
    rw [if_neg this]; rfl
  | succ n ih =>
    rw [List.range_succ, List.map_append, lookup_append, ih]
    simp only [List.map_cons, List.map_nil, lookup_cons, lookup_nil]
    by_cases h1 : 0 ≤ c ∧ c < (n : Int)
    · have h2 : 0 ≤ c ∧ c < ((n + 1 : Nat) : Int) := by omega
      rw [if_pos h1, if_pos h2]; rfl
    · by_cases h3 : (n : Int) = c
      · have h2 : 0 ≤ c ∧ c < ((n + 1 : Nat) : Int) := by omega
        rw [if_neg h1, if_pos h2, if_pos h3]
        subst h3
        rw [Int.toNat_natCast]; rfl
      · have h2 : ¬ (0 ≤ c ∧ c < ((n + 1 : Nat) : Int)) := by omega
        rw [if_neg h1, if_neg h2, if_neg h3]; rfl

/-- lookup after `for c in range(n): getPayloadRef(c) += s` -/
theorem lookup_isaddF [DecidableEq ν] [Add ν] (dflt s : ν) (n : Nat) (f : Fib Int ν) (hs : Sorted f) :
    Sorted (isaddF dflt s n f) ∧
    ∀ c : Int, lookup (isaddF dflt s n f) c =
      if 0 ≤ c ∧ c < (n : Int) then some ((lookup f c).getD dflt + s) else lookup f c := by
  induction n with
  | zero =>
    refine ⟨by simpa [isaddF] using hs, ?_⟩
    intro c
    have : ¬ (0 ≤ c ∧ c < ((0 : Nat) : Int)) := by omega
    rw [if_neg this]; rfl
  | succ n ih =>
    have hstep : isaddF dflt s (n + 1) f = upsert dflt (fun v => v + s) (isaddF dflt s n f) (n : Int) := by
      simp [isaddF, List.range_succ, List.foldl_append]
    obtain ⟨ihs, ihl⟩ := ih
    refine ⟨by rw [hstep]; exact upsert_sorted _ _ _ ihs _, ?_⟩
    intro c
    rw [hstep, lookup_upsert dflt _ _ ihs]
    by_cases h3 : (n : Int) = c
    · have h2 : 0 ≤ c ∧ c < ((n + 1 : Nat) : Int) := by omega
      have h1 : ¬ (0 ≤ (n : Int) ∧ (n : Int) < (n : Int)) := by omega
      subst h3
      rw [if_pos rfl, if_pos h2, ihl, if_neg h1]
    · rw [if_neg h3, ihl]
      by_cases h1 : 0 ≤ c ∧ c < (n : Int)
      · have h2 : 0 ≤ c ∧ c < ((n + 1 : Nat) : Int) := by omega
        rw [if_pos h1, if_pos h2]
      · have h2 : ¬ (0 ≤ c ∧ c < ((n + 1 : Nat) : Int)) := by omega
        rw [if_neg h1, if_neg h2]

end

/-! ### the dense view -/

section
variable {κ ν : Type} [LT κ] [DecidableRel (α := κ) (· < ·)] [DecidableEq κ] [StrictTotal κ]
variable [DecidableEq ν]

theorem denseAt_zero (dflt : ν) (v : Tree κ ν 0) (p : List κ) : denseAt dflt 0 v p = (show ν from v) := by
  unfold denseAt; rfl

theorem denseAt_nil (dflt : ν) (d : Nat) (f : Tree κ ν (d + 1)) : denseAt dflt (d + 1) f [] = dflt := by
  simp [denseAt]

theorem denseAt_cons (dflt : ν) (d : Nat) (f : Tree κ ν (d + 1)) (c : κ) (p : List κ) :
    denseAt dflt (d + 1) f (c :: p) =
      match lookup (show List (κ × Tree κ ν d) from f) c with
      | some t => denseAt dflt d t p
      | none => dflt := by
  rw [denseAt]; rfl

/-- the dense value below an optional payload (named, so that no anonymous matcher is involved) -/
def optDense (dflt : ν) (d : Nat) (o : Option (Tree κ ν d)) (q : List κ) : ν :=
  match o with
  | some t => denseAt dflt d t q
  | none => dflt

theorem optDense_some (dflt : ν) (d : Nat) (t : Tree κ ν d) (q : List κ) :
    optDense dflt d (some t) q = denseAt dflt d t q := rfl

theorem optDense_none (dflt : ν) (d : Nat) (q : List κ) :
    optDense (κ := κ) dflt d none q = dflt := rfl

theorem denseAt_cons' (dflt : ν) (d : Nat) (f : Tree κ ν (d + 1)) (c : κ) (p : List κ) :
    denseAt dflt (d + 1) f (c :: p) =
      optDense dflt d (lookup (show List (κ × Tree κ ν d) from f) c) p := by
  rw [denseAt_cons]; rfl

theorem denseAt_dfltTree (dflt : ν) (d : Nat) (p : List κ) :
    denseAt dflt d (dfltTree (κ := κ) dflt d) p = dflt := by
  cases d with
  | zero => simp [denseAt, dfltTree]
  | succ d =>
    cases p with
    | nil => simp [denseAt]
    | cons c p => simp [denseAt, dfltTree, lookup_nil]

/-- an empty tree (all leaves default) is default everywhere -/
theorem denseAt_of_isEmpty (dflt : ν) : ∀ (d : Nat) (t : Tree κ ν d) (p : List κ),
    isEmpty dflt d t = true → denseAt dflt d t p = dflt := by
  intro d
  induction d with
  | zero => intro t p h; simpa [isEmpty, denseAt] using h
  | succ d ih =>
    intro t p h
    cases p with
    | nil => simp [denseAt]
    | cons c p =>
      rw [denseAt_cons]
      cases hl : lookup (show List (κ × Tree κ ν d) from t) c with
      | none => rfl
      | some u =>
        have hm := mem_of_lookup hl
        have : isEmpty dflt d u = true := by
          have h' : (show List (κ × Tree κ ν d) from t).all (fun e => isEmpty dflt d e.2) = true := by
            simpa [isEmpty] using h
          exact List.all_eq_true.1 h' (c, u) hm
        exact ih u p this

theorem lookup_present (dflt : ν) (d : Nat) (f : Tree κ ν (d + 1))
    (hs : Sorted (show List (κ × Tree κ ν d) from f)) (c : κ) :
    lookup (present dflt d f) c =
      (lookup (show List (κ × Tree κ ν d) from f) c).filter (fun t => !isEmpty dflt d t) := by
  unfold present
  exact lookup_filter_val hs (fun t => !isEmpty dflt d t) c

theorem sorted_present (dflt : ν) (d : Nat) (f : Tree κ ν (d + 1))
    (hs : Sorted (show List (κ × Tree κ ν d) from f)) : Sorted (present dflt d f) := by
  unfold present
  exact sorted_filter hs _

/-- the presented element (or the default tree) has the dense view of the whole fiber under `c` -/
theorem denseAt_present (dflt : ν) (d : Nat) (f : Tree κ ν (d + 1))
    (hs : Sorted (show List (κ × Tree κ ν d) from f)) (c : κ) (p : List κ) :
    denseAt dflt d ((lookup (present dflt d f) c).getD (dfltTree dflt d)) p =
      denseAt dflt (d + 1) f (c :: p) := by
  rw [lookup_present dflt d f hs, denseAt_cons]
  cases hl : lookup (show List (κ × Tree κ ν d) from f) c with
  | none => simp [Option.filter, denseAt_dfltTree]
  | some t =>
    by_cases he : isEmpty dflt d t = true
    · simp [Option.filter, he, denseAt_dfltTree, denseAt_of_isEmpty dflt d t p he]
    · simp [Option.filter, he]

theorem WF_succ (d : Nat) (f : Tree κ ν (d + 1)) :
    WF (d + 1) f ↔ Sorted (show List (κ × Tree κ ν d) from f) ∧
      ∀ e ∈ (show List (κ × Tree κ ν d) from f), WF d e.2 := by
  simp [WF]

theorem WF_dfltTree (dflt : ν) (d : Nat) : WF d (dfltTree (κ := κ) dflt d) := by
  cases d with
  | zero => simp [WF]
  | succ d => simp [WF, dfltTree, Sorted]

theorem WF_of_lookup {d : Nat} {f : Tree κ ν (d + 1)} (h : WF (d + 1) f) {c : κ} {t : Tree κ ν d}
    (hl : lookup (show List (κ × Tree κ ν d) from f) c = some t) : WF d t :=
  ((WF_succ d f).1 h).2 (c, t) (mem_of_lookup hl)

theorem WF_of_lookup_present {dflt : ν} {d : Nat} {f : Tree κ ν (d + 1)} (h : WF (d + 1) f) {c : κ}
    {t : Tree κ ν d} (hl : lookup (present dflt d f) c = some t) : WF d t := by
  have hm := mem_of_lookup hl
  unfold present at hm
  exact ((WF_succ d f).1 h).2 (c, t) (List.mem_filter.1 hm).1

theorem WF_getD_present {dflt : ν} {d : Nat} {f : Tree κ ν (d + 1)} (h : WF (d + 1) f) (c : κ) :
    WF d ((lookup (present dflt d f) c).getD (dfltTree dflt d)) := by
  cases hl : lookup (present dflt d f) c with
  | none => exact WF_dfltTree dflt d
  | some t => exact WF_of_lookup_present h hl

/-- a presented element is not empty -/
theorem not_isEmpty_of_lookup_present {dflt : ν} {d : Nat} {f : Tree κ ν (d + 1)} {c : κ}
    {t : Tree κ ν d} (hl : lookup (present dflt d f) c = some t) : isEmpty dflt d t = false := by
  have hm := mem_of_lookup hl
  unfold present at hm
  simpa using (List.mem_filter.1 hm).2

end
/-! ### helper lemmas of the C11 theorems -/

section
variable {ν ε : Type}

theorem Res.rebox_rebox (r : Res ν ε) : r.rebox.rebox = r.rebox := by cases r <;> rfl

end

section
variable {κ ν : Type} [LT κ] [DecidableRel (α := κ) (· < ·)] [DecidableEq κ] [StrictTotal κ]
variable [DecidableEq ν]

theorem ne_of_not_isEmpty_zero (dflt : ν) (t : Tree κ ν 0) (h : isEmpty dflt 0 t = false) :
    (show ν from t) ≠ dflt := by
  simpa [isEmpty] using h

/-- the leaf step of a fiber sum -/
theorem addT_leaf [Add ν] (dfa dfb : ν) (x y : ν) (q : List κ) (h : x ≠ dfa ∨ y ≠ dfb) :
    denseAt (κ := κ) dfa 0 (addT (κ := κ) dfa dfb 0 x y) q =
      addExpect dfa dfb (denseAt (κ := κ) dfa 0 x q) (denseAt (κ := κ) dfb 0 y q) := by
  show x + y = if x ≠ dfa ∨ y ≠ dfb then x + y else dfa
  rw [if_pos h]

/-- lookup in a fiber sum: present iff presented on a side; the payload is the sum of the two
    presented payloads, an absent side contributing the default tree -/
theorem lookup_addT [Add ν] (dfa dfb : ν) (d : Nat) (a b : Tree κ ν (d + 1))
    (ha : WF (d + 1) a) (hb : WF (d + 1) b) (c : κ) :
    lookup (show List (κ × Tree κ ν d) from addT dfa dfb (d + 1) a b) c =
      if (lookup (present dfa d a) c).isSome = true ∨ (lookup (present dfb d b) c).isSome = true then
        some (addT dfa dfb d ((lookup (present dfa d a) c).getD (dfltTree dfa d))
                          ((lookup (present dfb d b) c).getD (dfltTree dfb d)))
      else none := by
  have hsa := sorted_present dfa d a ((WF_succ d a).1 ha).1
  have hsb := sorted_present dfb d b ((WF_succ d b).1 hb).1
  have hm := lookup_orMerge (present dfa d a) (present dfb d b) hsa hsb c
  have hmap := lookup_map_val (orMerge (present dfa d a) (present dfb d b))
    (fun _ (v : Mask × Option (Tree κ ν d) × Option (Tree κ ν d)) =>
      addT dfa dfb d (v.2.1.getD (dfltTree dfa d)) (v.2.2.getD (dfltTree dfb d))) c
  have hdef : (show List (κ × Tree κ ν d) from addT dfa dfb (d + 1) a b) =
      (orMerge (present dfa d a) (present dfb d b)).map
        (fun r => (r.1, addT dfa dfb d (r.2.2.1.getD (dfltTree dfa d)) (r.2.2.2.getD (dfltTree dfb d)))) := by
    rw [addT]
  rw [hdef, hmap]
  cases hl : lookup (orMerge (present dfa d a) (present dfb d b)) c with
  | none =>
    rw [hl] at hm
    by_cases hcond : (lookup (present dfa d a) c).isSome = true ∨ (lookup (present dfb d b) c).isSome = true
    · rw [if_pos hcond] at hm; simp at hm
    · rw [if_neg hcond]; rfl
  | some row =>
    rw [hl] at hm
    by_cases hcond : (lookup (present dfa d a) c).isSome = true ∨ (lookup (present dfb d b) c).isSome = true
    · rw [if_pos hcond] at hm
      rw [if_pos hcond]
      simp only [Option.map_some, Option.some.injEq, Prod.mk.injEq] at hm
      simp [hm.1, hm.2]
    · rw [if_neg hcond] at hm; simp at hm

/-- lookup in a fiber product: present iff presented on both sides -/
theorem lookup_mulT [Mul ν] (dflt : ν) (d : Nat) (a b : Tree κ ν (d + 1))
    (ha : WF (d + 1) a) (hb : WF (d + 1) b) (c : κ) :
    lookup (show List (κ × Tree κ ν d) from mulT dflt (d + 1) a b) c =
      match lookup (present dflt d a) c, lookup (present dflt d b) c with
      | some x, some y => some (mulT dflt d x y)
      | _, _ => none := by
  have hsa := sorted_present dflt d a ((WF_succ d a).1 ha).1
  have hsb := sorted_present dflt d b ((WF_succ d b).1 hb).1
  have hdef : (show List (κ × Tree κ ν d) from mulT dflt (d + 1) a b) =
      (andMerge (present dflt d a) (present dflt d b)).map
        (fun r => (r.1, mulT dflt d r.2.1 r.2.2)) := by
    rw [mulT]
  rw [hdef, lookup_map_val (andMerge (present dflt d a) (present dflt d b))
    (fun _ (v : Tree κ ν d × Tree κ ν d) => mulT dflt d v.1 v.2) c,
    lookup_andMerge _ _ hsa hsb c]
  cases lookup (present dflt d a) c <;> cases lookup (present dflt d b) c <;> rfl

/-- the leaf step of a fiber product -/
theorem mulT_leaf [Mul ν] (dflt : ν) (x y : ν) (q : List κ) (h : x ≠ dflt ∧ y ≠ dflt) :
    denseAt (κ := κ) dflt 0 (mulT (κ := κ) dflt 0 x y) q =
      mulExpect dflt (denseAt (κ := κ) dflt 0 x q) (denseAt (κ := κ) dflt 0 y q) := by
  show x * y = if x ≠ dflt ∧ y ≠ dflt then x * y else dflt
  rw [if_pos h]

theorem mulExpect_left [Mul ν] (dflt y : ν) : mulExpect dflt dflt y = dflt := by simp [mulExpect]
theorem mulExpect_right [Mul ν] (dflt x : ν) : mulExpect dflt x dflt = dflt := by simp [mulExpect]

/-- dense view under `c` when the fiber does not present `c` -/
theorem denseAt_not_presented (dflt : ν) (d : Nat) (f : Tree κ ν (d + 1))
    (hs : Sorted (show List (κ × Tree κ ν d) from f)) (c : κ) (q : List κ)
    (h : lookup (present dflt d f) c = none) : denseAt dflt (d + 1) f (c :: q) = dflt := by
  rw [← denseAt_present dflt d f hs c q, h]; simp [denseAt_dfltTree]

theorem denseAt_presented (dflt : ν) (d : Nat) (f : Tree κ ν (d + 1))
    (hs : Sorted (show List (κ × Tree κ ν d) from f)) (c : κ) (q : List κ) (t : Tree κ ν d)
    (h : lookup (present dflt d f) c = some t) : denseAt dflt (d + 1) f (c :: q) = denseAt dflt d t q := by
  rw [← denseAt_present dflt d f hs c q, h]; rfl

/-- lookup after `a += b`: untouched where `b` presents nothing; otherwise the old (or a fresh
    default) payload updated in place, unless the populate iterator removed it again -/
theorem lookup_iaddT [Add ν] (dflt : ν) (d : Nat) (a b : Tree κ ν (d + 1))
    (ha : WF (d + 1) a) (hb : WF (d + 1) b) (c : κ) :
    lookup (show List (κ × Tree κ ν d) from iaddT dflt (d + 1) a b) c =
      match lookup (present dflt d b) c with
      | none => lookup (show List (κ × Tree κ ν d) from a) c
      | some vb =>
        if removeAfter dflt d (lookup (show List (κ × Tree κ ν d) from a) c).isNone
            (iaddT dflt d ((lookup (show List (κ × Tree κ ν d) from a) c).getD (dfltTree dflt d)) vb)
        then none
        else some (iaddT dflt d ((lookup (show List (κ × Tree κ ν d) from a) c).getD (dfltTree dflt d)) vb) := by
  have hsa := ((WF_succ d a).1 ha).1
  have hsb := sorted_present dflt d b ((WF_succ d b).1 hb).1
  have hdef : (show List (κ × Tree κ ν d) from iaddT dflt (d + 1) a b) =
      lshiftMerge (fun (old : Option (Tree κ ν d)) (vb : Tree κ ν d) =>
        let v := iaddT dflt d (old.getD (dfltTree dflt d)) vb
        if removeAfter dflt d old.isNone v then none else some v)
      (show List (κ × Tree κ ν d) from a) (present dflt d b) := by
    rw [iaddT]
  rw [hdef, lookup_lshiftMerge _ _ _ hsa hsb c]
  cases lookup (present dflt d b) c <;> rfl

theorem lookup_iaddT_none [Add ν] (dflt : ν) (d : Nat) (a b : Tree κ ν (d + 1))
    (ha : WF (d + 1) a) (hb : WF (d + 1) b) (c : κ) (h : lookup (present dflt d b) c = none) :
    lookup (show List (κ × Tree κ ν d) from iaddT dflt (d + 1) a b) c =
      lookup (show List (κ × Tree κ ν d) from a) c := by
  rw [lookup_iaddT dflt d a b ha hb c, h]

theorem lookup_iaddT_some [Add ν] (dflt : ν) (d : Nat) (a b : Tree κ ν (d + 1))
    (ha : WF (d + 1) a) (hb : WF (d + 1) b) (c : κ) (vb : Tree κ ν d)
    (h : lookup (present dflt d b) c = some vb) :
    lookup (show List (κ × Tree κ ν d) from iaddT dflt (d + 1) a b) c =
      if removeAfter dflt d (lookup (show List (κ × Tree κ ν d) from a) c).isNone
          (iaddT dflt d ((lookup (show List (κ × Tree κ ν d) from a) c).getD (dfltTree dflt d)) vb)
      then none
      else some (iaddT dflt d ((lookup (show List (κ × Tree κ ν d) from a) c).getD (dfltTree dflt d)) vb) := by
  rw [lookup_iaddT dflt d a b ha hb c, h]

theorem denseAt_nil_fiber (dflt : ν) (d : Nat) (f : Tree κ ν (d + 1))
    (h : (show List (κ × Tree κ ν d) from f) = []) (p : List κ) : denseAt dflt (d + 1) f p = dflt := by
  cases p with
  | nil => exact denseAt_nil dflt d f
  | cons c q => rw [denseAt_cons, h]; rfl

/-- dense view of the old payload (or a fresh default) under `c` -/
theorem denseAt_getD_lookup (dflt : ν) (d : Nat) (f : Tree κ ν (d + 1)) (c : κ) (q : List κ) :
    denseAt dflt d ((lookup (show List (κ × Tree κ ν d) from f) c).getD (dfltTree dflt d)) q =
      denseAt dflt (d + 1) f (c :: q) := by
  rw [denseAt_cons]
  cases lookup (show List (κ × Tree κ ν d) from f) c with
  | none => simp [denseAt_dfltTree]
  | some t => rfl

theorem WF_getD_lookup {dflt : ν} {d : Nat} {f : Tree κ ν (d + 1)} (h : WF (d + 1) f) (c : κ) :
    WF d ((lookup (show List (κ × Tree κ ν d) from f) c).getD (dfltTree dflt d)) := by
  cases hl : lookup (show List (κ × Tree κ ν d) from f) c with
  | none => exact WF_dfltTree dflt d
  | some t => exact WF_of_lookup h hl

theorem iaddExpect_dflt [Add ν] (dflt x : ν) : iaddExpect dflt x dflt = x := by simp [iaddExpect]

/-- the leaf step of `+=`: whether or not the iterator removes a leaf that ended at the
    default, the dense value is the sum -/
theorem iaddT_leaf [Add ν] (dflt : ν) (isNew : Bool) (x y : ν) (q : List κ) (hy : y ≠ dflt) :
    optDense dflt 0 (if removeAfter (κ := κ) dflt 0 isNew (iaddT (κ := κ) dflt 0 x y) = true then none
            else some (iaddT (κ := κ) dflt 0 x y) : Option (Tree κ ν 0)) q =
      iaddExpect dflt (denseAt (κ := κ) dflt 0 x q) (denseAt (κ := κ) dflt 0 y q) := by
  have hrhs : iaddExpect dflt (denseAt (κ := κ) dflt 0 x q) (denseAt (κ := κ) dflt 0 y q) = x + y := by
    show (if y ≠ dflt then x + y else x) = x + y
    rw [if_pos hy]
  rw [hrhs]
  by_cases h : removeAfter (κ := κ) dflt 0 isNew (iaddT (κ := κ) dflt 0 x y) = true
  · rw [if_pos h]
    have : x + y = dflt := by
      have h' : decide (x + y = dflt) = true := h
      simpa using h'
    exact this.symm
  · rw [if_neg h]; rfl

theorem andMerge_sorted {α β : Type} (a : Fib κ α) (b : Fib κ β) (ha : Sorted a) (hb : Sorted b) :
    Sorted (andMerge a b) := by
  rw [and_spec a b ha hb]
  unfold andSpec Sorted
  refine List.Pairwise.filterMap _ ?_ ha
  intro e e' hlt r hr r' hr'
  cases h1 : lookup b e.1 with
  | none => simp [h1] at hr
  | some pb =>
    cases h2 : lookup b e'.1 with
    | none => simp [h2] at hr'
    | some pb' =>
      simp [h1] at hr; simp [h2] at hr'
      subst hr; subst hr'
      exact hlt

theorem mem_andMerge {α β : Type} (a : Fib κ α) (b : Fib κ β) (ha : Sorted a) (hb : Sorted b)
    (r : κ × α × β) (hr : r ∈ andMerge a b) : (r.1, r.2.1) ∈ a ∧ lookup b r.1 = some r.2.2 := by
  rw [and_spec a b ha hb] at hr
  unfold andSpec at hr
  obtain ⟨e, he, hf⟩ := List.mem_filterMap.1 hr
  cases h1 : lookup b e.1 with
  | none => simp [h1] at hf
  | some pb =>
    simp [h1] at hf
    subst hf
    exact ⟨he, h1⟩

/-- a fiber product of well-formed trees is well-formed -/
theorem mulT_WF [Mul ν] (dflt : ν) : ∀ (d : Nat) (a b : Tree κ ν d), WF d a → WF d b →
    WF d (mulT dflt d a b) := by
  intro d
  induction d with
  | zero => intro a b _ _; simp [WF]
  | succ d ih =>
    intro a b ha hb
    have hsa := sorted_present dflt d a ((WF_succ d a).1 ha).1
    have hsb := sorted_present dflt d b ((WF_succ d b).1 hb).1
    have hdef : (show List (κ × Tree κ ν d) from mulT dflt (d + 1) a b) =
        (andMerge (present dflt d a) (present dflt d b)).map
          (fun r => (r.1, mulT dflt d r.2.1 r.2.2)) := by
      rw [mulT]
    rw [WF_succ, hdef]
    refine ⟨sorted_map_key _ (fun r => mulT dflt d r.2.1 r.2.2) (andMerge_sorted _ _ hsa hsb), ?_⟩
    intro e he
    obtain ⟨r, hr, rfl⟩ := List.mem_map.1 he
    obtain ⟨h1, h2⟩ := mem_andMerge _ _ hsa hsb r hr
    have hwa : WF d r.2.1 := by
      unfold present at h1
      exact ((WF_succ d a).1 ha).2 _ (List.mem_filter.1 h1).1
    have hwb : WF d r.2.2 := WF_of_lookup_present hb h2
    exact ih _ _ hwa hwb

/-- `<<=` of a fiber (`nonEmpty`: a copy of the presented elements) keeps the dense view -/
theorem denseAt_nonEmpty (dflt : ν) : ∀ (d : Nat) (t : Tree κ ν d), WF d t → ∀ p : List κ,
    denseAt dflt d (nonEmpty dflt d t) p = denseAt dflt d t p := by
  intro d
  induction d with
  | zero => intro t _ p; rfl
  | succ d ih =>
    intro t ht p
    cases p with
    | nil => rw [denseAt_nil, denseAt_nil]
    | cons c q =>
      have hs := ((WF_succ d t).1 ht).1
      have hdef : (show List (κ × Tree κ ν d) from nonEmpty dflt (d + 1) t) =
          (present dflt d t).map (fun e => (e.1, nonEmpty dflt d e.2)) := by
        rw [nonEmpty]; rfl
      rw [denseAt_cons', hdef,
        lookup_map_val (present dflt d t) (fun _ (v : Tree κ ν d) => nonEmpty dflt d v) c]
      cases hl : lookup (present dflt d t) c with
      | none =>
        rw [denseAt_not_presented dflt d t hs c q hl]; rfl
      | some u =>
        rw [denseAt_presented dflt d t hs c q u hl]
        exact ih u (WF_of_lookup_present ht hl) q

/-- lookup after `a *= b`: an element of `a` is rewritten where both operands present the
    coordinate and emptied where only `a` presents it -/
theorem lookup_imulT [Mul ν] (dflt : ν) (d : Nat) (a b : Tree κ ν (d + 1))
    (ha : WF (d + 1) a) (hb : WF (d + 1) b) (c : κ) :
    lookup (show List (κ × Tree κ ν d) from imulT dflt d a b) c =
      match lookup (show List (κ × Tree κ ν d) from a) c with
      | none => none
      | some x =>
        match lookup (present dflt d b) c with
        | some y => some (if isEmpty dflt d x then x else nonEmpty dflt d (mulT dflt d x y))
        | none => some (if isEmpty dflt d x then x else dfltTree dflt d) := by
  have hsa := ((WF_succ d a).1 ha).1
  have hsb := sorted_present dflt d b ((WF_succ d b).1 hb).1
  have h := lookup_imulMerge
    (fun (pa pb : Tree κ ν d) => if isEmpty dflt d pa then pa else nonEmpty dflt d (mulT dflt d pa pb))
    (fun (pa : Tree κ ν d) => if isEmpty dflt d pa then pa else dfltTree dflt d)
    (show List (κ × Tree κ ν d) from a) (present dflt d b) hsa hsb c
  have hdef : (show List (κ × Tree κ ν d) from imulT dflt d a b) =
      imulMerge (fun (pa pb : Tree κ ν d) => if isEmpty dflt d pa then pa else nonEmpty dflt d (mulT dflt d pa pb))
        (fun (pa : Tree κ ν d) => if isEmpty dflt d pa then pa else dfltTree dflt d)
        (show List (κ × Tree κ ν d) from a) (present dflt d b) := rfl
  rw [hdef, h]
  cases lookup (show List (κ × Tree κ ν d) from a) c with
  | none => rfl
  | some x => cases lookup (present dflt d b) c <;> rfl

/-- the leaf step of fiber * scalar -/
theorem smulT_leaf [Mul ν] (dflt s : ν) (x : ν) (q : List κ) (h : x ≠ dflt) :
    denseAt (κ := κ) dflt 0 (smulT (κ := κ) dflt s 0 x) q =
      if denseAt (κ := κ) dflt 0 x q ≠ dflt then s * denseAt (κ := κ) dflt 0 x q else dflt := by
  show s * x = if x ≠ dflt then s * x else dflt
  rw [if_pos h]

/-- the leaf step of fiber + scalar -/
theorem saddT_leaf [Add ν] (dflt s : ν) (shp : List Nat) (x : ν) (q : List Int) :
    denseAt (κ := Int) dflt 0 (saddT dflt s 0 shp x) q = s + denseAt (κ := Int) dflt 0 x q := by
  show s + x = s + x
  rfl

/-- a point with a non-default dense value is one of the tree's content points -/
theorem mem_points_of_dense_ne (dflt : ν) : ∀ (d : Nat) (t : Tree κ ν d) (p : List κ),
    p.length = d → denseAt dflt d t p ≠ dflt → p ∈ (content dflt d t).map (·.1) := by
  intro d
  induction d with
  | zero =>
    intro t p hp hne
    have hp' : p = [] := List.eq_nil_of_length_eq_zero hp
    subst hp'
    have hne' : (show ν from t) ≠ dflt := hne
    simp [content, hne']
  | succ d ih =>
    intro t p hp hne
    cases p with
    | nil => simp at hp
    | cons c q =>
      rw [denseAt_cons'] at hne
      cases hl : lookup (show List (κ × Tree κ ν d) from t) c with
      | none => rw [hl] at hne; exact absurd rfl hne
      | some u =>
        rw [hl, optDense_some] at hne
        have hq : q.length = d := by simpa using hp
        have hmem := ih u q hq hne
        obtain ⟨pv, hpv, hpvq⟩ := List.mem_map.1 hmem
        have hcont : content dflt (d + 1) t =
            (show List (κ × Tree κ ν d) from t).flatMap
              (fun e => (content dflt d e.2).map (fun pv => (e.1 :: pv.1, pv.2))) := by
          rw [content]
        rw [hcont]
        refine List.mem_map.2 ⟨(c :: pv.1, pv.2), ?_, by simp [hpvq]⟩
        exact List.mem_flatMap.2 ⟨(c, u), mem_of_lookup hl, List.mem_map.2 ⟨pv, hpv, rfl⟩⟩

end

section
variable {ν : Type} [DecidableEq ν]

/-- the dense view of a leaf fiber at one coordinate -/
theorem denseAt_leaf (dflt : ν) (f : Fib Int ν) (c : Int) :
    denseAt dflt 1 (leafFiber f) [c] = (lookup f c).getD dflt := by
  rw [denseAt_cons']
  have : ∀ o : Option ν, optDense (κ := Int) dflt 0 (o : Option (Tree Int ν 0)) [] = o.getD dflt := by
    intro o; cases o <;> rfl
  exact this _

end

end Arith
end Ft
