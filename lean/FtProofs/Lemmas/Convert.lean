/-
  Helper lemmas for C13 (conversions): enumerate-and-keep lists, `_makeFiber`,
  shapes, the lock-step union of `uncompress`, dictionaries, `fromRandom`.
-/
import FtProofs.Lemmas.Sorted
import FtProofs.Lemmas.Merge
import FtModel.Convert
set_option linter.unusedSectionVars false
set_option linter.unusedSimpArgs false
set_option linter.unusedVariables false
namespace Ft

/-! ### enumerate-and-keep -/

section Items
variable {α π : Type}

/-- `[(c, t) for c, x in enumerate(l, k) if g x = some t]` — the shape of both loops of
    `_makeFiber` -/
def items (g : α → Option π) (k : Nat) (l : List α) : List (Nat × π) :=
  (enumFrom k l).filterMap (fun e => (g e.2).map (fun t => (e.1, t)))

@[simp] theorem items_nil (g : α → Option π) (k : Nat) : items g k [] = [] := rfl

theorem items_cons (g : α → Option π) (k : Nat) (x : α) (xs : List α) :
    items g k (x :: xs) =
      match g x with
      | some t => (k, t) :: items g (k + 1) xs
      | none => items g (k + 1) xs := by
  unfold items
  simp only [enumFrom, List.filterMap_cons]
  cases g x <;> rfl

theorem items_cons_some {g : α → Option π} {k : Nat} {x : α} {xs : List α} {t : π} (h : g x = some t) :
    items g k (x :: xs) = (k, t) :: items g (k + 1) xs := by
  rw [items_cons, h]

theorem items_cons_none {g : α → Option π} {k : Nat} {x : α} {xs : List α} (h : g x = none) :
    items g k (x :: xs) = items g (k + 1) xs := by
  rw [items_cons, h]

theorem items_key_ge (g : α → Option π) (l : List α) : ∀ (k : Nat), ∀ e ∈ items g k l, k ≤ e.1 := by
  induction l with
  | nil => intro k e he; cases he
  | cons x xs ih =>
    intro k e he
    rw [items_cons] at he
    cases hg : g x with
    | none =>
      rw [hg] at he
      exact Nat.le_of_succ_le (ih (k + 1) e he)
    | some t =>
      rw [hg] at he
      rcases List.mem_cons.1 he with rfl | he
      · exact Nat.le_refl _
      · exact Nat.le_of_succ_le (ih (k + 1) e he)

theorem items_sorted (g : α → Option π) (l : List α) : ∀ (k : Nat), Sorted (items g k l) := by
  induction l with
  | nil => intro k; exact sorted_nil
  | cons x xs ih =>
    intro k
    rw [items_cons]
    cases hg : g x with
    | none => exact ih (k + 1)
    | some t =>
      refine sorted_cons.2 ⟨?_, ih (k + 1)⟩
      intro e he
      exact items_key_ge g xs (k + 1) e he

theorem items_mem (g : α → Option π) (l : List α) :
    ∀ (k : Nat), ∀ e ∈ items g k l, ∃ x ∈ l, g x = some e.2 := by
  induction l with
  | nil => intro k e he; cases he
  | cons x xs ih =>
    intro k e he
    rw [items_cons] at he
    cases hg : g x with
    | none =>
      rw [hg] at he
      obtain ⟨y, hy, h⟩ := ih (k + 1) e he
      exact ⟨y, List.mem_cons_of_mem _ hy, h⟩
    | some t =>
      rw [hg] at he
      rcases List.mem_cons.1 he with rfl | he
      · exact ⟨x, List.mem_cons_self .., hg⟩
      · obtain ⟨y, hy, h⟩ := ih (k + 1) e he
        exact ⟨y, List.mem_cons_of_mem _ hy, h⟩

theorem items_eq_nil_iff (g : α → Option π) (l : List α) :
    ∀ (k : Nat), items g k l = [] ↔ ∀ x ∈ l, g x = none := by
  induction l with
  | nil => intro k; simp
  | cons x xs ih =>
    intro k
    rw [items_cons]
    cases hg : g x with
    | none => simp [ih (k + 1), hg]
    | some t => simp [hg]

/-- `flatMap` over the kept items = `flatMap` over the enumeration when dropped entries
    contribute nothing -/
theorem items_flatMap {γ : Type} (g : α → Option π) (h : Nat × π → List γ) (h' : Nat × α → List γ)
    (hsome : ∀ c x t, g x = some t → h' (c, x) = h (c, t))
    (hnone : ∀ c x, g x = none → h' (c, x) = []) (l : List α) :
    ∀ (k : Nat), (items g k l).flatMap h = (enumFrom k l).flatMap h' := by
  induction l with
  | nil => intro k; rfl
  | cons x xs ih =>
    intro k
    rw [items_cons]
    simp only [enumFrom, List.flatMap_cons]
    cases hg : g x with
    | none => simp only [hnone k x hg, List.nil_append]; exact ih (k + 1)
    | some t => simp only [List.flatMap_cons, hsome k x t hg, ih (k + 1)]

end Items

/-! ### `_makeFiber` in terms of `items` -/

section Make
variable {ν : Type} [DecidableEq ν]

def leafKeep (dflt : ν) (v : ν) : Option ν := if v = dflt then none else some v

theorem leafKeep_eq_none {dflt v : ν} : leafKeep dflt v = none ↔ v = dflt := by
  unfold leafKeep; by_cases h : v = dflt <;> simp [h]

theorem leafKeep_eq_some {dflt v w : ν} : leafKeep dflt v = some w ↔ v ≠ dflt ∧ v = w := by
  unfold leafKeep; by_cases h : v = dflt <;> simp [h]

theorem leaf_filter_eq_items (dflt : ν) (l : List ν) : ∀ (k : Nat),
    (enumFrom k l).filter (fun e => !decide (e.2 = dflt)) = items (leafKeep dflt) k l := by
  induction l with
  | nil => intro k; rfl
  | cons x xs ih =>
    intro k
    rw [items_cons]
    simp only [enumFrom, List.filter_cons, leafKeep]
    by_cases h : x = dflt
    · simp [h, ih (k + 1)]
    · simp [h, ih (k + 1)]

theorem makeFiber_zero (dflt : ν) (l : Nest ν 1) :
    makeFiber dflt 0 l =
      if (items (leafKeep dflt) 0 l).isEmpty then none else some (items (leafKeep dflt) 0 l) := by
  have h := leaf_filter_eq_items dflt l 0
  simp only [makeFiber]
  rw [h]
  rfl

theorem makeFiber_succ (dflt : ν) (d : Nat) (l : Nest ν (d + 2)) :
    makeFiber dflt (d + 1) l =
      if (items (makeFiber dflt d) 0 l).isEmpty then none else some (items (makeFiber dflt d) 0 l) := by
  simp only [makeFiber]
  cases l with
  | nil => rfl
  | cons x xs => rfl

theorem cv_content_succ {κ : Type} (dflt : ν) (d : Nat) (f : Tree κ ν (d + 1)) :
    content dflt (d + 1) f =
      List.flatMap (fun e => (content dflt d e.2).map (fun pv => (e.1 :: pv.1, pv.2))) f := rfl

theorem nestContent_succ (dflt : ν) (d : Nat) (l : Nest ν (d + 1)) :
    nestContent dflt (d + 1) l =
      (enumFrom 0 l).flatMap (fun e => (nestContent dflt d e.2).map (fun pv => (e.1 :: pv.1, pv.2))) := rfl

/-- what `_makeFiber` returns, as a plain list -/
theorem makeFiber_some_succ {dflt : ν} {d : Nat} {l : Nest ν (d + 2)} {t : Tree Nat ν (d + 2)}
    (h : makeFiber dflt (d + 1) l = some t) :
    t = items (makeFiber dflt d) 0 l ∧ items (makeFiber dflt d) 0 l ≠ [] := by
  rw [makeFiber_succ] at h
  cases hi : items (makeFiber dflt d) 0 l with
  | nil => rw [hi] at h; simp at h
  | cons e r =>
    rw [hi] at h
    simp only [List.isEmpty_cons, Bool.false_eq_true, if_false] at h
    exact ⟨(Option.some.inj h).symm, by simp⟩

theorem makeFiber_some_zero {dflt : ν} {l : Nest ν 1} {t : Tree Nat ν 1}
    (h : makeFiber dflt 0 l = some t) :
    t = items (leafKeep dflt) 0 l ∧ items (leafKeep dflt) 0 l ≠ [] := by
  rw [makeFiber_zero] at h
  cases hi : items (leafKeep dflt) 0 l with
  | nil => rw [hi] at h; simp at h
  | cons e r =>
    rw [hi] at h
    simp only [List.isEmpty_cons, Bool.false_eq_true, if_false] at h
    exact ⟨(Option.some.inj h).symm, by simp⟩

theorem makeFiber_none_succ {dflt : ν} {d : Nat} {l : Nest ν (d + 2)}
    (h : makeFiber dflt (d + 1) l = none) : items (makeFiber dflt d) 0 l = [] := by
  rw [makeFiber_succ] at h
  cases hi : items (makeFiber dflt d) 0 l with
  | nil => rfl
  | cons e r => rw [hi] at h; simp at h

theorem makeFiber_none_zero {dflt : ν} {l : Nest ν 1}
    (h : makeFiber dflt 0 l = none) : items (leafKeep dflt) 0 l = [] := by
  rw [makeFiber_zero] at h
  cases hi : items (leafKeep dflt) 0 l with
  | nil => rfl
  | cons e r => rw [hi] at h; simp at h

/-- `fromUncompressed` is the tree `_makeFiber` returned, or the empty fiber -/
theorem fromUncompressed_of_some {dflt : ν} {d : Nat} {l : Nest ν (d + 1)} {t : Tree Nat ν (d + 1)}
    (h : makeFiber dflt d l = some t) : fromUncompressed dflt d l = t := by
  unfold fromUncompressed; rw [h]

theorem fromUncompressed_of_none {dflt : ν} {d : Nat} {l : Nest ν (d + 1)}
    (h : makeFiber dflt d l = none) : fromUncompressed dflt d l = ([] : List (Nat × Tree Nat ν d)) := by
  unfold fromUncompressed; rw [h]

/-- the list of stored elements of `fromUncompressed` -/
theorem fromUncompressed_zero (dflt : ν) (l : Nest ν 1) :
    fromUncompressed dflt 0 l = items (leafKeep dflt) 0 l := by
  cases h : makeFiber dflt 0 l with
  | none => rw [fromUncompressed_of_none h]; exact (makeFiber_none_zero h).symm
  | some t => rw [fromUncompressed_of_some h]; exact (makeFiber_some_zero h).1

theorem fromUncompressed_succ (dflt : ν) (d : Nat) (l : Nest ν (d + 2)) :
    fromUncompressed dflt (d + 1) l = items (makeFiber dflt d) 0 l := by
  cases h : makeFiber dflt (d + 1) l with
  | none => rw [fromUncompressed_of_none h]; exact (makeFiber_none_succ h).symm
  | some t => rw [fromUncompressed_of_some h]; exact (makeFiber_some_succ h).1

/-! #### content -/

theorem content_fromUncompressed_zero (dflt : ν) (l : Nest ν 1) :
    content dflt 1 (fromUncompressed dflt 0 l) = nestContent dflt 1 l := by
  rw [nestContent_succ, cv_content_succ, fromUncompressed_zero]
  apply items_flatMap
  · intro c x t hx
    simp only [leafKeep] at hx
    by_cases hd : x = dflt
    · simp [hd] at hx
    · simp only [hd, if_false] at hx
      have hx' : x = t := Option.some.inj hx
      subst hx'; rfl
  · intro c x hx
    simp only [leafKeep] at hx
    by_cases hd : x = dflt
    · simp [nestContent, hd]
    · simp [hd] at hx

theorem cv_content_nil {κ : Type} (dflt : ν) (d : Nat) :
    content dflt (d + 1) ([] : List (κ × Tree κ ν d)) = [] := rfl

theorem content_fromUncompressed (dflt : ν) : ∀ (d : Nat) (l : Nest ν (d + 1)),
    content dflt (d + 1) (fromUncompressed dflt d l) = nestContent dflt (d + 1) l := by
  intro d
  induction d with
  | zero => intro l; exact content_fromUncompressed_zero dflt l
  | succ d ih =>
    intro l
    rw [nestContent_succ, cv_content_succ, fromUncompressed_succ]
    apply items_flatMap
    · intro c x t hx
      have := ih x
      rw [fromUncompressed_of_some hx] at this
      simp only [this]
    · intro c x hx
      have := ih x
      rw [fromUncompressed_of_none hx, cv_content_nil] at this
      simp only [← this, List.map_nil]

/-! #### canonical form of the result -/

theorem isEmpty_succ {κ : Type} (dflt : ν) (d : Nat) (f : Tree κ ν (d + 1)) :
    isEmpty dflt (d + 1) f = List.all f (fun e => isEmpty dflt d e.2) := rfl

theorem noEmptyB_succ {κ : Type} (dflt : ν) (d : Nat) (f : Tree κ ν (d + 1)) :
    noEmptyB dflt (d + 1) f = List.all f (fun e => !isEmpty dflt d e.2 && noEmptyB dflt d e.2) := rfl

theorem chainLeaf_zero {κ : Type} (owned : Bool) (dflt : ν) (f : Tree κ ν 1) :
    chainLeaf owned dflt 0 f = some dflt := rfl

theorem chainLeaf_succ_cons {κ : Type} (owned : Bool) (dflt : ν) (d : Nat) (e : κ × Tree κ ν (d + 1))
    (r : List (κ × Tree κ ν (d + 1))) :
    chainLeaf owned dflt (d + 1) (show Tree κ ν (d + 2) from e :: r) = chainLeaf owned dflt d e.2 := rfl

theorem chainLeaf_succ_nil {κ : Type} (owned : Bool) (dflt : ν) (d : Nat) :
    chainLeaf owned dflt (d + 1) (show Tree κ ν (d + 2) from ([] : List (κ × Tree κ ν (d + 1)))) = some dflt := by
  cases owned <;> rfl

theorem WF_succ {κ : Type} [LT κ] (d : Nat) (f : Tree κ ν (d + 1)) :
    WF (d + 1) f ↔ (Sorted (show List (κ × Tree κ ν d) from f) ∧ ∀ e ∈ (show List (κ × Tree κ ν d) from f), WF d e.2) :=
  Iff.rfl

theorem all_false_of_ne_nil {α : Type} {p : α → Bool} {l : List α} (hl : l ≠ [])
    (h : ∀ x ∈ l, p x = false) : l.all p = false := by
  cases l with
  | nil => exact absurd rfl hl
  | cons x xs => simp [h x (List.mem_cons_self ..)]

/-- a fiber as the list of its elements (identity) -/
abbrev asList {κ : Type} {d : Nat} (t : Tree κ ν (d + 1)) : List (κ × Tree κ ν d) := t

/-- a nest as the list of its children (identity) -/
abbrev asNestList {d : Nat} (l : Nest ν (d + 1)) : List (Nest ν d) := l

/-- what `_makeFiber` returns has no empty element anywhere, is not empty itself, has a
    complete first-payload chain and is sorted at every level -/
structure GoodTree (dflt : ν) (d : Nat) (t : Tree Nat ν (d + 1)) : Prop where
  ne       : asList t ≠ []
  noEmpty  : noEmptyB dflt (d + 1) t = true
  notEmpty : isEmpty dflt (d + 1) t = false
  chain    : ∀ owned : Bool, chainLeaf owned dflt d t = some dflt
  wf       : WF (d + 1) t

theorem makeFiber_good (dflt : ν) : ∀ (d : Nat) (l : Nest ν (d + 1)) (t : Tree Nat ν (d + 1)),
    makeFiber dflt d l = some t → GoodTree dflt d t := by
  intro d
  induction d with
  | zero =>
    intro l t h
    obtain ⟨ht, hne⟩ := makeFiber_some_zero h
    subst ht
    have hmem : ∀ e ∈ items (leafKeep dflt) 0 l, e.2 ≠ dflt := by
      intro e he
      obtain ⟨x, _, hx⟩ := items_mem _ _ _ e he
      simp only [leafKeep] at hx
      by_cases hd : x = dflt
      · simp [hd] at hx
      · simp only [hd, if_false] at hx
        have : x = e.2 := Option.some.inj hx
        rw [← this]; exact hd
    refine ⟨hne, ?_, ?_, ?_, ?_⟩
    · apply List.all_eq_true.2
      intro e he
      have := hmem e he
      simp [isEmpty, noEmptyB, this]
    · show List.all (items (leafKeep dflt) 0 l) _ = false
      apply all_false_of_ne_nil hne
      intro e he
      have := hmem e he
      simp [isEmpty, this]
    · intro owned; rfl
    · exact ⟨items_sorted _ _ _, fun _ _ => trivial⟩
  | succ d ih =>
    intro l t h
    obtain ⟨ht, hne⟩ := makeFiber_some_succ h
    subst ht
    have hmem : ∀ e ∈ items (makeFiber dflt d) 0 l, GoodTree dflt d e.2 := by
      intro e he
      obtain ⟨x, _, hx⟩ := items_mem _ _ _ e he
      exact ih x e.2 hx
    refine ⟨hne, ?_, ?_, ?_, ?_⟩
    · apply List.all_eq_true.2
      intro e he
      have g := hmem e he
      simp [g.notEmpty, g.noEmpty]
    · show List.all (items (makeFiber dflt d) 0 l) _ = false
      apply all_false_of_ne_nil hne
      intro e he
      exact (hmem e he).notEmpty
    · intro owned
      cases hh : items (makeFiber dflt d) 0 l with
      | nil => exact absurd hh hne
      | cons e r =>
        have he : e ∈ items (makeFiber dflt d) 0 l := by rw [hh]; exact List.mem_cons_self ..
        exact (hmem e he).chain owned
    · exact ⟨items_sorted _ _ _, fun e he => (hmem e he).wf⟩

theorem allDefault_succ (dflt : ν) (d : Nat) (l : Nest ν (d + 1)) :
    allDefault dflt (d + 1) l = List.all l (allDefault dflt d) := rfl

theorem makeFiber_eq_none_iff (dflt : ν) : ∀ (d : Nat) (l : Nest ν (d + 1)),
    makeFiber dflt d l = none ↔ allDefault dflt (d + 1) l = true := by
  intro d
  induction d with
  | zero =>
    intro l
    constructor
    · intro h
      apply List.all_eq_true.2
      intro x hx
      have := leafKeep_eq_none.1 ((items_eq_nil_iff (leafKeep dflt) l 0).1 (makeFiber_none_zero h) x hx)
      exact decide_eq_true this
    · intro h
      have h' := List.all_eq_true.1 h
      rw [makeFiber_zero]
      have : items (leafKeep dflt) 0 l = [] := by
        apply (items_eq_nil_iff (leafKeep dflt) l 0).2
        intro x hx
        have : decide (x = dflt) = true := h' x hx
        exact leafKeep_eq_none.2 (of_decide_eq_true this)
      rw [this]; rfl
  | succ d ih =>
    intro l
    constructor
    · intro h
      apply List.all_eq_true.2
      intro x hx
      exact (ih x).1 ((items_eq_nil_iff (makeFiber dflt d) l 0).1 (makeFiber_none_succ h) x hx)
    · intro h
      have h' := List.all_eq_true.1 h
      rw [makeFiber_succ]
      have : items (makeFiber dflt d) 0 l = [] := by
        apply (items_eq_nil_iff (makeFiber dflt d) l 0).2
        intro x hx
        exact (ih x).2 (h' x hx)
      rw [this]; rfl

/-! #### shapes -/

theorem rectB_succ (d : Nat) (n : Nat) (ns : List Nat) (l : Nest ν (d + 1)) :
    rectB (d + 1) (n :: ns) l = (decide (List.length l = n) && List.all l (rectB d ns)) := rfl

theorem rectB_succ_nil (d : Nat) (l : Nest ν (d + 1)) : rectB (d + 1) [] l = false := rfl

theorem rectB_zero_cons (n : Nat) (ns : List Nat) (v : Nest ν 0) : rectB 0 (n :: ns) v = false := rfl

/-- a rectangular nest: outer length and rectangular children -/
theorem rect_parts {d n : Nat} {ns : List Nat} {l : Nest ν (d + 1)} (h : rectB (d + 1) (n :: ns) l = true) :
    List.length l = n ∧ ∀ x ∈ asNestList l, rectB d ns x = true := by
  rw [rectB_succ, Bool.and_eq_true] at h
  exact ⟨of_decide_eq_true h.1, List.all_eq_true.1 h.2⟩

theorem zipWith_max_self (l : List Nat) : List.zipWith max l l = l := by
  induction l with
  | nil => rfl
  | cons x xs ih => simp [List.zipWith, ih]

theorem maxMerge_self (l : List Nat) : maxMerge l l = l := by
  induction l with
  | nil => rfl
  | cons x xs ih => simp [maxMerge, ih]

theorem maxMerge_nil_left (l : List Nat) : maxMerge [] l = l := by
  cases l <;> rfl

theorem calcShapeRest_const {d : Nat} {cs : Nest ν d → List Nat} {ns : List Nat} :
    ∀ (l : List (Nest ν d)), l ≠ [] → (∀ x ∈ l, cs x = ns) → calcShapeRest cs l = ns := by
  intro l
  induction l with
  | nil => intro h; exact absurd rfl h
  | cons x xs ih =>
    intro _ hall
    cases xs with
    | nil => exact hall x (List.mem_cons_self ..)
    | cons y ys =>
      have h1 := hall x (List.mem_cons_self ..)
      have h2 := ih (by simp) (fun z hz => hall z (List.mem_cons_of_mem _ hz))
      show List.zipWith max (cs x) (calcShapeRest cs (y :: ys)) = ns
      rw [h1, h2, zipWith_max_self]

theorem foldl_maxMerge_const {α : Type} {sh : α → List Nat} {ns : List Nat} :
    ∀ (l : List α), (∀ c ∈ l, sh c = ns) → l.foldl (fun rest c => maxMerge rest (sh c)) ns = ns := by
  intro l
  induction l with
  | nil => intro _; rfl
  | cons c cs ih =>
    intro h
    rw [List.foldl_cons, h c (List.mem_cons_self ..), maxMerge_self]
    exact ih (fun z hz => h z (List.mem_cons_of_mem _ hz))

theorem foldl_maxMerge_const_nil {α : Type} {sh : α → List Nat} {ns : List Nat} (l : List α) (hl : l ≠ [])
    (h : ∀ c ∈ l, sh c = ns) : l.foldl (fun rest c => maxMerge rest (sh c)) [] = ns := by
  cases l with
  | nil => exact absurd rfl hl
  | cons c cs =>
    rw [List.foldl_cons, h c (List.mem_cons_self ..), maxMerge_nil_left]
    exact foldl_maxMerge_const cs (fun z hz => h z (List.mem_cons_of_mem _ hz))

theorem ne_nil_of_length_pos {α : Type} {l : List α} (h : 0 < l.length) : l ≠ [] := by
  intro e; rw [e] at h; exact Nat.lt_irrefl 0 h

theorem rect_zero_dims {ns : List Nat} {v : Nest ν 0} (h : rectB 0 ns v = true) : ns = [] := by
  cases ns with
  | nil => rfl
  | cons n r => rw [rectB_zero_cons] at h; cases h

theorem calcShape_eq_dims : ∀ (d : Nat) (dims : List Nat) (l : Nest ν (d + 1)),
    rectB (d + 1) dims l = true → (∀ n ∈ dims, 0 < n) → calcShape d l = dims := by
  intro d
  induction d with
  | zero =>
    intro dims l hr hpos
    cases dims with
    | nil => rw [rectB_succ_nil] at hr; cases hr
    | cons n ns =>
      obtain ⟨hlen, hall⟩ := rect_parts hr
      have hn : 0 < n := hpos n (List.mem_cons_self ..)
      have hne : asNestList l ≠ [] := ne_nil_of_length_pos (by rw [hlen]; exact hn)
      obtain ⟨x, hx⟩ := List.exists_mem_of_ne_nil _ hne
      have hns := rect_zero_dims (hall x hx)
      subst hns
      show [List.length (asNestList l)] = [n]
      rw [hlen]
  | succ d ih =>
    intro dims l hr hpos
    cases dims with
    | nil => rw [rectB_succ_nil] at hr; cases hr
    | cons n ns =>
      obtain ⟨hlen, hall⟩ := rect_parts hr
      have hn : 0 < n := hpos n (List.mem_cons_self ..)
      have hne : asNestList l ≠ [] := ne_nil_of_length_pos (by rw [hlen]; exact hn)
      show List.length (asNestList l) :: calcShapeRest (calcShape d) (asNestList l) = n :: ns
      rw [hlen, calcShapeRest_const (asNestList l) hne
        (fun x hx => ih ns x (hall x hx) (fun m hm => hpos m (List.mem_cons_of_mem _ hm)))]

theorem fiberShapeSome_eq_dims (dflt : ν) : ∀ (d : Nat) (dims : List Nat) (l : Nest ν (d + 1)),
    rectB (d + 1) dims l = true → (makeFiber dflt d l).isSome = true → fiberShapeSome dflt d l = dims := by
  intro d
  induction d with
  | zero =>
    intro dims l hr hs
    cases dims with
    | nil => rw [rectB_succ_nil] at hr; cases hr
    | cons n ns =>
      obtain ⟨hlen, hall⟩ := rect_parts hr
      obtain ⟨t, ht⟩ := Option.isSome_iff_exists.1 hs
      obtain ⟨_, hne⟩ := makeFiber_some_zero ht
      obtain ⟨e, he⟩ := List.exists_mem_of_ne_nil _ hne
      obtain ⟨x, hx, _⟩ := items_mem _ _ _ e he
      have hns := rect_zero_dims (hall x hx)
      subst hns
      show [List.length (asNestList l)] = [n]
      rw [hlen]
  | succ d ih =>
    intro dims l hr hs
    cases dims with
    | nil => rw [rectB_succ_nil] at hr; cases hr
    | cons n ns =>
      obtain ⟨hlen, hall⟩ := rect_parts hr
      obtain ⟨t, ht⟩ := Option.isSome_iff_exists.1 hs
      obtain ⟨_, hne⟩ := makeFiber_some_succ ht
      obtain ⟨e, he⟩ := List.exists_mem_of_ne_nil _ hne
      obtain ⟨x, hx, hxs⟩ := items_mem _ _ _ e he
      show List.length (asNestList l) ::
        ((asNestList l).filter (fun c => (makeFiber dflt d c).isSome)).foldl
          (fun rest c => maxMerge rest (fiberShapeSome dflt d c)) [] = n :: ns
      rw [hlen]
      congr 1
      apply foldl_maxMerge_const_nil
      · intro hnil
        have : x ∈ (asNestList l).filter (fun c => (makeFiber dflt d c).isSome) := by
          apply List.mem_filter.2
          exact ⟨hx, by rw [hxs]; rfl⟩
        rw [hnil] at this; cases this
      · intro c hc
        obtain ⟨hc1, hc2⟩ := List.mem_filter.1 hc
        exact ih ns c (hall c hc1) hc2

end Make

/-! ### the lock-step union of `uncompress` -/

section Lockstep
variable {α π β : Type}

/-- `Fiber(coords=range(k, k+m), initial=1)` -/
def rangeFibFrom (k m : Nat) : Fib Nat Unit := (List.range' k m).map (fun c => (c, ()))

theorem rangeFib_eq (n : Nat) : rangeFib n = rangeFibFrom 0 n := by
  simp [rangeFib, rangeFibFrom, List.range_eq_range']

theorem rangeFibFrom_zero (k : Nat) : rangeFibFrom k 0 = [] := rfl

theorem rangeFibFrom_succ (k m : Nat) : rangeFibFrom k (m + 1) = (k, ()) :: rangeFibFrom (k + 1) m := by
  simp [rangeFibFrom, List.range'_succ]

/-- a shape coordinate below every remaining stored coordinate is a `B` row -/
theorem orMerge_gt_head {a : Fib Nat π} {k : Nat} {u : β} {rb : Fib Nat β} (h : ∀ e ∈ a, k < e.1) :
    orMerge a ((k, u) :: rb) = (k, (Mask.B, none, some u)) :: orMerge a rb := by
  cases a with
  | nil => simp [orMerge]
  | cons e ra =>
    obtain ⟨ca, pa⟩ := e
    have hk : k < ca := h (ca, pa) (List.mem_cons_self ..)
    have h1 : ¬ ca = k := by omega
    have h2 : ¬ ca < k := by omega
    rw [orMerge]
    simp [h1, h2]

theorem orMerge_same_head {ra : Fib Nat π} {k : Nat} {t : π} {u : β} {rb : Fib Nat β} :
    orMerge ((k, t) :: ra) ((k, u) :: rb) = (k, (Mask.AB, some t, some u)) :: orMerge ra rb := by
  rw [orMerge]; simp

theorem mapMOpt_eq_some_self {g : α → Option α} : ∀ (l : List α), (∀ x ∈ l, g x = some x) → mapMOpt g l = some l := by
  intro l
  induction l with
  | nil => intro _; rfl
  | cons x xs ih =>
    intro h
    simp only [mapMOpt, h x (List.mem_cons_self ..), ih (fun z hz => h z (List.mem_cons_of_mem _ hz))]

theorem mapMOpt_none_of_mem {g : α → Option β} : ∀ (l : List α), (∃ x ∈ l, g x = none) → mapMOpt g l = none := by
  intro l
  induction l with
  | nil => rintro ⟨x, hx, _⟩; cases hx
  | cons x xs ih =>
    rintro ⟨y, hy, hg⟩
    rcases List.mem_cons.1 hy with rfl | hy
    · simp only [mapMOpt, hg]
    · have := ih ⟨y, hy, hg⟩
      simp only [mapMOpt, this]
      cases g x <;> rfl

/-- `uncompress`'s loop over `self | shape_fiber` when `self` is an enumerate-and-keep
    list over exactly the shape's coordinates: one output per input position -/
theorem uncRows_lockstep (g : α → Option π) (onAB : π → Option β) (onB : Option β) :
    ∀ (l : List α) (k : Nat),
      uncRows onAB onB (orMerge (items g k l) (rangeFibFrom k l.length)) =
        mapMOpt (fun x => match g x with
                          | some t => onAB t
                          | none => onB) l := by
  intro l
  induction l with
  | nil =>
    intro k
    simp [items_nil, rangeFibFrom_zero, orMerge, uncRows, mapMOpt]
  | cons x xs ih =>
    intro k
    rw [List.length_cons, rangeFibFrom_succ]
    cases hg : g x with
    | some t =>
      rw [items_cons_some hg, orMerge_same_head]
      simp only [uncRows, mapMOpt, hg, ih (k + 1)]
    | none =>
      rw [items_cons_none hg, orMerge_gt_head (fun e he => items_key_ge g xs (k + 1) e he)]
      simp only [uncRows, mapMOpt, hg, ih (k + 1)]

end Lockstep

section Unc
variable {ν : Type} [DecidableEq ν]

theorem present_of_noEmpty {κ : Type} (dflt : ν) (d : Nat) (f : Tree κ ν (d + 1))
    (h : noEmptyB dflt (d + 1) f = true) : present dflt d f = f := by
  have h' := List.all_eq_true.1 h
  apply List.filter_eq_self.2
  intro e he
  have := h' e he
  rw [Bool.and_eq_true] at this
  exact this.1

theorem uncompress_zero (owned : Bool) (dflt : ν) (n : Nat) (ns : List Nat) (f : Tree Nat ν 1) :
    uncompress owned dflt 0 (n :: ns) f =
      uncRows (fun (v : ν) => some v) (fillEmpty (chainLeaf owned dflt 0 f) 0 ns)
        (orMerge (present dflt 0 f) (rangeFib n)) := rfl

theorem uncompress_succ (owned : Bool) (dflt : ν) (d n : Nat) (ns : List Nat) (f : Tree Nat ν (d + 2)) :
    uncompress owned dflt (d + 1) (n :: ns) f =
      uncRows (fun (t : Tree Nat ν (d + 1)) => uncompress owned dflt d ns t)
        (fillEmpty (chainLeaf owned dflt (d + 1) f) (d + 1) ns)
        (orMerge (present dflt (d + 1) f) (rangeFib n)) := rfl

theorem allDefault_zero {dflt v : ν} : allDefault dflt 0 v = true ↔ v = dflt := by
  show decide (v = dflt) = true ↔ v = dflt
  exact decide_eq_true_iff

theorem fillEmpty_zero (leaf : Option ν) (ns : List Nat) : fillEmpty leaf 0 ns = leaf := rfl

theorem fillEmpty_succ_cons (leaf : Option ν) (d n : Nat) (ns : List Nat) :
    fillEmpty leaf (d + 1) (n :: ns) =
      if n = 0 then some ([] : List (Nest ν d))
      else (fillEmpty leaf d ns).map (fun x => (List.replicate n x : List (Nest ν d))) := rfl

theorem fillEmpty_none_of_pos : ∀ (d : Nat) (ns : List Nat), (∀ n ∈ ns, 0 < n) →
    fillEmpty (none : Option ν) d ns = none := by
  intro d
  induction d with
  | zero => intro ns _; rfl
  | succ d ih =>
    intro ns hpos
    cases ns with
    | nil => rfl
    | cons n ns =>
      have hn : n ≠ 0 := Nat.pos_iff_ne_zero.1 (hpos n (List.mem_cons_self ..))
      rw [fillEmpty_succ_cons, if_neg hn, ih ns (fun m hm => hpos m (List.mem_cons_of_mem _ hm))]
      rfl

/-- filling with the default reproduces an all-default rectangular nest -/
theorem fillEmpty_of_rect (dflt : ν) : ∀ (d : Nat) (ns : List Nat) (x : Nest ν d),
    rectB d ns x = true → (∀ n ∈ ns, 0 < n) → allDefault dflt d x = true →
    fillEmpty (some dflt) d ns = some x := by
  intro d
  induction d with
  | zero =>
    intro ns x _ _ hd
    have := allDefault_zero.1 hd
    rw [fillEmpty_zero]
    exact congrArg some this.symm
  | succ d ih =>
    intro ns x hr hpos hd
    cases ns with
    | nil => rw [rectB_succ_nil] at hr; cases hr
    | cons n ns =>
      obtain ⟨hlen, hall⟩ := rect_parts hr
      have hd' := List.all_eq_true.1 hd
      have hn : 0 < n := hpos n (List.mem_cons_self ..)
      have hne : asNestList x ≠ [] := ne_nil_of_length_pos (by rw [hlen]; exact hn)
      obtain ⟨c0, hc0⟩ := List.exists_mem_of_ne_nil _ hne
      have hpos' : ∀ m ∈ ns, 0 < m := fun m hm => hpos m (List.mem_cons_of_mem _ hm)
      have hfill : ∀ c ∈ asNestList x, fillEmpty (some dflt) d ns = some c :=
        fun c hc => ih ns c (hall c hc) hpos' (hd' c hc)
      rw [fillEmpty_succ_cons, if_neg (Nat.pos_iff_ne_zero.1 hn), hfill c0 hc0]
      show some (List.replicate n c0) = some (asNestList x)
      congr 1
      symm
      apply List.eq_replicate_iff.2
      refine ⟨hlen, ?_⟩
      intro b hb
      have := (hfill b hb).symm.trans (hfill c0 hc0)
      exact Option.some.inj this

theorem cv_fromUncompressed_noEmpty (dflt : ν) (d : Nat) (n : Nest ν (d + 1)) :
    noEmptyB dflt (d + 1) (fromUncompressed dflt d n) = true := by
  cases h : makeFiber dflt d n with
  | some t => rw [fromUncompressed_of_some h]; exact (makeFiber_good dflt d n t h).noEmpty
  | none => rw [fromUncompressed_of_none h]; rfl

/-- the leaf default `_fillempty` finds on the tree built from a nest is the default, for a
    free and for a tensor-owned fiber alike -/
theorem cv_chainLeaf_fromUncompressed (owned : Bool) (dflt : ν) (d : Nat) (n : Nest ν (d + 1)) :
    chainLeaf owned dflt d (fromUncompressed dflt d n) = some dflt := by
  cases hm : makeFiber dflt d n with
  | some t => rw [fromUncompressed_of_some hm]; exact (makeFiber_good dflt d n t hm).chain owned
  | none =>
    rw [fromUncompressed_of_none hm]
    cases d with
    | zero => rfl
    | succ d => exact chainLeaf_succ_nil owned dflt d

/-- Round trip through `uncompress`, for a free (`owned = false`) or tensor-owned fiber. -/
theorem cv_uncompress_roundtrip (owned : Bool) (dflt : ν) : ∀ (d : Nat) (dims : List Nat) (n : Nest ν (d + 1)),
    rectB (d + 1) dims n = true → (∀ k ∈ dims, 0 < k) →
    uncompress owned dflt d dims (fromUncompressed dflt d n) = some n := by
  intro d
  induction d with
  | zero =>
    intro dims n hr hpos
    cases dims with
    | nil => rw [rectB_succ_nil] at hr; cases hr
    | cons m ns =>
      obtain ⟨hlen, _⟩ := rect_parts hr
      rw [uncompress_zero, present_of_noEmpty dflt 0 _ (cv_fromUncompressed_noEmpty dflt 0 n),
        cv_chainLeaf_fromUncompressed owned dflt 0 n, fillEmpty_zero, rangeFib_eq, ← hlen,
        fromUncompressed_zero]
      refine (uncRows_lockstep (leafKeep dflt) (fun (v : ν) => some v) (some dflt) (asNestList n) 0).trans ?_
      apply mapMOpt_eq_some_self
      intro x _
      cases hk : leafKeep dflt x with
      | none => exact congrArg some (leafKeep_eq_none.1 hk).symm
      | some w => exact congrArg some (leafKeep_eq_some.1 hk).2.symm
  | succ d ih =>
    intro dims n hr hpos
    cases dims with
    | nil => rw [rectB_succ_nil] at hr; cases hr
    | cons m ns =>
      obtain ⟨hlen, hall⟩ := rect_parts hr
      have hpos' : ∀ k ∈ ns, 0 < k := fun k hk => hpos k (List.mem_cons_of_mem _ hk)
      rw [uncompress_succ, present_of_noEmpty dflt (d + 1) _ (cv_fromUncompressed_noEmpty dflt (d + 1) n),
        cv_chainLeaf_fromUncompressed owned dflt (d + 1) n, rangeFib_eq, ← hlen,
        fromUncompressed_succ]
      refine (uncRows_lockstep (makeFiber dflt d) (fun t => uncompress owned dflt d ns t)
        (fillEmpty (some dflt) (d + 1) ns) (asNestList n) 0).trans ?_
      apply mapMOpt_eq_some_self
      intro x hx
      cases hk : makeFiber dflt d x with
      | none =>
        exact fillEmpty_of_rect dflt (d + 1) ns x (hall x hx) hpos' ((makeFiber_eq_none_iff dflt d x).1 hk)
      | some w =>
        have := ih ns x (hall x hx) hpos'
        rw [fromUncompressed_of_some hk] at this
        exact this

end Unc

/-! ### dictionaries and `==` -/

section Dict
variable {κ ν : Type}

theorem cv_zip_map_fst_snd {α β : Type} (f : List (α × β)) : (f.map (·.1)).zip (f.map (·.2)) = f := by
  induction f with
  | nil => rfl
  | cons e r ih => simp [ih]

theorem mapMOpt_map_some {α β γ : Type} (g : β → Option γ) (h : α → β) (k : α → γ) :
    ∀ (l : List α), (∀ x ∈ l, g (h x) = some (k x)) → mapMOpt g (l.map h) = some (l.map k) := by
  intro l
  induction l with
  | nil => intro _; rfl
  | cons x xs ih =>
    intro hx
    simp only [List.map_cons, mapMOpt, hx x (List.mem_cons_self ..),
      ih (fun z hz => hx z (List.mem_cons_of_mem _ hz))]

theorem fiber2dict_succ (d : Nat) (f : Tree κ ν (d + 1)) :
    fiber2dict (d + 1) f =
      (((asList f).map (·.1), (asList f).map (fun e => fiber2dict d e.2)) : List κ × List (YDict κ ν d)) := rfl

theorem dict2fiber_succ (d : Nat) (cs : List κ) (ps : List (YDict κ ν d)) :
    dict2fiber (d + 1) ((cs, ps) : List κ × List (YDict κ ν d)) =
      match mapMOpt (dict2fiber d) ps with
      | some ps' => if cs.length = ps'.length then some (cs.zip ps' : List (κ × Tree κ ν d)) else none
      | none => none := rfl

theorem dict2fiber_fiber2dict : ∀ (d : Nat) (t : Tree κ ν d), dict2fiber d (fiber2dict d t) = some t := by
  intro d
  induction d with
  | zero => intro t; rfl
  | succ d ih =>
    intro t
    rw [fiber2dict_succ, dict2fiber_succ,
      mapMOpt_map_some (dict2fiber d) (fun e => fiber2dict d e.2) (fun e => e.2) (asList t) (fun x _ => ih x.2)]
    simp only [List.length_map, if_true, cv_zip_map_fst_snd]

section Eq
variable [LT κ] [DecidableRel (α := κ) (· < ·)] [DecidableEq κ] [DecidableEq ν]

theorem orMerge_self {π : Type} : ∀ (a : Fib κ π),
    orMerge a a = a.map (fun e => (e.1, (Mask.AB, some e.2, some e.2))) := by
  intro a
  induction a with
  | nil => simp [orMerge]
  | cons e r ih =>
    obtain ⟨c, p⟩ := e
    rw [orMerge]
    simp [ih]

theorem eqB_succ (da db : ν) (d : Nat) (a b : Tree κ ν (d + 1)) :
    eqB da db (d + 1) a b =
      (orMerge (present da d a) (present db d b)).all (fun row =>
        match row.2 with
        | (Mask.AB, some pa, some pb) => eqB da db d pa pb
        | _ => false) := rfl

/-- `t == t` for every tree (no order assumption is needed: the union of a list with
    itself only ever takes the "equal coordinates" branch) -/
theorem eqB_refl (dflt : ν) : ∀ (d : Nat) (t : Tree κ ν d), eqB dflt dflt d t t = true := by
  intro d
  induction d with
  | zero => intro t; exact decide_eq_true rfl
  | succ d ih =>
    intro t
    rw [eqB_succ, orMerge_self, List.all_map, List.all_eq_true]
    intro e _
    exact ih e.2

end Eq
end Dict

/-! ### `fromRandom` -/

section Rand
variable {π : Type}

theorem randLoop_nil (body : Draws → Option (Option π × Draws)) (s : Draws) :
    randLoop body [] s = some ([], s) := rfl

/-- one iteration of the loop, inverted -/
theorem randLoop_cons_some {body : Draws → Option (Option π × Draws)} {c : Nat} {cs : List Nat} {s s' : Draws}
    {r : Fib Nat π} (h : randLoop body (c :: cs) s = some (r, s')) :
    ∃ p s1 r1, body s = some (p, s1) ∧ randLoop body cs s1 = some (r1, s') ∧
      r = (match p with
           | some v => (c, v) :: r1
           | none => r1) := by
  unfold randLoop at h
  cases hb : body s with
  | none => rw [hb] at h; cases h
  | some ps1 =>
    obtain ⟨p, s1⟩ := ps1
    rw [hb] at h
    cases hr : randLoop body cs s1 with
    | none => simp only [hr] at h; cases h
    | some rs2 =>
      obtain ⟨r1, s2⟩ := rs2
      simp only [hr] at h
      cases p with
      | some v =>
        simp only [Option.some.injEq, Prod.mk.injEq] at h
        obtain ⟨h1, h2⟩ := h
        subst h1; subst h2
        exact ⟨some v, s1, r1, rfl, hr, rfl⟩
      | none =>
        simp only [Option.some.injEq, Prod.mk.injEq] at h
        obtain ⟨h1, h2⟩ := h
        subst h1; subst h2
        exact ⟨none, s1, r1, rfl, hr, rfl⟩

/-- every stored element of the loop's result has a coordinate from the loop's range and
    a payload some iteration produced -/
theorem randLoop_mem {body : Draws → Option (Option π × Draws)} :
    ∀ (cs : List Nat) (s s' : Draws) (r : Fib Nat π), randLoop body cs s = some (r, s') →
      ∀ e ∈ r, e.1 ∈ cs ∧ ∃ s1 s2, body s1 = some (some e.2, s2) := by
  intro cs
  induction cs with
  | nil =>
    intro s s' r h e he
    rw [randLoop_nil] at h
    cases h; cases he
  | cons c cs ih =>
    intro s s' r h e he
    obtain ⟨p, s1, r1, hb, hr, rfl⟩ := randLoop_cons_some h
    cases p with
    | none =>
      obtain ⟨h1, h2⟩ := ih s1 s' r1 hr e he
      exact ⟨List.mem_cons_of_mem _ h1, h2⟩
    | some v =>
      rcases List.mem_cons.1 he with rfl | he
      · exact ⟨List.mem_cons_self .., s, s1, hb⟩
      · obtain ⟨h1, h2⟩ := ih s1 s' r1 hr e he
        exact ⟨List.mem_cons_of_mem _ h1, h2⟩

/-- the stored coordinates are a sub-sequence of the loop's range -/
theorem randLoop_sublist {body : Draws → Option (Option π × Draws)} :
    ∀ (cs : List Nat) (s s' : Draws) (r : Fib Nat π), randLoop body cs s = some (r, s') →
      (r.map (·.1)).Sublist cs := by
  intro cs
  induction cs with
  | nil => intro s s' r h; rw [randLoop_nil] at h; cases h; exact List.Sublist.refl _
  | cons c cs ih =>
    intro s s' r h
    obtain ⟨p, s1, r1, hb, hr, rfl⟩ := randLoop_cons_some h
    cases p with
    | none => exact (ih s1 s' r1 hr).cons c
    | some v => exact (ih s1 s' r1 hr).cons_cons c

/-- loop invariant for "fills the shape": if every iteration preserves `I` and yields
    either a payload whose points are `P` or nothing when `P` is empty, the result's
    points are `P` under every coordinate of the range -/
theorem randLoop_full {body : Draws → Option (Option π × Draws)} (I : Draws → Prop)
    (pts : π → List (List Nat)) (P : List (List Nat))
    (hbody : ∀ s p s1, I s → body s = some (p, s1) →
      I s1 ∧ (match p with
              | some t => pts t = P
              | none => P = [])) :
    ∀ (cs : List Nat) (s s' : Draws) (r : Fib Nat π), I s → randLoop body cs s = some (r, s') →
      I s' ∧ r.flatMap (fun e => (pts e.2).map (fun p => e.1 :: p)) =
             cs.flatMap (fun c => P.map (fun p => c :: p)) := by
  intro cs
  induction cs with
  | nil =>
    intro s s' r hI h
    rw [randLoop_nil] at h
    cases h
    exact ⟨hI, rfl⟩
  | cons c cs ih =>
    intro s s' r hI h
    obtain ⟨p, s1, r1, hb, hr, rfl⟩ := randLoop_cons_some h
    obtain ⟨hI1, hp⟩ := hbody s p s1 hI hb
    obtain ⟨hI', hr1⟩ := ih s1 s' r1 hI1 hr
    refine ⟨hI', ?_⟩
    cases p with
    | none =>
      simp only at hp
      simp only [List.flatMap_cons, hr1, hp, List.map_nil, List.nil_append]
    | some v =>
      simp only at hp
      simp only [List.flatMap_cons, hr1, hp]

/-- appending unused draws to the stream -/
def Draws.extend (s : Draws) (eu : List Nat) (ei : List Int) : Draws :=
  { us := s.us ++ eu, is := s.is ++ ei }

/-- if each iteration ignores the draws it does not consume, so does the loop -/
theorem randLoop_extend {body : Draws → Option (Option π × Draws)} (eu : List Nat) (ei : List Int)
    (hbody : ∀ s p s1, body s = some (p, s1) → body (s.extend eu ei) = some (p, s1.extend eu ei)) :
    ∀ (cs : List Nat) (s s' : Draws) (r : Fib Nat π), randLoop body cs s = some (r, s') →
      randLoop body cs (s.extend eu ei) = some (r, s'.extend eu ei) := by
  intro cs
  induction cs with
  | nil => intro s s' r h; rw [randLoop_nil] at h; cases h; rfl
  | cons c cs ih =>
    intro s s' r h
    obtain ⟨p, s1, r1, hb, hr, rfl⟩ := randLoop_cons_some h
    unfold randLoop
    rw [hbody s p s1 hb]
    simp only [ih s1 s' r1 hr]
    cases p <;> rfl

end Rand

section RandLeaf

theorem randLeafBody_extend (dflt : Int) (q : Nat) (eu : List Nat) (ei : List Int) (s : Draws) (p : Option Int)
    (s1 : Draws) (h : randLeafBody dflt q s = some (p, s1)) :
    randLeafBody dflt q (s.extend eu ei) = some (p, s1.extend eu ei) := by
  obtain ⟨us, is⟩ := s
  unfold randLeafBody at h ⊢
  cases us with
  | nil => cases h
  | cons u us' =>
    simp only [Draws.extend, List.cons_append] at h ⊢
    by_cases hu : u < q
    · simp only [hu, if_true] at h ⊢
      cases is with
      | nil => cases h
      | cons v is' =>
        simp only [List.cons_append, Option.some.injEq, Prod.mk.injEq] at h ⊢
        obtain ⟨h1, h2⟩ := h
        subst h1; subst h2
        exact ⟨rfl, rfl⟩
    · simp only [hu, if_false] at h ⊢
      by_cases hd : dflt = 0
      · simp only [hd, if_true, Option.some.injEq, Prod.mk.injEq] at h ⊢
        obtain ⟨h1, h2⟩ := h
        subst h1; subst h2
        exact ⟨rfl, rfl⟩
      · simp only [hd, if_false, Option.some.injEq, Prod.mk.injEq] at h ⊢
        obtain ⟨h1, h2⟩ := h
        subst h1; subst h2
        exact ⟨rfl, rfl⟩

/-- the draws are "good": every uniform draw is below `m`, no integer draw is the default -/
def GoodDraws (m : Nat) (dflt : Int) (s : Draws) : Prop :=
  (∀ u ∈ s.us, u < m) ∧ (∀ v ∈ s.is, v ≠ dflt)

theorem randLeafBody_good {m : Nat} {dflt : Int} {q : Nat} (hq : m ≤ q) (s : Draws) (p : Option Int) (s1 : Draws)
    (hI : GoodDraws m dflt s) (h : randLeafBody dflt q s = some (p, s1)) :
    GoodDraws m dflt s1 ∧ ∃ v, p = some v ∧ v ≠ dflt := by
  obtain ⟨us, is⟩ := s
  obtain ⟨hu, hv⟩ := hI
  unfold randLeafBody at h
  cases us with
  | nil => cases h
  | cons u us' =>
    have hlt : u < q := Nat.lt_of_lt_of_le (hu u (List.mem_cons_self ..)) hq
    simp only [hlt, if_true] at h
    cases is with
    | nil => cases h
    | cons v is' =>
      have hvd : v ≠ dflt := hv v (List.mem_cons_self ..)
      simp only [hvd, if_false, Option.some.injEq, Prod.mk.injEq] at h
      obtain ⟨h1, h2⟩ := h
      subst h1; subst h2
      exact ⟨⟨fun x hx => hu x (List.mem_cons_of_mem _ hx), fun x hx => hv x (List.mem_cons_of_mem _ hx)⟩,
        v, rfl, hvd⟩

end RandLeaf

section RandUpper

/-- the loop body of `fromRandom` above the leaf level -/
def randUpperBody (dflt : Int) (d : Nat) (ns qs : List Nat) (q : Nat) (s0 : Draws) :
    Option (Option (Tree Nat Int (d + 1)) × Draws) :=
  match s0.us with
  | [] => none
  | u :: us' =>
    if u < q then
      match fromRandom dflt d ns qs { s0 with us := us' } with
      | none => none
      | some (t, s1) => some ((if isEmpty dflt (d + 1) t then none else some t), s1)
    else if dflt = 0 then some (none, { s0 with us := us' })
    else none

theorem fromRandom_zero (dflt : Int) (n : Nat) (ns : List Nat) (q : Nat) (qs : List Nat) (s : Draws) :
    fromRandom dflt 0 (n :: ns) (q :: qs) s = randLoop (randLeafBody dflt q) (List.range n) s := rfl

theorem fromRandom_succ (dflt : Int) (d n : Nat) (ns : List Nat) (q : Nat) (qs : List Nat) (s : Draws) :
    fromRandom dflt (d + 1) (n :: ns) (q :: qs) s =
      randLoop (randUpperBody dflt d ns qs q) (List.range n) s := rfl

theorem fromRandom_nil_shape (dflt : Int) (d : Nat) (dens : List Nat) (s : Draws) :
    fromRandom dflt d [] dens s = none := by
  cases d <;> rfl

theorem fromRandom_nil_dens (dflt : Int) (d : Nat) (shape : List Nat) (s : Draws) :
    fromRandom dflt d shape [] s = none := by
  cases d <;> cases shape <;> rfl

/-- inversion of one upper-level iteration that produced something -/
theorem randUpperBody_some {dflt : Int} {d : Nat} {ns qs : List Nat} {q : Nat} {s0 s1 : Draws}
    {p : Option (Tree Nat Int (d + 1))} (h : randUpperBody dflt d ns qs q s0 = some (p, s1)) :
    ∃ u us', s0.us = u :: us' ∧
      ((u < q ∧ ∃ t, fromRandom dflt d ns qs { s0 with us := us' } = some (t, s1) ∧
                      p = (if isEmpty dflt (d + 1) t then none else some t)) ∨
       (¬ u < q ∧ dflt = 0 ∧ p = none ∧ s1 = { s0 with us := us' })) := by
  unfold randUpperBody at h
  cases hus : s0.us with
  | nil => rw [hus] at h; cases h
  | cons u us' =>
    rw [hus] at h
    refine ⟨u, us', rfl, ?_⟩
    by_cases hu : u < q
    · simp only [hu, if_true] at h
      cases hr : fromRandom dflt d ns qs { s0 with us := us' } with
      | none => rw [hr] at h; cases h
      | some ts =>
        obtain ⟨t, s2⟩ := ts
        rw [hr] at h
        simp only [Option.some.injEq, Prod.mk.injEq] at h
        obtain ⟨h1, h2⟩ := h
        subst h2
        exact Or.inl ⟨hu, t, rfl, h1.symm⟩
    · simp only [hu, if_false] at h
      by_cases hd : dflt = 0
      · simp only [hd, if_true, Option.some.injEq, Prod.mk.injEq] at h
        obtain ⟨h1, h2⟩ := h
        exact Or.inr ⟨hu, hd, h1.symm, h2.symm⟩
      · simp only [hd, if_false] at h
        cases h

end RandUpper

section Points
variable {κ ν : Type} [DecidableEq ν]

theorem content_zero (dflt : ν) (v : ν) :
    content (κ := κ) dflt 0 v = if v = dflt then [] else [([], v)] := rfl

theorem content_succ_asList (dflt : ν) (d : Nat) (f : Tree κ ν (d + 1)) :
    content dflt (d + 1) f =
      (asList f).flatMap (fun e => (content dflt d e.2).map (fun pv => (e.1 :: pv.1, pv.2))) := rfl

theorem content_zero_of_isEmpty (dflt : ν) (v : ν) (h : isEmpty (κ := κ) dflt 0 v = true) :
    content (κ := κ) dflt 0 v = [] := by
  have hv : v = dflt := of_decide_eq_true h
  show (if v = dflt then [] else [([], v)]) = []
  rw [if_pos hv]

theorem points_succ (dflt : ν) (d : Nat) (t : Tree κ ν (d + 1)) :
    points dflt (d + 1) t = (asList t).flatMap (fun e => (points dflt d e.2).map (fun p => e.1 :: p)) := by
  unfold points
  rw [content_succ_asList, List.map_flatMap]
  congr 1
  funext e
  rw [List.map_map, List.map_map]
  rfl

theorem cv_content_eq_nil_of_isEmpty (dflt : ν) : ∀ (d : Nat) (t : Tree κ ν d),
    isEmpty dflt d t = true → content dflt d t = [] := by
  intro d
  induction d with
  | zero =>
    intro t h
    exact content_zero_of_isEmpty dflt t h
  | succ d ih =>
    intro t h
    have h' := List.all_eq_true.1 h
    rw [content_succ_asList]
    apply List.flatMap_eq_nil_iff.2
    intro e he
    rw [ih e.2 (h' e he)]
    rfl

end Points
/-! ### a canonical tree is determined by its content -/

section Unique
variable {κ ν : Type} [DecidableEq ν]

theorem isEmpty_of_content_nil (dflt : ν) : ∀ (d : Nat) (t : Tree κ ν d),
    content dflt d t = [] → isEmpty dflt d t = true := by
  intro d
  induction d with
  | zero =>
    intro t h
    have key : ∀ v : ν, content (κ := κ) dflt 0 v = [] → isEmpty (κ := κ) dflt 0 v = true := by
      intro v hv
      rw [content_zero] at hv
      by_cases hd : v = dflt
      · exact decide_eq_true hd
      · rw [if_neg hd] at hv; cases hv
    exact key t h
  | succ d ih =>
    intro t h
    rw [content_succ_asList] at h
    have h' := List.flatMap_eq_nil_iff.1 h
    apply List.all_eq_true.2
    intro e he
    have := h' e he
    exact ih e.2 (List.map_eq_nil_iff.1 this)

/-- the part of the content contributed by one element -/
def contrib (dflt : ν) (d : Nat) (e : κ × Tree κ ν d) : List (List κ × ν) :=
  (content dflt d e.2).map (fun pv => (e.1 :: pv.1, pv.2))

theorem cv_content_cons (dflt : ν) (d : Nat) (e : κ × Tree κ ν d) (r : List (κ × Tree κ ν d)) :
    content dflt (d + 1) (show Tree κ ν (d + 1) from e :: r) =
      contrib dflt d e ++ content dflt (d + 1) (show Tree κ ν (d + 1) from r) := rfl

theorem content_nil' (dflt : ν) (d : Nat) :
    content dflt (d + 1) (show Tree κ ν (d + 1) from ([] : List (κ × Tree κ ν d))) = [] := rfl

variable [DecidableEq κ]

/-- the point starts with coordinate `c` -/
def hdIs (c : κ) (pv : List κ × ν) : Bool := decide (pv.1.head? = some c)

theorem contrib_hdIs (dflt : ν) (d : Nat) (e : κ × Tree κ ν d) : ∀ pv ∈ contrib dflt d e, hdIs e.1 pv = true := by
  intro pv h
  obtain ⟨q, _, rfl⟩ := List.mem_map.1 h
  simp [hdIs]

theorem contrib_not_hdIs (dflt : ν) (d : Nat) (e : κ × Tree κ ν d) (c : κ) (hne : e.1 ≠ c) :
    ∀ pv ∈ contrib dflt d e, hdIs c pv = false := by
  intro pv h
  obtain ⟨q, _, rfl⟩ := List.mem_map.1 h
  simp [hdIs, hne]

theorem content_not_hdIs (dflt : ν) (d : Nat) (c : κ) : ∀ (r : List (κ × Tree κ ν d)),
    (∀ x ∈ r, x.1 ≠ c) → ∀ pv ∈ content dflt (d + 1) (show Tree κ ν (d + 1) from r), hdIs c pv = false := by
  intro r
  induction r with
  | nil => intro _ pv h; rw [content_nil'] at h; cases h
  | cons x xs ih =>
    intro hne pv h
    rw [cv_content_cons] at h
    rcases List.mem_append.1 h with h | h
    · exact contrib_not_hdIs dflt d x c (hne x (List.mem_cons_self ..)) pv h
    · exact ih (fun y hy => hne y (List.mem_cons_of_mem _ hy)) pv h

theorem filter_hdIs_cons (dflt : ν) (d : Nat) (e : κ × Tree κ ν d) (r : List (κ × Tree κ ν d))
    (hne : ∀ x ∈ r, x.1 ≠ e.1) :
    (content dflt (d + 1) (show Tree κ ν (d + 1) from e :: r)).filter (hdIs e.1) = contrib dflt d e ∧
    (content dflt (d + 1) (show Tree κ ν (d + 1) from e :: r)).filter (fun pv => !hdIs e.1 pv) =
      content dflt (d + 1) (show Tree κ ν (d + 1) from r) := by
  rw [cv_content_cons, List.filter_append, List.filter_append]
  have h1 : (contrib dflt d e).filter (hdIs e.1) = contrib dflt d e :=
    List.filter_eq_self.2 (contrib_hdIs dflt d e)
  have h2 : (content dflt (d + 1) (show Tree κ ν (d + 1) from r)).filter (hdIs e.1) = [] :=
    List.filter_eq_nil_iff.2 (fun pv hpv => by rw [content_not_hdIs dflt d e.1 r hne pv hpv]; simp)
  have h3 : (contrib dflt d e).filter (fun pv => !hdIs e.1 pv) = [] :=
    List.filter_eq_nil_iff.2 (fun pv hpv => by rw [contrib_hdIs dflt d e pv hpv]; simp)
  have h4 : (content dflt (d + 1) (show Tree κ ν (d + 1) from r)).filter (fun pv => !hdIs e.1 pv) =
      content dflt (d + 1) (show Tree κ ν (d + 1) from r) :=
    List.filter_eq_self.2 (fun pv hpv => by rw [content_not_hdIs dflt d e.1 r hne pv hpv]; rfl)
  rw [h1, h2, h3, h4]
  exact ⟨List.append_nil _, List.nil_append _⟩

theorem contrib_inj (dflt : ν) (d : Nat) (c : κ) (t t' : Tree κ ν d)
    (h : contrib dflt d (c, t) = contrib dflt d (c, t')) : content dflt d t = content dflt d t' := by
  unfold contrib at h
  refine (List.map_inj_right ?_).1 h
  intro a b hab
  simp only [Prod.mk.injEq, List.cons.injEq, true_and] at hab
  exact Prod.ext hab.1 hab.2

theorem contrib_head (dflt : ν) (d : Nat) (e : κ × Tree κ ν d) (rest : List (List κ × ν))
    (hne : contrib dflt d e ≠ []) : ∃ pv, (contrib dflt d e ++ rest).head? = some pv ∧ hdIs e.1 pv = true := by
  cases hc : contrib dflt d e with
  | nil => exact absurd hc hne
  | cons pv r =>
    refine ⟨pv, rfl, ?_⟩
    apply contrib_hdIs dflt d e
    rw [hc]; exact List.mem_cons_self ..

end Unique

section Unique2
variable {κ ν : Type} [DecidableEq ν] [DecidableEq κ] [LT κ] [DecidableRel (α := κ) (· < ·)] [StrictTotal κ]
open StrictTotal

/-- the executable well-formedness check decides `WF` -/
theorem cv_wfB_iff : ∀ (d : Nat) (t : Tree κ ν d), wfB d t = true ↔ WF d t := by
  intro d
  induction d with
  | zero => intro t; exact ⟨fun _ => trivial, fun _ => rfl⟩
  | succ d ih =>
    intro t
    show (sortedB (asList t) && (asList t).all (fun e => wfB d e.2)) = true ↔
      (Sorted (asList t) ∧ ∀ e ∈ asList t, WF d e.2)
    rw [Bool.and_eq_true, sortedB_iff, List.all_eq_true]
    exact ⟨fun ⟨h1, h2⟩ => ⟨h1, fun e he => (ih e.2).1 (h2 e he)⟩,
           fun ⟨h1, h2⟩ => ⟨h1, fun e he => (ih e.2).2 (h2 e he)⟩⟩

theorem hdIs_unique {c c' : κ} {pv : List κ × ν} (h : hdIs c pv = true) (h' : hdIs c' pv = true) : c = c' := by
  simp only [hdIs, decide_eq_true_eq] at h h'
  rw [h] at h'
  exact Option.some.inj h'

/-- Two sorted trees without empty elements that have the same content are equal. -/
theorem canonical_unique (dflt : ν) : ∀ (d : Nat) (a b : Tree κ ν d),
    WF d a → WF d b → noEmptyB dflt d a = true → noEmptyB dflt d b = true →
    content dflt d a = content dflt d b → a = b := by
  intro d
  induction d with
  | zero =>
    intro a b _ _ _ _ h
    have key : ∀ v w : ν, content (κ := κ) dflt 0 v = content (κ := κ) dflt 0 w → v = w := by
      intro v w hvw
      rw [content_zero, content_zero] at hvw
      by_cases hv : v = dflt
      · by_cases hw : w = dflt
        · rw [hv, hw]
        · rw [if_pos hv, if_neg hw] at hvw; cases hvw
      · by_cases hw : w = dflt
        · rw [if_neg hv, if_pos hw] at hvw; cases hvw
        · rw [if_neg hv, if_neg hw] at hvw
          simp only [List.cons.injEq, Prod.mk.injEq, true_and, and_true] at hvw
          exact hvw
    exact key a b h
  | succ d ih =>
    have main : ∀ (a b : List (κ × Tree κ ν d)),
        WF (d + 1) (show Tree κ ν (d + 1) from a) → WF (d + 1) (show Tree κ ν (d + 1) from b) →
        noEmptyB dflt (d + 1) (show Tree κ ν (d + 1) from a) = true →
        noEmptyB dflt (d + 1) (show Tree κ ν (d + 1) from b) = true →
        content dflt (d + 1) (show Tree κ ν (d + 1) from a) = content dflt (d + 1) (show Tree κ ν (d + 1) from b) →
        a = b := by
      -- facts about a head element of a canonical list
      have headFacts : ∀ (e : κ × Tree κ ν d) (r : List (κ × Tree κ ν d)),
          WF (d + 1) (show Tree κ ν (d + 1) from e :: r) →
          noEmptyB dflt (d + 1) (show Tree κ ν (d + 1) from e :: r) = true →
          (∀ x ∈ r, x.1 ≠ e.1) ∧ contrib dflt d e ≠ [] ∧ WF d e.2 ∧ noEmptyB dflt d e.2 = true ∧
          WF (d + 1) (show Tree κ ν (d + 1) from r) ∧ noEmptyB dflt (d + 1) (show Tree κ ν (d + 1) from r) = true := by
        intro e r hw hn
        obtain ⟨hs, hwe⟩ := hw
        have hn' := List.all_eq_true.1 hn
        have hne := hn' e (List.mem_cons_self ..)
        rw [Bool.and_eq_true] at hne
        refine ⟨?_, ?_, hwe e (List.mem_cons_self ..), hne.2, ⟨hs.tail, fun x hx => hwe x (List.mem_cons_of_mem _ hx)⟩, ?_⟩
        · intro x hx heq
          exact irrefl e.1 (by have := hs.head_lt x hx; rw [heq] at this; exact this)
        · intro hc
          have : content dflt d e.2 = [] := List.map_eq_nil_iff.1 hc
          have := isEmpty_of_content_nil dflt d e.2 this
          rw [this] at hne
          exact absurd hne.1 (by simp)
        · apply List.all_eq_true.2
          intro x hx
          exact hn' x (List.mem_cons_of_mem _ hx)
      intro a
      induction a with
      | nil =>
        intro b _ hwb _ hnb h
        cases b with
        | nil => rfl
        | cons e' r' =>
          obtain ⟨_, hc, _⟩ := headFacts e' r' hwb hnb
          rw [content_nil', cv_content_cons] at h
          have := List.append_eq_nil_iff.1 h.symm
          exact absurd this.1 hc
      | cons e r iha =>
        intro b hwa hwb hna hnb h
        cases b with
        | nil =>
          obtain ⟨_, hc, _⟩ := headFacts e r hwa hna
          rw [content_nil', cv_content_cons] at h
          have := List.append_eq_nil_iff.1 h
          exact absurd this.1 hc
        | cons e' r' =>
          obtain ⟨hne, hc, hwe, hnee, hwr, hnr⟩ := headFacts e r hwa hna
          obtain ⟨hne', hc', hwe', hnee', hwr', hnr'⟩ := headFacts e' r' hwb hnb
          -- the first coordinates agree
          have hk : e.1 = e'.1 := by
            have h1 := h
            rw [cv_content_cons, cv_content_cons] at h1
            obtain ⟨pv, hpv, hh⟩ := contrib_head dflt d e (content dflt (d + 1) (show Tree κ ν (d + 1) from r)) hc
            obtain ⟨pv', hpv', hh'⟩ := contrib_head dflt d e' (content dflt (d + 1) (show Tree κ ν (d + 1) from r')) hc'
            rw [h1] at hpv
            rw [hpv] at hpv'
            have : pv = pv' := Option.some.inj hpv'
            subst this
            exact hdIs_unique hh hh'
          obtain ⟨f1, f2⟩ := filter_hdIs_cons dflt d e r hne
          obtain ⟨f1', f2'⟩ := filter_hdIs_cons dflt d e' r' hne'
          rw [h, hk, f1'] at f1
          rw [h, hk, f2'] at f2
          obtain ⟨c, t⟩ := e
          obtain ⟨c', t'⟩ := e'
          simp only at hk
          subst hk
          have ht : t = t' := ih t t' hwe hwe' hnee hnee' (contrib_inj dflt d c t t' f1.symm)
          have hr : r = r' := iha r' hwr hwr' hnr hnr' f2.symm
          rw [ht, hr]
    intro a b hwa hwb hna hnb h
    exact main a b hwa hwb hna hnb h

end Unique2
end Ft
