/-
  C06 helper lemmas, part 4: uniform tiling of an index variable re-indexes the dense sum.

  Variable `v` is split into the upper half `v1` (a fresh loop variable) and the lower half, which
  keeps the number `v` (the lower coordinates are the original coordinates).  A tiled operand has
  value `A[.., x, ..]` at `(.., x1, x, ..)` when `x1 = x / step * step` and 0 elsewhere (`Tiled`).
-/
import FtProofs.Lemmas.KernelRun
set_option linter.unusedSectionVars false
set_option linter.unusedSimpArgs false
set_option linter.unusedVariables false
namespace Ft.C06
open Ft StrictTotal

section
variable {κ : Type} [LT κ] [DecidableRel (α := κ) (· < ·)] [DecidableEq κ] [StrictTotal κ]

theorem esum_append_single (U : List κ) (w : Nat) : ∀ (vs : List Nat) (G : (Nat → κ) → Int) (σ : Nat → κ),
    esum U (vs ++ [w]) G σ = esum U vs (fun σ' => (U.map (fun x => G (upd σ' w x))).sum) σ
  | [], G, σ => rfl
  | v :: vs, G, σ => by
    simp only [List.cons_append, esum]
    apply sum_map_congr
    intro c _
    exact esum_append_single U w vs G _

/-- congruence that may use that every summed variable ranges over `U` -/
theorem esum_congr_range (U : List κ) : ∀ (vs : List Nat) (F G : (Nat → κ) → Int) (σ0 : Nat → κ),
    (∀ σ, (∀ w, w ∈ vs → σ w ∈ U) → (∀ w, w ∉ vs → σ w = σ0 w) → F σ = G σ) →
    esum U vs F σ0 = esum U vs G σ0
  | [], F, G, σ0, h => h σ0 (fun _ hw => by cases hw) (fun _ _ => rfl)
  | v :: vs, F, G, σ0, h => by
    simp only [esum]
    apply sum_map_congr
    intro c hc
    have hout : ∀ σ : Nat → κ, (∀ w, w ∉ vs → σ w = upd σ0 v c w) → ∀ w, w ∉ v :: vs → σ w = σ0 w := by
      intro σ hσ w hw
      have h1 : w ≠ v := fun e => hw (e ▸ List.mem_cons_self ..)
      rw [hσ w (fun e => hw (List.mem_cons_of_mem _ e)), upd_ne _ _ h1]
    by_cases hv : v ∈ vs
    · apply esum_congr_range U vs F G
      intro σ hσ hσ'
      apply h σ _ (hout σ hσ')
      intro w hw
      rcases List.mem_cons.1 hw with e | e
      · exact e ▸ hσ v hv
      · exact hσ w e
    · rw [esum_congr U vs F (fun σ => if σ v = c then F σ else 0) (upd σ0 v c)
          (fun σ hσ => by rw [if_pos (by rw [hσ v hv, upd_same])]),
        esum_congr U vs G (fun σ => if σ v = c then G σ else 0) (upd σ0 v c)
          (fun σ hσ => by rw [if_pos (by rw [hσ v hv, upd_same])])]
      apply esum_congr_range U vs
      intro σ hσ hσ'
      by_cases hσv : σ v = c
      · rw [if_pos hσv, if_pos hσv]
        apply h σ _ (hout σ hσ')
        intro w hw
        rcases List.mem_cons.1 hw with e | e
        · rw [e, hσv]; exact hc
        · exact hσ w e
      · rw [if_neg hσv, if_neg hσv]

theorem cval_upd_irrelevant (c : Cur κ) (σ : Nat → κ) (w : Nat) (x : κ) (hw : w ∉ c.ranks) :
    cval c (upd σ w x) = cval c σ := by
  unfold cval
  congr 1
  apply List.map_congr_left
  intro a ha
  exact upd_ne σ x (fun e => hw (e ▸ ha))

theorem prodVal_upd_irrelevant (ops : List (Cur κ)) (σ : Nat → κ) (w : Nat) (x : κ)
    (hw : ∀ c ∈ ops, w ∉ c.ranks) : prodVal ops (upd σ w x) = prodVal ops σ := by
  unfold prodVal
  congr 1
  apply List.map_congr_left
  intro c hc
  exact cval_upd_irrelevant c σ w x (hw c hc)

end

/-! ### the tiled operand relation (integer coordinates) -/

/-- `c'` is `c` tiled on variable `v` with upper half `v1` -/
def Tiled (step : Int) (v v1 : Nat) (c c' : Cur Int) : Prop :=
  ∀ σ, cval c' σ = if σ v1 = tileOf step (σ v) then cval c σ else 0

/-- operand by operand: tiled, or the same tensor -/
def TiledOps (step : Int) (v v1 : Nat) : List (Cur Int) → List (Cur Int) → Prop
  | [], [] => True
  | c :: cs, c' :: cs' => (Tiled step v v1 c c' ∨ SameTensor c c') ∧ TiledOps step v v1 cs cs'
  | _, _ => False

def AnyTiled (step : Int) (v v1 : Nat) : List (Cur Int) → List (Cur Int) → Prop
  | c :: cs, c' :: cs' => Tiled step v v1 c c' ∨ AnyTiled step v v1 cs cs'
  | _, _ => False

theorem prodVal_tiled_pos (step : Int) (v v1 : Nat) : ∀ (ops ops' : List (Cur Int)),
    TiledOps step v v1 ops ops' → ∀ σ, σ v1 = tileOf step (σ v) → prodVal ops' σ = prodVal ops σ
  | [], [], _, _, _ => rfl
  | c :: cs, c' :: cs', h, σ, hσ => by
    have ih := prodVal_tiled_pos step v v1 cs cs' h.2 σ hσ
    unfold prodVal at *
    simp only [List.map_cons, prodL]
    rw [ih]
    rcases h.1 with ht | hs
    · rw [ht σ, if_pos hσ]
    · rw [hs σ]
  | [], _ :: _, h, _, _ => h.elim
  | _ :: _, [], h, _, _ => h.elim

theorem prodVal_tiled_neg (step : Int) (v v1 : Nat) : ∀ (ops ops' : List (Cur Int)),
    AnyTiled step v v1 ops ops' → ∀ σ, σ v1 ≠ tileOf step (σ v) → prodVal ops' σ = 0
  | [], _, h, _, _ => h.elim
  | _ :: _, [], h, _, _ => h.elim
  | c :: cs, c' :: cs', h, σ, hσ => by
    unfold prodVal
    simp only [List.map_cons, prodL]
    rcases h with ht | hr
    · rw [ht σ, if_neg hσ]; simp
    · have := prodVal_tiled_neg step v v1 cs cs' hr σ hσ
      unfold prodVal at this
      rw [this]; simp

theorem prodVal_tiled (step : Int) (v v1 : Nat) (ops ops' : List (Cur Int))
    (h1 : TiledOps step v v1 ops ops') (h2 : AnyTiled step v v1 ops ops') (σ : Nat → Int) :
    prodVal ops' σ = if σ v1 = tileOf step (σ v) then prodVal ops σ else 0 := by
  by_cases h : σ v1 = tileOf step (σ v)
  · rw [if_pos h]; exact prodVal_tiled_pos step v v1 ops ops' h1 σ h
  · rw [if_neg h]; exact prodVal_tiled_neg step v v1 ops ops' h2 σ h

/-- **tiling re-indexes the dense sum.**  `order'` is any permutation of the loop variables with the
    new upper variable `v1`; the output ranks `zr'` are those of `zr`, plus `v1` if the tiled variable
    is an output variable.  Then the tiled dense result at the tiled point is the original dense
    result at the original point (and 0 at points whose upper coordinate is not the tile of the lower). -/
theorem einsum_tiled (step : Int) (U : List Int) (hU : Asc U) (htile : ∀ x ∈ U, tileOf step x ∈ U)
    (v v1 : Nat) (order order' : List Nat) (ops ops' : List (Cur Int)) (zr zr' : List Nat)
    (hv : v ∈ order) (hv1 : v1 ∉ order) (hperm : order'.Perm (v1 :: order))
    (hzsub : ∀ w ∈ zr, w ∈ order)
    (hzr' : ∀ w, w ∈ zr' ↔ (w ∈ zr ∨ (w = v1 ∧ v ∈ zr)))
    (hops1 : ∀ c ∈ ops, v1 ∉ c.ranks)
    (h1 : TiledOps step v v1 ops ops') (h2 : AnyTiled step v v1 ops ops')
    (τ σ0 : Nat → Int) :
    einsum U order' ops' (fun σ => zr'.map σ) (zr'.map τ) σ0 =
      if (v ∈ zr → τ v1 = tileOf step (τ v)) then einsum U order ops (fun σ => zr.map σ) (zr.map τ) σ0 else 0 := by
  have hvv1 : v ≠ v1 := fun e => hv1 (e ▸ hv)
  have hv1zr : v1 ∉ zr := fun h => hv1 (hzsub v1 h)
  have hperm' : order'.Perm (order ++ [v1]) :=
    hperm.trans (List.perm_append_singleton v1 order).symm
  unfold einsum
  rw [esum_perm U hperm', esum_append_single]
  -- the conditions, as agreement on the output variables
  have hC : ∀ σ : Nat → Int, (zr.map σ = zr.map τ) ↔ ∀ w ∈ zr, σ w = τ w := fun σ => List.map_inj_left
  have hC' : ∀ σ : Nat → Int, (zr'.map σ = zr'.map τ) ↔ ∀ w ∈ zr', σ w = τ w := fun σ => List.map_inj_left
  -- the inner sum over the upper coordinate, for an assignment of the original variables
  have inner : ∀ σ : Nat → Int, σ v ∈ U →
      (U.map (fun x => if zr'.map (upd σ v1 x) = zr'.map τ then prodVal ops' (upd σ v1 x) else 0)).sum =
      if (v ∈ zr → τ v1 = tileOf step (τ v)) then (if zr.map σ = zr.map τ then prodVal ops σ else 0) else 0 := by
    intro σ hσv
    have hterm : ∀ x, (if zr'.map (upd σ v1 x) = zr'.map τ then prodVal ops' (upd σ v1 x) else 0) =
        if ((v ∈ zr → x = τ v1) ∧ zr.map σ = zr.map τ) ∧ x = tileOf step (σ v) then prodVal ops σ else 0 := by
      intro x
      rw [prodVal_tiled step v v1 ops ops' h1 h2, upd_same, upd_ne _ _ hvv1,
        prodVal_upd_irrelevant ops σ v1 x hops1]
      have hcond : (zr'.map (upd σ v1 x) = zr'.map τ) ↔ ((v ∈ zr → x = τ v1) ∧ zr.map σ = zr.map τ) := by
        rw [hC', hC]
        constructor
        · intro h
          refine ⟨fun hvz => ?_, fun w hw => ?_⟩
          · have := h v1 ((hzr' v1).2 (Or.inr ⟨rfl, hvz⟩))
            rwa [upd_same] at this
          · have := h w ((hzr' w).2 (Or.inl hw))
            rwa [upd_ne _ _ (fun (e : w = v1) => hv1zr (e ▸ hw))] at this
        · rintro ⟨ha, hb⟩ w hw
          rcases (hzr' w).1 hw with hw | ⟨rfl, hvz⟩
          · rw [upd_ne _ _ (fun (e : w = v1) => hv1zr (e ▸ hw))]; exact hb w hw
          · rw [upd_same]; exact ha hvz
      by_cases hc : zr'.map (upd σ v1 x) = zr'.map τ
      · rw [if_pos hc]
        by_cases hx : x = tileOf step (σ v)
        · rw [if_pos hx, if_pos ⟨hcond.1 hc, hx⟩]
        · rw [if_neg hx, if_neg (fun h => hx h.2)]
      · rw [if_neg hc, if_neg (fun h => hc (hcond.2 h.1))]
    rw [sum_map_congr _ _ _ (fun x _ => hterm x)]
    by_cases hz : zr.map σ = zr.map τ
    · by_cases hvz : v ∈ zr
      · have hστ : σ v = τ v := (hC σ).1 hz v hvz
        by_cases ht : τ v1 = tileOf step (τ v)
        · rw [if_pos (fun _ => ht), if_pos hz]
          rw [sum_single _ U hU (tileOf step (σ v)) (htile _ hσv)]
          · rw [if_pos ⟨⟨fun _ => by rw [ht, hστ], hz⟩, rfl⟩]
          · intro x _ hx; rw [if_neg (fun h => hx h.2)]
        · rw [if_neg (fun h => ht (h hvz))]
          apply sum_map_zero
          intro x _
          rw [if_neg]
          rintro ⟨⟨ha, _⟩, hb⟩
          exact ht (by rw [← ha hvz, hb, hστ])
      · rw [if_pos (fun h => absurd h hvz), if_pos hz]
        rw [sum_single _ U hU (tileOf step (σ v)) (htile _ hσv)]
        · rw [if_pos ⟨⟨fun h => absurd h hvz, hz⟩, rfl⟩]
        · intro x _ hx; rw [if_neg (fun h => hx h.2)]
    · rw [if_neg hz]
      have : (U.map (fun x => if ((v ∈ zr → x = τ v1) ∧ zr.map σ = zr.map τ) ∧ x = tileOf step (σ v)
          then prodVal ops σ else 0)).sum = 0 :=
        sum_map_zero _ _ (fun x _ => if_neg (fun h => hz h.1.2))
      rw [this]; simp
  by_cases hcond : (v ∈ zr → τ v1 = tileOf step (τ v))
  · rw [if_pos hcond]
    apply esum_congr_range
    intro σ hσ _
    rw [inner σ (hσ v hv), if_pos hcond]
  · rw [if_neg hcond]
    apply esum_eq_zero_of_range
    intro σ hσ
    rw [inner σ (hσ v hv), if_neg hcond]

end Ft.C06
