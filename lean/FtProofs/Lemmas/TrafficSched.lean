/-
  Helper lemmas for C17: the order in which `_bufferTraffic` consumes the bindings' traces is an
  interleaving (every binding sees exactly its own rows, in order), and the buffet state of a
  binding evolves independently of the others.
-/
import FtProofs.Lemmas.TrafficBasic
set_option linter.unusedSectionVars false
set_option linter.unusedSimpArgs false
set_option linter.unusedVariables false
namespace Ft
namespace Traffic

/-- rows of binding `i` in a consumption order -/
def proj (i : Nat) (xs : List (Nat × Acc)) : List Acc := (xs.filter (fun x => decide (x.1 = i))).map (·.2)

@[simp] theorem proj_nil (i : Nat) : proj i [] = [] := rfl

theorem proj_cons (i : Nat) (x : Nat × Acc) (xs : List (Nat × Acc)) :
    proj i (x :: xs) = if x.1 = i then x.2 :: proj i xs else proj i xs := by
  unfold proj
  by_cases h : x.1 = i <;> simp [List.filter_cons, h]

/-! ### pickMin returns the position of a non-empty trace, or none if all are empty -/

theorem pickMin_none (L : Nat) : ∀ (ts : List (List Acc)) (i : Nat),
    pickMin L i none ts = none → ∀ t ∈ ts, t = []
  | [], _, _, t, ht => by cases ht
  | [] :: ts, i, h, t, ht => by
    rcases List.mem_cons.1 ht with rfl | ht
    · rfl
    · exact pickMin_none L ts (i + 1) (by simpa [pickMin] using h) t ht
  | (a :: r) :: ts, i, h, _, _ => by
    exfalso
    simp only [pickMin] at h
    -- once a candidate exists the result is `some`
    have : ∀ (ts : List (List Acc)) (i : Nat) (b : List Int × Nat), pickMin L i (some b) ts ≠ none := by
      intro ts
      induction ts with
      | nil => intro i b; simp [pickMin]
      | cons t ts ih =>
        intro i b
        cases t with
        | nil => simpa [pickMin] using ih (i + 1) b
        | cons a r =>
          obtain ⟨kb, ib⟩ := b
          simp only [pickMin]
          split
          · exact ih _ _
          · exact ih _ _
    exact this _ _ _ h

theorem pickMin_some (L : Nat) : ∀ (ts : List (List Acc)) (i : Nat) (best : Option (List Int × Nat)) (j : Nat),
    pickMin L i best ts = some j →
      (∃ k, best = some (k, j)) ∨ (i ≤ j ∧ ∃ a r, ts[j - i]? = some (a :: r))
  | [], i, best, j, h => by
    left
    cases best with
    | none => simp [pickMin] at h
    | some b => obtain ⟨k, jb⟩ := b; simp [pickMin] at h; exact ⟨k, by rw [h]⟩
  | [] :: ts, i, best, j, h => by
    have := pickMin_some L ts (i + 1) best j (by simpa [pickMin] using h)
    rcases this with h1 | ⟨h1, a, r, h2⟩
    · exact Or.inl h1
    · right
      refine ⟨by omega, a, r, ?_⟩
      have e : j - i = (j - (i + 1)) + 1 := by omega
      rw [e]; simpa using h2
  | (a :: r) :: ts, i, best, j, h => by
    have key : ∀ (b : List Int × Nat), b.2 = i ∨ (∃ k, best = some (k, b.2)) →
        pickMin L (i + 1) (some b) ts = some j →
        (∃ k, best = some (k, j)) ∨ (i ≤ j ∧ ∃ a' r', ((a :: r) :: ts)[j - i]? = some (a' :: r')) := by
      intro b hb h'
      have := pickMin_some L ts (i + 1) (some b) j h'
      rcases this with ⟨k, h1⟩ | ⟨h1, a', r', h2⟩
      · cases h1
        rcases hb with hb | hb
        · right
          simp only at hb
          refine ⟨by omega, a, r, ?_⟩
          have : j - i = 0 := by omega
          rw [this]; rfl
        · exact Or.inl hb
      · right
        refine ⟨by omega, a', r', ?_⟩
        have e : j - i = (j - (i + 1)) + 1 := by omega
        rw [e]; simpa using h2
    simp only [pickMin] at h
    cases best with
    | none => exact key _ (Or.inl rfl) h
    | some b =>
      obtain ⟨kb, ib⟩ := b
      simp only at h
      split at h
      · exact key _ (Or.inl rfl) h
      · exact key _ (Or.inr ⟨kb, rfl⟩) h

/-! ### popAt -/

theorem popAt_some : ∀ (i : Nat) (ts : List (List Acc)) (a : Acc) (r : List Acc),
    ts[i]? = some (a :: r) → popAt i ts = some (a, ts.set i r)
  | 0, [] :: _, _, _, h => by simp at h
  | 0, (b :: t) :: ts, a, r, h => by
    simp only [List.getElem?_cons_zero, Option.some.injEq, List.cons.injEq] at h
    obtain ⟨rfl, rfl⟩ := h
    simp [popAt]
  | i + 1, t :: ts, a, r, h => by
    simp only [List.getElem?_cons_succ] at h
    simp [popAt, popAt_some i ts a r h]
  | _, [], _, _, h => by simp at h

theorem totalLen_set {ts : List (List Acc)} {i : Nat} {a : Acc} {r : List Acc}
    (h : ts[i]? = some (a :: r)) : totalLen (ts.set i r) + 1 = totalLen ts := by
  induction ts generalizing i with
  | nil => simp at h
  | cons t ts ih =>
    cases i with
    | zero =>
      simp only [List.getElem?_cons_zero, Option.some.injEq] at h
      subst h
      simp [totalLen]; omega
    | succ i =>
      simp only [List.getElem?_cons_succ] at h
      have := ih h
      simp only [totalLen, List.set_cons_succ, List.map_cons, List.sum_cons] at this ⊢
      omega

theorem totalLen_zero {ts : List (List Acc)} (h : totalLen ts = 0) : ∀ t ∈ ts, t = [] := by
  induction ts with
  | nil => intro t ht; cases ht
  | cons t ts ih =>
    simp only [totalLen, List.map_cons, List.sum_cons] at h
    intro x hx
    rcases List.mem_cons.1 hx with rfl | hx
    · exact List.eq_nil_of_length_eq_zero (by omega)
    · exact ih (by simp only [totalLen]; omega) x hx

theorem getD_of_all_nil {ts : List (List Acc)} (h : ∀ t ∈ ts, t = []) (j : Nat) : ts.getD j [] = [] := by
  simp only [List.getD_eq_getElem?_getD]
  cases hj : ts[j]? with
  | none => rfl
  | some t => exact h t (List.mem_of_getElem? hj)

/-- every binding sees exactly its own rows, in their order -/
theorem scheduleFuel_proj (L : Nat) : ∀ (fuel : Nat) (ts : List (List Acc)), totalLen ts ≤ fuel →
    ∀ j, proj j (scheduleFuel L fuel ts) = ts.getD j []
  | 0, ts, hf, j => by
    simp only [scheduleFuel, proj_nil]
    exact (getD_of_all_nil (totalLen_zero (by omega)) j).symm
  | fuel + 1, ts, hf, j => by
    simp only [scheduleFuel]
    cases hp : pickMin L 0 none ts with
    | none =>
      simp only [proj_nil]
      exact (getD_of_all_nil (pickMin_none L ts 0 hp) j).symm
    | some i =>
      rcases pickMin_some L ts 0 none i hp with ⟨k, hk⟩ | ⟨_, a, r, hi⟩
      · cases hk
      · simp only [Nat.sub_zero] at hi
        simp only [popAt_some i ts a r hi]
        have hlen := totalLen_set hi
        rw [proj_cons, scheduleFuel_proj L fuel (ts.set i r) (by omega) j]
        simp only [List.getD_eq_getElem?_getD, List.getElem?_set]
        by_cases hij : i = j
        · subst hij
          have hlt : i < ts.length := by
            cases h : ts[i]? with
            | none => rw [h] at hi; cases hi
            | some _ => exact (List.getElem?_eq_some_iff.1 h).1
          have hget : ts[i] = a :: r := (List.getElem?_eq_some_iff.1 hi).2
          simp [hi, hlt, hget]
        · simp [hij]

theorem schedule_proj (L : Nat) (ts : List (List Acc)) (j : Nat) :
    proj j (schedule L ts) = ts.getD j [] :=
  scheduleFuel_proj L (totalLen ts) ts (Nat.le_refl _) j

/-! ### the buffet state of a binding depends only on the binding's own rows -/

theorem getD_set_eq {α : Type} (l : List α) (i j : Nat) (v d : α) :
    (l.set i v).getD j d = if i = j ∧ i < l.length then v else l.getD j d := by
  simp only [List.getD_eq_getElem?_getD, List.getElem?_set]
  by_cases h : i = j
  · subst h
    by_cases h2 : i < l.length
    · simp [h2]
    · simp [h2]
  · simp [h]

theorem bg_proj (evictEnds : List Nat) (ls : Nat) (cap : Option Nat) (i : Nat) :
    ∀ (xs : List (Nat × Acc)) (g : BG), i < g.bs.length →
      (xs.foldl (bgStep evictEnds ls cap) g).bs.getD i {} =
        (proj i xs).foldl (bstep (evictEnds.getD i 0) ls) (g.bs.getD i {}) ∧
      (xs.foldl (bgStep evictEnds ls cap) g).bs.length = g.bs.length
  | [], g, _ => ⟨rfl, rfl⟩
  | x :: xs, g, hi => by
    simp only [List.foldl_cons, proj_cons]
    have hlen : (bgStep evictEnds ls cap g x).bs.length = g.bs.length := by simp [bgStep]
    obtain ⟨ih1, ih2⟩ := bg_proj evictEnds ls cap i xs (bgStep evictEnds ls cap g x) (by rw [hlen]; exact hi)
    refine ⟨?_, by rw [ih2, hlen]⟩
    rw [ih1]
    have hget : (bgStep evictEnds ls cap g x).bs.getD i {} =
        if x.1 = i then bstep (evictEnds.getD x.1 0) ls (g.bs.getD x.1 {}) x.2 else g.bs.getD i {} := by
      simp only [bgStep, getD_set_eq]
      by_cases h : x.1 = i
      · subst h; simp [hi]
      · simp [h]
    rw [hget]
    by_cases h : x.1 = i
    · subst h; simp
    · simp [h]

/-! ### next-use stamps survive the interleaving -/

theorem find_key_proj (i : Nat) (p : List Nat) : ∀ (xs : List (Nat × Acc)),
    (xs.find? (fun y => decide ((y.1, y.2.point) = (i, p)))).map (·.2.stamp)
      = ((proj i xs).find? (fun a => decide (a.point = p))).map (·.stamp)
  | [] => rfl
  | y :: r => by
    have ih := find_key_proj i p r
    rw [proj_cons, List.find?_cons]
    by_cases h1 : y.1 = i
    · by_cases h2 : y.2.point = p
      · have : ((y.1, y.2.point) = (i, p)) := by rw [h1, h2]
        simp [this, h1, h2]
      · have : ¬ ((y.1, y.2.point) = (i, p)) := by
          intro e; exact h2 (Prod.mk.inj e).2
        rw [decide_eq_false this]
        simp only [h1, if_true, List.find?_cons, h2, decide_false]
        exact ih
    · have : ¬ ((y.1, y.2.point) = (i, p)) := by
        intro e; exact h1 (Prod.mk.inj e).1
      rw [decide_eq_false this]
      simp only [h1, if_false]
      exact ih

theorem scheduleFuel_nextOk (L : Nat) : ∀ (fuel : Nat) (ts : List (List Acc)), totalLen ts ≤ fuel →
    (∀ t ∈ ts, nextOkB t = true) → schedNextOkB (scheduleFuel L fuel ts) = true
  | 0, _, _, _ => rfl
  | fuel + 1, ts, hf, hok => by
    simp only [scheduleFuel]
    cases hp : pickMin L 0 none ts with
    | none => rfl
    | some i =>
      rcases pickMin_some L ts 0 none i hp with ⟨k, hk⟩ | ⟨_, a, r, hi⟩
      · cases hk
      · simp only [Nat.sub_zero] at hi
        simp only [popAt_some i ts a r hi]
        have hlen := totalLen_set hi
        have hmem : (a :: r) ∈ ts := List.mem_of_getElem? hi
        have har := hok _ hmem
        simp only [nextOkB, Bool.and_eq_true, decide_eq_true_eq] at har
        have hok' : ∀ t ∈ ts.set i r, nextOkB t = true := by
          intro t ht
          rcases List.mem_or_eq_of_mem_set ht with h | h
          · exact hok t h
          · rw [h]; exact har.2
        simp only [schedNextOkB, Bool.and_eq_true, decide_eq_true_eq]
        refine ⟨?_, scheduleFuel_nextOk L fuel (ts.set i r) (by omega) hok'⟩
        rw [find_key_proj, scheduleFuel_proj L fuel (ts.set i r) (by omega) i]
        have hlt : i < ts.length := by
          cases h : ts[i]? with
          | none => rw [h] at hi; cases hi
          | some _ => exact (List.getElem?_eq_some_iff.1 h).1
        have : (ts.set i r).getD i [] = r := by
          simp [List.getD_eq_getElem?_getD, List.getElem?_set, hlt]
        rw [this]
        exact har.1

/-- the consumption sequence carries correct next-use stamps when every binding's trace does -/
theorem schedule_nextOk (L : Nat) (ts : List (List Acc)) (h : ∀ t ∈ ts, nextOkB t = true) :
    schedNextOkB (schedule L ts) = true :=
  scheduleFuel_nextOk L (totalLen ts) ts (Nat.le_refl _) h

end Traffic
end Ft
