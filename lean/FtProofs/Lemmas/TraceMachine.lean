/-
  Lemmas for C16, layer 1: the Metrics class as a state machine.  `Sim s t` relates two runs of the
  same calls with different `num_cached_uses`: everything except the split of a file trace into
  "already written" and "still buffered" coincides.
-/
import FtModel.Trace
set_option linter.unusedSimpArgs false
set_option linter.unusedVariables false
namespace Ft.C16

@[simp] theorem upd_same {α β : Type} [DecidableEq α] (f : α → β) (k : α) (v : β) : upd f k v k = v := by
  simp [upd]

theorem upd_other {α β : Type} [DecidableEq α] (f : α → β) (k k' : α) (v : β) (h : k' ≠ k) :
    upd f k v k' = f k' := by
  simp [upd, h]

/-- the parts of a slot that do not depend on when buffers were flushed -/
def SlotSim : Option Slot → Option Slot → Prop
  | none, none => True
  | some x, some y => x.mem = y.mem ∧ x.file.isSome = y.file.isSome
  | _, _ => False

theorem SlotSim.refl (a : Option Slot) : SlotSim a a := by
  cases a <;> simp [SlotSim]

theorem SlotSim.symm {a b : Option Slot} (h : SlotSim a b) : SlotSim b a := by
  cases a <;> cases b <;> simp_all [SlotSim]

structure Sim (s t : MState) : Prop where
  iteration : s.iteration = t.iteration
  point : s.point = t.point
  loopOrder : s.loopOrder = t.loopOrder
  allMatches : s.allMatches = t.allMatches
  rankMatches : s.rankMatches = t.rankMatches
  declared : s.declared = t.declared
  consumed : s.consumed = t.consumed
  fault : s.fault = t.fault
  restarted : s.restarted = t.restarted
  slots : ∀ k, SlotSim (s.slots k) (t.slots k)
  cont : s.restarted = false → ∀ k, content s k = content t k

theorem Sim.symm {s t : MState} (h : Sim s t) : Sim t s :=
  ⟨h.iteration.symm, h.point.symm, h.loopOrder.symm, h.allMatches.symm, h.rankMatches.symm,
   h.declared.symm, h.consumed.symm, h.fault.symm, h.restarted.symm, fun k => (h.slots k).symm,
   fun hr k => (h.cont (by rw [h.restarted]; exact hr) k).symm⟩

theorem Sim.levelOf_sim {s t : MState} (h : Sim s t) (r : String) : levelOf s r = levelOf t r := by
  have hl : lineOrder s = lineOrder t := by funext r; simp [lineOrder, h.loopOrder]
  simp [levelOf, hl, h.rankMatches]

theorem Sim.memAll_sim {s t : MState} (h : Sim s t) (k : Key) : memAll s k = memAll t k := by
  have := h.slots k
  unfold memAll
  rw [h.consumed]
  cases hs : s.slots k <;> cases ht : t.slots k <;> simp_all [SlotSim]

theorem Sim.setFault {s t : MState} (h : Sim s t) : Sim { s with fault := true } { t with fault := true } :=
  ⟨h.iteration, h.point, h.loopOrder, h.allMatches, h.rankMatches, h.declared, h.consumed, rfl,
   h.restarted, h.slots, h.cont⟩

/-- flushing one side changes nothing that `Sim` looks at -/
theorem Sim.writeLeft {s t : MState} (h : Sim s t) (k : Key) (sl : Slot) (buf : List Line)
    (hs : s.slots k = some sl) (hf : sl.file = some buf) : Sim (writeTrace s k) t := by
  unfold writeTrace
  simp only [hs, hf]
  refine ⟨h.iteration, h.point, h.loopOrder, h.allMatches, h.rankMatches, h.declared, h.consumed,
    h.fault, h.restarted, ?_, ?_⟩
  · intro k'
    by_cases hk : k' = k
    · subst hk
      have := h.slots k'
      simp only [upd_same]
      rw [hs] at this
      cases ht : t.slots k' <;> simp_all [SlotSim]
    · simp only [upd_other _ _ _ _ hk]; exact h.slots k'
  · intro hr k'
    have hc := h.cont hr k'
    by_cases hk : k' = k
    · subst hk
      rw [← hc]
      simp [content, hs, hf]
    · rw [← hc]
      simp [content, upd_other _ _ _ _ hk]

theorem Sim.writeRight {s t : MState} (h : Sim s t) (k : Key) (sl : Slot) (buf : List Line)
    (hs : t.slots k = some sl) (hf : sl.file = some buf) : Sim s (writeTrace t k) :=
  (h.symm.writeLeft k sl buf hs hf).symm

theorem Sim.setPoint {s t : MState} (h : Sim s t) (p : List Int) :
    Sim { s with point := p } { t with point := p } :=
  ⟨h.iteration, rfl, h.loopOrder, h.allMatches, h.rankMatches, h.declared, h.consumed, h.fault,
   h.restarted, h.slots, h.cont⟩

theorem Sim.setIteration {s t : MState} (h : Sim s t) (p : List Nat) :
    Sim { s with iteration := p } { t with iteration := p } :=
  ⟨rfl, h.point, h.loopOrder, h.allMatches, h.rankMatches, h.declared, h.consumed, h.fault,
   h.restarted, h.slots, h.cont⟩

/-- the same line appended to the buffers of the same slot on both sides -/
theorem Sim.appendRow {s t : MState} (h : Sim s t) (k : Key) (x y : Slot) (data : Line)
    (hs : s.slots k = some x) (ht : t.slots k = some y) :
    Sim { s with slots := upd s.slots k (some { x with file := x.file.map (· ++ [data]), mem := x.mem.map (· ++ [data]) }) }
        { t with slots := upd t.slots k (some { y with file := y.file.map (· ++ [data]), mem := y.mem.map (· ++ [data]) }) } := by
  have hk := h.slots k
  rw [hs, ht] at hk
  obtain ⟨hm, hf⟩ := hk
  refine ⟨h.iteration, h.point, h.loopOrder, h.allMatches, h.rankMatches, h.declared, h.consumed,
    h.fault, h.restarted, ?_, ?_⟩
  · intro k'
    by_cases hk : k' = k
    · subst hk
      simp only [upd_same, SlotSim, hm, true_and]
      cases hx : x.file <;> cases hy : y.file <;> simp_all
    · simp only [upd_other _ _ _ _ hk]; exact h.slots k'
  · intro hr k'
    have hc := h.cont hr k'
    by_cases hk : k' = k
    · subst hk
      simp only [content, hs, ht, Option.bind_some] at hc
      simp only [content, upd_same, Option.bind_some]
      cases hx : x.file <;> cases hy : y.file <;> simp_all
      rw [← List.append_assoc, hc, List.append_assoc]
    · simpa [content, upd_other _ _ _ _ hk] using hc

theorem Sim.addUse_sim {s t : MState} (h : Sim s t) (r : String) (c pos : Int) (ty : String) (ovr : Option (List Nat)) :
    Sim (addUse s r c pos ty ovr) (addUse t r c pos ty ovr) := by
  unfold addUse
  rw [← h.levelOf_sim r]
  cases hl : levelOf s r with
  | none => exact h.setFault
  | some i =>
    simp only
    have h1 : Sim (if r ∈ s.loopOrder then { s with point := s.point.set i c } else s)
                  (if r ∈ t.loopOrder then { t with point := t.point.set i c } else t) := by
      have e2 : t.point.set i c = s.point.set i c := by rw [h.point]
      by_cases hm : r ∈ s.loopOrder
      · have hm' : r ∈ t.loopOrder := h.loopOrder ▸ hm
        simp only [hm, hm', if_true]
        rw [e2]
        exact h.setPoint _
      · have hm' : ¬ r ∈ t.loopOrder := h.loopOrder ▸ hm
        simp only [hm, hm', if_false]
        exact h
    generalize (if r ∈ s.loopOrder then { s with point := s.point.set i c } else s) = s1 at h1 ⊢
    generalize (if r ∈ t.loopOrder then { t with point := t.point.set i c } else t) = t1 at h1 ⊢
    have hk := h1.slots (r, ty)
    cases hs : s1.slots (r, ty) with
    | none =>
      cases ht : t1.slots (r, ty) with
      | none => simpa using h1
      | some y => rw [hs, ht] at hk; simp [SlotSim] at hk
    | some x =>
      cases ht : t1.slots (r, ty) with
      | none => rw [hs, ht] at hk; simp [SlotSim] at hk
      | some y =>
        simp only
        have e3 : dataRow (ovr.getD t1.iteration) t1.point i c pos = dataRow (ovr.getD s1.iteration) s1.point i c pos := by
          rw [h1.iteration, h1.point]
        rw [e3]
        have h2 := h1.appendRow (r, ty) x y (dataRow (ovr.getD s1.iteration) s1.point i c pos) hs ht
        rw [hs, ht] at hk
        obtain ⟨hm, hf⟩ := hk
        cases hx : x.file with
        | none =>
          have hy : y.file = none := by rw [hx] at hf; simpa using hf.symm
          simpa [hx, hy] using h2
        | some bx =>
          have hy : ∃ b, y.file = some b := by
            rw [hx] at hf; cases hyy : y.file <;> simp_all
          obtain ⟨b, hy⟩ := hy
          simp only [hx, hy, Option.map_some] at h2 ⊢
          split
          · split
            · exact (Sim.writeLeft h2 (r, ty) _ _ (upd_same _ _ _) rfl).writeRight (r, ty) _ _ (upd_same _ _ _) rfl
            · exact Sim.writeLeft h2 (r, ty) _ _ (upd_same _ _ _) rfl
          · split
            · exact Sim.writeRight h2 (r, ty) _ _ (upd_same _ _ _) rfl
            · exact h2

theorem Sim.incIter_sim {s t : MState} (h : Sim s t) (r : String) : Sim (incIter s r) (incIter t r) := by
  unfold incIter
  rw [← h.levelOf_sim r]
  cases levelOf s r with
  | none => exact h.setFault
  | some i => simp only; rw [← h.iteration]; exact h.setIteration _

theorem Sim.endIter_sim {s t : MState} (h : Sim s t) (r : String) : Sim (endIter s r) (endIter t r) := by
  unfold endIter
  rw [← h.levelOf_sim r]
  cases levelOf s r with
  | none => exact h.setFault
  | some i => simp only; rw [← h.iteration]; exact h.setIteration _

theorem Sim.consumeTrace_sim {s t : MState} (h : Sim s t) (k : Key) : Sim (consumeTrace s k) (consumeTrace t k) := by
  unfold consumeTrace
  have hk := h.slots k
  cases hs : s.slots k with
  | none =>
    cases ht : t.slots k with
    | none => exact h.setFault
    | some y => rw [hs, ht] at hk; simp [SlotSim] at hk
  | some x =>
    cases ht : t.slots k with
    | none => rw [hs, ht] at hk; simp [SlotSim] at hk
    | some y =>
      rw [hs, ht] at hk
      obtain ⟨hm, hf⟩ := hk
      simp only [← hm]
      cases hx : x.mem with
      | none => exact h.setFault
      | some m =>
        simp only [← h.consumed]
        refine ⟨h.iteration, h.point, h.loopOrder, h.allMatches, h.rankMatches, h.declared, rfl,
          h.fault, h.restarted, ?_, ?_⟩
        · intro k'
          by_cases hk' : k' = k
          · subst hk'; simp [SlotSim, hf]
          · simp only [upd_other _ _ _ _ hk']; exact h.slots k'
        · intro hr k'
          have hc := h.cont hr k'
          by_cases hk' : k' = k
          · subst hk'; simpa [content, hs, ht] using hc
          · simpa [content, upd_other _ _ _ _ hk'] using hc

theorem SlotSim.isSome {a b : Option Slot} (h : SlotSim a b) : a.isSome = b.isSome := by
  cases a <;> cases b <;> simp_all [SlotSim]

theorem Sim.contentEmpty {s t : MState} (h : Sim s t) (k : Key) :
    (s.restarted || !(content s k).isEmpty) = (t.restarted || !(content t k).isEmpty) := by
  cases hr : s.restarted with
  | true => simp [← h.restarted, hr]
  | false => rw [← h.restarted, hr, h.cont hr k]

theorem content_nil {s : MState} {k : Key} (h : content s k = []) :
    (s.disk k).getD [] = [] ∧ (((s.slots k).bind (·.file)).getD []) = [] := by
  unfold content at h
  exact List.append_eq_nil_iff.1 h

theorem Sim.declTrace_sim {s t : MState} (h : Sim s t) (r ty : String) (c : Bool) :
    Sim (declTrace s r ty c) (declTrace t r ty c) := by
  unfold declTrace
  have hk := h.slots (r, ty)
  have hre : (s.restarted || !(content s (r, ty)).isEmpty || !(memAll s (r, ty)).isEmpty || (levelOf s r).isSome) =
      (t.restarted || !(content t (r, ty)).isEmpty || !(memAll t (r, ty)).isEmpty || (levelOf t r).isSome) := by
    rw [h.contentEmpty, h.memAll_sim, h.levelOf_sim]
  refine ⟨h.iteration, h.point, h.loopOrder, h.allMatches, h.rankMatches, ?_, h.consumed, h.fault, hre, ?_, ?_⟩
  · simp only [hk.isSome, h.declared]
  · intro k'
    by_cases hk' : k' = (r, ty)
    · subst hk'
      simp only [upd_same]
      cases hs : s.slots (r, ty) <;> cases ht : t.slots (r, ty) <;> rw [hs, ht] at hk <;>
        cases c <;> simp_all [SlotSim]
    · simp only [upd_other _ _ _ _ hk']; exact h.slots k'
  · intro hr k'
    simp only [Bool.or_eq_false_iff, Bool.not_eq_false', List.isEmpty_iff] at hr
    obtain ⟨⟨⟨hr0, hc0⟩, _⟩, _⟩ := hr
    have hc := h.cont hr0 k'
    by_cases hk' : k' = (r, ty)
    · subst hk'
      have hct : content t (r, ty) = [] := by rw [← hc]; exact hc0
      have e1 := content_nil hc0
      have e2 := content_nil hct
      cases c
      · simp [content, e1.1, e2.1]
      · cases hs : s.slots (r, ty) <;> cases ht : t.slots (r, ty) <;> rw [hs, ht] at hk <;>
          simp_all [SlotSim, content]
    · simpa [content, upd_other _ _ _ _ hk'] using hc

theorem Sim.startTrace_sim {s t : MState} (h : Sim s t) (k : Key) : Sim (startTrace s k) (startTrace t k) := by
  unfold startTrace
  rw [← h.levelOf_sim k.1]
  have hk := h.slots k
  cases hl : levelOf s k.1 with
  | none => exact h.setFault
  | some i =>
    simp only
    cases hs : s.slots k with
    | none =>
      cases ht : t.slots k with
      | none => exact h.setFault
      | some y => rw [hs, ht] at hk; simp [SlotSim] at hk
    | some x =>
      cases ht : t.slots k with
      | none => rw [hs, ht] at hk; simp [SlotSim] at hk
      | some y =>
        rw [hs, ht] at hk
        obtain ⟨hm, hf⟩ := hk
        simp only
        have e : headerOf (t.loopOrder.take (i + 1)) = headerOf (s.loopOrder.take (i + 1)) := by rw [h.loopOrder]
        rw [e]
        have hre : (s.restarted || !(content s k).isEmpty || !(memAll s k).isEmpty) =
            (t.restarted || !(content t k).isEmpty || !(memAll t k).isEmpty) := by
          rw [h.contentEmpty, h.memAll_sim]
        refine ⟨h.iteration, h.point, h.loopOrder, h.allMatches, h.rankMatches, h.declared, h.consumed,
          h.fault, hre, ?_, ?_⟩
        · intro k'
          by_cases hk' : k' = k
          · subst hk'
            simp only [upd_same, SlotSim, hm, true_and]
            cases hx : x.file <;> cases hy : y.file <;> simp_all
          · simp only [upd_other _ _ _ _ hk']; exact h.slots k'
        · intro hr k'
          simp only [Bool.or_eq_false_iff, Bool.not_eq_false', List.isEmpty_iff] at hr
          obtain ⟨⟨hr0, hc0⟩, _⟩ := hr
          have hc := h.cont hr0 k'
          by_cases hk' : k' = k
          · subst hk'
            have hct : content t k' = [] := by rw [← hc]; exact hc0
            have e1 := content_nil hc0
            have e2 := content_nil hct
            simp only [hs, ht, Option.bind_some] at e1 e2
            cases hx : x.file <;> cases hy : y.file <;> simp_all [content]
          · cases hx : x.file <;> cases hy : y.file <;>
              simp_all [content, upd_other _ _ _ _ hk']

theorem Sim.foldl_sim {α : Type} (f g : MState → α → MState)
    (hf : ∀ s t a, Sim s t → Sim (f s a) (g t a)) (l : List α) :
    ∀ s t, Sim s t → Sim (l.foldl f s) (l.foldl g t) := by
  induction l with
  | nil => intro s t h; exact h
  | cons a l ih => intro s t h; exact ih _ _ (hf s t a h)

theorem Sim.startRank_sim {s t : MState} (h : Sim s t) (r : String) : Sim (startRank s r) (startRank t r) := by
  unfold startRank
  rw [← h.declared]
  exact Sim.foldl_sim _ _ (fun s t a h => h.startTrace_sim a) _ s t h

theorem Sim.registerRank_sim {s t : MState} (h : Sim s t) (r : String) : Sim (registerRank s r) (registerRank t r) := by
  unfold registerRank
  by_cases hm : r ∈ s.loopOrder
  · have hm' : r ∈ t.loopOrder := h.loopOrder ▸ hm
    simp only [hm, hm', if_true]; exact h
  · have hm' : ¬ r ∈ t.loopOrder := h.loopOrder ▸ hm
    simp only [hm, hm', if_false]
    rw [← h.allMatches]
    apply Sim.foldl_sim
    · intro s' t' e h'
      split
      · apply Sim.startRank_sim
        exact ⟨h'.iteration, h'.point, h'.loopOrder, h'.allMatches, by simp [h'.rankMatches], h'.declared,
          h'.consumed, h'.fault, h'.restarted, h'.slots, h'.cont⟩
      · exact h'
    · apply Sim.startRank_sim
      exact ⟨by simp [h.iteration], by simp [h.point], by simp [h.loopOrder], rfl, h.rankMatches,
        h.declared, h.consumed, h.fault, h.restarted, h.slots, h.cont⟩

theorem Sim.matchApplySrc_sim {s t : MState} (h : Sim s t) (r src : String) :
    Sim (matchApplySrc r s src) (matchApplySrc r t src) := by
  unfold matchApplySrc
  have e1 : (src ∈ t.loopOrder) = (src ∈ s.loopOrder) := by rw [h.loopOrder]
  have e2 : (aget t.rankMatches src).isSome = (aget s.rankMatches src).isSome := by rw [h.rankMatches]
  by_cases hc : (decide (src ∈ s.loopOrder) || (aget s.rankMatches src).isSome) = true
  · have hc' : (decide (src ∈ t.loopOrder) || (aget t.rankMatches src).isSome) = true := by
      simpa [e1, e2] using hc
    simp only [hc, hc', if_true]; exact h
  · have hc' : ¬ (decide (src ∈ t.loopOrder) || (aget t.rankMatches src).isSome) = true := by
      simpa [e1, e2] using hc
    simp only [hc, hc', if_false]
    apply Sim.startRank_sim
    exact ⟨h.iteration, h.point, h.loopOrder, h.allMatches, by simp [h.rankMatches], h.declared,
      h.consumed, h.fault, h.restarted, h.slots, h.cont⟩

theorem Sim.matchApplyRank_sim {s t : MState} (h : Sim s t) (all : List String) (r : String) :
    Sim (matchApplyRank all s r) (matchApplyRank all t r) := by
  unfold matchApplyRank
  by_cases hm : r ∈ s.loopOrder
  · have hm' : r ∈ t.loopOrder := h.loopOrder ▸ hm
    simp only [hm, hm', if_true]
    exact Sim.foldl_sim _ _ (fun s t a h => h.matchApplySrc_sim r a) _ s t h
  · have hm' : ¬ r ∈ t.loopOrder := h.loopOrder ▸ hm
    simp only [hm, hm', if_false]; exact h

theorem Sim.matchRanks_sim {s t : MState} (h : Sim s t) (a b : String) : Sim (matchRanks s a b) (matchRanks t a b) := by
  unfold matchRanks
  have e : matchClosure t a b = matchClosure s a b := by simp [matchClosure, h.allMatches]
  simp only [e]
  apply Sim.foldl_sim _ _ (fun s t r h => h.matchApplyRank_sim _ r)
  exact ⟨h.iteration, h.point, h.loopOrder, by simp [h.allMatches], h.rankMatches, h.declared, h.consumed,
    h.fault, h.restarted, h.slots, h.cont⟩

theorem Sim.endCollect_sim {s t : MState} (h : Sim s t) : Sim (endCollect s) (endCollect t) := by
  unfold endCollect
  rw [← h.declared]
  apply Sim.foldl_sim _ _ _ _ s t h
  intro s' t' k h'
  have hk := h'.slots k
  cases hs : s'.slots k with
  | none =>
    cases ht : t'.slots k with
    | none => exact h'
    | some y => rw [hs, ht] at hk; simp [SlotSim] at hk
  | some x =>
    cases ht : t'.slots k with
    | none => rw [hs, ht] at hk; simp [SlotSim] at hk
    | some y =>
      rw [hs, ht] at hk
      obtain ⟨hmm, hf⟩ := hk
      simp only [← hmm]
      have h1 : Sim (if x.file.isSome then writeTrace s' k else s') (if y.file.isSome then writeTrace t' k else t') := by
        cases hx : x.file with
        | none =>
          have hy : y.file = none := by rw [hx] at hf; simpa using hf.symm
          simpa [hx, hy] using h'
        | some bx =>
          have hy : ∃ b, y.file = some b := by
            rw [hx] at hf; cases hyy : y.file <;> simp_all
          obtain ⟨b, hy⟩ := hy
          simp only [hx, hy, Option.isSome_some, if_true]
          exact (h'.writeLeft k x bx hs hx).writeRight k y b ht hy
      cases hmx : x.mem with
      | none => simpa using h1
      | some m =>
        cases m with
        | nil => simpa using h1
        | cons a m => simpa using h1.setFault

theorem Sim.step_sim {s t : MState} (h : Sim s t) (e : Ev) : Sim (step s e) (step t e) := by
  cases e with
  | trace r ty c => exact h.declTrace_sim r ty c
  | matchR a b => exact h.matchRanks_sim a b
  | reg r => exact h.registerRank_sim r
  | use r c pos ty ovr => exact h.addUse_sim r c pos ty ovr
  | inc r => exact h.incIter_sim r
  | endI r => exact h.endIter_sim r
  | consume r ty => exact h.consumeTrace_sim (r, ty)
  | endCollect => exact h.endCollect_sim

theorem Sim.run_sim {s t : MState} (h : Sim s t) (evs : List Ev) : Sim (run s evs) (run t evs) := by
  unfold run
  exact Sim.foldl_sim _ _ (fun s t e h => h.step_sim e) evs s t h

theorem Sim.init (n m : Nat) : Sim (init n) (init m) := by
  refine ⟨rfl, rfl, rfl, rfl, rfl, rfl, rfl, rfl, rfl, ?_, ?_⟩
  · intro k; simp [C16.init, SlotSim]
  · intro _ k; simp [C16.init, content]

/-! ### what each call does to the lines of a trace -/

def fileOn (s : MState) (k : Key) : Bool := ((s.slots k).bind (·.file)).isSome
def memOn (s : MState) (k : Key) : Bool := ((s.slots k).bind (·.mem)).isSome

/-- the row `addUse` builds (if the rank is known) -/
def useLine (s : MState) (r : String) (c pos : Int) (ovr : Option (List Nat)) : Option Line :=
  (levelOf s r).map (fun i =>
    dataRow (ovr.getD s.iteration) (if r ∈ s.loopOrder then s.point.set i c else s.point) i c pos)

theorem writeTrace_content (s : MState) (k : Key) (sl : Slot) (buf : List Line)
    (hs : s.slots k = some sl) (hf : sl.file = some buf) (k' : Key) :
    content (writeTrace s k) k' = content s k' ∧ memAll (writeTrace s k) k' = memAll s k' ∧
      fileOn (writeTrace s k) k' = fileOn s k' ∧ memOn (writeTrace s k) k' = memOn s k' := by
  unfold writeTrace
  simp only [hs, hf]
  by_cases hk : k' = k
  · subst hk; simp [content, memAll, fileOn, memOn, hs, hf]
  · simp [content, memAll, fileOn, memOn, upd_other _ _ _ _ hk]

theorem writeTrace_core (s : MState) (k : Key) :
    (writeTrace s k).iteration = s.iteration ∧ (writeTrace s k).point = s.point ∧
    (writeTrace s k).loopOrder = s.loopOrder ∧ (writeTrace s k).rankMatches = s.rankMatches ∧
    (writeTrace s k).restarted = s.restarted ∧ (writeTrace s k).declared = s.declared ∧
    (writeTrace s k).allMatches = s.allMatches := by
  unfold writeTrace
  split
  · split <;> simp
  · simp

/-- the state after `file_trace.append(data)` / `mem_trace.append(data)` -/
def appendLine (s : MState) (k : Key) (x : Slot) (data : Line) : MState :=
  { s with slots := upd s.slots k (some { x with file := x.file.map (· ++ [data]), mem := x.mem.map (· ++ [data]) }) }

theorem appendLine_lines (s : MState) (k : Key) (x : Slot) (data : Line) (hs : s.slots k = some x) (k' : Key) :
    content (appendLine s k x data) k' = content s k' ++ (if k' = k ∧ fileOn s k' then [data] else []) ∧
    memAll (appendLine s k x data) k' = memAll s k' ++ (if k' = k ∧ memOn s k' then [data] else []) ∧
    fileOn (appendLine s k x data) k' = fileOn s k' ∧ memOn (appendLine s k x data) k' = memOn s k' := by
  unfold appendLine
  by_cases hk : k' = k
  · subst hk
    cases hx : x.file <;> cases hy : x.mem <;>
      simp [content, memAll, fileOn, memOn, hs, hx, hy, List.append_assoc]
  · simp [content, memAll, fileOn, memOn, upd_other _ _ _ _ hk, hk]

/-- `addUse` appends exactly its row to the traces of its key (file and/or memory) and nothing
    anywhere else -/
theorem addUse_lines (s : MState) (r : String) (c pos : Int) (ty : String) (ovr : Option (List Nat)) (k' : Key) :
    content (addUse s r c pos ty ovr) k' =
      content s k' ++ (if k' = (r, ty) ∧ fileOn s k' then (useLine s r c pos ovr).toList else []) ∧
    memAll (addUse s r c pos ty ovr) k' =
      memAll s k' ++ (if k' = (r, ty) ∧ memOn s k' then (useLine s r c pos ovr).toList else []) ∧
    fileOn (addUse s r c pos ty ovr) k' = fileOn s k' ∧ memOn (addUse s r c pos ty ovr) k' = memOn s k' := by
  unfold addUse useLine
  cases hl : levelOf s r with
  | none =>
    refine ⟨?_, ?_, ?_, ?_⟩ <;> simp [content, memAll, fileOn, memOn] <;> exact ite_self _
  | some i =>
    simp only [Option.map_some, Option.toList_some]
    generalize hs1 : (if r ∈ s.loopOrder then { s with point := s.point.set i c } else s) = s1
    have e1 : s1.slots = s.slots ∧ s1.disk = s.disk ∧ s1.consumed = s.consumed ∧ s1.iteration = s.iteration ∧
        s1.point = (if r ∈ s.loopOrder then s.point.set i c else s.point) := by
      subst hs1; split <;> simp
    obtain ⟨es, ed, ec, ei, ep⟩ := e1
    have hc : content s1 k' = content s k' := by simp [content, es, ed]
    have hm : memAll s1 k' = memAll s k' := by simp [memAll, es, ec]
    have hfo : fileOn s1 k' = fileOn s k' := by simp [fileOn, es]
    have hmo : memOn s1 k' = memOn s k' := by simp [memOn, es]
    rw [← hc, ← hm, ← hfo, ← hmo, ← ei, ← ep]
    cases hsl : s1.slots (r, ty) with
    | none =>
      simp only
      by_cases hk : k' = (r, ty)
      · subst hk; simp [fileOn, memOn, hsl]
      · simp [hk]
    | some x =>
      simp only
      generalize hd : dataRow (ovr.getD s1.iteration) s1.point i c pos = data
      have key := appendLine_lines s1 (r, ty) x data hsl k'
      unfold appendLine at key
      cases hx : x.file with
      | none => simpa [hx] using key
      | some bx =>
        simp only [Option.map_some]
        simp only [hx, Option.map_some] at key
        split
        · have hw := writeTrace_content
            { s1 with slots := upd s1.slots (r, ty) (some { x with file := some (bx ++ [data]), mem := x.mem.map (· ++ [data]) }) }
            (r, ty) { x with file := some (bx ++ [data]), mem := x.mem.map (· ++ [data]) }
            (bx ++ [data]) (by simp) rfl k'
          rw [hw.1, hw.2.1, hw.2.2.1, hw.2.2.2]
          exact key
        · exact key

theorem addUse_core (s : MState) (r : String) (c pos : Int) (ty : String) (ovr : Option (List Nat)) :
    (addUse s r c pos ty ovr).restarted = s.restarted ∧ (addUse s r c pos ty ovr).declared = s.declared := by
  unfold addUse
  cases hl : levelOf s r with
  | none => simp
  | some i =>
    simp only
    generalize hs1 : (if r ∈ s.loopOrder then { s with point := s.point.set i c } else s) = s1
    have e1 : s1.restarted = s.restarted ∧ s1.declared = s.declared := by subst hs1; split <;> simp
    cases hsl : s1.slots (r, ty) with
    | none => simpa using e1
    | some x =>
      simp only
      cases hx : x.file with
      | none => simpa [hx] using e1
      | some bx =>
        simp only [Option.map_some]
        split
        · simp [(writeTrace_core _ _).2.2.2.2.1, (writeTrace_core _ _).2.2.2.2.2.1, e1]
        · simpa using e1

/-- a trace kept both in a file and in memory holds the same lines in both -/
def MF (s : MState) : Prop :=
  s.restarted = false → ∀ k, fileOn s k = true → memOn s k = true → content s k = memAll s k

theorem MF.addUse_mf {s : MState} (h : MF s) (r : String) (c pos : Int) (ty : String) (ovr : Option (List Nat)) :
    MF (addUse s r c pos ty ovr) := by
  intro hr k hf hm
  obtain ⟨e1, e2, e3, e4⟩ := addUse_lines s r c pos ty ovr k
  rw [(addUse_core s r c pos ty ovr).1] at hr
  rw [e3] at hf; rw [e4] at hm
  rw [e1, e2, h hr k hf hm, hf, hm]

theorem MF.of_same {s s' : MState} (h : MF s) (h1 : s'.slots = s.slots) (h2 : s'.disk = s.disk)
    (h3 : s'.consumed = s.consumed) (h4 : s'.restarted = s.restarted) : MF s' := by
  intro hr k hf hm
  have := h (h4 ▸ hr) k (by simpa [fileOn, h1] using hf) (by simpa [memOn, h1] using hm)
  simpa [content, memAll, h1, h2, h3] using this

theorem MF.incIter_mf {s : MState} (h : MF s) (r : String) : MF (incIter s r) := by
  unfold incIter; split <;> exact h.of_same rfl rfl rfl rfl

theorem MF.endIter_mf {s : MState} (h : MF s) (r : String) : MF (endIter s r) := by
  unfold endIter; split <;> exact h.of_same rfl rfl rfl rfl

theorem MF.consumeTrace_mf {s : MState} (h : MF s) (k : Key) : MF (consumeTrace s k) := by
  unfold consumeTrace
  cases hs : s.slots k with
  | none => exact h.of_same rfl rfl rfl rfl
  | some x =>
    cases hx : x.mem with
    | none => simp only [hx]; exact h.of_same rfl rfl rfl rfl
    | some m =>
      simp only [hx]
      intro hr k' hf hm
      by_cases hk : k' = k
      · subst hk
        have := h hr k' (by simpa [fileOn, hs] using hf) (by simp [memOn, hs, hx])
        simpa [content, memAll, hs, hx] using this
      · have := h hr k' (by simpa [fileOn, upd_other _ _ _ _ hk] using hf)
          (by simpa [memOn, upd_other _ _ _ _ hk] using hm)
        simpa [content, memAll, upd_other _ _ _ _ hk] using this

theorem MF.writeTrace_mf {s : MState} (h : MF s) (k : Key) (sl : Slot) (buf : List Line)
    (hs : s.slots k = some sl) (hf : sl.file = some buf) : MF (writeTrace s k) := by
  intro hr k' hf' hm'
  obtain ⟨e1, e2, e3, e4⟩ := writeTrace_content s k sl buf hs hf k'
  rw [(writeTrace_core s k).2.2.2.2.1] at hr
  rw [e1, e2]; rw [e3] at hf'; rw [e4] at hm'
  exact h hr k' hf' hm'

theorem MF.setFault {s : MState} (h : MF s) : MF { s with fault := true } := h.of_same rfl rfl rfl rfl

theorem MF.foldl_mf {α : Type} (f : MState → α → MState) (hf : ∀ s a, MF s → MF (f s a)) (l : List α) :
    ∀ s, MF s → MF (l.foldl f s) := by
  induction l with
  | nil => intro s h; exact h
  | cons a l ih => intro s h; exact ih _ (hf s a h)

theorem MF.endCollect_mf {s : MState} (h : MF s) : MF (endCollect s) := by
  unfold endCollect
  apply MF.foldl_mf _ _ _ s h
  intro s' k h'
  cases hs : s'.slots k with
  | none => exact h'
  | some x =>
    simp only
    have h1 : MF (if x.file.isSome then writeTrace s' k else s') := by
      cases hx : x.file with
      | none => simpa using h'
      | some b => simpa using h'.writeTrace_mf k x b hs hx
    cases hmx : x.mem with
    | none => simpa using h1
    | some m =>
      cases m with
      | nil => simpa using h1
      | cons a m => simpa using h1.setFault

theorem MF.declTrace_mf {s : MState} (h : MF s) (r ty : String) (c : Bool) : MF (declTrace s r ty c) := by
  unfold declTrace
  intro hr k' hf hm
  simp only [Bool.or_eq_false_iff, Bool.not_eq_false', List.isEmpty_iff] at hr
  obtain ⟨⟨⟨hr0, hc0⟩, hm0⟩, _⟩ := hr
  by_cases hk : k' = (r, ty)
  · subst hk
    have e1 := content_nil hc0
    unfold memAll at hm0
    have e2 := List.append_eq_nil_iff.1 hm0
    cases c
    · cases hs : s.slots (r, ty) <;> simp_all [content, memAll]
    · cases hs : s.slots (r, ty) <;> simp_all [content, memAll]
  · have := h hr0 k' (by simpa [fileOn, upd_other _ _ _ _ hk] using hf)
      (by simpa [memOn, upd_other _ _ _ _ hk] using hm)
    simpa [content, memAll, upd_other _ _ _ _ hk] using this

theorem MF.startTrace_mf {s : MState} (h : MF s) (k : Key) : MF (startTrace s k) := by
  unfold startTrace
  cases hl : levelOf s k.1 with
  | none => exact h.setFault
  | some i =>
    simp only
    cases hs : s.slots k with
    | none => exact h.setFault
    | some x =>
      simp only
      intro hr k' hf hm
      simp only [Bool.or_eq_false_iff, Bool.not_eq_false', List.isEmpty_iff] at hr
      obtain ⟨⟨hr0, hc0⟩, hm0⟩ := hr
      by_cases hk : k' = k
      · subst hk
        have e1 := content_nil hc0
        unfold memAll at hm0
        have e2 := List.append_eq_nil_iff.1 hm0
        simp only [hs, Option.bind_some] at e1 e2
        cases hx : x.file <;> cases hy : x.mem <;> simp_all [content, memAll, fileOn, memOn]
      · have := h hr0 k' (by simpa [fileOn, upd_other _ _ _ _ hk] using hf)
          (by simpa [memOn, upd_other _ _ _ _ hk] using hm)
        cases hx : x.file <;> simp_all [content, memAll, upd_other _ _ _ _ hk]

theorem MF.startRank_mf {s : MState} (h : MF s) (r : String) : MF (startRank s r) := by
  unfold startRank
  exact MF.foldl_mf _ (fun s a h => h.startTrace_mf a) _ s h

theorem MF.registerRank_mf {s : MState} (h : MF s) (r : String) : MF (registerRank s r) := by
  unfold registerRank
  split
  · exact h
  · apply MF.foldl_mf
    · intro s' e h'
      split
      · refine MF.startRank_mf ?_ _
        exact h'.of_same rfl rfl rfl rfl
      · exact h'
    · refine MF.startRank_mf ?_ _
      exact h.of_same rfl rfl rfl rfl

theorem MF.matchRanks_mf {s : MState} (h : MF s) (a b : String) : MF (matchRanks s a b) := by
  unfold matchRanks
  apply MF.foldl_mf
  · intro s' r h'
    unfold matchApplyRank
    split
    · apply MF.foldl_mf _ _ _ _ h'
      intro s'' src h''
      unfold matchApplySrc
      split
      · exact h''
      · refine MF.startRank_mf ?_ _
        exact h''.of_same rfl rfl rfl rfl
    · exact h'
  · exact h.of_same rfl rfl rfl rfl

theorem MF.step_mf {s : MState} (h : MF s) (e : Ev) : MF (step s e) := by
  cases e with
  | trace r ty c => exact h.declTrace_mf r ty c
  | matchR a b => exact h.matchRanks_mf a b
  | reg r => exact h.registerRank_mf r
  | use r c pos ty ovr => exact h.addUse_mf r c pos ty ovr
  | inc r => exact h.incIter_mf r
  | endI r => exact h.endIter_mf r
  | consume r ty => exact h.consumeTrace_mf (r, ty)
  | endCollect => exact h.endCollect_mf

theorem MF.run_mf {s : MState} (h : MF s) (evs : List Ev) : MF (run s evs) := by
  unfold run
  exact MF.foldl_mf _ (fun s e h => h.step_mf e) evs s h

theorem MF.init (n : Nat) : MF (init n) := by
  intro _ k hf; simp [fileOn, C16.init] at hf

/-! ### `endCollect` leaves the whole trace in the file -/

/-- one round of the loop in `endCollect` -/
def ecStep (s : MState) (k : Key) : MState :=
  match s.slots k with
  | some sl =>
    let s1 := if sl.file.isSome then writeTrace s k else s
    match sl.mem with
    | some (_ :: _) => { s1 with fault := true }
    | _ => s1
  | none => s

theorem endCollect_eq (s : MState) : endCollect s = s.declared.foldl ecStep s := rfl

def Flushed (s : MState) (k : Key) : Prop := s.disk k = some (content s k)

theorem ecStep_spec (s : MState) (k k' : Key) (hf : fileOn s k = true) :
    content (ecStep s k') k = content s k ∧ fileOn (ecStep s k') k = true ∧
    ((k' = k ∨ Flushed s k) → Flushed (ecStep s k') k) := by
  unfold ecStep
  cases hs : s.slots k' with
  | none =>
    refine ⟨rfl, hf, ?_⟩
    rintro (h | h)
    · subst h; simp [fileOn, hs] at hf
    · exact h
  | some x =>
    simp only
    have h1 : content (if x.file.isSome then writeTrace s k' else s) k = content s k ∧
        fileOn (if x.file.isSome then writeTrace s k' else s) k = true ∧
        ((k' = k ∨ Flushed s k) → Flushed (if x.file.isSome then writeTrace s k' else s) k) := by
      cases hx : x.file with
      | none =>
        simp only [Option.isSome_none, Bool.false_eq_true, if_false, true_and]
        refine ⟨hf, ?_⟩
        rintro (h | h)
        · subst h; simp [fileOn, hs, hx] at hf
        · exact h
      | some b =>
        simp only [Option.isSome_some, if_true]
        obtain ⟨e1, _, e3, _⟩ := writeTrace_content s k' x b hs hx k
        refine ⟨e1, by rw [e3]; exact hf, ?_⟩
        intro h
        unfold Flushed
        rw [e1]
        unfold writeTrace
        simp only [hs, hx]
        by_cases hk : k = k'
        · subst hk; simp [content, hs, hx]
        · rcases h with h | h
          · exact absurd h.symm hk
          · unfold Flushed at h
            simpa [upd_other _ _ _ _ hk] using h
    have h2 : ∀ s1 : MState, content ({ s1 with fault := true }) k = content s1 k ∧
        fileOn ({ s1 with fault := true }) k = fileOn s1 k ∧ (Flushed s1 k → Flushed ({ s1 with fault := true }) k) := by
      intro s1; exact ⟨rfl, rfl, fun h => h⟩
    cases hm : x.mem with
    | none => simpa using h1
    | some m =>
      cases m with
      | nil => simpa using h1
      | cons a m =>
        simp only
        obtain ⟨a1, a2, a3⟩ := h1
        obtain ⟨b1, b2, b3⟩ := h2 (if x.file.isSome then writeTrace s k' else s)
        exact ⟨b1.trans a1, b2.trans a2, fun h => b3 (a3 h)⟩

theorem ecFold_spec (k : Key) (l : List Key) : ∀ s : MState, fileOn s k = true →
    content (l.foldl ecStep s) k = content s k ∧ fileOn (l.foldl ecStep s) k = true ∧
    ((k ∈ l ∨ Flushed s k) → Flushed (l.foldl ecStep s) k) := by
  induction l with
  | nil =>
    intro s hf
    refine ⟨rfl, hf, ?_⟩
    rintro (h | h)
    · simp at h
    · exact h
  | cons a l ih =>
    intro s hf
    obtain ⟨a1, a2, a3⟩ := ecStep_spec s k a hf
    obtain ⟨b1, b2, b3⟩ := ih (ecStep s a) a2
    refine ⟨b1.trans a1, b2, ?_⟩
    intro h
    apply b3
    rcases h with h | h
    · rcases List.mem_cons.1 h with h | h
      · exact Or.inr (a3 (Or.inl h.symm))
      · exact Or.inl h
    · exact Or.inr (a3 (Or.inr h))

/-- after `endCollect` the file of a declared file trace holds everything that was written or buffered -/
theorem endCollect_disk (s : MState) (k : Key) (hd : k ∈ s.declared) (hf : fileOn s k = true) :
    (endCollect s).disk k = some (content s k) := by
  rw [endCollect_eq]
  obtain ⟨a1, _, a3⟩ := ecFold_spec k s.declared s hf
  have := a3 (Or.inl hd)
  unfold Flushed at this
  rw [this, a1]

/-! ### the header, and the calls that add no line -/

/-- `_startTrace` on a trace without lines puts exactly the header of the loop order down to the
    trace's level into the file buffer / the memory trace -/
theorem startTrace_header (s : MState) (k : Key) (x : Slot) (i : Nat)
    (hs : s.slots k = some x) (hl : levelOf s k.1 = some i)
    (hc : content s k = []) (hm : memAll s k = []) :
    content (startTrace s k) k = (if x.file.isSome then [headerOf (s.loopOrder.take (i + 1))] else []) ∧
    memAll (startTrace s k) k = (if x.mem.isSome then [headerOf (s.loopOrder.take (i + 1))] else []) := by
  have e1 := content_nil hc
  unfold memAll at hm
  have e2 := List.append_eq_nil_iff.1 hm
  simp only [hs, Option.bind_some] at e1 e2
  unfold startTrace
  simp only [hl, hs]
  cases hx : x.file <;> cases hy : x.mem <;> simp_all [content, memAll]

theorem ecStep_content (s : MState) (k k' : Key) :
    content (ecStep s k') k = content s k ∧ memAll (ecStep s k') k = memAll s k := by
  unfold ecStep
  cases hs : s.slots k' with
  | none => exact ⟨rfl, rfl⟩
  | some x =>
    simp only
    have h1 : content (if x.file.isSome then writeTrace s k' else s) k = content s k ∧
        memAll (if x.file.isSome then writeTrace s k' else s) k = memAll s k := by
      cases hx : x.file with
      | none => exact ⟨rfl, rfl⟩
      | some b =>
        obtain ⟨a1, a2, _, _⟩ := writeTrace_content s k' x b hs hx k
        exact ⟨a1, a2⟩
    cases hm : x.mem with
    | none => simpa using h1
    | some m =>
      cases m with
      | nil => simpa using h1
      | cons a m => exact h1

theorem endCollect_content (s : MState) (k : Key) :
    content (endCollect s) k = content s k ∧ memAll (endCollect s) k = memAll s k := by
  rw [endCollect_eq]
  generalize s.declared = l
  induction l generalizing s with
  | nil => exact ⟨rfl, rfl⟩
  | cons a l ih =>
    obtain ⟨a1, a2⟩ := ecStep_content s k a
    obtain ⟨b1, b2⟩ := ih (ecStep s a)
    exact ⟨b1.trans a1, b2.trans a2⟩

/-- `incIter`, `endIter`, `consumeTrace`, `endCollect` add no line to any trace
    (consumeTrace only moves memory lines to its caller) -/
theorem step_keeps_lines (s : MState) (e : Ev) (k : Key)
    (he : match e with | .inc _ => True | .endI _ => True | .consume _ _ => True
                       | .endCollect => True | _ => False) :
    content (step s e) k = content s k ∧ memAll (step s e) k = memAll s k := by
  cases e with
  | trace r ty c => exact he.elim
  | reg r => exact he.elim
  | use r c pos ty ovr => exact he.elim
  | inc r => simp only [step, incIter]; split <;> exact ⟨rfl, rfl⟩
  | endI r => simp only [step, endIter]; split <;> exact ⟨rfl, rfl⟩
  | matchR a b => exact he.elim
  | endCollect => exact endCollect_content s k
  | consume r ty =>
    simp only [step, consumeTrace]
    cases hs : s.slots (r, ty) with
    | none => exact ⟨rfl, rfl⟩
    | some x =>
      cases hx : x.mem with
      | none => simp only [hx]; exact ⟨rfl, rfl⟩
      | some m =>
        simp only [hx]
        by_cases hk : k = (r, ty)
        · subst hk; simp [content, memAll, hs, hx]
        · simp [content, memAll, upd_other _ _ _ _ hk]

end Ft.C16
