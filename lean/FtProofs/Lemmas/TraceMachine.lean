/-
  Lemmas for C16, layer 1: the Metrics class as a state machine.  `Sim s t` relates two runs of the
  same calls with different `num_cached_uses`: everything except the split of a file trace into
  "already written" and "still buffered" coincides.
-/
import FtModel.Trace
set_option linter.unusedSimpArgs false
set_option linter.unusedVariables false
namespace Ft.C16

@[simp] theorem upd_same {α β : Type} [DecidableEq α] (f : α → β) (k : α) (v : β) : upd f k v k = v := by
  simp [upd]

theorem upd_other {α β : Type} [DecidableEq α] (f : α → β) (k k' : α) (v : β) (h : k' ≠ k) :
    upd f k v k' = f k' := by
  simp [upd, h]

/-- the parts of a slot that do not depend on when buffers were flushed -/
def SlotSim : Option Slot → Option Slot → Prop
  | none, none => True
  | some x, some y => x.mem = y.mem ∧ x.file.isSome = y.file.isSome
  | _, _ => False

theorem SlotSim.refl (a : Option Slot) : SlotSim a a := by
  cases a <;> simp [SlotSim]

theorem SlotSim.symm {a b : Option Slot} (h : SlotSim a b) : SlotSim b a := by
  cases a <;> cases b <;> simp_all [SlotSim]

structure Sim (s t : MState) : Prop where
  iteration : s.iteration = t.iteration
  point : s.point = t.point
  loopOrder : s.loopOrder = t.loopOrder
  allMatches : s.allMatches = t.allMatches
  rankMatches : s.rankMatches = t.rankMatches
  declared : s.declared = t.declared
  consumed : s.consumed = t.consumed
  fault : s.fault = t.fault
  restarted : s.restarted = t.restarted
  slots : ∀ k, SlotSim (s.slots k) (t.slots k)
  content : s.restarted = false → ∀ k, content s k = content t k

theorem Sim.symm {s t : MState} (h : Sim s t) : Sim t s :=
  ⟨h.iteration.symm, h.point.symm, h.loopOrder.symm, h.allMatches.symm, h.rankMatches.symm,
   h.declared.symm, h.consumed.symm, h.fault.symm, h.restarted.symm, fun k => (h.slots k).symm,
   fun hr k => (h.content (by rw [h.restarted]; exact hr) k).symm⟩

theorem Sim.levelOf {s t : MState} (h : Sim s t) (r : String) : levelOf s r = levelOf t r := by
  have hl : lineOrder s = lineOrder t := by funext r; simp [lineOrder, h.loopOrder]
  simp [C16.levelOf, hl, h.rankMatches]

theorem Sim.memAll {s t : MState} (h : Sim s t) (k : Key) : memAll s k = memAll t k := by
  have := h.slots k
  unfold C16.memAll
  rw [h.consumed]
  cases hs : s.slots k <;> cases ht : t.slots k <;> simp_all [SlotSim]

theorem Sim.setFault {s t : MState} (h : Sim s t) : Sim { s with fault := true } { t with fault := true } :=
  ⟨h.iteration, h.point, h.loopOrder, h.allMatches, h.rankMatches, h.declared, h.consumed, rfl,
   h.restarted, h.slots, h.content⟩

/-- flushing one side changes nothing that `Sim` looks at -/
theorem Sim.writeLeft {s t : MState} (h : Sim s t) (k : Key) (sl : Slot) (buf : List Line)
    (hs : s.slots k = some sl) (hf : sl.file = some buf) : Sim (writeTrace s k) t := by
  unfold writeTrace
  simp only [hs, hf]
  refine ⟨h.iteration, h.point, h.loopOrder, h.allMatches, h.rankMatches, h.declared, h.consumed,
    h.fault, h.restarted, ?_, ?_⟩
  · intro k'
    by_cases hk : k' = k
    · subst hk
      have := h.slots k'
      simp only [upd_same]
      rw [hs] at this
      cases ht : t.slots k' <;> simp_all [SlotSim]
    · simp only [upd_other _ _ _ _ hk]; exact h.slots k'
  · intro hr k'
    have hc := h.content hr k'
    by_cases hk : k' = k
    · subst hk
      rw [← hc]
      simp [C16.content, hs, hf]
    · rw [← hc]
      simp [C16.content, upd_other _ _ _ _ hk]

theorem Sim.writeRight {s t : MState} (h : Sim s t) (k : Key) (sl : Slot) (buf : List Line)
    (hs : t.slots k = some sl) (hf : sl.file = some buf) : Sim s (writeTrace t k) :=
  (h.symm.writeLeft k sl buf hs hf).symm

theorem Sim.setPoint {s t : MState} (h : Sim s t) (p : List Int) :
    Sim { s with point := p } { t with point := p } :=
  ⟨h.iteration, rfl, h.loopOrder, h.allMatches, h.rankMatches, h.declared, h.consumed, h.fault,
   h.restarted, h.slots, h.content⟩

theorem Sim.setIteration {s t : MState} (h : Sim s t) (p : List Nat) :
    Sim { s with iteration := p } { t with iteration := p } :=
  ⟨rfl, h.point, h.loopOrder, h.allMatches, h.rankMatches, h.declared, h.consumed, h.fault,
   h.restarted, h.slots, h.content⟩

/-- the same line appended to the buffers of the same slot on both sides -/
theorem Sim.appendRow {s t : MState} (h : Sim s t) (k : Key) (x y : Slot) (data : Line)
    (hs : s.slots k = some x) (ht : t.slots k = some y) :
    Sim { s with slots := upd s.slots k (some { x with file := x.file.map (· ++ [data]), mem := x.mem.map (· ++ [data]) }) }
        { t with slots := upd t.slots k (some { y with file := y.file.map (· ++ [data]), mem := y.mem.map (· ++ [data]) }) } := by
  have hk := h.slots k
  rw [hs, ht] at hk
  obtain ⟨hm, hf⟩ := hk
  refine ⟨h.iteration, h.point, h.loopOrder, h.allMatches, h.rankMatches, h.declared, h.consumed,
    h.fault, h.restarted, ?_, ?_⟩
  · intro k'
    by_cases hk : k' = k
    · subst hk
      simp only [upd_same, SlotSim, hm, true_and]
      cases hx : x.file <;> cases hy : y.file <;> simp_all
    · simp only [upd_other _ _ _ _ hk]; exact h.slots k'
  · intro hr k'
    have hc := h.content hr k'
    by_cases hk : k' = k
    · subst hk
      simp only [C16.content, hs, ht, Option.bind_some] at hc
      simp only [C16.content, upd_same, Option.bind_some]
      cases hx : x.file <;> cases hy : y.file <;> simp_all
      rw [← List.append_assoc, hc, List.append_assoc]
    · simpa [C16.content, upd_other _ _ _ _ hk] using hc

theorem Sim.addUse {s t : MState} (h : Sim s t) (r : String) (c pos : Int) (ty : String) (ovr : Option (List Nat)) :
    Sim (addUse s r c pos ty ovr) (addUse t r c pos ty ovr) := by
  unfold C16.addUse
  rw [← h.levelOf r]
  cases hl : C16.levelOf s r with
  | none => exact h.setFault
  | some i =>
    simp only
    have h1 : Sim (if r ∈ s.loopOrder then { s with point := s.point.set i c } else s)
                  (if r ∈ t.loopOrder then { t with point := t.point.set i c } else t) := by
      have e2 : t.point.set i c = s.point.set i c := by rw [h.point]
      by_cases hm : r ∈ s.loopOrder
      · have hm' : r ∈ t.loopOrder := h.loopOrder ▸ hm
        simp only [hm, hm', if_true]
        rw [e2]
        exact h.setPoint _
      · have hm' : ¬ r ∈ t.loopOrder := h.loopOrder ▸ hm
        simp only [hm, hm', if_false]
        exact h
    generalize (if r ∈ s.loopOrder then { s with point := s.point.set i c } else s) = s1 at h1 ⊢
    generalize (if r ∈ t.loopOrder then { t with point := t.point.set i c } else t) = t1 at h1 ⊢
    have hk := h1.slots (r, ty)
    cases hs : s1.slots (r, ty) with
    | none =>
      cases ht : t1.slots (r, ty) with
      | none => simpa using h1
      | some y => rw [hs, ht] at hk; simp [SlotSim] at hk
    | some x =>
      cases ht : t1.slots (r, ty) with
      | none => rw [hs, ht] at hk; simp [SlotSim] at hk
      | some y =>
        simp only
        have e3 : dataRow (ovr.getD t1.iteration) t1.point i c pos = dataRow (ovr.getD s1.iteration) s1.point i c pos := by
          rw [h1.iteration, h1.point]
        rw [e3]
        have h2 := h1.appendRow (r, ty) x y (dataRow (ovr.getD s1.iteration) s1.point i c pos) hs ht
        rw [hs, ht] at hk
        obtain ⟨hm, hf⟩ := hk
        cases hx : x.file with
        | none =>
          have hy : y.file = none := by rw [hx] at hf; simpa using hf.symm
          simpa [hx, hy] using h2
        | some bx =>
          have hy : ∃ b, y.file = some b := by
            rw [hx] at hf; cases hyy : y.file <;> simp_all
          obtain ⟨b, hy⟩ := hy
          simp only [hx, hy, Option.map_some] at h2 ⊢
          split
          · split
            · refine (Sim.writeLeft ?_ (r, ty) _ (bx ++ [_]) (by simp) rfl).writeRight (r, ty) _ (b ++ [_]) (by simp) rfl
              exact h2
            · exact Sim.writeLeft h2 (r, ty) _ (bx ++ [_]) (by simp) rfl
          · split
            · exact Sim.writeRight h2 (r, ty) _ (b ++ [_]) (by simp) rfl
            · exact h2

end Ft.C16
