/-
  Helper lemmas for C12 (equality as a union walk).
-/
import FtProofs.Lemmas.Content
import FtModel.Eq
set_option linter.unusedSectionVars false
set_option linter.unusedSimpArgs false
namespace Ft
open StrictTotal

section
variable {κ ν : Type} [LT κ] [DecidableRel (α := κ) (· < ·)] [DecidableEq κ] [StrictTotal κ]
variable {π : Type}

/-- the `__eq__` walk over the union accepts iff the two presented lists have the same
    coordinates and pointwise accepted payloads — phrased with abstract "content" maps
    `ca cb` that characterise acceptance -/
theorem all_eqRow_iff_groups {γ : Type} (P : π → π → Bool) (ca cb : π → γ) (pa pb : Fib κ π)
    (h : ∀ e ∈ pa, ∀ f ∈ pb, (P e.2 f.2 = true ↔ ca e.2 = cb f.2)) :
    (orMerge pa pb).all (eqRow P) = true ↔
      pa.map (fun e => (e.1, ca e.2)) = pb.map (fun f => (f.1, cb f.2)) := by
  fun_induction orMerge pa pb with
  | case1 b =>
    cases b with
    | nil => simp
    | cons y s => simp [eqRow]
  | case2 e r => simp [eqRow]
  | case3 pa ra ca' pb rb ih =>
    have ih' := ih (fun e he f hf => h e (List.mem_cons_of_mem _ he) f (List.mem_cons_of_mem _ hf))
    have hh := h (ca', pa) (List.mem_cons_self ..) (ca', pb) (List.mem_cons_self ..)
    simp only [List.all_cons, Bool.and_eq_true, ih', List.map_cons, List.cons.injEq, Prod.mk.injEq,
      eqRow, true_and]
    simp only at hh
    rw [hh]
  | case4 ca' pa ra cb' pb rb hne hlt ih =>
    simp only [List.all_cons, eqRow, Bool.false_and, List.map_cons, List.cons.injEq, Prod.mk.injEq]
    simp [hne]
  | case5 ca' pa ra cb' pb rb hne hnlt ih =>
    simp only [List.all_cons, eqRow, Bool.false_and, List.map_cons, List.cons.injEq, Prod.mk.injEq]
    simp [hne]

end

section
variable {κ ν : Type} [LT κ] [DecidableRel (α := κ) (· < ·)] [DecidableEq κ] [StrictTotal κ] [DecidableEq ν]

/-- the groups (coordinate, content of the sub-tree) of the presented elements -/
def groups (dflt : ν) (d : Nat) (f : Tree κ ν (d + 1)) : List (κ × List (List κ × ν)) :=
  (present dflt d f).map (fun e => (e.1, content dflt d e.2))

theorem content_eq_flat_groups (dflt : ν) (d : Nat) (f : Tree κ ν (d + 1)) :
    content dflt (d + 1) f = flat (groups dflt d f) := by
  rw [content_present, groups, flat, List.flatMap_map]

theorem mem_present {dflt : ν} {d : Nat} {f : Tree κ ν (d + 1)} {e : κ × Tree κ ν d} :
    e ∈ present dflt d f ↔ e ∈ (show List (κ × Tree κ ν d) from f) ∧ isEmpty dflt d e.2 = false := by
  unfold present
  rw [List.mem_filter]
  simp

theorem present_sorted {dflt : ν} {d : Nat} {f : Tree κ ν (d + 1)}
    (h : Sorted (show List (κ × Tree κ ν d) from f)) : Sorted (present dflt d f) := by
  unfold present Sorted at *
  exact h.filter _

theorem groups_sorted {dflt : ν} {d : Nat} {f : Tree κ ν (d + 1)}
    (h : Sorted (show List (κ × Tree κ ν d) from f)) : Sorted (groups dflt d f) :=
  sorted_map_key (present dflt d f) (fun e => content dflt d e.2) (present_sorted h)

theorem groups_nonempty {dflt : ν} {d : Nat} {f : Tree κ ν (d + 1)} :
    ∀ g ∈ groups dflt d f, g.2 ≠ [] := by
  intro g hg
  obtain ⟨e, he, rfl⟩ := List.mem_map.1 hg
  intro hc
  have := (isEmpty_iff_content dflt d e.2).2 hc
  rw [(mem_present.1 he).2] at this
  cases this

theorem wfB_iff : ∀ (d : Nat) (t : Tree κ ν d), wfB d t = true ↔ WF d t
  | 0, _ => by simp [wfB, WF]
  | d + 1, f => by
    show (sortedB (show List (κ × Tree κ ν d) from f) &&
      (show List (κ × Tree κ ν d) from f).all (fun e => wfB d e.2)) = true ↔
      Sorted (show List (κ × Tree κ ν d) from f) ∧ ∀ e ∈ (show List (κ × Tree κ ν d) from f), WF d e.2
    rw [Bool.and_eq_true, sortedB_iff, List.all_eq_true]
    constructor
    · intro h; exact ⟨h.1, fun e he => (wfB_iff d e.2).1 (h.2 e he)⟩
    · intro h; exact ⟨h.1, fun e he => (wfB_iff d e.2).2 (h.2 e he)⟩

end
end Ft
