/-
  C15 lemmas: a structured session (file traces declared up front, then only loop-nest calls).
  The invariant `SInv`, the distinguished trace's row count `CntInv`, and their preservation.
-/
import FtProofs.Lemmas.MetricsLemmas
set_option linter.unusedSectionVars false
set_option linter.unusedSimpArgs false
set_option linter.unusedVariables false
namespace Ft.C15

theorem mem_dset {κ α : Type} [BEq κ] [LawfulBEq κ] (d : List (κ × α)) (k : κ) (v : α) (e : κ × α)
    (h : e ∈ dset d k v) : e ∈ d ∨ e = (k, v) := by
  unfold dset at h
  split at h
  · obtain ⟨x, hx, rfl⟩ := List.mem_map.1 h
    by_cases hk : x.1 == k
    · right; simp [hk]
    · left; simp [hk, hx]
  · rcases List.mem_append.1 h with h | h
    · exact Or.inl h
    · right; simpa using h

structure SInv (p : String) (s : MState) : Prop where
  coll : s.collecting = true
  pfx : s.pfx = some p
  arm : s.allRankMatches = []
  rm : s.rankMatches = []
  files : ∀ e ∈ s.traces, e.2.mem = none ∧ e.2.file.isSome = true
  nodup : (s.traces.map (·.1)).Nodup

/-- the distinguished trace and its file are as they were -/
def Untouched (p r ty : String) (s s' : MState) : Prop :=
  dget s'.traces (r, ty) = dget s.traces (r, ty) ∧ dget s'.fs (p, r, ty) = dget s.fs (p, r, ty)

theorem Untouched.refl (p r ty : String) (s : MState) : Untouched p r ty s s := ⟨rfl, rfl⟩
theorem Untouched.trans {p r ty : String} {a b c : MState} (h1 : Untouched p r ty a b) (h2 : Untouched p r ty b c) :
    Untouched p r ty a c := ⟨h2.1.trans h1.1, h2.2.trans h1.2⟩

theorem SInv.of_core {p : String} {s s' : MState} (hs : SInv p s) (hc : SameCore s s')
    (hf : ∀ e ∈ s'.traces, e.2.mem = none ∧ e.2.file.isSome = true) : SInv p s' :=
  ⟨hc.coll.trans hs.coll, hc.pfx.trans hs.pfx, hc.arm.trans hs.arm, hc.rm.trans hs.rm, hf, by rw [hc.keys]; exact hs.nodup⟩

theorem SInv.entry {p : String} {s : MState} (hs : SInv p s) {k : TKey} {tr : TraceSt}
    (h : dget s.traces k = some tr) : tr.mem = none ∧ tr.file.isSome = true :=
  hs.files (k, tr) (dget_mem _ _ _ h)

theorem pair_ne {r t r' t' : String} (p : String) (h : (r', t') ≠ (r, t)) : (p, r, t) ≠ (p, r', t') := by
  intro e; apply h
  have := (Prod.mk.injEq _ _ _ _ ▸ e : p = p ∧ (r, t) = (r', t'))
  exact this.2.symm

theorem startTrace_sinv {p : String} {s s' : MState} {r t : String} (hs : SInv p s)
    (h : startTrace s r t = some s') : SInv p s' := by
  refine hs.of_core (startTrace_core h) ?_
  obtain ⟨i, lp, tr, fs', hi, hlp, htr, hfs, rfl⟩ := startTrace_some h
  intro e he
  rcases mem_dset _ _ _ _ he with he | rfl
  · exact hs.files e he
  · obtain ⟨h1, h2⟩ := hs.entry htr
    simp only [h1, Option.map_none, true_and]
    cases hf : tr.file with
    | none => rw [hf] at h2; cases h2
    | some f => rfl

theorem startTrace_other {p r ty : String} {s s' : MState} {r' t : String} (hs : SInv p s)
    (hne : (r', t) ≠ (r, ty)) (h : startTrace s r' t = some s') : Untouched p r ty s s' := by
  obtain ⟨i, lp, tr, fs', hi, hlp, htr, hfs, rfl⟩ := startTrace_some h
  refine ⟨dget_dset_ne _ _ (Ne.symm hne), ?_⟩
  simp only
  cases hf : tr.file with
  | none => rw [hf] at hfs; simp only [Option.some.injEq] at hfs; rw [← hfs]
  | some f =>
    rw [hf, hs.pfx] at hfs
    simp only [Option.map_some, Option.some.injEq] at hfs
    rw [← hfs]
    exact dget_dset_ne _ _ (pair_ne p hne)

theorem startTrace_self {p r ty : String} {s s' : MState} (hs : SInv p s) {c : List Row} {st : Bool}
    (htr : dget s.traces (r, ty) = some ⟨some c, none, st⟩) (h : startTrace s r ty = some s') :
    ∃ hd, dget s'.traces (r, ty) = some ⟨some (c ++ [hd]), none, true⟩ ∧ dget s'.fs (p, r, ty) = some [] := by
  obtain ⟨i, lp, tr, fs', hi, hlp, htr', hfs, rfl⟩ := startTrace_some h
  rw [htr] at htr'
  cases htr'
  simp only [hs.pfx, Option.map_some, Option.some.injEq] at hfs
  refine ⟨headerRow lp i, by simp [dget_dset_self], ?_⟩
  simp only
  rw [← hfs, dget_dset_self]

theorem startFold_other {p r ty r' : String} (hne : r' ≠ r) (L : List String) :
    ∀ s s', SInv p s → L.foldlM (fun s t => startTrace s r' t) s = some s' → SInv p s' ∧ Untouched p r ty s s' := by
  intro s s' hs h
  have := foldlM_preserve (fun s t => startTrace s r' t) (fun x => SInv p x ∧ Untouched p r ty s x)
    (fun a b c hp hb => ⟨startTrace_sinv hp.1 hb,
      hp.2.trans (startTrace_other hp.1 (by intro e; exact hne (Prod.mk.inj e).1) hb)⟩)
    L s s' ⟨hs, Untouched.refl _ _ _ _⟩ h
  exact this

theorem startFold_self {p r ty : String} (L : List String) (hn : L.Nodup) :
    ∀ s s', SInv p s → L.foldlM (fun s t => startTrace s r t) s = some s' →
      SInv p s' ∧ (ty ∉ L → Untouched p r ty s s') ∧
      (ty ∈ L → ∀ c st, dget s.traces (r, ty) = some ⟨some c, none, st⟩ →
        ∃ hd, dget s'.traces (r, ty) = some ⟨some (c ++ [hd]), none, true⟩ ∧ dget s'.fs (p, r, ty) = some []) := by
  induction L with
  | nil =>
    intro s s' hs h
    simp [List.foldlM] at h; subst h
    exact ⟨hs, fun _ => Untouched.refl _ _ _ _, fun hm => by cases hm⟩
  | cons t L ih =>
    intro s s' hs h
    simp only [List.foldlM_cons] at h
    cases h1 : startTrace s r t with
    | none => rw [h1] at h; simp at h
    | some s1 =>
      rw [h1] at h
      simp only [Option.bind_eq_bind, Option.bind_some] at h
      have hs1 := startTrace_sinv hs h1
      have hn' := (List.nodup_cons.1 hn)
      obtain ⟨hs', hA, hB⟩ := ih hn'.2 s1 s' hs1 h
      refine ⟨hs', ?_, ?_⟩
      · intro hm
        have hne : (r, t) ≠ (r, ty) := by
          intro e; apply hm; rw [(Prod.mk.inj e).2]; exact List.mem_cons_self
        exact (startTrace_other hs hne h1).trans (hA (fun h' => hm (List.mem_cons_of_mem _ h')))
      · intro hm c st htr
        by_cases ht : t = ty
        · subst ht
          obtain ⟨hd, h2, h3⟩ := startTrace_self hs htr h1
          obtain ⟨u1, u2⟩ := hA hn'.1
          exact ⟨hd, u1.trans h2, u2.trans h3⟩
        · have hne : (r, t) ≠ (r, ty) := by intro e; exact ht (Prod.mk.inj e).2
          have hu := startTrace_other hs hne h1
          have hm' : ty ∈ L := by
            rcases List.mem_cons.1 hm with e | e
            · exact absurd e.symm ht
            · exact e
          exact hB hm' c st (hu.1.trans htr)

theorem typesOf_nodup (s : MState) (r : String) (hn : (s.traces.map (·.1)).Nodup) : (typesOf s r).Nodup := by
  unfold typesOf
  generalize s.traces = l at hn
  induction l with
  | nil => simp
  | cons e l ih =>
    simp only [List.map_cons, List.nodup_cons] at hn
    by_cases he : e.1.1 == r
    · simp only [List.filter_cons, he, if_true, List.map_cons, List.nodup_cons]
      refine ⟨?_, ih hn.2⟩
      intro hm
      obtain ⟨x, hx, hxe⟩ := List.mem_map.1 hm
      obtain ⟨hxl, hxr⟩ := List.mem_filter.1 hx
      apply hn.1
      have : x.1 = e.1 := by
        apply Prod.ext
        · rw [eq_of_beq hxr, eq_of_beq he]
        · exact hxe
      rw [← this]; exact List.mem_map.2 ⟨x, hxl, rfl⟩
    · simp only [List.filter_cons, he, Bool.false_eq_true, if_false]
      exact ih hn.2

theorem mem_typesOf (s : MState) (r t : String) : t ∈ typesOf s r ↔ dhas s.traces (r, t) = true := by
  unfold typesOf
  rw [dhas_iff_mem_keys]
  simp only [List.mem_map, List.mem_filter]
  constructor
  · rintro ⟨x, ⟨hx, hr⟩, rfl⟩
    exact ⟨x, hx, by apply Prod.ext; exact eq_of_beq hr; rfl⟩
  · rintro ⟨x, hx, hk⟩
    exact ⟨x, ⟨hx, by rw [hk]; simp⟩, by rw [hk]⟩

end Ft.C15

namespace Ft.C15

/-- row count of the distinguished file trace `(r, ty)` under prefix `p`: once `r` is registered the
    trace is started and file + cache hold the header and `h` rows; before, the cache is empty -/
def CntInv (p r ty : String) (F0 : List Row) (h : Nat) (reg : Bool) (s : MState) : Prop :=
  ∃ c st lo, dget s.traces (r, ty) = some ⟨some c, none, st⟩ ∧ s.lineOrder = some lo ∧ dhas lo r = reg ∧
    (if reg = true then st = true ∧ (fileOf s p r ty).length + c.length = 1 + h
     else c = [] ∧ h = 0 ∧ st = false ∧ fileOf s p r ty = F0)

theorem inv_same {p r ty : String} {F0 : List Row} {h : Nat} {reg : Bool} {s s' : MState}
    (h1 : s'.collecting = s.collecting) (h2 : s'.pfx = s.pfx) (h3 : s'.allRankMatches = s.allRankMatches)
    (h4 : s'.rankMatches = s.rankMatches) (h5 : s'.traces = s.traces) (h6 : s'.fs = s.fs)
    (h7 : s'.lineOrder = s.lineOrder) (hs : SInv p s) (hc : CntInv p r ty F0 h reg s) :
    SInv p s' ∧ CntInv p r ty F0 h reg s' := by
  refine ⟨⟨h1.trans hs.coll, h2.trans hs.pfx, h3.trans hs.arm, h4.trans hs.rm, by rw [h5]; exact hs.files,
    by rw [h5]; exact hs.nodup⟩, ?_⟩
  obtain ⟨c, st, lo, e1, e2, e3, e4⟩ := hc
  refine ⟨c, st, lo, by rw [h5]; exact e1, h7.trans e2, e3, ?_⟩
  simpa [fileOf, h6] using e4

theorem writeTrace_sinv {p : String} {s s' : MState} {r t : String} (hs : SInv p s)
    (h : writeTrace s r t = some s') : SInv p s' := by
  refine hs.of_core (writeTrace_core h) ?_
  obtain ⟨tr, q, f, htr, hp, hf, rfl⟩ := writeTrace_some h
  intro e he
  rcases mem_dset _ _ _ _ he with he | rfl
  · exact hs.files e he
  · exact ⟨(hs.entry htr).1, rfl⟩

theorem known_iff {p : String} {s : MState} (hs : SInv p s) {lo : Dict Nat} (hlo : s.lineOrder = some lo)
    (rank : String) : known s rank = dhas lo rank := by
  simp [known, hlo, hs.rm, dhas]

theorem startAll_inv {p r ty rank : String} {s1 s2 : MState} (h : startAll s1 rank = some s2) (hs1 : SInv p s1) :
    SInv p s2 ∧ (rank ≠ r → Untouched p r ty s1 s2) ∧
    (rank = r → ∀ c st, dget s1.traces (r, ty) = some ⟨some c, none, st⟩ →
      ∃ hd, dget s2.traces (r, ty) = some ⟨some (c ++ [hd]), none, true⟩ ∧ dget s2.fs (p, r, ty) = some []) := by
  unfold startAll at h
  by_cases hrr : rank = r
  · subst hrr
    obtain ⟨hs2inv, _, hB⟩ := startFold_self (p := p) (r := rank) (ty := ty) (typesOf s1 rank)
      (typesOf_nodup s1 rank hs1.nodup) s1 s2 hs1 h
    refine ⟨hs2inv, fun hne => absurd rfl hne, fun _ c st htr => ?_⟩
    have hmem : ty ∈ typesOf s1 rank := by rw [mem_typesOf, dhas_eq_isSome, htr]; rfl
    exact hB hmem c st htr
  · obtain ⟨hs2inv, hu⟩ := startFold_other (p := p) (r := r) (ty := ty) hrr (typesOf s1 rank) s1 s2 hs1 h
    exact ⟨hs2inv, fun _ => hu, fun e => absurd e hrr⟩

theorem mRegister_inv {p r ty : String} {F0 : List Row} {h : Nat} {reg : Bool} {rank : String} {s s' : MState}
    (hs : SInv p s) (hc : CntInv p r ty F0 h reg s) (hr : mRegister rank s = some s') :
    SInv p s' ∧ CntInv p r ty F0 h (reg || rank == r) s' := by
  obtain ⟨c, st, lo0, e1, e2, e3, e4⟩ := hc
  unfold mRegister at hr
  split at hr
  · split at hr
    · rename_i lo it lp pt hlo hit hlp hpt
      rw [e2] at hlo; cases hlo
      split at hr
      · rename_i hd
        cases hr
        have : (reg || rank == r) = reg := by
          by_cases hrr : rank = r
          · subst hrr; rw [← e3, hd]; rfl
          · have : (rank == r) = false := by simpa using hrr
            rw [this]; simp
        rw [this]
        exact ⟨hs, c, st, lo0, e1, e2, e3, e4⟩
      · rename_i hd
        have hd' : dhas lo0 rank = false := by simpa using hd
        split at hr
        · cases hr
        · rename_i s2 hs2
          have hcore := startAll_core hs2
          have harm : s2.allRankMatches = [] := hcore.arm.trans hs.arm
          rw [harm] at hr
          simp [List.foldlM] at hr
          subst hr
          obtain ⟨hs2inv, hO, hS⟩ := startAll_inv (p := p) (r := r) (ty := ty) hs2
            ⟨hs.coll, hs.pfx, hs.arm, hs.rm, hs.files, hs.nodup⟩
          have hlo2 : s2.lineOrder = some (dset lo0 rank it.length) := hcore.lo
          by_cases hrr : rank = r
          · subst hrr
            have hreg : reg = false := by rw [← e3, hd']
            subst hreg
            simp only [Bool.false_eq_true, if_false] at e4
            obtain ⟨hc0, hh0, _⟩ := e4
            subst hc0; subst hh0
            obtain ⟨hd, g1, g2⟩ := hS rfl [] st e1
            refine ⟨hs2inv, [] ++ [hd], true, _, g1, hlo2, ?_, ?_⟩
            · rw [dhas_dset]; simp
            · simp [fileOf, g2]
          · have hb : (rank == r) = false := by simpa using hrr
            have hu := hO hrr
            refine ⟨hs2inv, c, st, _, hu.1.trans e1, hlo2, ?_, ?_⟩
            · rw [dhas_dset, e3]
              have : (r == rank) = false := by simpa using (Ne.symm hrr)
              simp [this, hb]
            · rw [hb, Bool.or_false]
              have hfs : dget s2.fs (p, r, ty) = dget s.fs (p, r, ty) := hu.2
              simpa [fileOf, hfs] using e4
    · cases hr
  · cases hr

theorem nUse_single (r ty : String) (op : MOp) :
    nUse r ty [op] = match op with
      | .addUse r' _ _ t' _ => if r' == r && t' == ty then 1 else 0
      | _ => 0 := by
  cases op <;> simp [nUse, List.countP_cons]

theorem nUse_cons (r ty : String) (op : MOp) (ops : List MOp) :
    nUse r ty (op :: ops) = nUse r ty [op] + nUse r ty ops := by
  simp only [nUse, List.countP_cons, List.countP_nil]; omega

theorem nUse_append (r ty : String) (a b : List MOp) : nUse r ty (a ++ b) = nUse r ty a + nUse r ty b := by
  simp [nUse, List.countP_append]

theorem sinv_set {p : String} {s1 : MState} (hs1 : SInv p s1) {k : TKey} {tr tr' : TraceSt}
    (htr : dget s1.traces k = some tr) (hm : tr'.mem = none) (hf : tr'.file.isSome = true) :
    SInv p { s1 with traces := dset s1.traces k tr' } := by
  refine ⟨hs1.coll, hs1.pfx, hs1.arm, hs1.rm, ?_, ?_⟩
  · intro e he
    rcases mem_dset _ _ _ _ he with he | rfl
    · exact hs1.files e he
    · exact ⟨hm, hf⟩
  · show ((dset s1.traces k tr').map (·.1)).Nodup
    rw [keys_dset_has _ _ _ (by rw [dhas_eq_isSome, htr]; rfl)]
    exact hs1.nodup

theorem pushRow_inv {p r ty : String} {F0 : List Row} {h : Nat} {reg : Bool} {rank t : String} {tr : TraceSt} {data : Row}
    {s1 s' : MState} (hrec : pushRow s1 rank t tr data = some s') (hs1 : SInv p s1)
    (hc1 : CntInv p r ty F0 h reg s1) (htr : dget s1.traces (rank, t) = some tr)
    (hreg : (rank, t) = (r, ty) → reg = true) :
    SInv p s' ∧ CntInv p r ty F0 (h + (if rank == r && t == ty then 1 else 0)) reg s' := by
  obtain ⟨c, st, lo0, e1, e2, e3, e4⟩ := hc1
  obtain ⟨hm, hf⟩ := hs1.entry htr
  cases hfile : tr.file with
  | none => rw [hfile] at hf; cases hf
  | some f =>
    unfold pushRow at hrec
    rw [hfile] at hrec
    simp only [setTrace, withRow] at hrec
    have hs2 := sinv_set (tr' := { tr with file := some (f ++ [data]), mem := tr.mem.map (· ++ [data]) })
      hs1 htr (by simp [hm]) rfl
    by_cases hkey : (rank, t) = (r, ty)
    · obtain ⟨rfl, rfl⟩ := Prod.mk.inj hkey
      have hregT := hreg rfl
      subst hregT
      simp only [if_true] at e4
      obtain ⟨hst, hlen⟩ := e4
      simp only [beq_self_eq_true, Bool.and_self, if_true]
      rw [e1] at htr
      cases htr
      simp only [Option.some.injEq] at hfile
      subst hfile
      subst hst
      split at hrec
      · obtain ⟨tr2, q, f2, g1, g2, g3, rfl⟩ := writeTrace_some hrec
        simp only [dget_dset_self, Option.some.injEq] at g1
        subst g1
        simp only [Option.some.injEq] at g3
        subst g3
        have hq : q = p := by
          have : s1.pfx = some p := hs1.pfx
          simp only at g2
          rw [this] at g2; exact (Option.some.inj g2).symm
        subst hq
        refine ⟨writeTrace_sinv hs2 hrec, [], true, lo0, by simp [dget_dset_self], e2, e3, ?_⟩
        simp only [if_true, fileOf, dget_dset_self, Option.getD_some, List.length_append, List.length_nil,
          List.length_cons, true_and, fileBase]
        simp only [fileOf] at hlen
        omega
      · cases hrec
        refine ⟨hs2, c ++ [data], true, lo0, by simp [dget_dset_self], e2, e3, ?_⟩
        simp only [if_true, fileOf, List.length_append, List.length_cons, List.length_nil]
        simp only [fileOf] at hlen
        exact ⟨trivial, by omega⟩
    · have hz : (if rank == r && t == ty then 1 else 0) = 0 := by
        by_cases h1 : rank = r
        · by_cases h2 : t = ty
          · exact absurd (by rw [h1, h2]) hkey
          · have : (t == ty) = false := by simpa using h2
            simp [this]
        · have : (rank == r) = false := by simpa using h1
          simp [this]
      rw [hz, Nat.add_zero]
      have hkey' : (r, ty) ≠ (rank, t) := fun e => hkey e.symm
      split at hrec
      · obtain ⟨tr2, q, f2', g1, g2, g3, rfl⟩ := writeTrace_some hrec
        have hq : q = p := by
          have : s1.pfx = some p := hs1.pfx
          simp only at g2
          rw [this] at g2; exact (Option.some.inj g2).symm
        subst hq
        refine ⟨writeTrace_sinv hs2 hrec, c, st, lo0, ?_, e2, e3, ?_⟩
        · simp only
          rw [dget_dset_ne _ _ hkey', dget_dset_ne _ _ hkey']; exact e1
        · simp only [fileOf] at e4 ⊢
          rw [dget_dset_ne _ _ (pair_ne q hkey)]; exact e4
      · cases hrec
        refine ⟨hs2, c, st, lo0, ?_, e2, e3, ?_⟩
        · simp only
          rw [dget_dset_ne _ _ hkey']; exact e1
        · simpa [fileOf] using e4

theorem recordUse_inv {p r ty : String} {F0 : List Row} {h : Nat} {reg : Bool} {rank t : String} {pt : List Int} {i : Nat}
    {co pos : Int} {itn : Option (List Int)} {s1 s' : MState}
    (hrec : recordUse s1 rank t pt i co pos itn = some s') (hs1 : SInv p s1)
    (hc1 : CntInv p r ty F0 h reg s1) (hreg : (rank, t) = (r, ty) → reg = true) :
    SInv p s' ∧ CntInv p r ty F0 (h + (if rank == r && t == ty then 1 else 0)) reg s' := by
  unfold recordUse at hrec
  split at hrec
  · rename_i hnone
    cases hrec
    have hz : (if rank == r && t == ty then 1 else 0) = 0 := by
      by_cases hkey : (rank, t) = (r, ty)
      · obtain ⟨c, st, lo0, e1, _⟩ := hc1
        rw [hkey, e1] at hnone; cases hnone
      · by_cases h1 : rank = r
        · by_cases h2 : t = ty
          · exact absurd (by rw [h1, h2]) hkey
          · have : (t == ty) = false := by simpa using h2
            simp [this]
        · have : (rank == r) = false := by simpa using h1
          simp [this]
    rw [hz, Nat.add_zero]
    exact ⟨hs1, hc1⟩
  · rename_i tr htr
    split at hrec
    · cases hrec
    · exact pushRow_inv hrec hs1 hc1 htr hreg

theorem mAddUse_inv {p r ty : String} {F0 : List Row} {h : Nat} {reg : Bool} {rank t : String} {co pos : Int}
    {itn : Option (List Int)} {s s' : MState}
    (hs : SInv p s) (hc : CntInv p r ty F0 h reg s) (hr : mAddUse rank co pos t itn s = some s') :
    SInv p s' ∧ CntInv p r ty F0 (h + (if rank == r && t == ty then 1 else 0)) reg s' := by
  obtain ⟨lo, pt, i, hcoll, hknown, hlo, hpt, hi, hrec⟩ := mAddUse_some hr
  obtain ⟨c, st, lo0, e1, e2, e3, e4⟩ := hc
  have hreg : (rank, t) = (r, ty) → reg = true := by
    intro e
    rw [← e3, ← known_iff hs e2, ← (Prod.mk.inj e).1]; exact hknown
  exact recordUse_inv hrec ⟨hs.coll, hs.pfx, hs.arm, hs.rm, hs.files, hs.nodup⟩
    ⟨c, st, lo0, e1, e2, e3, by simpa [fileOf] using e4⟩ hreg

end Ft.C15

namespace Ft.C15

theorem registers_cons (r : String) (op : MOp) (ops : List MOp) :
    registers r (op :: ops) = (op == .registerRank r || registers r ops) := by
  simp only [registers, List.contains_cons]
  cases h : (MOp.registerRank r == op) <;> cases h' : (op == MOp.registerRank r) <;> simp_all

theorem registers_append (r : String) (a b : List MOp) :
    registers r (a ++ b) = (registers r a || registers r b) := by
  simp [registers, List.contains_eq_mem, List.mem_append]

/-- one loop-nest call keeps the session invariant and accounts for the row it may add -/
theorem step_inv {p r ty : String} {F0 : List Row} {h : Nat} {reg : Bool} {op : MOp} {s s' : MState} {x : MRet}
    (hs : SInv p s) (hc : CntInv p r ty F0 h reg s) (hb : op.inBody = true) (hstep : step op s = some (x, s')) :
    SInv p s' ∧ CntInv p r ty F0 (h + nUse r ty [op]) (reg || op == .registerRank r) s' := by
  have hreg0 : ∀ o : MOp, (∀ q, o ≠ .registerRank q) → (reg || o == .registerRank r) = reg := by
    intro o ho
    have : (o == MOp.registerRank r) = false := by
      cases hh : (o == MOp.registerRank r) with
      | false => rfl
      | true => exact absurd (eq_of_beq hh) (ho r)
    rw [this, Bool.or_false]
  cases op with
  | registerRank rank =>
    simp only [step, Option.map_eq_some_iff] at hstep
    obtain ⟨s1, h1, h2⟩ := hstep
    cases h2
    have := mRegister_inv hs hc h1
    rw [nUse_single]
    simp only [Nat.add_zero]
    have e : (MOp.registerRank rank == MOp.registerRank r) = (rank == r) := by
      by_cases hh : rank = r
      · subst hh; simp
      · have : (rank == r) = false := by simpa using hh
        rw [this]
        cases h3 : (MOp.registerRank rank == MOp.registerRank r) with
        | false => rfl
        | true => exact absurd (MOp.registerRank.inj (eq_of_beq h3)) hh
    rw [e]; exact this
  | addUse rank c pos t itn =>
    simp only [step, Option.map_eq_some_iff] at hstep
    obtain ⟨s1, h1, h2⟩ := hstep
    cases h2
    rw [hreg0 _ (fun q e => by cases e), nUse_single]
    exact mAddUse_inv hs hc h1
  | incIter rank =>
    simp only [step, Option.map_eq_some_iff] at hstep
    obtain ⟨s1, h1, h2⟩ := hstep
    cases h2
    rw [hreg0 _ (fun q e => by cases e), nUse_single]
    unfold mIncIter at h1
    split at h1
    · split at h1
      · split at h1
        · cases h1; exact inv_same (s := s) rfl rfl rfl rfl rfl rfl rfl hs hc
        · cases h1
      · cases h1
    · cases h1
  | endIter rank =>
    simp only [step, Option.map_eq_some_iff] at hstep
    obtain ⟨s1, h1, h2⟩ := hstep
    cases h2
    rw [hreg0 _ (fun q e => by cases e), nUse_single]
    unfold mEndIter at h1
    split at h1
    · split at h1
      · split at h1
        · cases h1; exact inv_same (s := s) rfl rfl rfl rfl rfl rfl rfl hs hc
        · cases h1
      · cases h1
    · cases h1
  | getLabel rank =>
    simp only [step, Option.map_eq_some_iff] at hstep
    obtain ⟨s1, h1, h2⟩ := hstep
    cases h2
    rw [hreg0 _ (fun q e => by cases e), nUse_single]
    unfold mGetLabel at h1
    split at h1
    · split at h1
      · simp only at h1
        split at h1
        · cases h1; exact inv_same (s := s) rfl rfl rfl rfl rfl rfl rfl hs hc
        · cases h1
      · cases h1
    · cases h1
  | getIndex rank =>
    rw [hreg0 _ (fun q e => by cases e), nUse_single]
    simp only [step] at hstep
    split at hstep
    · simp only [Option.map_eq_some_iff] at hstep
      obtain ⟨i, _, h2⟩ := hstep
      cases h2; exact ⟨hs, hc⟩
    · cases hstep
  | getIter =>
    rw [hreg0 _ (fun q e => by cases e), nUse_single]
    simp only [step, Option.some.injEq, Prod.mk.injEq] at hstep
    rw [← hstep.2]; exact ⟨hs, hc⟩
  | incCount l k n =>
    simp only [step, Option.map_eq_some_iff] at hstep
    obtain ⟨s1, h1, h2⟩ := hstep
    cases h2
    rw [hreg0 _ (fun q e => by cases e), nUse_single]
    unfold mIncCount at h1
    split at h1
    · split at h1
      · cases h1; exact inv_same (s := s) rfl rfl rfl rfl rfl rfl rfl hs hc
      · cases h1
    · cases h1
  | isCollecting =>
    rw [hreg0 _ (fun q e => by cases e), nUse_single]
    simp only [step, Option.some.injEq, Prod.mk.injEq] at hstep
    rw [← hstep.2]; exact ⟨hs, hc⟩
  | isTraced rank t =>
    rw [hreg0 _ (fun q e => by cases e), nUse_single]
    simp only [step] at hstep
    split at hstep
    · simp only [Option.some.injEq, Prod.mk.injEq] at hstep; rw [← hstep.2]; exact ⟨hs, hc⟩
    · cases hstep
  | dump =>
    rw [hreg0 _ (fun q e => by cases e), nUse_single]
    simp only [step, Option.some.injEq, Prod.mk.injEq] at hstep
    rw [← hstep.2]; exact ⟨hs, hc⟩
  | beginCollect q => simp [MOp.inBody] at hb
  | endCollect => simp [MOp.inBody] at hb
  | matchRanks a b => simp [MOp.inBody] at hb
  | trace a b c => simp [MOp.inBody] at hb
  | consumeTrace a b => simp [MOp.inBody] at hb
  | setNumCachedUses n => simp [MOp.inBody] at hb
  | associateShape a => simp [MOp.inBody] at hb

theorem body_inv {p r ty : String} {F0 : List Row} {body : List MOp} :
    ∀ {h : Nat} {reg : Bool} {s s' : MState} {rs : List MRet}, SInv p s → CntInv p r ty F0 h reg s →
      (∀ op ∈ body, op.inBody = true) → runOps body s = some (rs, s') →
      SInv p s' ∧ CntInv p r ty F0 (h + nUse r ty body) (reg || registers r body) s' := by
  induction body with
  | nil =>
    intro h reg s s' rs hs hc _ hrun
    simp [runOps] at hrun
    rw [← hrun.2]
    simpa [nUse, registers] using And.intro hs hc
  | cons op body ih =>
    intro h reg s s' rs hs hc hb hrun
    obtain ⟨x, s1, rs', h1, h2, _⟩ := runOps_cons hrun
    obtain ⟨hs1, hc1⟩ := step_inv hs hc (hb op List.mem_cons_self) h1
    have := ih hs1 hc1 (fun o ho => hb o (List.mem_cons_of_mem _ ho)) h2
    rw [nUse_cons, registers_cons, ← Nat.add_assoc, ← Bool.or_assoc]
    exact this

/-! ### closing the session -/

theorem endOne_inv {p r ty : String} {s s' : MState} {e : TKey × TraceSt} (hs : SInv p s)
    (he : e.2.mem = none ∧ e.2.file.isSome = true) (h : endOne s e = some s') :
    SInv p s' ∧ (e.1 ≠ (r, ty) → Untouched p r ty s s') ∧
    (e.1 = (r, ty) → ∀ c st, dget s.traces (r, ty) = some ⟨some c, none, st⟩ →
      dget s'.fs (p, r, ty) = some (fileBase s (p, r, ty) st ++ c) ∧
      ∃ st', dget s'.traces (r, ty) = some ⟨some [], none, st'⟩) := by
  unfold endOne at h
  rw [if_pos he.2, he.1] at h
  cases hw : writeTrace s e.1.1 e.1.2 with
  | none => rw [hw] at h; cases h
  | some s1 =>
    rw [hw] at h
    simp only [Option.some.injEq] at h
    subst h
    refine ⟨writeTrace_sinv hs hw, ?_, ?_⟩
    · intro hne
      obtain ⟨tr, q, f, htr, hp, hf, rfl⟩ := writeTrace_some hw
      have hq : q = p := by rw [hs.pfx] at hp; exact (Option.some.inj hp).symm
      subst hq
      have hne' : (e.1.1, e.1.2) ≠ (r, ty) := hne
      exact ⟨dget_dset_ne _ _ (Ne.symm hne'), dget_dset_ne _ _ (pair_ne q hne')⟩
    · intro heq c st htr0
      obtain ⟨tr, q, f, htr, hp, hf, rfl⟩ := writeTrace_some hw
      have hq : q = p := by rw [hs.pfx] at hp; exact (Option.some.inj hp).symm
      subst hq
      have h1 : e.1.1 = r := (Prod.mk.inj (show (e.1.1, e.1.2) = (r, ty) from heq)).1
      have h2 : e.1.2 = ty := (Prod.mk.inj (show (e.1.1, e.1.2) = (r, ty) from heq)).2
      subst h1; subst h2
      rw [htr0] at htr
      cases htr
      simp only [Option.some.injEq] at hf
      subst hf
      exact ⟨by simp [dget_dset_self], true, by simp [dget_dset_self]⟩

theorem endFold_inv {p r ty : String} (L : List (TKey × TraceSt)) :
    ∀ s s', (L.map (·.1)).Nodup → (∀ e ∈ L, e.2.mem = none ∧ e.2.file.isSome = true) → SInv p s →
      L.foldlM endOne s = some s' →
      SInv p s' ∧ ((r, ty) ∉ L.map (·.1) → Untouched p r ty s s') ∧
      ((r, ty) ∈ L.map (·.1) → ∀ c st, dget s.traces (r, ty) = some ⟨some c, none, st⟩ →
        dget s'.fs (p, r, ty) = some (fileBase s (p, r, ty) st ++ c)) := by
  induction L with
  | nil =>
    intro s s' _ _ hs h
    simp [List.foldlM] at h; subst h
    exact ⟨hs, fun _ => Untouched.refl _ _ _ _, fun hm => by cases hm⟩
  | cons e L ih =>
    intro s s' hn hall hs h
    simp only [List.foldlM_cons] at h
    cases h1 : endOne s e with
    | none => rw [h1] at h; simp at h
    | some s1 =>
      rw [h1] at h
      simp only [Option.bind_eq_bind, Option.bind_some] at h
      simp only [List.map_cons, List.nodup_cons] at hn
      obtain ⟨hs1, hA, hB⟩ := endOne_inv (p := p) (r := r) (ty := ty) hs (hall e List.mem_cons_self) h1
      obtain ⟨hs', hC, hD⟩ := ih s1 s' hn.2 (fun x hx => hall x (List.mem_cons_of_mem _ hx)) hs1 h
      refine ⟨hs', ?_, ?_⟩
      · intro hm
        simp only [List.map_cons, List.mem_cons, not_or] at hm
        exact (hA (fun e' => hm.1 e'.symm)).trans (hC hm.2)
      · intro hm c st htr
        by_cases hk : e.1 = (r, ty)
        · obtain ⟨g1, st', g2⟩ := hB hk c st htr
          have hnot : (r, ty) ∉ L.map (·.1) := by rw [← hk]; exact hn.1
          rw [(hC hnot).2]; exact g1
        · have hu := hA hk
          have hm' : (r, ty) ∈ L.map (·.1) := by
            simp only [List.map_cons, List.mem_cons] at hm
            rcases hm with e' | e'
            · exact absurd e'.symm hk
            · exact e'
          rw [hD hm' c st (hu.1.trans htr)]
          simp only [fileBase, hu.2]

/-- after `endCollect` the file of a registered, declared trace holds the header and the rows -/
theorem mEnd_file {p r ty : String} {F0 : List Row} {h : Nat} {s s' : MState} (hs : SInv p s) (hc : CntInv p r ty F0 h true s)
    (hend : mEnd s = some s') : (fileOf s' p r ty).length = 1 + h := by
  obtain ⟨s1, hfold, _, rfl⟩ := mEnd_some hend
  obtain ⟨c, st, lo, e1, e2, e3, e4⟩ := hc
  simp only [if_true] at e4
  obtain ⟨_, hD⟩ := (endFold_inv (p := p) (r := r) (ty := ty) s.traces s s1 hs.nodup hs.files hs hfold).2
  have hm : (r, ty) ∈ s.traces.map (·.1) := by
    rw [← dhas_iff_mem_keys, dhas_eq_isSome, e1]; rfl
  have := hD hm c st e1
  obtain ⟨hst, hlen⟩ := e4
  subst hst
  simp only [fileOf] at hlen ⊢
  rw [this]
  simp only [Option.getD_some, List.length_append, fileBase, if_true]
  exact hlen

/-- … and the file of a declared trace whose rank was never registered is a new, empty file -/
theorem mEnd_file_unstarted {p r ty : String} {F0 : List Row} {h : Nat} {s s' : MState} (hs : SInv p s) (hc : CntInv p r ty F0 h false s)
    (hend : mEnd s = some s') : fileOf s' p r ty = [] ∧ h = 0 := by
  obtain ⟨s1, hfold, _, rfl⟩ := mEnd_some hend
  obtain ⟨c, st, lo, e1, e2, e3, e4⟩ := hc
  simp only [Bool.false_eq_true, if_false] at e4
  obtain ⟨_, hD⟩ := (endFold_inv (p := p) (r := r) (ty := ty) s.traces s s1 hs.nodup hs.files hs hfold).2
  have hm : (r, ty) ∈ s.traces.map (·.1) := by
    rw [← dhas_iff_mem_keys, dhas_eq_isSome, e1]; rfl
  have := hD hm c st e1
  obtain ⟨hc0, hh0, hst, _⟩ := e4
  subst hc0; subst hst
  simp only [fileOf]
  rw [this]
  exact ⟨by simp [fileBase], hh0⟩

end Ft.C15

namespace Ft.C15

/-! ### opening the session: `beginCollect(p)`, then the trace declarations -/

def freshTrace : TraceSt := { file := some [], mem := none, started := false }

theorem nodup_keys_dset {α : Type} (d : List (TKey × α)) (k : TKey) (v : α) (hn : (d.map (·.1)).Nodup) :
    ((dset d k v).map (·.1)).Nodup := by
  by_cases h : dhas d k = true
  · rw [keys_dset_has _ _ _ h]; exact hn
  · have h' : dhas d k = false := by simpa using h
    rw [keys_dset_new _ _ _ h']
    rw [List.nodup_append]
    refine ⟨hn, by simp, ?_⟩
    intro a ha b hb
    simp only [List.mem_singleton] at hb
    subst hb
    intro e; subst e
    rw [← dhas_iff_mem_keys] at ha
    rw [ha] at h'; cases h'

/-- the state while the traces are being declared -/
structure DeclInv (p : String) (fs0 : FS) (s : MState) : Prop where
  sinv : SInv p s
  lo : s.lineOrder = some []
  it : s.iteration = some []
  lp : s.loopOrder = some []
  pt : s.point = some []
  fresh : ∀ e ∈ s.traces, e.2 = freshTrace
  fs : s.fs = fs0
  met : s.metrics = some []

theorem mBegin_decl (p : String) (s0 : MState) : DeclInv p s0.fs (mBegin (some p) s0) :=
  ⟨⟨rfl, rfl, rfl, rfl, (fun e he => by cases he), (by simp [mBegin])⟩, rfl, rfl, rfl, rfl,
    (fun e he => by cases he), rfl, rfl⟩

theorem mTrace_decl {p : String} {fs0 : FS} {s s' : MState} {k : TKey} (hd : DeclInv p fs0 s)
    (h : mTrace k.1 k.2 false s = some s') : DeclInv p fs0 s' ∧ dhas s'.traces k = true ∧
      (∀ k', dhas s.traces k' = true → dhas s'.traces k' = true) := by
  unfold mTrace at h
  split at h
  · simp only [Bool.false_eq_true, if_false, Option.some.injEq] at h
    have hval : ({ (dget s.traces (k.1, k.2)).getD { file := none, mem := none, started := false } with
        file := some [] } : TraceSt) = freshTrace := by
      cases hg : dget s.traces (k.1, k.2) with
      | none => rfl
      | some tr =>
        have := hd.fresh ((k.1, k.2), tr) (dget_mem _ _ _ hg)
        simp only at this
        subst this; rfl
    rw [hval] at h
    subst h
    refine ⟨⟨⟨hd.sinv.coll, hd.sinv.pfx, hd.sinv.arm, hd.sinv.rm, ?_, ?_⟩, hd.lo, hd.it, hd.lp, hd.pt, ?_, hd.fs, hd.met⟩, ?_, ?_⟩
    · intro e he
      rcases mem_dset _ _ _ _ he with he | rfl
      · exact hd.sinv.files e he
      · exact ⟨rfl, rfl⟩
    · exact nodup_keys_dset _ _ _ hd.sinv.nodup
    · intro e he
      rcases mem_dset _ _ _ _ he with he | rfl
      · exact hd.fresh e he
      · rfl
    · show dhas (dset s.traces (k.1, k.2) freshTrace) k = true
      rw [dhas_dset]; simp
    · intro k' hk'
      show dhas (dset s.traces (k.1, k.2) freshTrace) k' = true
      rw [dhas_dset, hk']; simp
  · cases h

theorem decls_inv {p : String} {fs0 : FS} (keys : List TKey) :
    ∀ {s s' : MState} {rs : List MRet}, DeclInv p fs0 s →
      runOps (keys.map (fun k => MOp.trace k.1 k.2 false)) s = some (rs, s') →
      DeclInv p fs0 s' ∧ (∀ k ∈ keys, dhas s'.traces k = true) ∧
      (∀ k', dhas s.traces k' = true → dhas s'.traces k' = true) := by
  induction keys with
  | nil =>
    intro s s' rs hd h
    simp [runOps] at h
    rw [← h.2]
    exact ⟨hd, (fun k hk => by cases hk), fun _ h => h⟩
  | cons k keys ih =>
    intro s s' rs hd h
    rw [List.map_cons] at h
    obtain ⟨x, s1, rs', h1, h2, _⟩ := runOps_cons h
    simp only [step, Option.map_eq_some_iff] at h1
    obtain ⟨s1', h1', h1''⟩ := h1
    cases h1''
    obtain ⟨hd1, hk1, hmono1⟩ := mTrace_decl hd h1'
    obtain ⟨hd', hall, hmono⟩ := ih hd1 h2
    refine ⟨hd', ?_, fun k' hk' => hmono k' (hmono1 k' hk')⟩
    intro k' hk'
    rcases List.mem_cons.1 hk' with rfl | hk'
    · exact hmono _ hk1
    · exact hall k' hk'

theorem open_inv {p : String} {keys : List TKey} {s0 s : MState} {rs : List MRet}
    (h : runOps (openOps p keys) s0 = some (rs, s)) :
    DeclInv p s0.fs s ∧ ∀ k ∈ keys, dget s.traces k = some freshTrace := by
  unfold openOps at h
  obtain ⟨x, s1, rs', h1, h2, _⟩ := runOps_cons h
  simp only [step, Option.some.injEq, Prod.mk.injEq] at h1
  obtain ⟨hd, hall, _⟩ := decls_inv keys (by rw [← h1.2]; exact mBegin_decl p s0) h2
  refine ⟨hd, fun k hk => ?_⟩
  have := hall k hk
  rw [dhas_eq_isSome] at this
  cases hg : dget s.traces k with
  | none => rw [hg] at this; cases this
  | some tr =>
    have hf := hd.fresh (k, tr) (dget_mem _ _ _ hg)
    simp only at hf
    rw [hf]

/-- the whole structured session, seen from one declared trace -/
theorem session_inv {p : String} {keys : List TKey} {body : List MOp} {s0 s' : MState} {rs : List MRet}
    (hbody : ∀ op ∈ body, op.inBody = true)
    (hrun : runOps (openOps p keys ++ body ++ [.endCollect]) s0 = some (rs, s'))
    {r ty : String} (hk : (r, ty) ∈ keys) :
    ∃ s2, SInv p s2 ∧ CntInv p r ty (fileOf s0 p r ty) (nUse r ty body) (registers r body) s2 ∧ mEnd s2 = some s' := by
  obtain ⟨s2, ra, rb, hA, hB, _⟩ := runOps_append hrun
  obtain ⟨s1, ra1, ra2, hA1, hA2, _⟩ := runOps_append hA
  obtain ⟨hd, hall⟩ := open_inv hA1
  have hc0 : CntInv p r ty (fileOf s0 p r ty) 0 false s1 :=
    ⟨[], false, [], hall _ hk, hd.lo, rfl, by simp [fileOf, hd.fs]⟩
  obtain ⟨hs2, hc2⟩ := body_inv hd.sinv hc0 hbody hA2
  simp only [Nat.zero_add, Bool.false_or] at hc2
  obtain ⟨x, s3, rs', h1, h2, _⟩ := runOps_cons hB
  simp only [runOps, Option.some.injEq, Prod.mk.injEq] at h2
  simp only [step, Option.map_eq_some_iff] at h1
  obtain ⟨s3', h1', h1''⟩ := h1
  cases h1''
  exact ⟨s2, hs2, hc2, by rw [h1', h2.2]⟩

end Ft.C15
