/-
  C15 lemmas: a structured session (file traces declared up front, then only loop-nest calls).
  The invariant `SInv`, the distinguished trace's row count `CntInv`, and their preservation.
-/
import FtProofs.Lemmas.MetricsLemmas
set_option linter.unusedSectionVars false
set_option linter.unusedSimpArgs false
set_option linter.unusedVariables false
namespace Ft.C15

theorem mem_dset {κ α : Type} [BEq κ] [LawfulBEq κ] (d : List (κ × α)) (k : κ) (v : α) (e : κ × α)
    (h : e ∈ dset d k v) : e ∈ d ∨ e = (k, v) := by
  unfold dset at h
  split at h
  · obtain ⟨x, hx, rfl⟩ := List.mem_map.1 h
    by_cases hk : x.1 == k
    · right; simp [hk]
    · left; simp [hk, hx]
  · rcases List.mem_append.1 h with h | h
    · exact Or.inl h
    · right; simpa using h

structure SInv (p : String) (s : MState) : Prop where
  coll : s.collecting = true
  pfx : s.pfx = some p
  arm : s.allRankMatches = []
  rm : s.rankMatches = []
  files : ∀ e ∈ s.traces, e.2.mem = none ∧ e.2.file.isSome = true
  nodup : (s.traces.map (·.1)).Nodup

/-- the distinguished trace and its file are as they were -/
def Untouched (p r ty : String) (s s' : MState) : Prop :=
  dget s'.traces (r, ty) = dget s.traces (r, ty) ∧ dget s'.fs (p, r, ty) = dget s.fs (p, r, ty)

theorem Untouched.refl (p r ty : String) (s : MState) : Untouched p r ty s s := ⟨rfl, rfl⟩
theorem Untouched.trans {p r ty : String} {a b c : MState} (h1 : Untouched p r ty a b) (h2 : Untouched p r ty b c) :
    Untouched p r ty a c := ⟨h2.1.trans h1.1, h2.2.trans h1.2⟩

theorem SInv.of_core {p : String} {s s' : MState} (hs : SInv p s) (hc : SameCore s s')
    (hf : ∀ e ∈ s'.traces, e.2.mem = none ∧ e.2.file.isSome = true) : SInv p s' :=
  ⟨hc.coll.trans hs.coll, hc.pfx.trans hs.pfx, hc.arm.trans hs.arm, hc.rm.trans hs.rm, hf, by rw [hc.keys]; exact hs.nodup⟩

theorem SInv.entry {p : String} {s : MState} (hs : SInv p s) {k : TKey} {tr : TraceSt}
    (h : dget s.traces k = some tr) : tr.mem = none ∧ tr.file.isSome = true :=
  hs.files (k, tr) (dget_mem _ _ _ h)

theorem pair_ne {r t r' t' : String} (p : String) (h : (r', t') ≠ (r, t)) : (p, r, t) ≠ (p, r', t') := by
  intro e; apply h
  have := (Prod.mk.injEq _ _ _ _ ▸ e : p = p ∧ (r, t) = (r', t'))
  exact this.2.symm

theorem startTrace_sinv {p : String} {s s' : MState} {r t : String} (hs : SInv p s)
    (h : startTrace s r t = some s') : SInv p s' := by
  refine hs.of_core (startTrace_core h) ?_
  obtain ⟨i, lp, tr, fs', hi, hlp, htr, hfs, rfl⟩ := startTrace_some h
  intro e he
  rcases mem_dset _ _ _ _ he with he | rfl
  · exact hs.files e he
  · obtain ⟨h1, h2⟩ := hs.entry htr
    simp only [h1, Option.map_none, true_and]
    cases hf : tr.file with
    | none => rw [hf] at h2; cases h2
    | some f => rfl

theorem startTrace_other {p r ty : String} {s s' : MState} {r' t : String} (hs : SInv p s)
    (hne : (r', t) ≠ (r, ty)) (h : startTrace s r' t = some s') : Untouched p r ty s s' := by
  obtain ⟨i, lp, tr, fs', hi, hlp, htr, hfs, rfl⟩ := startTrace_some h
  refine ⟨dget_dset_ne _ _ (Ne.symm hne), ?_⟩
  simp only
  cases hf : tr.file with
  | none => rw [hf] at hfs; simp only [Option.some.injEq] at hfs; rw [← hfs]
  | some f =>
    rw [hf, hs.pfx] at hfs
    simp only [Option.map_some, Option.some.injEq] at hfs
    rw [← hfs]
    exact dget_dset_ne _ _ (pair_ne p hne)

theorem startTrace_self {p r ty : String} {s s' : MState} (hs : SInv p s) {c : List Row} {st : Bool}
    (htr : dget s.traces (r, ty) = some ⟨some c, none, st⟩) (h : startTrace s r ty = some s') :
    ∃ hd, dget s'.traces (r, ty) = some ⟨some (c ++ [hd]), none, true⟩ ∧ dget s'.fs (p, r, ty) = some [] := by
  obtain ⟨i, lp, tr, fs', hi, hlp, htr', hfs, rfl⟩ := startTrace_some h
  rw [htr] at htr'
  cases htr'
  simp only [hs.pfx, Option.map_some, Option.some.injEq] at hfs
  refine ⟨headerRow lp i, by simp [dget_dset_self], ?_⟩
  simp only
  rw [← hfs, dget_dset_self]

theorem startFold_other {p r ty r' : String} (hne : r' ≠ r) (L : List String) :
    ∀ s s', SInv p s → L.foldlM (fun s t => startTrace s r' t) s = some s' → SInv p s' ∧ Untouched p r ty s s' := by
  intro s s' hs h
  have := foldlM_preserve (fun s t => startTrace s r' t) (fun x => SInv p x ∧ Untouched p r ty s x)
    (fun a b c hp hb => ⟨startTrace_sinv hp.1 hb,
      hp.2.trans (startTrace_other hp.1 (by intro e; exact hne (Prod.mk.inj e).1) hb)⟩)
    L s s' ⟨hs, Untouched.refl _ _ _ _⟩ h
  exact this

theorem startFold_self {p r ty : String} (L : List String) (hn : L.Nodup) :
    ∀ s s', SInv p s → L.foldlM (fun s t => startTrace s r t) s = some s' →
      SInv p s' ∧ (ty ∉ L → Untouched p r ty s s') ∧
      (ty ∈ L → ∀ c st, dget s.traces (r, ty) = some ⟨some c, none, st⟩ →
        ∃ hd, dget s'.traces (r, ty) = some ⟨some (c ++ [hd]), none, true⟩ ∧ dget s'.fs (p, r, ty) = some []) := by
  induction L with
  | nil =>
    intro s s' hs h
    simp [List.foldlM] at h; subst h
    exact ⟨hs, fun _ => Untouched.refl _ _ _ _, fun hm => by cases hm⟩
  | cons t L ih =>
    intro s s' hs h
    simp only [List.foldlM_cons] at h
    cases h1 : startTrace s r t with
    | none => rw [h1] at h; simp at h
    | some s1 =>
      rw [h1] at h
      simp only [Option.bind_eq_bind, Option.bind_some] at h
      have hs1 := startTrace_sinv hs h1
      have hn' := (List.nodup_cons.1 hn)
      obtain ⟨hs', hA, hB⟩ := ih hn'.2 s1 s' hs1 h
      refine ⟨hs', ?_, ?_⟩
      · intro hm
        have hne : (r, t) ≠ (r, ty) := by
          intro e; apply hm; rw [(Prod.mk.inj e).2]; exact List.mem_cons_self
        exact (startTrace_other hs hne h1).trans (hA (fun h' => hm (List.mem_cons_of_mem _ h')))
      · intro hm c st htr
        by_cases ht : t = ty
        · subst ht
          obtain ⟨hd, h2, h3⟩ := startTrace_self hs htr h1
          obtain ⟨u1, u2⟩ := hA hn'.1
          exact ⟨hd, u1.trans h2, u2.trans h3⟩
        · have hne : (r, t) ≠ (r, ty) := by intro e; exact ht (Prod.mk.inj e).2
          have hu := startTrace_other hs hne h1
          have hm' : ty ∈ L := by
            rcases List.mem_cons.1 hm with e | e
            · exact absurd e.symm ht
            · exact e
          exact hB hm' c st (hu.1.trans htr)

theorem typesOf_nodup (s : MState) (r : String) (hn : (s.traces.map (·.1)).Nodup) : (typesOf s r).Nodup := by
  unfold typesOf
  generalize s.traces = l at hn
  induction l with
  | nil => simp
  | cons e l ih =>
    simp only [List.map_cons, List.nodup_cons] at hn
    by_cases he : e.1.1 == r
    · simp only [List.filter_cons, he, if_true, List.map_cons, List.nodup_cons]
      refine ⟨?_, ih hn.2⟩
      intro hm
      obtain ⟨x, hx, hxe⟩ := List.mem_map.1 hm
      obtain ⟨hxl, hxr⟩ := List.mem_filter.1 hx
      apply hn.1
      have : x.1 = e.1 := by
        apply Prod.ext
        · rw [eq_of_beq hxr, eq_of_beq he]
        · exact hxe
      rw [← this]; exact List.mem_map.2 ⟨x, hxl, rfl⟩
    · simp only [List.filter_cons, he, Bool.false_eq_true, if_false]
      exact ih hn.2

theorem mem_typesOf (s : MState) (r t : String) : t ∈ typesOf s r ↔ dhas s.traces (r, t) = true := by
  unfold typesOf
  rw [dhas_iff_mem_keys]
  simp only [List.mem_map, List.mem_filter]
  constructor
  · rintro ⟨x, ⟨hx, hr⟩, rfl⟩
    exact ⟨x, hx, by apply Prod.ext; exact eq_of_beq hr; rfl⟩
  · rintro ⟨x, hx, hk⟩
    exact ⟨x, ⟨hx, by rw [hk]; simp⟩, by rw [hk]⟩

end Ft.C15

namespace Ft.C15

/-- row count of the distinguished file trace `(r, ty)` under prefix `p`: once `r` is registered the
    trace is started and file + cache hold the header and `h` rows; before, the cache is empty -/
def CntInv (p r ty : String) (h : Nat) (reg : Bool) (s : MState) : Prop :=
  ∃ c st lo, dget s.traces (r, ty) = some ⟨some c, none, st⟩ ∧ s.lineOrder = some lo ∧ dhas lo r = reg ∧
    (if reg = true then st = true ∧ (fileOf s p r ty).length + c.length = 1 + h else c = [] ∧ h = 0)

theorem inv_same {p r ty : String} {h : Nat} {reg : Bool} {s s' : MState}
    (h1 : s'.collecting = s.collecting) (h2 : s'.pfx = s.pfx) (h3 : s'.allRankMatches = s.allRankMatches)
    (h4 : s'.rankMatches = s.rankMatches) (h5 : s'.traces = s.traces) (h6 : s'.fs = s.fs)
    (h7 : s'.lineOrder = s.lineOrder) (hs : SInv p s) (hc : CntInv p r ty h reg s) :
    SInv p s' ∧ CntInv p r ty h reg s' := by
  refine ⟨⟨h1.trans hs.coll, h2.trans hs.pfx, h3.trans hs.arm, h4.trans hs.rm, by rw [h5]; exact hs.files,
    by rw [h5]; exact hs.nodup⟩, ?_⟩
  obtain ⟨c, st, lo, e1, e2, e3, e4⟩ := hc
  refine ⟨c, st, lo, by rw [h5]; exact e1, h7.trans e2, e3, ?_⟩
  simpa [fileOf, h6] using e4

theorem writeTrace_sinv {p : String} {s s' : MState} {r t : String} (hs : SInv p s)
    (h : writeTrace s r t = some s') : SInv p s' := by
  refine hs.of_core (writeTrace_core h) ?_
  obtain ⟨tr, q, f, htr, hp, hf, rfl⟩ := writeTrace_some h
  intro e he
  rcases mem_dset _ _ _ _ he with he | rfl
  · exact hs.files e he
  · exact ⟨(hs.entry htr).1, rfl⟩

theorem known_iff {p : String} {s : MState} (hs : SInv p s) {lo : Dict Nat} (hlo : s.lineOrder = some lo)
    (rank : String) : known s rank = dhas lo rank := by
  simp [known, hlo, hs.rm, dhas]

theorem startAll_inv {p r ty rank : String} {s1 s2 : MState} (h : startAll s1 rank = some s2) (hs1 : SInv p s1) :
    SInv p s2 ∧ (rank ≠ r → Untouched p r ty s1 s2) ∧
    (rank = r → ∀ c st, dget s1.traces (r, ty) = some ⟨some c, none, st⟩ →
      ∃ hd, dget s2.traces (r, ty) = some ⟨some (c ++ [hd]), none, true⟩ ∧ dget s2.fs (p, r, ty) = some []) := by
  unfold startAll at h
  by_cases hrr : rank = r
  · subst hrr
    obtain ⟨hs2inv, _, hB⟩ := startFold_self (p := p) (r := rank) (ty := ty) (typesOf s1 rank)
      (typesOf_nodup s1 rank hs1.nodup) s1 s2 hs1 h
    refine ⟨hs2inv, fun hne => absurd rfl hne, fun _ c st htr => ?_⟩
    have hmem : ty ∈ typesOf s1 rank := by rw [mem_typesOf, dhas_eq_isSome, htr]; rfl
    exact hB hmem c st htr
  · obtain ⟨hs2inv, hu⟩ := startFold_other (p := p) (r := r) (ty := ty) hrr (typesOf s1 rank) s1 s2 hs1 h
    exact ⟨hs2inv, fun _ => hu, fun e => absurd e hrr⟩

theorem mRegister_inv {p r ty : String} {h : Nat} {reg : Bool} {rank : String} {s s' : MState}
    (hs : SInv p s) (hc : CntInv p r ty h reg s) (hr : mRegister rank s = some s') :
    SInv p s' ∧ CntInv p r ty h (reg || rank == r) s' := by
  obtain ⟨c, st, lo0, e1, e2, e3, e4⟩ := hc
  unfold mRegister at hr
  split at hr
  · split at hr
    · rename_i lo it lp pt hlo hit hlp hpt
      rw [e2] at hlo; cases hlo
      split at hr
      · rename_i hd
        cases hr
        have : (reg || rank == r) = reg := by
          by_cases hrr : rank = r
          · subst hrr; rw [← e3, hd]; rfl
          · have : (rank == r) = false := by simpa using hrr
            rw [this]; simp
        rw [this]
        exact ⟨hs, c, st, lo0, e1, e2, e3, e4⟩
      · rename_i hd
        have hd' : dhas lo0 rank = false := by simpa using hd
        split at hr
        · cases hr
        · rename_i s2 hs2
          have hcore := startAll_core hs2
          have harm : s2.allRankMatches = [] := hcore.arm.trans hs.arm
          rw [harm] at hr
          simp [List.foldlM] at hr
          subst hr
          obtain ⟨hs2inv, hO, hS⟩ := startAll_inv (p := p) (r := r) (ty := ty) hs2
            ⟨hs.coll, hs.pfx, hs.arm, hs.rm, hs.files, hs.nodup⟩
          have hlo2 : s2.lineOrder = some (dset lo0 rank it.length) := hcore.lo
          by_cases hrr : rank = r
          · subst hrr
            have hreg : reg = false := by rw [← e3, hd']
            subst hreg
            simp only [Bool.false_eq_true, if_false] at e4
            obtain ⟨hc0, hh0⟩ := e4
            subst hc0; subst hh0
            obtain ⟨hd, g1, g2⟩ := hS rfl [] st e1
            refine ⟨hs2inv, [] ++ [hd], true, _, g1, hlo2, ?_, ?_⟩
            · rw [dhas_dset]; simp
            · simp [fileOf, g2]
          · have hb : (rank == r) = false := by simpa using hrr
            have hu := hO hrr
            refine ⟨hs2inv, c, st, _, hu.1.trans e1, hlo2, ?_, ?_⟩
            · rw [dhas_dset, e3]
              have : (r == rank) = false := by simpa using (Ne.symm hrr)
              simp [this, hb]
            · rw [hb, Bool.or_false]
              have hfs : dget s2.fs (p, r, ty) = dget s.fs (p, r, ty) := hu.2
              simpa [fileOf, hfs] using e4
    · cases hr
  · cases hr

theorem nUse_single (r ty : String) (op : MOp) :
    nUse r ty [op] = match op with
      | .addUse r' _ _ t' _ => if r' == r && t' == ty then 1 else 0
      | _ => 0 := by
  cases op <;> simp [nUse, List.countP_cons]

theorem nUse_cons (r ty : String) (op : MOp) (ops : List MOp) :
    nUse r ty (op :: ops) = nUse r ty [op] + nUse r ty ops := by
  simp only [nUse, List.countP_cons, List.countP_nil]; omega

theorem nUse_append (r ty : String) (a b : List MOp) : nUse r ty (a ++ b) = nUse r ty a + nUse r ty b := by
  simp [nUse, List.countP_append]

theorem sinv_set {p : String} {s1 : MState} (hs1 : SInv p s1) {k : TKey} {tr tr' : TraceSt}
    (htr : dget s1.traces k = some tr) (hm : tr'.mem = none) (hf : tr'.file.isSome = true) :
    SInv p { s1 with traces := dset s1.traces k tr' } := by
  refine ⟨hs1.coll, hs1.pfx, hs1.arm, hs1.rm, ?_, ?_⟩
  · intro e he
    rcases mem_dset _ _ _ _ he with he | rfl
    · exact hs1.files e he
    · exact ⟨hm, hf⟩
  · show ((dset s1.traces k tr').map (·.1)).Nodup
    rw [keys_dset_has _ _ _ (by rw [dhas_eq_isSome, htr]; rfl)]
    exact hs1.nodup

theorem pushRow_inv {p r ty : String} {h : Nat} {reg : Bool} {rank t : String} {tr : TraceSt} {data : Row}
    {s1 s' : MState} (hrec : pushRow s1 rank t tr data = some s') (hs1 : SInv p s1)
    (hc1 : CntInv p r ty h reg s1) (htr : dget s1.traces (rank, t) = some tr)
    (hreg : (rank, t) = (r, ty) → reg = true) :
    SInv p s' ∧ CntInv p r ty (h + (if rank == r && t == ty then 1 else 0)) reg s' := by
  obtain ⟨c, st, lo0, e1, e2, e3, e4⟩ := hc1
  obtain ⟨hm, hf⟩ := hs1.entry htr
  cases hfile : tr.file with
  | none => rw [hfile] at hf; cases hf
  | some f =>
    unfold pushRow at hrec
    rw [hfile] at hrec
    simp only at hrec
    have hs2 := sinv_set (tr' := { tr with file := some (f ++ [data]), mem := tr.mem.map (· ++ [data]) })
      hs1 htr (by simp [hm]) rfl
    by_cases hkey : (rank, t) = (r, ty)
    · obtain ⟨rfl, rfl⟩ := Prod.mk.inj hkey
      have hregT := hreg rfl
      subst hregT
      simp only [if_true] at e4
      obtain ⟨hst, hlen⟩ := e4
      simp only [beq_self_eq_true, Bool.and_self, if_true]
      rw [e1] at htr
      cases htr
      simp only [Option.some.injEq] at hfile
      subst hfile
      split at hrec
      · obtain ⟨tr2, q, f2, g1, g2, g3, rfl⟩ := writeTrace_some hrec
        simp only [dget_dset_self, Option.some.injEq] at g1
        subst g1
        simp only [Option.some.injEq] at g3
        subst g3
        have hq : q = p := by
          have : s1.pfx = some p := hs1.pfx
          simp only at g2
          rw [this] at g2; exact (Option.some.inj g2).symm
        subst hq
        refine ⟨writeTrace_sinv hs2 hrec, [], true, lo0, by simp [dget_dset_self], e2, e3, ?_⟩
        simp only [if_true, fileOf, dget_dset_self, Option.getD_some, List.length_append, List.length_nil,
          List.length_cons, true_and]
        simp only [fileOf] at hlen
        omega
      · cases hrec
        refine ⟨hs2, c ++ [data], st, lo0, by simp [dget_dset_self], e2, e3, ?_⟩
        simp only [if_true, fileOf, List.length_append, List.length_cons, List.length_nil]
        simp only [fileOf] at hlen
        exact ⟨hst, by omega⟩
    · have hz : (if rank == r && t == ty then 1 else 0) = 0 := by
        by_cases h1 : rank = r
        · by_cases h2 : t = ty
          · exact absurd (by rw [h1, h2]) hkey
          · have : (t == ty) = false := by simpa using h2
            simp [this]
        · have : (rank == r) = false := by simpa using h1
          simp [this]
      rw [hz, Nat.add_zero]
      have hkey' : (r, ty) ≠ (rank, t) := fun e => hkey e.symm
      split at hrec
      · obtain ⟨tr2, q, f2', g1, g2, g3, rfl⟩ := writeTrace_some hrec
        have hq : q = p := by
          have : s1.pfx = some p := hs1.pfx
          simp only at g2
          rw [this] at g2; exact (Option.some.inj g2).symm
        subst hq
        refine ⟨writeTrace_sinv hs2 hrec, c, st, lo0, ?_, e2, e3, ?_⟩
        · simp only
          rw [dget_dset_ne _ _ hkey', dget_dset_ne _ _ hkey']; exact e1
        · simp only [fileOf] at e4 ⊢
          rw [dget_dset_ne _ _ (pair_ne q hkey)]; exact e4
      · cases hrec
        refine ⟨hs2, c, st, lo0, ?_, e2, e3, ?_⟩
        · simp only
          rw [dget_dset_ne _ _ hkey']; exact e1
        · simpa [fileOf] using e4

theorem recordUse_inv {p r ty : String} {h : Nat} {reg : Bool} {rank t : String} {pt : List Int} {i : Nat}
    {co pos : Int} {itn : Option (List Int)} {s1 s' : MState}
    (hrec : recordUse s1 rank t pt i co pos itn = some s') (hs1 : SInv p s1)
    (hc1 : CntInv p r ty h reg s1) (hreg : (rank, t) = (r, ty) → reg = true) :
    SInv p s' ∧ CntInv p r ty (h + (if rank == r && t == ty then 1 else 0)) reg s' := by
  unfold recordUse at hrec
  split at hrec
  · rename_i hnone
    cases hrec
    have hz : (if rank == r && t == ty then 1 else 0) = 0 := by
      by_cases hkey : (rank, t) = (r, ty)
      · obtain ⟨c, st, lo0, e1, _⟩ := hc1
        rw [hkey, e1] at hnone; cases hnone
      · by_cases h1 : rank = r
        · by_cases h2 : t = ty
          · exact absurd (by rw [h1, h2]) hkey
          · have : (t == ty) = false := by simpa using h2
            simp [this]
        · have : (rank == r) = false := by simpa using h1
          simp [this]
    rw [hz, Nat.add_zero]
    exact ⟨hs1, hc1⟩
  · rename_i tr htr
    split at hrec
    · cases hrec
    · exact pushRow_inv hrec hs1 hc1 htr hreg

theorem mAddUse_inv {p r ty : String} {h : Nat} {reg : Bool} {rank t : String} {co pos : Int}
    {itn : Option (List Int)} {s s' : MState}
    (hs : SInv p s) (hc : CntInv p r ty h reg s) (hr : mAddUse rank co pos t itn s = some s') :
    SInv p s' ∧ CntInv p r ty (h + (if rank == r && t == ty then 1 else 0)) reg s' := by
  obtain ⟨lo, pt, i, hcoll, hknown, hlo, hpt, hi, hrec⟩ := mAddUse_some hr
  obtain ⟨c, st, lo0, e1, e2, e3, e4⟩ := hc
  have hreg : (rank, t) = (r, ty) → reg = true := by
    intro e
    rw [← e3, ← known_iff hs e2, ← (Prod.mk.inj e).1]; exact hknown
  exact recordUse_inv hrec ⟨hs.coll, hs.pfx, hs.arm, hs.rm, hs.files, hs.nodup⟩
    ⟨c, st, lo0, e1, e2, e3, by simpa [fileOf] using e4⟩ hreg

end Ft.C15
