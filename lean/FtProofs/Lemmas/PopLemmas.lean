/-
  Helper lemmas for C05 (populate): the loop as coded equals the declarative merge.
-/
import FtProofs.Lemmas.PointLemmas
import FtModel.Populate
set_option linter.unusedSectionVars false
set_option linter.unusedSimpArgs false
namespace Ft
open StrictTotal

section
variable {κ π β : Type} [LT κ] [DecidableRel (α := κ) (· < ·)] [DecidableEq κ] [StrictTotal κ]

theorem lowerBound_append_lt {l₁ l₂ : Fib κ π} {c : κ} (h : ∀ x ∈ l₁, x.1 < c) :
    lowerBound (l₁ ++ l₂) c = l₁.length + lowerBound l₂ c := by
  induction l₁ with
  | nil => simp
  | cons e r ih =>
    rw [List.cons_append, lowerBound_cons]
    simp only [h e (List.mem_cons_self ..), if_true, List.length_cons]
    rw [ih (fun x hx => h x (List.mem_cons_of_mem _ hx))]; omega

theorem lowerBound_zero_of_ge {S : Fib κ π} {c : κ} (h : ∀ x ∈ S, ¬ x.1 < c) : lowerBound S c = 0 := by
  cases S with
  | nil => rfl
  | cons e r => rw [lowerBound_cons]; simp [h e (List.mem_cons_self ..)]

theorem lookup_append_of_ne {l₁ l₂ : Fib κ π} {c : κ} (h : ∀ x ∈ l₁, x.1 ≠ c) :
    lookup (l₁ ++ l₂) c = lookup l₂ c := by
  induction l₁ with
  | nil => rfl
  | cons e r ih =>
    rw [List.cons_append, lookup_cons_ne (h e (List.mem_cons_self ..))]
    exact ih (fun x hx => h x (List.mem_cons_of_mem _ hx))

/-- the search of one iteration lands on the lower bound, whatever shortcut it takes -/
theorem popSearch_eq (pre suf : Fib κ π) (bc : κ) (hs : Sorted (pre ++ suf))
    (hpre : ∀ x ∈ pre, x.1 < bc) :
    popSearch (pre ++ suf) pre.length bc =
      (pre.length + lowerBound suf bc, pre.length + lowerBound suf bc) := by
  have hlb : lowerBound (pre ++ suf) bc = pre.length + lowerBound suf bc := lowerBound_append_lt hpre
  have htake : ∀ x ∈ (pre ++ suf).take (pre.length + lowerBound suf bc), x.1 < bc := by
    intro x hx
    rw [← hlb] at hx
    exact lowerBound_take_lt _ bc x hx
  unfold popSearch
  by_cases he : (pre ++ suf).isEmpty = true
  · have : pre ++ suf = [] := by simpa using he
    have hp : pre = [] := (List.append_eq_nil_iff.1 this).1
    have hq : suf = [] := (List.append_eq_nil_iff.1 this).2
    subst hp hq
    simp [lowerBound]
  · simp only [he, Bool.false_eq_true, if_false, List.drop_left]
    have legal : ∀ sp, (sp = pre.length + lowerBound suf bc ∧ ∃ e, (pre ++ suf)[sp]? = some e ∧ e.1 = bc) ∨
        (sp + 1 = pre.length + lowerBound suf bc) → coord2posFrom (pre ++ suf) sp bc = pre.length + lowerBound suf bc := by
      intro sp hsp
      rw [coord2posFrom_eq hs sp bc, hlb]
      unfold legalStart
      rcases hsp with ⟨_, e, he1, he2⟩ | hsp
      · rw [he1]; simp [he2, irrefl]
      · have hlt : sp < (pre ++ suf).length := by
          have := lowerBound_le (pre ++ suf) bc
          rw [hlb] at this; omega
        have hget : (pre ++ suf)[sp]? = some (pre ++ suf)[sp] := List.getElem?_eq_getElem hlt
        rw [hget]
        have hmem : (pre ++ suf)[sp] ∈ (pre ++ suf).take (pre.length + lowerBound suf bc) := by
          rw [← hsp, List.mem_take_iff_getElem]
          exact ⟨sp, by omega, rfl⟩
        simp [lt_asymm' (htake _ hmem)]
    cases hz : (pre ++ suf)[pre.length + lowerBound suf bc]? with
    | none =>
      by_cases h0 : pre.length + lowerBound suf bc = 0
      · simp [h0, hlb]
      · simp only [h0, if_false]
        rw [legal _ (Or.inr (by omega))]
    | some e =>
      by_cases hb : e.1 = bc
      · simp only [hb, if_true]
        rw [legal _ (Or.inl ⟨rfl, e, hz, hb⟩)]
      · by_cases h0 : pre.length + lowerBound suf bc = 0
        · simp [hb, h0, hlb]
        · simp only [hb, h0, if_false]
          rw [legal _ (Or.inr (by omega))]

end
end Ft

namespace Ft
open StrictTotal
section
variable {κ π β : Type} [LT κ] [DecidableRel (α := κ) (· < ·)] [DecidableEq κ] [StrictTotal κ]
variable (mk : π) (rm : Bool → π → Bool) (body : κ → π → β → π)

theorem popSpec_nil_right (z : Fib κ π) : popSpec mk rm body z ([] : Fib κ β) = z := by
  cases z <;> simp [popSpec]

/-- destination elements below the next source coordinate are passed through unchanged -/
theorem popSpec_skip (A S : Fib κ π) (bc : κ) (bp : β) (rb : Fib κ β) (h : ∀ x ∈ A, x.1 < bc) :
    popSpec mk rm body (A ++ S) ((bc, bp) :: rb) = A ++ popSpec mk rm body S ((bc, bp) :: rb) := by
  induction A with
  | nil => rfl
  | cons e r ih =>
    obtain ⟨zc, zp⟩ := e
    rw [List.cons_append, popSpec]
    have : zc < bc := h (zc, zp) (List.mem_cons_self ..)
    simp only [this, if_true, List.cons_append]
    rw [ih (fun x hx => h x (List.mem_cons_of_mem _ hx))]

/-- the step of the declarative merge once the skipped prefix is gone -/
theorem popSpec_head (S : Fib κ π) (bc : κ) (bp : β) (rb : Fib κ β) (h : ∀ x ∈ S, ¬ x.1 < bc) :
    popSpec mk rm body S ((bc, bp) :: rb) =
      match S with
      | (sc, sp) :: S' => if sc = bc then popKeep rm false bc (body bc sp bp) ++ popSpec mk rm body S' rb
                          else popKeep rm true bc (body bc mk bp) ++ popSpec mk rm body S rb
      | [] => popKeep rm true bc (body bc mk bp) ++ popSpec mk rm body [] rb := by
  cases S with
  | nil => rw [popSpec]
  | cons e S' =>
    obtain ⟨sc, sp⟩ := e
    rw [popSpec]
    simp [h (sc, sp) (List.mem_cons_self ..)]

theorem popLoop_nil (z : Fib κ π) (apos : Nat) :
    popLoop mk rm body z apos ([] : Fib κ β) = (z, []) := by
  simp [popLoop]

end
end Ft

namespace Ft
open StrictTotal
section
variable {α : Type}
theorem set_append_len (P : List α) (e x : α) (S : List α) :
    (P ++ e :: S).set P.length x = P ++ x :: S := by
  induction P with
  | nil => rfl
  | cons a r ih => simp [ih]

theorem eraseIdx_append_len (P : List α) (e : α) (S : List α) :
    (P ++ e :: S).eraseIdx P.length = P ++ S := by
  induction P with
  | nil => rfl
  | cons a r ih => simp [ih]

theorem getElem?_append_len (P S : List α) : (P ++ S)[P.length]? = S[0]? := by
  rw [List.getElem?_append_right (Nat.le_refl _)]; simp

theorem take_append_len (P S : List α) : (P ++ S).take P.length = P := by
  induction P with
  | nil => simp
  | cons a r ih => simp [ih]

theorem drop_append_len (P S : List α) : (P ++ S).drop P.length = S := by
  induction P with
  | nil => simp
  | cons a r ih => simp [ih]
end

section
variable {κ π β : Type} [LT κ] [DecidableRel (α := κ) (· < ·)] [DecidableEq κ] [StrictTotal κ]
variable (mk : π) (rm : Bool → π → Bool) (body : κ → π → β → π)

theorem Sorted.of_append_right {l₁ l₂ : Fib κ π} (h : Sorted (l₁ ++ l₂)) : Sorted l₂ := by
  unfold Sorted at *; exact (List.pairwise_append.1 h).2.1

theorem Sorted.of_append_left {l₁ l₂ : Fib κ π} (h : Sorted (l₁ ++ l₂)) : Sorted l₁ := by
  unfold Sorted at *; exact (List.pairwise_append.1 h).1

theorem Sorted.append_lt {l₁ l₂ : Fib κ π} (h : Sorted (l₁ ++ l₂)) :
    ∀ x ∈ l₁, ∀ y ∈ l₂, x.1 < y.1 := by
  unfold Sorted at *; exact (List.pairwise_append.1 h).2.2

theorem lowerBound_len_of_split {P S : Fib κ π} {c : κ} (hP : ∀ x ∈ P, x.1 < c) (hS : ∀ x ∈ S, ¬ x.1 < c) :
    lowerBound (P ++ S) c = P.length := by
  rw [lowerBound_append_lt hP, lowerBound_zero_of_ge hS]; rfl

theorem lookup_eq_none_of_ne {f : Fib κ π} {c : κ} (h : ∀ x ∈ f, x.1 ≠ c) : lookup f c = none := by
  have := lookup_append_of_ne (l₁ := f) (l₂ := []) h
  rwa [List.append_nil] at this

theorem popYields_congr {z z' : Fib κ π} {b : Fib κ β} (h : ∀ e ∈ b, lookup z e.1 = lookup z' e.1) :
    popYields mk z b = popYields mk z' b := by
  unfold popYields
  apply List.map_congr_left
  intro e he; rw [h e he]

/-- **the loop invariant**: with the first `pre.length` elements all below every remaining
    source coordinate, the loop as coded rewrites the suffix exactly as the declarative merge -/
theorem popLoop_inv : ∀ (b : Fib κ β) (pre suf : Fib κ π),
    Sorted (pre ++ suf) → Sorted b → (∀ x ∈ pre, ∀ y ∈ b, x.1 < y.1) →
    popLoop mk rm body (pre ++ suf) pre.length b =
      (pre ++ popSpec mk rm body suf b, popYields mk suf b)
  | [], pre, suf, _, _, _ => by rw [popLoop_nil, popSpec_nil_right]; rfl
  | (bc, bp) :: rest, pre, suf, hs, hb, hlt => by
    have hpre : ∀ x ∈ pre, x.1 < bc := fun x hx => hlt x hx (bc, bp) (List.mem_cons_self ..)
    have hrest : ∀ y ∈ rest, bc < y.1 := fun y hy => hb.head_lt y hy
    have hsuf : Sorted suf := hs.of_append_right
    obtain ⟨A, S, hsplit, hk, hA, hS⟩ : ∃ A S : Fib κ π, suf = A ++ S ∧ lowerBound suf bc = A.length ∧
        (∀ x ∈ A, x.1 < bc) ∧ (∀ x ∈ S, ¬ x.1 < bc) := by
      refine ⟨suf.take (lowerBound suf bc), suf.drop (lowerBound suf bc), (List.take_append_drop _ _).symm, ?_,
        lowerBound_take_lt suf bc, lowerBound_drop_ge hsuf bc⟩
      rw [List.length_take]; have := lowerBound_le suf bc; omega
    have hP : ∀ x ∈ pre ++ A, x.1 < bc := by
      intro x hx; rcases List.mem_append.1 hx with h | h
      · exact hpre x h
      · exact hA x h
    have hN : pre.length + lowerBound suf bc = (pre ++ A).length := by rw [hk, List.length_append]
    have hZ : pre ++ suf = (pre ++ A) ++ S := by rw [hsplit, List.append_assoc]
    have hsZ : Sorted ((pre ++ A) ++ S) := hZ ▸ hs
    have hPrest : ∀ x ∈ pre ++ A, ∀ y ∈ rest, x.1 < y.1 := fun x hx y hy => trans (hP x hx) (hrest y hy)
    -- the declarative side
    have hspec : popSpec mk rm body suf ((bc, bp) :: rest) = A ++ popSpec mk rm body S ((bc, bp) :: rest) := by
      rw [hsplit]; exact popSpec_skip mk rm body A S bc bp rest hA
    rw [hspec, popSpec_head mk rm body S bc bp rest hS]
    -- unfold one iteration of the loop
    rw [popLoop]
    simp only [popSearch_eq pre suf bc hs hpre]
    rw [hN, hZ, getElem?_append_len]
    cases S with
    | nil =>
      -- nothing at or above bc: a new element is created at the end
      have hsufA : suf = A := by rw [hsplit, List.append_nil]
      have hnone : lookup suf bc = none := by
        rw [hsufA]; exact lookup_eq_none_of_ne (fun x hx => lt_ne (hA x hx))
      have hy : popYields mk suf rest = popYields mk ([] : Fib κ π) rest := by
        apply popYields_congr
        intro e he
        rw [hsufA, lookup_eq_none_of_ne (fun x hx => lt_ne (trans (hA x hx) (hrest e he)))]; rfl
      simp only [List.getElem?_nil, Option.isNone_none, Option.getD_none, if_true, List.append_nil,
        List.take_length, List.drop_length]
      have hlb : lowerBound (pre ++ A ++ [(bc, body bc mk bp)]) bc = (pre ++ A).length :=
        lowerBound_len_of_split hP (fun x hx => by
          rw [List.mem_singleton.1 hx]; exact irrefl bc)
      by_cases hr : rm true (body bc mk bp) = true
      · simp only [hr, if_true, hlb]
        have e1 : (pre ++ A ++ [(bc, body bc mk bp)]).eraseIdx (pre ++ A).length = (pre ++ A) ++ [] :=
          eraseIdx_append_len (pre ++ A) _ []
        rw [e1, popLoop_inv rest (pre ++ A) [] (by simpa using hsZ) hb.tail hPrest]
        simp only [popKeep, hr, if_true, List.nil_append, popYields, List.map_cons, hnone, Option.getD_none]
        rw [List.append_assoc]
        congr 2
        exact hy.symm
      · simp only [hr, Bool.false_eq_true, if_false]
        have e2 : (pre ++ A ++ [(bc, body bc mk bp)]).length = (pre ++ A).length + 1 := by
          simp only [List.length_append, List.length_cons, List.length_nil]
        have hs2 : Sorted ((pre ++ A ++ [(bc, body bc mk bp)]) ++ []) := by
          rw [List.append_nil]
          exact sorted_append (by simpa using hsZ) (sorted_cons.2 ⟨(fun _ h => by cases h), sorted_nil⟩)
            (fun x hx y hy => by rw [List.mem_singleton.1 hy]; exact hP x hx)
        have hlt2 : ∀ x ∈ pre ++ A ++ [(bc, body bc mk bp)], ∀ y ∈ rest, x.1 < y.1 := by
          intro x hx y hy
          rcases List.mem_append.1 hx with h | h
          · exact hPrest x h y hy
          · rw [List.mem_singleton.1 h]; exact hrest y hy
        have ih := popLoop_inv rest (pre ++ A ++ [(bc, body bc mk bp)]) [] hs2 hb.tail hlt2
        rw [List.append_nil, e2] at ih
        rw [ih]
        simp only [popKeep, hr, Bool.false_eq_true, if_false, popYields, List.map_cons, hnone, Option.getD_none]
        simp only [List.append_assoc, List.cons_append, List.nil_append]
        congr 2
        exact hy.symm
    | cons e S' =>
      obtain ⟨sc, sp⟩ := e
      have hSs : Sorted ((sc, sp) :: S') := by
        have : Sorted (A ++ (sc, sp) :: S') := hsplit ▸ hsuf
        exact this.of_append_right
      have hPs : Sorted (pre ++ A) := hsZ.of_append_left
      have hPS' : ∀ x ∈ pre ++ A, ∀ y ∈ S', x.1 < y.1 :=
        fun x hx y hy => hsZ.append_lt x hx y (List.mem_cons_of_mem _ hy)
      have hAne : ∀ c, bc = c ∨ bc < c → ∀ x ∈ A, x.1 ≠ c := by
        intro c hc x hx
        rcases hc with rfl | hc
        · exact lt_ne (hA x hx)
        · exact lt_ne (trans (hA x hx) hc)
      simp only [List.getElem?_cons_zero]
      by_cases hcb : sc = bc
      · -- the coordinate exists in the destination
        subst hcb
        have hS'gt : ∀ y ∈ S', sc < y.1 := hSs.head_lt
        have hlook : lookup suf sc = some sp := by
          rw [hsplit, lookup_append_of_ne (hAne sc (Or.inl rfl)), lookup_cons]; simp
        have hy : popYields mk suf rest = popYields mk S' rest := by
          apply popYields_congr
          intro e he
          rw [hsplit, lookup_append_of_ne (hAne e.1 (Or.inr (hrest e he))),
            lookup_cons_ne (lt_ne (hrest e he))]
        simp only [if_true, Option.isNone_some, Option.getD_some, Bool.false_eq_true, if_false,
          set_append_len]
        have hlb : lowerBound (pre ++ A ++ (sc, body sc sp bp) :: S') sc = (pre ++ A).length :=
          lowerBound_len_of_split hP (fun x hx => by
            rcases List.mem_cons.1 hx with rfl | hx
            · exact irrefl sc
            · exact lt_asymm' (hS'gt x hx))
        by_cases hr : rm false (body sc sp bp) = true
        · simp only [hr, if_true, hlb, eraseIdx_append_len]
          rw [popLoop_inv rest (pre ++ A) S' (sorted_append hPs hSs.tail hPS') hb.tail hPrest]
          simp only [popKeep, hr, if_true, List.nil_append, popYields, List.map_cons, hlook, Option.getD_some]
          rw [List.append_assoc]
          congr 2
          exact hy.symm
        · simp only [hr, Bool.false_eq_true, if_false]
          have e2 : (pre ++ A ++ [(sc, body sc sp bp)]).length = (pre ++ A).length + 1 := by
            simp only [List.length_append, List.length_cons, List.length_nil]
          have hs2 : Sorted ((pre ++ A ++ [(sc, body sc sp bp)]) ++ S') := by
            rw [List.append_assoc]
            exact sorted_append hPs (sorted_cons.2 ⟨hS'gt, hSs.tail⟩) (fun x hx y hy => by
              rcases List.mem_cons.1 hy with rfl | hy
              · exact hP x hx
              · exact hPS' x hx y hy)
          have hlt2 : ∀ x ∈ pre ++ A ++ [(sc, body sc sp bp)], ∀ y ∈ rest, x.1 < y.1 := by
            intro x hx y hy
            rcases List.mem_append.1 hx with h | h
            · exact hPrest x h y hy
            · rw [List.mem_singleton.1 h]; exact hrest y hy
          have ih := popLoop_inv rest (pre ++ A ++ [(sc, body sc sp bp)]) S' hs2 hb.tail hlt2
          rw [e2] at ih
          have e3 : pre ++ A ++ (sc, body sc sp bp) :: S' = (pre ++ A ++ [(sc, body sc sp bp)]) ++ S' := by
            simp only [List.append_assoc, List.cons_append, List.nil_append]
          rw [e3, ih]
          simp only [popKeep, hr, Bool.false_eq_true, if_false, popYields, List.map_cons, hlook, Option.getD_some]
          simp only [List.append_assoc, List.cons_append, List.nil_append]
          congr 2
          exact hy.symm
      · -- the coordinate is missing: a new element is created at a_pos
        have hgt : bc < sc := gt_of_not_lt_ne hcb (hS (sc, sp) (List.mem_cons_self ..))
        have hSgt : ∀ y ∈ (sc, sp) :: S', bc < y.1 := by
          intro y hy
          rcases List.mem_cons.1 hy with rfl | hy
          · exact hgt
          · exact trans hgt (hSs.head_lt y hy)
        have hnone : lookup suf bc = none := by
          rw [hsplit, lookup_append_of_ne (hAne bc (Or.inl rfl))]
          exact lookup_eq_none_of_lt hSgt
        have hy : popYields mk suf rest = popYields mk ((sc, sp) :: S') rest := by
          apply popYields_congr
          intro e he
          rw [hsplit, lookup_append_of_ne (hAne e.1 (Or.inr (hrest e he)))]
        simp only [hcb, if_false, Option.isNone_none, Option.getD_none, if_true, take_append_len, drop_append_len]
        have hlb : lowerBound (pre ++ A ++ (bc, body bc mk bp) :: (sc, sp) :: S') bc = (pre ++ A).length :=
          lowerBound_len_of_split hP (fun x hx => by
            rcases List.mem_cons.1 hx with rfl | hx
            · exact irrefl bc
            · exact lt_asymm' (hSgt x hx))
        by_cases hr : rm true (body bc mk bp) = true
        · simp only [hr, if_true, hlb, eraseIdx_append_len]
          rw [popLoop_inv rest (pre ++ A) ((sc, sp) :: S') hsZ hb.tail hPrest]
          simp only [popKeep, hr, if_true, List.nil_append, popYields, List.map_cons, hnone, Option.getD_none]
          rw [List.append_assoc]
          congr 2
          exact hy.symm
        · simp only [hr, Bool.false_eq_true, if_false]
          have e2 : (pre ++ A ++ [(bc, body bc mk bp)]).length = (pre ++ A).length + 1 := by
            simp only [List.length_append, List.length_cons, List.length_nil]
          have hs2 : Sorted ((pre ++ A ++ [(bc, body bc mk bp)]) ++ (sc, sp) :: S') := by
            rw [List.append_assoc]
            exact sorted_append hPs (sorted_cons.2 ⟨hSgt, hSs⟩) (fun x hx y hy => by
              rcases List.mem_cons.1 hy with rfl | hy
              · exact hP x hx
              · exact hsZ.append_lt x hx y hy)
          have hlt2 : ∀ x ∈ pre ++ A ++ [(bc, body bc mk bp)], ∀ y ∈ rest, x.1 < y.1 := by
            intro x hx y hy
            rcases List.mem_append.1 hx with h | h
            · exact hPrest x h y hy
            · rw [List.mem_singleton.1 h]; exact hrest y hy
          have ih := popLoop_inv rest (pre ++ A ++ [(bc, body bc mk bp)]) ((sc, sp) :: S') hs2 hb.tail hlt2
          rw [e2] at ih
          have e3 : pre ++ A ++ (bc, body bc mk bp) :: (sc, sp) :: S' =
              (pre ++ A ++ [(bc, body bc mk bp)]) ++ (sc, sp) :: S' := by
            simp only [List.append_assoc, List.cons_append, List.nil_append]
          rw [e3, ih]
          simp only [popKeep, hr, Bool.false_eq_true, if_false, popYields, List.map_cons, hnone, Option.getD_none]
          simp only [List.append_assoc, List.cons_append, List.nil_append]
          congr 2
          exact hy.symm
end
end Ft

namespace Ft
open StrictTotal
section
variable {κ π β : Type} [LT κ] [DecidableRel (α := κ) (· < ·)] [DecidableEq κ] [StrictTotal κ]
variable (mk : π) (rm : Bool → π → Bool) (body : κ → π → β → π)

theorem hasKey_popKeep {new : Bool} {c c' : κ} {nv : π} (h : HasKey (popKeep rm new c nv) c') : c = c' := by
  unfold popKeep at h
  by_cases hr : rm new nv = true
  · simp only [hr, if_true] at h; exact absurd h (not_hasKey_nil _)
  · simp only [hr, Bool.false_eq_true, if_false] at h
    obtain ⟨x, hx, rfl⟩ := h
    rw [List.mem_singleton.1 hx]

theorem hasKey_append {l₁ l₂ : Fib κ π} {c : κ} : HasKey (l₁ ++ l₂) c ↔ HasKey l₁ c ∨ HasKey l₂ c := by
  unfold HasKey
  constructor
  · rintro ⟨x, hx, rfl⟩
    rcases List.mem_append.1 hx with h | h
    · exact Or.inl ⟨x, h, rfl⟩
    · exact Or.inr ⟨x, h, rfl⟩
  · rintro (⟨x, hx, rfl⟩ | ⟨x, hx, rfl⟩)
    · exact ⟨x, List.mem_append_left _ hx, rfl⟩
    · exact ⟨x, List.mem_append_right _ hx, rfl⟩

/-- populate creates no coordinate out of thin air -/
theorem popSpec_keys (z : Fib κ π) (b : Fib κ β) (c : κ) :
    HasKey (popSpec mk rm body z b) c → HasKey z c ∨ HasKey b c := by
  fun_induction popSpec mk rm body z b with
  | case1 z => intro h; exact Or.inl h
  | case2 bc bp rb ih =>
    intro h
    rcases hasKey_append.1 h with h | h
    · exact Or.inr (hasKey_cons.2 (Or.inl (hasKey_popKeep rm h)))
    · rcases ih h with h | h
      · exact Or.inl h
      · exact Or.inr (hasKey_cons.2 (Or.inr h))
  | case3 zc zp rz bc bp rb hlt ih =>
    intro h
    rcases hasKey_cons.1 h with h | h
    · exact Or.inl (hasKey_cons.2 (Or.inl h))
    · rcases ih h with h | h
      · exact Or.inl (hasKey_cons.2 (Or.inr h))
      · exact Or.inr h
  | case4 zp rz bc bp rb hlt ih =>
    intro h
    rcases hasKey_append.1 h with h | h
    · exact Or.inr (hasKey_cons.2 (Or.inl (hasKey_popKeep rm h)))
    · rcases ih h with h | h
      · exact Or.inl (hasKey_cons.2 (Or.inr h))
      · exact Or.inr (hasKey_cons.2 (Or.inr h))
  | case5 zc zp rz bc bp rb hnlt hne ih =>
    intro h
    rcases hasKey_append.1 h with h | h
    · exact Or.inr (hasKey_cons.2 (Or.inl (hasKey_popKeep rm h)))
    · rcases ih h with h | h
      · exact Or.inl h
      · exact Or.inr (hasKey_cons.2 (Or.inr h))

theorem sorted_popKeep_append {new : Bool} {c : κ} {nv : π} {X : Fib κ π} (hX : Sorted X)
    (h : ∀ c', HasKey X c' → c < c') : Sorted (popKeep rm new c nv ++ X) := by
  unfold popKeep
  by_cases hr : rm new nv = true
  · simpa [hr] using hX
  · simp only [hr, Bool.false_eq_true, if_false, List.cons_append, List.nil_append]
    exact sorted_cons_of_keys hX h

/-- the destination stays sorted -/
theorem popSpec_sorted (z : Fib κ π) (b : Fib κ β) (hz : Sorted z) (hb : Sorted b) :
    Sorted (popSpec mk rm body z b) := by
  fun_induction popSpec mk rm body z b with
  | case1 z => exact hz
  | case2 bc bp rb ih =>
    apply sorted_popKeep_append rm (ih sorted_nil hb.tail)
    intro c' hc'
    rcases popSpec_keys mk rm body _ _ c' hc' with h | h
    · exact absurd h (not_hasKey_nil _)
    · exact hb.lt_of_hasKey h
  | case3 zc zp rz bc bp rb hlt ih =>
    apply sorted_cons_of_keys (ih hz.tail hb)
    intro c' hc'
    rcases popSpec_keys mk rm body _ _ c' hc' with h | h
    · exact hz.lt_of_hasKey h
    · exact hb.lt_of_hasKey_cons hlt h
  | case4 zp rz bc bp rb hlt ih =>
    apply sorted_popKeep_append rm (ih hz.tail hb.tail)
    intro c' hc'
    rcases popSpec_keys mk rm body _ _ c' hc' with h | h
    · exact hz.lt_of_hasKey h
    · exact hb.lt_of_hasKey h
  | case5 zc zp rz bc bp rb hnlt hne ih =>
    have hgt : bc < zc := gt_of_not_lt_ne hne hnlt
    apply sorted_popKeep_append rm (ih hz hb.tail)
    intro c' hc'
    rcases popSpec_keys mk rm body _ _ c' hc' with h | h
    · exact hz.lt_of_hasKey_cons hgt h
    · exact hb.lt_of_hasKey h

theorem lookup_popKeep_append_ne {new : Bool} {c c' : κ} {nv : π} {X : Fib κ π} (h : c ≠ c') :
    lookup (popKeep rm new c nv ++ X) c' = lookup X c' := by
  unfold popKeep
  by_cases hr : rm new nv = true
  · simp [hr]
  · simp only [hr, Bool.false_eq_true, if_false, List.cons_append, List.nil_append]
    exact lookup_cons_ne h

theorem lookup_popKeep_append_eq {new : Bool} {c : κ} {nv : π} {X : Fib κ π} (h : ¬ HasKey X c) :
    lookup (popKeep rm new c nv ++ X) c = if rm new nv then none else some nv := by
  unfold popKeep
  by_cases hr : rm new nv = true
  · simp only [hr, if_true, List.nil_append]; exact lookup_none_of_not_hasKey h
  · simp only [hr, Bool.false_eq_true, if_false, List.cons_append, List.nil_append, lookup_cons, if_true]

theorem not_hasKey_of_lt {f : Fib κ π} {c : κ} (h : ∀ x ∈ f, c < x.1) : ¬ HasKey f c := by
  rintro ⟨x, hx, rfl⟩; exact irrefl _ (h x hx)

/-- **structure of the result**, coordinate by coordinate -/
theorem popSpec_lookup (z : Fib κ π) (b : Fib κ β) (hz : Sorted z) (hb : Sorted b) (c : κ) :
    lookup (popSpec mk rm body z b) c = popExpect mk rm body z b c := by
  fun_induction popSpec mk rm body z b with
  | case1 z => simp [popExpect, lookup]
  | case2 bc bp rb ih =>
    by_cases hc : bc = c
    · subst hc
      have hno : ¬ HasKey (popSpec mk rm body [] rb) bc := by
        intro h
        rcases popSpec_keys mk rm body _ _ _ h with h | h
        · exact not_hasKey_nil _ h
        · exact irrefl _ (hb.lt_of_hasKey h)
      rw [lookup_popKeep_append_eq rm hno]
      have e1 : lookup ((bc, bp) :: rb) bc = some bp := by rw [lookup_cons]; simp
      simp only [popExpect, popAt, e1, lookup_nil, Option.isNone_none, Option.getD_none]
      rfl
    · have e1 : lookup ((bc, bp) :: rb) c = lookup rb c := lookup_cons_ne hc
      rw [lookup_popKeep_append_ne rm hc, ih sorted_nil hb.tail]
      simp only [popExpect, e1]
  | case3 zc zp rz bc bp rb hlt ih =>
    by_cases hc : zc = c
    · subst hc
      have hnb : lookup ((bc, bp) :: rb) zc = none :=
        lookup_none_of_not_hasKey (fun h => irrefl _ (hb.lt_of_hasKey_cons hlt h))
      simp [popExpect, hnb, lookup_cons]
    · have e1 : lookup ((zc, zp) :: rz) c = lookup rz c := lookup_cons_ne hc
      rw [lookup_cons_ne (f := popSpec mk rm body rz ((bc, bp) :: rb)) (e := (zc, zp)) hc, ih hz.tail hb]
      simp only [popExpect, popAt, e1]
  | case4 zp rz bc bp rb hlt ih =>
    by_cases hc : bc = c
    · subst hc
      have hno : ¬ HasKey (popSpec mk rm body rz rb) bc := by
        intro h
        rcases popSpec_keys mk rm body _ _ _ h with h | h
        · exact irrefl _ (hz.lt_of_hasKey h)
        · exact irrefl _ (hb.lt_of_hasKey h)
      rw [lookup_popKeep_append_eq rm hno]
      have e1 : lookup ((bc, bp) :: rb) bc = some bp := by rw [lookup_cons]; simp
      have e2 : lookup ((bc, zp) :: rz) bc = some zp := by rw [lookup_cons]; simp
      simp only [popExpect, popAt, e1, e2, Option.isNone_some, Option.getD_some]
    · have e1 : lookup ((bc, bp) :: rb) c = lookup rb c := lookup_cons_ne hc
      have e2 : lookup ((bc, zp) :: rz) c = lookup rz c := lookup_cons_ne hc
      rw [lookup_popKeep_append_ne rm hc, ih hz.tail hb.tail]
      simp only [popExpect, popAt, e1, e2]
  | case5 zc zp rz bc bp rb hnlt hne ih =>
    have hgt : bc < zc := gt_of_not_lt_ne hne hnlt
    by_cases hc : bc = c
    · subst hc
      have hnz : ¬ HasKey ((zc, zp) :: rz) bc := fun h => irrefl _ (hz.lt_of_hasKey_cons hgt h)
      have hno : ¬ HasKey (popSpec mk rm body ((zc, zp) :: rz) rb) bc := by
        intro h
        rcases popSpec_keys mk rm body _ _ _ h with h | h
        · exact hnz h
        · exact irrefl _ (hb.lt_of_hasKey h)
      rw [lookup_popKeep_append_eq rm hno]
      have e1 : lookup ((bc, bp) :: rb) bc = some bp := by rw [lookup_cons]; simp
      simp only [popExpect, popAt, e1, lookup_none_of_not_hasKey hnz, Option.isNone_none, Option.getD_none]
    · have e1 : lookup ((bc, bp) :: rb) c = lookup rb c := lookup_cons_ne hc
      rw [lookup_popKeep_append_ne rm hc, ih hz hb.tail]
      simp only [popExpect, e1]

end
end Ft
