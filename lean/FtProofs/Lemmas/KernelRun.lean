/-
  C06 helper lemmas, part 3: the loop nest computes the dense sum (induction on the loop order).
-/
import FtProofs.Lemmas.KernelCoiter
import FtProofs.C05
set_option linter.unusedSectionVars false
set_option linter.unusedSimpArgs false
set_option linter.unusedVariables false
namespace Ft.C06
open Ft StrictTotal

section
variable {κ : Type} [LT κ] [DecidableRel (α := κ) (· < ·)] [DecidableEq κ] [StrictTotal κ]

/-- what a loop nest over `order` assumes of its operand cursors: concordant rank orders, every
    loop variable in some operand, well-formed trees with coordinates inside the universe -/
structure OpsOK (U : List κ) (order : List Nat) (ops : List (Cur κ)) : Prop where
  conc : ∀ c ∈ ops, c.ranks.Sublist order
  cover : ∀ v ∈ order, ∃ c ∈ ops, v ∈ c.ranks
  wf : ∀ c ∈ ops, c.WF
  inU : ∀ c ∈ ops, c.In U

theorem prodVal_append (a b : List (Cur κ)) (σ : Nat → κ) :
    prodVal (a ++ b) σ = prodVal a σ * prodVal b σ := by
  unfold prodVal; rw [List.map_append, prodL_append]

theorem prodVal_split (v : Nat) (ops : List (Cur κ)) (σ : Nat → κ) :
    prodVal ops σ = prodVal (ops.filter (isPart v)) σ * prodVal (ops.filter (fun c => !isPart v c)) σ :=
  prodL_filter_split (fun c => cval c σ) (isPart v) ops

theorem prodVal_zero (ops : List (Cur κ)) (σ : Nat → κ) (p : Cur κ) (hp : p ∈ ops) (h0 : cval p σ = 0) :
    prodVal ops σ = 0 := by
  unfold prodVal
  apply prodL_zero_of_mem
  rw [← h0]
  exact List.mem_map.2 ⟨p, hp, rfl⟩

theorem prodVal_at (v : Nat) (P : List (Cur κ)) (hP : Parts v P) (σ : Nat → κ) :
    prodVal (P.map (Cur.at (σ v))) σ = prodVal P σ := by
  unfold prodVal
  rw [List.map_map]
  congr 1
  apply List.map_congr_left
  intro p hp
  obtain ⟨hpv, hpw⟩ := hP p hp
  obtain ⟨rs, t, rfl⟩ := isPart_iff.1 hpv
  exact (cval_at v rs t hpw σ).symm

/-! ### one loop level -/

section level
variable {U : List κ} {v : Nat} {rest : List Nat} {ops : List (Cur κ)}

theorem parts_of_ok (hok : OpsOK U (v :: rest) ops) : Parts v (ops.filter (isPart v)) := by
  intro p hp
  obtain ⟨h1, h2⟩ := List.mem_filter.1 hp
  exact ⟨h2, hok.wf p h1⟩

theorem parts_ne_nil (hnd : (v :: rest).Nodup) (hok : OpsOK U (v :: rest) ops) :
    ops.filter (isPart v) ≠ [] := by
  obtain ⟨c, hc, hv⟩ := hok.cover v (List.mem_cons_self ..)
  have hsub := hok.conc c hc
  have hvr : v ∉ rest := (List.nodup_cons.1 hnd).1
  intro hnil
  have : c ∈ ops.filter (isPart v) := by
    apply List.mem_filter.2 ⟨hc, ?_⟩
    obtain ⟨ranks, t⟩ := c
    rcases List.sublist_cons_iff.1 hsub with h | ⟨r, hr, _⟩
    · exact absurd (h.subset hv) hvr
    · simp only at hr; subst hr; simp [isPart]
  rw [hnil] at this; cases this

theorem other_ranks (hnd : (v :: rest).Nodup) (hok : OpsOK U (v :: rest) ops) (o : Cur κ)
    (ho : o ∈ ops.filter (fun c => !isPart v c)) : o.ranks.Sublist rest ∧ v ∉ o.ranks := by
  obtain ⟨h1, h2⟩ := List.mem_filter.1 ho
  have hsub := hok.conc o h1
  have hvr : v ∉ rest := (List.nodup_cons.1 hnd).1
  have : o.ranks.Sublist rest := by
    rcases List.sublist_cons_iff.1 hsub with h | ⟨r, hr, _⟩
    · exact h
    · exfalso
      have : isPart v o = true := by simp [isPart, hr]
      simp [this] at h2
  exact ⟨this, fun hv => hvr (this.subset hv)⟩

/-- placing the payloads delivered for the participants = replacing each participant in place -/
theorem place_map (v : Nat) (f : Cur κ → Cur κ) : ∀ (ops : List (Cur κ)),
    place v ops ((ops.filter (isPart v)).map f) = ops.map (fun c => if isPart v c then f c else c)
  | [] => rfl
  | c :: cs => by
    by_cases h : isPart v c = true
    · simp only [List.filter_cons, h, if_true, List.map_cons, place]
      rw [place_map v f cs]
    · have h' : isPart v c = false := by simpa using h
      simp only [List.filter_cons, h', Bool.false_eq_true, if_false, List.map_cons, place]
      rw [place_map v f cs]

/-- the operand cursors of the inner loops satisfy the hypotheses again -/
theorem step_ok (hnd : (v :: rest).Nodup) (hok : OpsOK U (v :: rest) ops) (c : κ) :
    OpsOK U rest (ops.map (fun x => if isPart v x then Cur.at c x else x)) := by
  have hvr : v ∉ rest := (List.nodup_cons.1 hnd).1
  have hother : ∀ x ∈ ops, isPart v x = false → x.ranks.Sublist rest := fun x hx hp =>
    (other_ranks hnd hok x (List.mem_filter.2 ⟨hx, by simp [hp]⟩)).1
  refine ⟨?_, ?_, ?_, ?_⟩
  · intro y hy
    obtain ⟨x, hx, rfl⟩ := List.mem_map.1 hy
    by_cases hp : isPart v x = true
    · rw [if_pos hp]
      obtain ⟨rs, t, rfl⟩ := isPart_iff.1 hp
      exact List.cons_sublist_cons.1 (hok.conc _ hx)
    · rw [if_neg hp]
      exact hother x hx (by simpa using hp)
  · intro w hw
    obtain ⟨x, hx, hwx⟩ := hok.cover w (List.mem_cons_of_mem _ hw)
    refine ⟨_, List.mem_map.2 ⟨x, hx, rfl⟩, ?_⟩
    by_cases hp : isPart v x = true
    · rw [if_pos hp]
      obtain ⟨rs, t, rfl⟩ := isPart_iff.1 hp
      rw [at_ranks]
      rcases List.mem_cons.1 hwx with h | h
      · exact absurd (h ▸ hw) hvr
      · exact h
    · rw [if_neg hp]; exact hwx
  · intro y hy
    obtain ⟨x, hx, rfl⟩ := List.mem_map.1 hy
    by_cases hp : isPart v x = true
    · rw [if_pos hp]
      obtain ⟨rs, t, rfl⟩ := isPart_iff.1 hp
      exact at_wf v rs t (hok.wf _ hx) c
    · rw [if_neg hp]; exact hok.wf x hx
  · intro y hy
    obtain ⟨x, hx, rfl⟩ := List.mem_map.1 hy
    by_cases hp : isPart v x = true
    · rw [if_pos hp]
      obtain ⟨rs, t, rfl⟩ := isPart_iff.1 hp
      exact at_in U v rs t (hok.wf _ hx) (hok.inU _ hx) c
    · rw [if_neg hp]; exact hok.inU x hx

/-- inside the loop body the product of the operands is the product of the delivered payloads
    and the operands that did not take part -/
theorem prodVal_step (hnd : (v :: rest).Nodup) (hok : OpsOK U (v :: rest) ops) (σ : Nat → κ) :
    prodVal ops σ = prodVal (ops.map (fun x => if isPart v x then Cur.at (σ v) x else x)) σ := by
  unfold prodVal
  rw [List.map_map]
  congr 1
  apply List.map_congr_left
  intro x hx
  show cval x σ = cval (if isPart v x then Cur.at (σ v) x else x) σ
  by_cases hp : isPart v x = true
  · rw [if_pos hp]
    obtain ⟨rs, t, rfl⟩ := isPart_iff.1 hp
    exact cval_at v rs t (hok.wf _ hx) σ
  · rw [if_neg hp]

/-- a coordinate without a row: some participant does not present it, the product is zero -/
theorem prodVal_absent (hnd : (v :: rest).Nodup) (hok : OpsOK U (v :: rest) ops)
    (rows : Fib κ (List (Cur κ))) (hrows : RowsOK (ops.filter (isPart v)) rows) (σ : Nat → κ)
    (hk : ¬ HasKey rows (σ v)) : prodVal ops σ = 0 := by
  have hP := parts_of_ok hok
  have : ¬ ∀ p ∈ ops.filter (isPart v), (lookup p.elems (σ v)).isSome = true := fun h => hk (hrows.complete _ h)
  have : ∃ p ∈ ops.filter (isPart v), lookup p.elems (σ v) = none := by
    apply Classical.byContradiction
    intro hne
    apply this
    intro p hp
    cases hl : lookup p.elems (σ v) with
    | none => exact absurd ⟨p, hp, hl⟩ hne
    | some s => rfl
  obtain ⟨p, hp, hl⟩ := this
  obtain ⟨hpv, hpw⟩ := hP p hp
  obtain ⟨rs, t, rfl⟩ := isPart_iff.1 hpv
  exact prodVal_zero ops σ _ (List.mem_filter.1 hp).1 (cval_zero_of_absent v rs t hpw σ hl)

theorem row_key_in (hnd : (v :: rest).Nodup) (hok : OpsOK U (v :: rest) ops)
    (rows : Fib κ (List (Cur κ))) (hrows : RowsOK (ops.filter (isPart v)) rows) :
    ∀ r ∈ rows, r.1 ∈ U := by
  intro r hr
  have hne := parts_ne_nil hnd hok
  cases hP : ops.filter (isPart v) with
  | nil => exact absurd hP hne
  | cons p ps =>
    have hp : p ∈ ops.filter (isPart v) := by rw [hP]; exact List.mem_cons_self ..
    have hk := hrows.keys r hr p (by rw [hP]; rfl)
    obtain ⟨hpv, _⟩ := parts_of_ok hok p hp
    obtain ⟨rs, t, rfl⟩ := isPart_iff.1 hpv
    exact elems_key_in U v rs t (hok.inU _ (List.mem_filter.1 hp).1) r.1 hk

/-- the inner sums at a row's coordinate: operands replaced by the delivered payloads -/
theorem esum_row (hnd : (v :: rest).Nodup) (hok : OpsOK U (v :: rest) ops)
    (rows : Fib κ (List (Cur κ))) (hrows : RowsOK (ops.filter (isPart v)) rows)
    (r : κ × List (Cur κ)) (hr : r ∈ rows) (C : (Nat → κ) → Prop) [DecidablePred C] (σ0 : Nat → κ) :
    esum U rest (fun σ => if C σ then prodVal ops σ else 0) (upd σ0 v r.1) =
    esum U rest (fun σ => if C σ then prodVal (place v ops r.2) σ else 0) (upd σ0 v r.1) := by
  have hvr : v ∉ rest := (List.nodup_cons.1 hnd).1
  apply esum_congr
  intro σ hσ
  have hσv : σ v = r.1 := by rw [hσ v hvr, upd_same]
  rw [prodVal_step hnd hok σ, hσv, hrows.sub r hr, place_map]

/-- the inner sums at a coordinate without a row vanish -/
theorem esum_absent (hnd : (v :: rest).Nodup) (hok : OpsOK U (v :: rest) ops)
    (rows : Fib κ (List (Cur κ))) (hrows : RowsOK (ops.filter (isPart v)) rows)
    (c : κ) (hk : ¬ HasKey rows c) (C : (Nat → κ) → Prop) [DecidablePred C] (σ0 : Nat → κ) :
    esum U rest (fun σ => if C σ then prodVal ops σ else 0) (upd σ0 v c) = 0 := by
  have hvr : v ∉ rest := (List.nodup_cons.1 hnd).1
  apply esum_eq_zero
  intro σ hσ
  have hσv : σ v = c := by rw [hσ v hvr, upd_same]
  rw [prodVal_absent hnd hok rows hrows σ (by rw [hσv]; exact hk)]
  simp

/-- **a plain `for` over the co-iteration** adds up, over the rows, the inner sums — which is the
    sum over the whole universe -/
theorem sum_rows (hU : Asc U) (hnd : (v :: rest).Nodup) (hok : OpsOK U (v :: rest) ops)
    (rows : Fib κ (List (Cur κ))) (hrows : RowsOK (ops.filter (isPart v)) rows)
    (C : (Nat → κ) → Prop) [DecidablePred C] (σ0 : Nat → κ) :
    esum U (v :: rest) (fun σ => if C σ then prodVal ops σ else 0) σ0 =
    (rows.map (fun r => esum U rest
      (fun σ => if C σ then prodVal (place v ops r.2) σ else 0) (upd σ0 v r.1))).sum := by
  simp only [esum]
  rw [sum_support (fun c => esum U rest (fun σ => if C σ then prodVal ops σ else 0) (upd σ0 v c)) U rows hU
    hrows.sorted (row_key_in hnd hok rows hrows)
    (fun c _ hk => esum_absent hnd hok rows hrows c hk C σ0)]
  apply sum_map_congr
  intro r hr
  exact esum_row hnd hok rows hrows r hr C σ0

end level

/-! ### folds -/

theorem foldl_inv {Z R : Type} (step : Z → R → Z) (Inv : Z → Prop) (m : Z → Int) (E : R → Int) :
    ∀ (rows : List R) (z : Z),
      (∀ z r, r ∈ rows → Inv z → Inv (step z r) ∧ m (step z r) = m z + E r) → Inv z →
      Inv (rows.foldl step z) ∧ m (rows.foldl step z) = m z + (rows.map E).sum
  | [], z, _, hz => ⟨hz, by simp⟩
  | r :: rows, z, h, hz => by
    obtain ⟨h1, h2⟩ := h z r (List.mem_cons_self ..) hz
    obtain ⟨h3, h4⟩ := foldl_inv step Inv m E rows (step z r)
      (fun z' r' hr' => h z' r' (List.mem_cons_of_mem _ hr')) h1
    refine ⟨h3, ?_⟩
    simp only [List.foldl_cons, List.map_cons, List.sum_cons]
    rw [h4, h2]; omega

/-! ### the loop nest -/

/-- **main induction.**  For every style of co-iteration, every loop order, all concordant
    well-formed operands and every well-formed output tree: the loop nest leaves a well-formed
    output whose value at every point is the old value plus the dense sum of products. -/
theorem run_spec (style : Style) (U : List κ) (hU : Asc U) :
    ∀ (order : List Nat) (ops : List (Cur κ)) (zr : List Nat) (z : Tree κ Int zr.length),
      order.Nodup → OpsOK U order ops → zr.Sublist order → Ft.WF zr.length z →
      Ft.WF zr.length (run style order ops zr z) ∧
      ∀ (σ0 : Nat → κ) (q : List κ), q.length = zr.length →
        val (0 : Int) zr.length (run style order ops zr z) q =
          val (0 : Int) zr.length z q + einsum U order ops (fun σ => zr.map σ) q σ0 := by
  intro order
  induction order with
  | nil =>
    intro ops zr z _ hok hzr _
    cases zr with
    | cons a l => cases hzr
    | nil =>
      refine ⟨trivial, ?_⟩
      intro σ0 q hq
      have hq' : q = [] := List.length_eq_zero_iff.1 hq
      subst hq'
      have hleaf : ops.map Cur.leaf = ops.map (fun c => cval c σ0) := by
        apply List.map_congr_left
        intro c hc
        have := hok.conc c hc
        obtain ⟨ranks, t⟩ := c
        have hr : ranks = [] := List.eq_nil_of_sublist_nil this
        subst hr
        rfl
      show (show Int from z) + prodL (ops.map Cur.leaf) = (show Int from z) + _
      rw [hleaf]
      simp [einsum, esum, prodVal]
  | cons v rest ih =>
    intro ops zr z hnd hok hzr hzwf
    have hnd' : rest.Nodup := (List.nodup_cons.1 hnd).2
    have hvr : v ∉ rest := (List.nodup_cons.1 hnd).1
    have hP := parts_of_ok hok
    have hne := parts_ne_nil hnd hok
    have hrows := rowsOK style v _ hP hne
    -- the inner loops, started from any row
    have inner : ∀ (r : κ × List (Cur κ)), r ∈ coiter style (ops.filter (isPart v)) →
        OpsOK U rest (place v ops r.2) := by
      intro r hr
      rw [hrows.sub r hr, place_map]
      exact step_ok hnd hok r.1
    cases zr with
    | nil =>
      -- reduction loop into a scalar reference
      have hrun : run style (v :: rest) ops [] z =
          (coiter style (ops.filter (isPart v))).foldl
            (fun (acc : Tree κ Int ([] : List Nat).length) r =>
              run style rest (place v ops r.2) [] acc) z := rfl
      refine ⟨trivial, ?_⟩
      intro σ0 q hq
      rw [hrun]
      have := foldl_inv
        (fun (acc : Tree κ Int ([] : List Nat).length) (r : κ × List (Cur κ)) =>
          run style rest (place v ops r.2) [] acc)
        (fun _ => True) (fun acc => val (0 : Int) 0 acc q)
        (fun r => einsum U rest (place v ops r.2) (fun σ => ([] : List Nat).map σ) q (upd σ0 v r.1))
        (coiter style (ops.filter (isPart v))) z
        (fun acc r hr _ => ⟨trivial, (ih _ [] acc hnd' (inner r hr) (List.nil_sublist _) trivial).2 (upd σ0 v r.1) q hq⟩)
        trivial
      refine this.2.trans ?_
      congr 1
      exact (sum_rows hU hnd hok _ hrows (fun σ => ([] : List Nat).map σ = q) σ0).symm
    | cons zv zr' =>
      by_cases hzv : zv = v
      · -- the co-iteration drives a populate of the output rank
        subst hzv
        have hzr' : zr'.Sublist rest := List.cons_sublist_cons.1 hzr
        have hvz : zv ∉ zr' := fun h => hvr (hzr'.subset h)
        have hrun : run style (zv :: rest) ops (zv :: zr') z =
            (populate (0 : Int) zr'.length
              (fun _ cur (subs : List (Cur κ)) =>
                run style rest (place zv ops subs) zr' cur)
              (show Tree κ Int (zr'.length + 1) from z) (coiter style (ops.filter (isPart zv)))).1 := by
          simp [run]
        rw [hrun]
        constructor
        · apply populate_wf
          · intro c cur subs hmem hcur
            exact (ih _ zr' cur hnd' (inner (c, subs) hmem) hzr' hcur).1
          · exact hzwf
          · exact hrows.sorted
        · intro σ0 q hq
          cases q with
          | nil => cases hq
          | cons qc q' =>
            have hq' : q'.length = zr'.length := by simpa using hq
            refine (populate_val (0 : Int) zr'.length _ _ _ hzwf hrows.sorted qc q').trans ?_
            -- the dense side: only the coordinate qc of the universe can contribute
            have hother : ∀ c, c ≠ qc → esum U rest
                (fun σ => if (zv :: zr').map σ = qc :: q' then prodVal ops σ else 0) (upd σ0 zv c) = 0 := by
              intro c hc
              apply esum_eq_zero
              intro σ hσ
              have hσv : σ zv = c := by rw [hσ zv hvr, upd_same]
              have : ¬ ((zv :: zr').map σ = qc :: q') := by
                intro h
                simp only [List.map_cons, List.cons.injEq] at h
                exact hc (hσv ▸ h.1)
              exact if_neg this
            cases hl : lookup (coiter style (ops.filter (isPart zv))) qc with
            | none =>
              simp only
              have hk : ¬ HasKey (coiter style (ops.filter (isPart zv))) qc := by
                rw [hasKey_iff_lookup, hl]; simp
              have : einsum U (zv :: rest) ops (fun σ => (zv :: zr').map σ) (qc :: q') σ0 = 0 := by
                unfold einsum
                simp only [esum]
                apply sum_map_zero
                intro c _
                by_cases hc : c = qc
                · subst hc
                  exact esum_absent hnd hok _ hrows c hk
                    (fun σ => (zv :: zr').map σ = c :: q') σ0
                · exact hother c hc
              rw [this]; simp
            | some subs =>
              simp only
              have hmem : (qc, subs) ∈ coiter style (ops.filter (isPart zv)) := lookup_mem hl
              have hcur : Ft.WF zr'.length ((lookup (show List (κ × Tree κ Int zr'.length) from z) qc).getD
                  (defaultTree (0 : Int) zr'.length)) := by
                cases hz : lookup (show List (κ × Tree κ Int zr'.length) from z) qc with
                | none => exact wf_defaultTree (0 : Int) zr'.length
                | some s => exact hzwf.sub _ (lookup_mem hz)
              rw [(ih _ zr' _ hnd' (inner (qc, subs) hmem) hzr' hcur).2 (upd σ0 zv qc) q' hq']
              have hvalcur : val (0 : Int) zr'.length ((lookup (show List (κ × Tree κ Int zr'.length) from z) qc).getD
                  (defaultTree (0 : Int) zr'.length)) q' = val (0 : Int) (zr'.length + 1) z (qc :: q') := by
                simp only [val]
                cases lookup (show List (κ × Tree κ Int zr'.length) from z) qc with
                | none => exact val_defaultTree (0 : Int) zr'.length q'
                | some s => rfl
              rw [hvalcur]
              congr 1
              have hqcU : qc ∈ U := row_key_in hnd hok _ hrows (qc, subs) hmem
              unfold einsum
              simp only [esum]
              rw [sum_single _ U hU qc hqcU (fun x _ hx => hother x hx)]
              symm
              refine (esum_row hnd hok _ hrows (qc, subs) hmem
                (fun σ => (zv :: zr').map σ = qc :: q') σ0).trans ?_
              apply esum_congr
              intro σ hσ
              have hσv : σ zv = qc := by rw [hσ zv hvr, upd_same]
              simp only [List.map_cons, hσv, List.cons.injEq, true_and]
      · -- the output does not have this rank: a plain loop, the output reference is carried along
        have hzr' : (zv :: zr').Sublist rest := by
          rcases List.sublist_cons_iff.1 hzr with h | ⟨r, hr, _⟩
          · exact h
          · exact absurd (List.cons.inj hr).1 hzv
        have hrun : run style (v :: rest) ops (zv :: zr') z =
            (coiter style (ops.filter (isPart v))).foldl
              (fun (acc : Tree κ Int (zv :: zr').length) r =>
                run style rest (place v ops r.2) (zv :: zr') acc) z := by
          simp [run, hzv]
        rw [hrun]
        have fold := fun (σ0 : Nat → κ) (q : List κ) (hq : q.length = (zv :: zr').length) => foldl_inv
          (fun (acc : Tree κ Int (zv :: zr').length) (r : κ × List (Cur κ)) =>
            run style rest (place v ops r.2) (zv :: zr') acc)
          (fun acc => Ft.WF (zv :: zr').length acc) (fun acc => val (0 : Int) (zv :: zr').length acc q)
          (fun r => einsum U rest (place v ops r.2) (fun σ => (zv :: zr').map σ) q (upd σ0 v r.1))
          (coiter style (ops.filter (isPart v))) z
          (fun acc r hr hacc =>
            ⟨(ih _ (zv :: zr') acc hnd' (inner r hr) hzr' hacc).1,
             (ih _ (zv :: zr') acc hnd' (inner r hr) hzr' hacc).2 (upd σ0 v r.1) q hq⟩)
          hzwf
        constructor
        · exact (foldl_inv
            (fun (acc : Tree κ Int (zv :: zr').length) (r : κ × List (Cur κ)) =>
              run style rest (place v ops r.2) (zv :: zr') acc)
            (fun acc => Ft.WF (zv :: zr').length acc) (fun _ => 0) (fun _ => 0)
            (coiter style (ops.filter (isPart v))) z
            (fun acc r hr hacc => ⟨(ih _ (zv :: zr') acc hnd' (inner r hr) hzr' hacc).1, by simp⟩)
            hzwf).1
        · intro σ0 q hq
          refine (fold σ0 q hq).2.trans ?_
          congr 1
          exact (sum_rows hU hnd hok _ hrows (fun σ => (zv :: zr').map σ = q) σ0).symm

/-! ### same tensors, static shape conditions -/

/-- two cursors denote the same tensor: equal values under every assignment of the index variables
    (what `swizzleRanks` must establish between an operand and its re-ordered copy) -/
def SameTensor (c₁ c₂ : Cur κ) : Prop := ∀ σ, cval c₁ σ = cval c₂ σ

/-- operand by operand -/
def SameOps : List (Cur κ) → List (Cur κ) → Prop
  | [], [] => True
  | a :: as, b :: bs => SameTensor a b ∧ SameOps as bs
  | _, _ => False

theorem prodVal_same : ∀ {ops₁ ops₂ : List (Cur κ)}, SameOps ops₁ ops₂ → ∀ (σ : Nat → κ),
    prodVal ops₁ σ = prodVal ops₂ σ
  | [], [], _, _ => rfl
  | a :: as, b :: bs, h, σ => by
    have ih := prodVal_same h.2 σ
    unfold prodVal at *
    simp only [List.map_cons, prodL]
    rw [h.1 σ, ih]
  | [], _ :: _, h, _ => h.elim
  | _ :: _, [], h, _ => h.elim

/-- static side conditions of a program: operands concordant with the loop order, every loop
    variable in some operand -/
def shapeB (order : List Nat) (rks : List (List Nat)) : Bool :=
  rks.all (fun r => r.isSublist order) && order.all (fun v => rks.any (fun r => r.contains v))

theorem opsOK_of_shape (U : List κ) (order : List Nat) (ops : List (Cur κ))
    (hshape : shapeB order (ops.map (·.ranks)) = true)
    (htrees : ∀ c ∈ ops, Ft.WF c.ranks.length c.t ∧ coordsInB U c.ranks.length c.t = true) : OpsOK U order ops := by
  simp only [shapeB, Bool.and_eq_true, List.all_eq_true, List.any_eq_true, List.mem_map,
    forall_exists_index, and_imp, forall_apply_eq_imp_iff₂, List.contains_iff_mem] at hshape
  refine ⟨fun c hc => List.isSublist_iff_sublist.1 (hshape.1 c hc), ?_, fun c hc => (htrees c hc).1,
    fun c hc => (htrees c hc).2⟩
  intro v hv
  obtain ⟨r, ⟨c, hc, rfl⟩, hvr⟩ := hshape.2 v hv
  exact ⟨c, hc, hvr⟩


end
end Ft.C06
